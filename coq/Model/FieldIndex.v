(* Model/FieldIndex.v: executable model mirroring /repo/field_index.go branch for branch.
   An index is a list of (key, object id), kept in DESCENDING key order (smallest last).
   None = Go run-time panic (index/slice out of range, explicit panic) or fuel exhaustion;
   fuel exhaustion is excluded by the theorems (Proofs/FIProofs*.v). No proofs in this file. *)
From Coq Require Import List Arith Lia Bool PeanoNat ZArith NArith.
Import ListNotations.
Open Scope Z_scope.

Section FI.
Variable K : Type.
Variable ltb eqb : K -> K -> bool.

Definition entry := (K * N)%type.
Definition gtb (a b : K) := negb (ltb a b) && negb (eqb a b).   (* indexedField.greater *)

Definition len (l : list entry) : Z := Z.of_nat (length l).
Definition at_ (l : list entry) (p : Z) : option entry :=
  if p <? 0 then None else nth_error l (Z.to_nat p).

(* Go: l[i:j] ; panics unless 0 <= i <= j <= len *)
Definition slice (l : list entry) (i j : Z) : option (list entry) :=
  if (0 <=? i) && (i <=? j) && (j <=? len l)
  then Some (firstn (Z.to_nat (j - i)) (skipn (Z.to_nat i) l)) else None.

Fixpoint ins_rec (fuel : nat) (l : list entry) (k : K) (i j : Z) : option Z :=
  match fuel with
  | O => None
  | S f =>
    if len l =? 0 then Some 0 else
    if len l =? 1 then
      match at_ l 0 with None => None | Some e => Some (if ltb (fst e) k then 0 else 1) end
    else if j - i =? 1 then
      match at_ l i with None => None | Some e => Some (if ltb (fst e) k then i else j) end
    else
      let pivot := (j + 1 - i) / 2 + i in
      match at_ l pivot with
      | None => None
      | Some e => if ltb (fst e) k then ins_rec f l k i pivot else ins_rec f l k pivot j
      end
  end.

Definition insertion_index (l : list entry) (k : K) : option Z :=
  ins_rec (S (length l)) l k 0 (len l).

(* for i >= 0 && P(l[i]); i-- {}  -> final i *)
Fixpoint scan_down (P : K -> bool) (fuel : nat) (l : list entry) (i : Z) : option Z :=
  match fuel with
  | O => None
  | S f =>
    if i <? 0 then Some i else
    match at_ l i with
    | None => None
    | Some e => if P (fst e) then scan_down P f l (i - 1) else Some i
    end
  end.

Definition range_equal (l : list entry) (k : K) : option (Z * Z) :=
  match insertion_index l k with
  | None => None
  | Some r =>
    let j := r - 1 in
    match scan_down (fun x => eqb x k) (S (length l)) l j with
    | None => None
    | Some i => Some (i + 1, j)
    end
  end.

Definition search_eq (l : list entry) (k : K) : option (list entry) :=
  match range_equal l k with
  | None => None
  | Some (i, j) =>
    if (i =? j) && (0 <? len l)
    then match at_ l i with None => None | Some e => Some [e] end
    else slice l i (j + 1)
  end.

Definition search_ne (l : list entry) (k : K) : option (list entry) :=
  match range_equal l k with
  | None => None
  | Some (i, j) =>
    match slice l 0 i, slice l (j + 1) (len l) with
    | Some a, Some b => Some (a ++ b)
    | _, _ => None
    end
  end.

Definition search_ge (l : list entry) (k : K) : option (list entry) :=
  match insertion_index l k with
  | None => None
  | Some i => if i =? 0 then Some [] else slice l 0 i
  end.

Definition last_index (l : list entry) : Z := len l - 1.

Definition search_gt (l : list entry) (k : K) : option (list entry) :=
  match insertion_index l k with
  | None => None
  | Some i0 =>
    let i1 := if last_index l <? i0 then i0 - 1 else i0 in
    match scan_down (fun x => negb (gtb x k)) (S (length l)) l i1 with
    | None => None
    | Some i =>
      if (i =? 0) && (0 <? len l) &&
         (match at_ l 0 with Some e => gtb (fst e) k | None => false end)
      then match at_ l 0 with Some e => Some [e] | None => None end
      else slice l 0 (i + 1)
    end
  end.

Definition search_lt (l : list entry) (k : K) : option (list entry) :=
  match insertion_index l k with
  | None => None
  | Some i => if last_index l <? i then Some [] else slice l i (len l)
  end.

Definition search_le (l : list entry) (k : K) : option (list entry) :=
  match insertion_index l k with
  | None => None
  | Some i0 =>
    let i1 := if last_index l <? i0 then i0 - 1 else i0 in
    match scan_down (fun x => negb (gtb x k)) (S (length l)) l i1 with
    | None => None
    | Some i => slice l (i + 1) (len l)
    end
  end.

(* insert: append, shift, store  ==  firstn i ++ [e] ++ skipn i *)
Definition insert (l : list entry) (e : entry) : option (list entry) :=
  match insertion_index l (fst e) with
  | None => None
  | Some i =>
    if last_index l <? i then Some (l ++ [e])
    else Some (firstn (Z.to_nat i) l ++ e :: skipn (Z.to_nat i) l)
  end.

Fixpoint control_from (v : K) (l : list entry) : bool :=
  match l with
  | [] => true
  | (tv, _) :: r => if negb (eqb v tv) && negb (ltb tv v) then false else control_from tv r
  end.
Definition control (l : list entry) : bool :=
  match l with [] => true | (v, _) :: _ => control_from v l end.

(* ---- objectIds map: oid -> entry.  On load it is rebuilt from Index in order, so for a
   (malformed) index with a repeated oid the LAST occurrence wins. ---- *)
Fixpoint find_oid (l : list entry) (oid : N) : option entry :=
  match l with
  | [] => None
  | e :: r => match find_oid r oid with
              | Some x => Some x
              | None => if N.eqb (snd e) oid then Some e else None
              end
  end.

Definition deep_equal (a b : entry) : bool := N.eqb (snd a) (snd b) && eqb (fst a) (fst b).

(* for ; i <= j; i++ { if deepEqual { return i, true } }; return 0, false *)
Fixpoint scan_key (fuel : nat) (l : list entry) (k : entry) (i j : Z) : option (option Z) :=
  match fuel with
  | O => None
  | S f =>
    if j <? i then Some None else
    match at_ l i with
    | None => None
    | Some e => if deep_equal e k then Some (Some i) else scan_key f l k (i + 1) j
    end
  end.

Definition search_key (l : list entry) (k : entry) : option (option Z) :=
  match range_equal l (fst k) with
  | None => None
  | Some (i, j) =>
    if i =? j then
      match at_ l i with
      | None => None
      | Some e => Some (if deep_equal e k then Some i else None)
      end
    else scan_key (S (length l)) l k i j
  end.

Definition remove_at (l : list entry) (i : Z) : list entry :=
  firstn (Z.to_nat i) l ++ skipn (S (Z.to_nat i)) l.

(* fieldIndex.Delete: panics ("object id not found" / "key not found") are None *)
Definition delete (l : list entry) (oid : N) : option (list entry) :=
  match find_oid l oid with
  | None => None
  | Some f =>
    match search_key l f with
    | Some (Some i) => Some (remove_at l i)
    | _ => None
    end
  end.

Definition update (l : list entry) (e : entry) : option (list entry) :=
  match delete l (snd e) with
  | None => None
  | Some l' => insert l' e
  end.

(* fieldIndex.Constrain: a NEW index built by inserting, in the order of [fields], the live
   entry of every object id that occurs in [fields] *)
Fixpoint constrain_acc (l : list entry) (fields : list entry) (acc : list entry) : option (list entry) :=
  match fields with
  | [] => Some acc
  | f :: r =>
    match find_oid l (snd f) with
    | None => constrain_acc l r acc
    | Some e => match insert acc e with
                | None => None
                | Some acc' => constrain_acc l r acc'
                end
    end
  end.
Definition constrain (l : list entry) (fields : list entry) : option (list entry) :=
  constrain_acc l fields [].

(* fieldIndex.Satisfy for a unique field: Some true = constraint satisfied *)
Definition satisfy_unique (l : list entry) (oid : N) (exist : bool) (k : K) : option bool :=
  match search_eq l k with
  | None => None
  | Some eqs =>
    match eqs with
    | [] => Some true
    | [e] => Some (exist && N.eqb (snd e) oid)
    | _ => Some false
    end
  end.

(* SearchByRegex with the match predicate as a parameter: a scan in index order *)
Definition search_rx (P : K -> bool) (l : list entry) : list entry :=
  filter (fun e => P (fst e)) l.

End FI.
