(* Value normalisation (indexed_field.go, newIndexedField) and its inverse for times (schema.go, assignIndex):
   every indexable Go value becomes an int64, uint64, float64 or string key.  Integers of every width keep
   their value; a time.Time becomes UTC().UnixNano(), which Go computes in int64 ARITHMETIC: seconds since the
   Unix epoch times 10^9 plus nanoseconds, the low 64 bits, signed.  AssignIndex turns a key back into a time
   with time.Unix(0, key). *)
From Coq Require Import List ZArith NArith Bool.
Import ListNotations.
From Sod.Model Require Import Base.
Open Scope Z_scope.

Definition two63 : Z := 9223372036854775808.
Definition two64 : Z := 18446744073709551616.
(* int64 wrap-around: the representative of z modulo 2^64 in [-2^63, 2^63) *)
Definition wrap64 (z : Z) : Z := (z + two63) mod two64 - two63.

Definition giga : Z := 1000000000.

(* a time.Time as an instant: Unix seconds (any int64 year) and nanoseconds within the second *)
Record gotime := { t_sec : Z; t_nsec : Z }.
Definition time_ok (t : gotime) : bool := (0 <=? t_nsec t) && (t_nsec t <? giga).
(* the nanoseconds since the epoch, as a mathematical integer: the time ordering is the order of these *)
Definition nanos (t : gotime) : Z := t_sec t * giga + t_nsec t.
Definition time_ltb (a b : gotime) : bool := nanos a <? nanos b.
Definition time_eqb (a b : gotime) : bool := nanos a =? nanos b.

(* Time.UnixNano *)
Definition time_key (t : gotime) : Z := wrap64 (nanos t).
(* time.Unix(0, k): seconds and nanoseconds by floor division *)
Definition key_time (k : Z) : gotime := {| t_sec := k / giga; t_nsec := k mod giga |}.
(* the years UnixNano is defined for *)
Definition in_unixnano_range (t : gotime) : bool := (- two63 <=? nanos t) && (nanos t <? two63).

(* the Go values newIndexedField accepts *)
Inductive goval :=
| GInt (bits : N) (z : Z)      (* int8/16/32/int/int64 *)
| GUint (bits : N) (z : Z)     (* uint8/16/32/uint/uint64 *)
| GFlt (code : Z)              (* float32 widened / float64, as the order-preserving code of Base.v *)
| GStr (s : list N)
| GTime (t : gotime)
| GOther.                      (* anything else: ErrUnknownKeyType *)

Definition normalise (v : goval) : option key :=
  match v with
  | GInt _ z => Some (KInt z)
  | GUint _ z => Some (KUint z)
  | GFlt c => Some (KFlt c)
  | GStr s => Some (KStr s)
  | GTime t => Some (KInt (time_key t))
  | GOther => None
  end.

(* the zero time.Time: January 1, year 1, 00:00:00 UTC *)
Definition zero_time : gotime := {| t_sec := -62135596800; t_nsec := 0 |}.
