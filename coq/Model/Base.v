(* Model/Base.v: error classes, three-valued results (Panic = Go run-time panic), keys and
   their ordering.  Executable definitions only. *)
From Coq Require Import List ZArith NArith Bool.
Import ListNotations.

Inductive err :=
| ENotFound | EUnique | EInvalid | EWrongType | ECasting | EUnknownField | EUnknownOp | EUnknownKey
| EBadPattern | ENoObject | EUnexpectedN | ECorrupted | EInconsistent | EStructure | EFieldDesc
| EExtension | EStorage | EJson | ENotIndexed | EBadSchema | EOther.

Definition err_eqb (a b : err) : bool :=
  match a, b with
  | ENotFound, ENotFound | EUnique, EUnique | EInvalid, EInvalid | EWrongType, EWrongType
  | ECasting, ECasting | EUnknownField, EUnknownField | EUnknownOp, EUnknownOp | EUnknownKey, EUnknownKey
  | EBadPattern, EBadPattern | ENoObject, ENoObject | EUnexpectedN, EUnexpectedN | ECorrupted, ECorrupted
  | EInconsistent, EInconsistent | EStructure, EStructure | EFieldDesc, EFieldDesc | EExtension, EExtension
  | EStorage, EStorage | EJson, EJson | ENotIndexed, ENotIndexed | EBadSchema, EBadSchema | EOther, EOther => true
  | _, _ => false
  end.

Inductive res (A : Type) : Type :=
| Ok (a : A)
| Err (e : err)
| Panic.
Arguments Ok {A} a.
Arguments Err {A} e.
Arguments Panic {A}.

(* lifting the field-index layer, where None = panic *)
Definition of_opt {A} (o : option A) : res A :=
  match o with Some a => Ok a | None => Panic end.

(* ---------------------------------------------------------------- keys *)

(* The four value kinds sod normalises every indexable Go value to (indexed_field.go):
   int64 (also time.Time as UnixNano), uint64, float64, string.  A float is represented by the
   order-preserving code of its IEEE-754 bit pattern (sign-magnitude, -0 and +0 both 0). *)
Inductive kind := KdInt | KdUint | KdFlt | KdStr.

Inductive key :=
| KInt (z : Z)
| KUint (z : Z)
| KFlt (z : Z)
| KStr (s : list N).

Definition kind_eqb (a b : kind) : bool :=
  match a, b with
  | KdInt, KdInt | KdUint, KdUint | KdFlt, KdFlt | KdStr, KdStr => true
  | _, _ => false
  end.

Definition kind_of (k : key) : kind :=
  match k with KInt _ => KdInt | KUint _ => KdUint | KFlt _ => KdFlt | KStr _ => KdStr end.

(* Go's string order: bytewise lexicographic *)
Fixpoint str_ltb (a b : list N) : bool :=
  match a, b with
  | [], [] => false
  | [], _ :: _ => true
  | _ :: _, [] => false
  | x :: a', y :: b' => if N.ltb x y then true else if N.ltb y x then false else str_ltb a' b'
  end.

Fixpoint str_eqb (a b : list N) : bool :=
  match a, b with
  | [], [] => true
  | x :: a', y :: b' => N.eqb x y && str_eqb a' b'
  | _, _ => false
  end.

Definition key_rank (k : key) : nat :=
  match k with KInt _ => 0 | KUint _ => 1 | KFlt _ => 2 | KStr _ => 3 end.

(* Within one kind this is Go's <; across kinds (where Go's type assertion would panic) the
   order is by kind, which makes key_ltb a strict weak order on the whole type.  Cross-kind
   comparisons never happen in reachable states: the cast check precedes every index access
   and every entry of a field index has the field's kind (invariant). *)
Definition key_ltb (a b : key) : bool :=
  match a, b with
  | KInt x, KInt y => Z.ltb x y
  | KUint x, KUint y => Z.ltb x y
  | KFlt x, KFlt y => Z.ltb x y
  | KStr s, KStr t => str_ltb s t
  | _, _ => Nat.ltb (key_rank a) (key_rank b)
  end.

Definition key_eqb (a b : key) : bool :=
  match a, b with
  | KInt x, KInt y => Z.eqb x y
  | KUint x, KUint y => Z.eqb x y
  | KFlt x, KFlt y => Z.eqb x y
  | KStr s, KStr t => str_eqb s t
  | _, _ => false
  end.

(* the code of +Inf; NaN is given a code above it by the harness.  json.Marshal refuses both. *)
Definition inf_code : Z := 9218868437227405312%Z.
Definition serialisable (k : key) : bool :=
  match k with KFlt z => Z.ltb (Z.abs z) inf_code | _ => true end.

(* ---------------------------------------------------------------- small list utilities *)

Fixpoint assoc {B} (k : N) (l : list (N * B)) : option B :=
  match l with
  | [] => None
  | (k', v) :: r => if N.eqb k k' then Some v else assoc k r
  end.

Definition remove_key {B} (k : N) (l : list (N * B)) : list (N * B) :=
  filter (fun p => negb (N.eqb (fst p) k)) l.

(* put: replace in place when present, append otherwise (maps have no order; this choice
   only fixes the order in which the model enumerates them) *)
Fixpoint put {B} (k : N) (v : B) (l : list (N * B)) : list (N * B) :=
  match l with
  | [] => [(k, v)]
  | (k', v') :: r => if N.eqb k k' then (k, v) :: r else (k', v') :: put k v r
  end.

Definition memN (k : N) (l : list N) : bool := existsb (N.eqb k) l.

Fixpoint nth_opt {A} (n : nat) (l : list A) : option A :=
  match n, l with
  | O, x :: _ => Some x
  | S n', _ :: r => nth_opt n' r
  | _, [] => None
  end.

Fixpoint set_nth {A} (n : nat) (v : A) (l : list A) : list A :=
  match n, l with
  | O, _ :: r => v :: r
  | S n', x :: r => x :: set_nth n' v r
  | _, [] => []
  end.
