(* Model/ObjIndex.v: executable model of /repo/object_index.go (objIndex) over flat records.
   A record is seen through its list of scalar keys, one per field of the schema's field table
   (fixed order).  Field indexes are aligned with that table: None = field not indexed. *)
From Coq Require Import List ZArith NArith Bool.
Import ListNotations.
From Sod.Model Require Import Base FieldIndex.

Notation entry := (key * N)%type.
Notation findex := (list (key * N)).

Definition fi_insert := FieldIndex.insert key key_ltb.
Definition fi_delete := FieldIndex.delete key key_ltb key_eqb.
Definition fi_update := FieldIndex.update key key_ltb key_eqb.
Definition fi_control := FieldIndex.control key key_ltb key_eqb.
Definition fi_constrain := FieldIndex.constrain key key_ltb.
Definition fi_satisfy_unique := FieldIndex.satisfy_unique key key_ltb key_eqb.
Definition fi_find_oid := FieldIndex.find_oid key.

(* field descriptor: kind (the code's "cast") and constraints *)
Record fdesc := { fd_kind : kind; fd_index : bool; fd_unique : bool; fd_upper : bool; fd_lower : bool }.
Definition fd_indexed (f : fdesc) : bool := fd_index f || fd_unique f.

Definition fdesc_eqb (a b : fdesc) : bool :=
  kind_eqb (fd_kind a) (fd_kind b) && Bool.eqb (fd_index a) (fd_index b) && Bool.eqb (fd_unique a) (fd_unique b)
  && Bool.eqb (fd_upper a) (fd_upper b) && Bool.eqb (fd_lower a) (fd_lower b).

Record oindex := {
  oi_next : N;                       (* objIndex.i: next object id *)
  oi_ids : list (N * N);             (* ObjectIds: object id -> uuid (uuids is its inverse) *)
  oi_fx : list (option findex)       (* Fields, aligned with the field table *)
}.

Definition new_index (fds : list fdesc) : oindex :=
  {| oi_next := 0; oi_ids := [];
     oi_fx := map (fun f => if fd_indexed f then Some [] else None) fds |}.

Fixpoint uuid_oid (ids : list (N * N)) (u : N) : option N :=
  match ids with
  | [] => None
  | (oid, u') :: r => if N.eqb u u' then Some oid else uuid_oid r u
  end.

Definition oid_uuid (ix : oindex) (oid : N) : option N := assoc oid (oi_ids ix).
Definition is_indexed (ix : oindex) (u : N) : bool :=
  match uuid_oid (oi_ids ix) u with Some _ => true | None => false end.
Definition indexed_uuids (ix : oindex) : list N := map snd (oi_ids ix).

(* apply f to every indexed field with the record's key for that field; None = panic *)
Fixpoint fx_map (f : key -> findex -> option findex) (keys : list key) (fx : list (option findex))
  : option (list (option findex)) :=
  match fx, keys with
  | [], _ => Some []
  | None :: r, _ :: ks => option_map (cons None) (fx_map f ks r)
  | Some l :: r, k :: ks =>
      match f k l with
      | None => None
      | Some l' => option_map (cons (Some l')) (fx_map f ks r)
      end
  | _ :: _, [] => None
  end.

(* objIndex.satisfyAll: Ok true = every unique field is satisfied *)
Fixpoint satisfy_all (fds : list fdesc) (keys : list key) (fx : list (option findex)) (oid : N) (exist : bool)
  : option bool :=
  match fx, keys, fds with
  | [], _, _ => Some true
  | None :: r, _ :: ks, _ :: ds => satisfy_all ds ks r oid exist
  | Some l :: r, k :: ks, d :: ds =>
      if fd_unique d then
        match fi_satisfy_unique l oid exist k with
        | None => None
        | Some false => Some false
        | Some true => satisfy_all ds ks r oid exist
        end
      else satisfy_all ds ks r oid exist
  | _, _, _ => None
  end.

Definition oi_satisfy_all (fds : list fdesc) (ix : oindex) (keys : list key) (u : N) : option bool :=
  match uuid_oid (oi_ids ix) u with
  | Some oid => satisfy_all fds keys (oi_fx ix) oid true
  | None => satisfy_all fds keys (oi_fx ix) 0%N false
  end.

(* objIndex.insertOrUpdate *)
Definition oi_insert_or_update (fds : list fdesc) (ix : oindex) (keys : list key) (u : N) : res oindex :=
  match oi_satisfy_all fds ix keys u with
  | None => Panic
  | Some false => Err EUnique
  | Some true =>
    match uuid_oid (oi_ids ix) u with
    | Some oid =>
        match fx_map (fun k l => fi_update l (k, oid)) keys (oi_fx ix) with
        | None => Panic
        | Some fx' => Ok {| oi_next := oi_next ix; oi_ids := oi_ids ix; oi_fx := fx' |}
        end
    | None =>
        match fx_map (fun k l => fi_insert l (k, oi_next ix)) keys (oi_fx ix) with
        | None => Panic
        | Some fx' => Ok {| oi_next := N.succ (oi_next ix);
                            oi_ids := oi_ids ix ++ [(oi_next ix, u)];
                            oi_fx := fx' |}
        end
    end
  end.

Fixpoint fx_delete (oid : N) (fx : list (option findex)) : option (list (option findex)) :=
  match fx with
  | [] => Some []
  | None :: r => option_map (cons None) (fx_delete oid r)
  | Some l :: r =>
      match fi_delete l oid with
      | None => None
      | Some l' => option_map (cons (Some l')) (fx_delete oid r)
      end
  end.

(* objIndex.deleteByUUID; None = panic ("object id not found" / "key not found") *)
Definition oi_delete (ix : oindex) (u : N) : option oindex :=
  match uuid_oid (oi_ids ix) u with
  | None => Some ix
  | Some oid =>
      match fx_delete oid (oi_fx ix) with
      | None => None
      | Some fx' => Some {| oi_next := oi_next ix; oi_ids := remove_key oid (oi_ids ix); oi_fx := fx' |}
      end
  end.

(* objIndex.control (object_index.go:267-291): two object ids must not refer to the same object
   (len(uuids) = len(ObjectIds)); every field index is ordered, as long as the id table, holds at
   most one entry per object id (len(fi.objectIds) = fi.Len()) and only known object ids *)
Fixpoint nodupN (l : list N) : bool :=
  match l with [] => true | x :: r => negb (memN x r) && nodupN r end.

Definition oi_control (ix : oindex) : bool :=
  nodupN (map snd (oi_ids ix)) &&
  forallb (fun o => match o with
                    | None => true
                    | Some l => fi_control l && Nat.eqb (length l) (length (oi_ids ix))
                                && nodupN (map snd l)
                                && forallb (fun e => memN (snd e) (map fst (oi_ids ix))) l
                    end) (oi_fx ix).

(* what objIndex.UnmarshalJSON rebuilds: next = (largest id, or 0) + 1 *)
Definition max_oid (ids : list (N * N)) : N := fold_left (fun m p => N.max m (fst p)) ids 0%N.
Definition oi_reload (ix : oindex) : oindex :=
  {| oi_next := N.succ (max_oid (oi_ids ix)); oi_ids := oi_ids ix; oi_fx := oi_fx ix |}.

(* ---------------------------------------------------------------- search operators *)

Inductive sop := OpEq | OpNe | OpLt | OpLe | OpGt | OpGe | OpRx | OpBad.

Definition eval_op (o : sop) (rx : key -> bool) (fk probe : key) : bool :=
  match o with
  | OpEq => key_eqb fk probe
  | OpNe => negb (key_eqb fk probe)
  | OpLt => key_ltb fk probe
  | OpLe => key_ltb fk probe || key_eqb fk probe
  | OpGt => FieldIndex.gtb key key_ltb key_eqb fk probe
  | OpGe => FieldIndex.gtb key key_ltb key_eqb fk probe || key_eqb fk probe
  | OpRx => rx fk
  | OpBad => false
  end.

(* the operator dispatch of objIndex.search on one field index.
   rxc: None = the pattern does not compile; Some m = match predicate on keys *)
Definition fi_search (l : findex) (o : sop) (probe : key) (rxc : option (key -> bool)) : res findex :=
  match o with
  | OpNe => of_opt (FieldIndex.search_ne key key_ltb key_eqb l probe)
  | OpEq => of_opt (FieldIndex.search_eq key key_ltb key_eqb l probe)
  | OpGt => of_opt (FieldIndex.search_gt key key_ltb key_eqb l probe)
  | OpGe => of_opt (FieldIndex.search_ge key key_ltb l probe)
  | OpLt => of_opt (FieldIndex.search_lt key key_ltb l probe)
  | OpLe => of_opt (FieldIndex.search_le key key_ltb key_eqb l probe)
  | OpRx => match probe with
            | KStr _ => match rxc with
                        | None => Err EBadPattern
                        | Some m => Ok (FieldIndex.search_rx key m l)
                        end
            | _ => Ok []    (* non-string probe: entries are not strings either, empty result *)
            end
  | OpBad => Err EUnknownOp
  end.
