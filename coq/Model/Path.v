(* Model/Path.v: how a search resolves a field path in an object (object_index.go: valueFieldByName,
   fieldByName).  Go values enter as trees read off the live value by reflection: every node carries the
   name of its Go type; a struct lists its fields with their names and whether they are exported; a nil
   pointer carries the tree of the zero value of its element type (what reflect.New(elem) gives), because the
   code walks on through nil pointers.  reflect marks a Value obtained through an unexported field as
   read-only (CanInterface() = false); the mark follows Elem(); a value made by reflect.New is fresh. *)
From Coq Require Import List NArith Bool.
Import ListNotations.
From Sod.Model Require Import Descr.

Inductive pval :=
| PLeaf (tname : str) (id : N)                     (* any value that is neither a struct nor a pointer *)
| PNil (tname : str) (zero : pval)                 (* nil pointer; zero: its element type's zero value *)
| PPtr (tname : str) (v : pval)
| PStruct (tname : str) (fields : list (str * (bool * pval))).   (* name, (exported, value) *)

Fixpoint pfield (name : str) (fs : list (str * (bool * pval))) : option (bool * pval) :=
  match fs with
  | [] => None
  | (n, x) :: r => if str_eqb name n then Some x else pfield name r
  end.

(* valueFieldByName(v, fields), with [ro] = v is read-only.  Result: the Value reached and its mark;
   None = (zero Value, false) or a Value that is not valid.
   fuel: the Go recursion consumes a path element or a pointer at each call. *)
Fixpoint vfbn (fuel : nat) (ro : bool) (v : pval) (fields : list str) : option (pval * bool) :=
  match fuel with
  | O => None
  | S k =>
      (* if v.Kind() == reflect.Ptr { v = v.Elem() }: Elem of a nil pointer is the invalid Value *)
      let v1 := match v with PPtr _ e => Some e | PNil _ _ => None | _ => Some v end in
      match v1 with
      | None => None
      | Some v1 =>
          match fields with
          | [] => Some (v1, ro)                         (* end of path (reached through a pointer) *)
          | f :: rest =>
              match v1 with
              | PStruct _ fs =>
                  match pfield f fs with
                  | None => None                        (* FieldByName: the zero Value *)
                  | Some (exported, out) =>
                      let ro' := ro || negb exported in
                      match out with
                      | PNil t z => vfbn k false (PPtr t z) rest      (* out = reflect.New(out.Type().Elem()) *)
                      | PPtr _ e => vfbn k ro' e rest                 (* out = out.Elem() *)
                      | PStruct _ _ => match rest with [] => Some (out, ro') | _ => vfbn k ro' out rest end
                      | PLeaf _ _ => match rest with [] => Some (out, ro') | _ => None end
                      end
                  end
              | _ => None                               (* the path goes through something which is not a structure *)
              end
          end
      end
  end.

(* fieldByName(o, path): o is a pointer to the object; unexported fields are unknown to the API *)
Definition field_by_name (fuel : nat) (o : pval) (path : list str) : option pval :=
  match vfbn fuel false o path with
  | Some (v, false) => Some v
  | _ => None
  end.

Definition ptname (v : pval) : str :=
  match v with PLeaf t _ | PNil t _ | PPtr t _ | PStruct t _ => t end.
Definition pleaf_id (v : pval) : option N := match v with PLeaf _ i => Some i | _ => None end.
