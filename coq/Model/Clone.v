(* Model/Clone.v: Go value graphs with identities for every mutable cell, and the recursive clone
   of /repo/object.go (cloneValue) case by case, including what it does for unexported fields
   (copied by value: unexported pointers stay shared, the documented exception) and for arrays
   (elements cloned one by one).  Executable definitions only. *)
From Coq Require Import List ZArith NArith Bool.
Import ListNotations.

Definition loc := N.

Inductive gv :=
| GScalar (n : Z)
| GPtr (p : option (loc * gv))                 (* nil | (identity, pointee) *)
| GSlice (s : option (loc * list gv))          (* nil | (backing array identity, elements) *)
| GMap (m : option (loc * list (Z * gv)))      (* nil | (identity, bindings) *)
| GStruct (fs : list (bool * gv))              (* (exported?, field value) *)
| GArr (es : list gv)
| GIface (v : option gv).

(* clone with a supply of fresh identities: returns the clone and the next free identity *)
Fixpoint clone (fuel : nat) (v : gv) (next : loc) : gv * loc :=
  match fuel with
  | O => (v, next)
  | S f =>
    let fix clone_list (l : list gv) (n : loc) : list gv * loc :=
        match l with
        | [] => ([], n)
        | x :: r => let (x', n1) := clone f x n in let (r', n2) := clone_list r n1 in (x' :: r', n2)
        end in
    let fix clone_binds (l : list (Z * gv)) (n : loc) : list (Z * gv) * loc :=
        match l with
        | [] => ([], n)
        | (k, x) :: r => let (x', n1) := clone f x n in let (r', n2) := clone_binds r n1 in ((k, x') :: r', n2)
        end in
    let fix clone_fields (l : list (bool * gv)) (n : loc) : list (bool * gv) * loc :=
        match l with
        | [] => ([], n)
        | (true, x) :: r => let (x', n1) := clone f x n in let (r', n2) := clone_fields r n1 in ((true, x') :: r', n2)
        | (false, x) :: r => let (r', n2) := clone_fields r n in ((false, x) :: r', n2)   (* copied as is *)
        end in
    match v with
    | GScalar n => (GScalar n, next)
    | GPtr None => (GPtr None, next)
    | GPtr (Some (_, x)) => let (x', n1) := clone f x (N.succ next) in (GPtr (Some (next, x')), n1)
    | GSlice None => (GSlice None, next)
    | GSlice (Some (_, es)) => let (es', n1) := clone_list es (N.succ next) in (GSlice (Some (next, es')), n1)
    | GMap None => (GMap None, next)
    | GMap (Some (_, bs)) => let (bs', n1) := clone_binds bs (N.succ next) in (GMap (Some (next, bs')), n1)
    | GStruct fs => let (fs', n1) := clone_fields fs next in (GStruct fs', n1)
    | GArr es => let (es', n1) := clone_list es next in (GArr es', n1)
    | GIface None => (GIface None, next)
    | GIface (Some x) => let (x', n1) := clone f x next in (GIface (Some x'), n1)
    end
  end.

(* size of a value: enough fuel *)
Fixpoint size (v : gv) : nat :=
  match v with
  | GScalar _ => 1
  | GPtr None | GSlice None | GMap None | GIface None => 1
  | GPtr (Some (_, x)) => S (size x)
  | GSlice (Some (_, es)) => S (fold_right (fun x n => size x + n) 0 es)
  | GMap (Some (_, bs)) => S (fold_right (fun p n => size (snd p) + n) 0 bs)
  | GStruct fs => S (fold_right (fun p n => size (snd p) + n) 0 fs)
  | GArr es => S (fold_right (fun x n => size x + n) 0 es)
  | GIface (Some x) => S (size x)
  end.

Definition clone_value (v : gv) (next : loc) : gv := fst (clone (size v) v next).

(* identities reachable through exported fields only / through everything, in preorder *)
Fixpoint locs (exported_only : bool) (v : gv) : list loc :=
  match v with
  | GScalar _ => []
  | GPtr None | GSlice None | GMap None | GIface None => []
  | GPtr (Some (l, x)) => l :: locs exported_only x
  | GSlice (Some (l, es)) => l :: flat_map (locs exported_only) es
  | GMap (Some (l, bs)) => l :: flat_map (fun p => locs exported_only (snd p)) bs
  | GStruct fs => flat_map (fun p => if exported_only && negb (fst p) then [] else locs exported_only (snd p)) fs
  | GArr es => flat_map (locs exported_only) es
  | GIface (Some x) => locs exported_only x
  end.

(* content without identities *)
Fixpoint erase (v : gv) : gv :=
  match v with
  | GScalar n => GScalar n
  | GPtr None => GPtr None
  | GPtr (Some (_, x)) => GPtr (Some (0%N, erase x))
  | GSlice None => GSlice None
  | GSlice (Some (_, es)) => GSlice (Some (0%N, map erase es))
  | GMap None => GMap None
  | GMap (Some (_, bs)) => GMap (Some (0%N, map (fun p => (fst p, erase (snd p))) bs))
  | GStruct fs => GStruct (map (fun p => (fst p, erase (snd p))) fs)
  | GArr es => GArr (map erase es)
  | GIface None => GIface None
  | GIface (Some x) => GIface (Some (erase x))
  end.

(* the largest identity of a value (fresh supply = above it) *)
Definition max_loc (v : gv) : loc := fold_right N.max 0%N (locs false v).

(* ---- correspondence helpers (used by the driver): which identity-carrying nodes of [c], in
   preorder, carry an identity of the original value *)
Definition sharing (orig : gv) (c : gv) : list bool :=
  map (fun l => existsb (N.eqb l) (locs false orig)) (locs false c).

Fixpoint nodupb (l : list loc) : bool :=
  match l with [] => true | x :: r => negb (existsb (N.eqb x) r) && nodupb r end.

(* the fresh identities of a clone are pairwise distinct *)
Definition fresh_distinct (orig c : gv) : bool :=
  nodupb (filter (fun l => negb (existsb (N.eqb l) (locs false orig))) (locs false c)).
