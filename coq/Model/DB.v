(* Model/DB.v: executable small-step model of a sod handle on one collection (sod.go, schema.go,
   search.go, iterator.go, utils.go) together with the collection directory.
   - every file-system MUTATION goes through the primitives of section "world", which log it and
     consult a fault countdown: crash prefixes (C05) and storage faults (C06) are definable
     without touching [step];
   - Go panics are the outcome [Panic], never totalised away;
   - user hooks, Unicode case mapping and regular expressions are parameters ([hooks]).
   No proofs in this file. *)
From Coq Require Import List ZArith NArith Bool.
Import ListNotations.
From Sod.Model Require Import Base FieldIndex ObjIndex.

(* ---------------------------------------------------------------- objects, hooks, settings *)

Record obj := { o_keys : list key; o_rest : N }.

Record hooks := {
  hk_tr : list key -> list key;            (* Object.Transform on the flat record *)
  hk_va : list key -> bool;                (* Object.Validate = nil *)
  hk_up : list N -> list N;                (* strings.ToUpper *)
  hk_lo : list N -> list N;                (* strings.ToLower *)
  hk_rx : list N -> option (list N -> bool) (* regexp.Compile: None = error *)
}.

Record settings := {
  st_cache : bool;
  st_async : option (Z * Z);   (* threshold, timeout in flusher steps; None = AsyncWrites nil *)
  st_compress : bool;
  st_ext : list N
}.

(* a loaded schema (the *Schema cached by the handle) *)
Record mem := {
  m_set : settings;
  m_fields : list fdesc;
  m_shape : N;          (* identifies the struct shape (paths and types) the schema was built from *)
  m_idx : oindex;
  m_started : bool      (* Async.routineStarted *)
}.

(* the content of schema.json *)
Record sfile := { sf_set : settings; sf_fields : list fdesc; sf_shape : N; sf_idx : oindex }.

Inductive scontent := SOk (s : sfile) | SBad.           (* SBad: truncated / unparsable *)
Inductive fcontent := COk (o : obj) | CBad | CDir.      (* CBad: unreadable; CDir: a directory *)
Record fname := { fn_uuid : N; fn_suffix : list N }.    (* <uuid><suffix>, suffix = ext [++ ".gz"] *)

Record disk := {
  d_dir : bool;                              (* the collection directory exists *)
  d_schema : option scontent;
  d_files : list (fname * fcontent);         (* uuid-shaped names *)
  d_other : list (list N)                    (* other entries: ignored by sod, kept for the listing *)
}.

Definition empty_disk : disk := {| d_dir := false; d_schema := None; d_files := []; d_other := [] |}.

Definition fname_eqb (a b : fname) : bool := N.eqb (fn_uuid a) (fn_uuid b) && str_eqb (fn_suffix a) (fn_suffix b).

Fixpoint file_lookup (f : fname) (l : list (fname * fcontent)) : option fcontent :=
  match l with
  | [] => None
  | (g, c) :: r => if fname_eqb f g then Some c else file_lookup f r
  end.
Definition file_remove (f : fname) (l : list (fname * fcontent)) := filter (fun p => negb (fname_eqb f (fst p))) l.
Fixpoint file_put (f : fname) (c : fcontent) (l : list (fname * fcontent)) :=
  match l with
  | [] => [(f, c)]
  | (g, c') :: r => if fname_eqb f g then (f, c) :: r else (g, c') :: file_put f c r
  end.

(* uuidsFromDir: every entry whose name starts with a uuid-shaped prefix, whatever follows *)
Fixpoint dedupN (l : list N) : list N :=
  match l with [] => [] | x :: r => if memN x r then dedupN r else x :: dedupN r end.
Definition disk_uuids (d : disk) : list N := dedupN (map (fun p => fn_uuid (fst p)) (d_files d)).

(* ---------------------------------------------------------------- world: disk + log + faults *)

Inductive fpath := PSchema | PObj (f : fname).
Inductive fsop :=
| FMkdir
| FTrunc (p : fpath)
| FWriteObj (f : fname) (o : obj)
| FWriteSchema (s : sfile)
| FRemove (f : fname)
| FRemoveAll.

Record world := {
  w_disk : disk;
  w_fail : option nat;     (* Some k: the k-th next mutating FS operation fails (no effect) *)
  w_fired : bool;
  w_crash : bool;          (* the armed operation is a process crash, not an error return *)
  w_dead : bool;           (* the process has died: no further file-system effect *)
  w_log : list fsop        (* newest first *)
}.

Definition set_disk (w : world) (d : disk) : world :=
  {| w_disk := d; w_fail := w_fail w; w_fired := w_fired w; w_crash := w_crash w; w_dead := w_dead w; w_log := w_log w |}.

(* one mutating operation: returns false when the injected fault hits it *)
Definition fs_mut (w : world) (o : fsop) (eff : disk -> disk) : bool * world :=
  if w_dead w then (false, w) else
  match w_fail w with
  | Some O => (false, {| w_disk := w_disk w; w_fail := None; w_fired := true; w_crash := w_crash w;
                         w_dead := w_crash w; w_log := w_log w |})
  | Some (S k) => (true, {| w_disk := eff (w_disk w); w_fail := Some k; w_fired := w_fired w; w_crash := w_crash w;
                            w_dead := false; w_log := o :: w_log w |})
  | None => (true, {| w_disk := eff (w_disk w); w_fail := None; w_fired := w_fired w; w_crash := w_crash w;
                      w_dead := false; w_log := o :: w_log w |})
  end.

(* os.MkdirAll(dir): a mutation only when the directory is missing *)
Definition fs_mkdir (w : world) : bool * world :=
  if d_dir (w_disk w) then (true, w)
  else fs_mut w FMkdir (fun d => {| d_dir := true; d_schema := d_schema d; d_files := d_files d; d_other := d_other d |}).

Definition disk_set_file (f : fname) (c : fcontent) (d : disk) : disk :=
  {| d_dir := d_dir d; d_schema := d_schema d; d_files := file_put f c (d_files d); d_other := d_other d |}.
Definition disk_del_file (f : fname) (d : disk) : disk :=
  {| d_dir := d_dir d; d_schema := d_schema d; d_files := file_remove f (d_files d); d_other := d_other d |}.
Definition disk_set_schema (s : option scontent) (d : disk) : disk :=
  {| d_dir := d_dir d; d_schema := s; d_files := d_files d; d_other := d_other d |}.

(* open(O_CREATE|O_TRUNC) then write: two mutations; a fault between them leaves an empty file *)
Definition fs_write_obj (w : world) (f : fname) (o : obj) : bool * world :=
  let (ok1, w1) := fs_mut w (FTrunc (PObj f)) (disk_set_file f CBad) in
  if ok1 then fs_mut w1 (FWriteObj f o) (disk_set_file f (COk o)) else (false, w1).

Definition fs_write_schema (w : world) (s : sfile) : bool * world :=
  let (ok1, w1) := fs_mut w (FTrunc PSchema) (disk_set_schema (Some SBad)) in
  if ok1 then fs_mut w1 (FWriteSchema s) (disk_set_schema (Some (SOk s))) else (false, w1).

Definition fs_remove (w : world) (f : fname) : bool * world :=
  fs_mut w (FRemove f) (disk_del_file f).

Definition fs_remove_all (w : world) : bool * world :=
  fs_mut w FRemoveAll (fun _ => empty_disk).

(* ---------------------------------------------------------------- handle *)

Record sres := {                 (* a *Search value *)
  sr_fields : list entry;
  sr_err : option err;
  sr_limit : option N;           (* None = math.MaxUint *)
  sr_rev : bool
}.

Record handle := {
  h_mem : option mem;            (* db.schemas[type]: lazily loaded schema *)
  h_cache : list (N * obj);      (* db.cache *)
  h_pend : list (N * obj);       (* db.asyncw *)
  h_cancel : bool;               (* db.ctx cancelled *)
  h_fl : list (Z * bool);        (* live flusher goroutines: (slept steps, not yet run once) *)
  h_srch : list (N * sres)
}.

Definition new_handle : handle :=
  {| h_mem := None; h_cache := []; h_pend := []; h_cancel := false; h_fl := []; h_srch := [] |}.

Record state := { s_h : handle; s_w : world }.

Definition set_mem (h : handle) (m : option mem) : handle :=
  {| h_mem := m; h_cache := h_cache h; h_pend := h_pend h; h_cancel := h_cancel h; h_fl := h_fl h; h_srch := h_srch h |}.
Definition set_cache (h : handle) (c : list (N * obj)) : handle :=
  {| h_mem := h_mem h; h_cache := c; h_pend := h_pend h; h_cancel := h_cancel h; h_fl := h_fl h; h_srch := h_srch h |}.
Definition set_pend (h : handle) (p : list (N * obj)) : handle :=
  {| h_mem := h_mem h; h_cache := h_cache h; h_pend := p; h_cancel := h_cancel h; h_fl := h_fl h; h_srch := h_srch h |}.
Definition set_fl (h : handle) (f : list (Z * bool)) : handle :=
  {| h_mem := h_mem h; h_cache := h_cache h; h_pend := h_pend h; h_cancel := h_cancel h; h_fl := f; h_srch := h_srch h |}.
Definition set_cancel (h : handle) : handle :=
  {| h_mem := h_mem h; h_cache := h_cache h; h_pend := h_pend h; h_cancel := true; h_fl := h_fl h; h_srch := h_srch h |}.
Definition set_srch (h : handle) (s : list (N * sres)) : handle :=
  {| h_mem := h_mem h; h_cache := h_cache h; h_pend := h_pend h; h_cancel := h_cancel h; h_fl := h_fl h; h_srch := s |}.

Definition set_idx (m : mem) (ix : oindex) : mem :=
  {| m_set := m_set m; m_fields := m_fields m; m_shape := m_shape m; m_idx := ix; m_started := m_started m |}.

Definition async_on (m : mem) : bool := match st_async (m_set m) with Some _ => true | None => false end.
Definition must_cache (m : mem) : bool := st_cache (m_set m) || async_on m.

Definition gz : list N := [46; 103; 122]%N.     (* ".gz" *)
Definition suffix_of (st : settings) : list N := if st_compress st then st_ext st ++ gz else st_ext st.
Definition file_of (m : mem) (u : N) : fname := {| fn_uuid := u; fn_suffix := suffix_of (m_set m) |}.

Definition sfile_of (m : mem) : sfile :=
  {| sf_set := m_set m; sf_fields := m_fields m; sf_shape := m_shape m; sf_idx := m_idx m |}.
Definition mem_of (s : sfile) : mem :=
  {| m_set := sf_set s; m_fields := sf_fields s; m_shape := sf_shape s; m_idx := oi_reload (sf_idx s); m_started := false |}.

(* ---------------------------------------------------------------- schema lookup / load / control *)

(* Schema.control: structure, index consistency, then both set inclusions with the directory *)
Definition control_mem (live_shape : N) (m : mem) (d : disk) : option err :=
  if negb (N.eqb (m_shape m) live_shape) then Some EStructure
  else if negb (oi_control (m_idx m)) then Some EInconsistent
  else
    let on_disk := disk_uuids d in
    if forallb (fun u => is_indexed (m_idx m) u) on_disk
       && forallb (fun u => memN u on_disk) (indexed_uuids (m_idx m))
    then None else Some ECorrupted.

(* startAsyncWritesRoutine *)
Definition start_flusher (h : handle) : handle :=
  match h_mem h with
  | Some m =>
      if async_on m && negb (m_started m)
      then set_fl (set_mem h (Some {| m_set := m_set m; m_fields := m_fields m; m_shape := m_shape m;
                                      m_idx := m_idx m; m_started := true |}))
                  (h_fl h ++ [(0%Z, true)])
      else h
  | None => h
  end.

(* db.schema: (handle, loaded schema if any, error if any).  A schema whose only fault is
   index corruption is cached AND reported. *)
Definition db_schema (live_shape : N) (h : handle) (d : disk) : handle * option mem * option err :=
  match h_mem h with
  | Some m => let h' := start_flusher h in (h', h_mem h', None)
  | None =>
      if negb (d_dir d) then (h, None, Some ENotFound) else
      match d_schema d with
      | None => (h, None, Some ENotFound)
      | Some SBad => (h, None, Some EJson)
      | Some (SOk sf) =>
          let m := mem_of sf in
          match control_mem live_shape m d with
          | None => let h' := start_flusher (set_mem h (Some m)) in (h', h_mem h', None)
          | Some ECorrupted => let h' := start_flusher (set_mem h (Some m)) in (h', h_mem h', Some ECorrupted)
          | Some e => (h, None, Some e)
          end
      end
  end.

(* ---------------------------------------------------------------- commit / write / get *)

(* saveSchema(o, s, override=true): MkdirAll, WriteFile *)
Definition save_schema (w : world) (m : mem) : option err * world :=
  let (ok, w1) := fs_mkdir w in
  if negb ok then (Some EStorage, w1) else
  let (ok2, w2) := fs_write_schema w1 (sfile_of m) in
  if ok2 then (None, w2) else (Some EStorage, w2).

(* db.commit (the schema is cached by the time commit is called) *)
Definition commit (live_shape : N) (h : handle) (w : world) : handle * option err * world :=
  match db_schema live_shape h (w_disk w) with
  | (h1, Some m, None) => let (e, w1) := save_schema w m in (h1, e, w1)
  | (h1, _, Some e) => (h1, Some e, w)
  | (h1, None, None) => (h1, Some EOther, w)
  end.

(* db.writeObject *)
Definition write_object (w : world) (m : mem) (u : N) (o : obj) : option err * world :=
  let (ok, w1) := fs_mkdir w in
  if negb ok then (Some EStorage, w1) else
  if negb (forallb serialisable (o_keys o)) then (Some EJson, w1) else
  let (ok2, w2) := fs_write_obj w1 (file_of m u) o in
  if ok2 then (None, w2) else (Some EStorage, w2).

(* db.get with the schema in hand *)
Definition get_with (h : handle) (m : mem) (d : disk) (u : N) : handle * res obj :=
  match (if must_cache m then assoc u (h_cache h) else None) with
  | Some o => (h, Ok o)
  | None =>
      match file_lookup (file_of m u) (d_files d) with
      | None => (h, Err ENotFound)
      | Some CBad => (h, Err EJson)
      | Some CDir => (h, Err EOther)
      | Some (COk o) => ((if must_cache m then set_cache h (put u o (h_cache h)) else h), Ok o)
      end
  end.

(* get of an object id which no longer resolves: the uuid is "", so the path is the collection
   directory followed by the suffix; with an empty suffix that is the directory itself *)
Definition unresolved_err (m : mem) : err :=
  match suffix_of (m_set m) with [] => EOther | _ => ENotFound end.

(* db.exist with the schema in hand *)
Definition exist_with (h : handle) (m : mem) (d : disk) (u : N) : bool :=
  (async_on m && match assoc u (h_pend h) with Some _ => true | None => false end)
  || match file_lookup (file_of m u) (d_files d) with Some (COk _) | Some CBad => true | _ => false end.

(* ---------------------------------------------------------------- insertion *)

Definition canon_key (hk : hooks) (d : fdesc) (k : key) : key :=
  match k with
  | KStr s =>
      let s1 := if fd_upper d then hk_up hk s else s in
      KStr (if fd_lower d then hk_lo hk s1 else s1)
  | _ => k
  end.

Fixpoint canon_keys (hk : hooks) (fds : list fdesc) (ks : list key) : list key :=
  match fds, ks with
  | d :: ds, k :: r => canon_key hk d k :: canon_keys hk ds r
  | _, _ => ks
  end.

(* Transform, then the schema's case transforms: what Validate sees and what is stored *)
Definition prepare_obj (hk : hooks) (m : mem) (o : obj) : obj :=
  {| o_keys := canon_keys hk (m_fields m) (hk_tr hk (o_keys o)); o_rest := o_rest o |}.

(* db.insertOrUpdate(s, o, commit): o already transformed and validated; u already assigned *)
Definition insert_core (live_shape : N) (h : handle) (w : world) (m : mem) (u : N) (o : obj) (do_commit : bool)
  : handle * res unit * world :=
  if negb (forallb serialisable (o_keys o)) then (h, Err EJson, w) else
  match oi_insert_or_update (m_fields m) (m_idx m) (o_keys o) u with
  | Panic => (h, Panic, w)
  | Err e => (h, Err e, w)
  | Ok ix =>
      let m1 := set_idx m ix in
      let h1 := set_mem h (Some m1) in
      let h2 := if must_cache m1 then set_cache h1 (put u o (h_cache h1)) else h1 in
      if async_on m1 then (set_pend h2 (put u o (h_pend h2)), Ok tt, w)
      else
        match write_object w m1 u o with
        | (Some e, w1) => (h2, Err e, w1)
        | (None, w1) =>
            if do_commit then
              match commit live_shape h2 w1 with
              | (h3, Some e, w2) => (h3, Err e, w2)
              | (h3, None, w2) => (h3, Ok tt, w2)
              end
            else (h2, Ok tt, w1)
        end
  end.

(* db.delete *)
Definition delete_core (h : handle) (w : world) (m : mem) (u : N) : handle * res unit * world :=
  let h1 := if must_cache m
            then set_pend (set_cache h (remove_key u (h_cache h))) (remove_key u (h_pend h)) else h in
  match oi_delete (m_idx m) u with
  | None => (h1, Panic, w)
  | Some ix =>
      let m1 := set_idx m ix in
      let h2 := set_mem h1 (Some m1) in
      match file_lookup (file_of m1 u) (d_files (w_disk w)) with
      | Some (COk _) | Some CBad =>
          let (ok, w1) := fs_remove w (file_of m1 u) in
          (h2, (if ok then Ok tt else Err EStorage), w1)
      | _ => (h2, Ok tt, w)
      end
  end.

(* ---------------------------------------------------------------- searches *)

Definition rx_of (hk : hooks) (probe : key) : option (key -> bool) :=
  match probe with
  | KStr p => match hk_rx hk p with
              | None => None
              | Some m => Some (fun k => match k with KStr s => m s | _ => false end)
              end
  | _ => Some (fun _ => false)
  end.

(* the full-scan path (searchAll) over a list of uuids, reading every object through get *)
Fixpoint scan (h : handle) (m : mem) (d : disk) (fld : nat) (o : sop) (probe : key) (rx : key -> bool)
         (us : list (option N)) (acc : list entry) : handle * list entry * option err :=
  match us with
  | [] => (h, rev acc, None)
  | None :: _ => (h, rev acc, Some (unresolved_err m))  (* id no longer resolves: get("") fails *)
  | Some u :: r =>
      match get_with h m d u with
      | (h1, Ok ob) =>
          match uuid_oid (oi_ids (m_idx m)) u with
          | None => (h1, [], Some ECorrupted)
          | Some oid =>
              match nth_opt fld (o_keys ob) with
              | None => (h1, [], Some EUnknownField)
              | Some fk =>
                  if negb (kind_eqb (kind_of fk) (kind_of probe)) then (h1, [], Some ECasting)
                  else scan h1 m d fld o probe rx r (if eval_op o rx fk probe then (fk, oid) :: acc else acc)
              end
          end
      | (h1, Err e) => (h1, rev acc, Some e)
      | (h1, Panic) => (h1, rev acc, Some EOther)
      end
  end.

(* db.search with the schema in hand.  fld = None: a field path the struct does not have *)
Definition search_with (hk : hooks) (h : handle) (m : mem) (d : disk) (fld : option nat) (o : sop) (probe : key)
           (constrain : option (list entry)) : handle * sres :=
  let fail e := (h, {| sr_fields := []; sr_err := Some e; sr_limit := None; sr_rev := false |}) in
  match fld with
  | None => fail EUnknownField
  | Some f =>
      match nth_opt f (m_fields m), nth_opt f (oi_fx (m_idx m)) with
      | Some fd, Some fxo =>
          let probe' := canon_key hk fd probe in            (* Schema.prepare *)
          match fxo with
          | Some l =>                                        (* indexed *)
              if negb (kind_eqb (fd_kind fd) (kind_of probe')) then fail ECasting else
              let l' := match constrain with
                        | None => Some l
                        | Some c => fi_constrain l c
                        end in
              match l' with
              | None => (h, {| sr_fields := []; sr_err := Some EOther; sr_limit := None; sr_rev := false |})
              | Some li =>
                  match fi_search li o probe' (rx_of hk probe') with
                  | Ok r => (h, {| sr_fields := r; sr_err := None; sr_limit := None; sr_rev := false |})
                  | Err e => fail e
                  | Panic => fail EOther
                  end
              end
          | None =>                                          (* full scan *)
              if negb (kind_eqb (fd_kind fd) (kind_of probe')) then fail ECasting else
              match o with
              | OpBad => fail EUnknownOp
              | _ =>
                  match (match o with OpRx => rx_of hk probe' | _ => Some (fun _ => false) end) with
                  | None => fail EBadPattern
                  | Some rx =>
                      let us := match constrain with
                                | None => map (fun p => Some (snd p)) (oi_ids (m_idx m))
                                | Some c => map (fun e => oid_uuid (m_idx m) (snd e)) c
                                end in
                      match scan h m d f o probe' rx us [] with
                      | (h1, r, e) => (h1, {| sr_fields := r; sr_err := e; sr_limit := None; sr_rev := false |})
                      end
                  end
              end
          end
      | _, _ => fail EUnknownField
      end
  end.

(* Search.Or: the new result, then the old entries whose object id is not in it *)
Definition or_merge (nw old : list entry) : list entry :=
  nw ++ filter (fun e => negb (existsb (fun x => N.eqb (snd x) (snd e)) nw)) old.

(* Search.collect: ids resolved NOW; one object more than the limit is fetched; the stored limit
   is decremented *)
Fixpoint collect_loop (h : handle) (m : mem) (d : disk) (us : list (option N)) (lim : option N) (acc : list (N * obj))
  : handle * list (N * obj) * option err * option N :=
  match us with
  | [] => (h, rev acc, None, lim)
  | uo :: r =>
      let fetched := match uo with
                     | None => (h, Err (unresolved_err m))
                     | Some u => get_with h m d u
                     end in
      match fetched with
      | (h1, Ok ob) =>
          match lim with
          | Some 0%N => (h1, rev acc, None, lim)
          | Some n => collect_loop h1 m d r (Some (N.pred n)) ((match uo with Some u => u | None => 0%N end, ob) :: acc)
          | None => collect_loop h1 m d r None ((match uo with Some u => u | None => 0%N end, ob) :: acc)
          end
      | (h1, Err e) => (h1, rev acc, Some e, lim)
      | (h1, Panic) => (h1, rev acc, Some EOther, lim)
      end
  end.

(* ---------------------------------------------------------------- flush, flusher *)

(* objectMap.flush: write every pending object (errors remembered, not fatal), empty the map *)
Fixpoint flush_list (w : world) (m : mem) (l : list (N * obj)) (e : option err) : option err * world :=
  match l with
  | [] => (e, w)
  | (u, o) :: r =>
      match write_object w m u o with
      | (Some e', w1) => flush_list w1 m r (Some e')
      | (None, w1) => flush_list w1 m r e
      end
  end.

Definition flush_all (live_shape : N) (h : handle) (w : world) : handle * option err * world :=
  match h_pend h with
  | [] => (h, None, w)
  | l =>
      match db_schema live_shape h (w_disk w) with
      | (h1, Some m, _) => let (e, w1) := flush_list w m l None in (set_pend h1 [], e, w1)
      | (h1, None, Some e) => (set_pend h1 [], Some e, w)
      | (h1, None, None) => (set_pend h1 [], Some EOther, w)
      end
  end.

Definition flush_all_commit (live_shape : N) (h : handle) (w : world) : handle * option err * world :=
  match flush_all live_shape h w with
  | (h1, e1, w1) =>
      match commit live_shape h1 w1 with
      | (h2, Some e2, w2) => (h2, Some e2, w2)
      | (h2, None, w2) => (h2, e1, w2)
      end
  end.

(* one evaluation of the flusher's condition; wake = true adds one elapsed step first *)
Definition flusher_iter (live_shape : N) (h : handle) (w : world) (slept : Z) (wake : bool)
  : res (handle * world * option Z) :=       (* None = the goroutine has ended *)
  match h_mem h with
  | None => Panic
  | Some m =>
      match st_async (m_set m) with
      | None => Ok (h, w, None)                              (* async writes were disabled: the routine ends *)
      | Some (thr, tmo) =>
          let slept' := if wake then (slept + 1)%Z else slept in
          if (Z.geb (Z.of_nat (length (h_pend h))) thr) || (Z.geb slept' tmo) then
            if h_cancel h then Ok (h, w, None)
            else
              match flush_all_commit live_shape h w with
              | (h1, Some _, w1) => Panic                     (* panic(err) in the goroutine *)
              | (h1, None, w1) => Ok (h1, w1, Some 0%Z)
              end
          else Ok (h, w, Some slept')
      end
  end.

Fixpoint run_flushers (live_shape : N) (h : handle) (w : world) (fl : list (Z * bool)) (only_fresh : bool)
         (acc : list (Z * bool)) : res (handle * world * list (Z * bool)) :=
  match fl with
  | [] => Ok (h, w, rev acc)
  | (slept, fresh) :: r =>
      if only_fresh && negb fresh then run_flushers live_shape h w r only_fresh ((slept, fresh) :: acc)
      else
        match flusher_iter live_shape h w slept (negb fresh) with
        | Panic => Panic
        | Err e => Err e
        | Ok (h1, w1, None) => run_flushers live_shape h1 w1 r only_fresh acc
        | Ok (h1, w1, Some s) => run_flushers live_shape h1 w1 r only_fresh ((s, false) :: acc)
        end
  end.

(* after every foreground call: goroutines started by it evaluate their condition once *)
Definition settle (live_shape : N) (h : handle) (w : world) : res (handle * world) :=
  if existsb (fun p => snd p) (h_fl h) then
    match run_flushers live_shape (set_fl h []) w (h_fl h) true [] with
    | Ok (h1, w1, fl) => Ok (set_fl h1 (fl ++ h_fl h1), w1)
    | Err e => Err e
    | Panic => Panic
    end
  else Ok (h, w).

(* ---------------------------------------------------------------- operations *)

Inductive member := MRec (u : N) (fresh : N) (o : obj) | MOther.   (* u = 0: new object, uuid [fresh] *)

Inductive op :=
| OCreate (st : settings) (fds : list fdesc)
| OInsert (u : N) (fresh : N) (o : obj)
| OMany (ms : list member)
| OBulk (csize : Z) (ms : list member)
| ODelete (u : N)
| ODeleteAll (order : list N)        (* oracle: the (map) order in which files were removed *)
| OGet (u : N)
| OExist (u : N)
| OCount
| OAll
| OSearch (sid : N) (fld : option nat) (o : sop) (probe : key)
| OAnd (sid old : N) (fld : option nat) (o : sop) (probe : key)
| OOr (sid old : N) (fld : option nat) (o : sop) (probe : key)
| OLen (sid : N)
| OCollect (sid : N) (lim : option N) (rev : bool)
| OOne (sid : N)
| OSearchDelete (sid : N)
| OAssignIndex (fld : option nat)
| OCommit
| OFlushAll
| OFlushAllCommit
| OControl
| ORepair (order : list N)          (* oracle: unindexed uuids in the order Repair met them *)
| OClose
| OReopen
| ODrop
| OSchema
| OTick
| OFailAt (k : nat)
| OCrashAt (k : nat)                 (* the process dies at the k-th next mutating FS operation *)
(* faults applied to the directory from outside *)
| XRmFile (u : N)
| XAddFile (u : N) (sfx : list N) (o : obj)
| XCorrupt (u : N)
| XRmSchema
| XRmEntry (u : N)
| XStray (name : list N)
| XStrayUuidDir (u : N)
(* single-object flush: Flush(o) / FlushAndCommit(o) with the caller's object o (uuid u, content ob) *)
| OFlushOne (u : N) (ob : obj) (withc : bool)
(* Search.Expects(n) / ExpectsZeroOrN(n) on a kept search value *)
| OExpects (sid : N) (n : Z) (zero_ok : bool)
(* outside the library: the entry of ONE object is removed from the index of ONE field in schema.json
   (the object stays in the id table and in every other field index) *)
| XRmFieldEntry (u : N) (fld : nat).

Inductive out :=
| RUnit (r : res unit)
| RObj (r : res (N * obj))
| RBool (r : res bool)
| RNum (r : res Z)
| RObjs (r : res (list (N * obj)))       (* All / Collect: Err after a partial result is just Err *)
| RSearch (e : option err) (n : Z)
| RMany (r : res unit) (n : Z)
| RKeys (r : res (list key))
| RPanic
| RCrash.

Definition lift_e (e : option err) : res unit := match e with None => Ok tt | Some x => Err x end.

Definition with_schema (live_shape : N) (s : state)
           (k : handle -> mem -> state * out) (bad : handle -> err -> state * out) : state * out :=
  match db_schema live_shape (s_h s) (w_disk (s_w s)) with
  | (h1, Some m, None) => k h1 m
  | (h1, _, Some e) => bad h1 e
  | (h1, None, None) => bad h1 EOther
  end.

Definition mk (h : handle) (w : world) : state := {| s_h := h; s_w := w |}.

Definition find_srch (h : handle) (sid : N) : sres :=
  match assoc sid (h_srch h) with
  | Some r => r
  | None => {| sr_fields := []; sr_err := Some EOther; sr_limit := None; sr_rev := false |}
  end.

(* InsertOrUpdate *)
Definition do_insert (hk : hooks) (live_shape : N) (s : state) (u fresh : N) (o : obj) : state * out :=
  with_schema live_shape s
    (fun h m =>
       let o' := prepare_obj hk m o in
       if negb (hk_va hk (o_keys o')) then (mk h (s_w s), RUnit (Err EInvalid)) else
       let u' := if N.eqb u 0 then fresh else u in
       match insert_core live_shape h (s_w s) m u' o' true with
       | (h1, r, w1) => (mk h1 w1, RUnit r)
       end)
    (fun h e => (mk h (s_w s), RUnit (Err e))).

(* the validation loop of InsertOrUpdateMany on a scratch index *)
Fixpoint validate_batch (hk : hooks) (m : mem) (tmp : oindex) (ms : list member) : res (list (N * obj)) :=
  match ms with
  | [] => Ok []
  | MOther :: _ => Err EWrongType
  | MRec u fresh o :: r =>
      let o' := prepare_obj hk m o in
      let u' := if N.eqb u 0 then fresh else u in
      if negb (hk_va hk (o_keys o')) then Err EInvalid else
      if negb (forallb serialisable (o_keys o')) then Err EJson else
      match oi_insert_or_update (m_fields m) tmp (o_keys o') u' with
      | Panic => Panic
      | Err e => Err e
      | Ok tmp' =>
          match oi_satisfy_all (m_fields m) (m_idx m) (o_keys o') u' with
          | None => Panic
          | Some false => Err EUnique
          | Some true =>
              match validate_batch hk m tmp' r with
              | Ok l => Ok ((u', o') :: l)
              | Err e => Err e
              | Panic => Panic
              end
          end
      end
  end.

Fixpoint insert_loop (live_shape : N) (h : handle) (w : world) (l : list (N * obj)) (n : Z)
  : handle * res unit * world * Z :=
  match l with
  | [] => (h, Ok tt, w, n)
  | (u, o) :: r =>
      match h_mem h with
      | None => (h, Err EOther, w, n)
      | Some m =>
          match insert_core live_shape h w m u o false with
          | (h1, Ok _, w1) => insert_loop live_shape h1 w1 r (n + 1)%Z
          | (h1, e, w1) => (h1, e, w1, n)
          end
      end
  end.

(* InsertOrUpdateMany *)
Definition do_many (hk : hooks) (live_shape : N) (s : state) (ms : list member) : state * res unit * Z :=
  match ms with
  | [] => (s, Ok tt, 0%Z)
  | MOther :: r =>
      (* the first object decides the expected type: a batch led by an object of the other
         collection fails on the first member of this one.  Every member is INITIALISED before its type is
         looked at: a member of this collection that has no uuid yet is given one, which asks whether that
         uuid exists, which loads the schema of THIS collection (its error, if any, is the error of the
         call) and starts its flusher.  Nothing else of this collection is touched. *)
      match find (fun x => match x with MRec _ _ _ => true | MOther => false end) r with
      | None => (s, Ok tt, Z.of_nat (length ms))
      | Some (MRec u _ _) =>
          if N.eqb u 0 then
            match db_schema live_shape (s_h s) (w_disk (s_w s)) with
            | (h1, _, Some e) => (mk h1 (s_w s), Err e, 0%Z)
            | (h1, _, None) => (mk h1 (s_w s), Err EWrongType, 0%Z)
            end
          else (s, Err EWrongType, 0%Z)
      | Some MOther => (s, Err EWrongType, 0%Z)
      end
  | _ =>
      match db_schema live_shape (s_h s) (w_disk (s_w s)) with
      | (h1, Some m, None) =>
          match validate_batch hk m (new_index (m_fields m)) ms with
          | Err e => (mk h1 (s_w s), Err e, 0%Z)
          | Panic => (mk h1 (s_w s), Panic, 0%Z)
          | Ok l =>
              match insert_loop live_shape h1 (s_w s) l 0%Z with
              | (h2, r, w2, n) =>
                  match commit live_shape h2 w2 with
                  | (h3, Some e, w3) => (mk h3 w3, Err e, n)
                  | (h3, None, w3) => (mk h3 w3, r, n)
                  end
              end
          end
      | (h1, _, Some e) => (mk h1 (s_w s), Err e, 0%Z)
      | (h1, None, None) => (mk h1 (s_w s), Err EOther, 0%Z)
      end
  end.

(* chunking of InsertOrUpdateBulk: a chunk is emitted when its length reaches csize; the
   remainder (possibly empty) is always submitted last *)
Fixpoint chunks_aux (csize : Z) (ms cur : list member) : list (list member) :=
  match ms with
  | [] => [rev cur]
  | x :: r =>
      let cur' := x :: cur in
      if Z.eqb (Z.of_nat (length cur')) csize then rev cur' :: chunks_aux csize r []
      else chunks_aux csize r cur'
  end.
Definition chunks (csize : Z) (ms : list member) : list (list member) := chunks_aux csize ms [].

Fixpoint bulk_loop (hk : hooks) (live_shape : N) (s : state) (cs : list (list member)) (n : Z)
  : state * res unit * Z :=
  match cs with
  | [] => (s, Ok tt, n)
  | c :: r =>
      match do_many hk live_shape s c with
      | (s1, Ok _, k) => bulk_loop hk live_shape s1 r (n + k)%Z
      | (s1, e, k) => (s1, e, (n + k)%Z)
      end
  end.

(* DeleteObjects over a list of (possibly unresolved) uuids, then one deferred commit *)
Fixpoint delete_loop (h : handle) (w : world) (us : list (option N)) : handle * res unit * world :=
  match us with
  | [] => (h, Ok tt, w)
  | uo :: r =>
      match h_mem h with
      | None => (h, Err EOther, w)
      | Some m =>
          let u := match uo with Some u => u | None => 0%N end in
          (* iterator.next reads the object first (cache effect only; errors are ignored) *)
          let h0 := match uo with Some u' => fst (get_with h m (w_disk w) u') | None => h end in
          match delete_core h0 w m u with
          | (h1, Ok _, w1) => delete_loop h1 w1 r
          | (h1, e, w1) => (h1, e, w1)
          end
      end
  end.

Definition do_delete_objects (live_shape : N) (h : handle) (w : world) (us : list (option N)) : state * out :=
  match delete_loop h w us with
  | (h1, r, w1) =>
      match commit live_shape h1 w1 with
      | (h2, _, w2) => (mk h2 w2, RUnit r)        (* the deferred commit's error is dropped *)
      end
  end.

(* Repair: index unindexed files (in the oracle's order), drop entries without file, commit *)
Fixpoint repair_add (h : handle) (w : world) (us : list N) : handle * res unit :=
  match us with
  | [] => (h, Ok tt)
  | u :: r =>
      match h_mem h with
      | None => (h, Err EOther)
      | Some m =>
          if is_indexed (m_idx m) u then repair_add h w r else
          match get_with h m (w_disk w) u with
          | (h1, Ok o) =>
              match oi_insert_or_update (m_fields m) (m_idx m) (o_keys o) u with
              | Ok ix => repair_add (set_mem h1 (Some (set_idx m ix))) w r
              | Err e => (h1, Err e)
              | Panic => (h1, Panic)
              end
          | (h1, Err e) => (h1, Err e)
          | (h1, Panic) => (h1, Panic)
          end
      end
  end.

Fixpoint repair_drop (ix : oindex) (us : list N) (on_disk : list N) : option oindex :=
  match us with
  | [] => Some ix
  | u :: r => if memN u on_disk then repair_drop ix r on_disk
              else match oi_delete ix u with None => None | Some ix' => repair_drop ix' r on_disk end
  end.

Definition default_settings : settings :=
  {| st_cache := false; st_async := None; st_compress := false; st_ext := [] |}.

(* [sorted_insert]: order unindexed uuids as the oracle says, the remaining ones after *)
Definition order_by (oracle : list N) (us : list N) : list N :=
  filter (fun u => memN u us) oracle ++ filter (fun u => negb (memN u oracle)) us.

Definition step_fg (hk : hooks) (live_shape : N) (s : state) (o : op) : state * out :=
  let h := s_h s in
  let w := s_w s in
  let d := w_disk w in
  match o with
  | OCreate st fds =>
      match db_schema live_shape h d with
      | (h1, Some m, None) =>
          (* existing schema: compatible extension and descriptors, then cache/async updated *)
          if negb (str_eqb (st_ext (m_set m)) (st_ext st)) then (mk h1 w, RUnit (Err EExtension)) else
          if negb (Nat.eqb (length (m_fields m)) (length fds) && forallb (fun p => fdesc_eqb (fst p) (snd p)) (combine (m_fields m) fds))
          then (mk h1 w, RUnit (Err EFieldDesc)) else
          (* pending writes are flushed before asynchronous writes get disabled *)
          let '(h2, fe, w0) := if async_on m && negb (match st_async st with Some _ => true | None => false end)
                               then flush_all live_shape h1 w else (h1, None, w) in
          match fe with
          | Some x => (mk h2 w0, RUnit (Err x))
          | None =>
              let m1 := {| m_set := {| st_cache := st_cache st; st_async := st_async st;
                                       st_compress := st_compress (m_set m); st_ext := st_ext (m_set m) |};
                           m_fields := m_fields m; m_shape := m_shape m; m_idx := m_idx m;
                           m_started := match st_async st with Some _ => false | None => m_started m end |} in
              (* a cache that is no longer maintained is dropped *)
              let h3 := if must_cache m1 then h2 else set_cache h2 [] in
              let (e, w1) := save_schema w0 m1 in
              (mk (set_mem h3 (Some m1)) w1, RUnit (lift_e e))
          end
      | (h1, _, Some ENotFound) =>
          let m := {| m_set := st; m_fields := fds; m_shape := live_shape; m_idx := new_index fds; m_started := false |} in
          let (ok, w1) := fs_mkdir w in
          if negb ok then (mk h1 w1, RUnit (Err EStorage)) else
          let '(e, w2) := match d_schema (w_disk w1) with
                          | None => let (ok2, w2) := fs_write_schema w1 (sfile_of m) in
                                    ((if ok2 then None else Some EStorage), w2)
                          | Some _ => (None, w1)
                          end in
          match e with
          | Some x => (mk h1 w2, RUnit (Err x))
          | None =>
              match control_mem live_shape m (w_disk w2) with
              | Some x => (mk h1 w2, RUnit (Err x))
              | None => (mk (set_mem h1 (Some m)) w2, RUnit (Ok tt))
              end
          end
      | (h1, _, Some e) => (mk h1 w, RUnit (Err e))
      | (h1, None, None) => (mk h1 w, RUnit (Err EOther))
      end
  | OInsert u fresh ob => do_insert hk live_shape s u fresh ob
  | OMany ms => match do_many hk live_shape s ms with (s1, r, n) => (s1, RMany r n) end
  | OBulk csize ms =>
      match bulk_loop hk live_shape s (chunks csize ms) 0%Z with (s1, r, n) => (s1, RMany r n) end
  | ODelete u =>
      match db_schema live_shape h d with
      | (h1, Some m, None) =>
          match delete_core h1 w m u with
          | (h2, r, w2) =>
              match commit live_shape h2 w2 with
              | (h3, Some e, w3) => (mk h3 w3, RUnit (match r with Panic => Panic | _ => Err e end))
              | (h3, None, w3) => (mk h3 w3, RUnit r)
              end
          end
      | (h1, _, Some e) => (mk h1 w, RUnit (Err e))   (* second lookup (commit) fails the same way or succeeds *)
      | (h1, None, None) => (mk h1 w, RUnit (Err EOther))
      end
  | ODeleteAll order =>
      with_schema live_shape s
        (fun h1 m => do_delete_objects live_shape h1 w
                       (map (fun u => Some u) (order_by order (map snd (oi_ids (m_idx m))))))
        (fun h1 e => (mk h1 w, RUnit (Err e)))
  | OGet u =>
      with_schema live_shape s
        (fun h1 m => match get_with h1 m d u with
                     | (h2, Ok ob) => (mk h2 w, RObj (Ok (u, ob)))
                     | (h2, Err e) => (mk h2 w, RObj (Err e))
                     | (h2, Panic) => (mk h2 w, RObj Panic)
                     end)
        (fun h1 e => (mk h1 w, RObj (Err e)))
  | OExist u =>
      with_schema live_shape s
        (fun h1 m => (mk h1 w, RBool (Ok (exist_with h1 m d u))))
        (fun h1 e => (mk h1 w, RBool (Err e)))
  | OCount =>
      with_schema live_shape s
        (fun h1 m => (mk h1 w, RNum (Ok (Z.of_nat (length (oi_ids (m_idx m)))))))
        (fun h1 e => (mk h1 w, RNum (Err e)))
  | OAll =>
      with_schema live_shape s
        (fun h1 m => match collect_loop h1 m d (map (fun p => Some (snd p)) (oi_ids (m_idx m))) None [] with
                     | (h2, l, None, _) => (mk h2 w, RObjs (Ok l))
                     | (h2, _, Some e, _) => (mk h2 w, RObjs (Err e))
                     end)
        (fun h1 e => (mk h1 w, RObjs (Err e)))
  | OSearch sid fld so probe =>
      with_schema live_shape s
        (fun h1 m => match search_with hk h1 m d fld so probe None with
                     | (h2, r) => (mk (set_srch h2 (put sid r (h_srch h2))) w,
                                   RSearch (sr_err r) (Z.of_nat (length (sr_fields r))))
                     end)
        (fun h1 e => let r := {| sr_fields := []; sr_err := Some e; sr_limit := None; sr_rev := false |} in
                     (mk (set_srch h1 (put sid r (h_srch h1))) w, RSearch (Some e) 0%Z))
  | OAnd sid old fld so probe =>
      let prev := find_srch h old in
      match sr_err prev with
      | Some e => (mk (set_srch h (put sid prev (h_srch h))) w, RSearch (Some e) (Z.of_nat (length (sr_fields prev))))
      | None =>
          with_schema live_shape s
            (fun h1 m => match search_with hk h1 m d fld so probe (Some (sr_fields prev)) with
                         | (h2, r) => (mk (set_srch h2 (put sid r (h_srch h2))) w,
                                       RSearch (sr_err r) (Z.of_nat (length (sr_fields r))))
                         end)
            (fun h1 e => let r := {| sr_fields := []; sr_err := Some e; sr_limit := None; sr_rev := false |} in
                         (mk (set_srch h1 (put sid r (h_srch h1))) w, RSearch (Some e) 0%Z))
      end
  | OOr sid old fld so probe =>
      let prev := find_srch h old in
      match sr_err prev with
      | Some e => (mk (set_srch h (put sid prev (h_srch h))) w, RSearch (Some e) (Z.of_nat (length (sr_fields prev))))
      | None =>
          with_schema live_shape s
            (fun h1 m => match search_with hk h1 m d fld so probe None with
                         | (h2, r) =>
                             let r' := {| sr_fields := or_merge (sr_fields r) (sr_fields prev); sr_err := sr_err r;
                                          sr_limit := None; sr_rev := false |} in
                             (mk (set_srch h2 (put sid r' (h_srch h2))) w,
                              RSearch (sr_err r') (Z.of_nat (length (sr_fields r'))))
                         end)
            (fun h1 e => let r := {| sr_fields := sr_fields prev; sr_err := Some e; sr_limit := None; sr_rev := false |} in
                         (mk (set_srch h1 (put sid r (h_srch h1))) w, RSearch (Some e) (Z.of_nat (length (sr_fields prev)))))
      end
  | OLen sid => (s, RNum (Ok (Z.of_nat (length (sr_fields (find_srch h sid))))))
  | OCollect sid lim rv =>
      let r0 := find_srch h sid in
      let r := {| sr_fields := sr_fields r0; sr_err := sr_err r0;
                  sr_limit := match lim with Some _ => lim | None => sr_limit r0 end;
                  sr_rev := sr_rev r0 || rv |} in
      match sr_err r with
      | Some e => (mk (set_srch h (put sid r (h_srch h))) w, RObjs (Err e))
      | None =>
          match db_schema live_shape h d with
          | (h1, Some m, None) =>
              let us := map (fun e => oid_uuid (m_idx m) (snd e)) (sr_fields r) in
              let us' := if sr_rev r then rev us else us in
              match collect_loop h1 m d us' (sr_limit r) [] with
              | (h2, l, e, lim') =>
                  let r' := {| sr_fields := sr_fields r; sr_err := sr_err r; sr_limit := lim'; sr_rev := sr_rev r |} in
                  (mk (set_srch h2 (put sid r' (h_srch h2))) w,
                   RObjs (match e with None => Ok l | Some x => Err x end))
              end
          | (h1, _, Some e) => (mk (set_srch h1 (put sid r (h_srch h1))) w, RObjs (Err e))
          | (h1, None, None) => (mk h1 w, RObjs (Err EOther))
          end
      end
  | OOne sid =>
      let r0 := find_srch h sid in
      match sr_err r0 with
      | Some e => (s, RObj (Err e))
      | None =>
          match sr_fields r0 with
          | [] => (s, RObj (Err ENoObject))
          | _ =>
              let r := {| sr_fields := sr_fields r0; sr_err := None; sr_limit := Some 1%N; sr_rev := sr_rev r0 |} in
              match db_schema live_shape h d with
              | (h1, Some m, None) =>
                  let us := map (fun e => oid_uuid (m_idx m) (snd e)) (sr_fields r) in
                  let us' := if sr_rev r then rev us else us in
                  match collect_loop h1 m d us' (sr_limit r) [] with
                  | (h2, l, e, lim') =>
                      let r' := {| sr_fields := sr_fields r; sr_err := None; sr_limit := lim'; sr_rev := sr_rev r |} in
                      (mk (set_srch h2 (put sid r' (h_srch h2))) w,
                       match e, l with
                       | Some x, _ => RObj (Err x)
                       | None, x :: _ => RObj (Ok x)
                       | None, [] => RObj Panic
                       end)
                  end
              | (h1, _, Some e) => (mk (set_srch h1 (put sid r (h_srch h1))) w, RObj (Err e))
              | (h1, None, None) => (mk h1 w, RObj (Err EOther))
              end
          end
      end
  | OSearchDelete sid =>
      let r := find_srch h sid in
      match sr_err r with
      | Some e => (s, RUnit (Err e))
      | None =>
          with_schema live_shape s
            (fun h1 m => do_delete_objects live_shape h1 w (map (fun e => oid_uuid (m_idx m) (snd e)) (sr_fields r)))
            (fun h1 e => (mk h1 w, RUnit (Err e)))
      end
  | OAssignIndex fld =>
      with_schema live_shape s
        (fun h1 m => match fld with
                     | None => (mk h1 w, RKeys (Err ENotIndexed))
                     | Some f => match nth_opt f (oi_fx (m_idx m)) with
                                 | Some (Some l) => (mk h1 w, RKeys (Ok (map fst l)))
                                 | _ => (mk h1 w, RKeys (Err ENotIndexed))
                                 end
                     end)
        (fun h1 e => (mk h1 w, RKeys (Err e)))
  | OCommit => match commit live_shape h w with (h1, e, w1) => (mk h1 w1, RUnit (lift_e e)) end
  | OFlushAll => match flush_all live_shape h w with (h1, e, w1) => (mk h1 w1, RUnit (lift_e e)) end
  | OFlushAllCommit => match flush_all_commit live_shape h w with (h1, e, w1) => (mk h1 w1, RUnit (lift_e e)) end
  | OControl =>
      match h_mem h with
      | None => (s, RUnit (Ok tt))
      | Some m => (s, RUnit (lift_e (control_mem live_shape m d)))
      end
  | ORepair order =>
      match db_schema live_shape h d with
      | (h1, Some m, e) =>
          (* e is None or ECorrupted here *)
          if negb (d_dir d) then (mk h1 w, RUnit (Err ENotFound)) else
          let on_disk := disk_uuids d in
          match repair_add h1 w (order_by order on_disk) with
          | (h2, Ok _) =>
              match h_mem h2 with
              | None => (mk h2 w, RUnit (Err EOther))
              | Some m2 =>
                  match repair_drop (m_idx m2) (indexed_uuids (m_idx m2)) on_disk with
                  | None => (mk h2 w, RUnit Panic)
                  | Some ix =>
                      let h3 := set_mem h2 (Some (set_idx m2 ix)) in
                      match commit live_shape h3 w with
                      | (h4, e4, w4) => (mk h4 w4, RUnit (lift_e e4))
                      end
                  end
              end
          | (h2, r) => (mk h2 w, RUnit r)
          end
      | (h1, None, Some e) => (mk h1 w, RUnit (Err e))
      | (h1, None, None) => (mk h1 w, RUnit (Err EOther))
      end
  | OClose =>
      let h0 := set_cancel h in
      match flush_all live_shape h0 w with
      | (h1, e1, w1) =>
          match h_mem h1 with
          | None => (mk h1 w1, RUnit (lift_e e1))
          | Some _ =>
              match commit live_shape h1 w1 with
              | (h2, Some e2, w2) => (mk h2 w2, RUnit (Err e2))
              | (h2, None, w2) => (mk h2 w2, RUnit (lift_e e1))
              end
          end
      end
  | OReopen => (mk new_handle w, RUnit (Ok tt))
  | ODrop =>
      let (ok, w1) := fs_remove_all w in
      (mk (set_cancel h) w1, RUnit (if ok then Ok tt else Err EStorage))
  | OSchema =>
      match db_schema live_shape h d with
      | (h1, _, e) => (mk h1 w, RUnit (lift_e e))
      end
  | OTick => (s, RUnit (Ok tt))       (* handled by [step] *)
  | OFailAt k => (mk h {| w_disk := d; w_fail := Some k; w_fired := false; w_crash := false; w_dead := false;
                          w_log := w_log w |}, RUnit (Ok tt))
  | OCrashAt k => (mk h {| w_disk := d; w_fail := Some k; w_fired := false; w_crash := true; w_dead := false;
                           w_log := w_log w |}, RUnit (Ok tt))
  | XRmFile u =>
      if negb (existsb (fun p => N.eqb (fn_uuid (fst p)) u) (d_files d)) then (s, RUnit (Err ENotFound)) else
      (mk h (set_disk w {| d_dir := d_dir d; d_schema := d_schema d;
                           d_files := filter (fun p => negb (N.eqb (fn_uuid (fst p)) u)) (d_files d);
                           d_other := d_other d |}), RUnit (Ok tt))
  | XAddFile u sfx ob =>
      (mk h (set_disk w (disk_set_file {| fn_uuid := u; fn_suffix := sfx |} (COk ob) d)), RUnit (Ok tt))
  | XCorrupt u =>
      if negb (existsb (fun p => N.eqb (fn_uuid (fst p)) u) (d_files d)) then (s, RUnit (Err ENotFound)) else
      (mk h (set_disk w {| d_dir := d_dir d; d_schema := d_schema d;
                           d_files := map (fun p => if N.eqb (fn_uuid (fst p)) u then (fst p, CBad) else p) (d_files d);
                           d_other := d_other d |}), RUnit (Ok tt))
  | XRmSchema =>
      match d_schema d with
      | None => (s, RUnit (Err ENotFound))
      | Some _ => (mk h (set_disk w (disk_set_schema None d)), RUnit (Ok tt))
      end
  | XRmEntry u =>
      match d_schema d with
      | Some (SOk sf) =>
          match uuid_oid (oi_ids (sf_idx sf)) u with
          | None => (s, RUnit (Err ENotFound))
          | Some oid =>
              let ix := sf_idx sf in
              let ix' := {| oi_next := oi_next ix; oi_ids := remove_key oid (oi_ids ix);
                            oi_fx := map (fun o => match o with
                                                   | None => None
                                                   | Some l => Some (filter (fun e => negb (N.eqb (snd e) oid)) l)
                                                   end) (oi_fx ix) |} in
              (mk h (set_disk w (disk_set_schema (Some (SOk {| sf_set := sf_set sf; sf_fields := sf_fields sf;
                                                              sf_shape := sf_shape sf; sf_idx := ix' |})) d)),
               RUnit (Ok tt))
          end
      | _ => (s, RUnit (Err ENotFound))
      end
  | XStray name =>
      (mk h (set_disk w {| d_dir := d_dir d; d_schema := d_schema d; d_files := d_files d;
                           d_other := if existsb (str_eqb name) (d_other d) then d_other d else d_other d ++ [name] |}),
       RUnit (Ok tt))
  | XStrayUuidDir u =>
      (mk h (set_disk w (disk_set_file {| fn_uuid := u; fn_suffix := [46; 106; 115; 111; 110]%N |} CDir d)), RUnit (Ok tt))
  | OFlushOne u ob withc =>
      (* FlushAndCommit commits first; db.flush then writes the object it was GIVEN (writeObject looks
         the schema up itself) and drops the pending entry whatever happened; the last error wins *)
      let '(h0, e0, w0) := if withc then commit live_shape h w else (h, None, w) in
      match db_schema live_shape h0 (w_disk w0) with
      | (h1, Some m, None) =>
          let (e1, w1) := write_object w0 m u ob in
          (mk (set_pend h1 (remove_key u (h_pend h1))) w1,
           RUnit (lift_e (match e1 with Some x => Some x | None => e0 end)))
      | (h1, _, Some e) => (mk (set_pend h1 (remove_key u (h_pend h1))) w0, RUnit (Err e))
      | (h1, None, None) => (mk (set_pend h1 (remove_key u (h_pend h1))) w0, RUnit (Err EOther))
      end
  | OExpects sid n zero_ok =>
      let r := find_srch h sid in
      match sr_err r with
      | Some e => (s, RSearch (Some e) (Z.of_nat (length (sr_fields r))))
      | None =>
          let found := Z.of_nat (length (sr_fields r)) in
          if Z.eqb found n || (zero_ok && Z.eqb found 0) then (s, RSearch None found)
          else
            let r' := {| sr_fields := sr_fields r; sr_err := Some EUnexpectedN; sr_limit := sr_limit r; sr_rev := sr_rev r |} in
            (mk (set_srch h (put sid r' (h_srch h))) w, RSearch (Some EUnexpectedN) found)
      end
  | XRmFieldEntry u fld =>
      match d_schema d with
      | Some (SOk sf) =>
          match uuid_oid (oi_ids (sf_idx sf)) u, nth fld (oi_fx (sf_idx sf)) None with
          | Some oid, Some l =>
              let ix := sf_idx sf in
              let l' := filter (fun e => negb (N.eqb (snd e) oid)) l in
              let ix' := {| oi_next := oi_next ix; oi_ids := oi_ids ix;
                            oi_fx := firstn fld (oi_fx ix) ++ Some l' :: skipn (S fld) (oi_fx ix) |} in
              (mk h (set_disk w (disk_set_schema (Some (SOk {| sf_set := sf_set sf; sf_fields := sf_fields sf;
                                                              sf_shape := sf_shape sf; sf_idx := ix' |})) d)),
               RUnit (Ok tt))
          | _, _ => (s, RUnit (Err ENotFound))
          end
      | _ => (s, RUnit (Err ENotFound))
      end
  end.

(* one step: the foreground call, then goroutines it started run once; a tick wakes every
   parked flusher.  A fault armed by OFailAt is disarmed when the next call ends. *)
Definition step (hk : hooks) (live_shape : N) (s : state) (o : op) : state * out :=
  match o with
  | OTick =>
      match run_flushers live_shape (set_fl (s_h s) []) (s_w s) (h_fl (s_h s)) false [] with
      | Ok (h1, w1, fl) => (mk (set_fl h1 (fl ++ h_fl h1)) w1, RUnit (Ok tt))
      | Err e => (s, RUnit (Err e))
      | Panic => (s, RPanic)
      end
  | _ =>
      let armed := match o with OFailAt _ | OCrashAt _ => true | _ => false end in
      let (s1, r) := step_fg hk live_shape s o in
      let w1 := s_w s1 in
      let w2 := if armed then w1
                else {| w_disk := w_disk w1; w_fail := None; w_fired := w_fired w1; w_crash := false;
                        w_dead := false; w_log := w_log w1 |} in
      if w_dead w1 then (mk new_handle w2, RCrash) else
      match settle live_shape (s_h s1) w2 with
      | Ok (h2, w3) => (mk h2 w3, r)
      | Err e => (mk (s_h s1) w2, r)
      | Panic => (mk (s_h s1) w2, RPanic)
      end
  end.

Definition init_state : state :=
  {| s_h := new_handle; s_w := {| w_disk := empty_disk; w_fail := None; w_fired := false; w_crash := false;
                                  w_dead := false; w_log := [] |} |}.

Definition run (hk : hooks) (live_shape : N) (s : state) (ops : list op) : state :=
  fold_left (fun st o => fst (step hk live_shape st o)) ops s.
