(* Model/Layout.v: names on disk (sod.go itemname/oDir, utils.go camelToSnake, schema.go filename).
   Strings are ASCII byte lists (bytes >= 128 are outside the modelled domain: the Go code
   mixes rune iteration with byte indexing there). *)
From Coq Require Import List NArith Bool.
Import ListNotations.
From Sod.Model Require Import Base.

Definition is_lower (c : N) : bool := N.leb 97 c && N.leb c 122.
Definition is_upper (c : N) : bool := N.leb 65 c && N.leb c 90.
Definition is_digit (c : N) : bool := N.leb 48 c && N.leb c 57.

(* camelToSnake: [out_nonempty] = snake.Len() > 0, [prev_lower] as in the Go loop *)
Fixpoint snake_loop (s : list N) (out_nonempty prev_lower : bool) : list N :=
  match s with
  | [] => []
  | cur :: rest =>
      let next_lower := match rest with n :: _ => is_lower n | [] => false end in
      if is_upper cur || is_digit cur then
        let sep := if out_nonempty && (next_lower || prev_lower) then [95%N] else [] in
        let c := if is_digit cur then cur else (cur + 32)%N in
        sep ++ c :: snake_loop rest true false
      else cur :: snake_loop rest true true
  end.

Definition camel_to_snake (s : list N) : list N := snake_loop s false false.

(* the collection directory of a stored type string *)
Definition dir_name (lowercase_names : bool) (stype : list N) : list N :=
  if lowercase_names then camel_to_snake stype else stype.

(* <uuid><extension>[.gz] *)
Definition gz_ext : list N := [46; 103; 122]%N.
Definition object_file_name (uuid ext : list N) (compress : bool) : list N :=
  uuid ++ ext ++ (if compress then gz_ext else []).

(* ---------------------------------------------------------------- names of object files, byte level *)
Definition is_hex (c : N) : bool :=
  is_digit c || (N.leb 97 c && N.leb c 102) || (N.leb 65 c && N.leb c 70).

(* sod.go uuidRegexp: (?i:^[A-F0-9]{8}-[A-F0-9]{4}-[A-F0-9]{4}-[A-F0-9]{4}-[A-F0-9]{12}$) *)
Fixpoint shaped_from (i : nat) (s : list N) : bool :=
  match s with
  | [] => true
  | c :: r =>
      (if Nat.eqb i 8 || Nat.eqb i 13 || Nat.eqb i 18 || Nat.eqb i 23 then N.eqb c 45 else is_hex c)
      && shaped_from (S i) r
  end.
Definition uuid_shaped (s : list N) : bool := Nat.eqb (length s) 36 && shaped_from 0 s.

(* utils.go uuidExt: a uuid is 36 bytes long; the extension is what follows *)
Definition uuid_ext (name : list N) : list N * list N :=
  if Nat.leb 36 (length name) then (firstn 36 name, skipn 36 name) else (name, []).

(* utils.go uuidsFromDir: the uuid a directory entry is listed under, if any *)
Definition listed_uuid (name : list N) : option (list N) :=
  let u := fst (uuid_ext name) in if uuid_shaped u then Some u else None.
