(* Model/Descr.v: field_desc.go. How sod derives the field descriptors of a Go struct type
   (recFieldDescriptors, fdFromType, joinFieldPath, FieldDescriptors) and how it compares two
   descriptor tables (CompatibleWith, FieldsCompatibleWith, schema.go isCompatibleWith).

   Go types enter as trees: the harness reads them off the live type by reflection (kind,
   Type.String(), field names, IsExported, the value of Tag.Lookup("sod"), assignability to
   time.Time), so reflect itself and StructTag.Lookup stay outside the model.  Strings are byte
   lists as in Layout.v. *)
From Coq Require Import List NArith Bool.
Import ListNotations.

Definition str := list N.

Fixpoint str_eqb (a b : str) : bool :=
  match a, b with
  | [], [] => true
  | x :: a', y :: b' => N.eqb x y && str_eqb a' b'
  | _, _ => false
  end.

(* ------------------------------------------------------------------ constraints *)
Record cons := { c_index : bool; c_unique : bool; c_upper : bool; c_lower : bool }.
Definition c0 : cons := {| c_index := false; c_unique := false; c_upper := false; c_lower := false |}.

Definition cons_eqb (a b : cons) : bool :=
  Bool.eqb (c_index a) (c_index b) && Bool.eqb (c_unique a) (c_unique b) &&
  Bool.eqb (c_upper a) (c_upper b) && Bool.eqb (c_lower a) (c_lower b).

Definition s_index : str := [105; 110; 100; 101; 120]%N.
Definition s_unique : str := [117; 110; 105; 113; 117; 101]%N.
Definition s_lower : str := [108; 111; 119; 101; 114]%N.
Definition s_upper : str := [117; 112; 112; 101; 114]%N.
Definition comma : N := 44%N.
Definition dot : N := 46%N.

(* strings.Split(s, sep) for a one-byte separator: never empty, "" gives [""] *)
Fixpoint split_on (sep : N) (s : str) : list str :=
  match s with
  | [] => [[]]
  | c :: r =>
      if N.eqb c sep then [] :: split_on sep r
      else match split_on sep r with
           | w :: ws => (c :: w) :: ws
           | [] => [[c]]          (* unreachable: split_on never returns [] *)
           end
  end.

(* one iteration of the switch in fdFromType *)
Definition apply_opt (c : cons) (tv : str) : cons :=
  if str_eqb tv s_index then {| c_index := true; c_unique := c_unique c; c_upper := c_upper c; c_lower := c_lower c |}
  else if str_eqb tv s_unique then {| c_index := true; c_unique := true; c_upper := c_upper c; c_lower := c_lower c |}
  else if str_eqb tv s_lower then {| c_index := c_index c; c_unique := c_unique c; c_upper := c_upper c; c_lower := true |}
  else if str_eqb tv s_upper then {| c_index := c_index c; c_unique := c_unique c; c_upper := true; c_lower := c_lower c |}
  else c.

Definition cons_of_opts (opts : list str) : cons := fold_left apply_opt opts c0.
Definition cons_of_tag (tag : str) : cons := cons_of_opts (split_on comma tag).

(* Constraints.Transformer *)
Definition transformer (c : cons) : bool := c_upper c || c_lower c.

(* ------------------------------------------------------------------ descriptors *)
Record fd := { fd_path : str; fd_type : str; fd_cons : cons }.

Definition fd_from_type (path tag tname : str) : fd :=
  {| fd_path := path; fd_type := tname; fd_cons := cons_of_tag tag |}.

(* FieldDescriptor.DeepEqual / FieldEqual *)
Definition fd_deep_eqb (a b : fd) : bool :=
  str_eqb (fd_path a) (fd_path b) && str_eqb (fd_type a) (fd_type b) && cons_eqb (fd_cons a) (fd_cons b).
Definition fd_field_eqb (a b : fd) : bool :=
  str_eqb (fd_path a) (fd_path b) && str_eqb (fd_type a) (fd_type b).

(* castType: the kind values are indexed with; None = not indexable *)
Inductive cast := CInt | CUint | CFloat | CString.

(* ------------------------------------------------------------------ Go types as trees *)
Inductive gty :=
| TLeaf (tname : str)                      (* any kind other than Ptr and Struct *)
| TPtr (tname : str) (elem : gty)          (* tname = String() of the pointer type itself *)
| TStruct (tname : str) (is_time : bool)   (* is_time = AssignableTo(time.Time) *)
          (fields : list (str * bool * str * gty)).   (* name, IsExported, sod tag, type *)

Definition join_path (path name : str) : str :=
  match path with [] => name | _ => path ++ dot :: name end.

(* recFieldDescriptors on a NON-NIL value of the type (a field that is a pointer is replaced by
   reflect.New of its element type, so only the top-level value can be nil, which the model
   excludes).  A pointer is followed only when it points DIRECTLY to a struct. *)
Definition fld := (str * bool * str * gty)%type.

Fixpoint rec_fds (t : gty) (path : str) : list fd :=
  let fields_loop :=
    fix loop (fs : list fld) : list fd :=
      match fs with
      | [] => []
      | (name, exported, tag, ft) :: r =>
          if negb exported then loop r
          else
            match ft with
            | TPtr _ _ => rec_fds ft (join_path path name) ++ loop r
            | TStruct tn false _ => rec_fds ft (join_path path name) ++ loop r
            | TStruct tn true _ => fd_from_type (join_path path name) tag tn :: loop r
            | TLeaf tn => fd_from_type (join_path path name) tag tn :: loop r
            end
      end in
  match t with
  | TLeaf tn => [fd_from_type path [] tn]
  | TPtr tn e =>
      match e with
      | TStruct _ _ _ => rec_fds e path
      | _ => [fd_from_type path [] tn]
      end
  | TStruct _ _ fs => fields_loop fs
  end.

(* ------------------------------------------------------------------ descriptor tables (Go maps) *)
Definition fdmap := list (str * fd).

Fixpoint fm_get (p : str) (m : fdmap) : option fd :=
  match m with
  | [] => None
  | (k, v) :: r => if str_eqb p k then Some v else fm_get p r
  end.

Fixpoint fm_put (p : str) (v : fd) (m : fdmap) : fdmap :=
  match m with
  | [] => [(p, v)]
  | (k, w) :: r => if str_eqb p k then (k, v) :: r else (k, w) :: fm_put p v r
  end.

(* FieldDescriptors: the slice poured into a map keyed by path (a later entry would replace an
   earlier one with the same path) *)
Definition field_descriptors (t : gty) : fdmap :=
  fold_left (fun m d => fm_put (fd_path d) d m) (rec_fds t []) [].

(* FieldDescMap.Transformers (as a set; Go map order) *)
Definition transformers (m : fdmap) : list fd := filter (fun d => transformer (fd_cons d)) (map snd m).

(* CompatibleWith / FieldsCompatibleWith: [eqb] is DeepEqual resp. FieldEqual; iteration in the
   order of the association list (Go: map order; the ok/not-ok outcome does not depend on it,
   see DescrProofs.compat_order_irrelevant) *)
Inductive cerr := EUnknownField | EFieldDescModif.

Fixpoint compat_half (eqb : fd -> fd -> bool) (m t : fdmap) : option cerr :=
  match m with
  | [] => None
  | (p, d) :: r =>
      match fm_get p t with
      | None => Some EUnknownField
      | Some o => if eqb d o then compat_half eqb r t else Some EFieldDescModif
      end
  end.

Definition compat_gen (eqb : fd -> fd -> bool) (m t : fdmap) : option cerr :=
  match compat_half eqb m t with
  | Some e => Some e
  | None => compat_half eqb t m
  end.

Definition compatible_with := compat_gen fd_deep_eqb.
Definition fields_compatible_with := compat_gen fd_field_eqb.

(* schema.go isCompatibleWith: extension first, then the descriptors *)
Inductive serr := SExtension | SFields (e : cerr).
Definition schema_compatible (ext1 ext2 : str) (f1 f2 : fdmap) : option serr :=
  if negb (str_eqb ext1 ext2) then Some SExtension
  else match compatible_with f1 f2 with Some e => Some (SFields e) | None => None end.

(* ------------------------------------------------------------------ reaching a field by its path
   Constraints.recursiveTransform(strings.Split(path, "."), reflect.ValueOf(o)) over a value tree:
   what it finds at the end of the path (None = it stops silently: nil pointer on the way,
   missing field -- FieldByName returns the zero Value -- or a non-struct in the middle). *)
Inductive gval :=
| VLeaf (tname : str) (payload : N)
| VNil (tname : str)                                   (* nil pointer *)
| VPtr (tname : str) (v : gval)
| VStruct (tname : str) (fields : list (str * gval)).

Fixpoint vfield (name : str) (fs : list (str * gval)) : option gval :=
  match fs with
  | [] => None
  | (n, v) :: r => if str_eqb name n then Some v else vfield name r
  end.

(* fuel = number of pointer hops + path components still allowed (the Go recursion is on both) *)
Fixpoint reach (fuel : nat) (names : list str) (v : gval) : option gval :=
  match fuel with
  | O => None
  | S k =>
      match v with
      | VPtr _ e => reach k names e
      | VStruct _ fs =>
          match names with
          | [] => None              (* fieldPath[0] on an empty slice: cannot happen, Split is never empty *)
          | n :: rest =>
              match vfield n fs with
              | None => None
              | Some x => match rest with [] => Some x | _ => reach k rest x end
              end
          end
      | _ => None
      end
  end.
