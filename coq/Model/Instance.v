(* Model/Instance.v: the concrete hooks used by the correspondence check.
   - Transform / Validate mirror /verif/go/harness/shape/shape.go (driven by fields TM / VM);
   - ToUpper / ToLower / regexp are ORACLE TABLES carried by the trace (images computed by Go). *)
From Coq Require Import List ZArith NArith Bool.
Import ListNotations.
From Sod.Model Require Import Base ObjIndex DB.

(* positions of the fields of shape.Rec in the flat record *)
Definition pA := 0%nat.  Definition pS := 6%nat.  Definition pK := 7%nat.
Definition pTM := 16%nat. Definition pVM := 17%nat.

Definition get_int (ks : list key) (p : nat) : Z :=
  match nth_opt p ks with Some (KInt z) => z | _ => 0%Z end.
Definition get_str (ks : list key) (p : nat) : list N :=
  match nth_opt p ks with Some (KStr s) => s | _ => [] end.

Definition inst_tr (ks : list key) : list key :=
  match get_int ks pTM with
  | 1%Z => set_nth pS (KStr (get_str ks pS ++ [120%N])) ks                                  (* S += "x" *)
  | 2%Z => set_nth pA (KInt (Z.lxor (get_int ks pA) 1)) ks                                   (* A ^= 1 *)
  | 3%Z => set_nth pK (KStr (get_str ks pK ++ [35%N] ++ get_str ks pS)) ks                   (* K = K+"#"+S *)
  | _ => ks
  end.

Definition inst_va (ks : list key) : bool :=
  match get_int ks pVM with
  | 1%Z => negb (Nat.odd (length (get_str ks pS)))
  | 2%Z => negb (Z.odd (get_int ks pA))
  | 3%Z => false
  | _ => true
  end.

Fixpoint lookup_str {B} (s : list N) (l : list (list N * B)) : option B :=
  match l with
  | [] => None
  | (k, v) :: r => if str_eqb s k then Some v else lookup_str s r
  end.

(* case table: string -> (upper, lower); regex table: pattern -> None (does not compile) or the
   list of known strings it matches *)
Definition mk_hooks (cases : list (list N * (list N * list N)))
                    (rxs : list (list N * option (list (list N)))) : hooks :=
  {| hk_tr := inst_tr;
     hk_va := inst_va;
     hk_up := fun s => match lookup_str s cases with Some (u, _) => u | None => s end;
     hk_lo := fun s => match lookup_str s cases with Some (_, l) => l | None => s end;
     hk_rx := fun p => match lookup_str p rxs with
                       | Some None => None
                       | Some (Some ms) => Some (fun s => existsb (str_eqb s) ms)
                       | None => Some (fun _ => false)
                       end |}.
