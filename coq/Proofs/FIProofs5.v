(* Proofs/FIProofs5.v: control (the sortedness check run on load), satisfy_unique, constrain
   and search_rx of Model/FieldIndex.v; then every main theorem of FIProofs4/5 instantiated at
   the concrete [key] type of Model/Base.v with the order lemmas of Proofs/KeyOrder.v. *)
From Coq Require Import List Arith Lia Bool PeanoNat ZArith NArith Permutation Setoid.
Import ListNotations.
From Sod.Model Require Import Base FieldIndex.
From Sod.Proofs Require Import FIProofs1 FIProofs2 FIProofs3 FIProofs4 KeyOrder.
Open Scope Z_scope.

Section Proofs5.
Variable K : Type.
Variable ltb eqb : K -> K -> bool.
Hypothesis lt_irrefl : forall a, ltb a a = false.
Hypothesis lt_trans : forall a b c, ltb a b = true -> ltb b c = true -> ltb a c = true.
Hypothesis lt_negtrans : forall a b c, ltb a b = false -> ltb b c = false -> ltb a c = false.
Hypothesis eq_def : forall a b, eqb a b = negb (ltb a b) && negb (ltb b a).

Notation entry := (entry K).
Notation sorted_desc := (sorted_desc K ltb).
Notation oids := (oids K).
Notation ins_pure := (ins_pure K ltb).

(* ------------------------------------------------------------------ 6. control *)

(* the "out of order" test of fieldIndex.control is exactly  v < tv *)
Lemma control_step v tv : negb (eqb v tv) && negb (ltb tv v) = ltb v tv.
Proof.
  rewrite eq_def. destruct (ltb v tv) eqn:E1; cbn.
  - rewrite (lt_asym K ltb lt_irrefl lt_trans _ _ E1). reflexivity.
  - destruct (ltb tv v); reflexivity.
Qed.

Lemma control_from_iff : forall l v o,
  control_from K ltb eqb v l = true <-> sorted_desc ((v, o) :: l).
Proof.
  induction l as [|[tv o'] r IH]; intros v o; cbn [control_from].
  - split; [intros _; apply sorted_single|reflexivity].
  - rewrite control_step. destruct (ltb v tv) eqn:E.
    + split; [discriminate|]. intros H. apply (sorted_cons K ltb) in H. destruct H as [H _].
      specialize (H (tv, o') (or_introl eq_refl)). cbn [fst] in H. congruence.
    + split.
      * intros H. apply (IH tv o') in H. apply (sorted_cons K ltb). split; [|exact H].
        intros b [<-|Hb]; [exact E|].
        apply (sorted_cons K ltb) in H. destruct H as [H1 _]. cbn [fst] in *.
        apply (lt_negtrans _ tv _ E). apply (H1 b Hb).
      * intros H. apply (sorted_cons K ltb) in H. destruct H as [_ H]. apply (IH tv o'). exact H.
Qed.

(* the check run on every loaded index accepts exactly the sorted (descending) indexes *)
Theorem control_iff_sorted l : control K ltb eqb l = true <-> sorted_desc l.
Proof.
  destruct l as [|[v o] r]; unfold control.
  - split; [intros _; apply sorted_nil|reflexivity].
  - cbn [control_from]. rewrite control_step, lt_irrefl. apply control_from_iff.
Qed.

Corollary control_false_iff l : control K ltb eqb l = false <-> ~ sorted_desc l.
Proof.
  rewrite <- control_iff_sorted. destruct (control K ltb eqb l); split; congruence.
Qed.

(* ------------------------------------------------------------------ 7. satisfy_unique *)

Lemma satisfy_unique_eq l oid exist k : sorted_desc l ->
  satisfy_unique K ltb eqb l oid exist k =
  Some (match filter (fun e => eqb (fst e) k) l with
        | [] => true
        | [e] => exist && N.eqb (snd e) oid
        | _ => false
        end).
Proof.
  intros Hs. unfold satisfy_unique.
  rewrite (search_eq_spec K ltb eqb lt_negtrans eq_def l k Hs).
  destruct (filter (fun e : K * N => eqb (fst e) k) l) as [|e1 [|e2 t]]; reflexivity.
Qed.

(* never panics; the unique constraint is satisfied iff every entry carrying the key is the
   object's own (already existing) entry *)
Theorem satisfy_unique_spec l oid exist k : sorted_desc l -> NoDup (oids l) ->
  exists b, satisfy_unique K ltb eqb l oid exist k = Some b /\
    (b = true <-> forall e, In e l -> eqb (fst e) k = true -> exist = true /\ snd e = oid).
Proof.
  intros Hs Hnd. rewrite (satisfy_unique_eq l oid exist k Hs).
  assert (HF : forall e, In e (filter (fun e : entry => eqb (fst e) k) l) <->
                         In e l /\ eqb (fst e) k = true) by (intros e; apply filter_In).
  pose proof (NoDup_oids_filter K (fun e => eqb (fst e) k) l Hnd) as HndF.
  unfold FieldIndex.entry in *.
  destruct (filter (fun e : K * N => eqb (fst e) k) l) as [|e1 [|e2 t]].
  - exists true. split; [reflexivity|]. split; [|reflexivity].
    intros _ e Hin He. exfalso. apply (proj2 (HF e) (conj Hin He)).
  - exists (exist && N.eqb (snd e1) oid). split; [reflexivity|]. split.
    + intros Hb e Hin He. apply andb_true_iff in Hb. destruct Hb as [Hb1 Hb2]. apply N.eqb_eq in Hb2.
      destruct (proj2 (HF e) (conj Hin He)) as [<-|[]]. split; assumption.
    + intros H. destruct (proj1 (HF e1) (or_introl eq_refl)) as [Hin He].
      destruct (H e1 Hin He) as [-> <-]. rewrite N.eqb_refl. reflexivity.
  - exists false. split; [reflexivity|]. split; [discriminate|]. intros H. exfalso.
    destruct (proj1 (HF e1) (or_introl eq_refl)) as [Hin1 He1].
    destruct (proj1 (HF e2) (or_intror (or_introl eq_refl))) as [Hin2 He2].
    destruct (H e1 Hin1 He1) as [_ H1]. destruct (H e2 Hin2 He2) as [_ H2].
    unfold FIProofs4.oids in HndF. cbn [map] in HndF.
    apply NoDup_cons_iff in HndF. destruct HndF as [Hn _]. apply Hn. left. congruence.
Qed.

(* ------------------------------------------------------------------ 8. constrain *)

(* the live entries of the oids of [fields], in the order of [fields] *)
Definition selected (l fields : list entry) : list entry :=
  flat_map (fun f : entry => match find_oid K l (snd f) with Some e => [e] | None => [] end) fields.

Lemma selected_cons l f rest :
  selected l (f :: rest) =
  (match find_oid K l (snd f) with Some e => [e] | None => [] end) ++ selected l rest.
Proof. reflexivity. Qed.

(* its oids: the oids of [fields] that are present in the index, in the order of [fields] *)
Lemma selected_oids l fields :
  oids (selected l fields) = filter (fun o => existsb (N.eqb o) (oids l)) (oids fields).
Proof.
  induction fields as [|f rest IH]; [reflexivity|].
  rewrite selected_cons, oids_app, IH.
  change (oids (f :: rest)) with (snd f :: oids rest). cbn [filter].
  destruct (find_oid K l (snd f)) as [e|] eqn:F.
  - destruct (find_oid_In K l (snd f) e F) as [Hin Hoid].
    assert (Hex : existsb (N.eqb (snd f)) (oids l) = true).
    { apply existsb_exists. exists (snd f). split; [|apply N.eqb_refl].
      rewrite <- Hoid. unfold FIProofs4.oids. apply in_map. exact Hin. }
    rewrite Hex. change (oids [e]) with [snd e]. cbn [app]. rewrite Hoid. reflexivity.
  - assert (Hex : existsb (N.eqb (snd f)) (oids l) = false).
    { destruct (existsb (N.eqb (snd f)) (oids l)) eqn:X; [|reflexivity]. exfalso.
      apply existsb_exists in X. destruct X as [o [Ho Heq]]. apply N.eqb_eq in Heq. subst o.
      apply (proj1 (find_oid_None K l (snd f)) F). exact Ho. }
    rewrite Hex. reflexivity.
Qed.

Lemma selected_In_l l fields e : In e (selected l fields) -> In e l /\ In (snd e) (oids fields).
Proof.
  unfold selected. intros H. apply in_flat_map in H. destruct H as [f [Hf He]].
  destruct (find_oid K l (snd f)) as [e0|] eqn:F; [|destruct He].
  destruct He as [<-|[]]. destruct (find_oid_In K l (snd f) e0 F) as [Hin Hoid].
  split; [exact Hin|]. rewrite Hoid. unfold FIProofs4.oids. apply in_map. exact Hf.
Qed.

Lemma selected_In l fields e : NoDup (oids l) ->
  (In e (selected l fields) <-> In e l /\ In (snd e) (oids fields)).
Proof.
  intros Hnd. split; [apply selected_In_l|]. intros [Hin Ho].
  unfold FIProofs4.oids in Ho. apply in_map_iff in Ho. destruct Ho as [f [Hf Hfin]].
  unfold selected. apply in_flat_map. exists f. split; [exact Hfin|].
  rewrite (proj2 (find_oid_spec K l (snd f) e Hnd) (conj Hin (eq_sym Hf))). left. reflexivity.
Qed.

Lemma selected_NoDup l fields : NoDup (oids fields) -> NoDup (oids (selected l fields)).
Proof. intros H. rewrite selected_oids. apply NoDup_filter. exact H. Qed.

(* the loop of Constrain, for an arbitrary sorted accumulator: no panic, the result is sorted,
   it is the accumulator plus the selected entries, and within each class of equivalent keys
   the selected entries come after the accumulator's, in the order of [fields] *)
Lemma constrain_acc_spec l : forall fields acc, sorted_desc acc ->
  exists r, constrain_acc K ltb l fields acc = Some r /\ sorted_desc r /\
    Permutation r (acc ++ selected l fields) /\
    (forall k, filter (fun x => eqb (fst x) k) r =
               filter (fun x => eqb (fst x) k) acc ++
               filter (fun x => eqb (fst x) k) (selected l fields)).
Proof.
  induction fields as [|f rest IH]; intros acc Hs.
  - exists acc. split; [reflexivity|]. split; [exact Hs|]. split.
    + cbn. rewrite app_nil_r. apply Permutation_refl.
    + intros k. cbn. rewrite app_nil_r. reflexivity.
  - rewrite selected_cons. cbn [constrain_acc].
    destruct (find_oid K l (snd f)) as [e|] eqn:F.
    + rewrite (insert_pure K ltb lt_negtrans acc e Hs).
      destruct (IH (ins_pure acc e) (ins_pure_sorted K ltb lt_irrefl lt_trans acc e Hs))
        as [r [R [Sr [Pr Fr]]]].
      exists r. split; [exact R|]. split; [exact Sr|]. split.
      * eapply Permutation_trans; [exact Pr|].
        eapply Permutation_trans; [apply Permutation_app_tail; apply ins_pure_perm|].
        cbn [app]. apply Permutation_middle.
      * intros k. rewrite Fr. rewrite (ins_pure_filter_eq K ltb eqb lt_negtrans eq_def acc e k Hs).
        rewrite <- app_assoc. f_equal. cbn [app filter]. destruct (eqb (fst e) k); reflexivity.
    + cbn [app]. apply IH. exact Hs.
Qed.

(* Constrain never panics, WHATEVER the index (even unsorted, even with repeated oids): the
   result is the stable descending sort of [selected l fields].
   ORDER statement: r is sorted_desc and, for every key k, the entries of r whose key is
   equivalent to k are exactly the selected ones of that class IN THE ORDER OF [fields]
   (selected_oids: the oids of [selected l fields] are those of [fields] present in l, in the
   order of [fields]).  By sorted_stable_unique below these two facts determine r. *)
Theorem constrain_total l fields :
  exists r, constrain K ltb l fields = Some r /\ sorted_desc r /\
    Permutation r (selected l fields) /\
    (forall k, filter (fun x => eqb (fst x) k) r =
               filter (fun x => eqb (fst x) k) (selected l fields)).
Proof.
  destruct (constrain_acc_spec l fields [] (sorted_nil K ltb)) as [r [R [Sr [Pr Fr]]]].
  exists r. split; [exact R|]. split; [exact Sr|]. split; [exact Pr|].
  intros k. rewrite Fr. reflexivity.
Qed.

(* a sorted list is determined by its classes of equivalent keys (as lists) *)
Lemma eqb_sym a b : eqb a b = eqb b a.
Proof. rewrite !eq_def. apply andb_comm. Qed.

Lemma sorted_stable_unique : forall r r' : list entry, sorted_desc r -> sorted_desc r' ->
  (forall k, filter (fun x => eqb (fst x) k) r = filter (fun x => eqb (fst x) k) r') -> r = r'.
Proof.
  induction r as [|x t IH]; intros r' Hs Hs' HF.
  - destruct r' as [|y t']; [reflexivity|]. specialize (HF (fst y)). cbn in HF.
    rewrite (eqb_refl K ltb eqb lt_irrefl eq_def) in HF. discriminate.
  - destruct r' as [|y t'].
    { specialize (HF (fst x)). cbn in HF. rewrite (eqb_refl K ltb eqb lt_irrefl eq_def) in HF. discriminate. }
    apply (sorted_cons K ltb) in Hs. destruct Hs as [Hx Hst].
    apply (sorted_cons K ltb) in Hs'. destruct Hs' as [Hy Hst'].
    assert (Hxy : x = y).
    { destruct (eqb (fst y) (fst x)) eqn:Eyx.
      - pose proof (HF (fst x)) as H. cbn [filter] in H.
        rewrite (eqb_refl K ltb eqb lt_irrefl eq_def), Eyx in H. congruence.
      - exfalso.
        assert (Hxin : In x t').
        { pose proof (HF (fst x)) as H. cbn [filter] in H.
          rewrite (eqb_refl K ltb eqb lt_irrefl eq_def), Eyx in H.
          assert (Hin : In x (filter (fun x0 : entry => eqb (fst x0) (fst x)) t'))
            by (unfold FieldIndex.entry in *; rewrite <- H; left; reflexivity).
          apply filter_In in Hin. apply Hin. }
        assert (Hyin : In y t).
        { pose proof (HF (fst y)) as H. cbn [filter] in H.
          rewrite (eqb_refl K ltb eqb lt_irrefl eq_def), (eqb_sym (fst x) (fst y)), Eyx in H.
          assert (Hin : In y (filter (fun x0 : entry => eqb (fst x0) (fst y)) t))
            by (unfold FieldIndex.entry in *; rewrite H; left; reflexivity).
          apply filter_In in Hin. apply Hin. }
        rewrite eq_def, (Hy x Hxin), (Hx y Hyin) in Eyx. discriminate. }
    subst y. f_equal. apply IH; [exact Hst|exact Hst'|].
    intros k. specialize (HF k). cbn [filter] in HF. destruct (eqb (fst x) k); congruence.
Qed.

Corollary constrain_unique l fields r r' :
  constrain K ltb l fields = Some r -> sorted_desc r' ->
  (forall k, filter (fun x => eqb (fst x) k) r' =
             filter (fun x => eqb (fst x) k) (selected l fields)) -> r' = r.
Proof.
  intros R Hs' HF'. destruct (constrain_total l fields) as [r0 [R0 [Sr [_ Fr]]]].
  assert (r0 = r) by congruence. subst r0.
  apply sorted_stable_unique; [exact Hs'|exact Sr|]. intros k. rewrite HF', Fr. reflexivity.
Qed.

(* the requested form.  [sorted_desc l] is not needed (see constrain_total); NoDup (oids l) is
   needed only for the <- direction of the membership statement *)
Theorem constrain_spec l fields : sorted_desc l -> NoDup (oids l) ->
  exists r, constrain K ltb l fields = Some r /\ sorted_desc r /\
    (forall e, In e r <-> In e l /\ In (snd e) (oids fields)) /\
    (NoDup (oids fields) -> NoDup (oids r)) /\
    Permutation r (selected l fields) /\
    oids (selected l fields) = filter (fun o => existsb (N.eqb o) (oids l)) (oids fields) /\
    (forall k, filter (fun x => eqb (fst x) k) r =
               filter (fun x => eqb (fst x) k) (selected l fields)).
Proof.
  intros _ Hnd. destruct (constrain_total l fields) as [r [R [Sr [Pr Fr]]]].
  exists r. split; [exact R|]. split; [exact Sr|]. split; [|split; [|split; [exact Pr|split; [apply selected_oids|exact Fr]]]].
  - intros e. rewrite <- (selected_In l fields e Hnd). split.
    + apply (Permutation_in _ Pr).
    + apply (Permutation_in _ (Permutation_sym Pr)).
  - intros Hf. apply (Permutation_NoDup (Permutation_sym (Permutation_map (@snd K N) Pr))).
    apply (selected_NoDup l fields Hf).
Qed.

(* ------------------------------------------------------------------ 9. search_rx *)

Theorem search_rx_spec (P : K -> bool) l : search_rx K P l = filter (fun e => P (fst e)) l.
Proof. reflexivity. Qed.

Corollary search_rx_sorted (P : K -> bool) l : sorted_desc l -> sorted_desc (search_rx K P l).
Proof. apply (filter_sorted K ltb). Qed.

End Proofs5.

(* ------------------------------------------------------------------ 10. instances at [key] *)
(* Each theorem takes only the order hypotheses its proof uses; no hypothesis is left. *)

Notation key_sorted := (sorted_desc key key_ltb).
Notation key_oids := (oids key).

(* FIProofs4 *)
Definition key_filter_sorted := filter_sorted key key_ltb.
Definition key_insert_spec := insert_spec key key_ltb key_lt_negtrans.
Definition key_insert_sorted := insert_sorted key key_ltb key_lt_irrefl key_lt_trans key_lt_negtrans.
Definition key_insert_perm := insert_perm key key_ltb key_lt_negtrans.
Definition key_insert_In := insert_In key key_ltb key_lt_negtrans.
Definition key_insert_oids_perm := insert_oids_perm key key_ltb key_lt_negtrans.
Definition key_insert_length := insert_length key key_ltb key_lt_negtrans.
Definition key_find_oid_spec := find_oid_spec key.
Definition key_find_oid_None := find_oid_None key.
Definition key_search_key_spec := search_key_spec key key_ltb key_eqb key_lt_irrefl key_lt_negtrans key_eq_def.
Definition key_search_key_absent := search_key_absent key key_ltb key_eqb key_lt_negtrans key_eq_def.
Definition key_delete_spec := delete_spec key key_ltb key_eqb key_lt_irrefl key_lt_negtrans key_eq_def.
Definition key_delete_absent := delete_absent key key_ltb key_eqb.
Definition key_delete_Some_iff := delete_Some_iff key key_ltb key_eqb key_lt_irrefl key_lt_negtrans key_eq_def.
Definition key_delete_sorted := delete_sorted key key_ltb key_eqb key_lt_irrefl key_lt_negtrans key_eq_def.
Definition key_delete_NoDup := delete_NoDup key key_ltb key_eqb key_lt_irrefl key_lt_negtrans key_eq_def.
Definition key_delete_In := delete_In key key_ltb key_eqb key_lt_irrefl key_lt_negtrans key_eq_def.
Definition key_delete_oids := delete_oids key key_ltb key_eqb key_lt_irrefl key_lt_negtrans key_eq_def.
Definition key_delete_length := delete_length key key_ltb key_eqb key_lt_irrefl key_lt_negtrans key_eq_def.
Definition key_update_spec := update_spec key key_ltb key_eqb key_lt_irrefl key_lt_trans key_lt_negtrans key_eq_def.
Definition key_update_absent := update_absent key key_ltb key_eqb.
Definition key_update_sorted := update_sorted key key_ltb key_eqb key_lt_irrefl key_lt_trans key_lt_negtrans key_eq_def.
Definition key_update_NoDup := update_NoDup key key_ltb key_eqb key_lt_irrefl key_lt_negtrans key_eq_def.
Definition key_update_oids := update_oids key key_ltb key_eqb key_lt_irrefl key_lt_negtrans key_eq_def.
Definition key_update_oids_perm := update_oids_perm key key_ltb key_eqb key_lt_irrefl key_lt_negtrans key_eq_def.
Definition key_update_In := update_In key key_ltb key_eqb key_lt_irrefl key_lt_negtrans key_eq_def.
Definition key_update_length := update_length key key_ltb key_eqb key_lt_irrefl key_lt_negtrans key_eq_def.
(* FIProofs5 *)
Definition key_control_iff_sorted := control_iff_sorted key key_ltb key_eqb key_lt_irrefl key_lt_trans key_lt_negtrans key_eq_def.
Definition key_control_false_iff := control_false_iff key key_ltb key_eqb key_lt_irrefl key_lt_trans key_lt_negtrans key_eq_def.
Definition key_satisfy_unique_eq := satisfy_unique_eq key key_ltb key_eqb key_lt_negtrans key_eq_def.
Definition key_satisfy_unique_spec := satisfy_unique_spec key key_ltb key_eqb key_lt_negtrans key_eq_def.
Definition key_selected_oids := selected_oids key.
Definition key_selected_In := selected_In key.
Definition key_constrain_total := constrain_total key key_ltb key_eqb key_lt_irrefl key_lt_trans key_lt_negtrans key_eq_def.
Definition key_constrain_unique := constrain_unique key key_ltb key_eqb key_lt_irrefl key_lt_trans key_lt_negtrans key_eq_def.
Definition key_constrain_spec := constrain_spec key key_ltb key_eqb key_lt_irrefl key_lt_trans key_lt_negtrans key_eq_def.
Definition key_search_rx_spec := search_rx_spec key.
Definition key_search_rx_sorted := search_rx_sorted key key_ltb.

Check key_filter_sorted. Check key_insert_spec. Check key_insert_sorted. Check key_insert_perm.
Check key_insert_In. Check key_insert_oids_perm. Check key_insert_length.
Check key_find_oid_spec. Check key_find_oid_None. Check key_search_key_spec. Check key_search_key_absent.
Check key_delete_spec. Check key_delete_absent. Check key_delete_Some_iff. Check key_delete_sorted.
Check key_delete_NoDup. Check key_delete_In. Check key_delete_oids. Check key_delete_length.
Check key_update_spec. Check key_update_absent. Check key_update_sorted. Check key_update_NoDup.
Check key_update_oids. Check key_update_oids_perm. Check key_update_In. Check key_update_length.
Check key_control_iff_sorted. Check key_control_false_iff.
Check key_satisfy_unique_eq. Check key_satisfy_unique_spec.
Check key_selected_oids. Check key_selected_In.
Check key_constrain_total. Check key_constrain_unique. Check key_constrain_spec.
Check key_search_rx_spec. Check key_search_rx_sorted.

Print Assumptions key_filter_sorted.
Print Assumptions key_insert_spec.
Print Assumptions key_insert_sorted.
Print Assumptions key_insert_perm.
Print Assumptions key_insert_In.
Print Assumptions key_insert_oids_perm.
Print Assumptions key_insert_length.
Print Assumptions key_find_oid_spec.
Print Assumptions key_find_oid_None.
Print Assumptions key_search_key_spec.
Print Assumptions key_search_key_absent.
Print Assumptions key_delete_spec.
Print Assumptions key_delete_absent.
Print Assumptions key_delete_Some_iff.
Print Assumptions key_delete_sorted.
Print Assumptions key_delete_NoDup.
Print Assumptions key_delete_In.
Print Assumptions key_delete_oids.
Print Assumptions key_delete_length.
Print Assumptions key_update_spec.
Print Assumptions key_update_absent.
Print Assumptions key_update_sorted.
Print Assumptions key_update_NoDup.
Print Assumptions key_update_oids.
Print Assumptions key_update_oids_perm.
Print Assumptions key_update_In.
Print Assumptions key_update_length.
Print Assumptions key_control_iff_sorted.
Print Assumptions key_control_false_iff.
Print Assumptions key_satisfy_unique_eq.
Print Assumptions key_satisfy_unique_spec.
Print Assumptions key_selected_oids.
Print Assumptions key_selected_In.
Print Assumptions key_constrain_total.
Print Assumptions key_constrain_unique.
Print Assumptions key_constrain_spec.
Print Assumptions key_search_rx_spec.
Print Assumptions key_search_rx_sorted.

(* ------------------------------------------------------------------ examples at [key] *)

(* keys 7 5 5 3 (descending), oids 10 11 12 13 *)
Definition kex : list (key * N) :=
  [(KInt 7, 10%N); (KInt 5, 11%N); (KInt 5, 12%N); (KInt 3, 13%N)].

Example kex_control : control key key_ltb key_eqb kex = true.
Proof. vm_compute. reflexivity. Qed.
Example kex_sorted : key_sorted kex.
Proof. apply key_control_iff_sorted. exact kex_control. Qed.
Example kex_nodup : NoDup (key_oids kex).
Proof. unfold kex. ex_nodup. Qed.

Example kex_control_unsorted :
  control key key_ltb key_eqb [(KInt 3, 1%N); (KInt 5, 2%N)] = false /\
  ~ key_sorted [(KInt 3, 1%N); (KInt 5, 2%N)].
Proof. split; [vm_compute; reflexivity|]. apply key_control_false_iff. vm_compute. reflexivity. Qed.

(* strings: "b" > "ab" > "a" > "" *)
Example kex_control_str :
  control key key_ltb key_eqb
    [(KStr [98%N], 1%N); (KStr [97%N; 98%N], 2%N); (KStr [97%N], 3%N); (KStr [], 4%N)] = true.
Proof. vm_compute. reflexivity. Qed.

Example kex_insert :
  insert key key_ltb kex (KInt 5, 20%N) =
    Some (filter (fun x => negb (key_ltb (fst x) (KInt 5))) kex ++
          (KInt 5, 20%N) :: filter (fun x => key_ltb (fst x) (KInt 5)) kex) /\
  insert key key_ltb kex (KInt 5, 20%N) =
    Some [(KInt 7, 10%N); (KInt 5, 11%N); (KInt 5, 12%N); (KInt 5, 20%N); (KInt 3, 13%N)].
Proof.
  split; [exact (key_insert_spec kex (KInt 5, 20%N) kex_sorted)|vm_compute; reflexivity].
Qed.

Example kex_find_oid :
  find_oid key kex 12%N = Some (KInt 5, 12%N) /\ find_oid key kex 99%N = None.
Proof. split; vm_compute; reflexivity. Qed.

Example kex_delete :
  delete key key_ltb key_eqb kex 12%N =
    Some (filter (fun x => negb (N.eqb (snd x) 12%N)) kex) /\
  delete key key_ltb key_eqb kex 12%N = Some [(KInt 7, 10%N); (KInt 5, 11%N); (KInt 3, 13%N)] /\
  delete key key_ltb key_eqb kex 99%N = None.
Proof.
  split; [|split; vm_compute; reflexivity].
  apply (key_delete_spec kex (KInt 5, 12%N) kex_sorted kex_nodup). cbn. tauto.
Qed.

Example kex_update :
  update key key_ltb key_eqb kex (KInt 9, 12%N) =
    insert key key_ltb (filter (fun x => negb (N.eqb (snd x) 12%N)) kex) (KInt 9, 12%N) /\
  update key key_ltb key_eqb kex (KInt 9, 12%N) =
    Some [(KInt 9, 12%N); (KInt 7, 10%N); (KInt 5, 11%N); (KInt 3, 13%N)] /\
  update key key_ltb key_eqb kex (KInt 9, 99%N) = None.
Proof. repeat split; vm_compute; reflexivity. Qed.

Example kex_update_by_thm : exists r,
  update key key_ltb key_eqb kex (KInt 9, 12%N) = Some r /\ key_sorted r /\ NoDup (key_oids r).
Proof.
  destruct (key_update_spec kex (KInt 9, 12%N) kex_sorted kex_nodup) as [r [U [_ [_ [S [Nd _]]]]]].
  - cbn. tauto.
  - exists r. split; [exact U|]. split; [exact S|exact Nd].
Qed.

(* unique constraint on key 3 held by oid 13: fine for object 13 itself when it already
   exists, violated for a new object and for any other object; key 4 is free; key 5 is held
   twice (an index that already violates uniqueness) so nobody satisfies it *)
Example kex_satisfy_unique :
  satisfy_unique key key_ltb key_eqb kex 13%N true (KInt 3) = Some true /\
  satisfy_unique key key_ltb key_eqb kex 13%N false (KInt 3) = Some false /\
  satisfy_unique key key_ltb key_eqb kex 10%N true (KInt 3) = Some false /\
  satisfy_unique key key_ltb key_eqb kex 10%N false (KInt 4) = Some true /\
  satisfy_unique key key_ltb key_eqb kex 11%N true (KInt 5) = Some false.
Proof. repeat split; vm_compute; reflexivity. Qed.

Example kex_satisfy_unique_by_thm : exists b,
  satisfy_unique key key_ltb key_eqb kex 13%N true (KInt 3) = Some b /\
  (b = true <-> forall e, In e kex -> key_eqb (fst e) (KInt 3) = true -> true = true /\ snd e = 13%N).
Proof. exact (key_satisfy_unique_spec kex 13%N true (KInt 3) kex_sorted kex_nodup). Qed.

(* Constrain: oids 12, 99 (absent), 11, 10 in that order; the two entries of key 5 come out in
   the order of [fields] (12 before 11), not in the order of the index (11 before 12) *)
Definition kfields : list (key * N) :=
  [(KInt 0, 12%N); (KInt 0, 99%N); (KInt 0, 11%N); (KInt 0, 10%N)].

Example kex_constrain :
  selected key kex kfields = [(KInt 5, 12%N); (KInt 5, 11%N); (KInt 7, 10%N)] /\
  constrain key key_ltb kex kfields = Some [(KInt 7, 10%N); (KInt 5, 12%N); (KInt 5, 11%N)] /\
  filter (fun x => key_eqb (fst x) (KInt 5)) [(KInt 7, 10%N); (KInt 5, 12%N); (KInt 5, 11%N)] =
  filter (fun x => key_eqb (fst x) (KInt 5)) (selected key kex kfields).
Proof. repeat split; vm_compute; reflexivity. Qed.

Example kex_constrain_by_thm : exists r,
  constrain key key_ltb kex kfields = Some r /\ key_sorted r /\
  (forall e, In e r <-> In e kex /\ In (snd e) (key_oids kfields)).
Proof.
  destruct (key_constrain_spec kex kfields kex_sorted kex_nodup) as [r [R [S [I _]]]].
  exists r. split; [exact R|]. split; [exact S|exact I].
Qed.

Example kex_search_rx :
  search_rx key (fun k => match k with KInt z => Z.odd z | _ => false end) kex =
  filter (fun e => match fst e with KInt z => Z.odd z | _ => false end) kex /\
  search_rx key (fun k => match k with KInt z => Z.even (z / 2) | _ => false end) kex =
  [(KInt 5, 11%N); (KInt 5, 12%N)].
Proof. split; vm_compute; reflexivity. Qed.
