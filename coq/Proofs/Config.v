(* Proofs/Config.v: C12, "observable behaviour does not depend on the storage configuration":
   corollaries of the refinement theorem of Refine4.  The specification machine never looks at the
   settings passed to Create (cache, asynchronous writes, compression, extension) nor at flusher
   ticks, so two histories that differ only there have the same outputs, call by call. *)
From Coq Require Import List ZArith NArith Bool Lia Arith.
Import ListNotations.
From Sod.Model Require Import Base FieldIndex ObjIndex DB.
From Sod.Proofs Require Import DBBasic Refine1 Refine2 Refine3 Refine4 Refine5.

(* the same call, up to the storage settings given to Create *)
Inductive op_sim : op -> op -> Prop :=
| sim_create st1 st2 fds : op_sim (OCreate st1 fds) (OCreate st2 fds)
| sim_same o : op_sim o o.

(* the same history, up to settings and up to the moments at which the flusher wakes up *)
Inductive hist_sim : list op -> list op -> Prop :=
| hs_nil : hist_sim [] []
| hs_cons o1 o2 r1 r2 : op_sim o1 o2 -> hist_sim r1 r2 -> hist_sim (o1 :: r1) (o2 :: r2)
| hs_tick_l r1 r2 : hist_sim r1 r2 -> hist_sim (OTick :: r1) r2
| hs_tick_r r1 r2 : hist_sim r1 r2 -> hist_sim r1 (OTick :: r2).

Definition is_tick (o : op) : bool := match o with OTick => true | _ => false end.

(* what the caller observes: the results of its own calls (a tick is not a call) *)
Fixpoint observe (ops : list op) (outs : list out) : list out :=
  match ops, outs with
  | o :: r, x :: xs => if is_tick o then observe r xs else x :: observe r xs
  | _, _ => []
  end.

Lemma spec_step_sim hk a o1 o2 : op_sim o1 o2 -> spec_step hk a o1 = spec_step hk a o2.
Proof. intros H. destruct H; [|reflexivity]. destruct a as [sp|]; reflexivity. Qed.

Lemma spec_run_cons hk a o r :
  spec_run hk a (o :: r) =
  (fst (spec_run hk (fst (spec_step hk a o)) r), snd (spec_step hk a o) :: snd (spec_run hk (fst (spec_step hk a o)) r)).
Proof.
  cbn [spec_run]. destruct (spec_step hk a o) as [a1 x]. cbn [fst snd].
  destruct (spec_run hk a1 r) as [a2 xs]. reflexivity.
Qed.

(* the specification machine: same final map, same observations *)
Lemma spec_run_sim hk ops1 ops2 : hist_sim ops1 ops2 -> forall a,
  fst (spec_run hk a ops1) = fst (spec_run hk a ops2) /\
  observe ops1 (snd (spec_run hk a ops1)) = observe ops2 (snd (spec_run hk a ops2)).
Proof.
  induction 1 as [|o1 o2 r1 r2 Ho Hr IH|r1 r2 Hr IH|r1 r2 Hr IH]; intros a.
  - split; reflexivity.
  - rewrite !spec_run_cons. cbn [fst snd observe]. rewrite (spec_step_sim hk a o1 o2 Ho).
    destruct (IH (fst (spec_step hk a o2))) as [A B]. split; [exact A|].
    assert (T : is_tick o1 = is_tick o2) by (destruct Ho; reflexivity). rewrite T.
    destruct (is_tick o2); [exact B|]. rewrite B. reflexivity.
  - rewrite spec_run_cons. rewrite spec_tick. cbn [fst snd observe is_tick]. apply IH.
  - rewrite spec_run_cons. rewrite spec_tick. cbn [fst snd observe is_tick]. apply IH.
Qed.

(* THE THEOREM: two well-formed histories that differ only by the storage settings given to Create
   (cache on/off, asynchronous writes on/off with any threshold and timeout, compression, file
   extension) and by the moments at which the flusher runs yield the same result for every call,
   one by one, and the same final collection.  Every read path is covered: Get, Exist (also for
   an object whose write is pending), Count, All; and every outcome of InsertOrUpdate / Delete. *)
Theorem config_independent hk ls ops1 ops2 :
  hist_sim ops1 ops2 ->
  wf_hist hk ls init_state ops1 -> wf_hist hk ls init_state ops2 ->
  observe ops1 (run_out hk ls init_state ops1) = observe ops2 (run_out hk ls init_state ops2) /\
  abs (run hk ls init_state ops1) = abs (run hk ls init_state ops2).
Proof.
  intros Hs W1 W2.
  destruct (C01_from_init hk ls ops1 W1) as [_ [A1 R1]].
  destruct (C01_from_init hk ls ops2 W2) as [_ [A2 R2]].
  destruct (spec_run_sim hk ops1 ops2 Hs None) as [A B].
  rewrite R1, R2, A1, A2. split; [exact B|exact A].
Qed.
Print Assumptions config_independent.

(* from any two states with the same abstraction (e.g. the same collection opened by two handles
   with different settings, one of them holding everything in its pending store) *)
Theorem config_independent_from hk ls s1 s2 ops1 ops2 :
  Inv ls s1 -> Inv ls s2 -> abs s1 = abs s2 ->
  hist_sim ops1 ops2 ->
  wf_hist hk ls s1 ops1 -> wf_hist hk ls s2 ops2 ->
  observe ops1 (run_out hk ls s1 ops1) = observe ops2 (run_out hk ls s2 ops2) /\
  abs (run hk ls s1 ops1) = abs (run hk ls s2 ops2).
Proof.
  intros I1 I2 Ha Hs W1 W2.
  destruct (C01_history hk ls ops1 s1 I1 W1) as [_ [A1 R1]].
  destruct (C01_history hk ls ops2 s2 I2 W2) as [_ [A2 R2]].
  destruct (spec_run_sim hk ops1 ops2 Hs (abs s2)) as [A B].
  rewrite R1, R2, A1, A2, Ha. split; [exact B|exact A].
Qed.
Print Assumptions config_independent_from.

(* the error outcome of a call never depends on the configuration either: it is the
   specification's *)
Corollary outcome_is_the_specs hk ls s o : Inv ls s -> wf_op hk s o ->
  snd (step hk ls s o) = snd (spec_step hk (abs s) o).
Proof. intros I W. apply (C01_refines hk ls s o I W). Qed.

(* non-vacuity: the history of Refine5 under two configurations (synchronous, no cache / asynchronous
   writes with cache and compression) with a tick inserted on one side *)
Example config_pair_example :
  let a := ex_ops st_sync in
  let b := OCreate st_async_cache ex_fds :: OTick :: tl (ex_ops st_async_cache) in
  hist_sim a b /\ wf_hist hk0 7%N init_state a /\ wf_hist hk0 7%N init_state b /\
  observe a (run_out hk0 7%N init_state a) = observe b (run_out hk0 7%N init_state b).
Proof.
  cbv zeta. split; [|split; [|split]].
  - unfold ex_ops. cbn [tl]. apply hs_cons; [apply sim_create|]. apply hs_tick_r.
    repeat (apply hs_cons; [apply sim_same|]). apply hs_nil.
  - apply ex_sync.
  - cbn [ex_ops tl wf_hist]. repeat split; vm_compute;
      first [exact Logic.I | reflexivity | (let sp := fresh "sp" in let H := fresh "H" in intros sp H; inversion H; subst; reflexivity)].
  - vm_compute. reflexivity.
Qed.
