(* Proofs/C10Final.v: the asynchronous-write clauses of C10 over whole histories, from the initial state. *)
From Coq Require Import List ZArith NArith Bool Lia.
Import ListNotations.
From Sod.Model Require Import Base FieldIndex ObjIndex DB.
From Sod.Proofs Require Import Refine1 Refine2 Refine3 Refine4 Refine5 Batch Extended Reads Flusher NewOps.

(* AFTER ANY HISTORY of covered calls (writes of every kind, reads, searches, settings switches, flusher
   ticks, single-object flushes ...) on a handle that was not closed, asynchronous writes enabled with
   timeout tmo: if a write is pending, then tmo + 1 ticks later - no further call - nothing is pending,
   every accepted object is in its file, the schema is committed, and the collection is unchanged *)
Theorem pending_writes_reach_disk hk ls ops thr tmo :
  wf_hist4 hk ls init_state ops ->
  let s := run hk ls init_state ops in
  asy (s_h s) thr tmo -> h_pend (s_h s) <> [] ->
  let s' := ticks hk ls (S (Z.to_nat tmo)) s in
  synced_st s' /\ Inv ls s' /\ abs s' = abs s.
Proof.
  intros W s A Hp. cbv zeta.
  destruct (C01_history_all hk ls ops init_state (Inv_init ls) W) as [I _].
  assert (J : JP (s_h (run hk ls init_state ops))).
  { apply flusher_alive. apply Forall_forall. intros o _. apply fl_op_all. }
  apply (pending_flushed_within_timeout hk ls _ thr tmo I J (NN_always hk ls ops) A Hp).
Qed.
Print Assumptions pending_writes_reach_disk.
