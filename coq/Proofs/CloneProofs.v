(* Proofs/CloneProofs.v: C14, "stored values are isolated from caller memory".
   Theorems about the recursive clone of Model/Clone.v: the clone has the same content (erase),
   every identity of the clone reachable through exported fields comes from the fresh supply
   (hence is shared neither with the original, nor with another clone, nor inside the clone),
   the only identities a clone can share with its original lie below an unexported field (the
   documented exception, shown to really happen), and the consequence for mutation: whatever is
   done to a cell of the caller's object (other than those below unexported fields) leaves the
   stored clone unchanged, and symmetrically for a value returned by a read. *)
From Coq Require Import List ZArith NArith Bool Lia Arith.
Import ListNotations.
From Sod.Model Require Import Clone.
Close Scope Z_scope.

(* ================================================================ induction principle for gv *)

Section GvInd.
  Variable P : gv -> Prop.
  Hypothesis HScalar : forall z, P (GScalar z).
  Hypothesis HPtrNil : P (GPtr None).
  Hypothesis HPtr : forall l x, P x -> P (GPtr (Some (l, x))).
  Hypothesis HSliceNil : P (GSlice None).
  Hypothesis HSlice : forall l es, Forall P es -> P (GSlice (Some (l, es))).
  Hypothesis HMapNil : P (GMap None).
  Hypothesis HMap : forall l bs, Forall (fun p => P (snd p)) bs -> P (GMap (Some (l, bs))).
  Hypothesis HStruct : forall fs, Forall (fun p => P (snd p)) fs -> P (GStruct fs).
  Hypothesis HArr : forall es, Forall P es -> P (GArr es).
  Hypothesis HIfaceNil : P (GIface None).
  Hypothesis HIface : forall x, P x -> P (GIface (Some x)).

  Fixpoint gv_ind' (v : gv) : P v :=
    let fix go_list (es : list gv) : Forall P es :=
        match es with
        | [] => Forall_nil _
        | x :: r => Forall_cons x (gv_ind' x) (go_list r)
        end in
    let fix go_binds (bs : list (Z * gv)) : Forall (fun p => P (snd p)) bs :=
        match bs with
        | [] => Forall_nil _
        | p :: r => Forall_cons (P := fun p => P (snd p)) p
                      (match p as p0 return P (snd p0) with (_, x) => gv_ind' x end) (go_binds r)
        end in
    let fix go_fields (fs : list (bool * gv)) : Forall (fun p => P (snd p)) fs :=
        match fs with
        | [] => Forall_nil _
        | p :: r => Forall_cons (P := fun p => P (snd p)) p
                      (match p as p0 return P (snd p0) with (_, x) => gv_ind' x end) (go_fields r)
        end in
    match v as v0 return P v0 with
    | GScalar z => HScalar z
    | GPtr p => match p as p0 return P (GPtr p0) with
                | None => HPtrNil
                | Some lx => match lx as lx0 return P (GPtr (Some lx0)) with
                             | (l, x) => HPtr l x (gv_ind' x) end
                end
    | GSlice s => match s as s0 return P (GSlice s0) with
                  | None => HSliceNil
                  | Some les => match les as les0 return P (GSlice (Some les0)) with
                                | (l, es) => HSlice l es (go_list es) end
                  end
    | GMap m => match m as m0 return P (GMap m0) with
                | None => HMapNil
                | Some lbs => match lbs as lbs0 return P (GMap (Some lbs0)) with
                              | (l, bs) => HMap l bs (go_binds bs) end
                end
    | GStruct fs => HStruct fs (go_fields fs)
    | GArr es => HArr es (go_list es)
    | GIface o => match o as o0 return P (GIface o0) with
                  | None => HIfaceNil
                  | Some x => HIface x (gv_ind' x)
                  end
    end.
End GvInd.

(* the size-based strong induction, as a corollary (no nested recursion needed) *)
Lemma gv_size_ind (P : gv -> Prop) :
  (forall v, (forall w, size w < size v -> P w) -> P v) -> forall n v, size v <= n -> P v.
Proof.
  intros H n. induction n as [|n IH]; intros v Hs; apply H; intros w Hw.
  - lia.
  - apply IH. lia.
Qed.

Lemma size_pos v : 1 <= size v.
Proof. destruct v as [z|[[l x]|]|[[l es]|]|[[l bs]|]|fs|es|[x|]]; simpl; lia. Qed.

(* ================================================================ the local fixpoints of clone, named *)

Definition clone_list (f : nat) : list gv -> loc -> list gv * loc :=
  fix clone_list (l : list gv) (n : loc) : list gv * loc :=
    match l with
    | [] => ([], n)
    | x :: r => let (x', n1) := clone f x n in let (r', n2) := clone_list r n1 in (x' :: r', n2)
    end.

Definition clone_binds (f : nat) : list (Z * gv) -> loc -> list (Z * gv) * loc :=
  fix clone_binds (l : list (Z * gv)) (n : loc) : list (Z * gv) * loc :=
    match l with
    | [] => ([], n)
    | (k, x) :: r => let (x', n1) := clone f x n in let (r', n2) := clone_binds r n1 in ((k, x') :: r', n2)
    end.

Definition clone_fields (f : nat) : list (bool * gv) -> loc -> list (bool * gv) * loc :=
  fix clone_fields (l : list (bool * gv)) (n : loc) : list (bool * gv) * loc :=
    match l with
    | [] => ([], n)
    | (true, x) :: r => let (x', n1) := clone f x n in let (r', n2) := clone_fields r n1 in ((true, x') :: r', n2)
    | (false, x) :: r => let (r', n2) := clone_fields r n in ((false, x) :: r', n2)
    end.

Lemma clone_S f v next :
  clone (S f) v next =
  match v with
  | GScalar n => (GScalar n, next)
  | GPtr None => (GPtr None, next)
  | GPtr (Some (_, x)) => let (x', n1) := clone f x (N.succ next) in (GPtr (Some (next, x')), n1)
  | GSlice None => (GSlice None, next)
  | GSlice (Some (_, es)) => let (es', n1) := clone_list f es (N.succ next) in (GSlice (Some (next, es')), n1)
  | GMap None => (GMap None, next)
  | GMap (Some (_, bs)) => let (bs', n1) := clone_binds f bs (N.succ next) in (GMap (Some (next, bs')), n1)
  | GStruct fs => let (fs', n1) := clone_fields f fs next in (GStruct fs', n1)
  | GArr es => let (es', n1) := clone_list f es next in (GArr es', n1)
  | GIface None => (GIface None, next)
  | GIface (Some x) => let (x', n1) := clone f x next in (GIface (Some x'), n1)
  end.
Proof. reflexivity. Qed.

Lemma clone_list_cons f x r n :
  clone_list f (x :: r) n =
  let (x', n1) := clone f x n in let (r', n2) := clone_list f r n1 in (x' :: r', n2).
Proof. reflexivity. Qed.

Lemma clone_binds_cons f k x r n :
  clone_binds f ((k, x) :: r) n =
  let (x', n1) := clone f x n in let (r', n2) := clone_binds f r n1 in ((k, x') :: r', n2).
Proof. reflexivity. Qed.

Lemma clone_fields_cons_exp f x r n :
  clone_fields f ((true, x) :: r) n =
  let (x', n1) := clone f x n in let (r', n2) := clone_fields f r n1 in ((true, x') :: r', n2).
Proof. reflexivity. Qed.

Lemma clone_fields_cons_unexp f x r n :
  clone_fields f ((false, x) :: r) n =
  let (r', n2) := clone_fields f r n in ((false, x) :: r', n2).
Proof. reflexivity. Qed.

(* ================================================================ identities below unexported fields *)

(* the identities of v that lie under some unexported struct field *)
Fixpoint unexp_locs (v : gv) : list loc :=
  match v with
  | GScalar _ => []
  | GPtr None | GSlice None | GMap None | GIface None => []
  | GPtr (Some (_, x)) => unexp_locs x
  | GSlice (Some (_, es)) => flat_map unexp_locs es
  | GMap (Some (_, bs)) => flat_map (fun p : Z * gv => unexp_locs (snd p)) bs
  | GStruct fs => flat_map (fun p : bool * gv => if fst p then unexp_locs (snd p) else locs false (snd p)) fs
  | GArr es => flat_map unexp_locs es
  | GIface (Some x) => unexp_locs x
  end.

Lemma flat_map_incl {A} (f g : A -> list loc) (l : list A) :
  Forall (fun x => incl (f x) (g x)) l -> incl (flat_map f l) (flat_map g l).
Proof.
  intros H y Hy. apply in_flat_map in Hy. destruct Hy as [x [Hx Hy]].
  apply in_flat_map. exists x. split; [exact Hx|].
  rewrite Forall_forall in H. apply (H x Hx). exact Hy.
Qed.

Lemma unexp_locs_incl v : incl (unexp_locs v) (locs false v).
Proof.
  induction v using gv_ind'; simpl; try (intros y Hy; exact (False_ind _ Hy)).
  - apply incl_tl. exact IHv.
  - apply incl_tl. apply flat_map_incl. exact H.
  - apply incl_tl. apply flat_map_incl. exact H.
  - apply flat_map_incl. eapply Forall_impl; [|exact H].
    intros [[|] x] Hx; simpl in *; [exact Hx | apply incl_refl].
  - apply flat_map_incl. exact H.
  - exact IHv.
Qed.

Lemma locs_exported_incl v : incl (locs true v) (locs false v).
Proof.
  induction v using gv_ind'; simpl; try (intros y Hy; exact (False_ind _ Hy)).
  - apply incl_cons; [left; reflexivity | apply incl_tl; exact IHv].
  - apply incl_cons; [left; reflexivity | apply incl_tl; apply flat_map_incl; exact H].
  - apply incl_cons; [left; reflexivity | apply incl_tl; apply flat_map_incl; exact H].
  - apply flat_map_incl. eapply Forall_impl; [|exact H].
    intros [[|] x] Hx; simpl in *; [exact Hx | intros y []].
  - apply flat_map_incl. exact H.
  - exact IHv.
Qed.

Lemma le_max_loc v l : In l (locs false v) -> (l <= max_loc v)%N.
Proof.
  unfold max_loc. induction (locs false v) as [|a r IH]; simpl; intros H; [contradiction|].
  destruct H as [->|H]; [apply N.le_max_l|].
  etransitivity; [apply IH; exact H | apply N.le_max_r].
Qed.

(* ================================================================ the invariant of one clone call *)

(* n, n' : supply before / after; lt, lf : exported-reachable / all identities of the result;
   U : identities of the argument below unexported fields *)
Definition goodlocs (n n' : loc) (lt lf U : list loc) : Prop :=
  (n <= n')%N /\
  (forall l, In l lt -> (n <= l < n')%N) /\
  NoDup lt /\
  (forall l, In l lf -> (n <= l < n')%N \/ In l U).

Lemma NoDup_app_disj {A} (a b : list A) :
  NoDup a -> NoDup b -> (forall x, In x a -> ~ In x b) -> NoDup (a ++ b).
Proof.
  induction a as [|x a IH]; simpl; intros Ha Hb Hd; [exact Hb|].
  inversion Ha; subst. constructor.
  - rewrite in_app_iff. intros [H|H]; [contradiction | exact (Hd x (or_introl eq_refl) H)].
  - apply IH; auto.
Qed.

Lemma goodlocs_nil n : goodlocs n n [] [] [].
Proof.
  repeat split; try lia; try contradiction. constructor.
Qed.

Lemma goodlocs_unexp n lf : goodlocs n n [] lf lf.
Proof.
  repeat split; try lia; try contradiction; [constructor | intros; right; assumption].
Qed.

Lemma goodlocs_cons n n' lt lf U :
  goodlocs (N.succ n) n' lt lf U -> goodlocs n n' (n :: lt) (n :: lf) U.
Proof.
  intros (H1 & H2 & H3 & H4). split; [lia|]. split; [|split].
  - intros l [<-|H]; [lia | apply H2 in H; lia].
  - constructor; [|exact H3]. intros H. apply H2 in H. lia.
  - intros l [<-|H]; [left; lia|]. destruct (H4 l H) as [H'|H']; [left; lia | right; exact H'].
Qed.

Lemma goodlocs_app n n1 n2 lt1 lf1 U1 lt2 lf2 U2 :
  goodlocs n n1 lt1 lf1 U1 -> goodlocs n1 n2 lt2 lf2 U2 ->
  goodlocs n n2 (lt1 ++ lt2) (lf1 ++ lf2) (U1 ++ U2).
Proof.
  intros (A1 & A2 & A3 & A4) (B1 & B2 & B3 & B4). split; [lia|]. split; [|split].
  - intros l H. apply in_app_iff in H. destruct H as [H|H]; [apply A2 in H | apply B2 in H]; lia.
  - apply NoDup_app_disj; auto. intros x Hx Hx'. apply A2 in Hx. apply B2 in Hx'. lia.
  - intros l H. rewrite in_app_iff. apply in_app_iff in H. destruct H as [H|H].
    + destruct (A4 l H) as [H'|H']; [left; lia | right; left; exact H'].
    + destruct (B4 l H) as [H'|H']; [left; lia | right; right; exact H'].
Qed.

Definition good (v c : gv) (n n' : loc) : Prop :=
  erase c = erase v /\ goodlocs n n' (locs true c) (locs false c) (unexp_locs v).

Definition good_at (f : nat) : Prop :=
  forall v n, size v <= f -> good v (fst (clone f v n)) n (snd (clone f v n)).

Lemma clone_list_good f (IH : good_at f) : forall es n,
  fold_right (fun x n => size x + n) 0 es <= f ->
  good (GArr es) (GArr (fst (clone_list f es n))) n (snd (clone_list f es n)).
Proof.
  induction es as [|x es IHes]; intros n Hs.
  - split; [reflexivity | apply goodlocs_nil].
  - simpl in Hs. rewrite clone_list_cons.
    destruct (IH x n ltac:(lia)) as [Hx1 Hx2].
    destruct (clone f x n) as [x' n1].
    destruct (IHes n1 ltac:(lia)) as [Hr1 Hr2].
    destruct (clone_list f es n1) as [r' n2]. simpl in *. split.
    + inversion Hr1 as [Hr1']. simpl. rewrite Hx1, Hr1'. reflexivity.
    + apply (goodlocs_app n n1 n2); assumption.
Qed.

Lemma clone_binds_good f (IH : good_at f) : forall bs n,
  fold_right (fun p n => size (snd p) + n) 0 bs <= f ->
  map (fun p => (fst p, erase (snd p))) (fst (clone_binds f bs n))
  = map (fun p => (fst p, erase (snd p))) bs /\
  goodlocs n (snd (clone_binds f bs n))
           (flat_map (fun p => locs true (snd p)) (fst (clone_binds f bs n)))
           (flat_map (fun p => locs false (snd p)) (fst (clone_binds f bs n)))
           (flat_map (fun p => unexp_locs (snd p)) bs).
Proof.
  induction bs as [|[k x] bs IHbs]; intros n Hs.
  - split; [reflexivity | apply goodlocs_nil].
  - simpl in Hs. rewrite clone_binds_cons.
    destruct (IH x n ltac:(lia)) as [Hx1 Hx2].
    destruct (clone f x n) as [x' n1].
    destruct (IHbs n1 ltac:(lia)) as [Hr1 Hr2].
    destruct (clone_binds f bs n1) as [r' n2]. simpl in *. split.
    + simpl. rewrite Hr1, Hx1. reflexivity.
    + apply (goodlocs_app n n1 n2); assumption.
Qed.

Lemma clone_fields_good f (IH : good_at f) : forall fs n,
  fold_right (fun p n => size (snd p) + n) 0 fs <= f ->
  good (GStruct fs) (GStruct (fst (clone_fields f fs n))) n (snd (clone_fields f fs n)).
Proof.
  induction fs as [|[[|] x] fs IHfs]; intros n Hs.
  - split; [reflexivity | apply goodlocs_nil].
  - simpl in Hs. rewrite clone_fields_cons_exp.
    destruct (IH x n ltac:(lia)) as [Hx1 Hx2].
    destruct (clone f x n) as [x' n1].
    destruct (IHfs n1 ltac:(lia)) as [Hr1 Hr2].
    destruct (clone_fields f fs n1) as [r' n2]. simpl in *. split.
    + inversion Hr1 as [Hr1']. simpl. rewrite Hx1, Hr1'. reflexivity.
    + apply (goodlocs_app n n1 n2); assumption.
  - simpl in Hs. rewrite clone_fields_cons_unexp.
    destruct (IHfs n ltac:(lia)) as [Hr1 Hr2].
    destruct (clone_fields f fs n) as [r' n2]. simpl in *. split.
    + inversion Hr1 as [Hr1']. simpl. rewrite Hr1'. reflexivity.
    + apply (goodlocs_app n n n2 [] (locs false x) (locs false x)); [apply goodlocs_unexp | assumption].
Qed.

Lemma clone_good : forall f, good_at f.
Proof.
  induction f as [|f IH]; intros v n Hs.
  - pose proof (size_pos v). lia.
  - rewrite clone_S.
    destruct v as [z|[[l x]|]|[[l es]|]|[[l bs]|]|fs|es|[x|]]; simpl in Hs;
      try (split; [reflexivity | apply goodlocs_nil]).
    + destruct (IH x (N.succ n) ltac:(lia)) as [H1 H2].
      destruct (clone f x (N.succ n)) as [x' n1]. simpl in *. split.
      * simpl. rewrite H1. reflexivity.
      * apply goodlocs_cons. exact H2.
    + destruct (clone_list_good f IH es (N.succ n) ltac:(lia)) as [H1 H2].
      destruct (clone_list f es (N.succ n)) as [es' n1]. simpl in *. split.
      * inversion H1 as [H1']. simpl. rewrite H1'. reflexivity.
      * apply goodlocs_cons. exact H2.
    + destruct (clone_binds_good f IH bs (N.succ n) ltac:(lia)) as [H1 H2].
      destruct (clone_binds f bs (N.succ n)) as [bs' n1]. simpl in *. split.
      * simpl. rewrite H1. reflexivity.
      * apply goodlocs_cons. exact H2.
    + pose proof (clone_fields_good f IH fs n ltac:(lia)) as H.
      destruct (clone_fields f fs n) as [fs' n1]. exact H.
    + pose proof (clone_list_good f IH es n ltac:(lia)) as H.
      destruct (clone_list f es n) as [es' n1]. exact H.
    + destruct (IH x n ltac:(lia)) as [H1 H2].
      destruct (clone f x n) as [x' n1]. simpl in *. split.
      * simpl. rewrite H1. reflexivity.
      * exact H2.
Qed.

(* ================================================================ 1. the clone has the same content *)

Theorem clone_erase : forall fuel v n, size v <= fuel -> erase (fst (clone fuel v n)) = erase v.
Proof. intros fuel v n Hs. exact (proj1 (clone_good fuel v n Hs)). Qed.

Corollary clone_value_erase : forall v n, erase (clone_value v n) = erase v.
Proof. intros v n. apply clone_erase. apply le_n. Qed.

(* ================================================================ 2. the identities of the clone are fresh *)

Theorem clone_supply : forall fuel v n, size v <= fuel -> (n <= snd (clone fuel v n))%N.
Proof. intros fuel v n Hs. exact (proj1 (proj2 (clone_good fuel v n Hs))). Qed.

Theorem clone_fresh : forall fuel v n, size v <= fuel ->
  forall l, In l (locs true (fst (clone fuel v n))) -> (n <= l < snd (clone fuel v n))%N.
Proof. intros fuel v n Hs. exact (proj1 (proj2 (proj2 (clone_good fuel v n Hs)))). Qed.

Theorem clone_nodup : forall fuel v n, size v <= fuel -> NoDup (locs true (fst (clone fuel v n))).
Proof. intros fuel v n Hs. exact (proj1 (proj2 (proj2 (proj2 (clone_good fuel v n Hs))))). Qed.

(* ================================================================ 4. what can be shared: only below unexported fields *)

(* (stated before 3 and 5, which use it) every identity of the clone, through exported AND
   unexported fields, is a fresh one or an identity of the original below an unexported field *)
Theorem clone_all_locs : forall fuel v n, size v <= fuel ->
  forall l, In l (locs false (fst (clone fuel v n))) ->
  (n <= l < snd (clone fuel v n))%N \/ In l (unexp_locs v).
Proof. intros fuel v n Hs. exact (proj2 (proj2 (proj2 (proj2 (clone_good fuel v n Hs))))). Qed.

Theorem clone_shared_only_unexported : forall fuel v n, size v <= fuel ->
  forall l, In l (locs false (fst (clone fuel v n))) -> (n <= l)%N \/ In l (unexp_locs v).
Proof.
  intros fuel v n Hs l H. destruct (clone_all_locs fuel v n Hs l H) as [H'|H']; [left; lia | right; exact H'].
Qed.

(* with a fresh supply: an identity common to the original and its clone is below an unexported field *)
Corollary clone_shared_is_unexported : forall fuel v n, (max_loc v < n)%N -> size v <= fuel ->
  forall l, In l (locs false v) -> In l (locs false (fst (clone fuel v n))) -> In l (unexp_locs v).
Proof.
  intros fuel v n Hm Hs l Hv Hc.
  destruct (clone_shared_only_unexported fuel v n Hs l Hc) as [H|H]; [|exact H].
  apply le_max_loc in Hv. lia.
Qed.

(* no unexported field anywhere: the clone shares nothing at all with the original *)
Corollary clone_disjoint_all : forall fuel v n, (max_loc v < n)%N -> size v <= fuel -> unexp_locs v = [] ->
  forall l, In l (locs false (fst (clone fuel v n))) -> ~ In l (locs false v).
Proof.
  intros fuel v n Hm Hs Hu l Hc Hv.
  pose proof (clone_shared_is_unexported fuel v n Hm Hs l Hv Hc) as H. rewrite Hu in H. exact H.
Qed.

(* the exception really happens: a struct with an unexported pointer field *)
Definition ex_unexported : gv :=
  GStruct [(true, GPtr (Some (1%N, GScalar 7%Z))); (false, GPtr (Some (2%N, GScalar 8%Z)))].

Example unexported_pointer_is_shared :
  clone_value ex_unexported 10%N
  = GStruct [(true, GPtr (Some (10%N, GScalar 7%Z))); (false, GPtr (Some (2%N, GScalar 8%Z)))]
  /\ In 2%N (locs false ex_unexported)
  /\ In 2%N (locs false (clone_value ex_unexported 10%N))
  /\ unexp_locs ex_unexported = [2%N]
  /\ locs true (clone_value ex_unexported 10%N) = [10%N].
Proof. vm_compute. repeat split; auto. Qed.

(* ================================================================ 3. clone and original, two clones: nothing shared *)

Theorem clone_disjoint : forall fuel v n, (max_loc v < n)%N -> size v <= fuel ->
  forall l, In l (locs true (fst (clone fuel v n))) -> ~ In l (locs false v).
Proof.
  intros fuel v n Hm Hs l Hc Hv.
  apply (clone_fresh fuel v n Hs) in Hc. apply le_max_loc in Hv. lia.
Qed.

Corollary clone_value_disjoint : forall v n, (max_loc v < n)%N ->
  forall l, In l (locs true (clone_value v n)) -> ~ In l (locs false v).
Proof. intros v n Hm. apply clone_disjoint; [exact Hm | apply le_n]. Qed.

(* two successive clones (of the same value or not), the second one starting at the supply
   returned by the first: no exported-reachable cell in common *)
Theorem clone_twice_disjoint : forall fuel fuel' v w n, size v <= fuel -> size w <= fuel' ->
  let c1 := fst (clone fuel v n) in
  let n1 := snd (clone fuel v n) in
  let c2 := fst (clone fuel' w n1) in
  forall l, In l (locs true c1) -> ~ In l (locs true c2).
Proof.
  intros fuel fuel' v w n Hv Hw c1 n1 c2 l H1 H2.
  apply (clone_fresh fuel v n Hv) in H1. apply (clone_fresh fuel' w _ Hw) in H2.
  fold n1 in H1, H2. lia.
Qed.

(* two reads of the same stored value *)
Corollary two_reads_disjoint : forall s n,
  let r1 := clone_value s n in
  let n1 := snd (clone (size s) s n) in
  let r2 := clone_value s n1 in
  forall l, In l (locs true r1) -> ~ In l (locs true r2).
Proof. intros s n. apply (clone_twice_disjoint (size s) (size s) s s n); apply le_n. Qed.

(* the exported-reachable cells of the second clone are also distinct from ALL cells of the first
   one (including those the first one shares with the original), with a fresh supply *)
Theorem clone_twice_disjoint_all : forall fuel fuel' v n, (max_loc v < n)%N ->
  size v <= fuel -> size v <= fuel' ->
  let c1 := fst (clone fuel v n) in
  let n1 := snd (clone fuel v n) in
  let c2 := fst (clone fuel' v n1) in
  (forall l, In l (locs true c1) -> ~ In l (locs false c2)) /\
  (forall l, In l (locs true c2) -> ~ In l (locs false c1)).
Proof.
  intros fuel fuel' v n Hm Hv Hv' c1 n1 c2.
  pose proof (clone_supply fuel v n Hv) as Hsup. fold n1 in Hsup.
  split; intros l H1 H2.
  - apply (clone_fresh fuel v n Hv) in H1. fold n1 in H1.
    destruct (clone_all_locs fuel' v n1 Hv' l H2) as [H|H]; [lia|].
    apply unexp_locs_incl, le_max_loc in H. lia.
  - apply (clone_fresh fuel' v n1 Hv') in H1.
    destruct (clone_all_locs fuel v n Hv l H2) as [H|H]; [fold n1 in H; lia|].
    apply unexp_locs_incl, le_max_loc in H. lia.
Qed.

(* ================================================================ 5. mutation *)

(* [mutate l f v]: the effect on the value graph v of an arbitrary write to the cell with
   identity l: every node of v carrying identity l (a pointer with its pointee, a slice with its
   elements, a map with its bindings) is replaced by f of that node (after the nodes below it have
   been treated).  f is arbitrary: it may replace the pointee, some or all elements, the bindings,
   nested structs and arrays stored in the cell, or the whole node. *)
Fixpoint mutate (l : loc) (f : gv -> gv) (v : gv) : gv :=
  match v with
  | GScalar z => GScalar z
  | GPtr None => GPtr None
  | GPtr (Some (l', x)) =>
      let v' := GPtr (Some (l', mutate l f x)) in if N.eqb l' l then f v' else v'
  | GSlice None => GSlice None
  | GSlice (Some (l', es)) =>
      let v' := GSlice (Some (l', map (mutate l f) es)) in if N.eqb l' l then f v' else v'
  | GMap None => GMap None
  | GMap (Some (l', bs)) =>
      let v' := GMap (Some (l', map (fun p : Z * gv => (fst p, mutate l f (snd p))) bs)) in
      if N.eqb l' l then f v' else v'
  | GStruct fs => GStruct (map (fun p : bool * gv => (fst p, mutate l f (snd p))) fs)
  | GArr es => GArr (map (mutate l f) es)
  | GIface None => GIface None
  | GIface (Some x) => GIface (Some (mutate l f x))
  end.

Lemma map_id_outside {A} (g : A -> A) (h : A -> list loc) (l : loc) (xs : list A) :
  Forall (fun x => ~ In l (h x) -> g x = x) xs -> ~ In l (flat_map h xs) -> map g xs = xs.
Proof.
  induction 1 as [|x xs Hx _ IH]; simpl; intros Hn; [reflexivity|].
  rewrite in_app_iff in Hn. rewrite Hx, IH; tauto.
Qed.

Theorem mutate_outside : forall l f v, ~ In l (locs false v) -> mutate l f v = v.
Proof.
  intros l f v. induction v using gv_ind'; simpl; intros Hn; try reflexivity.
  - destruct (N.eqb_spec l0 l) as [->|_]; [tauto|]. rewrite IHv; tauto.
  - destruct (N.eqb_spec l0 l) as [->|_]; [tauto|].
    rewrite (map_id_outside _ (locs false) l); tauto.
  - destruct (N.eqb_spec l0 l) as [->|_]; [tauto|].
    rewrite (map_id_outside _ (fun p => locs false (snd p)) l); [reflexivity| |tauto].
    eapply Forall_impl; [|exact H]. intros [k x] Hx Hx'. simpl in *. rewrite Hx; tauto.
  - rewrite (map_id_outside _ (fun p => locs false (snd p)) l); [reflexivity| |exact Hn].
    eapply Forall_impl; [|exact H]. intros [k x] Hx Hx'. simpl in *. rewrite Hx; tauto.
  - rewrite (map_id_outside _ (locs false) l); tauto.
  - rewrite IHv; tauto.
Qed.

(* any sequence of writes to cells outside v *)
Corollary mutate_seq_outside : forall (ms : list (loc * (gv -> gv))) v,
  (forall m, In m ms -> ~ In (fst m) (locs false v)) ->
  fold_left (fun c m => mutate (fst m) (snd m) c) ms v = v.
Proof.
  induction ms as [|m ms IH]; simpl; intros v H; [reflexivity|].
  rewrite mutate_outside; [apply IH|]; auto.
Qed.

(* Store.  The general form: a write to any cell other than the fresh cells of the clone and the
   cells of the original below unexported fields leaves the stored clone unchanged. *)
Theorem store_isolated_gen : forall fuel v n, size v <= fuel ->
  let c := fst (clone fuel v n) in
  let n' := snd (clone fuel v n) in
  forall l f, ~ (n <= l < n')%N -> ~ In l (unexp_locs v) -> mutate l f c = c.
Proof.
  intros fuel v n Hs c n' l f Hl Hu. apply mutate_outside. intros Hc.
  destruct (clone_all_locs fuel v n Hs l Hc); tauto.
Qed.

(* whatever the caller does, after the store, to a cell of the object it passed in that does not
   lie below an unexported field: the stored clone is unchanged *)
Theorem store_isolated_strong : forall v n, (max_loc v < n)%N ->
  let c := clone_value v n in
  forall l f, In l (locs false v) -> ~ In l (unexp_locs v) -> mutate l f c = c.
Proof.
  intros v n Hm c l f Hv Hu.
  apply (store_isolated_gen (size v) v n (le_n _)); [|exact Hu].
  apply le_max_loc in Hv. lia.
Qed.

Theorem store_isolated : forall v n, (max_loc v < n)%N ->
  let c := clone_value v n in
  forall l f, In l (locs false v) -> ~ In l (unexp_locs v) -> erase (mutate l f c) = erase c.
Proof. intros v n Hm c l f Hv Hu. unfold c. rewrite store_isolated_strong; auto. Qed.

(* the same for any sequence of such writes *)
Corollary store_isolated_seq : forall v n, (max_loc v < n)%N ->
  let c := clone_value v n in
  forall ms : list (loc * (gv -> gv)),
  (forall m, In m ms -> In (fst m) (locs false v) /\ ~ In (fst m) (unexp_locs v)) ->
  fold_left (fun c m => mutate (fst m) (snd m) c) ms c = c.
Proof.
  intros v n Hm c ms H. apply mutate_seq_outside. intros m Hin Hc.
  destruct (H m Hin) as [Hv Hu].
  destruct (clone_shared_only_unexported (size v) v n (le_n _) _ Hc) as [H'|H']; [|tauto].
  apply le_max_loc in Hv. lia.
Qed.

(* Read.  s is the stored value, r the clone returned to the caller: whatever the caller does to
   an exported-reachable cell of r, the stored value is unchanged... *)
Theorem read_isolated : forall s n, (max_loc s < n)%N ->
  let r := clone_value s n in
  forall l f, In l (locs true r) -> mutate l f s = s.
Proof.
  intros s n Hm r l f Hr. apply mutate_outside. exact (clone_value_disjoint s n Hm l Hr).
Qed.

(* ... and for any cell of r at all, provided it is not one of the cells of s below an
   unexported field (those are shared with r) *)
Theorem read_isolated_all : forall s n, (max_loc s < n)%N ->
  let r := clone_value s n in
  forall l f, In l (locs false r) -> ~ In l (unexp_locs s) -> mutate l f s = s.
Proof.
  intros s n Hm r l f Hr Hu. apply mutate_outside. intros Hs.
  exact (Hu (clone_shared_is_unexported (size s) s n Hm (le_n _) l Hs Hr)).
Qed.

Corollary read_isolated_erase : forall s n, (max_loc s < n)%N ->
  let r := clone_value s n in
  forall l f, In l (locs false r) -> ~ In l (unexp_locs s) -> erase (mutate l f s) = erase s.
Proof. intros s n Hm r l f Hr Hu. rewrite (read_isolated_all s n Hm); auto. Qed.

(* two reads of the same stored value: a write to an exported-reachable cell of one of the
   returned values leaves the other returned value unchanged *)
Theorem two_reads_isolated : forall s n, (max_loc s < n)%N ->
  let r1 := clone_value s n in
  let n1 := snd (clone (size s) s n) in
  let r2 := clone_value s n1 in
  (forall l f, In l (locs true r1) -> mutate l f r2 = r2) /\
  (forall l f, In l (locs true r2) -> mutate l f r1 = r1).
Proof.
  intros s n Hm r1 n1 r2.
  destruct (clone_twice_disjoint_all (size s) (size s) s n Hm (le_n _) (le_n _)) as [H1 H2].
  split; intros l f Hl; apply mutate_outside; [exact (H1 l Hl) | exact (H2 l Hl)].
Qed.

(* a later read returns the same content, whatever was done in between to the cells of the
   caller's object v (store) and to the exported-reachable cells of an earlier returned value r1 *)
Theorem later_read_unchanged : forall v n, (max_loc v < n)%N ->
  let c := clone_value v n in                       (* stored *)
  let n1 := snd (clone (size v) v n) in
  forall l f,
    (In l (locs false v) /\ ~ In l (unexp_locs v)) \/
    ((max_loc c < n1)%N /\ In l (locs true (clone_value c n1))) ->
  forall n2, erase (clone_value (mutate l f c) n2) = erase v.
Proof.
  intros v n Hm c n1 l f H n2. rewrite clone_value_erase.
  destruct H as [[Hv Hu]|[Hm' Hr]].
  - unfold c. rewrite store_isolated_strong; auto. apply clone_value_erase.
  - rewrite (read_isolated c n1 Hm' l f Hr). apply clone_value_erase.
Qed.
