(* Proofs/Batch.v: C07 / C01 at the level of the handle: InsertOrUpdateMany and InsertOrUpdateBulk
   refine an all-or-nothing specification on the abstract collection, under every configuration. *)
From Coq Require Import List ZArith NArith Bool Lia Arith.
Import ListNotations.
From Sod.Model Require Import Base FieldIndex ObjIndex DB.
From Sod.Proofs Require Import FIProofs1 FIProofs2 FIProofs3 FIProofs4 FIProofs5 KeyOrder SearchSpec
     OIProofs OIProofs2 DBBasic DBStruct1 Refine1 Refine2 Refine3 Refine4.
Close Scope Z_scope.

(* ================================================================ an index represents a map *)

Definition Rep (fds : list fdesc) (ix : oindex) (a : list (N * obj)) : Prop :=
  OIInv fds ix /\ NoDup (map fst a) /\
  (forall u, In u (map fst a) <-> is_indexed ix u = true) /\
  (forall u o, assoc u a = Some o -> keys_ok fds (o_keys o) /\ holds ix u (o_keys o)).

Lemma holds_entry_key fds ix i u k ks : OIInv fds ix -> holds ix u ks -> entry_of ix i u k ->
  nth_error ks i = Some k.
Proof.
  intros OI [oid' [Hin' Hall]] [oid [l [Hin [Hl Hk]]]].
  assert (oid' = oid) by (apply (ids_same_uuid _ _ _ _ u OI Hin' Hin)). subst oid'.
  destruct (Hall i l Hl) as [k' [Hk' Hin2]]. rewrite Hk'. f_equal.
  destruct (inv_fields _ _ OI i l Hl) as [_ [Hnd _]].
  pose proof (nodup_oid_inj key l (k', oid) (k, oid) Hnd Hin2 Hk eq_refl) as E. congruence.
Qed.

Lemma holds_key_entry ix i u k ks l : holds ix u ks -> nth_error (oi_fx ix) i = Some (Some l) ->
  nth_error ks i = Some k -> entry_of ix i u k.
Proof.
  intros [oid [Hin Hall]] Hl Hk. destruct (Hall i l Hl) as [k' [Hk' Hin2]].
  assert (k' = k) by congruence. subst k'. exists oid, l. repeat split; assumption.
Qed.

Lemma assoc_In_fst {B} (l : list (N * B)) k v : assoc k l = Some v -> In k (map fst l).
Proof. intros H. apply assoc_In in H. apply in_map_iff. exists (k, v). split; [reflexivity|exact H]. Qed.

Lemma In_assoc_nodup {B} (l : list (N * B)) k v : NoDup (map fst l) -> In (k, v) l -> assoc k l = Some v.
Proof. apply rf_In_assoc. Qed.

Lemma conflict_iff_rep fds ix a u ks : Rep fds ix a ->
  (conflict fds ix ks u <-> uniq_conflict fds a u ks = true).
Proof.
  intros [OI [Hnd [Hdom Hrep]]]. unfold uniq_conflict. rewrite existsb_exists. split.
  - intros Hc. destruct (conflict_cell _ _ _ _ OI Hc) as [i [fd [k [u' [Hd [Hu [Hk [Hne Hcell]]]]]]]].
    assert (Hi : is_indexed ix u' = true).
    { destruct Hcell as [oid [l [Hin _]]]. apply is_indexed_true. apply (in_ids_snd _ _ _ Hin). }
    apply Hdom in Hi. apply in_map_iff in Hi. destruct Hi as [[u2 o] [E Hin]]. cbn in E. subst u2.
    exists (u', o). split; [exact Hin|]. cbn [fst snd].
    apply andb_true_iff. split; [apply negb_true_iff; apply N.eqb_neq; exact Hne|].
    apply clash_iff. exists i, fd, k. repeat split; try assumption.
    destruct (Hrep u' o (In_assoc_nodup _ _ _ Hnd Hin)) as [_ Hh].
    apply (holds_entry_key fds ix i u' k (o_keys o) OI Hh Hcell).
  - intros [[u' o] [Hin Hb]]. cbn [fst snd] in Hb. apply andb_true_iff in Hb. destruct Hb as [Hne Hcl].
    apply negb_true_iff in Hne. apply N.eqb_neq in Hne.
    apply clash_iff in Hcl. destruct Hcl as [i [fd [k [Hd [Hu [Hk Hk2]]]]]].
    assert (Hl : exists l : findex, nth_error (oi_fx ix) i = Some (Some l)).
    { apply (shape_indexed _ _ i (inv_shape _ _ OI)). exists fd. split; [exact Hd|].
      unfold fd_indexed. rewrite Hu. apply orb_true_r. }
    destruct Hl as [l Hl].
    apply (cell_conflict _ _ ks u i fd k u' OI Hd Hu Hk Hne).
    destruct (Hrep u' o (In_assoc_nodup _ _ _ Hnd Hin)) as [_ Hh].
    apply (holds_key_entry ix i u' k (o_keys o) l Hh Hl Hk2).
Qed.

Lemma Rep_core ls cache pend d m : InvCore ls cache pend d m -> Rep (m_fields m) (m_idx m) (abs_of pend d m).
Proof.
  intros I. split; [apply (ic_oi _ _ _ _ _ I)|]. split; [apply (abs_nodup _ _ _ _ _ I)|]. split.
  - intros u. rewrite (abs_keys _ _ _ _ _ I). symmetry. apply is_indexed_true.
  - intros u o Ha. rewrite (abs_assoc _ _ _ _ _ I) in Ha.
    pose proof (ic_stored_indexed _ _ _ _ _ I u o Ha) as Hi. apply is_indexed_true in Hi.
    apply in_map_iff in Hi. destruct Hi as [[oid v] [E Hin]]. cbn in E. subst v.
    destruct (ic_agree _ _ _ _ _ I oid u Hin) as [o' [S' [K [H _]]]].
    assert (o' = o) by congruence. subst o'. split; assumption.
Qed.

Lemma Rep_new fds : Rep fds (new_index fds) [].
Proof.
  split; [apply new_index_inv|]. split; [constructor|]. split.
  - intros u. cbn. split; [intros []|]. intros H. discriminate.
  - intros u o H. discriminate.
Qed.

(* one accepted insertion into an index that represents [a]: it represents [put u o a] *)
Lemma Rep_put fds ix a u o ix' : Rep fds ix a -> keys_ok fds (o_keys o) ->
  oi_insert_or_update fds ix (o_keys o) u = Ok ix' -> Rep fds ix' (put u o a).
Proof.
  intros [OI [Hnd [Hdom Hrep]]] Hk Hok.
  destruct (insert_or_update_spec fds ix (o_keys o) u OI Hk) as [_ [_ [_ [_ Hsucc]]]].
  destruct (Hsucc ix' Hok) as [OI' [Hself [Hoth _]]].
  pose proof (iou_indexed _ _ _ _ _ OI Hk Hok) as Hidx.
  split; [exact OI'|]. split; [apply rf_put_nodup; exact Hnd|]. split.
  - intros v. rewrite rf_put_fst_in, Hidx, Hdom. reflexivity.
  - intros v ov. rewrite rf_assoc_put. destruct (N.eqb v u) eqn:E.
    + apply N.eqb_eq in E. subst v. intros H. inv H. split; assumption.
    + apply N.eqb_neq in E. intros H. destruct (Hrep v ov H) as [K Hh]. split; [exact K|].
      apply (Hoth v (o_keys ov) E). exact Hh.
Qed.

(* ================================================================ the specification of a batch *)

Definition member_ok (hk : hooks) (fds : list fdesc) (x : member) : Prop :=
  match x with MRec _ _ o => keys_ok fds (hk_tr hk (o_keys o)) | MOther => True end.

(* validation as the property states it: every member, in order, is transformed and canonicalised,
   must be valid and serialisable, must not clash on a unique field with ANOTHER object among the
   members validated before it ([acc], last write wins) nor among the objects stored before the
   call ([a0]).  Returns the transformed members. *)
Fixpoint spec_validate (hk : hooks) (fds : list fdesc) (a0 acc : list (N * obj)) (ms : list member)
  : res (list (N * obj)) :=
  match ms with
  | [] => Ok []
  | MOther :: _ => Err EWrongType
  | MRec u fresh o :: r =>
      let o' := prep hk fds o in
      let u' := if N.eqb u 0 then fresh else u in
      if negb (hk_va hk (o_keys o')) then Err EInvalid
      else if negb (forallb serialisable (o_keys o')) then Err EJson
      else if uniq_conflict fds acc u' (o_keys o') then Err EUnique
      else if uniq_conflict fds a0 u' (o_keys o') then Err EUnique
      else match spec_validate hk fds a0 (put u' o' acc) r with
           | Ok l => Ok ((u', o') :: l)
           | Err e => Err e
           | Panic => Panic
           end
  end.

Lemma prep_keys_ok hk fds o : keys_ok fds (hk_tr hk (o_keys o)) -> keys_ok fds (o_keys (prep hk fds o)).
Proof. unfold keys_ok, prep. cbn [o_keys]. rewrite canon_keys_length. intros H; exact H. Qed.

(* the validation loop of the code (scratch index + live index) IS that validation *)
Lemma validate_batch_refines hk m fds a0 : m_fields m = fds -> Rep fds (m_idx m) a0 ->
  forall ms tmp acc, Rep fds tmp acc -> Forall (member_ok hk fds) ms ->
  validate_batch hk m tmp ms = spec_validate hk fds a0 acc ms.
Proof.
  intros Hf RL. induction ms as [|x r IH]; intros tmp acc RT Hok; [reflexivity|].
  inversion Hok as [|? ? Hx Hr]; subst. destruct x as [u fresh o|]; [|reflexivity].
  cbn [validate_batch spec_validate].
  change (prepare_obj hk m o) with (prep hk (m_fields m) o). 
  set (o' := prep hk (m_fields m) o). set (u' := if N.eqb u 0 then fresh else u).
  destruct (negb (hk_va hk (o_keys o'))); [reflexivity|].
  destruct (negb (forallb serialisable (o_keys o'))); [reflexivity|].
  assert (Hk : keys_ok (m_fields m) (o_keys o')) by (apply prep_keys_ok; exact Hx).
  pose proof RT as [OIT _].
  destruct (insert_or_update_spec (m_fields m) tmp (o_keys o') u' OIT Hk) as [Hnp [Herr [Hconf [Hnconf _]]]].
  pose proof (conflict_iff_rep (m_fields m) tmp acc u' (o_keys o') RT) as Hci.
  destruct (uniq_conflict (m_fields m) acc u' (o_keys o')) eqn:Eu.
  { rewrite (Hconf (proj2 Hci eq_refl)). reflexivity. }
  destruct Hnconf as [tmp' Htmp']. { intros Hc. apply Hci in Hc. discriminate. }
  rewrite Htmp'.
  pose proof RL as [OIL _].
  destruct (satisfy_all_spec (m_fields m) (m_idx m) (o_keys o') u' OIL Hk) as [b [Hb Hbiff]].
  rewrite Hb.
  pose proof (conflict_iff_rep (m_fields m) (m_idx m) a0 u' (o_keys o') RL) as Hcl.
  destruct (uniq_conflict (m_fields m) a0 u' (o_keys o')) eqn:El.
  { assert (b = false) by (apply Hbiff; apply Hcl; reflexivity). subst b. reflexivity. }
  assert (b = true).
  { destruct b; [reflexivity|]. exfalso. assert (Hc : conflict (m_fields m) (m_idx m) (o_keys o') u') by (apply Hbiff; reflexivity).
    apply Hcl in Hc. discriminate. }
  subst b.
  rewrite (IH tmp' (put u' o' acc) (Rep_put _ _ _ _ _ _ RT Hk Htmp') Hr). reflexivity.
Qed.

(* ================================================================ validated => the insertions cannot fail *)

(* the map after storing a list of (uuid, object) in order *)
Definition puts (l : list (N * obj)) (a : list (N * obj)) : list (N * obj) :=
  fold_left (fun x p => put (fst p) (snd p) x) l a.

Lemma uc_false_assoc fds a u ks : NoDup (map fst a) ->
  (uniq_conflict fds a u ks = false <->
   (forall v ov, assoc v a = Some ov -> v <> u -> clash fds ks (o_keys ov) = false)).
Proof.
  intros Hnd. unfold uniq_conflict. split.
  - intros H v ov Ha Hne. destruct (clash fds ks (o_keys ov)) eqn:E; [|reflexivity].
    assert (X : existsb (fun p => negb (N.eqb (fst p) u) && clash fds ks (o_keys (snd p))) a = true).
    { apply existsb_exists. exists (v, ov). split; [apply assoc_In; exact Ha|]. cbn [fst snd]. rewrite E.
      apply N.eqb_neq in Hne. rewrite Hne. reflexivity. }
    congruence.
  - intros H. destruct (existsb _ a) eqn:E; [|reflexivity]. apply existsb_exists in E.
    destruct E as [[v ov] [Hin Hb]]. cbn [fst snd] in Hb. apply andb_true_iff in Hb. destruct Hb as [Hne Hc].
    apply negb_true_iff, N.eqb_neq in Hne. rewrite (H v ov (rf_In_assoc _ _ _ Hnd Hin) Hne) in Hc. discriminate.
Qed.

(* every binding of the current map comes from the members stored so far or from the original map *)
Definition covers (acc a0 cur : list (N * obj)) : Prop :=
  forall v ov, assoc v cur = Some ov -> assoc v acc = Some ov \/ assoc v a0 = Some ov.

Lemma covers_put acc a0 cur u o : covers acc a0 cur -> covers (put u o acc) a0 (put u o cur).
Proof.
  intros C v ov. rewrite !rf_assoc_put. destruct (N.eqb v u); [intros H; left; exact H|apply C].
Qed.

Lemma covers_noconf fds acc a0 cur u ks : NoDup (map fst acc) -> NoDup (map fst a0) -> NoDup (map fst cur) ->
  covers acc a0 cur -> uniq_conflict fds acc u ks = false -> uniq_conflict fds a0 u ks = false ->
  uniq_conflict fds cur u ks = false.
Proof.
  intros N1 N2 N3 C H1 H2. apply (uc_false_assoc fds cur u ks N3). intros v ov Ha Hne.
  destruct (C v ov Ha) as [X|X].
  - apply (proj1 (uc_false_assoc fds acc u ks N1) H1 v ov X Hne).
  - apply (proj1 (uc_false_assoc fds a0 u ks N2) H2 v ov X Hne).
Qed.

(* what the insertion loop needs of its list, relative to the map it starts from *)
Fixpoint NoConfl (fds : list fdesc) (cur : list (N * obj)) (l : list (N * obj)) : Prop :=
  match l with
  | [] => True
  | (u, o) :: r => keys_ok fds (o_keys o) /\ forallb serialisable (o_keys o) = true /\
                   uniq_conflict fds cur u (o_keys o) = false /\ NoConfl fds (put u o cur) r
  end.

(* SPEC-LEVEL "validated never fails": a validated batch can be stored member by member *)
Lemma spec_validate_noconf hk fds a0 : NoDup (map fst a0) -> forall ms acc cur l,
  NoDup (map fst acc) -> NoDup (map fst cur) -> covers acc a0 cur -> Forall (member_ok hk fds) ms ->
  spec_validate hk fds a0 acc ms = Ok l -> NoConfl fds cur l /\ length l = length ms.
Proof.
  intros N0. induction ms as [|x r IH]; intros acc cur l N1 N3 C Hok H.
  - cbn in H. inv H. split; [exact Logic.I|reflexivity].
  - inversion Hok as [|? ? Hx Hr]; subst. destruct x as [u fresh o|]; [|discriminate].
    cbn [spec_validate] in H.
    set (o' := prep hk fds o) in *. set (u' := if N.eqb u 0 then fresh else u) in *.
    destruct (negb (hk_va hk (o_keys o'))); [discriminate|].
    destruct (negb (forallb serialisable (o_keys o'))) eqn:Es; [discriminate|].
    destruct (uniq_conflict fds acc u' (o_keys o')) eqn:E1; [discriminate|].
    destruct (uniq_conflict fds a0 u' (o_keys o')) eqn:E2; [discriminate|].
    destruct (spec_validate hk fds a0 (put u' o' acc) r) as [l'| |] eqn:Er; try discriminate.
    inv H.
    destruct (IH (put u' o' acc) (put u' o' cur) l' (rf_put_nodup _ _ _ N1) (rf_put_nodup _ _ _ N3)
                 (covers_put _ _ _ _ _ C) Hr Er) as [NC Hlen].
    split; [|cbn [length]; rewrite Hlen; reflexivity].
    cbn [NoConfl]. split; [apply prep_keys_ok; exact Hx|]. split; [apply negb_false_iff; exact Es|].
    split; [apply (covers_noconf fds acc a0 cur u' (o_keys o') N1 N0 N3 C E1 E2)|exact NC].
Qed.

(* ================================================================ one insertion without commit *)

Lemma insert_core_nc_ok ls h w m u o :
  h_mem h = Some m -> nofault w ->
  InvCore ls (h_cache h) (h_pend h) (w_disk w) m ->
  keys_ok (m_fields m) (o_keys o) -> forallb serialisable (o_keys o) = true ->
  uniq_conflict (m_fields m) (abs_of (h_pend h) (w_disk w) m) u (o_keys o) = false ->
  exists h' w' m', insert_core ls h w m u o false = (h', Ok tt, w') /\ h_mem h' = Some m' /\ nofault w' /\
    InvCore ls (h_cache h') (h_pend h') (w_disk w') m' /\ m_fields m' = m_fields m /\
    abs_of (h_pend h') (w_disk w') m' = put u o (abs_of (h_pend h) (w_disk w) m) /\
    h_cancel h' = h_cancel h /\ h_fl h' = h_fl h /\ h_srch h' = h_srch h /\
    (async_on m = true -> w' = w).
Proof.
  intros Hm Hn I Hk Hser Eu. unfold insert_core. rewrite Hser. cbn [negb].
  pose proof (ic_oi _ _ _ _ _ I) as IO.
  destruct (insert_or_update_spec (m_fields m) (m_idx m) (o_keys o) u IO Hk) as [_ [_ [Hconf [Hnconf Hsucc]]]].
  pose proof (conflict_iff ls _ _ _ m u (o_keys o) I) as Hci.
  destruct Hnconf as [ix' Hok]. { intros Hc. apply Hci in Hc. congruence. }
  rewrite Hok.
  destruct (Hsucc ix' Hok) as [IO' [Hself [Hoth _]]].
  pose proof (unique_preserved _ _ _ _ _ IO (ic_uniq _ _ _ _ _ I) Hk Hok) as U'.
  pose proof (iou_indexed _ _ _ _ _ IO Hk Hok) as Hidx.
  pose proof (iou_uuids _ _ _ _ _ IO Hk Hok) as Huu.
  pose proof (iou_in_ids _ _ _ _ _ IO Hk Hok) as Hids.
  set (m1 := set_idx m ix').
  assert (Hself_idx : is_indexed ix' u = true) by (apply Hidx; left; reflexivity).
  assert (Hmono : forall v, is_indexed (m_idx m) v = true -> is_indexed ix' v = true)
    by (intros v Hv; apply Hidx; right; exact Hv).
  (* the map after the write, from the pointwise description of [stored] *)
  assert (Habs : forall pend' d',
            (forall v, stored pend' d' m1 v = if N.eqb v u then Some o else stored (h_pend h) (w_disk w) m v) ->
            abs_of pend' d' m1 = put u o (abs_of (h_pend h) (w_disk w) m)).
  { intros pend' d' Hst. unfold abs_of. rewrite !bind_bindf. unfold m1 at 2. cbn [set_idx m_idx]. rewrite Huu.
    destruct (is_indexed (m_idx m) u) eqn:Ei.
    - apply bindf_put_in; [apply (inv_uuid_nodup _ _ IO)|apply is_indexed_true; exact Ei|exact Hst|].
      destruct (ic_indexed_stored _ _ _ _ _ I u Ei) as [o0 S0]. congruence.
    - apply bindf_put_new; [apply is_indexed_false; exact Ei|exact Hst]. }
  (* the agreement clause after the write, same description *)
  assert (Hagree : forall pend' d',
            (forall v, stored pend' d' m1 v = if N.eqb v u then Some o else stored (h_pend h) (w_disk w) m v) ->
            forall oid v, In (oid, v) (oi_ids (m_idx m1)) ->
              exists o1, stored pend' d' m1 v = Some o1 /\ keys_ok (m_fields m1) (o_keys o1) /\
                         holds (m_idx m1) v (o_keys o1) /\ forallb serialisable (o_keys o1) = true).
  { intros pend' d' Hst oid v Hin. rewrite (Hst v). cbn [m1 set_idx m_idx m_fields] in *.
    destruct (N.eqb v u) eqn:E.
    - apply N.eqb_eq in E. subst v. exists o. repeat split; assumption.
    - apply N.eqb_neq in E. destruct (ic_agree _ _ _ _ _ I oid v (Hids oid v Hin E)) as [o1 [A [B [C D]]]].
      exists o1. repeat split; try assumption. apply (Hoth v (o_keys o1) E). exact C. }
  destruct (async_on m1) eqn:Easy.
  - (* asynchronous: pending store and cache *)
    assert (Hmc : must_cache m1 = true) by (unfold must_cache; rewrite Easy; apply orb_true_r).
    rewrite Hmc. cbn [set_cache set_mem set_pend h_cache h_pend h_mem].
    eexists. exists w, m1. split; [reflexivity|].
    assert (Hst : forall v, stored (put u o (h_pend h)) (w_disk w) m1 v =
                            if N.eqb v u then Some o else stored (h_pend h) (w_disk w) m v).
    { intros v. unfold stored. change (async_on m) with (async_on m1). rewrite Easy, rf_assoc_put.
      destruct (N.eqb v u); reflexivity. }
    cbn [set_cache set_mem set_pend h_mem h_cache h_pend h_cancel h_fl h_srch]. split; [reflexivity|]. split; [exact Hn|].
    split; [|split; [reflexivity|split; [apply Habs; exact Hst|split; [reflexivity|split; [reflexivity|split; [reflexivity|intros _; reflexivity]]]]]].
    constructor.
    + exact IO'.
    + exact U'.
    + apply (ic_shape _ _ _ _ _ I).
    + apply Hagree. exact Hst.
    + apply (ic_dir _ _ _ _ _ I).
    + intros f c Hin. destruct (ic_files _ _ _ _ _ I f c Hin) as [A [B C]].
      split; [exact A|]. split; [apply Hmono; exact B|exact C].
    + intros Hc. congruence.
    + intros v o1. rewrite !rf_assoc_put. destruct (N.eqb v u) eqn:E.
      * apply N.eqb_eq in E. subst v. intros H. inversion H; subst. split; [exact Hself_idx|reflexivity].
      * intros H. destruct (ic_pend _ _ _ _ _ I v o1 H) as [A B]. split; [apply Hmono; exact A|exact B].
    + apply rf_put_nodup. apply (ic_pnodup _ _ _ _ _ I).
    + intros v o1 _. rewrite Hst, rf_assoc_put. destruct (N.eqb v u); [intros H; exact H|].
      apply (ic_cache _ _ _ _ _ I v o1). exact Hmc.
    + intros Hc. congruence.
    + apply (ic_schema _ _ _ _ _ I).
  - (* synchronous: object file, then commit *)
    assert (Hp : h_pend h = []) by (apply (ic_sync _ _ _ _ _ I); exact Easy).
    destruct (rf_write_object w m1 u o Hn (ic_dir _ _ _ _ _ I) Hser) as [w1 [W1 [N1 D1]]]. rewrite W1.
    set (cache' := if must_cache m1 then put u o (h_cache h) else h_cache h).
    set (h2 := if must_cache m1 then set_cache (set_mem h (Some m1)) (put u o (h_cache (set_mem h (Some m1))))
               else set_mem h (Some m1)).
    assert (Hh2 : h_mem h2 = Some m1 /\ h_cache h2 = cache' /\ h_pend h2 = h_pend h /\ h_cancel h2 = h_cancel h).
    { unfold h2, cache'. destruct (must_cache m1); repeat split. }
    destruct Hh2 as [Hm2 [Hc2 [Hp2 Hk2]]].
    assert (Hst : forall v, stored (h_pend h) (w_disk w1) m1 v =
                            if N.eqb v u then Some o else stored (h_pend h) (w_disk w) m v).
    { intros v. rewrite Hp. rewrite !stored_nopend, D1. cbn [disk_set_file d_files].
      rewrite rf_lookup_put. change (file_of m1 v) with (file_of m v). change (file_of m1 u) with (file_of m u).
      rewrite file_of_eqb. destruct (N.eqb v u); reflexivity. }
    assert (I2 : InvCore ls (h_cache h2) (h_pend h2) (w_disk w1) m1).
    { rewrite Hc2, Hp2. constructor.
      + exact IO'.
      + exact U'.
      + apply (ic_shape _ _ _ _ _ I).
      + apply Hagree. exact Hst.
      + rewrite D1. apply (ic_dir _ _ _ _ _ I).
      + intros f c Hin. rewrite D1 in Hin. cbn [disk_set_file d_files] in Hin.
        apply rf_In_put in Hin. destruct Hin as [[-> ->]|Hin].
        * split; [reflexivity|]. split; [exact Hself_idx|exists o; reflexivity].
        * destruct (ic_files _ _ _ _ _ I f c Hin) as [A [B C]].
          split; [exact A|]. split; [apply Hmono; exact B|exact C].
      + intros _. exact Hp.
      + intros v o1. rewrite Hp. discriminate.
      + rewrite Hp. constructor.
      + intros v o1 Hmc. unfold cache'. rewrite Hmc, Hst, rf_assoc_put. destruct (N.eqb v u); [intros H; exact H|].
        apply (ic_cache _ _ _ _ _ I v o1). exact Hmc.
      + intros Hmc. unfold cache'. rewrite Hmc. apply (ic_nocache _ _ _ _ _ I). exact Hmc.
      + rewrite D1. apply (ic_schema _ _ _ _ _ I). }
    fold h2. exists h2, w1, m1. split; [reflexivity|]. split; [exact Hm2|]. split; [exact N1|]. split; [exact I2|].
    split; [reflexivity|]. split; [rewrite Hp2; apply Habs; exact Hst|]. split; [exact Hk2|].
    split; [unfold h2; destruct (must_cache m1); reflexivity|]. split; [unfold h2; destruct (must_cache m1); reflexivity|].
    intros Hc. change (async_on m) with (async_on m1) in Hc. congruence.
Qed.
(* ================================================================ the insertion loop *)

Lemma insert_loop_ok ls : forall l h w m n,
  h_mem h = Some m -> nofault w -> InvCore ls (h_cache h) (h_pend h) (w_disk w) m ->
  NoConfl (m_fields m) (abs_of (h_pend h) (w_disk w) m) l ->
  exists h' w' m', insert_loop ls h w l n = (h', Ok tt, w', (n + Z.of_nat (length l))%Z) /\
    h_mem h' = Some m' /\ nofault w' /\ InvCore ls (h_cache h') (h_pend h') (w_disk w') m' /\
    m_fields m' = m_fields m /\
    abs_of (h_pend h') (w_disk w') m' = puts l (abs_of (h_pend h) (w_disk w) m) /\
    h_cancel h' = h_cancel h.
Proof.
  induction l as [|[u o] r IH]; intros h w m n Hm Hn I NC.
  - exists h, w, m. cbn [insert_loop length puts fold_left]. rewrite Z.add_0_r.
    split; [reflexivity|]. split; [exact Hm|]. split; [exact Hn|]. split; [exact I|].
    split; [reflexivity|]. split; reflexivity.
  - cbn [NoConfl] in NC. destruct NC as [Hk [Hser [Hnc NC']]].
    cbn [insert_loop]. rewrite Hm.
    destruct (insert_core_nc_ok ls h w m u o Hm Hn I Hk Hser Hnc)
      as [h1 [w1 [m1 [E [M1 [N1 [I1 [F1 [A1 [K1 _]]]]]]]]]].
    rewrite E.
    rewrite <- F1, <- A1 in NC'.
    destruct (IH h1 w1 m1 (n + 1)%Z M1 N1 I1 NC') as [h' [w' [m' [E' [M' [N' [I' [F' [A' K']]]]]]]]].
    exists h', w', m'. rewrite E'. split.
    + f_equal. cbn [length]. lia.
    + split; [exact M'|]. split; [exact N'|]. split; [exact I'|]. split; [congruence|].
      split; [|congruence]. rewrite A', A1. reflexivity.
Qed.

(* ================================================================ InsertOrUpdateMany *)

Definition led_by_rec (ms : list member) : Prop := match ms with MOther :: _ => False | _ => True end.

(* THE BATCH THEOREM, one call, every configuration (cache, asynchronous writes, compression, any
   index / unique / case flags, any hooks): on an existing collection InsertOrUpdateMany either
   - stores EVERY member, transformed and canonicalised, in order (last write wins), returns no
     error and the number of members, or
   - changes NOTHING in the collection, returns the error of the first offending member (invalid,
     unserialisable, of another type, or holding a unique value of another member or of another
     stored object) and the count 0;
   which of the two is decided by [spec_validate] on the abstract collection alone. *)
Theorem many_refines hk ls h w fds a ms :
  Inv ls (mk h w) -> abs (mk h w) = Some {| sp_fds := fds; sp_map := a |} ->
  Forall (member_ok hk fds) ms -> led_by_rec ms ->
  exists s', 
    match spec_validate hk fds a [] ms with
    | Ok l => do_many hk ls (mk h w) ms = (s', Ok tt, Z.of_nat (length ms)) /\
              abs s' = Some {| sp_fds := fds; sp_map := puts l a |}
    | Err e => do_many hk ls (mk h w) ms = (s', Err e, 0%Z) /\
               abs s' = Some {| sp_fds := fds; sp_map := a |}
    | Panic => False
    end /\ Inv ls s'.
Proof.
  intros I Ha Hok Hled.
  destruct ms as [|x r].
  { exists (mk h w). cbn. split; [split; [reflexivity|exact Ha]|exact I]. }
  destruct x as [u fresh o|]; [|destruct Hled].
  destruct (db_schema_ok ls h w fds a I Ha) as [h1 [m1 [D [M1 [L1 [K1 Sy1]]]]]].
  destruct (LState_mem _ _ _ _ _ _ L1 M1) as [Hn [[IC1 IS1] [Hf1 Ha1]]].
  destruct (LState_Inv _ _ _ _ _ L1) as [I1 A1].
  pose proof (Rep_core _ _ _ _ _ IC1) as RL. rewrite Hf1, Ha1 in RL.
  unfold do_many. cbn [mk s_h s_w]. rewrite D.
  rewrite (validate_batch_refines hk m1 fds a Hf1 RL (MRec u fresh o :: r) (new_index (m_fields m1)) []
             ltac:(rewrite Hf1; apply Rep_new) Hok).
  destruct (spec_validate hk fds a [] (MRec u fresh o :: r)) as [l|e|] eqn:Ev.
  - destruct (spec_validate_noconf hk fds a (proj1 (proj2 RL)) (MRec u fresh o :: r) [] a l
                ltac:(constructor) (proj1 (proj2 RL)) ltac:(intros v ov Hv; right; exact Hv) Hok Ev) as [NC Hlen].
    rewrite <- Hf1, <- Ha1 in NC.
    destruct (insert_loop_ok ls l h1 w m1 0%Z M1 Hn IC1 NC) as [h2 [w2 [m2 [E2 [M2 [N2 [I2 [F2 [A2 K2]]]]]]]]].
    rewrite E2.
    destruct (commit_ok ls h2 w2 m2 M2 N2 I2) as [h3 [w3 [C3 [L3 _]]]]. rewrite C3.
    destruct (LState_Inv _ _ _ _ _ L3) as [I3 A3].
    exists (mk h3 w3). split; [|exact I3]. split.
    + rewrite Hlen. reflexivity.
    + rewrite A3, F2, Hf1, A2, Ha1. reflexivity.
  - exists (mk h1 w). split; [|exact I1]. split; [reflexivity|exact A1].
  - (* the scratch and live checks never panic on well-formed indexes: spec_validate has no Panic *)
    exfalso. clear -Ev. revert Ev. generalize (@nil (N * obj)) at 1. generalize (MRec u fresh o :: r).
    induction l as [|x r' IH]; intros acc Ev; [discriminate|].
    destruct x as [u' f' o'|]; [|discriminate]. cbn [spec_validate] in Ev.
    repeat match type of Ev with context [if ?c then _ else _] => destruct c; try discriminate end;
      (destruct (spec_validate hk fds a _ r') eqn:E; try discriminate; apply (IH _ E)).
Qed.
Print Assumptions many_refines.

(* on a collection that does not exist: refused, nothing happens *)
Theorem many_absent hk ls h w ms : Inv ls (mk h w) -> abs (mk h w) = None -> led_by_rec ms -> ms <> [] ->
  exists s', do_many hk ls (mk h w) ms = (s', Err ENotFound, 0%Z) /\ Inv ls s' /\ abs s' = None.
Proof.
  intros I Ha Hled Hne. destruct (db_schema_absent ls h w I Ha) as [D _].
  destruct ms as [|[u f o|] r]; [congruence| |destruct Hled].
  unfold do_many. cbn [mk s_h s_w]. rewrite D. exists (mk h w). split; [reflexivity|]. split; assumption.
Qed.

(* ================================================================ InsertOrUpdateBulk *)

(* chunks are applied in arrival order; the first failing chunk stops the call; the count is the
   number of objects of the chunks stored so far *)
Fixpoint spec_bulk (hk : hooks) (fds : list fdesc) (a : list (N * obj)) (cs : list (list member)) (n : Z)
  : list (N * obj) * res unit * Z :=
  match cs with
  | [] => (a, Ok tt, n)
  | c :: r =>
      match spec_validate hk fds a [] c with
      | Ok l => spec_bulk hk fds (puts l a) r (n + Z.of_nat (length c))%Z
      | Err e => (a, Err e, n)
      | Panic => (a, Panic, n)
      end
  end.

Theorem bulk_refines hk ls fds : forall cs h w a n,
  Inv ls (mk h w) -> abs (mk h w) = Some {| sp_fds := fds; sp_map := a |} ->
  Forall (fun c => Forall (member_ok hk fds) c /\ led_by_rec c) cs ->
  exists s', bulk_loop hk ls (mk h w) cs n =
             (s', snd (fst (spec_bulk hk fds a cs n)), snd (spec_bulk hk fds a cs n)) /\
             Inv ls s' /\ abs s' = Some {| sp_fds := fds; sp_map := fst (fst (spec_bulk hk fds a cs n)) |}.
Proof.
  induction cs as [|c r IH]; intros h w a n I Ha Hcs.
  - exists (mk h w). cbn. split; [reflexivity|]. split; assumption.
  - inversion Hcs as [|? ? [Hc Hled] Hr]; subst. cbn [bulk_loop spec_bulk].
    destruct (many_refines hk ls h w fds a c I Ha Hc Hled) as [s1 [M I1]].
    destruct (spec_validate hk fds a [] c) as [l|e|] eqn:Ev.
    + destruct M as [M A1]. rewrite M. destruct s1 as [h1 w1].
      destruct (IH h1 w1 (puts l a) (n + Z.of_nat (length c))%Z I1 A1 Hr) as [s' [B [I' A']]].
      exists s'. split; [exact B|]. split; assumption.
    + destruct M as [M A1]. rewrite M. exists s1. cbn [fst snd]. rewrite Z.add_0_r.
      split; [reflexivity|]. split; assumption.
    + destruct M.
Qed.
Print Assumptions bulk_refines.

(* a batch of records only: every chunk of it is a batch of records only *)
Lemma chunks_members P c ms : Forall P ms -> Forall (fun ch => Forall P ch) (chunks c ms).
Proof.
  intros H. apply Forall_forall. intros ch Hch. apply Forall_forall. intros x Hx.
  apply (proj1 (Forall_forall P ms) H). rewrite <- (chunks_concat c ms). apply in_concat. exists ch. split; assumption.
Qed.

Definition is_record (x : member) : Prop := match x with MRec _ _ _ => True | MOther => False end.

(* InsertOrUpdateBulk on records of the collection's type, any chunk size *)
Corollary bulk_call_refines hk ls h w fds a csize ms :
  Inv ls (mk h w) -> abs (mk h w) = Some {| sp_fds := fds; sp_map := a |} ->
  Forall (member_ok hk fds) ms -> Forall is_record ms ->
  exists s', step_fg hk ls (mk h w) (OBulk csize ms) =
             (s', RMany (snd (fst (spec_bulk hk fds a (chunks csize ms) 0%Z))) (snd (spec_bulk hk fds a (chunks csize ms) 0%Z))) /\
             Inv ls s' /\
             abs s' = Some {| sp_fds := fds; sp_map := fst (fst (spec_bulk hk fds a (chunks csize ms) 0%Z)) |}.
Proof.
  intros I Ha Hok Hrec.
  assert (Hcs : Forall (fun c => Forall (member_ok hk fds) c /\ led_by_rec c) (chunks csize ms)).
  { pose proof (chunks_members _ csize ms Hok) as H1. pose proof (chunks_members _ csize ms Hrec) as H2.
    apply Forall_forall. intros c Hc. split; [apply (proj1 (Forall_forall _ _) H1 c Hc)|].
    pose proof (proj1 (Forall_forall _ _) H2 c Hc) as Hr. destruct c as [|[|] ?]; try exact Logic.I.
    inversion Hr as [|? ? X _]. destruct X. }
  destruct (bulk_refines hk ls fds (chunks csize ms) h w a 0%Z I Ha Hcs) as [s' [B [I' A']]].
  exists s'. unfold step_fg. rewrite B. split; [reflexivity|]. split; assumption.
Qed.

Corollary many_call_refines hk ls h w fds a ms :
  Inv ls (mk h w) -> abs (mk h w) = Some {| sp_fds := fds; sp_map := a |} ->
  Forall (member_ok hk fds) ms -> led_by_rec ms ->
  exists s', Inv ls s' /\
    match spec_validate hk fds a [] ms with
    | Ok l => step_fg hk ls (mk h w) (OMany ms) = (s', RMany (Ok tt) (Z.of_nat (length ms))) /\
              abs s' = Some {| sp_fds := fds; sp_map := puts l a |}
    | Err e => step_fg hk ls (mk h w) (OMany ms) = (s', RMany (Err e) 0%Z) /\
               abs s' = Some {| sp_fds := fds; sp_map := a |}
    | Panic => False
    end.
Proof.
  intros I Ha Hok Hled. destruct (many_refines hk ls h w fds a ms I Ha Hok Hled) as [s' [M I']].
  exists s'. split; [exact I'|]. unfold step_fg.
  destruct (spec_validate hk fds a [] ms); [| |exact M]; destruct M as [M A]; rewrite M; split; [reflexivity|exact A|reflexivity|exact A].
Qed.

(* the specification is all-or-nothing and counts what the property says *)
Theorem spec_many_all_or_nothing hk fds a ms l :
  spec_validate hk fds a [] ms = Ok l ->
  length l = length ms /\
  forall u, In u (map fst l) \/ assoc u (puts l a) = assoc u a.
Proof.
  intros H. split.
  - revert H. generalize (@nil (N * obj)). revert l. induction ms as [|x r IH]; intros l acc H.
    + cbn in H. inv H. reflexivity.
    + destruct x as [u f o|]; [|discriminate]. cbn [spec_validate] in H.
      repeat match type of H with context [if ?c then _ else _] => destruct c; try discriminate end;
        (destruct (spec_validate hk fds a _ r) eqn:E; try discriminate; inv H; cbn [length]; f_equal; apply (IH _ _ E)).
  - clear H. revert a. induction l as [|[v ov] r IH]; intros a u; [right; reflexivity|].
    change (puts ((v, ov) :: r) a) with (puts r (put v ov a)). cbn [map fst].
    destruct (N.eq_dec u v) as [->|Hne]; [left; left; reflexivity|].
    destruct (IH (put v ov a) u) as [X|X]; [left; right; exact X|right].
    rewrite X, rf_assoc_put. destruct (N.eqb u v) eqn:E; [apply N.eqb_eq in E; congruence|reflexivity].
Qed.
