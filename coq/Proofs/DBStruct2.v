(* Proofs/DBStruct2.v: canonicalisation of keys and probes (C16), Schema.control (C11). *)
From Coq Require Import List ZArith NArith Bool Lia.
Import ListNotations.
From Sod.Model Require Import Base FieldIndex ObjIndex DB Instance.
From Sod.Proofs Require Import DBBasic DBStruct1.

(* ---------------------------------------------------------------- 2a: canonicalisation is idempotent *)

(* the three laws, one per constraint combination *)
Definition up_idem (hk : hooks) : Prop := forall s, hk_up hk (hk_up hk s) = hk_up hk s.
Definition lo_idem (hk : hooks) : Prop := forall s, hk_lo hk (hk_lo hk s) = hk_lo hk s.
Definition lo_up_idem (hk : hooks) : Prop :=
  forall s, hk_lo hk (hk_up hk (hk_lo hk (hk_up hk s))) = hk_lo hk (hk_up hk s).

(* per descriptor: exactly the law of its combination is used *)
Definition canon_law (hk : hooks) (d : fdesc) : Prop :=
  match fd_upper d, fd_lower d with
  | true, false => up_idem hk
  | false, true => lo_idem hk
  | true, true => lo_up_idem hk
  | false, false => True
  end.

Lemma canon_key_idem_law hk d k : canon_law hk d -> canon_key hk d (canon_key hk d k) = canon_key hk d k.
Proof.
  unfold canon_law, canon_key. destruct k as [z|z|z|s]; try reflexivity.
  destruct (fd_upper d), (fd_lower d); intros L; try reflexivity; f_equal; apply L.
Qed.

Section Canon.
Variable hk : hooks.
Hypothesis Hup : up_idem hk.
Hypothesis Hlo : lo_idem hk.
Hypothesis Hlu : lo_up_idem hk.

Lemma canon_law_all d : canon_law hk d.
Proof. unfold canon_law. destruct (fd_upper d), (fd_lower d); auto. Qed.

Theorem canon_key_idem d k : canon_key hk d (canon_key hk d k) = canon_key hk d k.
Proof. apply canon_key_idem_law, canon_law_all. Qed.

Theorem canon_keys_idem fds : forall ks, canon_keys hk fds (canon_keys hk fds ks) = canon_keys hk fds ks.
Proof.
  induction fds as [|d ds IH]; intros [|k ks]; cbn; try reflexivity.
  rewrite canon_key_idem, IH. reflexivity.
Qed.

Lemma canon_keys_nth fds : forall ks i d k,
  nth_error fds i = Some d -> nth_error (canon_keys hk fds ks) i = Some k ->
  exists k0, nth_error ks i = Some k0 /\ k = canon_key hk d k0.
Proof.
  induction fds as [|d0 ds IH]; intros ks i d k Hd Hk.
  - destruct i; discriminate.
  - destruct ks as [|k0 ks]; [destruct i; discriminate|].
    destruct i as [|i]; cbn in *.
    + inv Hd. inv Hk. eauto.
    + eapply IH; eassumption.
Qed.

(* no hypothesis on Transform is needed (in particular none on the length of its result) *)
Theorem prepare_obj_canonical m o i d k :
  nth_error (m_fields m) i = Some d ->
  nth_error (o_keys (prepare_obj hk m o)) i = Some k ->
  canon_key hk d k = k.
Proof.
  intros Hd Hk. cbn [prepare_obj o_keys] in Hk.
  destruct (canon_keys_nth _ _ _ _ _ Hd Hk) as [k0 [_ ->]]. apply canon_key_idem.
Qed.

Theorem prepare_obj_keys_canonical m o :
  canon_keys hk (m_fields m) (o_keys (prepare_obj hk m o)) = o_keys (prepare_obj hk m o).
Proof. cbn [prepare_obj o_keys]. apply canon_keys_idem. Qed.

(* ---------------------------------------------------------------- 2b: probes *)

Theorem search_probe_canonical h m d fld f fd o probe c :
  fld = Some f -> nth_opt f (m_fields m) = Some fd ->
  search_with hk h m d fld o probe c = search_with hk h m d fld o (canon_key hk fd probe) c.
Proof.
  intros -> Hfd. unfold search_with. rewrite Hfd.
  destruct (nth_opt f (oi_fx (m_idx m))) as [fxo|]; [|reflexivity].
  rewrite canon_key_idem. reflexivity.
Qed.

End Canon.
Print Assumptions canon_key_idem.
Print Assumptions canon_keys_idem.
Print Assumptions prepare_obj_canonical.
Print Assumptions search_probe_canonical.

(* the laws are also necessary: they are exactly idempotence of canon_key on every descriptor *)
Theorem canon_key_idem_iff hk :
  (forall d k, canon_key hk d (canon_key hk d k) = canon_key hk d k) <->
  (up_idem hk /\ lo_idem hk /\ lo_up_idem hk).
Proof.
  split.
  - intros H. repeat split; intros s.
    + specialize (H {| fd_kind := KdStr; fd_index := false; fd_unique := false; fd_upper := true; fd_lower := false |} (KStr s)).
      cbn in H. congruence.
    + specialize (H {| fd_kind := KdStr; fd_index := false; fd_unique := false; fd_upper := false; fd_lower := true |} (KStr s)).
      cbn in H. congruence.
    + specialize (H {| fd_kind := KdStr; fd_index := false; fd_unique := false; fd_upper := true; fd_lower := true |} (KStr s)).
      cbn in H. congruence.
  - intros [A [B C]] d k. apply canon_key_idem; assumption.
Qed.
Print Assumptions canon_key_idem_iff.

(* ---------------------------------------------------------------- 2c: Schema.control *)

Lemma memN_In u l : memN u l = true <-> In u l.
Proof.
  unfold memN. rewrite existsb_exists. split.
  - intros [x [Hx E]]. apply N.eqb_eq in E. subst. exact Hx.
  - intros H. exists u. split; [exact H|apply N.eqb_refl].
Qed.

Lemma dedupN_In u l : In u (dedupN l) <-> In u l.
Proof.
  induction l as [|x l IH]; cbn; [tauto|].
  destruct (memN x l) eqn:E.
  - rewrite IH. split; [auto|]. intros [->|H]; [apply memN_In; exact E|exact H].
  - cbn. rewrite IH. tauto.
Qed.

Lemma dedupN_NoDup l : NoDup (dedupN l).
Proof.
  induction l as [|x l IH]; cbn; [constructor|].
  destruct (memN x l) eqn:E; [exact IH|].
  constructor; [|exact IH]. rewrite dedupN_In. intros H. apply memN_In in H. congruence.
Qed.

Lemma uuid_oid_In ids u : (exists oid, uuid_oid ids u = Some oid) <-> In u (map snd ids).
Proof.
  induction ids as [|[oid u'] ids IH]; cbn.
  - split; [intros [o H]; discriminate|tauto].
  - destruct (N.eqb u u') eqn:E.
    + apply N.eqb_eq in E. subst. split; [auto|eauto].
    + rewrite IH. split; [auto|]. intros [X|X]; [|exact X].
      subst. rewrite N.eqb_refl in E. discriminate.
Qed.

Lemma is_indexed_In ix u : is_indexed ix u = true <-> In u (indexed_uuids ix).
Proof.
  unfold is_indexed, indexed_uuids. rewrite <- uuid_oid_In.
  destruct (uuid_oid (oi_ids ix) u) as [oid|]; split; intros H; eauto; try discriminate.
  destruct H as [o H]. discriminate.
Qed.

Lemma disk_uuids_In d u : In u (disk_uuids d) <-> exists f c, In (f, c) (d_files d) /\ fn_uuid f = u.
Proof.
  unfold disk_uuids. rewrite dedupN_In, in_map_iff. split.
  - intros [[f c] [E H]]. exists f, c. auto.
  - intros [f [c [H E]]]. exists (f, c). auto.
Qed.

(* the two inclusions computed by Schema.control *)
Lemma control_sets_iff ix on_disk :
  forallb (fun u => is_indexed ix u) on_disk && forallb (fun u => memN u on_disk) (indexed_uuids ix) = true <->
  (forall u, In u on_disk <-> In u (indexed_uuids ix)).
Proof.
  rewrite andb_true_iff, !forallb_forall. split.
  - intros [A B] u. split; intros H.
    + apply is_indexed_In, A, H.
    + apply memN_In, B, H.
  - intros H. split; intros u Hu.
    + apply is_indexed_In, H, Hu.
    + apply memN_In, H, Hu.
Qed.

Theorem control_mem_iff ls m d :
  control_mem ls m d = None <->
  (m_shape m = ls /\ oi_control (m_idx m) = true /\
   (forall u, In u (disk_uuids d) <-> In u (indexed_uuids (m_idx m)))).
Proof.
  unfold control_mem. destruct (N.eqb (m_shape m) ls) eqn:Es; cbn [negb].
  - apply N.eqb_eq in Es. destruct (oi_control (m_idx m)) eqn:Ec; cbn [negb].
    + destruct (forallb _ _ && forallb _ _) eqn:Eb.
      * pose proof (proj1 (control_sets_iff _ _) Eb) as Hb. tauto.
      * split; [discriminate|]. intros [_ [_ H]]. apply (proj2 (control_sets_iff _ _)) in H. congruence.
    + split; [discriminate|]. intros [_ [H _]]. discriminate.
  - apply N.eqb_neq in Es. split; [discriminate|]. intros [H _]. congruence.
Qed.
Print Assumptions control_mem_iff.

Theorem control_mem_corrupted_iff ls m d :
  control_mem ls m d = Some ECorrupted <->
  (m_shape m = ls /\ oi_control (m_idx m) = true /\
   ~ (forall u, In u (disk_uuids d) <-> In u (indexed_uuids (m_idx m)))).
Proof.
  unfold control_mem. destruct (N.eqb (m_shape m) ls) eqn:Es; cbn [negb].
  - apply N.eqb_eq in Es. destruct (oi_control (m_idx m)) eqn:Ec; cbn [negb].
    + destruct (forallb _ _ && forallb _ _) eqn:Eb.
      * pose proof (proj1 (control_sets_iff _ _) Eb) as Hb. split; [discriminate|]. intros [_ [_ H]]. contradiction.
      * split; [|reflexivity]. intros _. repeat split; [exact Es|].
        intros H. apply (proj2 (control_sets_iff _ _)) in H. congruence.
    + split; [discriminate|]. intros [_ [H _]]. discriminate.
  - apply N.eqb_neq in Es. split; [discriminate|]. intros [H _]. congruence.
Qed.
Print Assumptions control_mem_corrupted_iff.

(* the remaining two outcomes, for completeness: the checks are made in this order *)
Theorem control_mem_structure_iff ls m d : control_mem ls m d = Some EStructure <-> m_shape m <> ls.
Proof.
  unfold control_mem. destruct (N.eqb (m_shape m) ls) eqn:Es; cbn [negb].
  - apply N.eqb_eq in Es. split; [|congruence]. repeat break_match; discriminate.
  - apply N.eqb_neq in Es. tauto.
Qed.

Theorem control_mem_inconsistent_iff ls m d :
  control_mem ls m d = Some EInconsistent <-> (m_shape m = ls /\ oi_control (m_idx m) = false).
Proof.
  unfold control_mem. destruct (N.eqb (m_shape m) ls) eqn:Es; cbn [negb].
  - apply N.eqb_eq in Es. destruct (oi_control (m_idx m)); cbn [negb].
    + split; [repeat break_match; discriminate|]. intros [_ H]; discriminate.
    + tauto.
  - apply N.eqb_neq in Es. split; [discriminate|]. intros [H _]. congruence.
Qed.

Theorem control_mem_range ls m d e :
  control_mem ls m d = Some e -> e = EStructure \/ e = EInconsistent \/ e = ECorrupted.
Proof. unfold control_mem. repeat break_match; intros H; inv H; auto. Qed.

(* ---------------------------------------------------------------- 2d: Control has no effect *)

Theorem control_no_effect hk ls s : fst (step_fg hk ls s OControl) = s.
Proof. cbn [step_fg]. destruct (h_mem (s_h s)); reflexivity. Qed.
Print Assumptions control_no_effect.

Theorem control_result hk ls s :
  snd (step_fg hk ls s OControl) =
  match h_mem (s_h s) with
  | None => RUnit (Ok tt)
  | Some m => RUnit (lift_e (control_mem ls m (w_disk (s_w s))))
  end.
Proof. cbn [step_fg]. destruct (h_mem (s_h s)); reflexivity. Qed.

(* ---------------------------------------------------------------- examples *)

(* a non-trivial case table: "a" and "A" map to ("A", "a"); everything else is left alone *)
Definition cases_aA : list (list N * (list N * list N)) :=
  [([97%N], ([65%N], [97%N])); ([65%N], ([65%N], [97%N]))].
Definition hkc : hooks := mk_hooks cases_aA [].

Lemma hkc_up s : hk_up hkc s = if str_eqb s [97%N] then [65%N] else if str_eqb s [65%N] then [65%N] else s.
Proof. cbn. destruct (str_eqb s [97%N]); [reflexivity|]. destruct (str_eqb s [65%N]); reflexivity. Qed.
Lemma hkc_lo s : hk_lo hkc s = if str_eqb s [97%N] then [97%N] else if str_eqb s [65%N] then [97%N] else s.
Proof. cbn. destruct (str_eqb s [97%N]); [reflexivity|]. destruct (str_eqb s [65%N]); reflexivity. Qed.

Example hkc_laws : up_idem hkc /\ lo_idem hkc /\ lo_up_idem hkc.
Proof.
  repeat split; intros s; rewrite ?hkc_up, ?hkc_lo;
    destruct (str_eqb s [97%N]) eqn:E1; try reflexivity;
    destruct (str_eqb s [65%N]) eqn:E2; try reflexivity;
    rewrite ?hkc_up, ?hkc_lo, ?E1, ?E2; try reflexivity;
    rewrite ?hkc_up, ?hkc_lo, ?E1, ?E2; try reflexivity;
    rewrite ?hkc_up, ?hkc_lo, ?E1, ?E2; reflexivity.
Qed.

Example hk0_laws : up_idem hk0 /\ lo_idem hk0 /\ lo_up_idem hk0.
Proof. repeat split; intros s; reflexivity. Qed.

Definition fd_s : fdesc := {| fd_kind := KdStr; fd_index := true; fd_unique := false; fd_upper := true; fd_lower := true |}.
Definition obs (s : list N) : obj := {| o_keys := [KStr s]; o_rest := 0%N |}.
Definition sy1 : state := run hkc 7%N init_state [OCreate default_settings [fd_s]; OInsert 0 1 (obs [65%N])].

(* the stored key is the canonical one, and probing with "A" or with its canonical form "a"
   finds it *)
Example prepare_obj_canonical_ex :
  exists m, h_mem (s_h sy1) = Some m /\ nth_error (m_fields m) 0 = Some fd_s /\
    nth_error (o_keys (prepare_obj hkc m (obs [65%N]))) 0 = Some (KStr [97%N]).
Proof. eexists. split; [vm_lhs|]. split; vm_lhs. Qed.

Example search_probe_canonical_ex :
  exists m, h_mem (s_h sy1) = Some m /\ nth_opt 0 (m_fields m) = Some fd_s /\
    canon_key hkc fd_s (KStr [65%N]) = KStr [97%N] /\
    sr_fields (snd (search_with hkc (s_h sy1) m (w_disk (s_w sy1)) (Some 0%nat) OpEq (KStr [65%N]) None))
    = [(KStr [97%N], 0%N)].
Proof. eexists. split; [vm_lhs|]. split; [vm_lhs|]. split; vm_lhs. Qed.

(* control: a consistent state, and one where a file was removed behind sod's back *)
Example control_mem_iff_ex :
  exists m, h_mem (s_h sx1) = Some m /\ control_mem 7%N m (w_disk (s_w sx1)) = None.
Proof. eexists. split; vm_lhs. Qed.

Example control_mem_corrupted_ex :
  let s := run hk0 7%N sx1 [XRmFile 1] in
  exists m, h_mem (s_h s) = Some m /\ control_mem 7%N m (w_disk (s_w s)) = Some ECorrupted /\
    step_fg hk0 7%N s OControl = (s, RUnit (Err ECorrupted)).
Proof. eexists. split; [vm_lhs|]. split; vm_lhs. Qed.
