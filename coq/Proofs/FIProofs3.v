From Coq Require Import List Arith Lia Bool PeanoNat ZArith.
Import ListNotations.
From Sod.Model Require Import FieldIndex.
From Sod.Proofs Require Import FIProofs1 FIProofs2.
Open Scope Z_scope.

Section Proofs3.
Variable K : Type.
Variable ltb eqb : K -> K -> bool.
Hypothesis lt_irrefl : forall a, ltb a a = false.
Hypothesis lt_trans : forall a b c, ltb a b = true -> ltb b c = true -> ltb a c = true.
Hypothesis lt_negtrans : forall a b c, ltb a b = false -> ltb b c = false -> ltb a c = false.
Hypothesis eq_def : forall a b, eqb a b = negb (ltb a b) && negb (ltb b a).

Notation entry := (entry K).
Notation at_ := (at_ K).
Notation len := (len K).
Notation slice := (slice K).
Notation sorted_desc := (sorted_desc K ltb).
Notation gtb := (gtb K ltb eqb).

Lemma above_gt l k p q ep eq_ : sorted_desc l -> (p < q)%nat ->
  nth_error l p = Some ep -> nth_error l q = Some eq_ ->
  ltb k (fst eq_) = true -> ltb k (fst ep) = true.
Proof.
  intros Hs Hpq Hp Hq Hk. destruct (ltb k (fst ep)) eqn:E; [reflexivity|].
  pose proof (Hs p q ep eq_ Hpq Hp Hq) as Hd.
  rewrite (lt_negtrans _ _ _ E Hd) in Hk. discriminate.
Qed.

Lemma gtb_is a k : gtb a k = ltb k a.
Proof. apply (gtb_ltb K ltb eqb lt_irrefl lt_trans eq_def). Qed.

(* ---------- = and != ---------- *)
Lemma range_equal_spec l k : sorted_desc l ->
  exists i r, range_equal K ltb eqb l k = Some (i, r - 1) /\ 0 <= i <= r /\ r <= len l /\
    filter (fun e => eqb (fst e) k) l = firstn (Z.to_nat r - Z.to_nat i) (skipn (Z.to_nat i) l) /\
    filter (fun e => negb (eqb (fst e) k)) l = firstn (Z.to_nat i) l ++ skipn (Z.to_nat r) l.
Proof.
  intros Hs. destruct (insertion_index_spec K ltb lt_negtrans l k Hs) as [r [Hr [Hb [Hlo Hhi]]]].
  unfold range_equal. rewrite Hr.
  destruct (scan_down_spec K (fun x => eqb x k) (S (length l)) l (r - 1)) as [i' [Hsc [Bi [A1 A2]]]].
  { lia. } { unfold FieldIndex.len in Hb. lia. }
  rewrite Hsc. exists (i' + 1), r. split; [reflexivity|]. split; [lia|]. split; [lia|].
  assert (Hb1 : (Z.to_nat (i' + 1) <= Z.to_nat r)%nat) by lia.
  assert (Hb2 : (Z.to_nat r <= length l)%nat) by (unfold FieldIndex.len in Hb; lia).
  apply (filter_3split K (fun e => eqb (fst e) k) l _ _ Hb1 Hb2).
  - intros p e Hp He. assert (Hi0 : 0 <= i') by lia.
    destruct (A2 Hi0) as [e' [He' Pe']]. cbn in Pe'.
    assert (Hnl : ltb (fst e') k = false) by (apply (Hlo (Z.to_nat i') e'); [lia|exact He']).
    rewrite eq_def, Hnl in Pe'. cbn in Pe'. apply negb_false_iff in Pe'.
    assert (Hk : ltb k (fst e) = true).
    { destruct (Nat.eq_dec p (Z.to_nat i')) as [->|Hne]; [congruence|].
      apply (above_gt l k p (Z.to_nat i') e e' Hs); [lia|assumption|assumption|assumption]. }
    rewrite eq_def, Hk. cbn. apply andb_false_r.
  - intros p e Hp He. apply (A1 p e); [lia|exact He].
  - intros p e Hp He. rewrite eq_def. rewrite (Hhi p e); [reflexivity|lia|exact He].
Qed.

Theorem search_eq_spec l k : sorted_desc l ->
  search_eq K ltb eqb l k = Some (filter (fun e => eqb (fst e) k) l).
Proof.
  intros Hs. destruct (range_equal_spec l k Hs) as [i [r [Hre [Hi [Hr [F _]]]]]].
  unfold search_eq. rewrite Hre. unfold FieldIndex.entry in *. rewrite F.
  assert (Hsl : slice l i (r - 1 + 1) = Some (firstn (Z.to_nat r - Z.to_nat i) (skipn (Z.to_nat i) l))).
  { replace (r - 1 + 1) with r by lia. apply (slice_spec K); lia. }
  match goal with |- (if ?c then _ else _) = _ => destruct c eqn:E end; [|exact Hsl].
  apply andb_true_iff in E. destruct E as [E1 E2]. apply Z.eqb_eq in E1.
  destruct (at_in K l i) as [e [He _]]; [lia|]. rewrite He.
  rewrite <- Hsl. symmetry. replace (r - 1 + 1) with (i + 1) by lia. apply (slice_single K). exact He.
Qed.

Theorem search_ne_spec l k : sorted_desc l ->
  search_ne K ltb eqb l k = Some (filter (fun e => negb (eqb (fst e) k)) l).
Proof.
  intros Hs. destruct (range_equal_spec l k Hs) as [i [r [Hre [Hi [Hr [_ F]]]]]].
  unfold search_ne. rewrite Hre. unfold FieldIndex.entry in *. rewrite F.
  rewrite (slice_spec K l 0 i) by lia.
  replace (r - 1 + 1) with r by lia.
  rewrite (slice_spec K l r (len l)) by lia.
  cbn [Z.to_nat skipn]. rewrite Nat.sub_0_r.
  f_equal. f_equal. unfold FieldIndex.len. rewrite Nat2Z.id.
  apply firstn_all2. rewrite skipn_length. apply Nat.le_refl.
Qed.

(* ---------- > and <= ---------- *)
Lemma scan_gt_spec l k : sorted_desc l ->
  exists r i', insertion_index K ltb l k = Some r /\
    scan_down K (fun x => negb (gtb x k)) (S (length l)) l
      (if last_index K l <? r then r - 1 else r) = Some i' /\
    -1 <= i' < len l /\
    filter (fun e => gtb (fst e) k) l = firstn (Z.to_nat (i' + 1)) l /\
    filter (fun e => negb (gtb (fst e) k)) l = skipn (Z.to_nat (i' + 1)) l.
Proof.
  intros Hs. destruct (insertion_index_spec K ltb lt_negtrans l k Hs) as [r [Hr [Hb [Hlo Hhi]]]].
  exists r. set (i1 := if last_index K l <? r then r - 1 else r).
  assert (Hi1 : -1 <= i1 < len l /\ (i1 = r \/ i1 = len l - 1)).
  { unfold i1, last_index. destruct (len l - 1 <? r) eqn:E.
    - apply Z.ltb_lt in E. lia.
    - apply Z.ltb_ge in E. lia. }
  destruct Hi1 as [Hi1 Hi1'].
  destruct (scan_down_spec K (fun x => negb (gtb x k)) (S (length l)) l i1) as [i' [Hsc [Bi [A1 A2]]]].
  { lia. } { unfold FieldIndex.len in Hi1. lia. }
  exists i'. split; [exact Hr|]. split; [exact Hsc|]. split; [lia|].
  assert (Hb2 : (Z.to_nat (i' + 1) <= length l)%nat) by (unfold FieldIndex.len in Hi1; lia).
  destruct (filter_3split K (fun e => gtb (fst e) k) l 0%nat (Z.to_nat (i' + 1)) ltac:(lia) Hb2) as [F1 F2].
  - intros p e Hp. lia.
  - intros p e Hp He. assert (Hi0 : 0 <= i') by lia.
    destruct (A2 Hi0) as [e' [He' Pe']]. cbn in Pe'. apply negb_false_iff in Pe'.
    rewrite gtb_is in Pe'. rewrite gtb_is.
    destruct (Nat.eq_dec p (Z.to_nat i')) as [->|Hne]; [congruence|].
    apply (above_gt l k p (Z.to_nat i') e e' Hs); [lia|assumption|assumption|assumption].
  - intros p e Hp He.
    destruct (Z_le_gt_dec (Z.of_nat p) i1) as [Hle|Hgt].
    + pose proof (A1 p e ltac:(lia) He) as X. cbn in X. apply negb_true_iff in X. exact X.
    + assert (Hpr : r <= Z.of_nat p).
      { destruct Hi1' as [->| ->]; [lia|].
        assert (nth_error l p <> None) by congruence. apply nth_error_Some in H.
        unfold FieldIndex.len in Hgt. lia. }
      rewrite gtb_is. apply (lt_asym K ltb lt_irrefl lt_trans). apply (Hhi p e Hpr He).
  - cbn [skipn firstn app] in F1, F2. rewrite Nat.sub_0_r in F1. split; assumption.
Qed.

Theorem search_gt_spec l k : sorted_desc l ->
  search_gt K ltb eqb l k = Some (filter (fun e => gtb (fst e) k) l).
Proof.
  intros Hs. destruct (scan_gt_spec l k Hs) as [r [i' [Hr [Hsc [Bi [F _]]]]]].
  unfold search_gt. rewrite Hr, Hsc. unfold FieldIndex.entry in *. rewrite F.
  assert (Hsl : slice l 0 (i' + 1) = Some (firstn (Z.to_nat (i' + 1)) l)).
  { rewrite (slice_spec K) by lia. cbn [Z.to_nat skipn]. rewrite Nat.sub_0_r. reflexivity. }
  match goal with |- (if ?c then _ else _) = _ => destruct c eqn:E end; [|exact Hsl].
  apply andb_true_iff in E. destruct E as [E E3]. apply andb_true_iff in E. destruct E as [E1 E2].
  apply Z.eqb_eq in E1. subst i'.
  destruct (at_ l 0) as [e|] eqn:He; [|discriminate].
  rewrite <- Hsl. symmetry. apply (slice_single K l 0 e He).
Qed.

Theorem search_le_spec l k : sorted_desc l ->
  search_le K ltb eqb l k = Some (filter (fun e => ltb (fst e) k || eqb (fst e) k) l).
Proof.
  intros Hs. destruct (scan_gt_spec l k Hs) as [r [i' [Hr [Hsc [Bi [_ F]]]]]].
  unfold search_le. rewrite Hr, Hsc.
  rewrite (filter_ext _ (fun e => negb (gtb (fst e) k)))
    by (intros e; apply (le_as K ltb eqb lt_irrefl lt_trans eq_def)).
  unfold FieldIndex.entry in *. rewrite F.
  rewrite (slice_spec K) by lia. f_equal.
  unfold FieldIndex.len. rewrite Nat2Z.id.
  apply firstn_all2. rewrite skipn_length. apply Nat.le_refl.
Qed.

End Proofs3.

(* instantiate at Z: no hypothesis left *)
Definition Zsearch_eq_spec := search_eq_spec Z Z.ltb Z.eqb.
Check Zsearch_eq_spec.
