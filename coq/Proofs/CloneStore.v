(* Proofs/CloneStore.v: C14 as an invariant over HISTORIES: a store (the cache / the pending-write
   store of sod.go) that clones on the way in and on the way out, used by a caller who keeps
   mutating, through any cell it knows, the objects it passed in and the objects it got back.
   Whatever the caller does, every read returns the content of the last value stored. *)
From Coq Require Import List ZArith NArith Bool Lia Arith.
Import ListNotations.
From Sod.Model Require Import Clone.
From Sod.Proofs Require Import CloneProofs.

(* the store: uuid -> private clone; the cells it owns are the identities [lo, nxt) handed out by
   the clones made on the way IN; [nxt] is the allocator's next free identity *)
Record cstore := { cs_map : list (N * gv); cs_owned : list (N * N); cs_nxt : loc }.

Definition owned (s : cstore) (l : loc) : Prop := exists a b, In (a, b) (cs_owned s) /\ (a <= l < b)%N.

Fixpoint cassoc (u : N) (m : list (N * gv)) : option gv :=
  match m with [] => None | (k, v) :: r => if N.eqb u k then Some v else cassoc u r end.
Fixpoint cput (u : N) (v : gv) (m : list (N * gv)) : list (N * gv) :=
  match m with
  | [] => [(u, v)]
  | (k, x) :: r => if N.eqb u k then (u, v) :: r else (k, x) :: cput u v r
  end.

(* objectMap.put: the store keeps a clone *)
Definition st_put (s : cstore) (u : N) (v : gv) : cstore :=
  let c := clone (size v) v (cs_nxt s) in
  {| cs_map := cput u (fst c) (cs_map s); cs_owned := (cs_nxt s, snd c) :: cs_owned s; cs_nxt := snd c |}.

(* objectMap.get: the caller receives a clone; its cells are the caller's *)
Definition st_get (s : cstore) (u : N) : option gv * cstore :=
  match cassoc u (cs_map s) with
  | None => (None, s)
  | Some c => let r := clone (size c) c (cs_nxt s) in
              (Some (fst r), {| cs_map := cs_map s; cs_owned := cs_owned s; cs_nxt := snd r |})
  end.

(* a write by the caller to cell l, wherever that cell occurs *)
Definition st_mut (s : cstore) (l : loc) (f : gv -> gv) : cstore :=
  {| cs_map := map (fun p => (fst p, mutate l f (snd p))) (cs_map s); cs_owned := cs_owned s; cs_nxt := cs_nxt s |}.

Inductive cop := CPut (u : N) (v : gv) | CGet (u : N) | CMut (l : loc) (f : gv -> gv).

(* the discipline of the outside world: values handed to the store are built from cells that
   exist (below the allocator) and that the store does not own, and hold no pointer below an
   unexported field (the documented exception of cloneValue); the caller writes only to cells the
   store does not own: it has no way to name them, they are never handed out *)
Definition cop_ok (s : cstore) (o : cop) : Prop :=
  match o with
  | CPut _ v => unexp_locs v = [] /\ forall l, In l (locs false v) -> (l < cs_nxt s)%N /\ ~ owned s l
  | CGet _ => True
  | CMut l _ => ~ owned s l
  end.

Definition cstep (s : cstore) (o : cop) : cstore :=
  match o with
  | CPut u v => st_put s u v
  | CGet u => snd (st_get s u)
  | CMut l f => st_mut s l f
  end.

(* invariant: every cell of every stored value is owned by the store; owned ranges lie below the
   allocator *)
Definition CInv (s : cstore) : Prop :=
  (forall u c l, cassoc u (cs_map s) = Some c -> In l (locs false c) -> owned s l) /\
  (forall a b, In (a, b) (cs_owned s) -> (b <= cs_nxt s)%N).

Lemma cassoc_cput u v k m : cassoc k (cput u v m) = if N.eqb k u then Some v else cassoc k m.
Proof.
  induction m as [|[x y] r IH]; cbn [cput cassoc].
  - destruct (N.eqb k u); reflexivity.
  - destruct (N.eqb u x) eqn:E; cbn [cassoc].
    + apply N.eqb_eq in E. subst x. destruct (N.eqb k u); reflexivity.
    + rewrite IH. destruct (N.eqb k u) eqn:E2; [|reflexivity].
      apply N.eqb_eq in E2. subst k. rewrite E. reflexivity.
Qed.

Lemma cassoc_map_mut l f u m : cassoc u (map (fun p : N * gv => (fst p, mutate l f (snd p))) m) = option_map (mutate l f) (cassoc u m).
Proof. induction m as [|[x y] r IH]; cbn; [reflexivity|]. destruct (N.eqb u x); [reflexivity|exact IH]. Qed.

Lemma CInv_step s o : CInv s -> cop_ok s o -> CInv (cstep s o).
Proof.
  intros [I1 I2] Hok. destruct o as [u v|u|l f]; cbn [cstep cop_ok] in *.
  - (* put *)
    destruct Hok as [Hu Hv]. unfold st_put.
    pose proof (clone_supply (size v) v (cs_nxt s) (le_n _)) as Hs.
    split; cbn [cs_map cs_owned cs_nxt].
    + intros k c l Hc Hl. rewrite cassoc_cput in Hc. destruct (N.eqb k u).
      * inversion Hc; subst c. destruct (clone_all_locs (size v) v (cs_nxt s) (le_n _) l Hl) as [Hr|Hr].
        -- exists (cs_nxt s), (snd (clone (size v) v (cs_nxt s))). split; [left; reflexivity|exact Hr].
        -- rewrite Hu in Hr. destruct Hr.
      * destruct (I1 k c l Hc Hl) as [a [b [Hin Hr]]]. exists a, b. split; [right; exact Hin|exact Hr].
    + intros a b [H|H]; [inversion H; subst; lia|]. pose proof (I2 a b H). lia.
  - (* get *)
    unfold st_get. destruct (cassoc u (cs_map s)) as [c|] eqn:E; cbn [snd]; [|split; assumption].
    pose proof (clone_supply (size c) c (cs_nxt s) (le_n _)) as Hs.
    split; cbn [cs_map cs_owned cs_nxt]; [exact I1|]. intros a b H. pose proof (I2 a b H). lia.
  - (* caller's write: no stored value contains the cell *)
    unfold st_mut. split; cbn [cs_map cs_owned cs_nxt]; [|exact I2].
    intros k c l0 Hc Hl. rewrite cassoc_map_mut in Hc. destruct (cassoc k (cs_map s)) as [c0|] eqn:E; [|discriminate].
    cbn in Hc. inversion Hc; subst c. rewrite mutate_outside in Hl; [apply (I1 k c0 l0 E Hl)|].
    intros Hin. apply Hok. apply (I1 k c0 l E Hin).
Qed.

(* the abstract content of the store: identities erased *)
Definition content (s : cstore) (u : N) : option gv := option_map erase (cassoc u (cs_map s)).

(* one step on the abstract content: only Put changes it *)
Theorem content_step s o k : CInv s -> cop_ok s o ->
  content (cstep s o) k =
  match o with
  | CPut u v => if N.eqb k u then Some (erase v) else content s k
  | _ => content s k
  end.
Proof.
  intros [I1 I2] Hok. unfold content. destruct o as [u v|u|l f]; cbn [cstep].
  - unfold st_put. cbn [cs_map]. rewrite cassoc_cput. destruct (N.eqb k u); [|reflexivity].
    cbn. f_equal. apply clone_erase. apply le_n.
  - unfold st_get. destruct (cassoc u (cs_map s)); reflexivity.
  - unfold st_mut. cbn [cs_map]. rewrite cassoc_map_mut. destruct (cassoc k (cs_map s)) as [c|] eqn:E; [|reflexivity].
    cbn. f_equal. f_equal. apply mutate_outside. intros Hin. apply Hok. apply (I1 k c l E Hin).
Qed.

(* what a read returns: the content, in cells that are nobody else's *)
Theorem get_returns_content s u : CInv s ->
  option_map erase (fst (st_get s u)) = content s u /\
  (forall r l, fst (st_get s u) = Some r -> In l (locs true r) -> (cs_nxt s <= l)%N /\ ~ owned s l).
Proof.
  intros [I1 I2]. unfold st_get, content. destruct (cassoc u (cs_map s)) as [c|] eqn:E; cbn [fst option_map].
  - split; [f_equal; apply clone_erase; apply le_n|]. intros r l Hr Hl. inversion Hr; subst r.
    pose proof (clone_fresh (size c) c (cs_nxt s) (le_n _) l Hl) as Hf. split; [lia|].
    intros [a [b [Hin Hab]]]. pose proof (I2 a b Hin). lia.
  - split; [reflexivity|]. intros r l Hr. discriminate.
Qed.

(* HISTORIES: the content after any sequence of puts, gets and caller writes is the fold of the
   puts alone; every later read of u returns the content of the last value stored under u *)
Fixpoint spec_content (ops : list cop) (m : N -> option gv) : N -> option gv :=
  match ops with
  | [] => m
  | CPut u v :: r => spec_content r (fun k => if N.eqb k u then Some (erase v) else m k)
  | _ :: r => spec_content r m
  end.

Fixpoint cops_ok (s : cstore) (ops : list cop) : Prop :=
  match ops with [] => True | o :: r => cop_ok s o /\ cops_ok (cstep s o) r end.

Theorem store_isolated_histories : forall ops s, CInv s -> cops_ok s ops ->
  CInv (fold_left cstep ops s) /\
  forall k, content (fold_left cstep ops s) k = spec_content ops (content s) k.
Proof.
  induction ops as [|o r IH]; intros s I Hok; [split; [exact I|reflexivity]|].
  destruct Hok as [Ho Hr]. cbn [fold_left]. destruct (IH (cstep s o) (CInv_step s o I Ho) Hr) as [I' C'].
  split; [exact I'|]. intros k. rewrite C'.
  assert (E : forall m1 m2, (forall j, m1 j = m2 j) -> spec_content r m1 k = spec_content r m2 k).
  { clear. induction r as [|o r IH]; intros m1 m2 H; [apply H|]. destruct o; cbn [spec_content]; try (apply IH; exact H).
    apply IH. intros j. destruct (N.eqb j u); [reflexivity|apply H]. }
  destruct o as [u v|u|l f]; cbn [spec_content]; apply E; intros j; rewrite (content_step s _ j I Ho); reflexivity.
Qed.
Print Assumptions store_isolated_histories.

Definition cs_init : cstore := {| cs_map := []; cs_owned := []; cs_nxt := 1000%N |}.
Lemma CInv_init : CInv cs_init.
Proof. split; [intros u c l H; discriminate|intros a b []]. Qed.

(* non-vacuity: store a value holding a slice of pointers inside a struct, mutate the original
   through its pointer, read, mutate what was read, read again: the content never moves *)
Definition cx_val : gv := GStruct [(true, GSlice (Some (1%N, [GPtr (Some (2%N, GScalar 7%Z))]))); (true, GScalar 3%Z)].
Example store_isolated_example :
  let ops := [CPut 5%N cx_val; CMut 2%N (fun _ => GPtr (Some (2%N, GScalar 99%Z))); CGet 5%N;
              CMut 1003%N (fun _ => GPtr None); CMut 1%N (fun _ => GSlice None); CGet 5%N] in
  cops_ok cs_init ops /\
  content (fold_left cstep ops cs_init) 5%N = Some (erase cx_val).
Proof.
  cbv zeta. split; [|vm_compute; reflexivity].
  assert (Hno : forall s l, (forall a b, In (a, b) (cs_owned s) -> ~ (a <= l < b)%N) -> ~ owned s l)
    by (intros s l H [a [b [Hin Hr]]]; apply (H a b Hin Hr)).
  cbn [cops_ok cop_ok]. repeat split; try exact I; try reflexivity.
  - vm_compute in H. destruct H as [<-|[<-|[]]]; reflexivity.
  - intros [a [b [[] _]]].
  - apply Hno. intros a b Hin. vm_compute in Hin. destruct Hin as [Hin|[]]. inversion Hin; subst. lia.
  - apply Hno. intros a b Hin. vm_compute in Hin. destruct Hin as [Hin|[]]. inversion Hin; subst. lia.
  - apply Hno. intros a b Hin. vm_compute in Hin. destruct Hin as [Hin|[]]. inversion Hin; subst. lia.
Qed.
