(* Proofs/Listed.v: WHICH directory entries uuidsFromDir lists, and under which uuid: exactly the
   names that start with a well-shaped uuid, under that uuid (utils.go uuidExt + sod.go uuidRegexp;
   definitions in Model/Layout.v). The listing never invents an identifier and never skips a name
   that starts with one, whatever follows the 36th byte. *)
From Coq Require Import List NArith Arith Bool Lia.
Import ListNotations.
From Sod.Model Require Import Base Layout.
From Sod.Proofs Require Import Names.

Lemma uuid_ext_app u sfx : length u = 36 -> uuid_ext (u ++ sfx) = (u, sfx).
Proof. intros L. unfold uuid_ext. rewrite app_length, L.
  replace (36 <=? 36 + _) with true by (symmetry; apply Nat.leb_le; lia).
  rewrite (firstn_app_exact u _ 36 L), (skipn_app_exact u _ 36 L). reflexivity. Qed.

Theorem listed_uuid_iff name u :
  listed_uuid name = Some u <-> uuid_shaped u = true /\ exists sfx, name = u ++ sfx.
Proof. split.
  - unfold listed_uuid, uuid_ext. pose proof (firstn_skipn 36 name) as FS.
    remember (firstn 36 name) as f eqn:Hf. remember (skipn 36 name) as r eqn:Hr. clear Hf Hr.
    destruct (36 <=? length name) eqn:L; unfold fst; cbv beta iota.
    + destruct (uuid_shaped f) eqn:S; [|discriminate]. intros E. injection E as <-.
      split; [exact S|]. exists r. symmetry. exact FS.
    + destruct (uuid_shaped name) eqn:S; [|discriminate]. intros E. injection E as <-.
      split; [exact S|]. exists []. symmetry. apply app_nil_r.
  - intros [S [sfx ->]]. unfold listed_uuid. rewrite (uuid_ext_app u sfx (uuid_shaped_length u S)).
    unfold fst; cbv beta iota. rewrite S. reflexivity. Qed.

Theorem not_listed_iff name :
  listed_uuid name = None <-> forall u sfx, name = u ++ sfx -> uuid_shaped u = false.
Proof. split.
  - intros N u sfx E. destruct (uuid_shaped u) eqn:S; [|reflexivity].
    assert (L : listed_uuid name = Some u) by (apply listed_uuid_iff; split; [exact S | exists sfx; exact E]).
    rewrite N in L. discriminate.
  - intros H. destruct (listed_uuid name) as [u|] eqn:L; [|reflexivity].
    apply listed_uuid_iff in L as [S [sfx E]]. rewrite (H u sfx E) in S. discriminate. Qed.

(* two entries listed under one uuid differ only after the 36th byte: the object file and a stray
   "<uuid>~" or "<uuid>.json.gz" beside it are ONE identifier for the directory scan *)
Theorem listed_same_uuid_share_prefix n1 n2 u :
  listed_uuid n1 = Some u -> listed_uuid n2 = Some u -> firstn 36 n1 = firstn 36 n2.
Proof. intros L1 L2. apply listed_uuid_iff in L1 as [S [s1 ->]]. apply listed_uuid_iff in L2 as [_ [s2 ->]].
  pose proof (uuid_shaped_length u S) as L. rewrite (firstn_app_exact u s1 36 L), (firstn_app_exact u s2 36 L). reflexivity. Qed.

(* a listed uuid is 36 bytes of hexadecimal digits and dashes: nothing else reaches the index as an id *)
Theorem listed_uuid_length name u : listed_uuid name = Some u -> length u = 36.
Proof. intros L. apply listed_uuid_iff in L as [S _]. apply uuid_shaped_length. exact S. Qed.

Example listed_example :
  listed_uuid (ex_uuid ++ [46; 98; 97; 107]%N) = Some ex_uuid /\      (* "<uuid>.bak" *)
  listed_uuid (tl ex_uuid ++ [48]%N) = None /\                         (* 36 bytes, dashes misplaced *)
  listed_uuid ([120]%N ++ ex_uuid) = None.                             (* a prefixed name *)
Proof. repeat split; reflexivity. Qed.
