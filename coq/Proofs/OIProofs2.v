(* Proofs/OIProofs2.v: object index, continued (see Proofs/OIProofs.v for the invariant and
   insert_or_update): delete, control, reload, search in terms of objects, and batch
   validation ("validated => the insertion loop never fails"); examples by computation. *)
From Coq Require Import List ZArith NArith Bool Lia Permutation Arith.
Import ListNotations.
From Sod.Model Require Import Base FieldIndex ObjIndex.
From Sod.Proofs Require Import FIProofs1 FIProofs2 FIProofs3 FIProofs4 FIProofs5 KeyOrder SearchSpec OIProofs.
Close Scope Z_scope.

(* ------------------------------------------------------------------ 6. delete *)

Lemma del_cases fds ix u oid : OIInv fds ix -> uuid_oid (oi_ids ix) u = Some oid ->
  exists fx', oi_delete ix u =
                Some {| oi_next := oi_next ix; oi_ids := remove_key oid (oi_ids ix); oi_fx := fx' |} /\
              fx_rel (fun _ l l' => l' = kdel l oid) (oi_fx ix) fx'.
Proof.
  intros I E. unfold oi_delete. rewrite E.
  assert (Hin : In oid (map fst (oi_ids ix))) by (apply uuid_oid_In in E; apply (in_ids_fst _ _ _ E)).
  destruct (fx_delete_pure oid (oi_fx ix)) as [fx' [Hfx' Hrel]].
  { intros i l Hl. apply (field_delete (oi_ids ix) l oid (inv_fields _ _ I i l Hl) Hin). }
  rewrite Hfx'. exists fx'. split; [reflexivity|exact Hrel].
Qed.

Lemma filter_all {A} (P : A -> bool) (l : list A) : (forall x, In x l -> P x = true) -> filter P l = l.
Proof.
  induction l as [|a l IH]; intros H; cbn [filter]; [reflexivity|].
  rewrite (H a (or_introl eq_refl)). f_equal. apply IH. intros x Hx. apply H. right. exact Hx.
Qed.

(* removing the object id = removing the uuid *)
Lemma remove_key_by_uuid fds ix u oid : OIInv fds ix -> In (oid, u) (oi_ids ix) ->
  remove_key oid (oi_ids ix) = filter (fun p => negb (N.eqb (snd p) u)) (oi_ids ix).
Proof.
  intros I Hin. unfold remove_key. apply filter_ext_in. intros [a b] Hp. cbn [fst snd]. f_equal.
  destruct (N.eqb a oid) eqn:E1; destruct (N.eqb b u) eqn:E2; try reflexivity; exfalso.
  - apply N.eqb_eq in E1. apply N.eqb_neq in E2. subst a. apply E2.
    apply (ids_same_oid fds ix oid b u I Hp Hin).
  - apply N.eqb_neq in E1. apply N.eqb_eq in E2. subst b. apply E1.
    apply (ids_same_uuid fds ix a oid u I Hp Hin).
Qed.

(* deleting an absent uuid is the identity *)
Theorem oi_delete_absent ix u : is_indexed ix u = false -> oi_delete ix u = Some ix.
Proof.
  unfold is_indexed, oi_delete. destruct (uuid_oid (oi_ids ix) u); [discriminate|reflexivity].
Qed.
Print Assumptions oi_delete_absent.

(* THE SPECIFICATION of objIndex.deleteByUUID *)
Theorem oi_delete_spec fds ix u : OIInv fds ix ->
  exists ix', oi_delete ix u = Some ix' /\        (* never panics *)
    OIInv fds ix' /\ is_indexed ix' u = false /\
    (forall u' ks', u' <> u -> (holds ix' u' ks' <-> holds ix u' ks')) /\
    (forall i u' k, entry_of ix' i u' k <-> u' <> u /\ entry_of ix i u' k) /\
    oi_ids ix' = filter (fun p => negb (N.eqb (snd p) u)) (oi_ids ix) /\
    oi_ids ix' = match uuid_oid (oi_ids ix) u with
                 | Some oid => remove_key oid (oi_ids ix)
                 | None => oi_ids ix
                 end /\
    oi_next ix' = oi_next ix /\
    length (oi_fx ix') = length (oi_fx ix) /\
    (forall i, nth_error (oi_fx ix) i = Some None -> nth_error (oi_fx ix') i = Some None) /\
    (forall i l, nth_error (oi_fx ix) i = Some (Some l) ->
       nth_error (oi_fx ix') i =
         Some (Some (match uuid_oid (oi_ids ix) u with
                     | Some oid => del_pure key l oid
                     | None => l
                     end))).
Proof.
  intros I. destruct (uuid_oid (oi_ids ix) u) as [oid|] eqn:E.
  - destruct (del_cases fds ix u oid I E) as [fx' [Hdel Hrel]].
    pose proof (uuid_oid_In _ _ _ E) as Hin.
    set (ix' := {| oi_next := oi_next ix; oi_ids := remove_key oid (oi_ids ix); oi_fx := fx' |}) in *.
    assert (I' : OIInv fds ix').
    { apply (inv_step fds ix _ _ fx' _ I Hrel).
      - apply NoDup_map_filter. apply (inv_oid_nodup _ _ I).
      - apply NoDup_map_filter. apply (inv_uuid_nodup _ _ I).
      - intros o Ho. apply remove_key_fst_In in Ho. apply (inv_lt_next _ _ I). apply Ho.
      - intros i l l' Hl ->.
        apply (field_delete (oi_ids ix) l oid (inv_fields _ _ I i l Hl) (in_ids_fst _ _ _ Hin)). }
    assert (Hids : forall o' u', In (o', u') (oi_ids ix') <-> In (o', u') (oi_ids ix) /\ u' <> u).
    { intros o' u'. unfold ix'. cbn [oi_ids]. rewrite remove_key_In. cbn [fst]. split.
      - intros [H1 H2]. split; [exact H1|]. intros ->. apply H2.
        apply (ids_same_uuid fds ix o' oid u I H1 Hin).
      - intros [H1 H2]. split; [exact H1|]. intros ->. apply H2.
        apply (ids_same_oid fds ix oid u' u I H1 Hin). }
    assert (Hoth : forall o' u', In (o', u') (oi_ids ix) -> u' <> u -> o' <> oid).
    { intros o' u' H1 H2 ->. apply H2. apply (ids_same_oid fds ix oid u' u I H1 Hin). }
    exists ix'. split; [exact Hdel|]. split; [exact I'|]. split; [|split; [|split; [|split; [|split]]]].
    + apply is_indexed_false. intros Hu. apply in_map_iff in Hu. destruct Hu as [[o' u'] [Hu Hp]].
      cbn in Hu. subst u'. apply Hids in Hp. destruct Hp as [_ Hp]. apply Hp. reflexivity.
    + intros u' ks' Hne. unfold holds. split.
      * intros [o' [Ho' Hall]]. apply Hids in Ho'. destruct Ho' as [Ho' _].
        exists o'. split; [exact Ho'|]. intros i l Hl.
        destruct (fx_rel_fwd _ _ _ i l Hrel Hl) as [l' [Hl' ->]].
        destruct (Hall i _ Hl') as [k [Hk Hink]]. exists k. split; [exact Hk|].
        apply del_pure_In in Hink. apply Hink.
      * intros [o' [Ho' Hall]]. exists o'. split; [apply Hids; split; assumption|].
        intros i l' Hl'. destruct (fx_rel_bwd _ _ _ i l' Hrel Hl') as [l [Hl ->]].
        destruct (Hall i l Hl) as [k [Hk Hink]]. exists k. split; [exact Hk|].
        apply del_pure_In. split; [exact Hink|]. cbn [snd]. apply (Hoth o' u' Ho' Hne).
    + intros i u' k. unfold entry_of. split.
      * intros [o' [l' [Ho' [Hl' Hink]]]]. apply Hids in Ho'. destruct Ho' as [Ho' Hne].
        split; [exact Hne|]. destruct (fx_rel_bwd _ _ _ i l' Hrel Hl') as [l [Hl ->]].
        exists o', l. split; [exact Ho'|]. split; [exact Hl|]. apply del_pure_In in Hink. apply Hink.
      * intros [Hne [o' [l [Ho' [Hl Hink]]]]].
        destruct (fx_rel_fwd _ _ _ i l Hrel Hl) as [l' [Hl' ->]].
        exists o', (kdel l oid). split; [apply Hids; split; assumption|]. split; [exact Hl'|].
        apply del_pure_In. split; [exact Hink|]. cbn [snd]. apply (Hoth o' u' Ho' Hne).
    + unfold ix'. cbn [oi_ids]. apply (remove_key_by_uuid fds ix u oid I Hin).
    + reflexivity.
    + split; [reflexivity|]. split; [apply (fx_rel_length _ _ _ Hrel)|]. split.
      * intros i Hn. specialize (Hrel i). rewrite Hn in Hrel. exact Hrel.
      * intros i l Hl. destruct (fx_rel_fwd _ _ _ i l Hrel Hl) as [l' [Hl' ->]]. exact Hl'.
  - assert (Hni : is_indexed ix u = false) by (unfold is_indexed; rewrite E; reflexivity).
    exists ix. split; [apply oi_delete_absent; exact Hni|]. split; [exact I|]. split; [exact Hni|].
    apply is_indexed_false in Hni.
    split; [intros u' ks' _; reflexivity|]. split; [|split; [|split; [|split; [|split; [|split]]]]].
    + intros i u' k. split.
      * intros H. split; [|exact H]. intros ->. destruct H as [o' [l [Ho' _]]].
        apply Hni. apply (in_ids_snd _ _ _ Ho').
      * intros [_ H]. exact H.
    + symmetry. apply filter_all. intros [a b] Hp. cbn [snd]. apply negb_true_iff. apply N.eqb_neq.
      intros ->. apply Hni. apply (in_ids_snd _ _ _ Hp).
    + reflexivity.
    + reflexivity.
    + reflexivity.
    + intros i Hn. exact Hn.
    + intros i l Hl. exact Hl.
Qed.
Print Assumptions oi_delete_spec.

Theorem unique_preserved_delete fds ix u ix' : OIInv fds ix -> UniqueOK fds ix ->
  oi_delete ix u = Some ix' -> UniqueOK fds ix'.
Proof.
  intros I U Hdel.
  destruct (oi_delete_spec fds ix u I) as [ix2 [Hdel2 [_ [_ [_ [_ [_ [_ [_ [Hlen [Hn Hf]]]]]]]]]]].
  assert (Hix2 : ix2 = ix') by congruence. subst ix2.
  intros i d l' e1 e2 Hd Hu Hl' H1 H2 Heq.
  destruct (nth_error (oi_fx ix) i) as [[l|]|] eqn:El.
  - pose proof (Hf i l El) as Hl2. rewrite Hl' in Hl2. injection Hl2 as ->.
    assert (Hsub : forall e, In e (match uuid_oid (oi_ids ix) u with
                                   | Some oid => del_pure key l oid | None => l end) -> In e l).
    { intros e. destruct (uuid_oid (oi_ids ix) u); [|intros H; exact H].
      intros H. apply del_pure_In in H. apply H. }
    apply (U i d l e1 e2 Hd Hu El (Hsub _ H1) (Hsub _ H2) Heq).
  - rewrite (Hn i El) in Hl'. discriminate.
  - apply nth_error_None in El.
    assert (Hnone : nth_error (oi_fx ix') i = None) by (apply nth_error_None; lia). congruence.
Qed.
Print Assumptions unique_preserved_delete.

(* ------------------------------------------------------------------ 7. control *)

Lemma memN_In' u l : memN u l = true <-> In u l.
Proof.
  unfold memN. rewrite existsb_exists. split.
  - intros [x [Hx He]]. apply N.eqb_eq in He. subst. exact Hx.
  - intros H. exists u. split; [exact H|apply N.eqb_refl].
Qed.

Lemma nodupN_iff l : nodupN l = true <-> NoDup l.
Proof.
  induction l as [|x r IH]; cbn [nodupN].
  - split; [constructor|reflexivity].
  - rewrite andb_true_iff, negb_true_iff, IH. split.
    + intros [Hn Hr]. constructor; [|exact Hr]. intros Hin. apply memN_In' in Hin. congruence.
    + intros H. inversion H as [|? ? Hn Hr]; subst. split; [|exact Hr].
      destruct (memN x r) eqn:E; [|reflexivity]. apply memN_In' in E. contradiction.
Qed.

(* the invariant implies the check run on every loaded index *)
Theorem control_of_inv fds ix : OIInv fds ix -> oi_control ix = true.
Proof.
  intros I. unfold oi_control. apply andb_true_iff. split.
  { apply nodupN_iff. apply (inv_uuid_nodup _ _ I). }
  apply forallb_forall. intros o Ho. destruct o as [l|]; [|reflexivity].
  apply In_nth_error in Ho. destruct Ho as [i Hi].
  destruct (inv_fields _ _ I i l Hi) as [Hs [Hnd Hoids]].
  rewrite !andb_true_iff. split; [split; [split|]|].
  - apply key_control_iff_sorted. exact Hs.
  - apply Nat.eqb_eq.
    assert (P : Permutation (key_oids l) (map fst (oi_ids ix)))
      by (apply NoDup_Permutation; [exact Hnd|apply (inv_oid_nodup _ _ I)|exact Hoids]).
    apply Permutation_length in P. unfold oids in P. rewrite !map_length in P. exact P.
  - apply nodupN_iff. exact Hnd.
  - apply forallb_forall. intros e He. apply memN_In'. apply Hoids. unfold oids. apply in_map. exact He.
Qed.
Print Assumptions control_of_inv.

(* THE CONVERSE (what the load-time check buys, C19): an index that passes control, whose object-id
   table has distinct keys (it was decoded from a JSON object into a Go map), has distinct uuids and
   every field index is well formed with respect to the id table: ordered, one entry per stored
   object id, no entry of an unknown id *)
Theorem control_true_wf ix : oi_control ix = true -> NoDup (map fst (oi_ids ix)) ->
  NoDup (map snd (oi_ids ix)) /\
  forall i l, nth_error (oi_fx ix) i = Some (Some l) -> fx_wf (oi_ids ix) l.
Proof.
  intros H Hk. unfold oi_control in H. apply andb_true_iff in H. destruct H as [Hu Hf].
  split; [apply nodupN_iff; exact Hu|]. intros i l Hl.
  pose proof (proj1 (forallb_forall _ _) Hf (Some l) (nth_error_In _ _ Hl)) as Hc. cbn beta iota in Hc.
  rewrite !andb_true_iff in Hc. destruct Hc as [[[H1 H2] H3] H4].
  apply key_control_iff_sorted in H1. apply Nat.eqb_eq in H2. apply nodupN_iff in H3.
  assert (Hincl : incl (key_oids l) (map fst (oi_ids ix))).
  { intros oid Hin. unfold oids in Hin. apply in_map_iff in Hin. destruct Hin as [e [<- He]].
    apply memN_In'. apply (proj1 (forallb_forall _ _) H4 e He). }
  split; [exact H1|]. split; [exact H3|]. intros oid. split; [apply Hincl|].
  apply (NoDup_length_incl H3); [|exact Hincl]. unfold oids. rewrite !map_length. apply Nat.eq_le_incl. symmetry. exact H2.
Qed.
Print Assumptions control_true_wf.

Theorem control_true_partial ix : oi_control ix = true ->
  forall i l, nth_error (oi_fx ix) i = Some (Some l) -> key_sorted l /\ length l = length (oi_ids ix).
Proof.
  intros H i l Hl. unfold oi_control in H. apply andb_true_iff in H. destruct H as [_ H].
  pose proof (proj1 (forallb_forall _ _) H (Some l) (nth_error_In _ _ Hl)) as Hc. cbn beta iota in Hc.
  rewrite !andb_true_iff in Hc. destruct Hc as [[[H1 H2] _] _]. split.
  - apply key_control_iff_sorted. exact H1.
  - apply Nat.eqb_eq. exact H2.
Qed.
Print Assumptions control_true_partial.

(* ------------------------------------------------------------------ 8. reload *)

Lemma fold_max_ge : forall (ids : list (N * N)) m,
  (m <= fold_left (fun m p => N.max m (fst p)) ids m)%N /\
  (forall oid, In oid (map fst ids) -> (oid <= fold_left (fun m p => N.max m (fst p)) ids m)%N).
Proof.
  induction ids as [|p r IH]; intros m; cbn [fold_left map].
  - split; [lia|intros oid []].
  - destruct (IH (N.max m (fst p))) as [H1 H2]. split; [lia|].
    intros oid [Ho|Ho]; [subst oid; lia|apply H2; exact Ho].
Qed.

(* every id of the table is below the counter rebuilt on load *)
Lemma max_oid_lt ids oid : In oid (map fst ids) -> (oid < N.succ (max_oid ids))%N.
Proof.
  intros H. unfold max_oid. destruct (fold_max_ge ids 0%N) as [_ H2]. specialize (H2 oid H). lia.
Qed.

(* whatever the stored counter was: distinct columns and well-formed field indexes are enough *)
Theorem reload_inv_gen fds ix :
  NoDup (map fst (oi_ids ix)) -> NoDup (map snd (oi_ids ix)) ->
  Forall2 (fun d o => (fd_indexed d = true <-> o <> None)) fds (oi_fx ix) ->
  (forall i l, nth_error (oi_fx ix) i = Some (Some l) -> fx_wf (oi_ids ix) l) ->
  OIInv fds (oi_reload ix).
Proof.
  intros H1 H2 H3 H4. constructor; cbn [oi_reload oi_ids oi_next oi_fx]; try assumption.
  intros oid Ho. apply max_oid_lt. exact Ho.
Qed.
Print Assumptions reload_inv_gen.

Theorem reload_inv fds ix : OIInv fds ix -> OIInv fds (oi_reload ix).
Proof.
  intros I. apply reload_inv_gen; [apply (inv_oid_nodup _ _ I)|apply (inv_uuid_nodup _ _ I)|
                                   apply (inv_shape _ _ I)|apply (inv_fields _ _ I)].
Qed.
Print Assumptions reload_inv.

(* the ids of the STORED objects are never handed out again after a reload, and the table is
   unchanged *)
Corollary reload_fresh ix oid : In oid (map fst (oi_ids ix)) -> (oid < oi_next (oi_reload ix))%N.
Proof. apply max_oid_lt. Qed.

Lemma reload_holds ix u ks : holds (oi_reload ix) u ks <-> holds ix u ks.
Proof. reflexivity. Qed.

(* the rebuilt counter is never above the old one (except 1 for a never-used index): the id
   of a DELETED object can be handed out again after a reload, see oiex_reload_reuse below *)
Lemma reload_next_le fds ix : OIInv fds ix -> (oi_next (oi_reload ix) <= N.max 1 (oi_next ix))%N.
Proof.
  intros I. cbn [oi_reload oi_next]. unfold max_oid.
  assert (H : forall (ids : list (N * N)) m b, (m < b)%N ->
              (forall oid, In oid (map fst ids) -> (oid < b)%N) ->
              (fold_left (fun m p => N.max m (fst p)) ids m < b)%N).
  { induction ids as [|p r IH]; intros m b Hm Hall; cbn [fold_left]; [exact Hm|].
    apply IH.
    - assert (fst p < b)%N by (apply Hall; left; reflexivity). lia.
    - intros oid Ho. apply Hall. right. exact Ho. }
  assert (H0 : (fold_left (fun m p => N.max m (fst p)) (oi_ids ix) 0 < N.max 1 (oi_next ix))%N).
  { apply H; [lia|]. intros oid Ho. pose proof (inv_lt_next _ _ I oid Ho). lia. }
  lia.
Qed.
Print Assumptions reload_next_le.

(* ------------------------------------------------------------------ 9. search *)

(* the operator dispatch on the index of an indexed field returns exactly the filter of that
   index by the operator's denotation, as a list (content, multiplicity and order) *)
Theorem search_exact fds ix i l o probe rxc m : OIInv fds ix ->
  nth_error (oi_fx ix) i = Some (Some l) -> o <> OpBad ->
  (o = OpRx -> rxc = Some m /\ exists s, probe = KStr s) ->
  fi_search l o probe rxc = Ok (filter (fun e => eval_op o m (fst e) probe) l).
Proof.
  intros I Hl Ho Hrx. destruct (inv_fields _ _ I i l Hl) as [Hs _].
  apply (fi_search_spec l o probe rxc m Hs Ho Hrx).
Qed.
Print Assumptions search_exact.

Lemma key_at_spec fds ix i l oid k : OIInv fds ix -> nth_error (oi_fx ix) i = Some (Some l) ->
  (key_at ix i oid = Some k <-> In (k, oid) l).
Proof.
  intros I Hl. destruct (inv_fields _ _ I i l Hl) as [_ [Hnd _]]. unfold key_at. rewrite Hl.
  unfold fi_find_oid. split.
  - intros H. destruct (find_oid key l oid) as [e|] eqn:F; [|discriminate].
    cbn in H. injection H as <-. apply (key_find_oid_spec l oid e Hnd) in F.
    destruct F as [Hin Hoid]. destruct e as [ke oe]. cbn in *. subst oe. exact Hin.
  - intros Hin. rewrite (proj2 (key_find_oid_spec l oid (k, oid) Hnd) (conj Hin eq_refl)). reflexivity.
Qed.

(* in terms of objects: (k, oid) is returned iff object oid is stored, its key for field i is
   k and k satisfies the operator; no object is returned twice; the result is ordered *)
Corollary search_objects fds ix i l o probe rxc m : OIInv fds ix ->
  nth_error (oi_fx ix) i = Some (Some l) -> o <> OpBad ->
  (o = OpRx -> rxc = Some m /\ exists s, probe = KStr s) ->
  exists r, fi_search l o probe rxc = Ok r /\
    (forall k oid, In (k, oid) r <->
       (exists u, oid_uuid ix oid = Some u) /\ key_at ix i oid = Some k /\ eval_op o m k probe = true) /\
    NoDup (key_oids r) /\ key_sorted r.
Proof.
  intros I Hl Ho Hrx. exists (filter (fun e => eval_op o m (fst e) probe) l).
  split; [apply (search_exact fds ix i l o probe rxc m I Hl Ho Hrx)|].
  destruct (inv_fields _ _ I i l Hl) as [Hs [Hnd Hoids]]. split; [|split].
  - intros k oid. rewrite filter_In. cbn [fst]. rewrite (key_at_spec fds ix i l oid k I Hl). split.
    + intros [Hin He]. split; [|split; assumption].
      destruct (entry_owner fds ix i l (k, oid) I Hl Hin) as [u Hu]. exists u.
      apply (oid_uuid_spec ix _ _ (inv_oid_nodup _ _ I)). exact Hu.
    + intros [_ [Hin He]]. split; assumption.
  - apply NoDup_oids_filter. exact Hnd.
  - apply key_filter_sorted. exact Hs.
Qed.
Print Assumptions search_objects.

(* ... and in terms of the abstract table: an object holding ks is returned for field i iff
   its key satisfies the operator *)
Corollary search_holds fds ix i l o probe rxc m u ks k oid : OIInv fds ix ->
  nth_error (oi_fx ix) i = Some (Some l) -> o <> OpBad ->
  (o = OpRx -> rxc = Some m /\ exists s, probe = KStr s) ->
  holds ix u ks -> nth_error ks i = Some k -> In (oid, u) (oi_ids ix) ->
  exists r, fi_search l o probe rxc = Ok r /\
    (In oid (key_oids r) <-> eval_op o m k probe = true) /\
    (forall k', In (k', oid) r -> k' = k).
Proof.
  intros I Hl Ho Hrx [oid' [Hin' Hall]] Hk Hin.
  assert (Hoid' : oid' = oid) by (apply (ids_same_uuid fds ix _ _ u I Hin' Hin)). subst oid'.
  destruct (Hall i l Hl) as [k0 [Hk0 Hink]]. assert (Hk0k : k0 = k) by congruence. subst k0.
  destruct (inv_fields _ _ I i l Hl) as [_ [Hnd _]].
  exists (filter (fun e => eval_op o m (fst e) probe) l).
  split; [apply (search_exact fds ix i l o probe rxc m I Hl Ho Hrx)|].
  assert (Honly : forall k', In (k', oid) l -> k' = k).
  { intros k' H'. pose proof (nodup_oid_inj key l (k', oid) (k, oid) Hnd H' Hink eq_refl) as E. congruence. }
  split.
  - split.
    + intros H. unfold oids in H. apply in_map_iff in H. destruct H as [[k' o'] [Ho' Hf]].
      cbn in Ho'. subst o'. apply filter_In in Hf. destruct Hf as [Hf He]. cbn [fst] in He.
      rewrite (Honly k' Hf) in He. exact He.
    + intros He. unfold oids. apply in_map_iff. exists (k, oid). split; [reflexivity|].
      apply filter_In. split; [exact Hink|exact He].
  - intros k' H'. apply filter_In in H'. apply Honly. apply H'.
Qed.
Print Assumptions search_holds.

(* ------------------------------------------------------------------ 10. batch validation *)

(* the loop "insert every member in order, stop at the first failure" *)
Fixpoint fold_iou (fds : list fdesc) (ix : oindex) (batch : list (N * list key)) : res oindex :=
  match batch with
  | [] => Ok ix
  | (u, ks) :: r =>
      match oi_insert_or_update fds ix ks u with
      | Ok ix' => fold_iou fds ix' r
      | Err e => Err e
      | Panic => Panic
      end
  end.

(* the relation kept by the two loops of InsertOrUpdateMany: the live index after j insertions
   is the scratch index after j insertions, plus the ORIGINAL cells of the objects the scratch
   index does not know *)
Definition BatchRel (live s cur : oindex) : Prop :=
  forall i u k, entry_of cur i u k <->
                entry_of s i u k \/ (~ In u (map snd (oi_ids s)) /\ entry_of live i u k).

Lemma BatchRel_init fds live : BatchRel live (new_index fds) live.
Proof.
  intros i u k. split.
  - intros H. right. split; [intros []|exact H].
  - intros [[oid [l [[] _]]]|[_ H]]. exact H.
Qed.

(* an entry of a field index that is not the object's own gives a cell of another object *)
Lemma conflict_cell fds ix ks u : OIInv fds ix -> conflict fds ix ks u ->
  exists i d k u', nth_error fds i = Some d /\ fd_unique d = true /\ nth_error ks i = Some k /\
                   u' <> u /\ entry_of ix i u' k.
Proof.
  intros I [i [d [l [k [[ke oe] [Hd [Hu [Hl [Hk [He [Hke Hou]]]]]]]]]]]. cbn [fst snd] in *.
  apply key_eqb_eq in Hke. subst ke.
  destruct (entry_owner fds ix i l (k, oe) I Hl He) as [u' Hu']. cbn [snd] in Hu'.
  exists i, d, k, u'. repeat split; try assumption.
  - intros ->. apply Hou. apply (oid_uuid_spec ix _ _ (inv_oid_nodup _ _ I)). exact Hu'.
  - exists oe, l. repeat split; assumption.
Qed.

Lemma cell_conflict fds ix ks u i d k u' : OIInv fds ix ->
  nth_error fds i = Some d -> fd_unique d = true -> nth_error ks i = Some k ->
  u' <> u -> entry_of ix i u' k -> conflict fds ix ks u.
Proof.
  intros I Hd Hu Hk Hne [oid [l [Hin [Hl Hink]]]].
  exists i, d, l, k, (k, oid). repeat split; try assumption.
  - cbn [fst]. apply key_eqb_eq. reflexivity.
  - cbn [snd]. intros Hou. apply (oid_uuid_spec ix _ _ (inv_oid_nodup _ _ I)) in Hou.
    apply Hne. apply (ids_same_oid fds ix oid u' u I Hin Hou).
Qed.

(* one step of the two loops *)
Lemma batch_step fds live s cur u ks s' :
  OIInv fds live -> OIInv fds s -> OIInv fds cur -> BatchRel live s cur -> keys_ok fds ks ->
  oi_insert_or_update fds s ks u = Ok s' ->
  oi_satisfy_all fds live ks u = Some true ->
  exists cur', oi_insert_or_update fds cur ks u = Ok cur' /\
               OIInv fds s' /\ OIInv fds cur' /\ BatchRel live s' cur'.
Proof.
  intros IL IS IC HR Hk Hs Hsat.
  destruct (iou_ok_core fds s ks u s' IS Hk Hs) as [Sids [Snext [Srel Snc]]].
  pose proof (iou_inv fds s ks u s' IS Sids Snext Srel) as IS'.
  destruct (insert_or_update_spec fds cur ks u IC Hk) as [_ [_ [_ [Hex _]]]].
  destruct Hex as [cur' Hcur'].
  { intros Hc. destruct (conflict_cell fds cur ks u IC Hc) as [i [d [k [u' [Hd [Hu [Hki [Hne Hcell]]]]]]]].
    apply HR in Hcell. destruct Hcell as [Hcell|[_ Hcell]].
    - apply Snc. apply (cell_conflict fds s ks u i d k u' IS Hd Hu Hki Hne Hcell).
    - destruct (satisfy_all_spec fds live ks u IL Hk) as [b [Hb Hiff]].
      assert (Hbt : b = true) by congruence. subst b.
      assert (Hf : true = false)
        by (apply Hiff; apply (cell_conflict fds live ks u i d k u' IL Hd Hu Hki Hne Hcell)).
      discriminate. }
  exists cur'. split; [exact Hcur'|]. split; [exact IS'|].
  destruct (iou_ok_core fds cur ks u cur' IC Hk Hcur') as [Cids [Cnext [Crel _]]].
  split; [apply (iou_inv fds cur ks u cur' IC Cids Cnext Crel)|].
  intros i u' k'.
  rewrite (iou_entry_of fds cur ks u cur' IC Cids Cnext Crel i u' k').
  rewrite (iou_entry_of fds s ks u s' IS Sids Snext Srel i u' k').
  rewrite Sids, (ids_after_uuids s u u').
  pose proof (same_shape fds cur s i IC IS) as Hsh. pose proof (HR i u' k') as HRi.
  destruct (N.eq_dec u' u) as [Heq|Hne]; tauto.
Qed.

(* BATCH ATOMICITY, index level: if the batch could be inserted member by member into an empty
   scratch index, and every member passed the unique check against the ORIGINAL live index
   (what Model/DB.v validate_batch checks), then inserting the batch member by member into the
   live index succeeds at every step.  The final index is described cell by cell. *)
Lemma validated_gen fds live : OIInv fds live ->
  forall batch s cur sfin,
  OIInv fds s -> OIInv fds cur -> BatchRel live s cur ->
  Forall (fun p => keys_ok fds (snd p)) batch ->
  fold_iou fds s batch = Ok sfin ->
  Forall (fun p => oi_satisfy_all fds live (snd p) (fst p) = Some true) batch ->
  exists fin, fold_iou fds cur batch = Ok fin /\ OIInv fds sfin /\ OIInv fds fin /\ BatchRel live sfin fin.
Proof.
  intros IL. induction batch as [|[u ks] r IH]; intros s cur sfin IS IC HR Hks Hfold Hsat.
  - cbn in Hfold. injection Hfold as <-. exists cur. split; [reflexivity|]. split; [exact IS|]. split; [exact IC|exact HR].
  - cbn [fold_iou] in Hfold |- *. inversion Hks as [|p r' Hk Hks']; subst.
    inversion Hsat as [|p r' Hs1 Hsat']; subst. cbn [fst snd] in Hk, Hs1.
    destruct (oi_insert_or_update fds s ks u) as [s'| |] eqn:Es; try discriminate.
    destruct (batch_step fds live s cur u ks s' IL IS IC HR Hk Es Hs1) as [cur' [Hc [IS' [IC' HR']]]].
    rewrite Hc. apply (IH s' cur' sfin IS' IC' HR' Hks' Hfold Hsat').
Qed.

(* the uuids a successful loop leaves in the index *)
Lemma fold_iou_uuids fds : forall batch ix ix', OIInv fds ix ->
  Forall (fun p => keys_ok fds (snd p)) batch -> fold_iou fds ix batch = Ok ix' ->
  forall u, In u (map snd (oi_ids ix')) <-> In u (map snd (oi_ids ix)) \/ In u (map fst batch).
Proof.
  induction batch as [|[u0 ks] r IH]; intros ix ix' I Hks Hfold u.
  - cbn in Hfold. injection Hfold as <-. cbn. tauto.
  - cbn [fold_iou] in Hfold. inversion Hks as [|p r' Hk Hks']; subst. cbn [snd] in Hk.
    destruct (oi_insert_or_update fds ix ks u0) as [ix1| |] eqn:E; try discriminate.
    destruct (iou_ok_core fds ix ks u0 ix1 I Hk E) as [Hids [Hnext [Hrel _]]].
    pose proof (iou_inv fds ix ks u0 ix1 I Hids Hnext Hrel) as I1.
    rewrite (IH ix1 ix' I1 Hks' Hfold u), Hids, (ids_after_uuids ix u0 u). cbn [map fst In].
    split; [intros [[H|H]|H]|intros [H|[H|H]]]; auto.
Qed.

(* invariant and uniqueness along a successful loop *)
Lemma fold_iou_inv fds : forall batch ix ix', OIInv fds ix ->
  Forall (fun p => keys_ok fds (snd p)) batch -> fold_iou fds ix batch = Ok ix' ->
  OIInv fds ix' /\ (UniqueOK fds ix -> UniqueOK fds ix').
Proof.
  induction batch as [|[u0 ks] r IH]; intros ix ix' I Hks Hfold.
  - cbn in Hfold. injection Hfold as <-. split; [exact I|intros H; exact H].
  - cbn [fold_iou] in Hfold. inversion Hks as [|p r' Hk Hks']; subst. cbn [snd] in Hk.
    destruct (oi_insert_or_update fds ix ks u0) as [ix1| |] eqn:E; try discriminate.
    destruct (iou_ok_core fds ix ks u0 ix1 I Hk E) as [Hids [Hnext [Hrel _]]].
    pose proof (iou_inv fds ix ks u0 ix1 I Hids Hnext Hrel) as I1.
    destruct (IH ix1 ix' I1 Hks' Hfold) as [I' HU]. split; [exact I'|].
    intros U. apply HU. apply (unique_preserved fds ix ks u0 ix1 I U Hk E).
Qed.

Theorem validated_never_fails fds live batch scratch :
  OIInv fds live ->
  Forall (fun p => keys_ok fds (snd p)) batch ->
  fold_iou fds (new_index fds) batch = Ok scratch ->
  Forall (fun p => oi_satisfy_all fds live (snd p) (fst p) = Some true) batch ->
  exists fin, fold_iou fds live batch = Ok fin /\ OIInv fds fin /\
    (UniqueOK fds live -> UniqueOK fds fin) /\
    (* the final index, cell by cell: the batch's objects as the scratch index has them (last
       write wins), every other object as it was *)
    (forall i u k, entry_of fin i u k <->
                   entry_of scratch i u k \/ (~ In u (map fst batch) /\ entry_of live i u k)).
Proof.
  intros IL Hks Hfold Hsat.
  destruct (validated_gen fds live IL batch (new_index fds) live scratch (new_index_inv fds) IL
              (BatchRel_init fds live) Hks Hfold Hsat) as [fin [Hfin [ISf [IF HR]]]].
  exists fin. split; [exact Hfin|]. split; [exact IF|].
  split; [apply (fold_iou_inv fds batch live fin IL Hks Hfin)|].
  intros i u k. rewrite (HR i u k).
  pose proof (fold_iou_uuids fds batch (new_index fds) scratch (new_index_inv fds) Hks Hfold u) as Hu.
  cbn [new_index oi_ids map] in Hu. cbn [In] in Hu. tauto.
Qed.
Print Assumptions validated_never_fails.

(* the validation loop in the shape of Model/DB.v validate_batch (scratch insertion and check
   against the live index interleaved, member by member) *)
Fixpoint validate_abs (fds : list fdesc) (live tmp : oindex) (batch : list (N * list key)) : res oindex :=
  match batch with
  | [] => Ok tmp
  | (u, ks) :: r =>
      match oi_insert_or_update fds tmp ks u with
      | Panic => Panic
      | Err e => Err e
      | Ok tmp' =>
          match oi_satisfy_all fds live ks u with
          | None => Panic
          | Some false => Err EUnique
          | Some true => validate_abs fds live tmp' r
          end
      end
  end.

Lemma validate_abs_ok fds live : forall batch tmp scratch,
  validate_abs fds live tmp batch = Ok scratch ->
  fold_iou fds tmp batch = Ok scratch /\
  Forall (fun p => oi_satisfy_all fds live (snd p) (fst p) = Some true) batch.
Proof.
  induction batch as [|[u ks] r IH]; intros tmp scratch H; cbn [validate_abs fold_iou] in *.
  - split; [exact H|constructor].
  - destruct (oi_insert_or_update fds tmp ks u) as [tmp'| |]; try discriminate.
    destruct (oi_satisfy_all fds live ks u) as [[|]|] eqn:E; try discriminate.
    destruct (IH tmp' scratch H) as [H1 H2]. split; [exact H1|]. constructor; [exact E|exact H2].
Qed.

Corollary validated_never_fails' fds live batch scratch :
  OIInv fds live -> Forall (fun p => keys_ok fds (snd p)) batch ->
  validate_abs fds live (new_index fds) batch = Ok scratch ->
  exists fin, fold_iou fds live batch = Ok fin /\ OIInv fds fin.
Proof.
  intros IL Hks Hv. destruct (validate_abs_ok fds live batch _ _ Hv) as [H1 H2].
  destruct (validated_never_fails fds live batch scratch IL Hks H1 H2) as [fin [Hf [IF _]]].
  exists fin. split; assumption.
Qed.
Print Assumptions validated_never_fails'.

(* ------------------------------------------------------------------ examples *)

Definition mkfd (k : kind) (ix un : bool) : fdesc :=
  {| fd_kind := k; fd_index := ix; fd_unique := un; fd_upper := false; fd_lower := false |}.

(* field 0: unique int; field 1: indexed string; field 2: not indexed *)
Definition oiex_fds : list fdesc := [mkfd KdInt false true; mkfd KdStr true false; mkfd KdInt false false].
Definition rec_ (a : Z) (s : N) (c : Z) : list key := [KInt a; KStr [s]; KInt c].

Definition oiex_batch : list (N * list key) :=
  [(100%N, rec_ 5 97 0); (101%N, rec_ 7 97 0); (102%N, rec_ 3 98 1)].

Definition oiex_ix : oindex :=
  {| oi_next := 3;
     oi_ids := [(0%N, 100%N); (1%N, 101%N); (2%N, 102%N)];
     oi_fx := [Some [(KInt 7, 1%N); (KInt 5, 0%N); (KInt 3, 2%N)];
               Some [(KStr [98%N], 2%N); (KStr [97%N], 0%N); (KStr [97%N], 1%N)];
               None] |}.

Example oiex_build : fold_iou oiex_fds (new_index oiex_fds) oiex_batch = Ok oiex_ix.
Proof. vm_compute. reflexivity. Qed.

Example oiex_keys_ok : Forall (fun p => keys_ok oiex_fds (snd p)) oiex_batch.
Proof. repeat constructor. Qed.

(* the invariant and uniqueness hold on the index built by three insertions (by the theorems) *)
Example oiex_inv : OIInv oiex_fds oiex_ix /\ UniqueOK oiex_fds oiex_ix.
Proof.
  destruct (fold_iou_inv oiex_fds oiex_batch (new_index oiex_fds) oiex_ix (new_index_inv oiex_fds) oiex_keys_ok oiex_build)
    as [I U].
  split; [exact I|]. apply U. apply new_index_unique.
Qed.
Print Assumptions oiex_inv.

Example oiex_control : oi_control oiex_ix = true.
Proof. vm_compute. reflexivity. Qed.

(* a new object with the value 5 of object 100 in the unique field is rejected *)
Example oiex_conflict : oi_insert_or_update oiex_fds oiex_ix (rec_ 5 99 2) 103%N = Err EUnique.
Proof. vm_compute. reflexivity. Qed.

Example oiex_conflict_by_thm : conflict oiex_fds oiex_ix (rec_ 5 99 2) 103%N.
Proof.
  destruct (insert_or_update_spec oiex_fds oiex_ix (rec_ 5 99 2) 103%N (proj1 oiex_inv) eq_refl)
    as [_ [H _]]. apply (H EUnique). exact oiex_conflict.
Qed.

(* so is an existing object taking another object's value *)
Example oiex_conflict_update : oi_insert_or_update oiex_fds oiex_ix (rec_ 5 99 2) 101%N = Err EUnique.
Proof. vm_compute. reflexivity. Qed.

(* re-saving object 100 with its own unique value succeeds: same id, entries re-inserted *)
Example oiex_resave :
  oi_insert_or_update oiex_fds oiex_ix (rec_ 5 99 2) 100%N =
  Ok {| oi_next := 3;
        oi_ids := [(0%N, 100%N); (1%N, 101%N); (2%N, 102%N)];
        oi_fx := [Some [(KInt 7, 1%N); (KInt 5, 0%N); (KInt 3, 2%N)];
                  Some [(KStr [99%N], 0%N); (KStr [98%N], 2%N); (KStr [97%N], 1%N)];
                  None] |}.
Proof. vm_compute. reflexivity. Qed.

(* a released value can be taken: 100 moves from 5 to 6, then the new object 103 takes 5 *)
Example oiex_released :
  fold_iou oiex_fds oiex_ix [(100%N, rec_ 6 97 0); (103%N, rec_ 5 97 0)] =
  Ok {| oi_next := 4;
        oi_ids := [(0%N, 100%N); (1%N, 101%N); (2%N, 102%N); (3%N, 103%N)];
        oi_fx := [Some [(KInt 7, 1%N); (KInt 6, 0%N); (KInt 5, 3%N); (KInt 3, 2%N)];
                  Some [(KStr [98%N], 2%N); (KStr [97%N], 1%N); (KStr [97%N], 0%N); (KStr [97%N], 3%N)];
                  None] |}.
Proof. vm_compute. reflexivity. Qed.

(* ... so is the value of a deleted object *)
Example oiex_delete :
  oi_delete oiex_ix 101%N =
  Some {| oi_next := 3;
          oi_ids := [(0%N, 100%N); (2%N, 102%N)];
          oi_fx := [Some [(KInt 5, 0%N); (KInt 3, 2%N)];
                    Some [(KStr [98%N], 2%N); (KStr [97%N], 0%N)];
                    None] |} /\
  oi_delete oiex_ix 999%N = Some oiex_ix.
Proof. split; vm_compute; reflexivity. Qed.

Example oiex_holds : holds oiex_ix 101%N (rec_ 7 97 12345) /\ key_at oiex_ix 0 1%N = Some (KInt 7).
Proof.
  split; [|vm_compute; reflexivity].
  exists 1%N. split; [cbn; tauto|]. intros [|[|[|i]]] l Hl; cbn in Hl; try discriminate.
  - injection Hl as <-. exists (KInt 7). split; [reflexivity|cbn; tauto].
  - injection Hl as <-. exists (KStr [97%N]). split; [reflexivity|cbn; tauto].
  - destruct i; discriminate.
Qed.

(* D7e of the pinned tree: this index, whose only entry belongs to no stored object (deleting uuid
   7 panics), used to pass control; the strengthened control of the current tree rejects it *)
Definition oiex_bad : oindex :=
  {| oi_next := 1; oi_ids := [(0%N, 7%N)]; oi_fx := [Some [(KInt 1, 5%N)]; Some [(KStr [], 5%N)]; None] |}.
Example oiex_ghost_id_rejected :
  oi_control oiex_bad = false /\ ~ OIInv oiex_fds oiex_bad /\ oi_delete oiex_bad 7%N = None.
Proof.
  split; [vm_compute; reflexivity|]. split; [|vm_compute; reflexivity].
  intros I. destruct (inv_fields _ _ I 0 [(KInt 1, 5%N)] eq_refl) as [_ [_ H]].
  specialize (proj1 (H 5%N) (or_introl eq_refl)). cbn. intros [Hc|[]]. discriminate.
Qed.
Print Assumptions oiex_ghost_id_rejected.

(* reload: the ids of stored objects stay reserved, but the id of a DELETED object with the
   largest id is handed out again (the counter is rebuilt from the table) *)
Example oiex_reload_reuse :
  match oi_delete oiex_ix 102%N with
  | Some ix1 => oi_next ix1 = 3%N /\ oi_next (oi_reload ix1) = 2%N /\
                match oi_insert_or_update oiex_fds (oi_reload ix1) (rec_ 9 97 0) 104%N with
                | Ok ix2 => oi_ids ix2 = [(0%N, 100%N); (1%N, 101%N); (2%N, 104%N)]
                | _ => False
                end
  | None => False
  end.
Proof. vm_compute. repeat split; reflexivity. Qed.

(* search on the unique field of the example: >= 5, in index (descending) order *)
Example oiex_search :
  fi_search [(KInt 7, 1%N); (KInt 5, 0%N); (KInt 3, 2%N)] OpGe (KInt 5) None =
  Ok [(KInt 7, 1%N); (KInt 5, 0%N)].
Proof. vm_compute. reflexivity. Qed.

(* batch validation at work: member 2 repeats member 1's unique value -> the scratch index
   rejects it, nothing is inserted *)
Example oiex_validate_reject :
  validate_abs oiex_fds oiex_ix (new_index oiex_fds) [(200%N, rec_ 10 97 0); (201%N, rec_ 10 97 0)] = Err EUnique.
Proof. vm_compute. reflexivity. Qed.

(* validation is SOUND (validated_never_fails) but not complete: 100 releases 5 and 103 takes
   it.  Inserting in order succeeds (oiex_released), yet validation rejects the batch because 103
   is checked against the ORIGINAL live index, where 100 still holds 5 *)
Example oiex_validate_spurious :
  validate_abs oiex_fds oiex_ix (new_index oiex_fds) [(100%N, rec_ 6 97 0); (103%N, rec_ 5 97 0)] = Err EUnique /\
  exists fin, fold_iou oiex_fds oiex_ix [(100%N, rec_ 6 97 0); (103%N, rec_ 5 97 0)] = Ok fin.
Proof. split; [vm_compute; reflexivity|]. eexists. exact oiex_released. Qed.

(* an accepted batch: 100 is rewritten twice (last write wins), 103 is new *)
Example oiex_validate_accept :
  exists scratch fin,
    validate_abs oiex_fds oiex_ix (new_index oiex_fds)
      [(100%N, rec_ 6 97 0); (103%N, rec_ 8 97 0); (100%N, rec_ 9 99 0)] = Ok scratch /\
    fold_iou oiex_fds oiex_ix [(100%N, rec_ 6 97 0); (103%N, rec_ 8 97 0); (100%N, rec_ 9 99 0)] = Ok fin /\
    oi_fx fin = [Some [(KInt 9, 0%N); (KInt 8, 3%N); (KInt 7, 1%N); (KInt 3, 2%N)];
                 Some [(KStr [99%N], 0%N); (KStr [98%N], 2%N); (KStr [97%N], 1%N); (KStr [97%N], 3%N)];
                 None].
Proof. eexists. eexists. split; [vm_compute; reflexivity|]. split; vm_compute; reflexivity. Qed.
