(* Proofs/Refine3.v: C01, part 3: the write side.  commit, insert_core, delete_core, the flushes and
   the flusher goroutines preserve the invariant and act on the finite map as put / remove /
   identity.  In a fault-free world none of them fails: the flusher never panics. *)
From Coq Require Import List ZArith NArith Bool Lia Arith.
Import ListNotations.
From Sod.Model Require Import Base FieldIndex ObjIndex DB.
From Sod.Proofs Require Import FIProofs1 FIProofs2 FIProofs3 FIProofs4 FIProofs5 KeyOrder SearchSpec
     OIProofs OIProofs2 DBBasic Refine1 Refine2.
Close Scope Z_scope.

(* ================================================================ the map as a list *)

Definition bindf (st : N -> option obj) (u : N) : list (N * obj) :=
  match st u with Some o => [(u, o)] | None => [] end.

Lemma bind_bindf pend d m : bind pend d m = bindf (stored pend d m).
Proof. reflexivity. Qed.

Lemma bindf_ext st st' us : (forall v, In v us -> st' v = st v) ->
  flat_map (bindf st') us = flat_map (bindf st) us.
Proof.
  induction us as [|v r IH]; intros H; [reflexivity|]. cbn [flat_map]. unfold bindf at 1 3.
  rewrite (H v (or_introl eq_refl)). f_equal. apply IH. intros x Hx. apply H. right. exact Hx.
Qed.

Lemma bindf_assoc_notin st us u : ~ In u us -> assoc u (flat_map (bindf st) us) = None.
Proof.
  intros Hn. apply assoc_None. intros H. apply in_map_iff in H. destruct H as [[v o] [Hv Hin]].
  cbn in Hv. subst v. apply in_flat_map in Hin. destruct Hin as [x [Hx Hin]]. unfold bindf in Hin.
  destruct (st x); [|destruct Hin]. destruct Hin as [Hin|[]]. inversion Hin; subst. exact (Hn Hx).
Qed.

(* updating a bound key: in place *)
Lemma bindf_put_in st st' u o : forall us, NoDup us -> In u us ->
  (forall v, st' v = if N.eqb v u then Some o else st v) -> st u <> None ->
  flat_map (bindf st') us = put u o (flat_map (bindf st) us).
Proof.
  induction us as [|v r IH]; intros Hnd Hin Hst Hu; [destruct Hin|].
  apply NoDup_cons_iff in Hnd. destruct Hnd as [Hv Hnd]. cbn [flat_map].
  destruct (N.eq_dec v u) as [->|Hne].
  - unfold bindf at 1 3. rewrite (Hst u), N.eqb_refl. destruct (st u) as [o0|] eqn:E; [|congruence].
    cbn [app put]. rewrite N.eqb_refl. f_equal. apply bindf_ext. intros x Hx. rewrite (Hst x).
    destruct (N.eqb x u) eqn:Ex; [|reflexivity]. apply N.eqb_eq in Ex. subst x. contradiction.
  - destruct Hin as [Hin|Hin]; [congruence|]. unfold bindf at 1 3. rewrite (Hst v).
    destruct (N.eqb v u) eqn:Ex; [apply N.eqb_eq in Ex; congruence|].
    destruct (st v) as [ov|]; cbn [app put].
    + rewrite N.eqb_sym, Ex. f_equal. apply IH; assumption.
    + apply IH; assumption.
Qed.

(* binding a new key: appended *)
Lemma bindf_put_new st st' u o us : ~ In u us ->
  (forall v, st' v = if N.eqb v u then Some o else st v) ->
  flat_map (bindf st') (us ++ [u]) = put u o (flat_map (bindf st) us).
Proof.
  intros Hn Hst. rewrite flat_map_app. cbn [flat_map]. unfold bindf at 2. rewrite (Hst u), N.eqb_refl.
  rewrite app_nil_r. rewrite (rf_put_notin u o _ (bindf_assoc_notin st us u Hn)). f_equal.
  apply bindf_ext. intros x Hx. rewrite (Hst x).
  destruct (N.eqb x u) eqn:Ex; [|reflexivity]. apply N.eqb_eq in Ex. subst x. contradiction.
Qed.

Lemma remove_key_app {B} k (a b : list (N * B)) : remove_key k (a ++ b) = remove_key k a ++ remove_key k b.
Proof. unfold remove_key. apply filter_app. Qed.

Lemma bindf_remove st st' u :
  (forall v, st' v = if N.eqb v u then None else st v) ->
  forall us, flat_map (bindf st') (filter (fun v => negb (N.eqb v u)) us) = remove_key u (flat_map (bindf st) us).
Proof.
  intros Hst. induction us as [|v r IH]; [reflexivity|]. cbn [filter flat_map]. rewrite remove_key_app.
  destruct (N.eqb v u) eqn:E; cbn [negb].
  - rewrite IH. apply N.eqb_eq in E. subst v. unfold bindf. destruct (st u); [|reflexivity].
    unfold remove_key at 2. cbn [filter fst]. rewrite N.eqb_refl. reflexivity.
  - cbn [flat_map]. rewrite IH. f_equal. unfold bindf. rewrite (Hst v), E. destruct (st v); [|reflexivity].
    unfold remove_key. cbn [filter fst]. rewrite E. reflexivity.
Qed.

Lemma map_snd_filter (ids : list (N * N)) u :
  map snd (filter (fun p => negb (N.eqb (snd p) u)) ids) = filter (fun v => negb (N.eqb v u)) (map snd ids).
Proof.
  induction ids as [|[a b] r IH]; [reflexivity|]. cbn [filter map snd].
  destruct (negb (N.eqb b u)); cbn [map snd]; rewrite IH; reflexivity.
Qed.

Lemma rf_In_assoc {B} (l : list (N * B)) k v : NoDup (map fst l) -> In (k, v) l -> assoc k l = Some v.
Proof.
  induction l as [|[k' v'] r IH]; intros Hnd Hin; [destruct Hin|]. cbn [map fst] in Hnd.
  apply NoDup_cons_iff in Hnd. destruct Hnd as [Hn Hnd]. cbn [assoc]. destruct Hin as [Hin|Hin].
  - inversion Hin; subst. rewrite N.eqb_refl. reflexivity.
  - destruct (N.eqb k k') eqn:E; [|apply IH; assumption].
    apply N.eqb_eq in E. subst k'. exfalso. apply Hn. apply in_map_iff. exists (k, v). split; [reflexivity|exact Hin].
Qed.

(* ================================================================ files of one collection *)

Lemma file_of_eqb m v u : fname_eqb (file_of m v) (file_of m u) = N.eqb v u.
Proof. unfold fname_eqb, file_of. cbn [fn_uuid fn_suffix]. rewrite rf_str_eqb_refl, andb_true_r. reflexivity. Qed.

Lemma rf_remove_absent f l : file_lookup f l = None -> file_remove f l = l.
Proof.
  unfold file_remove. induction l as [|[a c] l IH]; cbn [file_lookup filter fst]; [reflexivity|].
  destruct (fname_eqb f a); [discriminate|]. intros H. cbn [negb]. rewrite (IH H). reflexivity.
Qed.

Lemma stored_files pend d d' m u : d_files d' = d_files d -> stored pend d' m u = stored pend d m u.
Proof. intros H. unfold stored. rewrite H. reflexivity. Qed.

(* ================================================================ commit *)

Lemma commit_loaded ls h w m : h_mem h = Some m -> nofault w -> d_dir (w_disk w) = true ->
  exists h1 m1 w1, commit ls h w = (h1, None, w1) /\ h_mem h1 = Some m1 /\
    view_eq m m1 /\ m_idx m1 = m_idx m /\
    h_cache h1 = h_cache h /\ h_pend h1 = h_pend h /\ h_cancel h1 = h_cancel h /\ nofault w1 /\
    w_disk w1 = disk_set_schema (Some (SOk (sfile_of m1))) (w_disk w).
Proof.
  intros Hm Hn Hd. unfold commit.
  destruct (db_schema_on_loaded ls h (w_disk w) m Hm) as [h1 [m1 [A [B [V [Hix [C [D K]]]]]]]]. rewrite A.
  destruct (rf_save_schema w m1 Hn Hd) as [w1 [S1 [S2 S3]]]. rewrite S1.
  exists h1, m1, w1. splits; try assumption; reflexivity.
Qed.

Lemma core_commit ls c p d m : InvCore ls c p d m ->
  InvLoaded ls c p (disk_set_schema (Some (SOk (sfile_of m))) d) m.
Proof.
  intros I. split.
  - constructor; try (apply I).
    exists (sfile_of m). cbn. repeat split. apply (ic_shape _ _ _ _ _ I).
  - intros Ha. split; [apply (ic_sync _ _ _ _ _ I Ha)|]. exists (sfile_of m). cbn. repeat split.
Qed.

Lemma commit_ok ls h w m : h_mem h = Some m -> nofault w ->
  InvCore ls (h_cache h) (h_pend h) (w_disk w) m ->
  exists h1 w1, commit ls h w = (h1, None, w1) /\
    LState ls h1 w1 (m_fields m) (abs_of (h_pend h) (w_disk w) m) /\
    h_cancel h1 = h_cancel h /\ h_pend h1 = h_pend h /\ (h_pend h = [] -> synced_h h1 w1).
Proof.
  intros Hm Hn I.
  destruct (commit_loaded ls h w m Hm Hn (ic_dir _ _ _ _ _ I)) as [h1 [m1 [w1 [A [B [V [Hix [C [D [K [N1 W1]]]]]]]]]]].
  exists h1, w1. split; [exact A|].
  pose proof (view_core_same _ _ _ _ m m1 V Hix I) as I1.
  pose proof (core_commit _ _ _ _ _ I1) as L1.
  split; [|split; [exact K|split; [exact D|]]].
  - exists m1. split; [exact B|]. split; [exact N1|]. rewrite C, D, W1. split; [exact L1|].
    split; [apply V|]. rewrite <- (view_abs _ _ (h_pend h) (w_disk w) V). reflexivity.
  - intros Hp. unfold synced_h. rewrite B, D, W1. split; [exact Hp|]. exists (sfile_of m1). cbn. repeat split.
Qed.

(* ================================================================ the index after an insertion *)

Section Insert.
Variables (fds : list fdesc) (ix ix' : oindex) (ks : list key) (u : N).
Hypothesis IO : OIInv fds ix.
Hypothesis Hk : keys_ok fds ks.
Hypothesis Hok : oi_insert_or_update fds ix ks u = Ok ix'.

Lemma iou_ids : oi_ids ix' = ids_after ix u.
Proof. apply (iou_ok_core fds ix ks u ix' IO Hk Hok). Qed.

Lemma iou_indexed v : is_indexed ix' v = true <-> v = u \/ is_indexed ix v = true.
Proof. rewrite !is_indexed_true, iou_ids. apply ids_after_uuids. Qed.

Lemma iou_uuids : map snd (oi_ids ix') = if is_indexed ix u then map snd (oi_ids ix) else map snd (oi_ids ix) ++ [u].
Proof.
  rewrite iou_ids. unfold ids_after. destruct (is_indexed ix u); [reflexivity|]. rewrite map_app. reflexivity.
Qed.

Lemma iou_in_ids oid v : In (oid, v) (oi_ids ix') -> v <> u -> In (oid, v) (oi_ids ix).
Proof. rewrite iou_ids. intros H Hne. apply (ids_after_other ix u oid v Hne). exact H. Qed.

End Insert.

(* ================================================================ insert_core *)

Lemma insert_core_ok ls h w m u o fds a :
  h_mem h = Some m -> nofault w ->
  InvLoaded ls (h_cache h) (h_pend h) (w_disk w) m ->
  m_fields m = fds -> abs_of (h_pend h) (w_disk w) m = a ->
  keys_ok fds (o_keys o) ->
  exists h' r w', insert_core ls h w m u o true = (h', r, w') /\
    if negb (forallb serialisable (o_keys o)) then r = Err EJson /\ h' = h /\ w' = w
    else if uniq_conflict fds a u (o_keys o) then r = Err EUnique /\ h' = h /\ w' = w
    else r = Ok tt /\ LState ls h' w' fds (put u o a) /\ h_cancel h' = h_cancel h.
Proof.
  intros Hm Hn [I Hsy] Hf Ha Hk. subst fds a. unfold insert_core.
  destruct (negb (forallb serialisable (o_keys o))) eqn:Hser.
  { exists h, (Err EJson), w. split; [reflexivity|]. repeat split. }
  apply negb_false_iff in Hser.
  pose proof (ic_oi _ _ _ _ _ I) as IO.
  destruct (insert_or_update_spec (m_fields m) (m_idx m) (o_keys o) u IO Hk) as [_ [_ [Hconf [Hnconf Hsucc]]]].
  pose proof (conflict_iff ls _ _ _ m u (o_keys o) I) as Hci.
  destruct (uniq_conflict (m_fields m) (abs_of (h_pend h) (w_disk w) m) u (o_keys o)) eqn:Eu.
  { rewrite (Hconf (proj2 Hci eq_refl)). exists h, (Err EUnique), w. split; [reflexivity|]. repeat split. }
  destruct Hnconf as [ix' Hok]. { intros Hc. apply Hci in Hc. discriminate. }
  rewrite Hok.
  destruct (Hsucc ix' Hok) as [IO' [Hself [Hoth _]]].
  pose proof (unique_preserved _ _ _ _ _ IO (ic_uniq _ _ _ _ _ I) Hk Hok) as U'.
  pose proof (iou_indexed _ _ _ _ _ IO Hk Hok) as Hidx.
  pose proof (iou_uuids _ _ _ _ _ IO Hk Hok) as Huu.
  pose proof (iou_in_ids _ _ _ _ _ IO Hk Hok) as Hids.
  set (m1 := set_idx m ix').
  assert (Hself_idx : is_indexed ix' u = true) by (apply Hidx; left; reflexivity).
  assert (Hmono : forall v, is_indexed (m_idx m) v = true -> is_indexed ix' v = true)
    by (intros v Hv; apply Hidx; right; exact Hv).
  (* the map after the write, from the pointwise description of [stored] *)
  assert (Habs : forall pend' d',
            (forall v, stored pend' d' m1 v = if N.eqb v u then Some o else stored (h_pend h) (w_disk w) m v) ->
            abs_of pend' d' m1 = put u o (abs_of (h_pend h) (w_disk w) m)).
  { intros pend' d' Hst. unfold abs_of. rewrite !bind_bindf. unfold m1 at 2. cbn [set_idx m_idx]. rewrite Huu.
    destruct (is_indexed (m_idx m) u) eqn:Ei.
    - apply bindf_put_in; [apply (inv_uuid_nodup _ _ IO)|apply is_indexed_true; exact Ei|exact Hst|].
      destruct (ic_indexed_stored _ _ _ _ _ I u Ei) as [o0 S0]. congruence.
    - apply bindf_put_new; [apply is_indexed_false; exact Ei|exact Hst]. }
  (* the agreement clause after the write, same description *)
  assert (Hagree : forall pend' d',
            (forall v, stored pend' d' m1 v = if N.eqb v u then Some o else stored (h_pend h) (w_disk w) m v) ->
            forall oid v, In (oid, v) (oi_ids (m_idx m1)) ->
              exists o1, stored pend' d' m1 v = Some o1 /\ keys_ok (m_fields m1) (o_keys o1) /\
                         holds (m_idx m1) v (o_keys o1) /\ forallb serialisable (o_keys o1) = true).
  { intros pend' d' Hst oid v Hin. rewrite (Hst v). cbn [m1 set_idx m_idx m_fields] in *.
    destruct (N.eqb v u) eqn:E.
    - apply N.eqb_eq in E. subst v. exists o. repeat split; assumption.
    - apply N.eqb_neq in E. destruct (ic_agree _ _ _ _ _ I oid v (Hids oid v Hin E)) as [o1 [A [B [C D]]]].
      exists o1. repeat split; try assumption. apply (Hoth v (o_keys o1) E). exact C. }
  destruct (async_on m1) eqn:Easy.
  - (* asynchronous: pending store and cache *)
    assert (Hmc : must_cache m1 = true) by (unfold must_cache; rewrite Easy; apply orb_true_r).
    rewrite Hmc. cbn [set_cache set_mem set_pend h_cache h_pend h_mem].
    eexists. exists (Ok tt), w. split; [reflexivity|]. split; [reflexivity|]. split; [|reflexivity].
    assert (Hst : forall v, stored (put u o (h_pend h)) (w_disk w) m1 v =
                            if N.eqb v u then Some o else stored (h_pend h) (w_disk w) m v).
    { intros v. unfold stored. change (async_on m) with (async_on m1). rewrite Easy, rf_assoc_put.
      destruct (N.eqb v u); reflexivity. }
    exists m1. cbn [set_cache set_mem set_pend h_mem h_cache h_pend]. split; [reflexivity|]. split; [exact Hn|].
    split; [|split; [reflexivity|apply Habs; exact Hst]].
    split; [|intros Hc; congruence].
    constructor.
    + exact IO'.
    + exact U'.
    + apply (ic_shape _ _ _ _ _ I).
    + apply Hagree. exact Hst.
    + apply (ic_dir _ _ _ _ _ I).
    + intros f c Hin. destruct (ic_files _ _ _ _ _ I f c Hin) as [A [B C]].
      split; [exact A|]. split; [apply Hmono; exact B|exact C].
    + intros Hc. congruence.
    + intros v o1. rewrite !rf_assoc_put. destruct (N.eqb v u) eqn:E.
      * apply N.eqb_eq in E. subst v. intros H. inversion H; subst. split; [exact Hself_idx|reflexivity].
      * intros H. destruct (ic_pend _ _ _ _ _ I v o1 H) as [A B]. split; [apply Hmono; exact A|exact B].
    + apply rf_put_nodup. apply (ic_pnodup _ _ _ _ _ I).
    + intros v o1 _. rewrite Hst, rf_assoc_put. destruct (N.eqb v u); [intros H; exact H|].
      apply (ic_cache _ _ _ _ _ I v o1). exact Hmc.
    + intros Hc. congruence.
    + apply (ic_schema _ _ _ _ _ I).
  - (* synchronous: object file, then commit *)
    assert (Hp : h_pend h = []) by (apply (ic_sync _ _ _ _ _ I); exact Easy).
    destruct (rf_write_object w m1 u o Hn (ic_dir _ _ _ _ _ I) Hser) as [w1 [W1 [N1 D1]]]. rewrite W1.
    set (cache' := if must_cache m1 then put u o (h_cache h) else h_cache h).
    set (h2 := if must_cache m1 then set_cache (set_mem h (Some m1)) (put u o (h_cache (set_mem h (Some m1))))
               else set_mem h (Some m1)).
    assert (Hh2 : h_mem h2 = Some m1 /\ h_cache h2 = cache' /\ h_pend h2 = h_pend h /\ h_cancel h2 = h_cancel h).
    { unfold h2, cache'. destruct (must_cache m1); repeat split. }
    destruct Hh2 as [Hm2 [Hc2 [Hp2 Hk2]]].
    assert (Hst : forall v, stored (h_pend h) (w_disk w1) m1 v =
                            if N.eqb v u then Some o else stored (h_pend h) (w_disk w) m v).
    { intros v. rewrite Hp. rewrite !stored_nopend, D1. cbn [disk_set_file d_files].
      rewrite rf_lookup_put. change (file_of m1 v) with (file_of m v). change (file_of m1 u) with (file_of m u).
      rewrite file_of_eqb. destruct (N.eqb v u); reflexivity. }
    assert (I2 : InvCore ls (h_cache h2) (h_pend h2) (w_disk w1) m1).
    { rewrite Hc2, Hp2. constructor.
      + exact IO'.
      + exact U'.
      + apply (ic_shape _ _ _ _ _ I).
      + apply Hagree. exact Hst.
      + rewrite D1. apply (ic_dir _ _ _ _ _ I).
      + intros f c Hin. rewrite D1 in Hin. cbn [disk_set_file d_files] in Hin.
        apply rf_In_put in Hin. destruct Hin as [[-> ->]|Hin].
        * split; [reflexivity|]. split; [exact Hself_idx|exists o; reflexivity].
        * destruct (ic_files _ _ _ _ _ I f c Hin) as [A [B C]].
          split; [exact A|]. split; [apply Hmono; exact B|exact C].
      + intros _. exact Hp.
      + intros v o1. rewrite Hp. discriminate.
      + rewrite Hp. constructor.
      + intros v o1 Hmc. unfold cache'. rewrite Hmc, Hst, rf_assoc_put. destruct (N.eqb v u); [intros H; exact H|].
        apply (ic_cache _ _ _ _ _ I v o1). exact Hmc.
      + intros Hmc. unfold cache'. rewrite Hmc. apply (ic_nocache _ _ _ _ _ I). exact Hmc.
      + rewrite D1. apply (ic_schema _ _ _ _ _ I). }
    destruct (commit_ok ls h2 w1 m1 Hm2 N1 I2) as [h3 [w3 [C3 [L3 [K3 _]]]]].
    fold h2. rewrite C3. exists h3, (Ok tt), w3. split; [reflexivity|]. split; [reflexivity|].
    split; [|congruence]. rewrite Hp2, (Habs _ _ Hst) in L3. exact L3.
Qed.

(* ================================================================ delete_core *)

Lemma delete_core_ok ls h w m u :
  h_mem h = Some m -> nofault w -> InvCore ls (h_cache h) (h_pend h) (w_disk w) m ->
  exists h' w' m', delete_core h w m u = (h', Ok tt, w') /\ h_mem h' = Some m' /\ nofault w' /\
    InvCore ls (h_cache h') (h_pend h') (w_disk w') m' /\ m_fields m' = m_fields m /\
    abs_of (h_pend h') (w_disk w') m' = remove_key u (abs_of (h_pend h) (w_disk w) m) /\
    h_cancel h' = h_cancel h.
Proof.
  intros Hm Hn I. unfold delete_core. pose proof (ic_oi _ _ _ _ _ I) as IO.
  destruct (oi_delete_spec (m_fields m) (m_idx m) u IO) as [ix' [Hdel [IO' [Hni [Hoth [_ [Hids _]]]]]]].
  rewrite Hdel.
  pose proof (unique_preserved_delete _ _ _ _ IO (ic_uniq _ _ _ _ _ I) Hdel) as U'.
  set (m1 := set_idx m ix').
  set (h1 := if must_cache m then set_pend (set_cache h (remove_key u (h_cache h))) (remove_key u (h_pend h)) else h).
  set (cache' := if must_cache m then remove_key u (h_cache h) else h_cache h).
  assert (Hh1 : h_cache h1 = cache' /\ h_pend h1 = remove_key u (h_pend h) /\ h_cancel h1 = h_cancel h).
  { unfold h1, cache'. destruct (must_cache m) eqn:Emc; [repeat split|].
    assert (Hp : h_pend h = []).
    { apply (ic_sync _ _ _ _ _ I). unfold must_cache in Emc. apply orb_false_iff in Emc. apply Emc. }
    rewrite Hp. repeat split. }
  destruct Hh1 as [Hc1 [Hp1 Hk1]].
  (* the index after the deletion *)
  assert (Hin' : forall oid v, In (oid, v) (oi_ids ix') <-> In (oid, v) (oi_ids (m_idx m)) /\ v <> u).
  { intros oid v. rewrite Hids, filter_In. cbn [snd]. rewrite negb_true_iff, N.eqb_neq. reflexivity. }
  assert (Hidx : forall v, is_indexed ix' v = true <-> is_indexed (m_idx m) v = true /\ v <> u).
  { intros v. rewrite !is_indexed_true, !in_map_iff. split.
    - intros [[oid x] [Hx Hp]]. cbn in Hx. subst x. apply Hin' in Hp. destruct Hp as [Hp Hne].
      split; [exists (oid, v); split; [reflexivity|exact Hp]|exact Hne].
    - intros [[[oid x] [Hx Hp]] Hne]. cbn in Hx. subst x. exists (oid, v). split; [reflexivity|].
      apply Hin'. split; assumption. }
  (* the world after the deletion *)
  assert (Hw : exists w', (match file_lookup (file_of m1 u) (d_files (w_disk w)) with
                           | Some (COk _) | Some CBad =>
                               let (ok, w1) := fs_remove w (file_of m1 u) in
                               (set_mem h1 (Some m1), (if ok then Ok tt else Err EStorage), w1)
                           | _ => (set_mem h1 (Some m1), Ok tt, w)
                           end) = (set_mem h1 (Some m1), Ok tt, w') /\
                          nofault w' /\ d_dir (w_disk w') = d_dir (w_disk w) /\
                          d_schema (w_disk w') = d_schema (w_disk w) /\
                          d_files (w_disk w') = file_remove (file_of m u) (d_files (w_disk w))).
  { change (file_of m1 u) with (file_of m u).
    destruct (file_lookup (file_of m u) (d_files (w_disk w))) as [c|] eqn:F.
    - destruct (ic_lookup_ok _ _ _ _ _ I u c F) as [o0 ->].
      destruct (rf_fs_remove w (file_of m u) Hn) as [w1 [R1 [R2 R3]]]. rewrite R1.
      exists w1. split; [reflexivity|]. split; [exact R2|]. rewrite R3. repeat split.
    - exists w. split; [reflexivity|]. split; [exact Hn|]. rewrite (rf_remove_absent _ _ F). repeat split. }
  destruct Hw as [w' [Hres [Hn' [Hd' [Hs' Hf']]]]].
  fold m1. fold h1. rewrite Hres. exists (set_mem h1 (Some m1)), w', m1.
  split; [reflexivity|]. split; [reflexivity|]. split; [exact Hn'|].
  cbn [set_mem h_cache h_pend h_cancel]. rewrite Hc1, Hp1.
  assert (Hst : forall v, stored (remove_key u (h_pend h)) (w_disk w') m1 v =
                          if N.eqb v u then None else stored (h_pend h) (w_disk w) m v).
  { intros v. unfold stored. change (async_on m1) with (async_on m). change (file_of m1 v) with (file_of m v).
    rewrite Hf', rf_lookup_remove, file_of_eqb, rf_assoc_remove.
    destruct (N.eqb v u); [destruct (async_on m); reflexivity|reflexivity]. }
  split; [|split; [reflexivity|split; [|exact Hk1]]].
  - constructor.
    + exact IO'.
    + exact U'.
    + apply (ic_shape _ _ _ _ _ I).
    + intros oid v Hin. cbn [m1 set_idx m_idx m_fields] in *. apply Hin' in Hin. destruct Hin as [Hin Hne].
      rewrite (Hst v). apply N.eqb_neq in Hne. rewrite Hne. apply N.eqb_neq in Hne.
      destruct (ic_agree _ _ _ _ _ I oid v Hin) as [o1 [A [B [C D]]]].
      exists o1. repeat split; try assumption. apply (Hoth v (o_keys o1) Hne). exact C.
    + rewrite Hd'. apply (ic_dir _ _ _ _ _ I).
    + intros f c Hin. rewrite Hf' in Hin. apply rf_In_remove in Hin. destruct Hin as [Hin Hne].
      destruct (ic_files _ _ _ _ _ I f c Hin) as [A [B C]]. split; [exact A|]. split; [|exact C].
      cbn [m1 set_idx m_idx]. apply Hidx. split; [exact B|]. intros Hu. apply Hne.
      rewrite (file_of_eta m f A), Hu. reflexivity.
    + intros Ha. change (async_on m1) with (async_on m) in Ha. rewrite (ic_sync _ _ _ _ _ I Ha). reflexivity.
    + intros v o1. rewrite rf_assoc_remove. destruct (N.eqb v u) eqn:E; [discriminate|]. intros H.
      destruct (ic_pend _ _ _ _ _ I v o1 H) as [A B]. apply N.eqb_neq in E. split.
      * cbn [m1 set_idx m_idx]. apply Hidx. split; assumption.
      * unfold cache'. destruct (must_cache m) eqn:Emc; [|exact B].
        rewrite rf_assoc_remove. apply N.eqb_neq in E. rewrite E. exact B.
    + apply rf_remove_nodup. apply (ic_pnodup _ _ _ _ _ I).
    + intros v o1 Hmc. change (must_cache m1) with (must_cache m) in Hmc. unfold cache'. rewrite Hmc, Hst, rf_assoc_remove.
      destruct (N.eqb v u); [discriminate|]. apply (ic_cache _ _ _ _ _ I v o1 Hmc).
    + intros Hmc. change (must_cache m1) with (must_cache m) in Hmc. unfold cache'. rewrite Hmc.
      apply (ic_nocache _ _ _ _ _ I). exact Hmc.
    + rewrite Hs'. apply (ic_schema _ _ _ _ _ I).
  - unfold abs_of. rewrite !bind_bindf. cbn [m1 set_idx m_idx]. rewrite Hids, map_snd_filter.
    apply bindf_remove. exact Hst.
Qed.

(* ================================================================ flush *)

Lemma flush_list_ok m : forall l w, nofault w -> d_dir (w_disk w) = true -> NoDup (map fst l) ->
  (forall u o, In (u, o) l -> forallb serialisable (o_keys o) = true) ->
  exists w', flush_list w m l None = (None, w') /\ nofault w' /\ d_dir (w_disk w') = true /\
    d_schema (w_disk w') = d_schema (w_disk w) /\
    (forall v, file_lookup (file_of m v) (d_files (w_disk w')) =
               match assoc v l with
               | Some o => Some (COk o)
               | None => file_lookup (file_of m v) (d_files (w_disk w))
               end) /\
    (forall f c, In (f, c) (d_files (w_disk w')) ->
                 In (f, c) (d_files (w_disk w)) \/ exists u o, In (u, o) l /\ f = file_of m u /\ c = COk o).
Proof.
  induction l as [|[u o] r IH]; intros w Hn Hd Hnd Hser.
  - exists w. cbn [flush_list assoc]. repeat split; try assumption; try apply Hn. intros f c H. left. exact H.
  - cbn [flush_list]. cbn [map fst] in Hnd. apply NoDup_cons_iff in Hnd. destruct Hnd as [Hu Hnd].
    destruct (rf_write_object w m u o Hn Hd (Hser u o (or_introl eq_refl))) as [w1 [W1 [N1 D1]]]. rewrite W1.
    assert (Hd1 : d_dir (w_disk w1) = true) by (rewrite D1; exact Hd).
    destruct (IH w1 N1 Hd1 Hnd (fun v o' H => Hser v o' (or_intror H))) as [w' [F [N' [Dd [Ds [Hl Hin]]]]]].
    exists w'. split; [exact F|]. split; [exact N'|]. split; [exact Dd|].
    split; [rewrite Ds, D1; reflexivity|]. split.
    + intros v. rewrite Hl. cbn [assoc]. rewrite D1. cbn [disk_set_file d_files]. rewrite rf_lookup_put, file_of_eqb.
      destruct (N.eqb v u) eqn:E; [|reflexivity]. apply N.eqb_eq in E. subst v.
      destruct (assoc u r) eqn:A; [|reflexivity]. exfalso. apply Hu. apply assoc_In in A.
      apply in_map_iff. exists (u, o0). split; [reflexivity|exact A].
    + intros f c H. apply Hin in H. destruct H as [H|[v [o' [H1 H2]]]].
      * rewrite D1 in H. cbn [disk_set_file d_files] in H. apply rf_In_put in H. destruct H as [[-> ->]|H].
        -- right. exists u, o. split; [left; reflexivity|split; reflexivity].
        -- left. exact H.
      * right. exists v, o'. split; [right; exact H1|exact H2].
Qed.

Lemma LState_synced_pend ls h w fds a : LState ls h w fds a -> h_pend h = [] ->
  forall h', h_mem h' = h_mem h -> h_pend h' = h_pend h -> synced_h h w -> synced_h h' w.
Proof. intros _ _ h' H1 H2. unfold synced_h. rewrite H1, H2. intros H. exact H. Qed.

Lemma flush_all_ok ls h w fds a : LState ls h w fds a ->
  exists h1 w1, flush_all ls h w = (h1, None, w1) /\ LState ls h1 w1 fds a /\ h_pend h1 = [] /\
                h_cancel h1 = h_cancel h /\ (synced_h h w -> synced_h h1 w1).
Proof.
  intros L. unfold flush_all. destruct (h_pend h) as [|p0 l0] eqn:Hp.
  - exists h, w. split; [reflexivity|]. split; [exact L|]. split; [exact Hp|]. split; [reflexivity|]. intros H; exact H.
  - rewrite <- Hp. destruct L as [m [Hm [Hn [[I Hsy] [Hf Ha]]]]].
    destruct (db_schema_on_loaded ls h (w_disk w) m Hm) as [h1 [m1 [A [B [V [Hix [C [D K]]]]]]]]. rewrite A.
    pose proof (view_core_same _ _ _ _ m m1 V Hix I) as I1.
    assert (Hasy : async_on m1 = true).
    { destruct (async_on m1) eqn:E; [reflexivity|]. rewrite (ic_sync _ _ _ _ _ I1 E) in Hp. discriminate. }
    assert (Hser : forall u o, In (u, o) (h_pend h) -> forallb serialisable (o_keys o) = true).
    { intros u o Hin. apply (rf_In_assoc _ _ _ (ic_pnodup _ _ _ _ _ I1)) in Hin.
      destruct (ic_pend _ _ _ _ _ I1 u o Hin) as [Hi _]. apply is_indexed_true in Hi.
      apply in_map_iff in Hi. destruct Hi as [[oid x] [Hx Hi]]. cbn in Hx. subst x.
      destruct (ic_agree _ _ _ _ _ I1 oid u Hi) as [o1 [S1 [_ [_ S2]]]].
      rewrite (ic_stored_pend _ _ _ _ _ I1 u o Hin) in S1. inversion S1; subst. exact S2. }
    destruct (flush_list_ok m1 (h_pend h) w Hn (ic_dir _ _ _ _ _ I1) (ic_pnodup _ _ _ _ _ I1) Hser)
      as [w1 [F [N1 [Dd [Ds [Hl Hin]]]]]].
    rewrite F. exists (set_pend h1 []), w1. split; [reflexivity|].
    assert (Hst : forall v, stored [] (w_disk w1) m1 v = stored (h_pend h) (w_disk w) m1 v).
    { intros v. rewrite stored_nopend, Hl. unfold stored. rewrite Hasy.
      destruct (assoc v (h_pend h)); reflexivity. }
    split; [|split; [reflexivity|split; [exact K|]]].
    + exists m1. cbn [set_pend h_mem h_cache h_pend]. split; [exact B|]. split; [exact N1|].
      split; [|split; [destruct V as [_ [V2 _]]; congruence|]].
      * split; [|intros Hc; congruence]. rewrite C. constructor.
        -- apply (ic_oi _ _ _ _ _ I1).
        -- apply (ic_uniq _ _ _ _ _ I1).
        -- apply (ic_shape _ _ _ _ _ I1).
        -- intros oid v Hi. rewrite Hst. apply (ic_agree _ _ _ _ _ I1 oid v Hi).
        -- exact Dd.
        -- intros f c Hi. apply Hin in Hi. destruct Hi as [Hi|[v [o [H1 [-> ->]]]]].
           ++ apply (ic_files _ _ _ _ _ I1 f c Hi).
           ++ split; [reflexivity|]. split; [|exists o; reflexivity]. cbn [file_of fn_uuid].
              apply (rf_In_assoc _ _ _ (ic_pnodup _ _ _ _ _ I1)) in H1. apply (ic_pend _ _ _ _ _ I1 v o H1).
        -- intros _. reflexivity.
        -- intros v o Hc. discriminate.
        -- constructor.
        -- intros v o Hmc Hc. rewrite Hst. apply (ic_cache _ _ _ _ _ I1 v o Hmc Hc).
        -- apply (ic_nocache _ _ _ _ _ I1).
        -- rewrite Ds. apply (ic_schema _ _ _ _ _ I1).
      * rewrite <- Ha, <- (view_abs _ _ (h_pend h) (w_disk w) V). unfold abs_of. apply flat_bind_ext.
        intros v _. apply Hst.
    + unfold synced_h. rewrite Hm. intros [Hc _]. congruence.
Qed.

Lemma flush_all_commit_ok ls h w fds a : LState ls h w fds a ->
  exists h2 w2, flush_all_commit ls h w = (h2, None, w2) /\ LState ls h2 w2 fds a /\
                synced_h h2 w2 /\ h_cancel h2 = h_cancel h.
Proof.
  intros L. unfold flush_all_commit.
  destruct (flush_all_ok ls h w fds a L) as [h1 [w1 [F [L1 [P1 [K1 _]]]]]]. rewrite F.
  destruct L1 as [m1 [Hm1 [Hn1 [[I1 _] [Hf1 Ha1]]]]].
  destruct (commit_ok ls h1 w1 m1 Hm1 Hn1 I1) as [h2 [w2 [C [L2 [K2 [P2 S2]]]]]]. rewrite C.
  exists h2, w2. split; [reflexivity|]. rewrite Hf1, Ha1 in L2. split; [exact L2|].
  split; [apply S2; exact P1|congruence].
Qed.

(* ================================================================ the flusher goroutines *)

Lemma LState_set_fl ls h w fds a f : LState ls h w fds a -> LState ls (set_fl h f) w fds a.
Proof. intros L. exact L. Qed.

Lemma flusher_iter_ok ls h w fds a slept wake : LState ls h w fds a ->
  exists h1 w1 r, flusher_iter ls h w slept wake = Ok (h1, w1, r) /\ LState ls h1 w1 fds a /\
                  (synced_h h w -> synced_h h1 w1).
Proof.
  intros L. unfold flusher_iter. pose proof L as [m [Hm _]]. rewrite Hm.
  destruct (st_async (m_set m)) as [[thr tmo]|].
  - destruct ((Z.of_nat (length (h_pend h)) >=? thr)%Z || ((if wake then (slept + 1)%Z else slept) >=? tmo)%Z).
    + destruct (h_cancel h).
      * exists h, w, None. split; [reflexivity|]. split; [exact L|intros H; exact H].
      * destruct (flush_all_commit_ok ls h w fds a L) as [h2 [w2 [F [L2 [S2 _]]]]]. rewrite F.
        exists h2, w2, (Some 0%Z). split; [reflexivity|]. split; [exact L2|intros _; exact S2].
    + eexists h, w, _. split; [reflexivity|]. split; [exact L|intros H; exact H].
  - exists h, w, None. split; [reflexivity|]. split; [exact L|intros H; exact H].
Qed.

Lemma run_flushers_ok ls fds a b : forall fl h w acc, LState ls h w fds a ->
  exists h1 w1 fl', run_flushers ls h w fl b acc = Ok (h1, w1, fl') /\ LState ls h1 w1 fds a /\
                    (synced_h h w -> synced_h h1 w1).
Proof.
  induction fl as [|[slept fresh] r IH]; intros h w acc L.
  - exists h, w, (rev acc). split; [reflexivity|]. split; [exact L|intros H; exact H].
  - cbn [run_flushers]. destruct (b && negb fresh).
    + apply IH. exact L.
    + destruct (flusher_iter_ok ls h w fds a slept (negb fresh) L) as [h1 [w1 [x [F [L1 S1]]]]]. rewrite F.
      destruct x as [s|].
      * destruct (IH h1 w1 ((s, false) :: acc) L1) as [h2 [w2 [fl' [R [L2 S2]]]]].
        exists h2, w2, fl'. split; [exact R|]. split; [exact L2|]. intros H. apply S2. apply S1. exact H.
      * destruct (IH h1 w1 acc L1) as [h2 [w2 [fl' [R [L2 S2]]]]].
        exists h2, w2, fl'. split; [exact R|]. split; [exact L2|]. intros H. apply S2. apply S1. exact H.
Qed.

Lemma Inv_LState ls h w m : Inv ls (mk h w) -> h_mem h = Some m ->
  LState ls h w (m_fields m) (abs_of (h_pend h) (w_disk w) m).
Proof.
  unfold Inv. cbn [mk s_h s_w]. intros [Hn I] Hm. rewrite Hm in I. exists m. splits; try assumption; reflexivity.
Qed.

(* after every foreground call: the goroutines it started; never a panic *)
Lemma settle_ok ls h w : Inv ls (mk h w) ->
  exists h2 w2, settle ls h w = Ok (h2, w2) /\ Inv ls (mk h2 w2) /\ abs (mk h2 w2) = abs (mk h w) /\
                (synced_h h w -> synced_h h2 w2).
Proof.
  intros I. unfold settle. destruct (existsb (fun p => snd p) (h_fl h)) eqn:E.
  - destruct (h_mem h) as [m|] eqn:Hm.
    + pose proof (Inv_LState ls h w m I Hm) as L.
      destruct (run_flushers_ok ls _ _ true (h_fl h) (set_fl h []) w [] (LState_set_fl _ _ _ _ _ [] L))
        as [h1 [w1 [fl' [R [L1 S1]]]]].
      rewrite R. exists (set_fl h1 (fl' ++ h_fl h1)), w1. split; [reflexivity|].
      destruct (LState_Inv ls _ _ _ _ (LState_set_fl _ _ _ _ _ (fl' ++ h_fl h1) L1)) as [I2 A2].
      split; [exact I2|]. split; [|exact S1]. rewrite A2. unfold abs. cbn [mk s_h s_w]. rewrite Hm. reflexivity.
    + destruct I as [_ I]. cbn [mk s_h s_w] in I. rewrite Hm in I. destruct I as [_ [_ [Hfl _]]].
      rewrite Hfl in E. discriminate.
  - exists h, w. split; [reflexivity|]. split; [exact I|]. split; [reflexivity|intros H; exact H].
Qed.

(* a tick wakes every parked flusher *)
Lemma tick_ok ls h w : Inv ls (mk h w) ->
  exists h1 w1 fl', run_flushers ls (set_fl h []) w (h_fl h) false [] = Ok (h1, w1, fl') /\
    Inv ls (mk (set_fl h1 (fl' ++ h_fl h1)) w1) /\
    abs (mk (set_fl h1 (fl' ++ h_fl h1)) w1) = abs (mk h w) /\
    (synced_h h w -> synced_h (set_fl h1 (fl' ++ h_fl h1)) w1).
Proof.
  intros I. destruct (h_mem h) as [m|] eqn:Hm.
  - pose proof (Inv_LState ls h w m I Hm) as L.
    destruct (run_flushers_ok ls _ _ false (h_fl h) (set_fl h []) w [] (LState_set_fl _ _ _ _ _ [] L))
      as [h1 [w1 [fl' [R [L1 S1]]]]].
    exists h1, w1, fl'. split; [exact R|].
    destruct (LState_Inv ls _ _ _ _ (LState_set_fl _ _ _ _ _ (fl' ++ h_fl h1) L1)) as [I2 A2].
    split; [exact I2|]. split; [|exact S1]. rewrite A2. unfold abs. cbn [mk s_h s_w]. rewrite Hm. reflexivity.
  - pose proof I as [Hn I']. cbn [mk s_h s_w] in I'. rewrite Hm in I'. destruct I' as [Hc [Hp [Hfl DK]]].
    rewrite Hfl. cbn [run_flushers rev]. exists (set_fl h []), w, []. split; [reflexivity|].
    cbn [app set_fl h_fl]. split; [|split].
    + unfold Inv. cbn [mk s_h s_w set_fl h_mem h_cache h_pend h_fl]. rewrite Hm. splits; try assumption; reflexivity.
    + unfold abs. cbn [mk s_h s_w set_fl h_mem]. reflexivity.
    + unfold synced_h. cbn [set_fl h_mem]. rewrite Hm. intros _. exact Logic.I.
Qed.

(* ================================================================ Create on an existing collection *)

Lemma flush_all_mem ls h w m h1 e w1 : h_mem h = Some m -> flush_all ls h w = (h1, e, w1) ->
  exists m1, h_mem h1 = Some m1 /\ view_eq m m1 /\ m_idx m1 = m_idx m.
Proof.
  intros Hm. unfold flush_all. destruct (h_pend h) as [|p0 l0].
  - intros H. inversion H; subst. exists m. split; [exact Hm|]. split; [apply view_eq_refl|reflexivity].
  - destruct (db_schema_on_loaded ls h (w_disk w) m Hm) as [h2 [m2 [A [B [V [Hix _]]]]]]. rewrite A.
    destruct (flush_list w m2 (p0 :: l0) None) as [e' w']. intros H. inversion H; subst.
    exists m2. split; [exact B|]. split; assumption.
Qed.

(* the settings a second Create installs: cache and asynchronous writes; extension and
   compression stay those of the collection *)
Definition resettings (m : mem) (st : settings) : mem :=
  {| m_set := {| st_cache := st_cache st; st_async := st_async st;
                 st_compress := st_compress (m_set m); st_ext := st_ext (m_set m) |};
     m_fields := m_fields m; m_shape := m_shape m; m_idx := m_idx m;
     m_started := match st_async st with Some _ => false | None => m_started m end |}.

Lemma core_resettings ls c p d m mnew :
  InvCore ls c p d m ->
  m_fields mnew = m_fields m -> m_shape mnew = m_shape m -> m_idx mnew = m_idx m ->
  st_ext (m_set mnew) = st_ext (m_set m) -> st_compress (m_set mnew) = st_compress (m_set m) ->
  (async_on m = true -> async_on mnew = false -> p = []) ->
  InvCore ls (if must_cache mnew then c else []) p d mnew /\ abs_of p d mnew = abs_of p d m.
Proof.
  intros I Hf Hsh Hix Hext Hcz Hasy.
  assert (Hfile : forall u, file_of mnew u = file_of m u).
  { intros u. unfold file_of, suffix_of. rewrite Hext, Hcz. reflexivity. }
  assert (Hst : forall u, stored p d mnew u = stored p d m u).
  { intros u. unfold stored. rewrite Hfile. destruct (async_on mnew) eqn:E1; destruct (async_on m) eqn:E2; try reflexivity.
    - rewrite (ic_sync _ _ _ _ _ I E2). reflexivity.
    - rewrite (Hasy eq_refl eq_refl). reflexivity. }
  split.
  - constructor.
    + rewrite Hf, Hix. apply (ic_oi _ _ _ _ _ I).
    + rewrite Hf, Hix. apply (ic_uniq _ _ _ _ _ I).
    + rewrite Hsh. apply (ic_shape _ _ _ _ _ I).
    + intros oid u. rewrite Hix, Hf, Hst. apply (ic_agree _ _ _ _ _ I).
    + apply (ic_dir _ _ _ _ _ I).
    + intros f fc Hin. rewrite Hix. destruct (ic_files _ _ _ _ _ I f fc Hin) as [A [B C]].
      split; [|split; assumption]. rewrite A. unfold suffix_of. rewrite Hext, Hcz. reflexivity.
    + intros E1. destruct (async_on m) eqn:E2; [apply (Hasy eq_refl E1)|apply (ic_sync _ _ _ _ _ I E2)].
    + intros u o Hu. rewrite Hix. destruct (ic_pend _ _ _ _ _ I u o Hu) as [A B]. split; [exact A|].
      assert (E2 : async_on m = true) by (apply (ic_async_pend _ _ _ _ _ I u o Hu)).
      destruct (async_on mnew) eqn:E1.
      * unfold must_cache. rewrite E1, orb_true_r. exact B.
      * rewrite (Hasy E2 eq_refl) in Hu. discriminate.
    + apply (ic_pnodup _ _ _ _ _ I).
    + intros u o Hmc. rewrite Hmc, Hst. intros Hc. destruct (must_cache m) eqn:E.
      * apply (ic_cache _ _ _ _ _ I u o E Hc).
      * rewrite (ic_nocache _ _ _ _ _ I E) in Hc. discriminate.
    + intros Hmc. rewrite Hmc. reflexivity.
    + rewrite Hf, Hext, Hcz. apply (ic_schema _ _ _ _ _ I).
  - unfold abs_of. rewrite Hix. apply flat_bind_ext. intros u _. apply Hst.
Qed.
