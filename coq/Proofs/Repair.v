(* Proofs/Repair.v: C11, second half: "Repair makes index and files agree by indexing every
   unindexed file with its actual field values and dropping entries whose file is gone, without
   modifying or deleting any object file; afterwards Control succeeds". *)
From Coq Require Import List ZArith NArith Bool Lia Arith Permutation.
Import ListNotations.
From Sod.Model Require Import Base FieldIndex ObjIndex DB.
From Sod.Proofs Require Import FIProofs1 FIProofs4 FIProofs5 KeyOrder OIProofs OIProofs2
     DBBasic DBStruct1 DBStruct2 Refine1 Refine2 Refine3.
Close Scope Z_scope.

(* every readable object file holds a record of the struct (static typing of the Go type) *)
Definition files_typed (fds : list fdesc) (d : disk) : Prop :=
  forall f o, In (f, COk o) (d_files d) -> keys_ok fds (o_keys o).

(* the cache holds nothing but what the files hold (true of a handle that was just opened; kept
   by every read) *)
Definition cache_coherent (m : mem) (d : disk) (c : list (N * obj)) : Prop :=
  forall u o, assoc u c = Some o -> file_lookup (file_of m u) (d_files d) = Some (COk o).

Lemma get_with_reads_file h m d u h' o : cache_coherent m d (h_cache h) -> h_pend h = [] ->
  get_with h m d u = (h', Ok o) ->
  file_lookup (file_of m u) (d_files d) = Some (COk o) /\
  cache_coherent m d (h_cache h') /\ h_mem h' = h_mem h /\ h_pend h' = h_pend h /\ h_srch h' = h_srch h /\
  h_fl h' = h_fl h /\ h_cancel h' = h_cancel h.
Proof.
  intros Hc Hp. unfold get_with.
  destruct (if must_cache m then assoc u (h_cache h) else None) as [o'|] eqn:E.
  - intros H. inv H. destruct (must_cache m); [|discriminate]. split; [apply Hc; exact E|].
    repeat split; try reflexivity. exact Hc.
  - destruct (file_lookup (file_of m u) (d_files d)) as [[o'| |]|] eqn:F; intros H; inv H.
    split; [reflexivity|]. destruct (must_cache m); cbn; repeat split; try reflexivity; try exact Hc.
    intros v ov. rewrite rf_assoc_put. destruct (N.eqb v u) eqn:Ev.
    + apply N.eqb_eq in Ev. subst v. intros X. inv X. exact F.
    + apply Hc.
Qed.

(* ================================================================ repair_add *)

Lemma lookup_In_files f c l : file_lookup f l = Some c -> In (f, c) l.
Proof. apply rf_lookup_In. Qed.

Lemma repair_add_spec fds d w : w_disk w = d -> files_typed fds d -> forall us h m,
  h_mem h = Some m -> m_fields m = fds -> h_pend h = [] ->
  OIInv fds (m_idx m) -> cache_coherent m d (h_cache h) ->
  forall h2, repair_add h w us = (h2, Ok tt) ->
  exists m2, h_mem h2 = Some m2 /\ m_fields m2 = fds /\ m_set m2 = m_set m /\ m_shape m2 = m_shape m /\
    h_pend h2 = [] /\ OIInv fds (m_idx m2) /\ cache_coherent m2 d (h_cache h2) /\
    (forall u, is_indexed (m_idx m2) u = true <-> (In u us \/ is_indexed (m_idx m) u = true)) /\
    (* entries of objects that were indexed before are untouched *)
    (forall u ks, is_indexed (m_idx m) u = true -> (holds (m_idx m2) u ks <-> holds (m_idx m) u ks)) /\
    (* every newly indexed file is indexed with its ACTUAL field values *)
    (forall u, In u us -> is_indexed (m_idx m) u = false ->
       exists o, file_lookup (file_of m u) (d_files d) = Some (COk o) /\ holds (m_idx m2) u (o_keys o)).
Proof.
  intros Hw FT. induction us as [|u r IH]; intros h m Hm Hf Hp OI CC h2 H.
  - cbn in H. inv H. exists m. split; [exact Hm|]. split; [reflexivity|]. split; [reflexivity|]. split; [reflexivity|].
    split; [exact Hp|]. split; [exact OI|]. split; [exact CC|]. split; [|split].
    + intros u. split; [intros X; right; exact X|intros [[]|X]; exact X].
    + intros u ks _. reflexivity.
    + intros u [].
  - cbn [repair_add] in H. rewrite Hm in H. destruct (is_indexed (m_idx m) u) eqn:Ei.
    + destruct (IH h m Hm Hf Hp OI CC h2 H) as [m2 [A [B [C0 [C1 [C2 [C3 [C4 [C5 [C6 C7]]]]]]]]]].
      exists m2. repeat (split; [assumption|]). split; [|split; [exact C6|]].
      * intros v. rewrite C5. split; [intros [X|X]; [left; right; exact X|right; exact X]|].
        intros [[<-|X]|X]; [right; exact Ei|left; exact X|right; exact X].
      * intros v [<-|Hv] Hni; [congruence|]. apply C7; assumption.
    + rewrite Hw in H. destruct (get_with h m d u) as [h1 [o| |]] eqn:G; try (inv H; fail).
      destruct (get_with_reads_file h m d u h1 o CC Hp G) as [F [CC1 [M1 [P1 _]]]].
      assert (Hk : keys_ok fds (o_keys o)) by (apply (FT _ _ (lookup_In_files _ _ _ F))).
      rewrite Hf in H.
      destruct (insert_or_update_spec fds (m_idx m) (o_keys o) u OI Hk) as [_ [_ [_ [_ Hok]]]].
      destruct (oi_insert_or_update fds (m_idx m) (o_keys o) u) as [ix| |] eqn:Eiou; try (inv H; fail).
      destruct (Hok ix eq_refl) as [OI' [Hself [Hother [Hids _]]]].
      set (m1 := set_idx m ix) in *.
      assert (Hidx1 : forall v, is_indexed (m_idx m1) v = true <-> v = u \/ is_indexed (m_idx m) v = true).
      { intros v. unfold m1. cbn [set_idx m_idx]. rewrite !is_indexed_true, Hids, Ei, map_app, in_app_iff. cbn.
        split; [intros [X|[X|[]]]; [right; exact X|left; symmetry; exact X]|intros [X|X]; [right; left; symmetry; exact X|left; exact X]]. }
      destruct (IH (set_mem h1 (Some m1)) m1 eq_refl Hf ltac:(cbn; rewrite P1; exact Hp) OI' ltac:(cbn [set_mem h_cache]; exact CC1) h2 H)
        as [m2 [A [B [C0 [C1 [C2 [C3 [C4 [C5 [C6 C7]]]]]]]]]].
      exists m2. split; [exact A|]. split; [exact B|]. split; [rewrite C0; reflexivity|]. split; [rewrite C1; reflexivity|].
      split; [exact C2|]. split; [exact C3|]. split; [exact C4|]. split; [|split].
      * intros v. rewrite C5, Hidx1. cbn [In]. intuition congruence.
      * intros v ks Hv. rewrite (C6 v ks (proj2 (Hidx1 v) (or_intror Hv))). unfold m1. cbn [set_idx m_idx].
        apply Hother. intros ->. congruence.
      * intros v [<-|Hv] Hni.
        -- exists o. split; [exact F|]. apply (C6 u (o_keys o) (proj2 (Hidx1 u) (or_introl eq_refl))). exact Hself.
        -- destruct (N.eq_dec v u) as [->|Hne].
           ++ exists o. split; [exact F|]. apply (C6 u (o_keys o) (proj2 (Hidx1 u) (or_introl eq_refl))). exact Hself.
           ++ apply C7; [exact Hv|]. destruct (is_indexed (m_idx m1) v) eqn:E1; [|reflexivity].
              apply Hidx1 in E1. destruct E1; congruence.
Qed.

(* ================================================================ repair_drop *)

Lemma repair_drop_spec fds on_disk : forall us ix, OIInv fds ix ->
  exists ix', repair_drop ix us on_disk = Some ix' /\ OIInv fds ix' /\
    (forall u, is_indexed ix' u = true <-> (is_indexed ix u = true /\ (In u on_disk \/ ~ In u us))) /\
    (forall u ks, is_indexed ix' u = true -> (holds ix' u ks <-> holds ix u ks)).
Proof.
  induction us as [|u r IH]; intros ix OI.
  - exists ix. cbn. split; [reflexivity|]. split; [exact OI|]. split; [|intros; reflexivity].
    intros u. split; [intros X; split; [exact X|right; intros []]|intros [X _]; exact X].
  - cbn [repair_drop]. destruct (memN u on_disk) eqn:Em.
    + destruct (IH ix OI) as [ix' [A [B [C D]]]]. exists ix'. split; [exact A|]. split; [exact B|]. split; [|exact D].
      intros v. rewrite C. apply rf_memN_In in Em. split.
      * intros [X [Y|Y]]; (split; [exact X|]); [left; exact Y|].
        destruct (N.eq_dec v u) as [->|Hne]; [left; exact Em|right; intros [Z|Z]; [congruence|contradiction]].
      * intros [X [Y|Y]]; (split; [exact X|]); [left; exact Y|right; intros Z; apply Y; right; exact Z].
    + destruct (oi_delete_spec fds ix u OI) as [ix1 [Hd [OI1 [Hgone [Hoth [_ [Hids _]]]]]]]. rewrite Hd.
      destruct (IH ix1 OI1) as [ix' [A [B [C D]]]]. exists ix'. split; [exact A|]. split; [exact B|].
      assert (Hmem : ~ In u on_disk) by (intros X; apply rf_memN_In in X; congruence).
      assert (Hix1 : forall v, is_indexed ix1 v = true <-> (is_indexed ix v = true /\ v <> u)).
      { intros v. rewrite !is_indexed_true, Hids, !in_map_iff. split.
        - intros [[oid v'] [E X]]. cbn in E. subst v'. apply filter_In in X. destruct X as [X Y]. cbn in Y.
          apply negb_true_iff, N.eqb_neq in Y. split; [exists (oid, v); split; [reflexivity|exact X]|exact Y].
        - intros [[[oid v'] [E X]] Hne]. cbn in E. subst v'. exists (oid, v). split; [reflexivity|].
          apply filter_In. split; [exact X|]. cbn. apply negb_true_iff, N.eqb_neq. exact Hne. }
      split.
      * intros v. rewrite C, Hix1. split.
        -- intros [[X Hne] [Y|Y]]; (split; [exact X|]); [left; exact Y|right; intros [Z|Z]; [congruence|contradiction]].
        -- intros [X [Y|Y]].
           ++ split; [split; [exact X|intros ->; contradiction]|left; exact Y].
           ++ split; [split; [exact X|intros ->; apply Y; left; reflexivity]|right; intros Z; apply Y; right; exact Z].
      * intros v ks Hv. rewrite (D v ks Hv). apply Hoth. apply C in Hv. destruct Hv as [Hv _]. apply Hix1 in Hv. apply Hv.
Qed.

(* ================================================================ Repair *)

(* Repair on a loaded handle whose index is well formed (whatever its relation to the files: any
   files may have been added or removed, any entries dropped from schema.json), no write pending,
   fault-free world, when it returns without error:
   - NO object file was modified, added or deleted;
   - Control succeeds;
   - exactly the uuids that have a file are indexed;
   - every file that was not indexed is now indexed with the field values it actually holds;
   - entries of objects that were indexed and still have a file are unchanged. *)
Theorem repair_restores_agreement hk ls s m order s' :
  h_mem (s_h s) = Some m -> m_shape m = ls -> h_pend (s_h s) = [] -> nofault (s_w s) ->
  d_dir (w_disk (s_w s)) = true ->
  OIInv (m_fields m) (m_idx m) ->
  files_typed (m_fields m) (w_disk (s_w s)) ->
  cache_coherent m (w_disk (s_w s)) (h_cache (s_h s)) ->
  step_fg hk ls s (ORepair order) = (s', RUnit (Ok tt)) ->
  exists m',
    h_mem (s_h s') = Some m' /\
    d_files (w_disk (s_w s')) = d_files (w_disk (s_w s)) /\
    d_other (w_disk (s_w s')) = d_other (w_disk (s_w s)) /\
    control_mem ls m' (w_disk (s_w s')) = None /\
    (forall u, is_indexed (m_idx m') u = true <-> In u (disk_uuids (w_disk (s_w s)))) /\
    (forall u, In u (disk_uuids (w_disk (s_w s))) -> is_indexed (m_idx m) u = false ->
       exists o, file_lookup (file_of m u) (d_files (w_disk (s_w s))) = Some (COk o) /\ holds (m_idx m') u (o_keys o)) /\
    (forall u ks, is_indexed (m_idx m) u = true -> In u (disk_uuids (w_disk (s_w s))) ->
       (holds (m_idx m') u ks <-> holds (m_idx m) u ks)).
Proof.
  intros Hm Hshape Hp Hn Hdir OI FT CC H. destruct s as [h w]. cbn [s_h s_w] in *.
  unfold step_fg in H. cbv zeta in H. cbn [s_h s_w] in H.
  destruct (db_schema_on_loaded ls h (w_disk w) m Hm) as [h1 [m1 [A [B [V [Hix [C [D K]]]]]]]]. rewrite A in H.
  rewrite Hdir in H. cbn [negb] in H.
  set (on_disk := disk_uuids (w_disk w)) in *.
  destruct (repair_add h1 w (order_by order on_disk)) as [h2 [[]| |]] eqn:RA; try (inv H; fail).
  assert (V' := V). destruct V' as [Vs [Vf [Vsh _]]].
  assert (OI1 : OIInv (m_fields m1) (m_idx m1)) by (rewrite Hix, Vf; exact OI).
  assert (CC1 : cache_coherent m1 (w_disk w) (h_cache h1)).
  { rewrite C. intros u o X. rewrite (view_file_of m m1 u V). apply CC. exact X. }
  assert (FT1 : files_typed (m_fields m1) (w_disk w)) by (rewrite Vf; exact FT).
  destruct (repair_add_spec (m_fields m1) (w_disk w) w eq_refl FT1 (order_by order on_disk) h1 m1 B eq_refl
              ltac:(rewrite D; exact Hp) OI1 CC1 h2 RA)
    as [m2 [A2 [F2 [S2 [Sh2 [P2 [OI2 [CC2 [I2 [Keep2 New2]]]]]]]]]].
  rewrite A2 in H.
  destruct (repair_drop_spec (m_fields m1) on_disk (indexed_uuids (m_idx m2)) (m_idx m2) OI2) as [ix3 [RD [OI3 [I3 Keep3]]]].
  rewrite RD in H.
  set (m3 := set_idx m2 ix3) in *. set (h3 := set_mem h2 (Some m3)) in *.
  destruct (commit_loaded ls h3 w m3 eq_refl Hn Hdir) as [h4 [m4 [w4 [Cm [B4 [V4 [Hix4 [_ [_ [_ [N4 W4]]]]]]]]]]].
  rewrite Cm in H. inv H. cbn [mk s_h s_w].
  assert (Hord : forall u, In u (order_by order on_disk) <-> In u on_disk).
  { intros u. unfold order_by. rewrite in_app_iff, !filter_In. split.
    - intros [[X Y]|[X _]]; [apply rf_memN_In; exact Y|exact X].
    - intros X. destruct (memN u order) eqn:E.
      + left. split; [apply rf_memN_In; exact E|apply rf_memN_In; exact X].
      + right. split; [exact X|reflexivity]. }
  assert (Hfinal : forall u, is_indexed ix3 u = true <-> In u on_disk).
  { intros u. rewrite I3, I2, Hord. unfold indexed_uuids. rewrite <- is_indexed_true. split.
    - intros [[X|X] [Y|Y]]; try assumption. exfalso. apply Y. apply I2. right. exact X.
    - intros X. split; [left; exact X|left; exact X]. }
  exists m4. split; [exact B4|]. rewrite W4. cbn [disk_set_schema d_files d_other].
  split; [reflexivity|]. split; [reflexivity|].
  assert (Hix4' : m_idx m4 = ix3) by (rewrite Hix4; reflexivity).
  split; [|split; [|split]].
  - apply control_mem_iff. destruct V4 as [_ [Vf4 [Vsh4 _]]]. split; [|split].
    + rewrite Vsh4. unfold m3. cbn [set_idx m_shape]. rewrite Sh2, Vsh. reflexivity.
    + rewrite Hix4'. apply (control_of_inv (m_fields m1)). exact OI3.
    + intros u. unfold disk_uuids. cbn [disk_set_schema d_files]. fold (disk_uuids (w_disk w)). fold on_disk.
      unfold indexed_uuids. rewrite <- is_indexed_true, Hix4'. symmetry. apply Hfinal.
  - intros u. rewrite Hix4'. apply Hfinal.
  - intros u Hu Hni. rewrite Hix4'.
    assert (Hni1 : is_indexed (m_idx m1) u = false) by (rewrite Hix; exact Hni).
    destruct (New2 u (proj2 (Hord u) Hu) Hni1) as [o [Fo Ho]]. exists o.
    split; [rewrite <- (view_file_of m m1 u V); exact Fo|].
    apply (Keep3 u (o_keys o) (proj2 (Hfinal u) Hu)). exact Ho.
  - intros u ks Hi Hu. rewrite Hix4'. rewrite (Keep3 u ks (proj2 (Hfinal u) Hu)).
    rewrite (Keep2 u ks ltac:(rewrite Hix; exact Hi)). rewrite Hix. reflexivity.
Qed.
Print Assumptions repair_restores_agreement.
