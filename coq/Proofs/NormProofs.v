(* Time keys: UnixNano orders times correctly exactly on the range it is defined for (years 1678..2262);
   outside it wraps, and the zero time.Time (the value of every time field never set) is outside. *)
From Coq Require Import List ZArith NArith Bool Lia.
Import ListNotations.
From Sod.Model Require Import Base Norm.
Open Scope Z_scope.

Lemma wrap64_id z : - two63 <= z < two63 -> wrap64 z = z.
Proof. intros H. unfold wrap64. rewrite Z.mod_small; unfold two63, two64 in *; lia. Qed.

Lemma wrap64_range z : - two63 <= wrap64 z < two63.
Proof.
  unfold wrap64. pose proof (Z.mod_pos_bound (z + two63) two64 ltac:(unfold two64; lia)).
  unfold two63, two64 in *. lia.
Qed.

Lemma wrap64_congr z : exists k, wrap64 z = z + k * two64.
Proof.
  unfold wrap64. exists (- ((z + two63) / two64)).
  pose proof (Z.div_mod (z + two63) two64 ltac:(unfold two64; lia)). lia.
Qed.

(* IN RANGE: the key order is the time order, equal keys are equal instants *)
Theorem time_key_order_in_range a b :
  in_unixnano_range a = true -> in_unixnano_range b = true ->
  Z.ltb (time_key a) (time_key b) = time_ltb a b /\ Z.eqb (time_key a) (time_key b) = time_eqb a b.
Proof.
  unfold in_unixnano_range, time_key, time_ltb, time_eqb. intros Ha Hb.
  apply andb_true_iff in Ha. apply andb_true_iff in Hb. destruct Ha as [A1 A2], Hb as [B1 B2].
  apply Z.leb_le in A1, B1. apply Z.ltb_lt in A2, B2.
  rewrite !wrap64_id by lia. split; reflexivity.
Qed.
Print Assumptions time_key_order_in_range.

(* the time order is the lexicographic order on (seconds, nanoseconds) *)
Theorem nanos_order_lexicographic a b : time_ok a = true -> time_ok b = true ->
  (nanos a < nanos b <-> t_sec a < t_sec b \/ (t_sec a = t_sec b /\ t_nsec a < t_nsec b)).
Proof.
  unfold time_ok, nanos, giga. intros Ha Hb.
  apply andb_true_iff in Ha. apply andb_true_iff in Hb. destruct Ha as [A1 A2], Hb as [B1 B2].
  apply Z.leb_le in A1, B1. apply Z.ltb_lt in A2, B2. unfold giga in *. nia.
Qed.

(* IN RANGE: AssignIndex gives back the instant that was stored *)
Theorem key_time_roundtrip t : time_ok t = true -> in_unixnano_range t = true -> key_time (time_key t) = t.
Proof.
  unfold time_ok, in_unixnano_range, time_key, key_time. intros Ht Hr.
  apply andb_true_iff in Ht. apply andb_true_iff in Hr. destruct Ht as [T1 T2], Hr as [R1 R2].
  apply Z.leb_le in T1, R1. apply Z.ltb_lt in T2, R2.
  rewrite wrap64_id by lia. unfold nanos, giga in *.
  destruct t as [s n]. cbn [t_sec t_nsec] in *. f_equal.
  - rewrite Z.add_comm, Z.div_add by lia. rewrite Z.div_small by lia. lia.
  - rewrite Z.add_comm, Z.mod_add by lia. apply Z.mod_small. lia.
Qed.
Print Assumptions key_time_roundtrip.

(* two instants get the same key exactly when they differ by a multiple of 2^64 nanoseconds (about 584 years) *)
Theorem time_key_collision a b : time_key a = time_key b <-> exists k, nanos a = nanos b + k * two64.
Proof.
  unfold time_key. split.
  - intros H. destruct (wrap64_congr (nanos a)) as [ka Ea], (wrap64_congr (nanos b)) as [kb Eb].
    exists (kb - ka). lia.
  - intros [k E]. unfold wrap64. rewrite E. replace (nanos b + k * two64 + two63) with (nanos b + two63 + k * two64) by lia.
    rewrite Z.mod_add by (unfold two64; lia). reflexivity.
Qed.
Print Assumptions time_key_collision.

(* OUTSIDE THE RANGE the full statement ("the field's time ordering", for every time.Time) is FALSE of the code:
   the zero time is before March 1, 1700, yet its key is greater: a search T < 1700-03-01 misses every object
   whose time was never set, T > 1700-03-01 returns them *)
Definition y1700 : gotime := {| t_sec := -8515000000; t_nsec := 0 |}.
Theorem time_order_refuted :
  exists a b, time_ok a = true /\ time_ok b = true /\ in_unixnano_range b = true /\
              time_ltb a b = true /\ Z.ltb (time_key b) (time_key a) = true.
Proof. exists zero_time, y1700. vm_compute. repeat split. Qed.
Print Assumptions time_order_refuted.

(* ... and AssignIndex does not give the zero time back: it returns 1754-08-30T22:43:41.128654848Z *)
Theorem assign_index_zero_time_refuted :
  time_key zero_time = -6795364578871345152 /\
  key_time (time_key zero_time) = {| t_sec := -6795364579; t_nsec := 128654848 |} /\
  key_time (time_key zero_time) <> zero_time.
Proof. split; [vm_compute; reflexivity|]. split; [vm_compute; reflexivity|]. vm_compute. discriminate. Qed.
Print Assumptions assign_index_zero_time_refuted.

(* integers of every width, floats and strings keep their value: the key order is the value order (Base.key_ltb)
   and a value of an unsupported type is refused *)
Theorem normalise_total v : normalise v = None <-> v = GOther.
Proof. destruct v; cbn; split; intros H; try discriminate; reflexivity. Qed.

Theorem normalise_keeps_order_int b1 b2 x y : 
  match normalise (GInt b1 x), normalise (GInt b2 y) with
  | Some k1, Some k2 => key_ltb k1 k2 = Z.ltb x y /\ key_eqb k1 k2 = Z.eqb x y
  | _, _ => False
  end.
Proof. cbn. split; reflexivity. Qed.

Example in_range_example :
  let a := {| t_sec := 1700000000; t_nsec := 123456789 |} in
  let b := {| t_sec := 1700000000; t_nsec := 123456790 |} in
  in_unixnano_range a = true /\ in_unixnano_range b = true /\ time_ok a = true /\
  time_key a = 1700000000123456789 /\ Z.ltb (time_key a) (time_key b) = true /\ key_time (time_key a) = a.
Proof. vm_compute. repeat split. Qed.
