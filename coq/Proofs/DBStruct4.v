(* Proofs/DBStruct4.v: directory layout (C18), the schema guard (C17), schema reload (C04). *)
From Coq Require Import List ZArith NArith Bool Lia.
Import ListNotations.
From Sod.Model Require Import Base FieldIndex ObjIndex DB Instance.
From Sod.Proofs Require Import DBBasic DBStruct1 DBStruct2 DBStruct3.

(* ---------------------------------------------------------------- 4a: layout *)

Theorem file_of_injective m u u' : file_of m u = file_of m u' -> u = u'.
Proof. intros H. apply (f_equal fn_uuid) in H. exact H. Qed.
Print Assumptions file_of_injective.

(* [fname_eqb_eq : fname_eqb f g = true <-> f = g] is proved in DBStruct1 *)
Theorem fname_eqb_spec f g : fname_eqb f g = true <-> f = g.
Proof. apply fname_eqb_eq. Qed.
Print Assumptions fname_eqb_spec.

(* the file of a uuid is the uuid followed by the collection's suffix; a file the collection
   wrote for u is listed by the directory scan under u *)
Theorem file_of_uuid m u : fn_uuid (file_of m u) = u /\ fn_suffix (file_of m u) = suffix_of (m_set m).
Proof. split; reflexivity. Qed.

(* ---------------------------------------------------------------- 4b: a refused Create *)

Lemma write_object_err_range w m u o e w' : write_object w m u o = (Some e, w') -> e = EStorage \/ e = EJson.
Proof. unfold write_object. repeat break_match; intros H; inv H; auto. Qed.

Lemma flush_list_err m l : forall w e0 x w',
  flush_list w m l e0 = (Some x, w') -> (x = EStorage \/ x = EJson) \/ e0 = Some x.
Proof.
  induction l as [|[u o] l IH]; intros w e0 x w'; cbn [flush_list].
  - intros H; inv H. auto.
  - destruct (write_object w m u o) as [[e1|] w1] eqn:Hw.
    + intros H. apply IH in H. destruct H as [H|H]; [auto|]. inv H.
      left. eapply write_object_err_range; eassumption.
    + apply IH.
Qed.

Lemma flush_all_err ls h w h' x w' :
  h_mem h <> None -> flush_all ls h w = (h', Some x, w') -> x = EStorage \/ x = EJson.
Proof.
  intros Hm. unfold flush_all. destruct (h_pend h) as [|p l]; [intros H; inv H|].
  destruct (h_mem h) as [m|] eqn:Em; [|congruence].
  rewrite (db_schema_loaded ls h (w_disk w) m Em).
  destruct (start_flusher_mem h m Em) as [m' [Hm' _]]. rewrite Hm'.
  destruct (flush_list w m' (p :: l) None) as [e1 w1] eqn:Hf. intros H; inv H.
  apply flush_list_err in Hf. destruct Hf as [Hf|Hf]; [exact Hf|discriminate].
Qed.

Definition guard_err (e : err) : Prop := e = EExtension \/ e = EFieldDesc \/ e = EStructure.

(* the branch of Create which builds a new schema, named *)
Definition create_new (ls : N) (h1 : handle) (w : world) (st : settings) (fds : list fdesc) : state * out :=
  let m := {| m_set := st; m_fields := fds; m_shape := ls; m_idx := new_index fds; m_started := false |} in
  let (ok, w1) := fs_mkdir w in
  if negb ok then (mk h1 w1, RUnit (Err EStorage)) else
  let '(e, w2) := match d_schema (w_disk w1) with
                  | None => let (ok2, w2) := fs_write_schema w1 (sfile_of m) in
                            ((if ok2 then None else Some EStorage), w2)
                  | Some _ => (None, w1)
                  end in
  match e with
  | Some x => (mk h1 w2, RUnit (Err x))
  | None =>
      match control_mem ls m (w_disk w2) with
      | Some x => (mk h1 w2, RUnit (Err x))
      | None => (mk (set_mem h1 (Some m)) w2, RUnit (Ok tt))
      end
  end.

Lemma step_fg_create_new hk ls s st fds h1 mo :
  db_schema ls (s_h s) (w_disk (s_w s)) = (h1, mo, Some ENotFound) ->
  step_fg hk ls s (OCreate st fds) = create_new ls h1 (s_w s) st fds.
Proof. intros Hs. cbn [step_fg]. rewrite Hs. destruct mo; reflexivity. Qed.

(* it never answers with a guard error *)
Lemma create_new_err ls h1 w st fds s' e :
  create_new ls h1 w st fds = (s', RUnit (Err e)) -> e = EStorage \/ e = EInconsistent \/ e = ECorrupted.
Proof.
  unfold create_new. destruct (fs_mkdir w) as [ok w1].
  destruct (negb ok); [intros H; inv H; auto|].
  destruct (d_schema (w_disk w1)) as [sc|].
  - destruct (control_mem ls _ (w_disk w1)) as [x|] eqn:Hcm; intros H; inv H.
    pose proof (control_mem_range _ _ _ _ Hcm) as [Y|Y]; [|auto].
    subst. apply control_mem_structure_iff in Hcm. cbn in Hcm. congruence.
  - destruct (fs_write_schema w1 _) as [ok2 w2]. destruct ok2; [|intros H; inv H; auto].
    destruct (control_mem ls _ (w_disk w2)) as [x|] eqn:Hcm; intros H; inv H.
    pose proof (control_mem_range _ _ _ _ Hcm) as [Y|Y]; [|auto].
    subst. apply control_mem_structure_iff in Hcm. cbn in Hcm. congruence.
Qed.

Theorem create_refused_no_effect hk ls s st fds s' e :
  step_fg hk ls s (OCreate st fds) = (s', RUnit (Err e)) -> guard_err e ->
  s' = mk (fst (fst (db_schema ls (s_h s) (w_disk (s_w s))))) (s_w s).
Proof.
  intros H He.
  destruct (db_schema ls (s_h s) (w_disk (s_w s))) as [[h1 mo] eo] eqn:Hs. cbn [fst].
  assert (Hnew : eo = Some ENotFound -> False).
  { intros ->. rewrite (step_fg_create_new _ _ _ _ _ _ _ Hs) in H. apply create_new_err in H.
    destruct He as [X|[X|X]]; destruct H as [Y|[Y|Y]]; congruence. }
  cbn [step_fg] in H. rewrite Hs in H.
  destruct mo as [m|]; destruct eo as [e0|].
  - destruct e0; try (inv H; reflexivity). exfalso. apply Hnew. reflexivity.
  - pose proof (db_schema_some_mem _ _ _ _ _ _ Hs) as Hm1.
    destruct (negb (str_eqb _ _)); [inv H; reflexivity|].
    destruct (negb (_ && _)); [inv H; reflexivity|].
    destruct (if async_on m && negb _ then flush_all ls h1 (s_w s) else (h1, None, s_w s)) as [[h2 fe] w0] eqn:Hf.
    destruct fe as [x|].
    + inv H. exfalso. destruct (async_on m && negb _); [|inv Hf].
      apply flush_all_err in Hf; [|congruence].
      destruct He as [X|[X|X]]; destruct Hf as [Y|Y]; congruence.
    + destruct (save_schema w0 _) as [e1 w1] eqn:Hsv. inv H.
      destruct e1 as [x|]; [|discriminate]. cbn in *.
      match goal with Hx : Err _ = Err _ |- _ => inv Hx end.
      apply save_schema_err in Hsv. subst. destruct He as [X|[X|X]]; discriminate.
  - destruct e0; try (inv H; reflexivity). exfalso. apply Hnew. reflexivity.
  - inv H. destruct He as [X|[X|X]]; discriminate.
Qed.
Print Assumptions create_refused_no_effect.

Corollary create_refused_stores hk ls s st fds s' e :
  step_fg hk ls s (OCreate st fds) = (s', RUnit (Err e)) -> guard_err e ->
  s_w s' = s_w s /\ same_stores (s_h s) (s_h s').
Proof.
  intros H He. rewrite (create_refused_no_effect _ _ _ _ _ _ _ H He). cbn [s_w s_h mk].
  split; [reflexivity|].
  destruct (db_schema ls (s_h s) (w_disk (s_w s))) as [[h1 mo] eo] eqn:Hs. cbn [fst].
  eapply db_schema_stores; eassumption.
Qed.

(* ---------------------------------------------------------------- 4c: the struct has changed *)

Lemma db_schema_structure ls h d sf :
  h_mem h = None -> d_dir d = true -> d_schema d = Some (SOk sf) -> sf_shape sf <> ls ->
  db_schema ls h d = (h, None, Some EStructure).
Proof.
  intros Hm Hd Hs Hne. unfold db_schema. rewrite Hm, Hd, Hs. cbn [negb].
  assert (Hc : control_mem ls (mem_of sf) d = Some EStructure).
  { apply control_mem_structure_iff. exact Hne. }
  rewrite Hc. reflexivity.
Qed.

Definition refused_out (o : op) : option out :=
  match o with
  | OInsert _ _ _ | ODelete _ | ODeleteAll _ | OCommit | ORepair _ | OSchema | OCreate _ _ =>
      Some (RUnit (Err EStructure))
  | OMany (MRec _ _ _ :: _) => Some (RMany (Err EStructure) 0%Z)
  | OGet _ => Some (RObj (Err EStructure))
  | OExist _ => Some (RBool (Err EStructure))
  | OCount => Some (RNum (Err EStructure))
  | OAll => Some (RObjs (Err EStructure))
  | OSearch _ _ _ _ => Some (RSearch (Some EStructure) 0%Z)
  | OAssignIndex _ => Some (RKeys (Err EStructure))
  | _ => None
  end.

(* the state after the refused call: untouched, except that a Search records its (failed) value *)
Definition refused_state (s : state) (o : op) : state :=
  match o with
  | OSearch sid _ _ _ =>
      mk (set_srch (s_h s) (put sid {| sr_fields := []; sr_err := Some EStructure; sr_limit := None; sr_rev := false |}
                                (h_srch (s_h s)))) (s_w s)
  | _ => s
  end.

(* hypothesis [d_dir = true] is needed: without the directory the answer is ENotFound *)
Theorem structure_changed_refuses_everything hk ls s sf o r :
  h_mem (s_h s) = None ->
  d_dir (w_disk (s_w s)) = true ->
  d_schema (w_disk (s_w s)) = Some (SOk sf) ->
  sf_shape sf <> ls ->
  refused_out o = Some r ->
  step_fg hk ls s o = (refused_state s o, r).
Proof.
  intros Hm Hd Hs Hne Hr.
  pose proof (db_schema_structure ls (s_h s) (w_disk (s_w s)) sf Hm Hd Hs Hne) as Hdb.
  destruct s as [h w]. cbn [s_h s_w] in *.
  destruct o; try discriminate Hr; cbn [refused_out] in Hr.
  - (* OCreate *) inv Hr. cbn [step_fg s_h s_w]. rewrite Hdb. reflexivity.
  - (* OInsert *) inv Hr. cbn [step_fg]. unfold do_insert, with_schema. cbn [s_h s_w]. rewrite Hdb. reflexivity.
  - (* OMany *) destruct ms as [|[u fresh ob|] ms]; try discriminate Hr. inv Hr.
    cbn [step_fg]. unfold do_many. cbn [s_h s_w]. rewrite Hdb. reflexivity.
  - (* ODelete *) inv Hr. cbn [step_fg s_h s_w]. rewrite Hdb. reflexivity.
  - (* ODeleteAll *) inv Hr. cbn [step_fg]. unfold with_schema. cbn [s_h s_w]. rewrite Hdb. reflexivity.
  - (* OGet *) inv Hr. cbn [step_fg]. unfold with_schema. cbn [s_h s_w]. rewrite Hdb. reflexivity.
  - (* OExist *) inv Hr. cbn [step_fg]. unfold with_schema. cbn [s_h s_w]. rewrite Hdb. reflexivity.
  - (* OCount *) inv Hr. cbn [step_fg]. unfold with_schema. cbn [s_h s_w]. rewrite Hdb. reflexivity.
  - (* OAll *) inv Hr. cbn [step_fg]. unfold with_schema. cbn [s_h s_w]. rewrite Hdb. reflexivity.
  - (* OSearch *) inv Hr. cbn [step_fg]. unfold with_schema. cbn [s_h s_w]. rewrite Hdb. reflexivity.
  - (* OAssignIndex *) inv Hr. cbn [step_fg]. unfold with_schema. cbn [s_h s_w]. rewrite Hdb. reflexivity.
  - (* OCommit *) inv Hr. cbn [step_fg]. unfold commit. cbn [s_h s_w]. rewrite Hdb. reflexivity.
  - (* ORepair *) inv Hr. cbn [step_fg s_h s_w]. rewrite Hdb. reflexivity.
  - (* OSchema *) inv Hr. cbn [step_fg s_h s_w]. rewrite Hdb. reflexivity.
Qed.
Print Assumptions structure_changed_refuses_everything.

Corollary structure_changed_no_effect hk ls s sf o r :
  h_mem (s_h s) = None -> d_dir (w_disk (s_w s)) = true ->
  d_schema (w_disk (s_w s)) = Some (SOk sf) -> sf_shape sf <> ls ->
  refused_out o = Some r ->
  let s' := fst (step_fg hk ls s o) in
  snd (step_fg hk ls s o) = r /\ s_w s' = s_w s /\ h_mem (s_h s') = None /\
  h_cache (s_h s') = h_cache (s_h s) /\ h_pend (s_h s') = h_pend (s_h s) /\ h_fl (s_h s') = h_fl (s_h s).
Proof.
  intros Hm Hd Hs Hne Hr.
  rewrite (structure_changed_refuses_everything hk ls s sf o r Hm Hd Hs Hne Hr). cbn [fst snd].
  destruct o; cbn [refused_state]; cbn; auto 10.
Qed.

(* ---------------------------------------------------------------- 4d: reload, re-Create *)

Theorem reload_roundtrip m :
  mem_of (sfile_of m) =
  {| m_set := m_set m; m_fields := m_fields m; m_shape := m_shape m;
     m_idx := oi_reload (m_idx m); m_started := false |}.
Proof. reflexivity. Qed.
Print Assumptions reload_roundtrip.

Theorem reload_idx_unchanged m :
  oi_next (m_idx m) = N.succ (max_oid (oi_ids (m_idx m))) ->
  m_idx (mem_of (sfile_of m)) = m_idx m.
Proof.
  intros H. cbn. unfold oi_reload. rewrite <- H. destruct (m_idx m); reflexivity.
Qed.
Print Assumptions reload_idx_unchanged.

(* the id table and the field indexes always survive; only the next-id counter is recomputed *)
Theorem reload_keeps_entries m :
  oi_ids (m_idx (mem_of (sfile_of m))) = oi_ids (m_idx m) /\
  oi_fx (m_idx (mem_of (sfile_of m))) = oi_fx (m_idx m).
Proof. split; reflexivity. Qed.

Lemma kind_eqb_refl k : kind_eqb k k = true.
Proof. destruct k; reflexivity. Qed.

Lemma fdesc_eqb_refl d : fdesc_eqb d d = true.
Proof. unfold fdesc_eqb. rewrite kind_eqb_refl, !Bool.eqb_reflx. reflexivity. Qed.

Lemma fds_compatible_refl fds :
  Nat.eqb (length fds) (length fds) && forallb (fun p => fdesc_eqb (fst p) (snd p)) (combine fds fds) = true.
Proof.
  rewrite Nat.eqb_refl. cbn [andb]. induction fds as [|d fds IH]; cbn; [reflexivity|].
  rewrite fdesc_eqb_refl. exact IH.
Qed.

Lemma save_schema_sfile w m m' : sfile_of m' = sfile_of m -> save_schema w m' = save_schema w m.
Proof. intros E. unfold save_schema. rewrite E. reflexivity. Qed.

Lemma save_schema_nofault w m : w_fail w = None -> w_dead w = false ->
  exists w', save_schema w m = (None, w') /\ d_schema (w_disk w') = Some (SOk (sfile_of m)) /\
    d_files (w_disk w') = d_files (w_disk w) /\ d_other (w_disk w') = d_other (w_disk w) /\
    d_dir (w_disk w') = true.
Proof.
  intros Hf Hd. unfold save_schema, fs_mkdir. destruct (d_dir (w_disk w)) eqn:Hdir.
  - cbn [negb]. unfold fs_write_schema, fs_mut. rewrite Hd, Hf. cbn. eexists. repeat split. exact Hdir.
  - unfold fs_write_schema, fs_mut. rewrite Hd, Hf. cbn. eexists. repeat split.
Qed.

(* Create again with the settings and descriptors the loaded schema already has.
   Exact description of the outcome; two things are NOT the identity:
   - m_started is reset when async writes are on (Schema.update installs a fresh Async value whose
     routineStarted is false): the next call starts a SECOND flusher, see the example below;
   - the cache is emptied when the schema does not maintain one. *)
Theorem create_idempotent_partial hk ls s m s' r :
  h_mem (s_h s) = Some m ->
  step_fg hk ls s (OCreate (m_set m) (m_fields m)) = (s', r) ->
  (exists m1, h_mem (s_h s') = Some m1 /\ m_idx m1 = m_idx m /\ m_set m1 = m_set m /\
              m_fields m1 = m_fields m /\ m_shape m1 = m_shape m /\
              m_started m1 = (if async_on m then false else m_started m)) /\
  h_cache (s_h s') = (if must_cache m then h_cache (s_h s) else []) /\
  h_pend (s_h s') = h_pend (s_h s) /\ h_srch (s_h s') = h_srch (s_h s) /\
  h_cancel (s_h s') = h_cancel (s_h s) /\
  r = RUnit (lift_e (fst (save_schema (s_w s) m))) /\ s_w s' = snd (save_schema (s_w s) m).
Proof.
  intros Hm H. cbn [step_fg] in H.
  rewrite (db_schema_loaded ls (s_h s) (w_disk (s_w s)) m Hm) in H.
  pose proof (start_flusher_stores (s_h s)) as [Sc [Sp [Ss Sn]]].
  unfold start_flusher in *. rewrite Hm in *.
  assert (Hsf : forall st0 b, sfile_of {| m_set := {| st_cache := st_cache (m_set m); st_async := st_async (m_set m);
                                                     st_compress := st_compress (m_set m); st_ext := st_ext (m_set m) |};
                                       m_fields := m_fields m; m_shape := m_shape m; m_idx := m_idx m; m_started := b |}
                              = sfile_of m \/ st0 = st0).
  { intros. left. unfold sfile_of. cbn. destruct (m_set m); reflexivity. }
  assert (Hset : {| st_cache := st_cache (m_set m); st_async := st_async (m_set m);
                    st_compress := st_compress (m_set m); st_ext := st_ext (m_set m) |} = m_set m)
    by (destruct (m_set m); reflexivity).
  unfold async_on, must_cache, async_on in *.
  destruct (st_async (m_set m)) as [[thr tmo]|] eqn:Ha.
  - (* async on *)
    cbn [andb negb] in *.
    destruct (negb (m_started m)) eqn:Hst; cbn [h_mem set_fl set_mem] in H.
    + cbn [m_set m_fields] in H. rewrite str_eqb_refl, fds_compatible_refl in H. cbn [negb] in H.
      rewrite Ha in H. cbn [andb negb] in H. rewrite Ha in H. cbn [m_set st_cache st_async orb] in H.
      rewrite orb_true_r in H.
      match type of H with context [save_schema ?w ?mm] =>
        rewrite (save_schema_sfile w mm m) in H by (unfold sfile_of; cbn; rewrite Hset; reflexivity) end.
      destruct (save_schema (s_w s) m) as [e1 w1]. inv H. cbn in *.
      rewrite orb_true_r. split; [eexists; split; [reflexivity|]; cbn; rewrite Hset; auto 10|]. auto 10.
    + cbn [m_set m_fields] in H. rewrite Hm in H. rewrite str_eqb_refl, fds_compatible_refl in H. cbn [negb] in H.
      rewrite Ha in H. cbn [andb negb] in H. rewrite Ha in H. cbn [m_set st_cache st_async orb] in H.
      rewrite orb_true_r in H.
      match type of H with context [save_schema ?w ?mm] =>
        rewrite (save_schema_sfile w mm m) in H by (unfold sfile_of; cbn; rewrite Hset; reflexivity) end.
      destruct (save_schema (s_w s) m) as [e1 w1]. inv H. cbn in *.
      rewrite orb_true_r. split; [eexists; split; [reflexivity|]; cbn; rewrite Hset; auto 10|]. auto 10.
  - (* async off *)
    cbn [andb] in *. rewrite Hm in H. rewrite str_eqb_refl, fds_compatible_refl in H. cbn [negb] in H.
    rewrite Ha in H. cbn [andb negb] in H. rewrite Ha in H. cbn [m_set st_cache st_async] in H.
    rewrite orb_false_r in *.
    match type of H with context [save_schema ?w ?mm] =>
      rewrite (save_schema_sfile w mm m) in H by (unfold sfile_of; cbn; rewrite Hset; reflexivity) end.
    destruct (save_schema (s_w s) m) as [e1 w1]. inv H.
    destruct (st_cache (m_set m)); cbn in *;
      (split; [eexists; split; [reflexivity|]; cbn; rewrite Hset; auto 10|]); auto 10.
Qed.
Print Assumptions create_idempotent_partial.
