(* Proofs/DBStruct4.v: directory layout (C18), the schema guard (C17), schema reload (C04). *)
From Coq Require Import List ZArith NArith Bool Lia.
Import ListNotations.
From Sod.Model Require Import Base FieldIndex ObjIndex DB Instance.
From Sod.Proofs Require Import DBBasic DBStruct1 DBStruct2 DBStruct3.

(* ---------------------------------------------------------------- 4a: layout *)

Theorem file_of_injective m u u' : file_of m u = file_of m u' -> u = u'.
Proof. intros H. apply (f_equal fn_uuid) in H. exact H. Qed.
Print Assumptions file_of_injective.

(* [fname_eqb_eq : fname_eqb f g = true <-> f = g] is proved in DBStruct1 *)
Theorem fname_eqb_spec f g : fname_eqb f g = true <-> f = g.
Proof. apply fname_eqb_eq. Qed.
Print Assumptions fname_eqb_spec.

(* the file of a uuid is the uuid followed by the collection's suffix; a file the collection
   wrote for u is listed by the directory scan under u *)
Theorem file_of_uuid m u : fn_uuid (file_of m u) = u /\ fn_suffix (file_of m u) = suffix_of (m_set m).
Proof. split; reflexivity. Qed.

(* ---------------------------------------------------------------- 4b: a refused Create *)

Lemma write_object_err_range w m u o e w' : write_object w m u o = (Some e, w') -> e = EStorage \/ e = EJson.
Proof. unfold write_object. repeat break_match; intros H; inv H; auto. Qed.

Lemma flush_list_err m l : forall w e0 x w',
  flush_list w m l e0 = (Some x, w') -> (x = EStorage \/ x = EJson) \/ e0 = Some x.
Proof.
  induction l as [|[u o] l IH]; intros w e0 x w'; cbn [flush_list].
  - intros H; inv H. auto.
  - destruct (write_object w m u o) as [[e1|] w1] eqn:Hw.
    + intros H. apply IH in H. destruct H as [H|H]; [auto|]. inv H.
      left. eapply write_object_err_range; eassumption.
    + apply IH.
Qed.

Lemma flush_all_err ls h w h' x w' :
  h_mem h <> None -> flush_all ls h w = (h', Some x, w') -> x = EStorage \/ x = EJson.
Proof.
  intros Hm. unfold flush_all. destruct (h_pend h) as [|p l]; [intros H; inv H|].
  destruct (h_mem h) as [m|] eqn:Em; [|congruence].
  rewrite (db_schema_loaded ls h (w_disk w) m Em).
  destruct (start_flusher_mem h m Em) as [m' [Hm' _]]. rewrite Hm'.
  destruct (flush_list w m' (p :: l) None) as [e1 w1] eqn:Hf. intros H; inv H.
  apply flush_list_err in Hf. destruct Hf as [Hf|Hf]; [exact Hf|discriminate].
Qed.

Definition guard_err (e : err) : Prop := e = EExtension \/ e = EFieldDesc \/ e = EStructure.

(* the branch of Create which builds a new schema, named *)
Definition create_new (ls : N) (h1 : handle) (w : world) (st : settings) (fds : list fdesc) : state * out :=
  let m := {| m_set := st; m_fields := fds; m_shape := ls; m_idx := new_index fds; m_started := false |} in
  let (ok, w1) := fs_mkdir w in
  if negb ok then (mk h1 w1, RUnit (Err EStorage)) else
  let '(e, w2) := match d_schema (w_disk w1) with
                  | None => let (ok2, w2) := fs_write_schema w1 (sfile_of m) in
                            ((if ok2 then None else Some EStorage), w2)
                  | Some _ => (None, w1)
                  end in
  match e with
  | Some x => (mk h1 w2, RUnit (Err x))
  | None =>
      match control_mem ls m (w_disk w2) with
      | Some x => (mk h1 w2, RUnit (Err x))
      | None => (mk (set_mem h1 (Some m)) w2, RUnit (Ok tt))
      end
  end.

Lemma step_fg_create_new hk ls s st fds h1 mo :
  db_schema ls (s_h s) (w_disk (s_w s)) = (h1, mo, Some ENotFound) ->
  step_fg hk ls s (OCreate st fds) = create_new ls h1 (s_w s) st fds.
Proof. intros Hs. cbn [step_fg]. rewrite Hs. destruct mo; reflexivity. Qed.

(* it never answers with a guard error *)
Lemma create_new_err ls h1 w st fds s' e :
  create_new ls h1 w st fds = (s', RUnit (Err e)) -> e = EStorage \/ e = EInconsistent \/ e = ECorrupted.
Proof.
  unfold create_new. destruct (fs_mkdir w) as [ok w1].
  destruct (negb ok); [intros H; inv H; auto|].
  destruct (d_schema (w_disk w1)) as [sc|].
  - destruct (control_mem ls _ (w_disk w1)) as [x|] eqn:Hcm; intros H; inv H.
    pose proof (control_mem_range _ _ _ _ Hcm) as [Y|Y]; [|auto].
    subst. apply control_mem_structure_iff in Hcm. cbn in Hcm. congruence.
  - destruct (fs_write_schema w1 _) as [ok2 w2]. destruct ok2; [|intros H; inv H; auto].
    destruct (control_mem ls _ (w_disk w2)) as [x|] eqn:Hcm; intros H; inv H.
    pose proof (control_mem_range _ _ _ _ Hcm) as [Y|Y]; [|auto].
    subst. apply control_mem_structure_iff in Hcm. cbn in Hcm. congruence.
Qed.

Theorem create_refused_no_effect hk ls s st fds s' e :
  step_fg hk ls s (OCreate st fds) = (s', RUnit (Err e)) -> guard_err e ->
  s' = mk (fst (fst (db_schema ls (s_h s) (w_disk (s_w s))))) (s_w s).
Proof.
  intros H He.
  destruct (db_schema ls (s_h s) (w_disk (s_w s))) as [[h1 mo] eo] eqn:Hs. cbn [fst].
  assert (Hnew : eo = Some ENotFound -> False).
  { intros ->. rewrite (step_fg_create_new _ _ _ _ _ _ _ Hs) in H. apply create_new_err in H.
    destruct He as [X|[X|X]]; destruct H as [Y|[Y|Y]]; congruence. }
  cbn [step_fg] in H. rewrite Hs in H.
  destruct mo as [m|]; destruct eo as [e0|].
  - destruct e0; try (inv H; reflexivity). exfalso. apply Hnew. reflexivity.
  - pose proof (db_schema_some_mem _ _ _ _ _ _ Hs) as Hm1.
    destruct (negb (str_eqb _ _)); [inv H; reflexivity|].
    destruct (negb (_ && _)); [inv H; reflexivity|].
    destruct (if async_on m && negb _ then flush_all ls h1 (s_w s) else (h1, None, s_w s)) as [[h2 fe] w0] eqn:Hf.
    destruct fe as [x|].
    + inv H. exfalso. destruct (async_on m && negb _); [|inv Hf].
      apply flush_all_err in Hf; [|congruence].
      destruct He as [X|[X|X]]; destruct Hf as [Y|Y]; congruence.
    + destruct (save_schema w0 _) as [e1 w1] eqn:Hsv. inv H.
      destruct e1 as [x|]; [|discriminate]. cbn in *.
      match goal with Hx : Err _ = Err _ |- _ => inv Hx end.
      apply save_schema_err in Hsv. subst. destruct He as [X|[X|X]]; discriminate.
  - destruct e0; try (inv H; reflexivity). exfalso. apply Hnew. reflexivity.
  - inv H. destruct He as [X|[X|X]]; discriminate.
Qed.
Print Assumptions create_refused_no_effect.

Corollary create_refused_stores hk ls s st fds s' e :
  step_fg hk ls s (OCreate st fds) = (s', RUnit (Err e)) -> guard_err e ->
  s_w s' = s_w s /\ same_stores (s_h s) (s_h s').
Proof.
  intros H He. rewrite (create_refused_no_effect _ _ _ _ _ _ _ H He). cbn [s_w s_h mk].
  split; [reflexivity|].
  destruct (db_schema ls (s_h s) (w_disk (s_w s))) as [[h1 mo] eo] eqn:Hs. cbn [fst].
  eapply db_schema_stores; eassumption.
Qed.

(* ---------------------------------------------------------------- 4c: the struct has changed *)

Lemma db_schema_structure ls h d sf :
  h_mem h = None -> d_dir d = true -> d_schema d = Some (SOk sf) -> sf_shape sf <> ls ->
  db_schema ls h d = (h, None, Some EStructure).
Proof.
  intros Hm Hd Hs Hne. unfold db_schema. rewrite Hm, Hd, Hs. cbn [negb].
  assert (Hc : control_mem ls (mem_of sf) d = Some EStructure).
  { apply control_mem_structure_iff. exact Hne. }
  rewrite Hc. reflexivity.
Qed.

Definition refused_out (o : op) : option out :=
  match o with
  | OInsert _ _ _ | ODelete _ | ODeleteAll _ | OCommit | ORepair _ | OSchema | OCreate _ _ =>
      Some (RUnit (Err EStructure))
  | OMany (MRec _ _ _ :: _) => Some (RMany (Err EStructure) 0%Z)
  | OGet _ => Some (RObj (Err EStructure))
  | OExist _ => Some (RBool (Err EStructure))
  | OCount => Some (RNum (Err EStructure))
  | OAll => Some (RObjs (Err EStructure))
  | OSearch _ _ _ _ => Some (RSearch (Some EStructure) 0%Z)
  | OAssignIndex _ => Some (RKeys (Err EStructure))
  | _ => None
  end.

(* the state after the refused call: untouched, except that a Search records its (failed) value *)
Definition refused_state (s : state) (o : op) : state :=
  match o with
  | OSearch sid _ _ _ =>
      mk (set_srch (s_h s) (put sid {| sr_fields := []; sr_err := Some EStructure; sr_limit := None; sr_rev := false |}
                                (h_srch (s_h s)))) (s_w s)
  | _ => s
  end.

(* hypothesis [d_dir = true] is needed: without the directory the answer is ENotFound *)
Theorem structure_changed_refuses_everything hk ls s sf o r :
  h_mem (s_h s) = None ->
  d_dir (w_disk (s_w s)) = true ->
  d_schema (w_disk (s_w s)) = Some (SOk sf) ->
  sf_shape sf <> ls ->
  refused_out o = Some r ->
  step_fg hk ls s o = (refused_state s o, r).
Proof.
  intros Hm Hd Hs Hne Hr.
  pose proof (db_schema_structure ls (s_h s) (w_disk (s_w s)) sf Hm Hd Hs Hne) as Hdb.
  destruct s as [h w]. cbn [s_h s_w] in *.
  destruct o; try discriminate Hr; cbn [refused_out] in Hr.
  - (* OCreate *) inv Hr. cbn [step_fg s_h s_w]. rewrite Hdb. reflexivity.
  - (* OInsert *) inv Hr. cbn [step_fg]. unfold do_insert, with_schema. cbn [s_h s_w]. rewrite Hdb. reflexivity.
  - (* OMany *) destruct ms as [|[u fresh ob|] ms]; try discriminate Hr. inv Hr.
    cbn [step_fg]. unfold do_many. cbn [s_h s_w]. rewrite Hdb. reflexivity.
  - (* ODelete *) inv Hr. cbn [step_fg s_h s_w]. rewrite Hdb. reflexivity.
  - (* ODeleteAll *) inv Hr. cbn [step_fg]. unfold with_schema. cbn [s_h s_w]. rewrite Hdb. reflexivity.
  - (* OGet *) inv Hr. cbn [step_fg]. unfold with_schema. cbn [s_h s_w]. rewrite Hdb. reflexivity.
  - (* OExist *) inv Hr. cbn [step_fg]. unfold with_schema. cbn [s_h s_w]. rewrite Hdb. reflexivity.
  - (* OCount *) inv Hr. cbn [step_fg]. unfold with_schema. cbn [s_h s_w]. rewrite Hdb. reflexivity.
  - (* OAll *) inv Hr. cbn [step_fg]. unfold with_schema. cbn [s_h s_w]. rewrite Hdb. reflexivity.
  - (* OSearch *) inv Hr. cbn [step_fg]. unfold with_schema. cbn [s_h s_w]. rewrite Hdb. reflexivity.
  - (* OAssignIndex *) inv Hr. cbn [step_fg]. unfold with_schema. cbn [s_h s_w]. rewrite Hdb. reflexivity.
  - (* OCommit *) inv Hr. cbn [step_fg]. unfold commit. cbn [s_h s_w]. rewrite Hdb. reflexivity.
  - (* ORepair *) inv Hr. cbn [step_fg s_h s_w]. rewrite Hdb. reflexivity.
  - (* OSchema *) inv Hr. cbn [step_fg s_h s_w]. rewrite Hdb. reflexivity.
Qed.
Print Assumptions structure_changed_refuses_everything.

Corollary structure_changed_no_effect hk ls s sf o r :
  h_mem (s_h s) = None -> d_dir (w_disk (s_w s)) = true ->
  d_schema (w_disk (s_w s)) = Some (SOk sf) -> sf_shape sf <> ls ->
  refused_out o = Some r ->
  let s' := fst (step_fg hk ls s o) in
  snd (step_fg hk ls s o) = r /\ s_w s' = s_w s /\ h_mem (s_h s') = None /\
  h_cache (s_h s') = h_cache (s_h s) /\ h_pend (s_h s') = h_pend (s_h s) /\ h_fl (s_h s') = h_fl (s_h s).
Proof.
  intros Hm Hd Hs Hne Hr.
  rewrite (structure_changed_refuses_everything hk ls s sf o r Hm Hd Hs Hne Hr). cbn [fst snd].
  destruct o; cbn [refused_state]; cbn; auto 10.
Qed.

(* ---------------------------------------------------------------- 4d: reload, re-Create *)

Theorem reload_roundtrip m :
  mem_of (sfile_of m) =
  {| m_set := m_set m; m_fields := m_fields m; m_shape := m_shape m;
     m_idx := oi_reload (m_idx m); m_started := false |}.
Proof. reflexivity. Qed.
Print Assumptions reload_roundtrip.

Theorem reload_idx_unchanged m :
  oi_next (m_idx m) = N.succ (max_oid (oi_ids (m_idx m))) ->
  m_idx (mem_of (sfile_of m)) = m_idx m.
Proof.
  intros H. cbn. unfold oi_reload. rewrite <- H. destruct (m_idx m); reflexivity.
Qed.
Print Assumptions reload_idx_unchanged.

(* the id table and the field indexes always survive; only the next-id counter is recomputed *)
Theorem reload_keeps_entries m :
  oi_ids (m_idx (mem_of (sfile_of m))) = oi_ids (m_idx m) /\
  oi_fx (m_idx (mem_of (sfile_of m))) = oi_fx (m_idx m).
Proof. split; reflexivity. Qed.

Lemma kind_eqb_refl k : kind_eqb k k = true.
Proof. destruct k; reflexivity. Qed.

Lemma fdesc_eqb_refl d : fdesc_eqb d d = true.
Proof. unfold fdesc_eqb. rewrite kind_eqb_refl, !Bool.eqb_reflx. reflexivity. Qed.

Lemma fds_compatible_refl fds :
  Nat.eqb (length fds) (length fds) && forallb (fun p => fdesc_eqb (fst p) (snd p)) (combine fds fds) = true.
Proof.
  rewrite Nat.eqb_refl. cbn [andb]. induction fds as [|d fds IH]; cbn; [reflexivity|].
  rewrite fdesc_eqb_refl. exact IH.
Qed.

Lemma save_schema_sfile w m m' : sfile_of m' = sfile_of m -> save_schema w m' = save_schema w m.
Proof. intros E. unfold save_schema. rewrite E. reflexivity. Qed.

Lemma save_schema_nofault w m : w_fail w = None -> w_dead w = false ->
  exists w', save_schema w m = (None, w') /\ d_schema (w_disk w') = Some (SOk (sfile_of m)) /\
    d_files (w_disk w') = d_files (w_disk w) /\ d_other (w_disk w') = d_other (w_disk w) /\
    d_dir (w_disk w') = true.
Proof.
  intros Hf Hd. unfold save_schema, fs_mkdir. destruct (d_dir (w_disk w)) eqn:Hdir.
  - cbn [negb]. unfold fs_write_schema, fs_mut. rewrite Hd, Hf. cbn. eexists. repeat split. exact Hdir.
  - unfold fs_write_schema, fs_mut. rewrite Hd, Hf. cbn. eexists. repeat split.
Qed.

Lemma start_flusher_noasync h m : h_mem h = Some m -> async_on m = false -> start_flusher h = h.
Proof. intros Hm Ha. unfold start_flusher. rewrite Hm, Ha. reflexivity. Qed.

(* Create again with the settings and descriptors the loaded schema already has: the exact step *)
Lemma create_same_eq hk ls s m :
  h_mem (s_h s) = Some m ->
  step_fg hk ls s (OCreate (m_set m) (m_fields m)) =
  (let h1 := start_flusher (s_h s) in
   let m1 := {| m_set := m_set m; m_fields := m_fields m; m_shape := m_shape m; m_idx := m_idx m;
                m_started := if async_on m then false else m_started m |} in
   let h3 := if must_cache m then h1 else set_cache h1 [] in
   let (e, w1) := save_schema (s_w s) m in
   (mk (set_mem h3 (Some m1)) w1, RUnit (lift_e e))).
Proof.
  intros Hm. cbn [step_fg]. rewrite (db_schema_loaded ls (s_h s) (w_disk (s_w s)) m Hm).
  destruct (start_flusher_mem (s_h s) m Hm) as [m' [Hm' [Eidx [Eset [Efld Eshp]]]]].
  rewrite Hm'.
  assert (Hst : async_on m = false -> m_started m' = m_started m).
  { intros Ha. rewrite (start_flusher_noasync _ _ Hm Ha) in Hm'. congruence. }
  unfold must_cache, async_on in *. rewrite Eset, Efld, Eshp, Eidx.
  rewrite str_eqb_refl, fds_compatible_refl. cbn [negb].
  assert (Hsv : forall w b, save_schema w {| m_set := {| st_cache := st_cache (m_set m); st_async := st_async (m_set m);
                                                        st_compress := st_compress (m_set m); st_ext := st_ext (m_set m) |};
                                             m_fields := m_fields m; m_shape := m_shape m; m_idx := m_idx m;
                                             m_started := b |} = save_schema w m).
  { intros w b. apply save_schema_sfile. unfold sfile_of. cbn. destruct (m_set m); reflexivity. }
  destruct (st_async (m_set m)) as [[thr tmo]|] eqn:Ha; cbn [andb negb orb].
  - rewrite orb_true_r. cbv zeta. rewrite Hsv.
    destruct (save_schema (s_w s) m). rewrite orb_true_r.
    destruct (m_set m); cbn in *; subst; reflexivity.
  - rewrite orb_false_r, Hst by reflexivity. cbv zeta. rewrite Hsv.
    destruct (save_schema (s_w s) m). rewrite orb_false_r.
    destruct (m_set m); cbn in *; subst; reflexivity.
Qed.

(* Two things are NOT the identity:
   - m_started is reset when async writes are on (Schema.update installs a fresh Async value whose
     routineStarted is false): the next call starts a SECOND flusher, see the example below;
   - the cache is emptied when the schema does not maintain one. *)
Theorem create_idempotent_partial hk ls s m s' r :
  h_mem (s_h s) = Some m ->
  step_fg hk ls s (OCreate (m_set m) (m_fields m)) = (s', r) ->
  (exists m1, h_mem (s_h s') = Some m1 /\ m_idx m1 = m_idx m /\ m_set m1 = m_set m /\
              m_fields m1 = m_fields m /\ m_shape m1 = m_shape m /\
              m_started m1 = (if async_on m then false else m_started m)) /\
  h_cache (s_h s') = (if must_cache m then h_cache (s_h s) else []) /\
  h_pend (s_h s') = h_pend (s_h s) /\ h_srch (s_h s') = h_srch (s_h s) /\
  h_cancel (s_h s') = h_cancel (s_h s) /\
  r = RUnit (lift_e (fst (save_schema (s_w s) m))) /\ s_w s' = snd (save_schema (s_w s) m).
Proof.
  intros Hm H. rewrite (create_same_eq hk ls s m Hm) in H. cbv zeta in H.
  destruct (start_flusher_stores (s_h s)) as [Sc [Sp [Ss Sn]]].
  destruct (save_schema (s_w s) m) as [e1 w1]. inv H. cbn [s_h s_w mk fst snd].
  split; [eexists; split; [reflexivity|]; cbn; auto 10|].
  destruct (must_cache m); cbn; auto 10.
Qed.
Print Assumptions create_idempotent_partial.

(* the requested statement, for states in which a collection without cache has an empty cache
   (true of every state reached through the operations, not of an arbitrary record) and no
   fault is armed *)
Theorem create_idempotent hk ls s m s' r :
  h_mem (s_h s) = Some m ->
  (must_cache m = false -> h_cache (s_h s) = []) ->
  w_fail (s_w s) = None -> w_dead (s_w s) = false ->
  step_fg hk ls s (OCreate (m_set m) (m_fields m)) = (s', r) ->
  r = RUnit (Ok tt) /\
  (exists m1, h_mem (s_h s') = Some m1 /\ m_idx m1 = m_idx m /\ m_set m1 = m_set m /\
              m_fields m1 = m_fields m /\ m_shape m1 = m_shape m) /\
  h_cache (s_h s') = h_cache (s_h s) /\ h_pend (s_h s') = h_pend (s_h s) /\
  d_schema (w_disk (s_w s')) = Some (SOk (sfile_of m)) /\
  d_files (w_disk (s_w s')) = d_files (w_disk (s_w s)).
Proof.
  intros Hm Hc Hf Hd H.
  destruct (create_idempotent_partial _ _ _ _ _ _ Hm H) as [[m1 [A1 [A2 [A3 [A4 [A5 _]]]]]] [B [C [_ [_ [D E]]]]]].
  destruct (save_schema_nofault (s_w s) m Hf Hd) as [w' [Hs [F1 [F2 [F3 F4]]]]].
  rewrite Hs in D, E. cbn [fst snd lift_e] in D, E. subst r. rewrite E.
  split; [reflexivity|]. split; [exists m1; auto|].
  split; [|auto]. rewrite B. destruct (must_cache m); [reflexivity|]. symmetry. apply Hc. reflexivity.
Qed.
Print Assumptions create_idempotent.

(* ---------------------------------------------------------------- examples *)

Example create_refused_ex :
  snd (step_fg hk0 7%N sx1 (OCreate st_asy [fd_u])) = RUnit (Err EExtension) /\
  snd (step_fg hk0 7%N sx1 (OCreate default_settings [])) = RUnit (Err EFieldDesc) /\
  snd (step_fg hk0 8%N sx2 (OCreate default_settings [fd_u])) = RUnit (Err EStructure).
Proof. split; [vm_lhs|]. split; vm_lhs. Qed.

(* the struct shape is 8 now; the collection was written with shape 7 *)
Example structure_changed_ex :
  exists sf, h_mem (s_h sx2) = None /\ d_dir (w_disk (s_w sx2)) = true /\
    d_schema (w_disk (s_w sx2)) = Some (SOk sf) /\ sf_shape sf <> 8%N.
Proof.
  eexists. split; [vm_lhs|]. split; [vm_lhs|]. split; [vm_lhs|]. cbn. discriminate.
Qed.

(* without the directory the guard is not reached: ENotFound, and Create builds a new schema *)
Example structure_changed_needs_dir :
  let s := mk new_handle {| w_disk := {| d_dir := false; d_schema := d_schema (w_disk (s_w sx2));
                                         d_files := []; d_other := [] |};
                            w_fail := None; w_fired := false; w_crash := false; w_dead := false; w_log := [] |} in
  snd (step_fg hk0 8%N s OCount) = RNum (Err ENotFound).
Proof. intros s. vm_lhs. Qed.

(* the counter is recomputed on load: after the newest object is deleted its id is handed out
   again by the next handle (here id 1, first to uuid 2, then to uuid 3) *)
Example reload_reuses_oid :
  option_map (fun m => oi_next (m_idx m)) (h_mem (s_h (run hk0 7%N sx1 [OInsert 0 2 (ob 6); ODelete 2]))) = Some 2%N /\
  option_map (fun m => (oi_next (m_idx m), oi_ids (m_idx m)))
    (h_mem (s_h (run hk0 7%N sx1 [OInsert 0 2 (ob 6); ODelete 2; OReopen; OInsert 0 3 (ob 7)])))
  = Some (2%N, [(0%N, 1%N); (1%N, 3%N)]).
Proof. split; vm_lhs. Qed.

Example create_idempotent_ex :
  exists m, h_mem (s_h sx1) = Some m /\ (must_cache m = false -> h_cache (s_h sx1) = []) /\
    w_fail (s_w sx1) = None /\ w_dead (s_w sx1) = false /\
    m_set m = default_settings /\ m_fields m = [fd_u] /\
    snd (step_fg hk0 7%N sx1 (OCreate default_settings [fd_u])) = RUnit (Ok tt).
Proof.
  eexists. split; [vm_lhs|]. split; [intros _; vm_lhs|]. split; [vm_lhs|]. split; [vm_lhs|].
  split; [vm_lhs|]. split; vm_lhs.
Qed.

(* FINDING: Create re-issued with the (unchanged) asynchronous settings resets routineStarted,
   so the next call starts one more flusher; the previous one keeps running *)
Example create_again_duplicates_flusher :
  h_fl (s_h sz2) = [(0%Z, false)] /\
  h_fl (s_h (run hk0 7%N sz2 [OCreate st_asy [fd_u]; OCount])) = [(0%Z, false); (0%Z, false)] /\
  h_fl (s_h (run hk0 7%N sz2 [OCreate st_asy [fd_u]; OCount; OCreate st_asy [fd_u]; OCount; OTick]))
  = [(1%Z, false); (1%Z, false); (1%Z, false)].
Proof. split; [vm_lhs|]. split; vm_lhs. Qed.
