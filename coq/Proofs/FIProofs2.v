From Coq Require Import List Arith Lia Bool PeanoNat ZArith.
Import ListNotations.
From Sod.Model Require Import FieldIndex.
From Sod.Proofs Require Import FIProofs1.
Open Scope Z_scope.

Section Proofs2.
Variable K : Type.
Variable ltb eqb : K -> K -> bool.
Hypothesis lt_irrefl : forall a, ltb a a = false.
Hypothesis lt_trans : forall a b c, ltb a b = true -> ltb b c = true -> ltb a c = true.
Hypothesis lt_negtrans : forall a b c, ltb a b = false -> ltb b c = false -> ltb a c = false.
Hypothesis eq_def : forall a b, eqb a b = negb (ltb a b) && negb (ltb b a).

Notation entry := (entry K).
Notation at_ := (at_ K).
Notation len := (len K).
Notation slice := (slice K).
Notation sorted_desc := (sorted_desc K ltb).
Notation split_at := (split_at K ltb).
Notation gtb := (gtb K ltb eqb).

Lemma filter_3split (P : entry -> bool) : forall l a b, (a <= b)%nat -> (b <= length l)%nat ->
  (forall p e, (p < a)%nat -> nth_error l p = Some e -> P e = false) ->
  (forall p e, (a <= p < b)%nat -> nth_error l p = Some e -> P e = true) ->
  (forall p e, (b <= p)%nat -> nth_error l p = Some e -> P e = false) ->
  filter P l = firstn (b - a) (skipn a l) /\
  filter (fun e => negb (P e)) l = firstn a l ++ skipn b l.
Proof.
  induction l as [|x t IH]; intros a b Hab Hb H1 H2 H3.
  - cbn in Hb. assert (b = 0)%nat by lia. assert (a = 0)%nat by lia. subst. cbn. split; reflexivity.
  - cbn [length] in Hb. destruct a as [|a'].
    + destruct b as [|b'].
      * assert (Px : P x = false) by (apply (H3 0%nat x); [lia|reflexivity]).
        destruct (IH 0%nat 0%nat ltac:(lia) ltac:(lia)) as [I1 I2].
        { intros p e Hp. lia. } { intros p e Hp. lia. }
        { intros p e Hp He. apply (H3 (S p) e); [lia|exact He]. }
        cbn. rewrite Px. cbn. cbn in I1, I2. rewrite I1, I2. split; reflexivity.
      * assert (Px : P x = true) by (apply (H2 0%nat x); [lia|reflexivity]).
        destruct (IH 0%nat b' ltac:(lia) ltac:(lia)) as [I1 I2].
        { intros p e Hp. lia. }
        { intros p e Hp He. apply (H2 (S p) e); [lia|exact He]. }
        { intros p e Hp He. apply (H3 (S p) e); [lia|exact He]. }
        cbn. rewrite Px. cbn. cbn in I1, I2. rewrite Nat.sub_0_r in I1. rewrite I1, I2. split; reflexivity.
    + destruct b as [|b']; [lia|].
      assert (Px : P x = false) by (apply (H1 0%nat x); [lia|reflexivity]).
      destruct (IH a' b' ltac:(lia) ltac:(lia)) as [I1 I2].
      { intros p e Hp He. apply (H1 (S p) e); [lia|exact He]. }
      { intros p e Hp He. apply (H2 (S p) e); [lia|exact He]. }
      { intros p e Hp He. apply (H3 (S p) e); [lia|exact He]. }
      cbn. rewrite Px. cbn. rewrite I1, I2. split; reflexivity.
Qed.

Lemma slice_spec l i j : 0 <= i -> i <= j -> j <= len l ->
  slice l i j = Some (firstn (Z.to_nat j - Z.to_nat i) (skipn (Z.to_nat i) l)).
Proof.
  intros H1 H2 H3. unfold FieldIndex.slice.
  assert (E : (0 <=? i) && (i <=? j) && (j <=? len l) = true).
  { rewrite !andb_true_iff. repeat split; apply Z.leb_le; assumption. }
  rewrite E. f_equal. f_equal. lia.
Qed.

Lemma slice_single l i e : at_ l i = Some e -> slice l i (i + 1) = Some [e].
Proof.
  intros H. destruct (at_Some K l i e H) as [Hb Hn].
  rewrite slice_spec; try lia. f_equal.
  replace (Z.to_nat (i + 1) - Z.to_nat i)%nat with 1%nat by lia.
  remember (Z.to_nat i) as n. clear Heqn Hb H. revert n Hn.
  induction l as [|x t IH]; intros [|n] Hn; cbn in *; try discriminate.
  - destruct t; congruence.
  - apply IH. exact Hn.
Qed.

Lemma scan_down_spec (P : K -> bool) : forall fuel l i, -1 <= i < len l -> i + 1 < Z.of_nat fuel ->
  exists i', scan_down K P fuel l i = Some i' /\ -1 <= i' <= i /\
    (forall p e, i' < Z.of_nat p <= i -> nth_error l p = Some e -> P (fst e) = true) /\
    (0 <= i' -> exists e, nth_error l (Z.to_nat i') = Some e /\ P (fst e) = false).
Proof.
  induction fuel as [|f IH]; intros l i Hi Hf; [lia|].
  cbn [scan_down]. destruct (i <? 0) eqn:E.
  - apply Z.ltb_lt in E. exists i. split; [reflexivity|]. split; [lia|]. split.
    + intros p e Hp. lia.
    + intros H0. lia.
  - apply Z.ltb_ge in E. destruct (at_in K l i) as [e [He Hn]]; [lia|]. rewrite He.
    destruct (P (fst e)) eqn:Pe.
    + destruct (IH l (i - 1)) as [i' [R [B [A1 A2]]]]; [lia|lia|].
      exists i'. split; [exact R|]. split; [lia|]. split; [|exact A2].
      intros p e' Hp He'. destruct (Z.eq_dec (Z.of_nat p) i) as [Heq|Hne].
      * assert (p = Z.to_nat i) by lia. subst p. congruence.
      * apply A1 with p; [lia|exact He'].
    + exists i. split; [reflexivity|]. split; [lia|]. split.
      * intros p e' Hp. lia.
      * intros _. exists e. split; assumption.
Qed.

Lemma ge_as a k : gtb a k || eqb a k = negb (ltb a k).
Proof.
  rewrite (gtb_ltb K ltb eqb lt_irrefl lt_trans eq_def), eq_def.
  destruct (ltb k a) eqn:E1; cbn.
  - rewrite (lt_asym K ltb lt_irrefl lt_trans _ _ E1). reflexivity.
  - rewrite andb_true_r. reflexivity.
Qed.

Lemma le_as a k : ltb a k || eqb a k = negb (gtb a k).
Proof.
  rewrite (gtb_ltb K ltb eqb lt_irrefl lt_trans eq_def), eq_def.
  destruct (ltb a k) eqn:E1; cbn.
  - rewrite (lt_asym K ltb lt_irrefl lt_trans _ _ E1). reflexivity.
  - reflexivity.
Qed.

(* ---------- >= and < : directly from the split ---------- *)
Theorem search_ge_spec l k : sorted_desc l ->
  search_ge K ltb l k = Some (filter (fun e => gtb (fst e) k || eqb (fst e) k) l).
Proof.
  intros Hs. destruct (insertion_index_spec K ltb lt_negtrans l k Hs) as [r [Hr [Hb [Hlo Hhi]]]].
  unfold search_ge. rewrite Hr.
  assert (Hb' : (Z.to_nat r <= length l)%nat) by (unfold FieldIndex.len in Hb; lia).
  destruct (filter_3split (fun e => negb (ltb (fst e) k)) l 0%nat (Z.to_nat r) ltac:(lia) Hb') as [F _].
  { intros p e Hp. lia. }
  { intros p e Hp He. rewrite (Hlo p e); [reflexivity|lia|exact He]. }
  { intros p e Hp He. rewrite (Hhi p e); [reflexivity|lia|exact He]. }
  rewrite (filter_ext _ (fun e => negb (ltb (fst e) k))) by (intros e; apply ge_as).
  unfold FieldIndex.entry in *. rewrite F. cbn [skipn]. rewrite Nat.sub_0_r.
  destruct (r =? 0) eqn:E.
  - apply Z.eqb_eq in E. subst r. reflexivity.
  - rewrite slice_spec; try lia. cbn. rewrite Nat.sub_0_r. reflexivity.
Qed.

Theorem search_lt_spec l k : sorted_desc l ->
  search_lt K ltb l k = Some (filter (fun e => ltb (fst e) k) l).
Proof.
  intros Hs. destruct (insertion_index_spec K ltb lt_negtrans l k Hs) as [r [Hr [Hb [Hlo Hhi]]]].
  unfold search_lt. rewrite Hr.
  assert (Hb' : (Z.to_nat r <= length l)%nat) by (unfold FieldIndex.len in Hb; lia).
  destruct (filter_3split (fun e => negb (ltb (fst e) k)) l 0%nat (Z.to_nat r) ltac:(lia) Hb') as [_ F].
  { intros p e Hp. lia. }
  { intros p e Hp He. rewrite (Hlo p e); [reflexivity|lia|exact He]. }
  { intros p e Hp He. rewrite (Hhi p e); [reflexivity|lia|exact He]. }
  rewrite (filter_ext _ (fun e => negb (negb (ltb (fst e) k)))) by (intros e; rewrite negb_involutive; reflexivity).
  unfold FieldIndex.entry in *. rewrite F. cbn [firstn app].
  unfold last_index. destruct (len l - 1 <? r) eqn:E.
  - apply Z.ltb_lt in E. assert (r = len l) by lia. subst r.
    unfold FieldIndex.len. rewrite Nat2Z.id. rewrite skipn_all. reflexivity.
  - apply Z.ltb_ge in E. rewrite slice_spec; try lia.
    f_equal. unfold FieldIndex.len. rewrite Nat2Z.id.
    rewrite firstn_all2; [reflexivity|]. rewrite skipn_length. lia.
Qed.

End Proofs2.
