(* Proofs/Robust.v: C19 at the level of the handle: whatever the collection directory holds
   (no directory, no schema, an unparsable schema = SBad, a schema with ANY index content, object
   files that are unreadable = CBad or are directories = CDir, stray entries) and whatever the
   arguments of a search, the schema lookup and the search return a result or an error of a
   documented class; a search that failed denotes no object. *)
From Coq Require Import List ZArith NArith Bool Lia Arith.
Import ListNotations.
From Sod.Model Require Import Base FieldIndex ObjIndex DB.
From Sod.Proofs Require Import FIProofs1 FIProofs2 FIProofs3 FIProofs4 FIProofs5 KeyOrder SearchSpec OIProofs OIProofs2
     DBBasic DBStruct1 LoadWF.
Close Scope Z_scope.

(* ================================================================ the lazy load *)

Definition load_err (e : err) : Prop :=
  e = ENotFound \/ e = EJson \/ e = EStructure \/ e = EInconsistent \/ e = ECorrupted.

Lemma control_mem_classes ls m d e : control_mem ls m d = Some e -> e = EStructure \/ e = EInconsistent \/ e = ECorrupted.
Proof. unfold control_mem. repeat break_match; intros H; inv H; tauto. Qed.

(* the first access after Open on an ARBITRARY directory: no panic by construction (the result
   type has no panic outcome), the error is one of five documented classes, a schema is cached
   exactly when there is no error or the only error is index corruption (the Repair case) *)
Theorem load_classified ls h d h' mo eo : h_mem h = None -> db_schema ls h d = (h', mo, eo) ->
  (forall e, eo = Some e -> load_err e) /\
  (mo = None <-> exists e, eo = Some e /\ e <> ECorrupted) /\
  (mo = None -> h' = h).
Proof.
  unfold db_schema, load_err. intros Hm. rewrite Hm.
  destruct (d_dir d); cbn [negb]; [|intros H; inv H; split; [intros e E; inv E; tauto|split; [split; [intros _; exists ENotFound; split; [reflexivity|discriminate]|reflexivity]|reflexivity]]].
  destruct (d_schema d) as [[sf|]|].
  - destruct (control_mem ls (mem_of sf) d) as [e|] eqn:Ec.
    + destruct (control_mem_classes _ _ _ _ Ec) as [-> | [-> | ->]]; intros H; inv H.
      * split; [intros e E; inv E; tauto|]. split; [|reflexivity]. split; [intros _; exists EStructure; split; [reflexivity|discriminate]|reflexivity].
      * split; [intros e E; inv E; tauto|]. split; [|reflexivity]. split; [intros _; exists EInconsistent; split; [reflexivity|discriminate]|reflexivity].
      * split; [intros e E; inv E; tauto|]. split.
        -- split; [|intros [e [E Hne]]; inv E; congruence].
           unfold start_flusher, set_mem. cbn [h_mem]. repeat break_match; discriminate.
        -- unfold start_flusher, set_mem. cbn [h_mem]. repeat break_match; discriminate.
    + intros H; inv H. split; [intros e E; discriminate|]. split.
      * split; [|intros [e [E _]]; discriminate]. unfold start_flusher, set_mem. cbn [h_mem]. repeat break_match; discriminate.
      * unfold start_flusher, set_mem. cbn [h_mem]. repeat break_match; discriminate.
  - intros H; inv H. split; [intros e E; inv E; tauto|]. split; [|reflexivity]. split; [intros _; exists EJson; split; [reflexivity|discriminate]|reflexivity].
  - intros H; inv H. split; [intros e E; inv E; tauto|]. split; [|reflexivity]. split; [intros _; exists ENotFound; split; [reflexivity|discriminate]|reflexivity].
Qed.
Print Assumptions load_classified.

Lemma oi_control_reload ix : oi_control (oi_reload ix) = oi_control ix.
Proof. reflexivity. Qed.

Lemma start_flusher_idx h m : h_mem h = Some m ->
  exists m', h_mem (start_flusher h) = Some m' /\ m_idx m' = m_idx m /\ m_fields m' = m_fields m.
Proof.
  intros Hm. unfold start_flusher. rewrite Hm. destruct (async_on m && negb (m_started m)).
  - eexists. split; [reflexivity|]. split; reflexivity.
  - exists m. split; [exact Hm|]. split; reflexivity.
Qed.

(* ACCEPTED => WELL FORMED at the level of the handle: whatever schema.json contained, the index of
   a schema the handle has cached satisfies the full index invariant (for the field table adjusted
   to the shape of the index): C19's "no later operation can hit a type or id confusion" *)
Theorem loaded_schema_wf ls h d h' m eo sf :
  h_mem h = None -> d_schema d = Some (SOk sf) -> decoded (sf_fields sf) (sf_idx sf) ->
  db_schema ls h d = (h', Some m, eo) ->
  m_fields m = sf_fields sf /\ OIInv (adjust (m_fields m) (oi_fx (m_idx m))) (m_idx m).
Proof.
  intros Hm Hs D. unfold db_schema. rewrite Hm, Hs. destruct (d_dir d); cbn [negb]; [|intros H; inv H].
  assert (K : forall e, control_mem ls (mem_of sf) d = e -> (e = None \/ e = Some ECorrupted) ->
              oi_control (sf_idx sf) = true).
  { intros e Ec He. unfold control_mem in Ec. cbn [mem_of m_idx m_shape] in Ec.
    rewrite oi_control_reload in Ec. destruct (oi_control (sf_idx sf)); [reflexivity|].
    destruct (negb (sf_shape sf =? ls)%N); cbn in Ec; subst e; destruct He; discriminate. }
  destruct (control_mem ls (mem_of sf) d) as [e|] eqn:Ec.
  - destruct e; intros H; inv H.
    assert (Hc : oi_control (sf_idx sf) = true) by (apply (K _ eq_refl); right; reflexivity).
    destruct (start_flusher_idx (set_mem h (Some (mem_of sf))) (mem_of sf) eq_refl) as [m' [E1 [E2 E3]]].
    match goal with H : h_mem _ = Some m |- _ => rewrite E1 in H; inv H end.
    rewrite E2, E3. cbn [mem_of m_idx m_fields]. split; [reflexivity|].
    apply (loaded_index_wf _ _ D Hc).
  - intros H; inv H.
    assert (Hc : oi_control (sf_idx sf) = true) by (apply (K _ eq_refl); left; reflexivity).
    destruct (start_flusher_idx (set_mem h (Some (mem_of sf))) (mem_of sf) eq_refl) as [m' [E1 [E2 E3]]].
    match goal with H : h_mem _ = Some m |- _ => rewrite E1 in H; inv H end.
    rewrite E2, E3. cbn [mem_of m_idx m_fields]. split; [reflexivity|].
    apply (loaded_index_wf _ _ D Hc).
Qed.
Print Assumptions loaded_schema_wf.

(* ================================================================ search arguments *)

(* the classes a search can report *)
Definition search_err (e : err) : Prop :=
  e = EUnknownField \/ e = ECasting \/ e = EUnknownOp \/ e = EBadPattern \/
  e = ENotFound \/ e = EJson \/ e = ECorrupted \/ e = EOther.

Lemma get_with_err h m d u h' e : get_with h m d u = (h', Err e) -> e = ENotFound \/ e = EJson \/ e = EOther.
Proof. unfold get_with. repeat break_match; intros H; inv H; tauto. Qed.

Lemma unresolved_err_class m : unresolved_err m = EOther \/ unresolved_err m = ENotFound.
Proof. unfold unresolved_err. destruct (suffix_of (m_set m)); tauto. Qed.

Lemma scan_err m d fld o probe rx us : forall h acc h' r e,
  scan h m d fld o probe rx us acc = (h', r, Some e) -> search_err e.
Proof.
  unfold search_err. induction us as [|[u|] us IH]; intros h acc h' r e; cbn [scan].
  - intros H; inv H.
  - destruct (get_with h m d u) as [h1 [ob|e1|]] eqn:G.
    + repeat break_match; try (intros H; inv H; tauto); apply IH.
    + intros H; inv H. destruct (get_with_err _ _ _ _ _ _ G) as [-> | [-> | ->]]; tauto.
    + intros H; inv H. tauto.
  - intros H; inv H. destruct (unresolved_err_class m) as [-> | ->]; tauto.
Qed.

(* whatever the field, the operator, the probe and the previous result: a search returns a result
   or one of the documented classes; on the indexed path an error comes with NO entry at all *)
Theorem search_args_classified hk h m d fld o probe c h' r :
  search_with hk h m d fld o probe c = (h', r) ->
  (forall e, sr_err r = Some e -> search_err e) /\
  (forall f l, fld = Some f -> nth_opt f (oi_fx (m_idx m)) = Some (Some l) -> sr_err r <> None -> sr_fields r = []).
Proof.
  unfold search_with, search_err. cbv zeta. intros H.
  assert (F : forall e0, (h, {| sr_fields := []; sr_err := Some e0; sr_limit := None; sr_rev := false |}) = (h', r) ->
              (e0 = EUnknownField \/ e0 = ECasting \/ e0 = EUnknownOp \/ e0 = EBadPattern \/
               e0 = ENotFound \/ e0 = EJson \/ e0 = ECorrupted \/ e0 = EOther) ->
    (forall e, sr_err r = Some e -> e = EUnknownField \/ e = ECasting \/ e = EUnknownOp \/ e = EBadPattern \/
               e = ENotFound \/ e = EJson \/ e = ECorrupted \/ e = EOther) /\
    (forall f l, fld = Some f -> nth_opt f (oi_fx (m_idx m)) = Some (Some l) -> sr_err r <> None -> sr_fields r = [])).
  { intros e0 E0 Hc. inv E0. cbn [sr_err sr_fields]. split; [intros e E; injection E as <-; exact Hc|reflexivity]. }
  destruct fld as [f|]; [|apply (F _ H); tauto].
  destruct (nth_opt f (m_fields m)) as [fd|]; [|apply (F _ H); tauto].
  destruct (nth_opt f (oi_fx (m_idx m))) as [[l|]|] eqn:Ef; [| |apply (F _ H); tauto].
  - (* indexed *)
    destruct (negb (kind_eqb (fd_kind fd) (kind_of (canon_key hk fd probe)))); [apply (F _ H); tauto|].
    destruct (match c with Some c0 => fi_constrain l c0 | None => Some l end) as [li|]; [|apply (F _ H); tauto].
    destruct (fi_search li o (canon_key hk fd probe) (rx_of hk (canon_key hk fd probe))) as [rr|e1|] eqn:Es;
      [|apply (F _ H)|apply (F _ H); tauto].
    + inv H. cbn [sr_err sr_fields]. split; [intros e E; discriminate|]. intros f0 l0 _ _ Hne. congruence.
    + unfold fi_search in Es. destruct o; try (unfold of_opt in Es; repeat break_match; discriminate);
        repeat break_match; try discriminate; inv Es; tauto.
  - (* full scan *)
    split; [|intros f0 l0 E0 E1; inv E0; congruence].
    destruct (negb (kind_eqb (fd_kind fd) (kind_of (canon_key hk fd probe)))); [apply (F _ H); tauto|].
    destruct o; try (apply (F _ H); tauto);
      repeat break_match; try (apply (F _ H); tauto); inv H; cbn [sr_err]; intros e E; subst;
      match goal with Hs : scan _ _ _ _ _ _ _ _ _ = (_, _, Some _) |- _ => apply (scan_err _ _ _ _ _ _ _ _ _ _ _ _ Hs) end.
Qed.
Print Assumptions search_args_classified.

(* a search that could not be evaluated denotes no object: Collect, One and Delete on it return its
   error and touch nothing on disk *)
Theorem failed_search_denotes_nothing hk ls s sid e :
  sr_err (find_srch (s_h s) sid) = Some e ->
  (forall lim rv, snd (step_fg hk ls s (OCollect sid lim rv)) = RObjs (Err e) /\ s_w (fst (step_fg hk ls s (OCollect sid lim rv))) = s_w s) /\
  (step_fg hk ls s (OOne sid) = (s, RObj (Err e))) /\
  (step_fg hk ls s (OSearchDelete sid) = (s, RUnit (Err e))).
Proof.
  intros He. split; [|split].
  - intros lim rv. unfold step_fg. cbn [sr_err]. rewrite He. split; reflexivity.
  - unfold step_fg. rewrite He. reflexivity.
  - unfold step_fg. rewrite He. reflexivity.
Qed.
Print Assumptions failed_search_denotes_nothing.

(* refining a failed search keeps the failure *)
Theorem failed_search_stays_failed hk ls s sid old fld o probe e :
  sr_err (find_srch (s_h s) old) = Some e ->
  exists n, snd (step_fg hk ls s (OAnd sid old fld o probe)) = RSearch (Some e) n /\
            snd (step_fg hk ls s (OOr sid old fld o probe)) = RSearch (Some e) n.
Proof. intros He. unfold step_fg. rewrite He. eexists. split; reflexivity. Qed.
