(* Proofs/Delete.v: C01 / C02 at the level of the handle: DeleteObjects (DeleteAll, Search.Delete)
   removes exactly the listed objects; deleting through a search removes exactly the matching ones. *)
From Coq Require Import List ZArith NArith Bool Lia Arith Permutation.
Import ListNotations.
From Sod.Model Require Import Base FieldIndex ObjIndex DB.
From Sod.Proofs Require Import FIProofs1 FIProofs2 FIProofs3 FIProofs4 FIProofs5 KeyOrder SearchSpec
     OIProofs OIProofs2 DBBasic DBStruct1 DBStruct3 Refine1 Refine2 Refine3 Refine4 SearchDB.
Close Scope Z_scope.

Definition removes (us : list N) (a : list (N * obj)) : list (N * obj) :=
  fold_left (fun x u => remove_key u x) us a.

Lemma removes_In us : forall a p, In p (removes us a) <-> In p a /\ ~ In (fst p) us.
Proof.
  induction us as [|u r IH]; intros a p; cbn [removes fold_left].
  - split; [intros H; split; [exact H|intros []]|intros [H _]; exact H].
  - fold (removes r (remove_key u a)). rewrite IH. unfold remove_key. rewrite filter_In, negb_true_iff, N.eqb_neq.
    cbn [In]. split.
    + intros [[H1 H2] H3]. split; [exact H1|]. intros [X|X]; [congruence|contradiction].
    + intros [H1 H2]. split; [split; [exact H1|]|]; intros X; apply H2; [left; symmetry; exact X|right; exact X].
Qed.

Lemma removes_all us a : (forall k, In k (map fst a) -> In k us) -> removes us a = [].
Proof.
  intros H. destruct (removes us a) as [|p r] eqn:E; [reflexivity|].
  assert (Hin : In p (removes us a)) by (rewrite E; left; reflexivity).
  apply removes_In in Hin. destruct Hin as [H1 H2]. exfalso. apply H2. apply H. apply in_map. exact H1.
Qed.

(* ================================================================ the deletion loop *)

Lemma delete_loop_ok ls : forall us h w m,
  h_mem h = Some m -> nofault w -> InvCore ls (h_cache h) (h_pend h) (w_disk w) m ->
  exists h' w' m', delete_loop h w (map (fun u => Some u) us) = (h', Ok tt, w') /\
    h_mem h' = Some m' /\ nofault w' /\ InvCore ls (h_cache h') (h_pend h') (w_disk w') m' /\
    m_fields m' = m_fields m /\
    abs_of (h_pend h') (w_disk w') m' = removes us (abs_of (h_pend h) (w_disk w) m).
Proof.
  induction us as [|u r IH]; intros h w m Hm Hn I.
  - exists h, w, m. cbn. split; [reflexivity|]. split; [exact Hm|]. split; [exact Hn|]. split; [exact I|]. split; reflexivity.
  - cbn [map delete_loop]. rewrite Hm. cbn [fst].
    destruct (get_with_ok ls h (w_disk w) m u I) as [h0 [G [M0 [P0 I0]]]]. rewrite G. cbn [fst].
    rewrite <- P0 in I0.
    destruct (delete_core_ok ls h0 w m u ltac:(rewrite M0; exact Hm) Hn I0) as [h1 [w1 [m1 [E [M1 [N1 [I1 [F1 [A1 _]]]]]]]]].
    rewrite E.
    destruct (IH h1 w1 m1 M1 N1 I1) as [h' [w' [m' [E' [M' [N' [I' [F' A']]]]]]]].
    exists h', w', m'. rewrite E'. split; [reflexivity|]. split; [exact M'|]. split; [exact N'|]. split; [exact I'|].
    split; [congruence|]. rewrite A', A1, P0. reflexivity.
Qed.

(* DeleteObjects over resolved uuids, then the deferred commit *)
Theorem delete_objects_ok ls h w fds a us :
  LState ls h w fds a ->
  exists s', do_delete_objects ls h w (map (fun u => Some u) us) = (s', RUnit (Ok tt)) /\
             Inv ls s' /\ abs s' = Some {| sp_fds := fds; sp_map := removes us a |}.
Proof.
  intros [m [Hm [Hn [[I _] [Hf Ha]]]]]. unfold do_delete_objects.
  destruct (delete_loop_ok ls us h w m Hm Hn I) as [h1 [w1 [m1 [E [M1 [N1 [I1 [F1 A1]]]]]]]]. rewrite E.
  destruct (commit_ok ls h1 w1 m1 M1 N1 I1) as [h2 [w2 [C [L2 _]]]]. rewrite C.
  destruct (LState_Inv _ _ _ _ _ L2) as [I2 A2].
  exists (mk h2 w2). split; [reflexivity|]. split; [exact I2|]. rewrite A2, F1, Hf, A1, Ha. reflexivity.
Qed.

(* ================================================================ DeleteAll *)

Theorem delete_all_refines hk ls h w fds a order :
  Inv ls (mk h w) -> abs (mk h w) = Some {| sp_fds := fds; sp_map := a |} ->
  exists s', step_fg hk ls (mk h w) (ODeleteAll order) = (s', RUnit (Ok tt)) /\
             Inv ls s' /\ abs s' = Some {| sp_fds := fds; sp_map := [] |}.
Proof.
  intros I Ha.
  destruct (db_schema_ok ls h w fds a I Ha) as [h1 [m1 [D [M1 [L1 _]]]]].
  destruct (LState_mem _ _ _ _ _ _ L1 M1) as [Hn [[IC1 _] [Hf1 Ha1]]].
  unfold step_fg. cbv zeta. cbn [mk s_h s_w]. rewrite (with_schema_some ls (mk h w) _ _ h1 m1 D).
  destruct (delete_objects_ok ls h1 w fds a (order_by order (map snd (oi_ids (m_idx m1)))) L1) as [s' [E [I' A']]].
  exists s'. split; [exact E|]. split; [exact I'|]. rewrite A'. f_equal. f_equal.
  apply removes_all. intros k Hk. rewrite <- Ha1, (abs_keys _ _ _ _ _ IC1) in Hk.
  unfold order_by. rewrite in_app_iff, !filter_In.
  destruct (memN k order) eqn:E1.
  - left. split; [apply rf_memN_In; exact E1|apply rf_memN_In; exact Hk].
  - right. split; [exact Hk|reflexivity].
Qed.
Print Assumptions delete_all_refines.

Lemma resolved_all m : forall l, (forall e, In e l -> exists u, oid_uuid (m_idx m) (snd e) = Some u) ->
  map (fun e => oid_uuid (m_idx m) (snd e)) l = map (fun u => Some u) (resolved m l).
Proof.
  induction l as [|e l IH]; intros H; [reflexivity|]. unfold resolved in *. cbn [map flat_map].
  destruct (H e (or_introl eq_refl)) as [u Eu]. rewrite Eu. cbn [app map]. f_equal. apply IH.
  intros e' He'. apply H. right. exact He'.
Qed.

(* ================================================================ Search(...).Delete() *)

(* deleting through a search removes exactly the matched objects: every configuration, field
   indexed or not.  [a'] is the collection afterwards. *)
Theorem search_delete_refines hk ls h w fds a sid f fd o probe rxm :
  let probe' := canon_key hk fd probe in
  Inv ls (mk h w) -> abs (mk h w) = Some {| sp_fds := fds; sp_map := a |} ->
  nth_error fds f = Some fd ->
  (forall u ob, In (u, ob) a -> exists k, nth_error (o_keys ob) f = Some k /\ kind_of k = kind_of probe') ->
  fd_kind fd = kind_of probe' -> o <> OpBad ->
  (o = OpRx -> rx_of hk probe' = Some rxm /\ exists s, probe' = KStr s) ->
  exists s1 n s2 a',
    step_fg hk ls (mk h w) (OSearch sid (Some f) o probe) = (s1, RSearch None n) /\
    n = Z.of_nat (length (filter (fun p => matches f o rxm probe' (snd p)) a)) /\
    step_fg hk ls s1 (OSearchDelete sid) = (s2, RUnit (Ok tt)) /\
    Inv ls s2 /\ abs s2 = Some {| sp_fds := fds; sp_map := a' |} /\
    (forall u ob, In (u, ob) a' <-> (In (u, ob) a /\ matches f o rxm probe' ob = false)).
Proof.
  cbv zeta. intros I Ha Hfd WKa Hkind Hop Hrx.
  destruct (db_schema_ok ls h w fds a I Ha) as [h1 [m1 [D [M1 [L1 _]]]]].
  destruct (LState_mem _ _ _ _ _ _ L1 M1) as [Hn [[IC1 IS1] [Hf1 Ha1]]].
  assert (WK : well_kinded (h_pend h1) (w_disk w) m1 f (canon_key hk fd probe)).
  { intros u ob S. apply (WKa u ob). rewrite <- Ha1. apply (abs_In _ _ _ _ _ IC1). exact S. }
  assert (Hfd1 : nth_error (m_fields m1) f = Some fd) by (rewrite Hf1; exact Hfd).
  destruct (search_with hk h1 m1 (w_disk w) (Some f) o probe None) as [h2 r] eqn:Es.
  destruct (search_denotes hk ls h1 (w_disk w) m1 f fd o probe rxm h2 r IC1 Hfd1 WK Hkind Hop Hrx Es)
    as [Herr [Hin [Hnd [M2 [P2 IC2]]]]].
  pose proof (search_len hk ls h1 (w_disk w) m1 f fd o probe rxm h2 r IC1 Hfd1 WK Hkind Hop Hrx Es) as [Hlen _].
  (* the search call *)
  set (h3 := set_srch h2 (put sid r (h_srch h2))).
  exists (mk h3 w), (Z.of_nat (length (sr_fields r))).
  assert (S1 : step_fg hk ls (mk h w) (OSearch sid (Some f) o probe) = (mk h3 w, RSearch None (Z.of_nat (length (sr_fields r))))).
  { unfold step_fg. cbv zeta. cbn [mk s_h s_w]. rewrite (with_schema_some ls (mk h w) _ _ h1 m1 D). rewrite Es, Herr. reflexivity. }
  (* the state after it *)
  assert (L3 : LState ls h3 w fds a).
  { exists m1. unfold h3. cbn [set_srch h_mem h_cache h_pend]. rewrite M2, P2. split; [exact M1|]. split; [exact Hn|].
    split; [split; [exact IC2|exact IS1]|]. split; assumption. }
  destruct (LState_Inv _ _ _ _ _ L3) as [I3 A3].
  destruct (db_schema_ok ls h3 w fds a I3 A3) as [h4 [m4 [D4 [M4 [L4 _]]]]].
  assert (Hm4 : m_idx m4 = m_idx m1 /\ h_srch h4 = h_srch h3).
  { assert (Hm3 : h_mem h3 = Some m1) by (unfold h3; cbn; rewrite M2; exact M1).
    destruct (db_schema_on_loaded ls h3 (w_disk w) m1 Hm3) as [h4' [m4' [A' [B' [V' [Hix' _]]]]]].
    rewrite A' in D4. inv D4. split; [exact Hix'|]. apply (db_schema_srch _ _ _ _ _ _ A'). }
  destruct Hm4 as [Hix4 Hs4].
  (* every entry resolves *)
  pose proof (ic_oi _ _ _ _ _ IC1) as OI.
  assert (Hres : map (fun e => oid_uuid (m_idx m4) (snd e)) (sr_fields r) = map (fun u => Some u) (resolved m1 (sr_fields r))).
  { rewrite Hix4. apply resolved_all. intros [k oid] He. apply Hin in He. destruct He as [u [_ [Hu _]]]. exists u.
    apply (oid_uuid_spec (m_idx m1) oid u (inv_oid_nodup _ _ OI)). exact Hu. }
  (* the delete call *)
  assert (Hfind : find_srch h3 sid = r).
  { unfold find_srch, h3. cbn [set_srch h_srch]. rewrite rf_assoc_put, N.eqb_refl. reflexivity. }
  destruct (delete_objects_ok ls h4 w fds a (resolved m1 (sr_fields r)) L4) as [s2 [E2 [I2 A2]]].
  exists s2, (removes (resolved m1 (sr_fields r)) a).
  split; [exact S1|]. split; [rewrite Hlen, Ha1; reflexivity|]. split.
  { unfold step_fg. cbv zeta. cbn [mk s_h s_w]. rewrite Hfind, Herr.
    rewrite (with_schema_some ls (mk h3 w) _ _ h4 m4 D4). rewrite Hres. exact E2. }
  split; [exact I2|]. split; [exact A2|].
  intros u ob. rewrite removes_In. cbn [fst].
  rewrite (search_all_and_only hk ls h1 (w_disk w) m1 f fd o probe rxm h2 r IC1 Hfd1 WK Hkind Hop Hrx Es u).
  rewrite Ha1. split.
  - intros [Hi Hn']. split; [exact Hi|]. destruct (matches f o rxm (canon_key hk fd probe) ob) eqn:Em; [|reflexivity].
    exfalso. apply Hn'. exists ob. split; assumption.
  - intros [Hi Hm']. split; [exact Hi|]. intros [ob' [Hi' Hm'']].
    assert (ob' = ob).
    { pose proof (abs_nodup _ _ _ _ _ IC1) as Hnd'. rewrite Ha1 in Hnd'.
      pose proof (rf_In_assoc _ _ _ Hnd' Hi) as X1. pose proof (rf_In_assoc _ _ _ Hnd' Hi') as X2. congruence. }
    subst ob'. congruence.
Qed.
Print Assumptions search_delete_refines.
