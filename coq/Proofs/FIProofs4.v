(* Proofs/FIProofs4.v: the mutating operations of the field index (Model/FieldIndex.v):
   insert, find_oid, scan_key / search_key / remove_at / delete, update.
   Generic key type under the four strict-weak-order hypotheses of FIProofs1-3.
   Every result is an equation with a [filter] expression, i.e. it fixes the content AND the
   order of the resulting index; None (= Go panic) is excluded or characterised exactly. *)
From Coq Require Import List Arith Lia Bool PeanoNat ZArith NArith Permutation Setoid.
Import ListNotations.
From Sod.Model Require Import FieldIndex.
From Sod.Proofs Require Import FIProofs1 FIProofs2 FIProofs3.
Open Scope Z_scope.

Section Proofs4.
Variable K : Type.
Variable ltb eqb : K -> K -> bool.
Hypothesis lt_irrefl : forall a, ltb a a = false.
Hypothesis lt_trans : forall a b c, ltb a b = true -> ltb b c = true -> ltb a c = true.
Hypothesis lt_negtrans : forall a b c, ltb a b = false -> ltb b c = false -> ltb a c = false.
Hypothesis eq_def : forall a b, eqb a b = negb (ltb a b) && negb (ltb b a).

Notation entry := (entry K).
Notation at_ := (at_ K).
Notation len := (len K).
Notation slice := (slice K).
Notation sorted_desc := (sorted_desc K ltb).
Notation split_at := (split_at K ltb).

(* the object ids of an index, in index order *)
Definition oids (l : list entry) : list N := map (@snd K N) l.

(* the pure results: [ins_pure] puts e AFTER every entry whose key is >= (fst e), in
   particular after all entries with an equal key; [del_pure] removes the entries of one oid *)
Definition ins_pure (l : list entry) (e : entry) : list entry :=
  filter (fun x => negb (ltb (fst x) (fst e))) l ++ e :: filter (fun x => ltb (fst x) (fst e)) l.
Definition del_pure (l : list entry) (oid : N) : list entry :=
  filter (fun x => negb (N.eqb (snd x) oid)) l.

(* ------------------------------------------------------------------ order facts *)

Lemma eqb_refl a : eqb a a = true.
Proof. rewrite eq_def, lt_irrefl. reflexivity. Qed.

Lemma eqb_true a b : eqb a b = true -> ltb a b = false /\ ltb b a = false.
Proof.
  rewrite eq_def. intros H. apply andb_true_iff in H. destruct H as [H1 H2].
  apply negb_true_iff in H1. apply negb_true_iff in H2. split; assumption.
Qed.

(* ------------------------------------------------------------------ 1. sorted_desc, structurally *)

Lemma sorted_nil : sorted_desc [].
Proof. intros p q a b _ Hp. destruct p; discriminate. Qed.

Lemma sorted_cons a l : sorted_desc (a :: l) <->
  (forall b, In b l -> ltb (fst a) (fst b) = false) /\ sorted_desc l.
Proof.
  split.
  - intros Hs. split.
    + intros b Hb. apply In_nth_error in Hb. destruct Hb as [n Hn].
      apply (Hs 0%nat (S n) a b); [lia|reflexivity|exact Hn].
    + intros p q x y Hpq Hp Hq. apply (Hs (S p) (S q) x y); [lia|exact Hp|exact Hq].
  - intros [H1 H2] p q x y Hpq Hp Hq. destruct q as [|q]; [lia|]. cbn in Hq.
    destruct p as [|p].
    + cbn in Hp. injection Hp as <-. apply H1. apply nth_error_In with q. exact Hq.
    + cbn in Hp. apply (H2 p q x y); [lia|exact Hp|exact Hq].
Qed.

Lemma sorted_single a : sorted_desc [a].
Proof. apply sorted_cons. split; [intros b []|apply sorted_nil]. Qed.

Lemma sorted_app a b : sorted_desc (a ++ b) <->
  sorted_desc a /\ sorted_desc b /\
  (forall x y, In x a -> In y b -> ltb (fst x) (fst y) = false).
Proof.
  induction a as [|x a IH]; cbn [app].
  - split.
    + intros H. split; [apply sorted_nil|]. split; [exact H|]. intros x y [].
    + intros [_ [H _]]. exact H.
  - split.
    + intros H. apply sorted_cons in H. destruct H as [H1 H]. apply IH in H.
      destruct H as [H2 [H3 H4]]. split; [|split; [exact H3|]].
      * apply sorted_cons. split; [|exact H2].
        intros y Hy. apply H1. apply in_or_app. left. exact Hy.
      * intros u v [<-|Hu] Hv.
        -- apply H1. apply in_or_app. right. exact Hv.
        -- apply H4; assumption.
    + intros [H12 [H3 H4]]. apply sorted_cons in H12. destruct H12 as [H1 H2].
      apply sorted_cons. split.
      * intros y Hy. apply in_app_or in Hy. destruct Hy as [Hy|Hy]; [apply H1; exact Hy|].
        apply H4; [left; reflexivity|exact Hy].
      * apply IH. split; [exact H2|]. split; [exact H3|].
        intros u v Hu Hv. apply H4; [right; exact Hu|exact Hv].
Qed.

(* characterisation of sortedness for  a ++ e :: b *)
Lemma sorted_app_cons a e b : sorted_desc (a ++ e :: b) <->
  sorted_desc a /\ sorted_desc b /\
  (forall x, In x a -> ltb (fst x) (fst e) = false) /\
  (forall y, In y b -> ltb (fst e) (fst y) = false) /\
  (forall x y, In x a -> In y b -> ltb (fst x) (fst y) = false).
Proof.
  split.
  - intros H. apply sorted_app in H. destruct H as [Ha [Heb Hx]].
    apply sorted_cons in Heb. destruct Heb as [He Hb].
    split; [exact Ha|]. split; [exact Hb|]. split; [|split; [exact He|]].
    + intros x Hxa. apply Hx; [exact Hxa|left; reflexivity].
    + intros x y Hxa Hyb. apply Hx; [exact Hxa|right; exact Hyb].
  - intros [Ha [Hb [H1 [H2 H3]]]]. apply sorted_app. split; [exact Ha|]. split.
    + apply sorted_cons. split; [exact H2|exact Hb].
    + intros x y Hxa [<-|Hyb]; [apply H1; exact Hxa|apply H3; assumption].
Qed.

Lemma sorted_In_order l p q a b : sorted_desc l -> (p < q)%nat ->
  nth_error l p = Some a -> nth_error l q = Some b -> ltb (fst a) (fst b) = false.
Proof. intros Hs. apply Hs. Qed.

Theorem filter_sorted (P : entry -> bool) l : sorted_desc l -> sorted_desc (filter P l).
Proof.
  induction l as [|x l IH]; intros Hs; cbn [filter]; [exact Hs|].
  apply sorted_cons in Hs. destruct Hs as [H1 H2].
  destruct (P x).
  - apply sorted_cons. split; [|apply IH; exact H2].
    intros b Hb. apply filter_In in Hb. apply H1. apply Hb.
  - apply IH. exact H2.
Qed.

(* ------------------------------------------------------------------ generic list facts *)

Lemma filter_none (A : Type) (P : A -> bool) (l : list A) :
  (forall x, In x l -> P x = false) -> filter P l = [].
Proof.
  induction l as [|x l IH]; intros H; cbn [filter]; [reflexivity|].
  rewrite (H x (or_introl eq_refl)). apply IH. intros y Hy. apply H. right. exact Hy.
Qed.

Lemma filter_partition_perm (A : Type) (P : A -> bool) (l : list A) :
  Permutation (filter P l ++ filter (fun x => negb (P x)) l) l.
Proof.
  induction l as [|a l IH]; cbn [filter app]; [constructor|].
  destruct (P a); cbn [negb app].
  - constructor. exact IH.
  - apply Permutation_sym. apply Permutation_cons_app. apply Permutation_sym. exact IH.
Qed.

Lemma oids_app a b : oids (a ++ b) = oids a ++ oids b.
Proof. unfold oids. apply map_app. Qed.

Lemma oids_In_filter (P : entry -> bool) l o : In o (oids (filter P l)) -> In o (oids l).
Proof.
  unfold oids. intros H. apply in_map_iff in H. destruct H as [x [Hx Hin]].
  apply filter_In in Hin. apply in_map_iff. exists x. split; [exact Hx|apply Hin].
Qed.

Lemma NoDup_oids_filter (P : entry -> bool) l : NoDup (oids l) -> NoDup (oids (filter P l)).
Proof.
  induction l as [|x l IH]; intros Hnd; cbn [filter]; [exact Hnd|].
  unfold oids in Hnd. cbn [map] in Hnd. apply NoDup_cons_iff in Hnd. destruct Hnd as [Hx Hnd].
  destruct (P x).
  - unfold oids. cbn [map]. apply NoDup_cons_iff. split; [|apply IH; exact Hnd].
    intros H. apply Hx. apply (oids_In_filter P l). exact H.
  - apply IH. exact Hnd.
Qed.

(* with distinct oids an oid determines its position *)
Lemma nodup_oid_pos l p q a b : NoDup (oids l) ->
  nth_error l p = Some a -> nth_error l q = Some b -> snd a = snd b -> p = q.
Proof.
  intros Hnd Hp Hq Hab. unfold FieldIndex.entry in *.
  apply (proj1 (NoDup_nth_error (oids l)) Hnd).
  - unfold oids. rewrite map_length. apply nth_error_Some. congruence.
  - unfold oids. rewrite (map_nth_error (@snd K N) _ _ Hp), (map_nth_error (@snd K N) _ _ Hq).
    congruence.
Qed.

Lemma nodup_oid_inj l a b : NoDup (oids l) -> In a l -> In b l -> snd a = snd b -> a = b.
Proof.
  intros Hnd Ha Hb Hab. apply In_nth_error in Ha. apply In_nth_error in Hb.
  destruct Ha as [p Hp]. destruct Hb as [q Hq].
  assert (p = q) by (apply (nodup_oid_pos l p q a b); assumption). subst q. congruence.
Qed.

(* ------------------------------------------------------------------ 2. insert *)

Lemma split_filters l k r : split_at l k r ->
  filter (fun x : entry => negb (ltb (fst x) k)) l = firstn (Z.to_nat r) l /\
  filter (fun x : entry => ltb (fst x) k) l = skipn (Z.to_nat r) l.
Proof.
  intros [Hb [Hlo Hhi]].
  assert (Hb' : (Z.to_nat r <= length l)%nat) by (unfold FieldIndex.len in Hb; lia).
  destruct (filter_3split K (fun e => negb (ltb (fst e) k)) l 0%nat (Z.to_nat r) ltac:(lia) Hb')
    as [F1 F2].
  { intros p e Hp. lia. }
  { intros p e Hp He. rewrite (Hlo p e); [reflexivity|lia|exact He]. }
  { intros p e Hp He. rewrite (Hhi p e); [reflexivity|lia|exact He]. }
  cbn [skipn firstn app] in F1, F2. rewrite Nat.sub_0_r in F1. split; [exact F1|].
  rewrite <- F2. apply filter_ext. intros e. rewrite negb_involutive. reflexivity.
Qed.

(* a sorted index is the concatenation of its >= k part and its < k part *)
Lemma sorted_split_filter l k : sorted_desc l ->
  l = filter (fun x : entry => negb (ltb (fst x) k)) l ++ filter (fun x : entry => ltb (fst x) k) l.
Proof.
  intros Hs. destruct (insertion_index_spec K ltb lt_negtrans l k Hs) as [r [_ Hsp]].
  destruct (split_filters l k r Hsp) as [F1 F2]. rewrite F1, F2.
  symmetry. apply firstn_skipn.
Qed.

(* insert never panics on a sorted index; the new entry goes after all entries with a key
   greater than or EQUAL to its own, before all entries with a smaller key *)
Theorem insert_spec l e : sorted_desc l ->
  insert K ltb l e =
  Some (filter (fun x => negb (ltb (fst x) (fst e))) l ++ e :: filter (fun x => ltb (fst x) (fst e)) l).
Proof.
  intros Hs. destruct (insertion_index_spec K ltb lt_negtrans l (fst e) Hs) as [r [Hr Hsp]].
  destruct (split_filters l (fst e) r Hsp) as [F1 F2]. destruct Hsp as [Hb _].
  unfold insert. rewrite Hr. unfold FieldIndex.entry in *. rewrite F1, F2.
  unfold last_index. destruct (len l - 1 <? r) eqn:E.
  - apply Z.ltb_lt in E. assert (r = len l) by lia. subst r.
    unfold FieldIndex.len. rewrite Nat2Z.id. rewrite firstn_all, skipn_all. reflexivity.
  - reflexivity.
Qed.

Corollary insert_pure l e : sorted_desc l -> insert K ltb l e = Some (ins_pure l e).
Proof. apply insert_spec. Qed.

Lemma ins_pure_sorted l e : sorted_desc l -> sorted_desc (ins_pure l e).
Proof.
  intros Hs. unfold ins_pure. apply sorted_app_cons.
  split; [apply filter_sorted; exact Hs|]. split; [apply filter_sorted; exact Hs|].
  split; [|split].
  - intros x Hx. apply filter_In in Hx. destruct Hx as [_ Hx]. apply negb_true_iff in Hx. exact Hx.
  - intros y Hy. apply filter_In in Hy. destruct Hy as [_ Hy].
    apply (lt_asym K ltb lt_irrefl lt_trans). exact Hy.
  - intros x y Hx Hy. apply filter_In in Hx. destruct Hx as [_ Hx]. apply negb_true_iff in Hx.
    apply filter_In in Hy. destruct Hy as [_ Hy].
    destruct (ltb (fst x) (fst y)) eqn:E; [|reflexivity].
    rewrite (lt_trans _ _ _ E Hy) in Hx. discriminate.
Qed.

Lemma ins_pure_perm l e : Permutation (ins_pure l e) (e :: l).
Proof.
  unfold ins_pure. apply Permutation_sym. apply Permutation_cons_app. apply Permutation_sym.
  eapply Permutation_trans; [apply Permutation_app_comm|].
  apply (filter_partition_perm entry (fun x => ltb (fst x) (fst e)) l).
Qed.

Corollary insert_sorted l e l' : sorted_desc l -> insert K ltb l e = Some l' -> sorted_desc l'.
Proof.
  intros Hs H. rewrite (insert_pure l e Hs) in H. injection H as <-. apply ins_pure_sorted. exact Hs.
Qed.

Corollary insert_perm l e l' : sorted_desc l -> insert K ltb l e = Some l' -> Permutation l' (e :: l).
Proof.
  intros Hs H. rewrite (insert_pure l e Hs) in H. injection H as <-. apply ins_pure_perm.
Qed.

Corollary insert_In l e l' : sorted_desc l -> insert K ltb l e = Some l' ->
  forall x, In x l' <-> x = e \/ In x l.
Proof.
  intros Hs H x. pose proof (insert_perm l e l' Hs H) as P. split.
  - intros Hx. apply (Permutation_in _ P) in Hx. destruct Hx as [Hx|Hx]; [left; congruence|right; exact Hx].
  - intros Hx. apply (Permutation_in _ (Permutation_sym P)). destruct Hx as [Hx|Hx]; [left; congruence|right; exact Hx].
Qed.

Corollary insert_oids_perm l e l' : sorted_desc l -> insert K ltb l e = Some l' ->
  Permutation (oids l') (snd e :: oids l).
Proof.
  intros Hs H. unfold oids. change (snd e :: map (@snd K N) l) with (map (@snd K N) (e :: l)).
  apply Permutation_map. apply (insert_perm l e l' Hs H).
Qed.

Corollary insert_length l e l' : sorted_desc l -> insert K ltb l e = Some l' ->
  length l' = S (length l).
Proof. intros Hs H. apply (Permutation_length (insert_perm l e l' Hs H)). Qed.

(* the entries with a key equivalent to k, in index order, after an insertion: the new
   entry is the LAST of its equivalence class (used for the order part of Constrain) *)
Lemma ins_pure_filter_eq l e k : sorted_desc l ->
  filter (fun x => eqb (fst x) k) (ins_pure l e) =
  filter (fun x => eqb (fst x) k) l ++ (if eqb (fst e) k then [e] else []).
Proof.
  intros Hs.
  assert (HL : filter (fun x : entry => eqb (fst x) k) l =
               filter (fun x : entry => eqb (fst x) k)
                 (filter (fun x : entry => negb (ltb (fst x) (fst e))) l ++
                  filter (fun x : entry => ltb (fst x) (fst e)) l)).
  { rewrite <- (sorted_split_filter l (fst e) Hs). reflexivity. }
  unfold ins_pure. unfold FieldIndex.entry in *. rewrite HL. rewrite !filter_app. cbn [filter].
  destruct (eqb (fst e) k) eqn:E.
  - rewrite (filter_none (K * N) (fun x => eqb (fst x) k) (filter (fun x => ltb (fst x) (fst e)) l)).
    + rewrite app_nil_r. reflexivity.
    + intros x Hx. apply filter_In in Hx. destruct Hx as [_ Hx].
      destruct (eqb (fst x) k) eqn:Ex; [|reflexivity].
      apply eqb_true in Ex. apply eqb_true in E. destruct Ex as [Ex _]. destruct E as [_ E].
      rewrite (lt_negtrans _ _ _ Ex E) in Hx. discriminate.
  - rewrite app_nil_r. reflexivity.
Qed.

(* ------------------------------------------------------------------ 3. find_oid *)

Lemma find_oid_In l oid e : find_oid K l oid = Some e -> In e l /\ snd e = oid.
Proof.
  induction l as [|x l IH]; cbn [find_oid]; [discriminate|].
  destruct (find_oid K l oid) as [y|] eqn:F.
  - intros H. injection H as ->. destruct (IH eq_refl) as [H1 H2]. split; [right; exact H1|exact H2].
  - destruct (N.eqb (snd x) oid) eqn:E; [|discriminate].
    intros H. injection H as <-. apply N.eqb_eq in E. split; [left; reflexivity|exact E].
Qed.

Theorem find_oid_None l oid : find_oid K l oid = None <-> ~ In oid (oids l).
Proof.
  induction l as [|x l IH]; cbn [find_oid].
  - split; [intros _ []|reflexivity].
  - unfold oids in *. cbn [map]. destruct (find_oid K l oid) as [y|] eqn:F.
    + split; [discriminate|]. intros H. exfalso. apply H. right.
      destruct (find_oid_In l oid y F) as [H1 H2]. rewrite <- H2. apply in_map. exact H1.
    + destruct (N.eqb (snd x) oid) eqn:E.
      * apply N.eqb_eq in E. split; [discriminate|]. intros H. exfalso. apply H. left. exact E.
      * apply N.eqb_neq in E. split; [|reflexivity]. intros _ [H|H]; [exact (E H)|].
        apply (proj1 IH eq_refl). exact H.
Qed.

Theorem find_oid_spec l oid e : NoDup (oids l) ->
  (find_oid K l oid = Some e <-> In e l /\ snd e = oid).
Proof.
  intros Hnd. split; [apply find_oid_In|]. intros [Hin Hoid].
  destruct (find_oid K l oid) as [y|] eqn:F.
  - destruct (find_oid_In l oid y F) as [H1 H2]. f_equal.
    apply (nodup_oid_inj l y e Hnd H1 Hin). congruence.
  - exfalso. apply (proj1 (find_oid_None l oid) F). rewrite <- Hoid. unfold oids. apply in_map. exact Hin.
Qed.

Corollary find_oid_Some_iff l oid : (exists e, find_oid K l oid = Some e) <-> In oid (oids l).
Proof.
  split.
  - intros [e He]. destruct (find_oid_In l oid e He) as [H1 H2]. rewrite <- H2. unfold oids. apply in_map. exact H1.
  - intros Hin. destruct (find_oid K l oid) as [y|] eqn:F; [exists y; reflexivity|].
    exfalso. apply (proj1 (find_oid_None l oid) F). exact Hin.
Qed.

(* ------------------------------------------------------------------ 4. delete *)

Lemma deep_equal_refl e : deep_equal K eqb e e = true.
Proof. unfold deep_equal. rewrite N.eqb_refl, eqb_refl. reflexivity. Qed.

Lemma deep_equal_oid a b : deep_equal K eqb a b = true -> snd a = snd b.
Proof.
  unfold deep_equal. intros H. apply andb_true_iff in H. destruct H as [H _]. apply N.eqb_eq. exact H.
Qed.

Lemma deep_equal_iff a b :
  deep_equal K eqb a b = true <-> snd a = snd b /\ eqb (fst a) (fst b) = true.
Proof.
  unfold deep_equal. rewrite andb_true_iff, N.eqb_eq. reflexivity.
Qed.

(* the positional form of range_equal_spec *)
Lemma range_equal_pos l k : sorted_desc l ->
  exists i r, range_equal K ltb eqb l k = Some (i, r - 1) /\ 0 <= i <= r /\ r <= len l /\
    (forall p e, Z.of_nat p < i -> nth_error l p = Some e -> eqb (fst e) k = false) /\
    (forall p e, i <= Z.of_nat p < r -> nth_error l p = Some e -> eqb (fst e) k = true) /\
    (forall p e, r <= Z.of_nat p -> nth_error l p = Some e -> eqb (fst e) k = false).
Proof.
  intros Hs. destruct (insertion_index_spec K ltb lt_negtrans l k Hs) as [r [Hr [Hb [Hlo Hhi]]]].
  unfold range_equal. rewrite Hr.
  destruct (scan_down_spec K (fun x => eqb x k) (S (length l)) l (r - 1)) as [i' [Hsc [Bi [A1 A2]]]].
  { lia. } { unfold FieldIndex.len in Hb. lia. }
  rewrite Hsc. exists (i' + 1), r. split; [reflexivity|]. split; [lia|]. split; [lia|].
  split; [|split].
  - intros p e Hp He. assert (Hi0 : 0 <= i') by lia.
    destruct (A2 Hi0) as [e' [He' Pe']]. cbn in Pe'.
    assert (Hnl : ltb (fst e') k = false) by (apply (Hlo (Z.to_nat i') e'); [lia|exact He']).
    rewrite eq_def, Hnl in Pe'. cbn in Pe'. apply negb_false_iff in Pe'.
    assert (Hk : ltb k (fst e) = true).
    { destruct (Nat.eq_dec p (Z.to_nat i')) as [->|Hne]; [congruence|].
      apply (above_gt K ltb lt_negtrans l k p (Z.to_nat i') e e' Hs); [lia|assumption|assumption|assumption]. }
    rewrite eq_def, Hk. cbn. apply andb_false_r.
  - intros p e Hp He. apply (A1 p e); [lia|exact He].
  - intros p e Hp He. rewrite eq_def. rewrite (Hhi p e); [reflexivity|lia|exact He].
Qed.

(* the forward scan returns the first position in [i, j] holding a deep-equal entry *)
Lemma scan_key_found : forall fuel l k i j p0 e,
  0 <= i -> i <= Z.of_nat p0 -> Z.of_nat p0 <= j -> Z.of_nat p0 - i < Z.of_nat fuel ->
  nth_error l p0 = Some e -> deep_equal K eqb e k = true ->
  (forall q e', i <= Z.of_nat q < Z.of_nat p0 -> nth_error l q = Some e' ->
                deep_equal K eqb e' k = false) ->
  scan_key K eqb fuel l k i j = Some (Some (Z.of_nat p0)).
Proof.
  induction fuel as [|f IH]; intros l k i j p0 e Hi Hip Hpj Hf Hn Hd Hbefore; [lia|].
  cbn [scan_key]. destruct (j <? i) eqn:E; [apply Z.ltb_lt in E; lia|].
  assert (Hlen : (p0 < length l)%nat) by (apply nth_error_Some; congruence).
  destruct (at_in K l i) as [x [Hx Hnx]]; [unfold FieldIndex.len; lia|]. rewrite Hx.
  destruct (Z.eq_dec i (Z.of_nat p0)) as [Heq|Hne].
  - subst i. rewrite Nat2Z.id in Hnx. assert (x = e) by congruence. subst x.
    rewrite Hd. reflexivity.
  - rewrite (Hbefore (Z.to_nat i) x); [|lia|exact Hnx].
    apply (IH l k (i + 1) j p0 e ltac:(lia) ltac:(lia) Hpj ltac:(lia) Hn Hd).
    intros q e' Hq. apply Hbefore. lia.
Qed.

(* when nothing in [i, j] is deep-equal the scan ends with "not found" *)
Lemma scan_key_absent : forall fuel l k i j,
  0 <= i -> i <= j + 1 -> j < len l -> j - i + 1 < Z.of_nat fuel ->
  (forall q e', i <= Z.of_nat q <= j -> nth_error l q = Some e' -> deep_equal K eqb e' k = false) ->
  scan_key K eqb fuel l k i j = Some None.
Proof.
  induction fuel as [|f IH]; intros l k i j Hi Hij Hj Hf Hall; [lia|].
  cbn [scan_key]. destruct (j <? i) eqn:E; [reflexivity|]. apply Z.ltb_ge in E.
  destruct (at_in K l i) as [x [Hx Hnx]]; [lia|]. rewrite Hx.
  rewrite (Hall (Z.to_nat i) x); [|lia|exact Hnx].
  apply (IH l k (i + 1) j ltac:(lia) ltac:(lia) Hj ltac:(lia)).
  intros q e' Hq. apply Hall. lia.
Qed.

(* searchKey on a sorted index with distinct oids finds exactly the position of the entry *)
Theorem search_key_spec l p0 e : sorted_desc l -> NoDup (oids l) -> nth_error l p0 = Some e ->
  search_key K ltb eqb l e = Some (Some (Z.of_nat p0)).
Proof.
  intros Hs Hnd Hn.
  destruct (range_equal_pos l (fst e) Hs) as [i [r [Hre [Hi [Hr [P1 [P2 P3]]]]]]].
  assert (Hlen : (p0 < length l)%nat) by (apply nth_error_Some; congruence).
  pose proof (eqb_refl (fst e)) as Hrefl.
  assert (Hpi : i <= Z.of_nat p0).
  { destruct (Z_lt_ge_dec (Z.of_nat p0) i) as [Hlt|Hge]; [|lia].
    rewrite (P1 p0 e Hlt Hn) in Hrefl. discriminate. }
  assert (Hpr : Z.of_nat p0 < r).
  { destruct (Z_lt_ge_dec (Z.of_nat p0) r) as [Hlt|Hge]; [lia|].
    rewrite (P3 p0 e ltac:(lia) Hn) in Hrefl. discriminate. }
  assert (Hother : forall q e', q <> p0 -> nth_error l q = Some e' -> deep_equal K eqb e' e = false).
  { intros q e' Hne He'. destruct (deep_equal K eqb e' e) eqn:D; [|reflexivity].
    exfalso. apply Hne. apply (nodup_oid_pos l q p0 e' e Hnd He' Hn). apply deep_equal_oid. exact D. }
  unfold search_key. rewrite Hre. destruct (i =? r - 1) eqn:E.
  - apply Z.eqb_eq in E. assert (Hip : i = Z.of_nat p0) by lia. clear E. subst i.
    destruct (at_in K l (Z.of_nat p0)) as [x [Hx Hnx]]; [unfold FieldIndex.len; lia|]. rewrite Hx.
    rewrite Nat2Z.id in Hnx. assert (x = e) by congruence. subst x.
    rewrite deep_equal_refl. reflexivity.
  - apply (scan_key_found (S (length l)) l e i (r - 1) p0 e); try lia.
    + exact Hn.
    + apply deep_equal_refl.
    + intros q e' Hq. apply Hother. lia.
Qed.

(* searchKey never panics on a sorted index; with no deep-equal entry it answers "not found"
   (Delete then panics with "key not found": excluded for well-formed indexes by delete_spec) *)
Theorem search_key_absent l k : sorted_desc l ->
  (forall x, In x l -> deep_equal K eqb x k = false) ->
  search_key K ltb eqb l k = Some None.
Proof.
  intros Hs Hall.
  destruct (range_equal_pos l (fst k) Hs) as [i [r [Hre [Hi [Hr _]]]]].
  unfold search_key. rewrite Hre. destruct (i =? r - 1) eqn:E.
  - apply Z.eqb_eq in E. destruct (at_in K l i) as [x [Hx Hnx]]; [lia|]. rewrite Hx.
    rewrite (Hall x (nth_error_In _ _ Hnx)). reflexivity.
  - apply Z.eqb_neq in E. apply scan_key_absent; try lia.
    + unfold FieldIndex.len in Hr. lia.
    + intros q e' _ He'. apply Hall. apply (nth_error_In _ _ He').
Qed.

(* removing position p0 = filtering out the oid stored there *)
Lemma remove_at_filter l p0 e : NoDup (oids l) -> nth_error l p0 = Some e ->
  remove_at K l (Z.of_nat p0) = filter (fun x => negb (N.eqb (snd x) (snd e))) l.
Proof.
  intros Hnd Hn. unfold remove_at. rewrite Nat2Z.id.
  assert (Hlen : (p0 < length l)%nat) by (apply nth_error_Some; congruence).
  destruct (filter_3split K (fun x => N.eqb (snd x) (snd e)) l p0 (S p0) ltac:(lia) ltac:(lia))
    as [_ F].
  - intros p x Hp Hx. apply N.eqb_neq. intros Heq.
    pose proof (nodup_oid_pos l p p0 x e Hnd Hx Hn Heq). lia.
  - intros p x Hp Hx. assert (p = p0) by lia. subst p. assert (x = e) by congruence. subst x.
    apply N.eqb_refl.
  - intros p x Hp Hx. apply N.eqb_neq. intros Heq.
    pose proof (nodup_oid_pos l p p0 x e Hnd Hx Hn Heq). lia.
  - unfold FieldIndex.entry in *. rewrite F. reflexivity.
Qed.

Lemma remove_at_length l p0 : (p0 < length l)%nat ->
  length l = S (length (remove_at K l (Z.of_nat p0))).
Proof.
  intros H. unfold remove_at. rewrite Nat2Z.id. rewrite app_length, firstn_length, skipn_length. lia.
Qed.

(* Delete of a present entry: exactly the index without that oid, all other entries unchanged
   and in the same relative order *)
Theorem delete_spec l e : sorted_desc l -> NoDup (oids l) -> In e l ->
  delete K ltb eqb l (snd e) = Some (filter (fun x => negb (N.eqb (snd x) (snd e))) l).
Proof.
  intros Hs Hnd Hin. unfold delete.
  rewrite (proj2 (find_oid_spec l (snd e) e Hnd) (conj Hin eq_refl)).
  destruct (In_nth_error l e Hin) as [p0 Hp0].
  rewrite (search_key_spec l p0 e Hs Hnd Hp0). f_equal. apply remove_at_filter; assumption.
Qed.

Corollary delete_spec_oid l oid : sorted_desc l -> NoDup (oids l) -> In oid (oids l) ->
  delete K ltb eqb l oid = Some (del_pure l oid).
Proof.
  intros Hs Hnd Hin. unfold oids in Hin. apply in_map_iff in Hin. destruct Hin as [e [He Hin]].
  subst oid. apply delete_spec; assumption.
Qed.

(* the Go code panics: "object id not found" *)
Theorem delete_absent l oid : ~ In oid (oids l) -> delete K ltb eqb l oid = None.
Proof. intros H. unfold delete. rewrite (proj2 (find_oid_None l oid) H). reflexivity. Qed.

(* on a well-formed index Delete succeeds exactly for the oids it holds *)
Corollary delete_Some_iff l oid : sorted_desc l -> NoDup (oids l) ->
  ((exists l', delete K ltb eqb l oid = Some l') <-> In oid (oids l)).
Proof.
  intros Hs Hnd. split.
  - intros [l' H]. destruct (in_dec N.eq_dec oid (oids l)) as [Hin|Hnin]; [exact Hin|].
    rewrite (delete_absent l oid Hnin) in H. discriminate.
  - intros Hin. exists (del_pure l oid). apply delete_spec_oid; assumption.
Qed.

Lemma del_pure_sorted l oid : sorted_desc l -> sorted_desc (del_pure l oid).
Proof. apply filter_sorted. Qed.

Lemma del_pure_NoDup l oid : NoDup (oids l) -> NoDup (oids (del_pure l oid)).
Proof. apply NoDup_oids_filter. Qed.

Lemma del_pure_In l oid x : In x (del_pure l oid) <-> In x l /\ snd x <> oid.
Proof.
  unfold del_pure. rewrite filter_In. rewrite negb_true_iff, N.eqb_neq. reflexivity.
Qed.

Lemma del_pure_oids l oid : oids (del_pure l oid) = filter (fun o => negb (N.eqb o oid)) (oids l).
Proof.
  unfold del_pure, oids. induction l as [|x l IH]; cbn [filter map]; [reflexivity|].
  destruct (negb (N.eqb (snd x) oid)); cbn [map]; rewrite IH; reflexivity.
Qed.

Lemma del_pure_oids_In l oid o : In o (oids (del_pure l oid)) <-> In o (oids l) /\ o <> oid.
Proof.
  rewrite del_pure_oids, filter_In, negb_true_iff, N.eqb_neq. reflexivity.
Qed.

Corollary delete_sorted l oid l' : sorted_desc l -> NoDup (oids l) ->
  delete K ltb eqb l oid = Some l' -> sorted_desc l'.
Proof.
  intros Hs Hnd H. assert (Hin : In oid (oids l)) by (apply (delete_Some_iff l oid Hs Hnd); eauto).
  rewrite (delete_spec_oid l oid Hs Hnd Hin) in H. injection H as <-. apply del_pure_sorted. exact Hs.
Qed.

Corollary delete_NoDup l oid l' : sorted_desc l -> NoDup (oids l) ->
  delete K ltb eqb l oid = Some l' -> NoDup (oids l').
Proof.
  intros Hs Hnd H. assert (Hin : In oid (oids l)) by (apply (delete_Some_iff l oid Hs Hnd); eauto).
  rewrite (delete_spec_oid l oid Hs Hnd Hin) in H. injection H as <-. apply del_pure_NoDup. exact Hnd.
Qed.

Corollary delete_In l oid l' : sorted_desc l -> NoDup (oids l) ->
  delete K ltb eqb l oid = Some l' -> forall x, In x l' <-> In x l /\ snd x <> oid.
Proof.
  intros Hs Hnd H x. assert (Hin : In oid (oids l)) by (apply (delete_Some_iff l oid Hs Hnd); eauto).
  rewrite (delete_spec_oid l oid Hs Hnd Hin) in H. injection H as <-. apply del_pure_In.
Qed.

Corollary delete_oids l oid l' : sorted_desc l -> NoDup (oids l) ->
  delete K ltb eqb l oid = Some l' ->
  oids l' = filter (fun o => negb (N.eqb o oid)) (oids l) /\
  (forall o, In o (oids l') <-> In o (oids l) /\ o <> oid).
Proof.
  intros Hs Hnd H. assert (Hin : In oid (oids l)) by (apply (delete_Some_iff l oid Hs Hnd); eauto).
  rewrite (delete_spec_oid l oid Hs Hnd Hin) in H. injection H as <-.
  split; [apply del_pure_oids|intros o; apply del_pure_oids_In].
Qed.

Corollary delete_length l oid l' : sorted_desc l -> NoDup (oids l) ->
  delete K ltb eqb l oid = Some l' -> length l = S (length l').
Proof.
  intros Hs Hnd H. assert (Hin : In oid (oids l)) by (apply (delete_Some_iff l oid Hs Hnd); eauto).
  unfold oids in Hin. apply in_map_iff in Hin. destruct Hin as [e [He Hin]]. subst oid.
  rewrite (delete_spec l e Hs Hnd Hin) in H. injection H as <-.
  destruct (In_nth_error l e Hin) as [p0 Hp0].
  rewrite <- (remove_at_filter l p0 e Hnd Hp0). apply remove_at_length.
  apply nth_error_Some. congruence.
Qed.

(* ------------------------------------------------------------------ 5. update *)

(* Update = Delete then Insert: the result is the insertion of e into the index without oid *)
Lemma update_eq l e : sorted_desc l -> NoDup (oids l) -> In (snd e) (oids l) ->
  update K ltb eqb l e = insert K ltb (filter (fun x => negb (N.eqb (snd x) (snd e))) l) e /\
  update K ltb eqb l e = Some (ins_pure (del_pure l (snd e)) e).
Proof.
  intros Hs Hnd Hin. unfold update. rewrite (delete_spec_oid l (snd e) Hs Hnd Hin).
  split; [reflexivity|]. apply insert_pure. apply del_pure_sorted. exact Hs.
Qed.

Theorem update_absent l e : ~ In (snd e) (oids l) -> update K ltb eqb l e = None.
Proof. intros H. unfold update. rewrite (delete_absent l (snd e) H). reflexivity. Qed.

Lemma update_inv l e r : sorted_desc l -> NoDup (oids l) -> update K ltb eqb l e = Some r ->
  In (snd e) (oids l) /\ r = ins_pure (del_pure l (snd e)) e.
Proof.
  intros Hs Hnd H. destruct (in_dec N.eq_dec (snd e) (oids l)) as [Hin|Hnin].
  - split; [exact Hin|]. destruct (update_eq l e Hs Hnd Hin) as [_ U]. congruence.
  - rewrite (update_absent l e Hnin) in H. discriminate.
Qed.

Corollary update_sorted l e r : sorted_desc l -> NoDup (oids l) ->
  update K ltb eqb l e = Some r -> sorted_desc r.
Proof.
  intros Hs Hnd H. destruct (update_inv l e r Hs Hnd H) as [_ ->].
  apply ins_pure_sorted. apply del_pure_sorted. exact Hs.
Qed.

Corollary update_In l e r : sorted_desc l -> NoDup (oids l) ->
  update K ltb eqb l e = Some r -> forall x, In x r <-> x = e \/ (In x l /\ snd x <> snd e).
Proof.
  intros Hs Hnd H x. destruct (update_inv l e r Hs Hnd H) as [_ ->].
  pose proof (ins_pure_perm (del_pure l (snd e)) e) as P. rewrite <- del_pure_In. split.
  - intros Hx. apply (Permutation_in _ P) in Hx. destruct Hx as [Hx|Hx]; [left; congruence|right; exact Hx].
  - intros Hx. apply (Permutation_in _ (Permutation_sym P)). destruct Hx as [Hx|Hx]; [left; congruence|right; exact Hx].
Qed.

Corollary update_oids l e r : sorted_desc l -> NoDup (oids l) ->
  update K ltb eqb l e = Some r -> forall o, In o (oids r) <-> In o (oids l).
Proof.
  intros Hs Hnd H o. destruct (update_inv l e r Hs Hnd H) as [Hin ->].
  pose proof (Permutation_map (@snd K N) (ins_pure_perm (del_pure l (snd e)) e)) as P.
  change (map (@snd K N) (ins_pure (del_pure l (snd e)) e)) with (oids (ins_pure (del_pure l (snd e)) e)) in P.
  cbn [map] in P. change (map (@snd K N) (del_pure l (snd e))) with (oids (del_pure l (snd e))) in P.
  split.
  - intros Ho. apply (Permutation_in _ P) in Ho. destruct Ho as [Ho|Ho]; [subst o; exact Hin|].
    apply del_pure_oids_In in Ho. apply Ho.
  - intros Ho. apply (Permutation_in _ (Permutation_sym P)).
    destruct (N.eq_dec (snd e) o) as [Heq|Hne]; [left; exact Heq|right].
    apply del_pure_oids_In. split; [exact Ho|congruence].
Qed.

Corollary update_NoDup l e r : sorted_desc l -> NoDup (oids l) ->
  update K ltb eqb l e = Some r -> NoDup (oids r).
Proof.
  intros Hs Hnd H. destruct (update_inv l e r Hs Hnd H) as [Hin ->].
  pose proof (Permutation_map (@snd K N) (ins_pure_perm (del_pure l (snd e)) e)) as P.
  apply (Permutation_NoDup (Permutation_sym P)). cbn [map]. apply NoDup_cons_iff. split.
  - intros Hc. change (map (@snd K N) (del_pure l (snd e))) with (oids (del_pure l (snd e))) in Hc.
    apply del_pure_oids_In in Hc. destruct Hc as [_ Hc]. apply Hc. reflexivity.
  - apply (del_pure_NoDup l (snd e) Hnd).
Qed.

Corollary update_oids_perm l e r : sorted_desc l -> NoDup (oids l) ->
  update K ltb eqb l e = Some r -> Permutation (oids r) (oids l).
Proof.
  intros Hs Hnd H. apply NoDup_Permutation.
  - apply (update_NoDup l e r Hs Hnd H).
  - exact Hnd.
  - apply (update_oids l e r Hs Hnd H).
Qed.

Corollary update_length l e r : sorted_desc l -> NoDup (oids l) ->
  update K ltb eqb l e = Some r -> length r = length l.
Proof.
  intros Hs Hnd H. pose proof (Permutation_length (update_oids_perm l e r Hs Hnd H)) as P.
  unfold oids in P. rewrite !map_length in P. exact P.
Qed.

(* everything about Update in one statement *)
Theorem update_spec l e : sorted_desc l -> NoDup (oids l) -> In (snd e) (oids l) ->
  exists r, update K ltb eqb l e = Some r /\
    insert K ltb (filter (fun x => negb (N.eqb (snd x) (snd e))) l) e = Some r /\
    r = filter (fun x => negb (ltb (fst x) (fst e))) (filter (fun x => negb (N.eqb (snd x) (snd e))) l)
        ++ e :: filter (fun x => ltb (fst x) (fst e)) (filter (fun x => negb (N.eqb (snd x) (snd e))) l) /\
    sorted_desc r /\ NoDup (oids r) /\ (forall o, In o (oids r) <-> In o (oids l)) /\
    (forall x, In x r <-> x = e \/ (In x l /\ snd x <> snd e)).
Proof.
  intros Hs Hnd Hin. destruct (update_eq l e Hs Hnd Hin) as [U1 U2].
  exists (ins_pure (del_pure l (snd e)) e). split; [exact U2|]. split; [rewrite <- U1; exact U2|].
  split; [reflexivity|]. split; [exact (update_sorted l e _ Hs Hnd U2)|].
  split; [exact (update_NoDup l e _ Hs Hnd U2)|].
  split; [exact (update_oids l e _ Hs Hnd U2)|exact (update_In l e _ Hs Hnd U2)].
Qed.

End Proofs4.

(* ------------------------------------------------------------------ examples at Z *)

Lemma Zlt_irrefl : forall a, Z.ltb a a = false.
Proof. intros a. apply Z.ltb_irrefl. Qed.
Lemma Zlt_trans : forall a b c, Z.ltb a b = true -> Z.ltb b c = true -> Z.ltb a c = true.
Proof. intros a b c H1 H2. apply Z.ltb_lt in H1. apply Z.ltb_lt in H2. apply Z.ltb_lt. lia. Qed.
Lemma Zlt_negtrans : forall a b c, Z.ltb a b = false -> Z.ltb b c = false -> Z.ltb a c = false.
Proof. intros a b c H1 H2. apply Z.ltb_ge in H1. apply Z.ltb_ge in H2. apply Z.ltb_ge. lia. Qed.
Lemma Zeq_def : forall a b, Z.eqb a b = negb (Z.ltb a b) && negb (Z.ltb b a).
Proof.
  intros a b. destruct (Z.eqb a b) eqn:E.
  - apply Z.eqb_eq in E. subst b. rewrite Z.ltb_irrefl. reflexivity.
  - apply Z.eqb_neq in E. destruct (Z.ltb a b) eqn:E1; [reflexivity|]. apply Z.ltb_ge in E1.
    assert (H : Z.ltb b a = true) by (apply Z.ltb_lt; lia). rewrite H. reflexivity.
Qed.

(* sortedness / distinctness of a concrete index, by computation *)
Ltac ex_sorted :=
  repeat (apply (sorted_cons Z Z.ltb); split;
          [intros ?b ?Hb; cbn in *; intuition (subst; reflexivity)|]);
  apply (sorted_nil Z Z.ltb).
Ltac ex_nodup :=
  repeat (apply NoDup_cons; [cbn; intuition discriminate|]); apply NoDup_nil.

(* keys 7 5 5 3 (descending), oids 10 11 12 13 *)
Definition ex_index : list (Z * N) := [(7, 10%N); (5, 11%N); (5, 12%N); (3, 13%N)].

Example ex_index_sorted : sorted_desc Z Z.ltb ex_index.
Proof. unfold ex_index. ex_sorted. Qed.
Example ex_index_nodup : NoDup (oids Z ex_index).
Proof. unfold ex_index. ex_nodup. Qed.

Example ex_filter_sorted :
  sorted_desc Z Z.ltb (filter (fun x => N.even (snd x)) ex_index) /\
  filter (fun x => N.even (snd x)) ex_index = [(7, 10%N); (5, 12%N)].
Proof. split; [apply filter_sorted; exact ex_index_sorted|vm_compute; reflexivity]. Qed.

(* the new entry (5, 20) goes after BOTH existing entries of key 5 *)
Example ex_insert :
  insert Z Z.ltb ex_index (5, 20%N) =
    Some (filter (fun x => negb (Z.ltb (fst x) 5)) ex_index ++
          (5, 20%N) :: filter (fun x => Z.ltb (fst x) 5) ex_index) /\
  insert Z Z.ltb ex_index (5, 20%N) =
    Some [(7, 10%N); (5, 11%N); (5, 12%N); (5, 20%N); (3, 13%N)].
Proof. split; vm_compute; reflexivity. Qed.

Example ex_insert_by_thm :
  insert Z Z.ltb ex_index (5, 20%N) = Some [(7, 10%N); (5, 11%N); (5, 12%N); (5, 20%N); (3, 13%N)].
Proof. rewrite (insert_spec Z Z.ltb Zlt_negtrans ex_index (5, 20%N) ex_index_sorted). reflexivity. Qed.

Example ex_insert_ends :
  insert Z Z.ltb ex_index (9, 20%N) = Some ((9, 20%N) :: ex_index) /\
  insert Z Z.ltb ex_index (1, 20%N) = Some (ex_index ++ [(1, 20%N)]) /\
  insert Z Z.ltb [] (1, 20%N) = Some [(1, 20%N)].
Proof. repeat split; vm_compute; reflexivity. Qed.

Example ex_find_oid :
  find_oid Z ex_index 12%N = Some (5, 12%N) /\ find_oid Z ex_index 99%N = None.
Proof. split; vm_compute; reflexivity. Qed.

(* without NoDup the LAST occurrence wins (so find_oid_spec needs its hypothesis) *)
Example ex_find_oid_dup :
  find_oid Z [(7, 10%N); (5, 10%N)] 10%N = Some (5, 10%N).
Proof. vm_compute. reflexivity. Qed.

Example ex_search_key :
  search_key Z Z.ltb Z.eqb ex_index (5, 12%N) = Some (Some 2) /\
  search_key Z Z.ltb Z.eqb ex_index (5, 99%N) = Some None.
Proof. split; vm_compute; reflexivity. Qed.

Example ex_delete :
  In (5, 11%N) ex_index /\
  delete Z Z.ltb Z.eqb ex_index 11%N =
    Some (filter (fun x => negb (N.eqb (snd x) 11%N)) ex_index) /\
  delete Z Z.ltb Z.eqb ex_index 11%N = Some [(7, 10%N); (5, 12%N); (3, 13%N)] /\
  delete Z Z.ltb Z.eqb ex_index 99%N = None.
Proof. split; [cbn; tauto|]. repeat split; vm_compute; reflexivity. Qed.

Example ex_update :
  In (snd (3, 11%N)) (oids Z ex_index) /\
  update Z Z.ltb Z.eqb ex_index (3, 11%N) =
    insert Z Z.ltb (filter (fun x => negb (N.eqb (snd x) 11%N)) ex_index) (3, 11%N) /\
  update Z Z.ltb Z.eqb ex_index (3, 11%N) = Some [(7, 10%N); (5, 12%N); (3, 13%N); (3, 11%N)] /\
  update Z Z.ltb Z.eqb ex_index (3, 99%N) = None.
Proof. split; [cbn; tauto|]. repeat split; vm_compute; reflexivity. Qed.
