(* Proofs/Reopen.v: C04 at the level of the handle: Close then a new handle (or, in synchronous
   mode, a handle abandoned after any completed call and a new one) preserves the collection
   exactly, hence every read and the denotation of every search, and the refinement continues:
   subsequent operations behave as if no restart had happened. *)
From Coq Require Import List ZArith NArith Bool Lia Arith.
Import ListNotations.
From Sod.Model Require Import Base FieldIndex ObjIndex DB.
From Sod.Proofs Require Import DBBasic DBStruct1 Refine1 Refine2 Refine3 Refine4 Refine5 Batch Extended.
Close Scope Z_scope.

Lemma spec_run2_app hk : forall a x b,
  fst (spec_run2 hk x (a ++ b)) = fst (spec_run2 hk (fst (spec_run2 hk x a)) b) /\
  snd (spec_run2 hk x (a ++ b)) = snd (spec_run2 hk x a) ++ snd (spec_run2 hk (fst (spec_run2 hk x a)) b).
Proof.
  induction a as [|o r IH]; intros x b; [split; reflexivity|].
  cbn [app spec_run2]. destruct (spec_step2 hk x o) as [x1 y] eqn:E.
  destruct (IH x1 b) as [A B].
  destruct (spec_run2 hk x1 (r ++ b)) as [x2 ys] eqn:E2. destruct (spec_run2 hk x1 r) as [x3 zs] eqn:E3.
  cbn [fst snd] in *. split; [exact A|]. rewrite B. reflexivity.
Qed.

Lemma wf_hist2_app hk ls : forall a s b,
  wf_hist2 hk ls s (a ++ b) <-> wf_hist2 hk ls s a /\ wf_hist2 hk ls (run hk ls s a) b.
Proof.
  induction a as [|o r IH]; intros s b; cbn [app wf_hist2].
  - unfold run. cbn. tauto.
  - rewrite IH. unfold run. cbn [fold_left]. tauto.
Qed.

Lemma spec_close_reopen hk a : fst (spec_run2 hk a [OClose; OReopen]) = a /\
  snd (spec_run2 hk a [OClose; OReopen]) = [RUnit (Ok tt); RUnit (Ok tt)].
Proof. destruct a as [sp|]; split; reflexivity. Qed.

(* CLOSE AND REOPEN IS THE IDENTITY on the collection, at any point of any history, under every
   configuration (cache, asynchronous writes with anything pending, compression, extension): *)
Theorem close_reopen_preserves hk ls s :
  Inv ls s ->
  let s' := run hk ls s [OClose; OReopen] in
  Inv ls s' /\ abs s' = abs s /\ h_mem (s_h s') = None /\ h_cache (s_h s') = [] /\ h_pend (s_h s') = [].
Proof.
  intros I. cbv zeta.
  assert (W : wf_hist2 hk ls s [OClose; OReopen]).
  { cbn [wf_hist2 wf_op2 wf_op]. split; [exact Logic.I|]. split; [|exact Logic.I]. apply (close_then_reopen hk ls s I). }
  destruct (C01_history_bulk hk ls [OClose; OReopen] s I W) as [I' [A' _]].
  split; [exact I'|]. split; [rewrite A'; apply (spec_close_reopen hk (abs s))|].
  unfold run. cbn [fold_left].
  set (s1 := fst (step hk ls s OClose)).
  assert (I1 : Inv ls s1) by (apply (C01_refines hk ls s OClose I Logic.I)).
  rewrite (step_nontick hk ls s1 OReopen Logic.I ltac:(discriminate)).
  cbn [step_fg fst snd mk s_h s_w]. 
  assert (Hd : w_dead (s_w s1) = false) by (destruct I1 as [[_ Hd] _]; exact Hd). rewrite Hd.
  unfold settle. cbn [new_handle h_fl existsb fst snd mk s_h h_mem h_cache h_pend]. repeat split; reflexivity.
Qed.
Print Assumptions close_reopen_preserves.

(* ... so a restart inserted ANYWHERE in a history changes nothing that is observable afterwards:
   the calls after it return what they would have returned without it, the final collection is
   the same *)
Theorem restart_is_invisible hk ls a b :
  wf_hist2 hk ls init_state (a ++ [OClose; OReopen] ++ b) ->
  wf_hist2 hk ls init_state (a ++ b) ->
  abs (run hk ls init_state (a ++ [OClose; OReopen] ++ b)) = abs (run hk ls init_state (a ++ b)) /\
  run_out hk ls (run hk ls init_state (a ++ [OClose; OReopen])) b = run_out hk ls (run hk ls init_state a) b.
Proof.
  intros W1 W2.
  destruct (C01_from_init_bulk hk ls _ W1) as [_ [A1 _]]. destruct (C01_from_init_bulk hk ls _ W2) as [_ [A2 _]].
  apply wf_hist2_app in W1. destruct W1 as [Wa W1]. apply wf_hist2_app in W1. destruct W1 as [Wc Wb1].
  apply wf_hist2_app in W2. destruct W2 as [_ Wb2].
  destruct (C01_from_init_bulk hk ls a Wa) as [Ia [Aa _]].
  pose proof (close_reopen_preserves hk ls (run hk ls init_state a) Ia) as [Ic [Ac _]].
  split.
  - rewrite A1, A2. destruct (spec_run2_app hk a None ([OClose; OReopen] ++ b)) as [E1 _]. rewrite E1.
    destruct (spec_run2_app hk [OClose; OReopen] (fst (spec_run2 hk None a)) b) as [E2 _]. rewrite E2.
    rewrite (proj1 (spec_close_reopen hk _)). destruct (spec_run2_app hk a None b) as [E3 _]. rewrite E3. reflexivity.
  - destruct (C01_history_bulk hk ls b _ Ic Wb1) as [_ [_ R1]].
    destruct (C01_history_bulk hk ls b _ Ia Wb2) as [_ [_ R2]].
    rewrite run_app. rewrite R1, R2, Ac. reflexivity.
Qed.
Print Assumptions restart_is_invisible.

(* synchronous mode: the same without Close, after any completed call *)
Theorem abandon_preserves_sync hk ls s : Inv ls s -> sync_mode s ->
  Inv ls (fst (step hk ls s OReopen)) /\ abs (fst (step hk ls s OReopen)) = abs s.
Proof.
  intros I Hs. pose proof (proj1 (synced_wf hk ls s I (sync_mode_synced ls s I Hs))) as W.
  destruct (C01_refines hk ls s OReopen I W) as [I' [A' _]]. split; [exact I'|]. rewrite A'.
  destruct (abs s); reflexivity.
Qed.
