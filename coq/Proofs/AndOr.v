(* Proofs/AndOr.v: C02 at the level of the handle: "And narrows a result to the intersection, Or
   widens it to the duplicate-free union", for every field (indexed or not) and operator. *)
From Coq Require Import List ZArith NArith Bool Lia Arith Permutation.
Import ListNotations.
From Sod.Model Require Import Base FieldIndex ObjIndex DB.
From Sod.Proofs Require Import FIProofs1 FIProofs2 FIProofs3 FIProofs4 FIProofs5 KeyOrder SearchSpec
     OIProofs OIProofs2 DBBasic DBStruct1 DBStruct3 Refine1 Refine2 Refine3 Refine4 SearchDB Delete.
Close Scope Z_scope.

(* ================================================================ And *)

(* Search.And(field, op, probe) on a previous result [c] whose entries all resolve to stored objects
   and carry pairwise distinct object ids (true of every result of search_denotes / and_denotes):
   an entry is returned IFF its object id occurs in [c] AND it is the id of a stored object whose
   value for the field satisfies the comparison: the intersection.  Same statement whether the
   field is indexed (Constrain) or not (scan of the previous result). *)
Theorem and_denotes hk ls h d m f fd o probe rxm c h' r :
  let pend := h_pend h in
  let probe' := canon_key hk fd probe in
  InvCore ls (h_cache h) pend d m ->
  nth_error (m_fields m) f = Some fd ->
  well_kinded pend d m f probe' ->
  fd_kind fd = kind_of probe' ->
  o <> OpBad ->
  (o = OpRx -> rx_of hk probe' = Some rxm /\ exists s, probe' = KStr s) ->
  NoDup (map snd c) ->
  (forall e, In e c -> exists u, oid_uuid (m_idx m) (snd e) = Some u) ->
  search_with hk h m d (Some f) o probe (Some c) = (h', r) ->
  sr_err r = None /\
  (forall k oid, In (k, oid) (sr_fields r) <->
     In oid (map snd c) /\
     exists u ob, In (oid, u) (oi_ids (m_idx m)) /\ stored pend d m u = Some ob /\
                  nth_error (o_keys ob) f = Some k /\ eval_op o rxm k probe' = true) /\
  NoDup (map snd (sr_fields r)) /\
  h_mem h' = h_mem h /\ h_pend h' = pend /\ InvCore ls (h_cache h') pend d m.
Proof.
  cbv zeta. intros I Hfd WK Hkind Hop Hrx Hndc Hres H.
  pose proof (ic_oi _ _ _ _ _ I) as OI.
  unfold search_with in H. rewrite !nth_opt_error, Hfd in H.
  assert (Hke : kind_eqb (fd_kind fd) (kind_of (canon_key hk fd probe)) = true) by (apply kind_eqb_true; exact Hkind).
  destruct (nth_error (oi_fx (m_idx m)) f) as [[l|]|] eqn:Ef.
  - (* indexed: Constrain, then the operator *)
    rewrite Hke in H. cbn [negb] in H.
    destruct (inv_fields _ _ OI f l Ef) as [Hsl [Hndl Hoids]].
    destruct (key_constrain_spec l c Hsl Hndl) as [li [Hc [Hsli [Hinli [Hndli _]]]]].
    unfold fi_constrain in H. rewrite Hc in H.
    rewrite (fi_search_spec li o (canon_key hk fd probe) (rx_of hk (canon_key hk fd probe)) rxm Hsli Hop Hrx) in H.
    inv H. cbn [sr_err sr_fields]. split; [reflexivity|]. split; [|split; [|split; [reflexivity|split; [reflexivity|exact I]]]].
    + intros k oid. rewrite filter_In. cbn [fst]. rewrite Hinli. cbn [snd]. unfold oids. split.
      * intros [[Hin Hoc] Hev]. split; [exact Hoc|].
        destruct (entry_owner (m_fields m) (m_idx m) f l (k, oid) OI Ef Hin) as [u Hu]. cbn [snd] in Hu.
        destruct (ic_agree _ _ _ _ _ I oid u Hu) as [ob [S _]]. exists u, ob. split; [exact Hu|]. split; [exact S|]. split; [|exact Hev].
        apply (ic_entry_key ls _ _ d m I f u k ob S). exists oid, l. split; [exact Hu|]. split; [exact Ef|exact Hin].
      * intros [Hoc [u [ob [Hu [S [Hk Hev]]]]]]. split; [|exact Hev]. split; [|exact Hoc].
        destruct (ic_key_entry ls _ _ d m I f u k ob l S Ef Hk) as [oid' [l' [Hu' [Hl' Hin']]]].
        assert (l' = l) by congruence. subst l'.
        assert (oid' = oid) by (apply (ids_same_uuid _ _ _ _ u OI Hu' Hu)). subst oid'. exact Hin'.
    + apply NoDup_oids_filter. apply Hndli. exact Hndc.
  - (* full scan over the uuids of the previous result *)
    rewrite Hke in H. cbn [negb] in H.
    pose (rx := match o with OpRx => rxm | _ => (fun _ : key => false) end).
    assert (Hrxsel : (match o with OpRx => rx_of hk (canon_key hk fd probe) | _ => Some (fun _ : key => false) end) = Some rx).
    { unfold rx. destruct o; try reflexivity. destruct (Hrx eq_refl) as [E _]. exact E. }
    assert (Hev : forall k, eval_op o rx k (canon_key hk fd probe) = eval_op o rxm k (canon_key hk fd probe))
      by (intros k; unfold rx; destruct o; reflexivity).
    assert (Hus : map (fun e => oid_uuid (m_idx m) (snd e)) c = map (fun u => Some u) (resolved m c))
      by (apply resolved_all; exact Hres).
    destruct (scan_ok ls d m (h_pend h) f o (canon_key hk fd probe) rx WK (resolved m c) h [] eq_refl I) as [h1 [C [M1 [P1 [S1 I1]]]]].
    { intros u Hu. unfold resolved in Hu. apply in_flat_map in Hu. destruct Hu as [e [He Hu]].
      destruct (oid_uuid (m_idx m) (snd e)) as [u'|] eqn:Eu; [|destruct Hu]. destruct Hu as [->|[]].
      apply is_indexed_true. apply (oid_uuid_spec (m_idx m) _ u (inv_oid_nodup _ _ OI)) in Eu. apply (in_ids_snd _ _ _ Eu). }
    cbn [rev app] in C.
    assert (H2 : (h1, {| sr_fields := flat_map (hit (h_pend h) d m f o rx (canon_key hk fd probe)) (resolved m c);
                         sr_err := None; sr_limit := None; sr_rev := false |}) = (h', r)).
    { clearbody rx. rewrite Hus in H. destruct o; try congruence; cbv beta iota in H, Hrxsel;
        try (injection Hrxsel as <-; rewrite C in H; exact H).
      rewrite Hrxsel in H. rewrite C in H. exact H. }
    inv H2. cbn [sr_err sr_fields]. split; [reflexivity|]. split; [|split; [|split; [exact M1|split; [exact P1|exact I1]]]].
    + intros k oid. rewrite hit_In. split.
      * intros [u [ob [Hu [S [Eo [Hk Hv]]]]]]. apply uuid_oid_In in Eo. split.
        -- unfold resolved in Hu. apply in_flat_map in Hu. destruct Hu as [e [He Hu]].
           destruct (oid_uuid (m_idx m) (snd e)) as [u'|] eqn:Eu; [|destruct Hu]. destruct Hu as [->|[]].
           apply (oid_uuid_spec (m_idx m) _ u (inv_oid_nodup _ _ OI)) in Eu.
           assert (snd e = oid) by (apply (ids_same_uuid _ _ _ _ u OI Eu Eo)). subst oid. apply in_map. exact He.
        -- exists u, ob. split; [exact Eo|]. split; [exact S|]. split; [exact Hk|]. rewrite <- Hev. exact Hv.
      * intros [Hoc [u [ob [Hu [S [Hk Hv]]]]]]. exists u, ob. split.
        -- apply in_map_iff in Hoc. destruct Hoc as [e [Ee He]]. unfold resolved. apply in_flat_map. exists e. split; [exact He|].
           rewrite Ee, (proj2 (oid_uuid_spec (m_idx m) oid u (inv_oid_nodup _ _ OI)) Hu). left. reflexivity.
        -- split; [exact S|]. split; [apply (uuid_oid_spec _ _ _ (inv_uuid_nodup _ _ OI)); exact Hu|]. split; [exact Hk|]. rewrite Hev. exact Hv.
    + apply (hit_nodup (m_fields m)); [exact OI|].
      (* resolved uuids of distinct ids are distinct *)
      clear -Hndc Hres OI. unfold resolved. induction c as [|e l IH]; [constructor|].
      cbn [flat_map]. cbn [map] in Hndc. inversion Hndc as [|? ? Hnotin Hnd']; subst.
      destruct (Hres e (or_introl eq_refl)) as [u Eu]. rewrite Eu. cbn [app]. constructor.
      * rewrite in_flat_map. intros [e' [He' Hu']]. destruct (oid_uuid (m_idx m) (snd e')) as [u'|] eqn:Eu'; [|destruct Hu'].
        destruct Hu' as [->|[]].
        apply (oid_uuid_spec (m_idx m) _ u (inv_oid_nodup _ _ OI)) in Eu.
        apply (oid_uuid_spec (m_idx m) _ u (inv_oid_nodup _ _ OI)) in Eu'.
        assert (snd e' = snd e) by (apply (ids_same_uuid _ _ _ _ u OI Eu' Eu)). apply Hnotin. rewrite <- H. apply in_map. exact He'.
      * apply IH; [exact Hnd'|]. intros e' He'. apply Hres. right. exact He'.
  - exfalso. apply nth_error_None in Ef. rewrite (inv_len _ _ OI) in Ef.
    assert (nth_error (m_fields m) f <> None) by congruence. apply nth_error_Some in H0. lia.
Qed.
Print Assumptions and_denotes.

(* ================================================================ Or *)

(* Search.Or: the new result, then the old entries whose object id is not in it: every object id of
   either result exactly once: the duplicate-free union *)
Lemma NoDup_app_disjoint {A} (l1 l2 : list A) : NoDup l1 -> NoDup l2 ->
  (forall x, In x l1 -> ~ In x l2) -> NoDup (l1 ++ l2).
Proof.
  induction l1 as [|x r IH]; intros N1 N2 Hd; [exact N2|]. inversion N1 as [|? ? Hn N1']; subst.
  cbn [app]. constructor.
  - rewrite in_app_iff. intros [H|H]; [contradiction|]. apply (Hd x (or_introl eq_refl) H).
  - apply IH; [exact N1'|exact N2|]. intros y Hy. apply Hd. right. exact Hy.
Qed.

Theorem or_merge_spec (nw old : list entry) :
  (forall e : entry, In e (or_merge nw old) <-> In e nw \/ (In e old /\ ~ In (snd e) (map snd nw))) /\
  (NoDup (map snd nw) -> NoDup (map snd old) -> NoDup (map snd (or_merge nw old))) /\
  (forall oid, In oid (map snd (or_merge nw old)) <-> In oid (map snd nw) \/ In oid (map snd old)).
Proof.
  assert (Hx : forall e : entry, existsb (fun x : entry => N.eqb (snd x) (snd e)) nw = true <-> In (snd e) (map snd nw)).
  { intros e. rewrite existsb_exists. split.
    - intros [x [Hx He]]. apply N.eqb_eq in He. rewrite <- He. apply in_map. exact Hx.
    - intros Hin. apply in_map_iff in Hin. destruct Hin as [x [E Hx]]. exists x. split; [exact Hx|]. apply N.eqb_eq. exact E. }
  assert (H1 : forall e : entry, In e (or_merge nw old) <-> In e nw \/ (In e old /\ ~ In (snd e) (map snd nw))).
  { intros e. unfold or_merge. rewrite in_app_iff, filter_In, negb_true_iff. split.
    - intros [H|[H1 H2]]; [left; exact H|right; split; [exact H1|]]. intros X. apply Hx in X. congruence.
    - intros [H|[H1 H2]]; [left; exact H|right; split; [exact H1|]].
      destruct (existsb _ nw) eqn:E; [|reflexivity]. exfalso. apply H2. apply Hx. exact E. }
  split; [exact H1|]. split.
  - intros N1 N2. unfold or_merge. rewrite map_app. apply NoDup_app_disjoint.
    + exact N1.
    + apply NoDup_map_filter. exact N2.
    + intros oid Hin Hin2. apply in_map_iff in Hin2. destruct Hin2 as [e [E He]]. apply filter_In in He.
      destruct He as [_ Hb]. apply negb_true_iff in Hb. subst oid. apply Hx in Hin. congruence.
  - intros oid. rewrite !in_map_iff. split.
    + intros [e [E He]]. apply H1 in He. destruct He as [He|[He _]]; [left|right]; exists e; split; assumption.
    + intros [[e [E He]]|[e [E He]]].
      * exists e. split; [exact E|]. apply H1. left. exact He.
      * destruct (in_dec N.eq_dec (snd e) (map snd nw)) as [Hin|Hn].
        -- apply in_map_iff in Hin. destruct Hin as [e' [E' He']]. exists e'. split; [congruence|]. apply H1. left. exact He'.
        -- exists e. split; [exact E|]. apply H1. right. split; assumption.
Qed.
Print Assumptions or_merge_spec.

(* the Or step of the handle: Search.Or(field, op, probe) on a previous result [prev] without error
   stores or_merge (new result) (prev) under the new search id *)
Theorem or_step_is_merge hk ls s sid old fld o probe h2 r m h1 :
  sr_err (find_srch (s_h s) old) = None ->
  db_schema ls (s_h s) (w_disk (s_w s)) = (h1, Some m, None) ->
  search_with hk h1 m (w_disk (s_w s)) fld o probe None = (h2, r) ->
  sr_fields (find_srch (s_h (fst (step_fg hk ls s (OOr sid old fld o probe)))) sid) =
    or_merge (sr_fields r) (sr_fields (find_srch (s_h s) old)) /\
  sr_err (find_srch (s_h (fst (step_fg hk ls s (OOr sid old fld o probe)))) sid) = sr_err r.
Proof.
  intros He D S. unfold step_fg. cbv zeta. rewrite He. rewrite (with_schema_some ls s _ _ h1 m D). rewrite S.
  cbn [fst mk s_h]. split; unfold find_srch at 1; cbn [set_srch h_srch]; rewrite rf_assoc_put, N.eqb_refl; reflexivity.
Qed.
