(* Proofs/KeyOrder.v: key_ltb / key_eqb form a strict weak order (the four hypotheses of the
   generic field-index development), proved for the whole [key] type. *)
From Coq Require Import List ZArith NArith Bool Lia Arith.
Import ListNotations.
From Sod.Model Require Import Base.

Lemma str_ltb_irrefl : forall a, str_ltb a a = false.
Proof. induction a as [|x a IH]; cbn; [reflexivity|]. rewrite N.ltb_irrefl. exact IH. Qed.

Lemma str_ltb_trans : forall a b c, str_ltb a b = true -> str_ltb b c = true -> str_ltb a c = true.
Proof.
  induction a as [|x a IH]; intros [|y b] [|z c] H1 H2; cbn in *; try discriminate; try reflexivity.
  destruct (N.ltb x y) eqn:Exy.
  - apply N.ltb_lt in Exy. destruct (N.ltb y z) eqn:Eyz.
    + apply N.ltb_lt in Eyz. assert (N.ltb x z = true) by (apply N.ltb_lt; lia). rewrite H. reflexivity.
    + destruct (N.ltb z y) eqn:Ezy; [discriminate|].
      apply N.ltb_ge in Eyz. apply N.ltb_ge in Ezy. assert (y = z) by lia. subst z.
      assert (N.ltb x y = true) by (apply N.ltb_lt; lia). rewrite H. reflexivity.
  - destruct (N.ltb y x) eqn:Eyx; [discriminate|].
    apply N.ltb_ge in Exy. apply N.ltb_ge in Eyx. assert (x = y) by lia. subst y.
    destruct (N.ltb x z) eqn:Exz; [reflexivity|].
    destruct (N.ltb z x) eqn:Ezx; [discriminate|].
    eapply IH; eassumption.
Qed.

Lemma str_ltb_negtrans : forall a b c, str_ltb a b = false -> str_ltb b c = false -> str_ltb a c = false.
Proof.
  induction a as [|x a IH]; intros [|y b] [|z c] H1 H2; cbn in *; try discriminate; try reflexivity.
  destruct (N.ltb x y) eqn:Exy; [discriminate|].
  destruct (N.ltb y z) eqn:Eyz; [discriminate|].
  apply N.ltb_ge in Exy. apply N.ltb_ge in Eyz.
  destruct (N.ltb y x) eqn:Eyx.
  - apply N.ltb_lt in Eyx. assert (N.ltb x z = false) by (apply N.ltb_ge; lia). rewrite H.
    assert (N.ltb z x = true) by (apply N.ltb_lt; lia). rewrite H0. reflexivity.
  - apply N.ltb_ge in Eyx. assert (x = y) by lia. subst y.
    assert (N.ltb x z = false) by (apply N.ltb_ge; lia). rewrite H.
    destruct (N.ltb z x) eqn:Ezx; [reflexivity|]. eapply IH; eassumption.
Qed.

Lemma str_eq_def : forall a b, str_eqb a b = negb (str_ltb a b) && negb (str_ltb b a).
Proof.
  induction a as [|x a IH]; intros [|y b]; cbn; try reflexivity.
  destruct (N.eqb x y) eqn:E.
  - apply N.eqb_eq in E. subst y. rewrite N.ltb_irrefl. cbn. apply IH.
  - apply N.eqb_neq in E. destruct (N.ltb x y) eqn:Exy; cbn; [reflexivity|].
    apply N.ltb_ge in Exy. assert (N.ltb y x = true) by (apply N.ltb_lt; lia). rewrite H. reflexivity.
Qed.

Lemma str_eqb_eq : forall a b, str_eqb a b = true <-> a = b.
Proof.
  induction a as [|x a IH]; intros [|y b]; cbn; split; intros H; try discriminate; try reflexivity.
  - apply andb_true_iff in H. destruct H as [H1 H2]. apply N.eqb_eq in H1. apply IH in H2. congruence.
  - inversion H; subst. rewrite N.eqb_refl. cbn. apply IH. reflexivity.
Qed.

Lemma key_lt_irrefl : forall a, key_ltb a a = false.
Proof. intros [z|z|z|s]; cbn; try apply Z.ltb_irrefl. apply str_ltb_irrefl. Qed.

Ltac zlt := repeat match goal with
  | H : Z.ltb _ _ = true |- _ => apply Z.ltb_lt in H
  | H : Z.ltb _ _ = false |- _ => apply Z.ltb_ge in H
  | |- Z.ltb _ _ = true => apply Z.ltb_lt
  | |- Z.ltb _ _ = false => apply Z.ltb_ge
  end; try lia.

Lemma key_lt_trans : forall a b c, key_ltb a b = true -> key_ltb b c = true -> key_ltb a c = true.
Proof.
  intros [x|x|x|x] [y|y|y|y] [z|z|z|z] H1 H2; cbn in *; try discriminate; try reflexivity; zlt.
  eapply str_ltb_trans; eassumption.
Qed.

Lemma key_lt_negtrans : forall a b c, key_ltb a b = false -> key_ltb b c = false -> key_ltb a c = false.
Proof.
  intros [x|x|x|x] [y|y|y|y] [z|z|z|z] H1 H2; cbn in *; try discriminate; try reflexivity; zlt.
  eapply str_ltb_negtrans; eassumption.
Qed.

Lemma key_eq_def : forall a b, key_eqb a b = negb (key_ltb a b) && negb (key_ltb b a).
Proof.
  intros [x|x|x|x] [y|y|y|y]; cbn; try reflexivity.
  1-3: destruct (Z.eqb x y) eqn:E; [apply Z.eqb_eq in E; subst; rewrite Z.ltb_irrefl; reflexivity|];
       apply Z.eqb_neq in E; destruct (Z.ltb x y) eqn:E1; cbn; [reflexivity|];
       apply Z.ltb_ge in E1; assert (Z.ltb y x = true) by (apply Z.ltb_lt; lia); rewrite H; reflexivity.
  apply str_eq_def.
Qed.

Lemma key_eqb_eq : forall a b, key_eqb a b = true <-> a = b.
Proof.
  intros [x|x|x|x] [y|y|y|y]; cbn; split; intros H; try discriminate; try (inversion H; subst).
  all: try (apply Z.eqb_eq in H; congruence); try apply Z.eqb_refl.
  - apply str_eqb_eq in H. congruence.
  - apply str_eqb_eq. reflexivity.
Qed.
