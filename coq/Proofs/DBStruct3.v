(* Proofs/DBStruct3.v: search values are snapshots (C20), Collect (C13), the flusher (C10). *)
From Coq Require Import List ZArith NArith Bool Lia.
Import ListNotations.
From Sod.Model Require Import Base FieldIndex ObjIndex DB Instance.
From Sod.Proofs Require Import DBBasic DBStruct1 DBStruct2.

(* ---------------------------------------------------------------- 3a: one lemma per helper *)

Lemma db_schema_srch ls h d h' mo eo : db_schema ls h d = (h', mo, eo) -> h_srch h' = h_srch h.
Proof. intros H. apply db_schema_stores in H. destruct H as [_ [_ [H _]]]. exact H. Qed.

Lemma commit_srch ls h w h' e w' : commit ls h w = (h', e, w') -> h_srch h' = h_srch h.
Proof. intros H. apply commit_stores in H. destruct H as [_ [_ [H _]]]. exact H. Qed.

Lemma insert_core_srch ls h w m u o c h' r w' :
  insert_core ls h w m u o c = (h', r, w') -> h_srch h' = h_srch h.
Proof.
  unfold insert_core.
  destruct (negb (forallb serialisable (o_keys o))); [intros H; inv H; reflexivity|].
  destruct (oi_insert_or_update (m_fields m) (m_idx m) (o_keys o) u) as [ix|e1|];
    [|intros H; inv H; reflexivity|intros H; inv H; reflexivity].
  set (h2 := if must_cache (set_idx m ix) then _ else _).
  assert (Hh2 : h_srch h2 = h_srch h) by (subst h2; destruct (must_cache (set_idx m ix)); reflexivity).
  destruct (async_on (set_idx m ix)); [intros H; inv H; exact Hh2|].
  destruct (write_object w (set_idx m ix) u o) as [[e2|] w1]; [intros H; inv H; exact Hh2|].
  destruct c; [|intros H; inv H; exact Hh2].
  destruct (commit ls h2 w1) as [[h3 e3] w3] eqn:Hc. apply commit_srch in Hc.
  destruct e3; intros H; inv H; congruence.
Qed.

Lemma insert_loop_srch ls l : forall h w n h' r w' n',
  insert_loop ls h w l n = (h', r, w', n') -> h_srch h' = h_srch h.
Proof.
  induction l as [|[u o] l IH]; intros h w n h' r w' n'; cbn [insert_loop].
  - intros H; inv H; reflexivity.
  - destruct (h_mem h) as [m|]; [|intros H; inv H; reflexivity].
    destruct (insert_core ls h w m u o false) as [[h1 r1] w1] eqn:Hi. apply insert_core_srch in Hi.
    destruct r1 as [[]|e1|]; [|intros H; inv H; exact Hi|intros H; inv H; exact Hi].
    intros H. apply IH in H. congruence.
Qed.

Lemma do_many_srch hk ls s ms s' r n : do_many hk ls s ms = (s', r, n) -> h_srch (s_h s') = h_srch (s_h s).
Proof.
  destruct ms as [|[u fresh o|] ms]; [intros H; inv H; reflexivity| |].
  2: { intros H. destruct (many_other_first _ _ _ _ _ _ _ H) as [_ [[E|E] _]]; rewrite E; [reflexivity|].
       destruct (db_schema ls (s_h s) (w_disk (s_w s))) as [[h1 mo] eo] eqn:Hs. apply db_schema_srch in Hs. exact Hs. }
  unfold do_many.
  destruct (db_schema ls (s_h s) (w_disk (s_w s))) as [[h1 mo] eo] eqn:Hs. apply db_schema_srch in Hs.
  destruct mo as [m|]; destruct eo as [e0|]; try (intros H; inv H; exact Hs).
  destruct (validate_batch hk m (new_index (m_fields m)) (MRec u fresh o :: ms)) as [l|e1|];
    try (intros H; inv H; exact Hs).
  destruct (insert_loop ls h1 (s_w s) l 0%Z) as [[[h2 r2] w2] n2] eqn:Hl. apply insert_loop_srch in Hl.
  destruct (commit ls h2 w2) as [[h3 e3] w3] eqn:Hc. apply commit_srch in Hc.
  destruct e3; intros H; inv H; cbn; congruence.
Qed.

Lemma bulk_loop_srch hk ls cs : forall s n s' r n',
  bulk_loop hk ls s cs n = (s', r, n') -> h_srch (s_h s') = h_srch (s_h s).
Proof.
  induction cs as [|c cs IH]; intros s n s' r n'.
  - cbn. intros H; inv H; reflexivity.
  - rewrite bulk_loop_cons. destruct (do_many hk ls s c) as [[s1 r1] k1] eqn:Hd. apply do_many_srch in Hd.
    destruct r1 as [[]|e1|]; [|intros H; inv H; exact Hd|intros H; inv H; exact Hd].
    intros H. apply IH in H. congruence.
Qed.

Lemma get_with_srch h m d u h' r : get_with h m d u = (h', r) -> h_srch h' = h_srch h.
Proof.
  unfold get_with. repeat break_match; intros H; inv H; reflexivity.
Qed.

Lemma delete_core_srch h w m u h' r w' : delete_core h w m u = (h', r, w') -> h_srch h' = h_srch h.
Proof.
  unfold delete_core.
  set (h1 := if must_cache m then _ else _).
  assert (Hh1 : h_srch h1 = h_srch h) by (subst h1; destruct (must_cache m); reflexivity).
  clearbody h1. repeat break_match; intros H; inv H; exact Hh1.
Qed.

Lemma delete_loop_srch us : forall h w h' r w',
  delete_loop h w us = (h', r, w') -> h_srch h' = h_srch h.
Proof.
  induction us as [|uo us IH]; intros h w h' r w'; cbn [delete_loop].
  - intros H; inv H; reflexivity.
  - destruct (h_mem h) as [m|]; [|intros H; inv H; reflexivity].
    set (h0 := match uo with Some u' => fst (get_with h m (w_disk w) u') | None => h end).
    assert (Hh0 : h_srch h0 = h_srch h).
    { subst h0. destruct uo as [u'|]; [|reflexivity].
      destruct (get_with h m (w_disk w) u') as [hx rx] eqn:Hg. apply get_with_srch in Hg. exact Hg. }
    clearbody h0.
    destruct (delete_core h0 w m _) as [[h1 r1] w1] eqn:Hd. apply delete_core_srch in Hd.
    destruct r1 as [[]|e1|]; [|intros H; inv H; congruence|intros H; inv H; congruence].
    intros H. apply IH in H. congruence.
Qed.

Lemma do_delete_objects_srch ls h w us s' r :
  do_delete_objects ls h w us = (s', r) -> h_srch (s_h s') = h_srch h.
Proof.
  unfold do_delete_objects.
  destruct (delete_loop h w us) as [[h1 r1] w1] eqn:Hd. apply delete_loop_srch in Hd.
  destruct (commit ls h1 w1) as [[h2 e2] w2] eqn:Hc. apply commit_srch in Hc.
  intros H; inv H. cbn. congruence.
Qed.

Lemma flush_all_srch ls h w h' e w' : flush_all ls h w = (h', e, w') -> h_srch h' = h_srch h.
Proof.
  unfold flush_all. destruct (h_pend h) as [|p l]; [intros H; inv H; reflexivity|].
  destruct (db_schema ls h (w_disk w)) as [[h1 mo] eo] eqn:Hs. apply db_schema_srch in Hs.
  destruct mo as [m|].
  - destruct (flush_list w m (p :: l) None). intros H; inv H. exact Hs.
  - destruct eo; intros H; inv H; exact Hs.
Qed.

Lemma flush_all_commit_srch ls h w h' e w' : flush_all_commit ls h w = (h', e, w') -> h_srch h' = h_srch h.
Proof.
  unfold flush_all_commit. destruct (flush_all ls h w) as [[h1 e1] w1] eqn:Hf. apply flush_all_srch in Hf.
  destruct (commit ls h1 w1) as [[h2 e2] w2] eqn:Hc. apply commit_srch in Hc.
  destruct e2; intros H; inv H; congruence.
Qed.

Lemma repair_add_srch w us : forall h h' r, repair_add h w us = (h', r) -> h_srch h' = h_srch h.
Proof.
  induction us as [|u us IH]; intros h h' r; cbn [repair_add].
  - intros H; inv H; reflexivity.
  - destruct (h_mem h) as [m|]; [|intros H; inv H; reflexivity].
    destruct (is_indexed (m_idx m) u); [apply IH|].
    destruct (get_with h m (w_disk w) u) as [h1 r1] eqn:Hg. apply get_with_srch in Hg.
    destruct r1 as [o|e1|]; [|intros H; inv H; exact Hg|intros H; inv H; exact Hg].
    destruct (oi_insert_or_update _ _ _ _) as [ix|e2|]; [|intros H; inv H; exact Hg|intros H; inv H; exact Hg].
    intros H. apply IH in H. cbn in H. congruence.
Qed.

Lemma collect_loop_srch m d us : forall h lim acc h' l e lim',
  collect_loop h m d us lim acc = (h', l, e, lim') -> h_srch h' = h_srch h.
Proof.
  induction us as [|uo us IH]; intros h lim acc h' l e lim'; cbn [collect_loop].
  - intros H; inv H; reflexivity.
  - destruct (match uo with None => (h, Err (unresolved_err m)) | Some u => get_with h m d u end) as [h1 r1] eqn:Hg.
    assert (Hh1 : h_srch h1 = h_srch h).
    { destruct uo as [u|]; [apply get_with_srch in Hg; exact Hg|inv Hg; reflexivity]. }
    destruct r1 as [ob|e1|]; [|intros H; inv H; exact Hh1|intros H; inv H; exact Hh1].
    destruct lim as [n|].
    + destruct n; [intros H; inv H; exact Hh1|]. intros H. apply IH in H. congruence.
    + intros H. apply IH in H. congruence.
Qed.

Lemma flusher_iter_srch ls h w slept wake h' w' so :
  flusher_iter ls h w slept wake = Ok (h', w', so) -> h_srch h' = h_srch h.
Proof.
  unfold flusher_iter. destruct (h_mem h) as [m|]; [|discriminate].
  destruct (st_async (m_set m)) as [[thr tmo]|]; [|intros H; inv H; reflexivity].
  destruct (_ || _); [|intros H; inv H; reflexivity].
  destruct (h_cancel h); [intros H; inv H; reflexivity|].
  destruct (flush_all_commit ls h w) as [[h1 e1] w1] eqn:Hf. apply flush_all_commit_srch in Hf.
  destruct e1; intros H; inv H. exact Hf.
Qed.

Lemma run_flushers_srch ls fl only : forall h w acc h' w' fl',
  run_flushers ls h w fl only acc = Ok (h', w', fl') -> h_srch h' = h_srch h.
Proof.
  induction fl as [|[slept fresh] fl IH]; intros h w acc h' w' fl'; cbn [run_flushers].
  - intros H; inv H; reflexivity.
  - destruct (only && negb fresh); [apply IH|].
    destruct (flusher_iter ls h w slept (negb fresh)) as [[[h1 w1] so]|e|] eqn:Hf; try discriminate.
    apply flusher_iter_srch in Hf.
    destruct so as [z|]; intros H; apply IH in H; congruence.
Qed.

Lemma settle_srch ls h w h' w' : settle ls h w = Ok (h', w') -> h_srch h' = h_srch h.
Proof.
  unfold settle. destruct (existsb _ (h_fl h)); [|intros H; inv H; reflexivity].
  destruct (run_flushers ls (set_fl h []) w (h_fl h) true []) as [[[h1 w1] fl]|e|] eqn:Hr; try discriminate.
  apply run_flushers_srch in Hr. intros H; inv H. cbn in *. exact Hr.
Qed.

(* ---------------------------------------------------------------- 3a: the operations *)

(* every operation of the model except the five which (re)define or consume a search value
   (OSearch, OAnd, OOr, OCollect, OOne) and OReopen (a new handle) *)
Definition keeps_srch (o : op) : bool :=
  match o with
  | OSearch _ _ _ _ | OAnd _ _ _ _ _ | OOr _ _ _ _ _ | OCollect _ _ _ | OOne _ | OReopen | OExpects _ _ _ => false
  | _ => true
  end.

Lemma with_schema_srch ls s k bad s' r (P : handle) :
  (forall h1 m s' r, h_srch h1 = h_srch (s_h s) -> k h1 m = (s', r) -> h_srch (s_h s') = h_srch (s_h s)) ->
  (forall h1 e s' r, h_srch h1 = h_srch (s_h s) -> bad h1 e = (s', r) -> h_srch (s_h s') = h_srch (s_h s)) ->
  with_schema ls s k bad = (s', r) -> h_srch (s_h s') = h_srch (s_h s).
Proof.
  intros Hk Hb. unfold with_schema.
  destruct (db_schema ls (s_h s) (w_disk (s_w s))) as [[h1 mo] eo] eqn:Hs. apply db_schema_srch in Hs.
  destruct mo as [m|]; destruct eo as [e0|]; intros H; eauto.
Qed.

Theorem writes_keep_searches_fg hk ls s o :
  keeps_srch o = true -> h_srch (s_h (fst (step_fg hk ls s o))) = h_srch (s_h s).
Proof.
  intros Hk. destruct (step_fg hk ls s o) as [s' r] eqn:H. cbn [fst].
  destruct o; try discriminate Hk; clear Hk; cbn [step_fg] in H.
  - (* OCreate *)
    destruct (db_schema ls (s_h s) (w_disk (s_w s))) as [[h1 mo] eo] eqn:Hs. apply db_schema_srch in Hs.
    destruct mo as [m|]; destruct eo as [e0|].
    + destruct e0; try (inv H; exact Hs).
      destruct (fs_mkdir (s_w s)) as [ok w1]. destruct (negb ok); [inv H; exact Hs|].
      destruct (match d_schema (w_disk w1) with None => _ | Some _ => _ end) as [e2 w2].
      destruct e2; [inv H; exact Hs|]. destruct (control_mem ls _ (w_disk w2)); inv H; exact Hs.
    + destruct (negb (str_eqb _ _)); [inv H; exact Hs|].
      destruct (negb (_ && _)); [inv H; exact Hs|].
      destruct (if async_on m && negb _ then flush_all ls h1 (s_w s) else (h1, None, s_w s)) as [[h2 fe] w0] eqn:Hf.
      assert (Hh2 : h_srch h2 = h_srch h1).
      { destruct (async_on m && negb _); [apply flush_all_srch in Hf; exact Hf|inv Hf; reflexivity]. }
      destruct fe; [inv H; cbn; congruence|].
      destruct (save_schema w0 _) as [e1 w1]. inv H. cbn.
      destruct (must_cache _); cbn; congruence.
    + destruct e0; try (inv H; exact Hs).
      destruct (fs_mkdir (s_w s)) as [ok w1]. destruct (negb ok); [inv H; exact Hs|].
      destruct (match d_schema (w_disk w1) with None => _ | Some _ => _ end) as [e2 w2].
      destruct e2; [inv H; exact Hs|]. destruct (control_mem ls _ (w_disk w2)); inv H; exact Hs.
    + inv H; exact Hs.
  - (* OInsert *)
    unfold do_insert in H. revert H. apply with_schema_srch; [exact (s_h s)| |].
    + intros h1 m s1 r1 Hh. destruct (negb (hk_va hk _)); [intros H; inv H; exact Hh|].
      destruct (insert_core ls h1 (s_w s) m _ _ true) as [[h2 r2] w2] eqn:Hi. apply insert_core_srch in Hi.
      intros H; inv H. cbn. congruence.
    + intros h1 e s1 r1 Hh H; inv H; exact Hh.
  - (* OMany *)
    destruct (do_many hk ls s ms) as [[s1 r1] n1] eqn:Hd. apply do_many_srch in Hd. inv H. exact Hd.
  - (* OBulk *)
    destruct (bulk_loop hk ls s (chunks csize ms) 0%Z) as [[s1 r1] n1] eqn:Hd. apply bulk_loop_srch in Hd.
    inv H. exact Hd.
  - (* ODelete *)
    destruct (db_schema ls (s_h s) (w_disk (s_w s))) as [[h1 mo] eo] eqn:Hs. apply db_schema_srch in Hs.
    destruct mo as [m|]; destruct eo as [e0|]; try (inv H; exact Hs).
    destruct (delete_core h1 (s_w s) m u) as [[h2 r2] w2] eqn:Hd. apply delete_core_srch in Hd.
    destruct (commit ls h2 w2) as [[h3 e3] w3] eqn:Hc. apply commit_srch in Hc.
    destruct e3; inv H; cbn; congruence.
  - (* ODeleteAll *)
    revert H. apply with_schema_srch; [exact (s_h s)| |].
    + intros h1 m s1 r1 Hh H. apply do_delete_objects_srch in H. congruence.
    + intros h1 e s1 r1 Hh H; inv H; exact Hh.
  - (* OGet *)
    revert H. apply with_schema_srch; [exact (s_h s)| |].
    + intros h1 m s1 r1 Hh. destruct (get_with h1 m (w_disk (s_w s)) u) as [h2 r2] eqn:Hg.
      apply get_with_srch in Hg. destruct r2; intros H; inv H; cbn; congruence.
    + intros h1 e s1 r1 Hh H; inv H; exact Hh.
  - (* OExist *)
    revert H. apply with_schema_srch; [exact (s_h s)| |]; intros h1 x s1 r1 Hh H; inv H; exact Hh.
  - (* OCount *)
    revert H. apply with_schema_srch; [exact (s_h s)| |]; intros h1 x s1 r1 Hh H; inv H; exact Hh.
  - (* OAll *)
    revert H. apply with_schema_srch; [exact (s_h s)| |].
    + intros h1 m s1 r1 Hh.
      destruct (collect_loop h1 m (w_disk (s_w s)) _ None []) as [[[h2 l2] e2] lim2] eqn:Hc.
      apply collect_loop_srch in Hc. destruct e2; intros H; inv H; cbn; congruence.
    + intros h1 e s1 r1 Hh H; inv H; exact Hh.
  - (* OLen *) inv H; reflexivity.
  - (* OSearchDelete *)
    destruct (sr_err (find_srch (s_h s) sid)); [inv H; reflexivity|].
    revert H. apply with_schema_srch; [exact (s_h s)| |].
    + intros h1 m s1 r1 Hh H. apply do_delete_objects_srch in H. congruence.
    + intros h1 e s1 r1 Hh H; inv H; exact Hh.
  - (* OAssignIndex *)
    revert H. apply with_schema_srch; [exact (s_h s)| |].
    + intros h1 m s1 r1 Hh H. repeat break_match; inv H; exact Hh.
    + intros h1 e s1 r1 Hh H; inv H; exact Hh.
  - (* OCommit *)
    destruct (commit ls (s_h s) (s_w s)) as [[h1 e1] w1] eqn:Hc. apply commit_srch in Hc. inv H. exact Hc.
  - (* OFlushAll *)
    destruct (flush_all ls (s_h s) (s_w s)) as [[h1 e1] w1] eqn:Hc. apply flush_all_srch in Hc. inv H. exact Hc.
  - (* OFlushAllCommit *)
    destruct (flush_all_commit ls (s_h s) (s_w s)) as [[h1 e1] w1] eqn:Hc. apply flush_all_commit_srch in Hc.
    inv H. exact Hc.
  - (* OControl *)
    destruct (h_mem (s_h s)); inv H; reflexivity.
  - (* ORepair *)
    destruct (db_schema ls (s_h s) (w_disk (s_w s))) as [[h1 mo] eo] eqn:Hs. apply db_schema_srch in Hs.
    destruct mo as [m|]; [|destruct eo; inv H; exact Hs].
    destruct (negb (d_dir (w_disk (s_w s)))); [inv H; exact Hs|].
    destruct (repair_add h1 (s_w s) _) as [h2 r2] eqn:Hr. apply repair_add_srch in Hr.
    destruct r2 as [[]|e2|]; [|inv H; cbn; congruence|inv H; cbn; congruence].
    destruct (h_mem h2) as [m2|]; [|inv H; cbn; congruence].
    destruct (repair_drop _ _ _) as [ix|]; [|inv H; cbn; congruence].
    destruct (commit ls _ (s_w s)) as [[h4 e4] w4] eqn:Hc. apply commit_srch in Hc.
    inv H. cbn in *. congruence.
  - (* OClose *)
    destruct (flush_all ls (set_cancel (s_h s)) (s_w s)) as [[h1 e1] w1] eqn:Hf. apply flush_all_srch in Hf.
    cbn in Hf. destruct (h_mem h1); [|inv H; exact Hf].
    destruct (commit ls h1 w1) as [[h2 e2] w2] eqn:Hc. apply commit_srch in Hc.
    destruct e2; inv H; cbn; congruence.
  - (* ODrop *)
    destruct (fs_remove_all (s_w s)) as [ok w1]. inv H. reflexivity.
  - (* OSchema *)
    destruct (db_schema ls (s_h s) (w_disk (s_w s))) as [[h1 mo] eo] eqn:Hs. apply db_schema_srch in Hs.
    inv H. exact Hs.
  - (* OTick *) inv H; reflexivity.
  - inv H; reflexivity.
  - inv H; reflexivity.
  - destruct (negb _); inv H; reflexivity.
  - inv H; reflexivity.
  - destruct (negb _); inv H; reflexivity.
  - destruct (d_schema _); inv H; reflexivity.
  - repeat break_match; inv H; reflexivity.
  - inv H; reflexivity.
  - inv H; reflexivity.
  - (* OFlushOne *)
    destruct (if withc then commit ls (s_h s) (s_w s) else (s_h s, None, s_w s)) as [[h0 e0] w0] eqn:C.
    assert (S0 : h_srch h0 = h_srch (s_h s)).
    { destruct withc; [apply (commit_srch _ _ _ _ _ _ C)|inv C; reflexivity]. }
    destruct (db_schema ls h0 (w_disk w0)) as [[h1 mo] eo] eqn:Hs. apply db_schema_srch in Hs.
    destruct mo as [m|]; destruct eo as [x|]; try (inv H; cbn; congruence).
    destruct (write_object w0 m u ob). inv H. cbn. congruence.
  - (* XRmFieldEntry *) repeat break_match; inv H; reflexivity.
Qed.
Print Assumptions writes_keep_searches_fg.

Lemma step_not_tick hk ls s o : o <> OTick ->
  step hk ls s o =
  let armed := match o with OFailAt _ | OCrashAt _ => true | _ => false end in
  let (s1, r) := step_fg hk ls s o in
  let w1 := s_w s1 in
  let w2 := if armed then w1
            else {| w_disk := w_disk w1; w_fail := None; w_fired := w_fired w1; w_crash := false;
                    w_dead := false; w_log := w_log w1 |} in
  if w_dead w1 then (mk new_handle w2, RCrash) else
  match settle ls (s_h s1) w2 with
  | Ok (h2, w3) => (mk h2 w3, r)
  | Err e => (mk (s_h s1) w2, r)
  | Panic => (mk (s_h s1) w2, RPanic)
  end.
Proof. intros Hn. destruct o; try reflexivity. congruence. Qed.

Lemma step_tick_srch hk ls s : h_srch (s_h (fst (step hk ls s OTick))) = h_srch (s_h s).
Proof.
  cbn [step].
  destruct (run_flushers ls (set_fl (s_h s) []) (s_w s) (h_fl (s_h s)) false []) as [[[h1 w1] fl]|e|] eqn:Hr;
    try reflexivity.
  apply run_flushers_srch in Hr. cbn in *. exact Hr.
Qed.

Lemma op_eq_tick o : o = OTick \/ o <> OTick.
Proof. destruct o; (left; reflexivity) || (right; discriminate). Qed.

(* a crash (the only way [step] answers RCrash) loses the handle, hence the searches *)
Theorem writes_keep_searches hk ls s o :
  keeps_srch o = true -> snd (step hk ls s o) <> RCrash ->
  h_srch (s_h (fst (step hk ls s o))) = h_srch (s_h s).
Proof.
  intros Hk Hc. destruct (op_eq_tick o) as [->|Hn]; [apply step_tick_srch|].
  rewrite step_not_tick in * by exact Hn. cbv zeta in *.
  pose proof (writes_keep_searches_fg hk ls s o Hk) as Hfg.
  destruct (step_fg hk ls s o) as [s1 r]. cbn [fst] in Hfg.
  destruct (w_dead (s_w s1)); [cbn in Hc; congruence|].
  match goal with |- context [settle ls (s_h s1) ?w2] => destruct (settle ls (s_h s1) w2) as [[h2 w3]|e|] eqn:Hs end;
    cbn; try exact Hfg.
  apply settle_srch in Hs. congruence.
Qed.
Print Assumptions writes_keep_searches.

(* ---------------------------------------------------------------- 3b: Collect *)

Definition uid (uo : option N) : N := match uo with Some u => u | None => 0%N end.

Lemma collect_loop_cons h m d uo r lim acc :
  collect_loop h m d (uo :: r) lim acc =
  match (match uo with None => (h, Err (unresolved_err m)) | Some u => get_with h m d u end) with
  | (h1, Ok ob) =>
      match lim with
      | Some 0%N => (h1, rev acc, None, lim)
      | Some n => collect_loop h1 m d r (Some (N.pred n)) ((uid uo, ob) :: acc)
      | None => collect_loop h1 m d r None ((uid uo, ob) :: acc)
      end
  | (h1, Err e) => (h1, rev acc, Some e, lim)
  | (h1, Panic) => (h1, rev acc, Some EOther, lim)
  end.
Proof. reflexivity. Qed.

(* (1) structure, whatever the reads return: the result is the accumulator followed by objects
   labelled with a PREFIX of the requested uuids, in the requested order; at most [n] objects
   are returned under a limit [n], and the stored limit decreases by the number returned *)
Theorem collect_loop_shape m d us : forall h lim acc h' l e lim',
  collect_loop h m d us lim acc = (h', l, e, lim') ->
  exists l1 k, l = rev acc ++ l1 /\ (k <= length us)%nat /\
    map (fun p => Some (fst p)) l1 = firstn k us /\ length l1 = k /\
    match lim with
    | None => lim' = None
    | Some n => (N.of_nat k <= n)%N /\ lim' = Some (n - N.of_nat k)%N
    end.
Proof.
  induction us as [|uo us IH]; intros h lim acc h' l e lim'.
  - cbn. intros H; inv H. exists [], 0%nat. rewrite app_nil_r. repeat split; auto.
    destruct lim' as [n|]; [|reflexivity]. split; [lia|]. f_equal. lia.
  - rewrite collect_loop_cons.
    assert (Hstop : forall hx ex, (hx, rev acc, ex, lim) = (h', l, e, lim') ->
       exists l1 k, l = rev acc ++ l1 /\ (k <= length (uo :: us))%nat /\
         map (fun p => Some (fst p)) l1 = firstn k (uo :: us) /\ length l1 = k /\
         match lim with None => lim' = None
                   | Some n => (N.of_nat k <= n)%N /\ lim' = Some (n - N.of_nat k)%N end).
    { intros hx ex H; inv H. exists [], 0%nat. rewrite app_nil_r. repeat split; auto; [cbn; lia|].
      destruct lim' as [n|]; [|reflexivity]. split; [lia|]. f_equal. lia. }
    destruct (match uo with None => _ | Some u => _ end) as [h1 r1] eqn:Hg.
    destruct r1 as [ob|e1|]; [|apply Hstop|apply Hstop].
    assert (Hu : uo = Some (uid uo)) by (destruct uo; [reflexivity|inv Hg]).
    assert (Hgo : forall lim2 (Hok : match lim with None => lim2 = None | Some n => n <> 0%N /\ lim2 = Some (N.pred n) end),
      collect_loop h1 m d us lim2 ((uid uo, ob) :: acc) = (h', l, e, lim') ->
      exists l1 k, l = rev acc ++ l1 /\ (k <= length (uo :: us))%nat /\
         map (fun p => Some (fst p)) l1 = firstn k (uo :: us) /\ length l1 = k /\
         match lim with None => lim' = None
                   | Some n => (N.of_nat k <= n)%N /\ lim' = Some (n - N.of_nat k)%N end).
    { intros lim2 Hok H. apply IH in H. destruct H as [l1 [k [-> [Hk [Hm [Hl Hlim]]]]]].
      exists ((uid uo, ob) :: l1), (S k). cbn [rev]. rewrite <- app_assoc. cbn [app].
      split; [reflexivity|]. split; [cbn; lia|]. split; [cbn; rewrite Hm, <- Hu; reflexivity|].
      split; [cbn; lia|].
      destruct lim as [n|].
      - destruct Hok as [Hn ->]. destruct Hlim as [Hle ->]. split; [lia|]. f_equal. lia.
      - subst lim2. exact Hlim. }
    destruct lim as [n|].
    + destruct n as [|p]; [apply Hstop|]. apply Hgo. split; [discriminate|reflexivity].
    + apply Hgo. reflexivity.
Qed.
Print Assumptions collect_loop_shape.

Corollary collect_loop_limit m d us h n h' l e lim' :
  collect_loop h m d us (Some n) [] = (h', l, e, lim') -> (N.of_nat (length l) <= n)%N.
Proof.
  intros H. apply collect_loop_shape in H. destruct H as [l1 [k [-> [_ [_ [Hl [Hle _]]]]]]].
  cbn. rewrite Hl. exact Hle.
Qed.

(* (2) what is read.  [read_file] is db.get with the cache off; the pure loop stops at the first
   failed read, or when a read SUCCEEDS while the limit is exhausted (so one object more than
   the limit is fetched, and a failure of that extra read is reported) *)
Definition read_file (m : mem) (d : disk) (u : N) : res obj :=
  match file_lookup (file_of m u) (d_files d) with
  | None => Err ENotFound
  | Some CBad => Err EJson
  | Some CDir => Err EOther
  | Some (COk o) => Ok o
  end.

Fixpoint collect_pure (rs : list (N * res obj)) (lim : option N) (acc : list (N * obj))
  : list (N * obj) * option err * option N :=
  match rs with
  | [] => (rev acc, None, lim)
  | (u, Ok ob) :: r =>
      match lim with
      | Some 0%N => (rev acc, None, lim)
      | Some n => collect_pure r (Some (N.pred n)) ((u, ob) :: acc)
      | None => collect_pure r None ((u, ob) :: acc)
      end
  | (u, Err e) :: _ => (rev acc, Some e, lim)
  | (u, Panic) :: _ => (rev acc, Some EOther, lim)
  end.

(* the value db.get returns in handle state h (cache first, then the file) *)
Definition get_val (h : handle) (m : mem) (d : disk) (uo : option N) : res obj :=
  match uo with
  | None => Err (unresolved_err m)
  | Some u => snd (get_with h m d u)
  end.

Lemma get_with_nocache h m d u : must_cache m = false -> get_with h m d u = (h, read_file m d u).
Proof.
  intros Hc. unfold get_with, read_file. rewrite Hc.
  destruct (file_lookup (file_of m u) (d_files d)) as [[o| |]|]; reflexivity.
Qed.

(* cache off: no state change at all, and the result is the pure loop over the files *)
Theorem collect_loop_nocache m d us : forall h lim acc,
  must_cache m = false ->
  collect_loop h m d us lim acc =
  (let '(l, e, lim') := collect_pure (map (fun uo => (uid uo, match uo with
                                                              | None => Err (unresolved_err m)
                                                              | Some u => read_file m d u
                                                              end)) us) lim acc in
   (h, l, e, lim')).
Proof.
  induction us as [|uo us IH]; intros h lim acc Hc.
  - reflexivity.
  - rewrite collect_loop_cons. cbn [map collect_pure].
    destruct uo as [u|]; [|reflexivity].
    rewrite get_with_nocache by exact Hc. cbn [uid].
    destruct (read_file m d u) as [ob|e1|]; try reflexivity.
    destruct lim as [n|]; [destruct n; [reflexivity|]|]; apply IH; exact Hc.
Qed.
Print Assumptions collect_loop_nocache.

(* cache on or off: reads fill the cache only with what the file holds, so later reads return
   what they would have returned at the start; the RESULT of Collect is the pure loop over the
   values db.get returns in the initial handle state *)
Definition cache_ext (m : mem) (d : disk) (h h' : handle) : Prop :=
  forall u, assoc u (h_cache h') = assoc u (h_cache h) \/
            (assoc u (h_cache h) = None /\ exists o, assoc u (h_cache h') = Some o /\
               file_lookup (file_of m u) (d_files d) = Some (COk o)).

Lemma cache_ext_refl m d h : cache_ext m d h h.
Proof. intros u. left. reflexivity. Qed.

Lemma cache_ext_get m d h h' u : cache_ext m d h h' -> snd (get_with h' m d u) = snd (get_with h m d u).
Proof.
  intros He. unfold get_with. destruct (must_cache m); [|repeat break_match; reflexivity].
  destruct (He u) as [E|[E [o [E' F]]]].
  - rewrite E. destruct (assoc u (h_cache h)); [reflexivity|]. repeat break_match; reflexivity.
  - rewrite E, E', F. reflexivity.
Qed.

Lemma cache_ext_step m d h0 h u h1 r : cache_ext m d h0 h -> get_with h m d u = (h1, r) -> cache_ext m d h0 h1.
Proof.
  intros He. unfold get_with.
  destruct (must_cache m) eqn:Hc.
  - destruct (assoc u (h_cache h)) as [o|] eqn:Ea; [intros H; inv H; exact He|].
    destruct (file_lookup (file_of m u) (d_files d)) as [[o| |]|] eqn:Ef; intros H; inv H; try exact He.
    intros u2. cbn [set_cache h_cache]. destruct (N.eq_dec u u2) as [<-|Hne].
    + rewrite assoc_put_same. destruct (He u) as [E|[E [o' [E' F]]]]; [|congruence].
      right. split; [congruence|]. exists o. auto.
    + rewrite assoc_put_other by exact Hne. apply He.
  - repeat break_match; intros H; inv H; exact He.
Qed.

Theorem collect_loop_result m d us : forall h0 h lim acc h' l e lim',
  cache_ext m d h0 h ->
  collect_loop h m d us lim acc = (h', l, e, lim') ->
  collect_pure (map (fun uo => (uid uo, get_val h0 m d uo)) us) lim acc = (l, e, lim') /\ cache_ext m d h0 h'.
Proof.
  induction us as [|uo us IH]; intros h0 h lim acc h' l e lim' He.
  - cbn. intros H; inv H. auto.
  - rewrite collect_loop_cons. cbn [map collect_pure].
    destruct uo as [u|]; cbn [get_val uid].
    + rewrite <- (cache_ext_get m d h0 h u He).
      destruct (get_with h m d u) as [h1 r1] eqn:Hg. cbn [snd].
      pose proof (cache_ext_step _ _ _ _ _ _ _ He Hg) as He1.
      destruct r1 as [ob|e1|]; [|intros H; inv H; auto|intros H; inv H; auto].
      destruct lim as [n|]; [destruct n; [intros H; inv H; auto|]|]; apply IH; exact He1.
    + intros H; inv H. auto.
Qed.
Print Assumptions collect_loop_result.

(* All(): no limit, every indexed uuid; if every read succeeds the result is every object, in
   index order *)
Lemma collect_pure_all_ok us : forall objs acc,
  length objs = length us ->
  collect_pure (combine us (map Ok objs)) None acc = (rev acc ++ combine us objs, None, None).
Proof.
  induction us as [|u us IH]; intros [|o objs] acc Hl; try discriminate.
  - cbn. rewrite app_nil_r. reflexivity.
  - cbn [map combine collect_pure]. rewrite IH by (cbn in Hl; lia). cbn. rewrite <- app_assoc. reflexivity.
Qed.

(* ---------------------------------------------------------------- 3c: the flusher *)

Lemma flush_all_pend ls h w h' e w' : flush_all ls h w = (h', e, w') -> h_pend h' = [].
Proof.
  unfold flush_all. destruct (h_pend h) as [|p l] eqn:Hp; [intros H; inv H; exact Hp|].
  destruct (db_schema ls h (w_disk w)) as [[h1 mo] eo].
  destruct mo as [m|].
  - destruct (flush_list w m (p :: l) None). intros H; inv H. reflexivity.
  - destruct eo; intros H; inv H; reflexivity.
Qed.

Lemma flush_all_commit_pend ls h w h' e w' : flush_all_commit ls h w = (h', e, w') -> h_pend h' = [].
Proof.
  unfold flush_all_commit. destruct (flush_all ls h w) as [[h1 e1] w1] eqn:Hf. apply flush_all_pend in Hf.
  destruct (commit ls h1 w1) as [[h2 e2] w2] eqn:Hc. apply commit_stores in Hc. destruct Hc as [_ [Hc _]].
  destruct e2; intros H; inv H; congruence.
Qed.

(* the condition the flusher evaluates *)
Definition flush_due (h : handle) (thr tmo slept' : Z) : bool :=
  Z.geb (Z.of_nat (length (h_pend h))) thr || Z.geb slept' tmo.

(* (i) condition true, not cancelled, flush and commit succeed: nothing pending, counter reset *)
Theorem flusher_iter_flush ls h w slept (wake : bool) m thr tmo h1 w1 :
  h_mem h = Some m -> st_async (m_set m) = Some (thr, tmo) ->
  flush_due h thr tmo (if wake then (slept + 1)%Z else slept) = true ->
  h_cancel h = false ->
  flush_all_commit ls h w = (h1, None, w1) ->
  flusher_iter ls h w slept wake = Ok (h1, w1, Some 0%Z) /\ h_pend h1 = [].
Proof.
  intros Hm Ha Hd Hc Hf. unfold flusher_iter. rewrite Hm, Ha. unfold flush_due in Hd. rewrite Hd, Hc, Hf.
  split; [reflexivity|]. eapply flush_all_commit_pend; eassumption.
Qed.
Print Assumptions flusher_iter_flush.

(* (i') the other outcomes of a true condition *)
Theorem flusher_iter_due_cases ls h w slept (wake : bool) m thr tmo :
  h_mem h = Some m -> st_async (m_set m) = Some (thr, tmo) ->
  flush_due h thr tmo (if wake then (slept + 1)%Z else slept) = true ->
  flusher_iter ls h w slept wake =
  if h_cancel h then Ok (h, w, None)
  else match flush_all_commit ls h w with
       | (h1, Some _, w1) => Panic
       | (h1, None, w1) => Ok (h1, w1, Some 0%Z)
       end.
Proof.
  intros Hm Ha Hd. unfold flusher_iter. rewrite Hm, Ha. unfold flush_due in Hd. rewrite Hd. reflexivity.
Qed.

(* (ii) condition false: nothing happens but the counter, +1 exactly on a wake *)
Theorem flusher_iter_idle ls h w slept (wake : bool) m thr tmo :
  h_mem h = Some m -> st_async (m_set m) = Some (thr, tmo) ->
  flush_due h thr tmo (if wake then (slept + 1)%Z else slept) = false ->
  flusher_iter ls h w slept wake = Ok (h, w, Some (if wake then (slept + 1)%Z else slept)).
Proof.
  intros Hm Ha Hd. unfold flusher_iter. rewrite Hm, Ha. unfold flush_due in Hd. rewrite Hd. reflexivity.
Qed.
Print Assumptions flusher_iter_idle.

(* one parked flusher: what a tick does *)
Lemma tick_idle hk ls s sl m thr tmo :
  h_fl (s_h s) = [(sl, false)] -> h_mem (s_h s) = Some m -> st_async (m_set m) = Some (thr, tmo) ->
  flush_due (s_h s) thr tmo (sl + 1)%Z = false ->
  step hk ls s OTick = (mk (set_fl (s_h s) [((sl + 1)%Z, false)]) (s_w s), RUnit (Ok tt)).
Proof.
  intros Hfl Hm Ha Hd. cbn [step]. rewrite Hfl. cbn [run_flushers andb negb].
  rewrite (flusher_iter_idle ls (set_fl (s_h s) []) (s_w s) sl true m thr tmo Hm Ha Hd).
  reflexivity.
Qed.

Lemma tick_flush hk ls s sl m thr tmo h1 w1 :
  h_fl (s_h s) = [(sl, false)] -> h_mem (s_h s) = Some m -> st_async (m_set m) = Some (thr, tmo) ->
  flush_due (s_h s) thr tmo (sl + 1)%Z = true ->
  h_cancel (s_h s) = false ->
  flush_all_commit ls (set_fl (s_h s) []) (s_w s) = (h1, None, w1) ->
  step hk ls s OTick = (mk (set_fl h1 ((0%Z, false) :: h_fl h1)) w1, RUnit (Ok tt)) /\ h_pend h1 = [].
Proof.
  intros Hfl Hm Ha Hd Hc Hf. cbn [step]. rewrite Hfl. cbn [run_flushers andb negb].
  destruct (flusher_iter_flush ls (set_fl (s_h s) []) (s_w s) sl true m thr tmo h1 w1 Hm Ha Hd Hc Hf) as [-> Hp].
  split; [reflexivity|exact Hp].
Qed.
Print Assumptions tick_flush.

(* (iii) the bound: with one parked flusher whose counter is sl >= 0, among any k consecutive
   ticks with sl + k >= tmo (in particular k = tmo when sl = 0 < tmo) at least one evaluates the
   flush branch.  Ticks before it only advance the counter. *)
Theorem tick_bound hk ls : forall k s sl m thr tmo,
  h_fl (s_h s) = [(sl, false)] -> h_mem (s_h s) = Some m -> st_async (m_set m) = Some (thr, tmo) ->
  (0 < k)%nat -> (sl + Z.of_nat k >= tmo)%Z ->
  exists j, (j < k)%nat /\
    let sj := run hk ls s (repeat OTick j) in
    sj = mk (set_fl (s_h s) [((sl + Z.of_nat j)%Z, false)]) (s_w s) /\
    flush_due (s_h sj) thr tmo (sl + Z.of_nat j + 1)%Z = true.
Proof.
  induction k as [|k IH]; intros s sl m thr tmo Hfl Hm Ha Hk Hsl; [lia|].
  destruct (flush_due (s_h s) thr tmo (sl + 1)%Z) eqn:Hd.
  - exists 0%nat. split; [lia|]. cbn [repeat run fold_left]. split.
    + destruct s as [h w]. cbn in *. rewrite Z.add_0_r. destruct h; cbn in *. subst. reflexivity.
    + cbn [Z.of_nat]. rewrite Z.add_0_r. exact Hd.
  - destruct k as [|k'].
    + exfalso. unfold flush_due in Hd. apply orb_false_iff in Hd. destruct Hd as [_ Hd].
      rewrite Z.geb_leb in Hd. apply Z.leb_gt in Hd. lia.
    + pose proof (tick_idle hk ls s sl m thr tmo Hfl Hm Ha Hd) as Ht.
      set (s1 := mk (set_fl (s_h s) [((sl + 1)%Z, false)]) (s_w s)) in *.
      destruct (IH s1 (sl + 1)%Z m thr tmo eq_refl Hm Ha ltac:(lia) ltac:(lia)) as [j [Hj [Hsj Hdj]]].
      exists (S j). split; [lia|]. cbn [repeat run fold_left]. rewrite Ht. cbn [fst].
      change (fold_left (fun st o => fst (step hk ls st o)) (repeat OTick j) s1) with (run hk ls s1 (repeat OTick j)).
      cbv zeta in Hsj, Hdj. rewrite Hsj in *. cbn [s_h s_w mk s1 set_fl h_pend] in *.
      replace (sl + Z.of_nat (S j))%Z with (sl + 1 + Z.of_nat j)%Z by lia.
      split; [reflexivity|exact Hdj].
Qed.
Print Assumptions tick_bound.

(* ---------------------------------------------------------------- 3d: flushing a list of pending writes *)

Lemma write_object_nofault w m u o :
  w_fail w = None -> w_dead w = false -> d_dir (w_disk w) = true ->
  forallb serialisable (o_keys o) = true ->
  exists w', write_object w m u o = (None, w') /\
    w_fail w' = None /\ w_dead w' = false /\ d_dir (w_disk w') = true /\
    d_schema (w_disk w') = d_schema (w_disk w) /\ d_other (w_disk w') = d_other (w_disk w) /\
    d_files (w_disk w') = file_put (file_of m u) (COk o) (file_put (file_of m u) CBad (d_files (w_disk w))).
Proof.
  intros Hf Hd Hdir Hser. unfold write_object, fs_mkdir. rewrite Hdir. cbn [negb]. rewrite Hser. cbn [negb].
  unfold fs_write_obj, fs_mut. rewrite Hd, Hf. cbn. eexists. repeat split. exact Hdir.
Qed.

(* the files after the writes, as a function of the files before *)
Fixpoint flushed (m : mem) (l : list (N * obj)) (files : list (fname * fcontent)) : list (fname * fcontent) :=
  match l with
  | [] => files
  | (u, o) :: r => flushed m r (file_put (file_of m u) (COk o) (file_put (file_of m u) CBad files))
  end.

Lemma flush_list_nofault m l : forall w e,
  w_fail w = None -> w_dead w = false -> d_dir (w_disk w) = true -> all_serialisable l ->
  exists w', flush_list w m l e = (e, w') /\
    w_fail w' = None /\ w_dead w' = false /\ d_dir (w_disk w') = true /\
    d_schema (w_disk w') = d_schema (w_disk w) /\ d_other (w_disk w') = d_other (w_disk w) /\
    d_files (w_disk w') = flushed m l (d_files (w_disk w)).
Proof.
  induction l as [|[u o] l IH]; intros w e Hf Hd Hdir Hser; cbn [flush_list flushed].
  - exists w. repeat split; assumption.
  - inv Hser. cbn [snd] in *.
    destruct (write_object_nofault w m u o Hf Hd Hdir) as [w1 [Hw [Hf1 [Hd1 [Hdir1 [Hs1 [Ho1 Hfl1]]]]]]]; [assumption|].
    rewrite Hw.
    destruct (IH w1 e Hf1 Hd1 Hdir1) as [w' [Hw' [A [B [C [D [E F]]]]]]]; [assumption|].
    exists w'. rewrite Hw'. repeat split; try assumption; congruence.
Qed.

(* the object written last under a given file name *)
Fixpoint find_last (m : mem) (l : list (N * obj)) (f : fname) : option obj :=
  match l with
  | [] => None
  | (u, o) :: r => match find_last m r f with
                   | Some o' => Some o'
                   | None => if fname_eqb f (file_of m u) then Some o else None
                   end
  end.

Lemma flushed_lookup m l : forall files f,
  file_lookup f (flushed m l files) =
  match find_last m l f with Some o => Some (COk o) | None => file_lookup f files end.
Proof.
  induction l as [|[u o] l IH]; intros files f; cbn [flushed find_last]; [reflexivity|].
  rewrite IH. destruct (find_last m l f); [reflexivity|].
  destruct (fname_eqb f (file_of m u)) eqn:E.
  - apply fname_eqb_eq in E. subst. apply file_lookup_put_same.
  - assert (Hne : file_of m u <> f) by (intros X; subst; rewrite fname_eqb_refl in E; discriminate).
    rewrite !file_lookup_put_other by exact Hne. reflexivity.
Qed.

Lemma assoc_app {B} k (a b : list (N * B)) :
  assoc k (a ++ b) = match assoc k a with Some v => Some v | None => assoc k b end.
Proof.
  induction a as [|[k' v'] a IH]; cbn; [reflexivity|]. destruct (N.eqb k k'); [reflexivity|exact IH].
Qed.

Lemma file_of_eqb m u u' : fname_eqb (file_of m u) (file_of m u') = N.eqb u u'.
Proof. unfold fname_eqb, file_of. cbn. rewrite str_eqb_refl, andb_true_r. reflexivity. Qed.

Lemma find_last_file_of m l u : find_last m l (file_of m u) = assoc u (rev l).
Proof.
  induction l as [|[u0 o0] l IH]; cbn [find_last rev]; [reflexivity|].
  rewrite assoc_app, IH. destruct (assoc u (rev l)); [reflexivity|].
  rewrite file_of_eqb. cbn. destruct (N.eqb u u0); reflexivity.
Qed.

Lemma find_last_none m l f : (forall u, In u (map fst l) -> f <> file_of m u) -> find_last m l f = None.
Proof.
  induction l as [|[u0 o0] l IH]; intros H; cbn [find_last]; [reflexivity|].
  rewrite IH by (intros u Hu; apply H; right; exact Hu).
  destruct (fname_eqb f (file_of m u0)) eqn:E; [|reflexivity].
  apply fname_eqb_eq in E. exfalso. apply (H u0); [left; reflexivity|exact E].
Qed.

Lemma assoc_In_NoDup {B} (l : list (N * B)) k v : NoDup (map fst l) -> In (k, v) l -> assoc k l = Some v.
Proof.
  induction l as [|[k' v'] l IH]; intros Hnd Hin; [destruct Hin|].
  cbn in Hnd. inv Hnd. cbn. destruct Hin as [E|Hin].
  - inv E. rewrite N.eqb_refl. reflexivity.
  - destruct (N.eqb k k') eqn:E; [|apply IH; assumption].
    apply N.eqb_eq in E. subst. exfalso. match goal with H : ~ In _ _ |- _ => apply H end.
    apply in_map_iff. exists (k', v). auto.
Qed.

(* the pending map never holds a uuid twice *)
Lemma put_keys {B} k (v : B) l : In k (map fst l) -> map fst (put k v l) = map fst l.
Proof.
  induction l as [|[k' v'] l IH]; cbn; [tauto|].
  destruct (N.eqb k k') eqn:E.
  - apply N.eqb_eq in E. subst. reflexivity.
  - intros [X|X]; [subst; rewrite N.eqb_refl in E; discriminate|]. cbn. rewrite IH by exact X. reflexivity.
Qed.

Lemma put_keys_new {B} k (v : B) l : ~ In k (map fst l) -> map fst (put k v l) = map fst l ++ [k].
Proof.
  induction l as [|[k' v'] l IH]; cbn; [reflexivity|].
  destruct (N.eqb k k') eqn:E.
  - apply N.eqb_eq in E. subst. tauto.
  - intros X. cbn. rewrite IH by tauto. reflexivity.
Qed.

Lemma NoDup_snoc (l : list N) k : NoDup l -> ~ In k l -> NoDup (l ++ [k]).
Proof.
  induction l as [|x l IH]; intros Hnd Hin; cbn.
  - constructor; [intros []|constructor].
  - inv Hnd. constructor.
    + rewrite in_app_iff. cbn. intros [X|[X|[]]]; [contradiction|]. subst. apply Hin. left. reflexivity.
    + apply IH; [assumption|]. intros X. apply Hin. right. exact X.
Qed.

Lemma put_NoDup {B} k (v : B) l : NoDup (map fst l) -> NoDup (map fst (put k v l)).
Proof.
  intros Hnd. destruct (in_dec N.eq_dec k (map fst l)) as [Hin|Hin].
  - rewrite put_keys by exact Hin. exact Hnd.
  - rewrite put_keys_new by exact Hin. apply NoDup_snoc; assumption.
Qed.

Theorem flush_list_writes_all w m l :
  w_fail w = None -> w_dead w = false -> d_dir (w_disk w) = true -> all_serialisable l ->
  exists w', flush_list w m l None = (None, w') /\
    (* every uuid of l: the object of its LAST occurrence is in its file; other uuids untouched *)
    (forall u, file_lookup (file_of m u) (d_files (w_disk w')) =
               match assoc u (rev l) with
               | Some o => Some (COk o)
               | None => file_lookup (file_of m u) (d_files (w_disk w))
               end) /\
    (* l without repeated uuid (the pending map): every member is in its file *)
    (NoDup (map fst l) -> forall u o, In (u, o) l ->
       file_lookup (file_of m u) (d_files (w_disk w')) = Some (COk o)) /\
    (* any file name which is not the file of a uuid of l is untouched *)
    (forall f, (forall u, In u (map fst l) -> f <> file_of m u) ->
       file_lookup f (d_files (w_disk w')) = file_lookup f (d_files (w_disk w))) /\
    d_schema (w_disk w') = d_schema (w_disk w) /\ d_other (w_disk w') = d_other (w_disk w) /\
    d_dir (w_disk w') = true /\ w_fail w' = None /\ w_dead w' = false.
Proof.
  intros Hf Hd Hdir Hser.
  destruct (flush_list_nofault m l w None Hf Hd Hdir Hser) as [w' [Hw [A [B [C [D [E F]]]]]]].
  exists w'. split; [exact Hw|]. rewrite F.
  assert (Hu : forall u, file_lookup (file_of m u) (flushed m l (d_files (w_disk w))) =
               match assoc u (rev l) with
               | Some o => Some (COk o)
               | None => file_lookup (file_of m u) (d_files (w_disk w))
               end).
  { intros u. rewrite flushed_lookup, find_last_file_of. reflexivity. }
  split; [exact Hu|]. split.
  - intros Hnd u o Hin. rewrite Hu.
    rewrite (assoc_In_NoDup (rev l) u o); [reflexivity| |apply in_rev in Hin; exact Hin].
    rewrite map_rev. apply NoDup_rev. exact Hnd.
  - split; [|auto 10].
    intros f Hn. rewrite flushed_lookup, find_last_none by exact Hn. reflexivity.
Qed.
Print Assumptions flush_list_writes_all.

(* ---------------------------------------------------------------- 3a': every operation, every search value *)

Lemma scan_srch m d fld o probe rx us : forall h acc h' r e,
  scan h m d fld o probe rx us acc = (h', r, e) -> h_srch h' = h_srch h.
Proof.
  induction us as [|[u|] us IH]; intros h acc h' r e; cbn [scan].
  - intros H; inv H; reflexivity.
  - destruct (get_with h m d u) as [h1 r1] eqn:Hg. apply get_with_srch in Hg.
    destruct r1 as [ob|e1|]; [|intros H; inv H; exact Hg|intros H; inv H; exact Hg].
    destruct (uuid_oid _ u); [|intros H; inv H; exact Hg].
    destruct (nth_opt fld (o_keys ob)); [|intros H; inv H; exact Hg].
    destruct (negb _); [intros H; inv H; exact Hg|].
    intros H. apply IH in H. congruence.
  - intros H; inv H; reflexivity.
Qed.

Lemma search_with_srch hk h m d fld o probe c h' r :
  search_with hk h m d fld o probe c = (h', r) -> h_srch h' = h_srch h.
Proof.
  unfold search_with. intros H.
  repeat break_match; inv H; try reflexivity; eapply scan_srch; eassumption.
Qed.

(* the operations which (re)bind the search name [sid], or forget every search *)
Definition defines (o : op) (sid : N) : bool :=
  match o with
  | OSearch s _ _ _ | OAnd s _ _ _ _ | OOr s _ _ _ _ | OExpects s _ _ => N.eqb s sid
  | OReopen => true
  | _ => false
  end.

Definition same_entries (a b : sres) : Prop := sr_fields a = sr_fields b /\ sr_err a = sr_err b.

Lemma find_srch_put h h2 sid0 sid r w :
  h_srch h2 = h_srch h ->
  (sid0 = sid -> same_entries r (find_srch h sid)) ->
  same_entries (find_srch (s_h (mk (set_srch h2 (put sid0 r (h_srch h2))) w)) sid) (find_srch h sid).
Proof.
  intros Hs Hr. cbn [s_h mk]. unfold find_srch at 1. cbn [set_srch h_srch].
  destruct (N.eq_dec sid0 sid) as [E|E].
  - subst. rewrite assoc_put_same. apply Hr. reflexivity.
  - rewrite assoc_put_other by exact E. rewrite Hs. split; reflexivity.
Qed.

Lemma find_srch_same h h' sid : h_srch h' = h_srch h -> same_entries (find_srch h' sid) (find_srch h sid).
Proof. intros E. unfold find_srch. rewrite E. split; reflexivity. Qed.

(* C20: the entries (and the error) a search value denotes never change after its evaluation,
   whatever is done to the collection, until the name is rebound or the handle is dropped.
   Collect / One only touch the stored limit and direction. *)
Theorem search_entries_fixed_fg hk ls s o sid :
  defines o sid = false ->
  same_entries (find_srch (s_h (fst (step_fg hk ls s o))) sid) (find_srch (s_h s) sid).
Proof.
  intros Hd. destruct (keeps_srch o) eqn:Hk.
  { apply find_srch_same. apply writes_keep_searches_fg. exact Hk. }
  destruct o; try discriminate Hk; clear Hk; cbn [defines] in Hd; try discriminate Hd; cbn [step_fg].
  - (* OSearch *)
    apply N.eqb_neq in Hd. unfold with_schema.
    destruct (db_schema ls (s_h s) (w_disk (s_w s))) as [[h1 mo] eo] eqn:Hs. apply db_schema_srch in Hs.
    destruct mo as [m|]; destruct eo as [e0|]; cbn [fst];
      try (apply find_srch_put; [exact Hs|intros X; congruence]).
    destruct (search_with hk h1 m _ fld o probe None) as [h2 r] eqn:Hw. apply search_with_srch in Hw.
    cbn [fst]. apply find_srch_put; [congruence|intros X; congruence].
  - (* OAnd *)
    apply N.eqb_neq in Hd.
    destruct (sr_err (find_srch (s_h s) old)); cbn [fst]; [apply find_srch_put; [reflexivity|intros X; congruence]|].
    unfold with_schema.
    destruct (db_schema ls (s_h s) (w_disk (s_w s))) as [[h1 mo] eo] eqn:Hs. apply db_schema_srch in Hs.
    destruct mo as [m|]; destruct eo as [e0|]; cbn [fst];
      try (apply find_srch_put; [exact Hs|intros X; congruence]).
    destruct (search_with hk h1 m _ fld o probe _) as [h2 r] eqn:Hw. apply search_with_srch in Hw.
    cbn [fst]. apply find_srch_put; [congruence|intros X; congruence].
  - (* OOr *)
    apply N.eqb_neq in Hd.
    destruct (sr_err (find_srch (s_h s) old)); cbn [fst]; [apply find_srch_put; [reflexivity|intros X; congruence]|].
    unfold with_schema.
    destruct (db_schema ls (s_h s) (w_disk (s_w s))) as [[h1 mo] eo] eqn:Hs. apply db_schema_srch in Hs.
    destruct mo as [m|]; destruct eo as [e0|]; cbn [fst];
      try (apply find_srch_put; [exact Hs|intros X; congruence]).
    destruct (search_with hk h1 m _ fld o probe None) as [h2 r] eqn:Hw. apply search_with_srch in Hw.
    cbn [fst]. apply find_srch_put; [congruence|intros X; congruence].
  - (* OCollect *)
    cbn [sr_err sr_fields].
    destruct (sr_err (find_srch (s_h s) sid0)) eqn:He; cbn [fst].
    + apply find_srch_put; [reflexivity|]. intros <-. split; [reflexivity|]. cbn. congruence.
    + destruct (db_schema ls (s_h s) (w_disk (s_w s))) as [[h1 mo] eo] eqn:Hs. apply db_schema_srch in Hs.
      destruct mo as [m|]; destruct eo as [e0|]; cbn [fst].
      * apply find_srch_put; [exact Hs|]. intros <-. split; [reflexivity|]. cbn. congruence.
      * destruct (collect_loop h1 m _ _ _ []) as [[[h2 lc] ec] lim'] eqn:Hc. apply collect_loop_srch in Hc.
        cbn [fst]. apply find_srch_put; [congruence|]. intros <-. split; [reflexivity|]. cbn. congruence.
      * apply find_srch_put; [exact Hs|]. intros <-. split; [reflexivity|]. cbn. congruence.
      * apply find_srch_same. exact Hs.
  - (* OOne *)
    destruct (sr_err (find_srch (s_h s) sid0)) eqn:He; cbn [fst]; [apply find_srch_same; reflexivity|].
    destruct (sr_fields (find_srch (s_h s) sid0)) eqn:Hf; cbn [fst]; [apply find_srch_same; reflexivity|].
    cbn [sr_rev sr_fields sr_limit].
    destruct (db_schema ls (s_h s) (w_disk (s_w s))) as [[h1 mo] eo] eqn:Hs. apply db_schema_srch in Hs.
    destruct mo as [m|]; destruct eo as [e0|]; cbn [fst].
    * apply find_srch_put; [exact Hs|]. intros <-. split; cbn; congruence.
    * destruct (collect_loop h1 m _ _ _ []) as [[[h2 lc] ec] lim'] eqn:Hc. apply collect_loop_srch in Hc.
      cbn [fst]. apply find_srch_put; [congruence|]. intros <-. split; cbn; congruence.
    * apply find_srch_put; [exact Hs|]. intros <-. split; cbn; congruence.
    * apply find_srch_same. exact Hs.
  - (* OExpects: only the value it is applied to can change (its error) *)
    apply N.eqb_neq in Hd.
    destruct (sr_err (find_srch (s_h s) sid0)); cbn [fst]; [apply find_srch_same; reflexivity|].
    destruct (_ || _); cbn [fst]; [apply find_srch_same; reflexivity|].
    apply find_srch_put; [reflexivity|intros X; congruence].
Qed.
Print Assumptions search_entries_fixed_fg.

Theorem search_entries_fixed hk ls s o sid :
  defines o sid = false -> snd (step hk ls s o) <> RCrash ->
  same_entries (find_srch (s_h (fst (step hk ls s o))) sid) (find_srch (s_h s) sid).
Proof.
  intros Hd Hc. destruct (op_eq_tick o) as [->|Hn]; [apply find_srch_same, step_tick_srch|].
  rewrite step_not_tick in * by exact Hn. cbv zeta in *.
  pose proof (search_entries_fixed_fg hk ls s o sid Hd) as Hfg.
  destruct (step_fg hk ls s o) as [s1 r]. cbn [fst] in Hfg.
  destruct (w_dead (s_w s1)); [cbn in Hc; congruence|].
  match goal with |- context [settle ls (s_h s1) ?w2] => destruct (settle ls (s_h s1) w2) as [[h2 w3]|e|] eqn:Hs end;
    cbn [fst mk s_h]; try exact Hfg.
  apply settle_srch in Hs. destruct Hfg as [A B].
  destruct (find_srch_same (s_h s1) h2 sid Hs) as [C D]. split; congruence.
Qed.
Print Assumptions search_entries_fixed.

(* ---------------------------------------------------------------- examples *)

(* two objects (keys 5 and 6, uuids 1 and 2), one search value "key >= 0" named 9 *)
Definition sz1 : state :=
  run hk0 7%N sx1 [OInsert 0 2 (ob 6); OSearch 9 (Some 0%nat) OpGe (KInt 0)].

Example writes_keep_searches_ex :
  keeps_srch (ODelete 1) = true /\ snd (step hk0 7%N sz1 (ODelete 1)) = RUnit (Ok tt) /\
  sr_fields (find_srch (s_h sz1) 9) = [(KInt 6, 1%N); (KInt 5, 0%N)] /\
  (* the value still denotes the deleted object's entry *)
  sr_fields (find_srch (s_h (fst (step hk0 7%N sz1 (ODelete 1)))) 9) = [(KInt 6, 1%N); (KInt 5, 0%N)].
Proof. split; [reflexivity|]. split; [vm_lhs|]. split; vm_lhs. Qed.

(* Collect with limit 1 over two objects whose second file is unreadable: the extra fetch fails
   and the whole call reports the error although one object was asked for *)
Example collect_extra_fetch_ex :
  let s := run hk0 7%N sz1 [XCorrupt 1] in
  snd (step hk0 7%N s (OCollect 9 (Some 1%N) false)) = RObjs (Err EJson) /\
  snd (step hk0 7%N sz1 (OCollect 9 (Some 1%N) false)) = RObjs (Ok [(2%N, ob 6)]).
Proof. split; vm_lhs. Qed.

Example collect_loop_nocache_ex :
  exists m, h_mem (s_h sz1) = Some m /\ must_cache m = false /\
    collect_loop (s_h sz1) m (w_disk (s_w sz1)) [Some 2%N; Some 1%N] (Some 1%N) []
    = (s_h sz1, [(2%N, ob 6)], None, Some 0%N).
Proof. eexists. split; [vm_lhs|]. split; vm_lhs. Qed.

(* an asynchronous collection (threshold 10, timeout 5) with one pending write and one parked
   flusher *)
Definition sz2 : state := run hk0 7%N sx3 [OInsert 0 2 (ob 6)].

Example tick_bound_ex :
  exists m, h_fl (s_h sz2) = [(0%Z, false)] /\ h_mem (s_h sz2) = Some m /\
    st_async (m_set m) = Some (10%Z, 5%Z) /\ h_pend (s_h sz2) = [(2%N, ob 6)] /\
    h_pend (s_h (run hk0 7%N sz2 (repeat OTick 4))) = [(2%N, ob 6)] /\
    h_pend (s_h (run hk0 7%N sz2 (repeat OTick 5))) = [] /\
    file_lookup {| fn_uuid := 2; fn_suffix := [46; 106]%N |}
                (d_files (w_disk (s_w (run hk0 7%N sz2 (repeat OTick 5))))) = Some (COk (ob 6)).
Proof.
  eexists. split; [vm_lhs|]. split; [vm_lhs|]. split; [vm_lhs|]. split; [vm_lhs|].
  split; [vm_lhs|]. split; vm_lhs.
Qed.

Example flush_list_writes_all_ex :
  exists m, h_mem (s_h sz2) = Some m /\
    w_fail (s_w sz2) = None /\ w_dead (s_w sz2) = false /\ d_dir (w_disk (s_w sz2)) = true /\
    all_serialisable (h_pend (s_h sz2)).
Proof.
  eexists. split; [vm_lhs|]. split; [vm_lhs|]. split; [vm_lhs|]. split; [vm_lhs|].
  repeat constructor.
Qed.

(* the bound in its usual form: a freshly parked flusher, timeout tmo > 0 steps *)
Corollary tick_bound_tmo hk ls s m thr tmo :
  h_fl (s_h s) = [(0%Z, false)] -> h_mem (s_h s) = Some m -> st_async (m_set m) = Some (thr, tmo) ->
  (0 < tmo)%Z ->
  exists j, (j < Z.to_nat tmo)%nat /\
    let sj := run hk ls s (repeat OTick j) in
    sj = mk (set_fl (s_h s) [(Z.of_nat j, false)]) (s_w s) /\
    flush_due (s_h sj) thr tmo (Z.of_nat j + 1)%Z = true.
Proof.
  intros Hfl Hm Ha Ht.
  destruct (tick_bound hk ls (Z.to_nat tmo) s 0%Z m thr tmo Hfl Hm Ha ltac:(lia) ltac:(lia)) as [j [Hj H]].
  exists j. split; [exact Hj|]. cbv zeta in *. rewrite !Z.add_0_l in H. exact H.
Qed.
Print Assumptions tick_bound_tmo.
