(* Proofs/Reads.v: the search calls (Search, And, Or, Len, Collect, One, AssignIndex), with ANY
   arguments and whatever they return, never change the collection and keep the handle invariant:
   histories may interleave them freely with the writes, the refinement theorem and every theorem
   stated under the invariant (what a search denotes, Collect, uniqueness, layout ...) apply at every
   point of such histories. *)
From Coq Require Import List ZArith NArith Bool Lia Arith.
Import ListNotations.
From Sod.Model Require Import Base FieldIndex ObjIndex DB.
From Sod.Proofs Require Import OIProofs OIProofs2 DBBasic DBStruct1 DBStruct3 Refine1 Refine2 Refine3 Refine4 Refine5 Batch Extended.
Close Scope Z_scope.

Definition read_op (o : op) : bool :=
  match o with
  | OSearch _ _ _ _ | OAnd _ _ _ _ _ | OOr _ _ _ _ _ | OLen _ | OCollect _ _ _ | OOne _ | OAssignIndex _
  | OExpects _ _ _ => true
  | _ => false
  end.

(* a handle that differs from [h] by its cache (still coherent) and by its table of search values *)
Definition same_but_cache (ls : N) (d : disk) (m : mem) (h h' : handle) : Prop :=
  h_mem h' = h_mem h /\ h_pend h' = h_pend h /\ InvCore ls (h_cache h') (h_pend h) d m.

Lemma sbc_refl ls d m h : InvCore ls (h_cache h) (h_pend h) d m -> same_but_cache ls d m h h.
Proof. intros I. split; [reflexivity|]. split; [reflexivity|exact I]. Qed.

Lemma sbc_get ls d m h0 h u h' r : same_but_cache ls d m h0 h -> get_with h m d u = (h', r) -> same_but_cache ls d m h0 h'.
Proof.
  intros [M [P I]] G. rewrite <- P in I. destruct (get_with_ok ls h d m u I) as [h1 [G1 [M1 [P1 I1]]]].
  rewrite G in G1. inv G1. split; [congruence|]. split; [congruence|]. rewrite P in I1. exact I1.
Qed.

Lemma scan_frame ls d m fld o probe rx : forall us h0 h acc h' r e,
  same_but_cache ls d m h0 h -> scan h m d fld o probe rx us acc = (h', r, e) -> same_but_cache ls d m h0 h'.
Proof.
  induction us as [|[u|] us IH]; intros h0 h acc h' r e S; cbn [scan].
  - intros H; inv H; exact S.
  - destruct (get_with h m d u) as [h1 [ob|e1|]] eqn:G; pose proof (sbc_get _ _ _ _ _ _ _ _ S G) as S1.
    + repeat break_match; try (intros H; inv H; exact S1); apply (IH h0 _ _ _ _ _ S1).
    + intros H; inv H; exact S1.
    + intros H; inv H; exact S1.
  - intros H; inv H; exact S.
Qed.

Lemma search_with_frame hk ls d m fld o probe c h h' r :
  InvCore ls (h_cache h) (h_pend h) d m -> search_with hk h m d fld o probe c = (h', r) -> same_but_cache ls d m h h'.
Proof.
  intros I H. pose proof (sbc_refl ls d m h I) as S0. unfold search_with in H.
  repeat break_match; try (inv H; exact S0);
    match goal with Hs : scan _ _ _ _ _ _ _ _ _ = _ |- _ => inv H; apply (scan_frame _ _ _ _ _ _ _ _ _ _ _ _ _ _ S0 Hs) end.
Qed.

Lemma collect_loop_frame ls d m : forall us h0 h lim acc h' l e lim',
  same_but_cache ls d m h0 h -> collect_loop h m d us lim acc = (h', l, e, lim') -> same_but_cache ls d m h0 h'.
Proof.
  induction us as [|uo us IH]; intros h0 h lim acc h' l e lim' S; cbn [collect_loop].
  - intros H; inv H; exact S.
  - destruct uo as [u|].
    + destruct (get_with h m d u) as [h1 [ob|e1|]] eqn:G; pose proof (sbc_get _ _ _ _ _ _ _ _ S G) as S1.
      * destruct lim as [[|p]|]; try (intros H; inv H; exact S1); apply (IH h0 _ _ _ _ _ _ _ S1).
      * intros H; inv H; exact S1.
      * intros H; inv H; exact S1.
    + intros H; inv H; exact S.
Qed.

(* the state after: any table of search values *)
Lemma Inv_after_reads ls h1 w fds a m1 h2 sr :
  LState ls h1 w fds a -> h_mem h1 = Some m1 -> same_but_cache ls (w_disk w) m1 h1 h2 ->
  Inv ls (mk (set_srch h2 sr) w) /\ abs (mk (set_srch h2 sr) w) = Some {| sp_fds := fds; sp_map := a |}.
Proof.
  intros L M1 [M [P I]].
  assert (L2 : LState ls (set_srch h2 sr) w fds a).
  { apply (LState_cache ls h1 w fds a m1 (set_srch h2 sr) L M1); cbn [set_srch h_mem h_pend h_cache]; assumption. }
  apply (LState_Inv _ _ _ _ _ L2).
Qed.

Lemma set_srch_id h : set_srch h (h_srch h) = h.
Proof. destruct h; reflexivity. Qed.

(* THE FOREGROUND CALL of a search operation: invariant kept, collection unchanged *)
Lemma reads_fg hk ls h w o : Inv ls (mk h w) -> read_op o = true ->
  Inv ls (fst (step_fg hk ls (mk h w) o)) /\ abs (fst (step_fg hk ls (mk h w) o)) = abs (mk h w).
Proof.
  intros I Hr. destruct (abs (mk h w)) as [[fds a]|] eqn:Ha.
  - (* existing collection *)
    destruct (db_schema_ok ls h w fds a I Ha) as [h1 [m1 [D [M1 [L1 _]]]]].
    destruct (LState_mem _ _ _ _ _ _ L1 M1) as [Hn [[IC1 _] _]].
    assert (K : forall h2 sr, same_but_cache ls (w_disk w) m1 h1 h2 ->
                Inv ls (mk (set_srch h2 sr) w) /\ abs (mk (set_srch h2 sr) w) = Some {| sp_fds := fds; sp_map := a |})
      by (intros h2 sr S; apply (Inv_after_reads ls h1 w fds a m1 h2 sr L1 M1 S)).
    assert (K0 : forall sr, Inv ls (mk (set_srch h sr) w) /\ abs (mk (set_srch h sr) w) = Some {| sp_fds := fds; sp_map := a |}).
    { intros sr. split; [|exact Ha]. destruct I as [Hn0 I]. split; [exact Hn0|exact I]. }
    assert (K1 : forall h2, same_but_cache ls (w_disk w) m1 h1 h2 ->
                 Inv ls (mk h2 w) /\ abs (mk h2 w) = Some {| sp_fds := fds; sp_map := a |}).
    { intros h2 S. rewrite <- (set_srch_id h2). apply K. exact S. }
    pose proof (sbc_refl ls (w_disk w) m1 h1 IC1) as S1.
    destruct o; try discriminate; unfold step_fg; cbv zeta; cbn [mk s_h s_w].
    + (* OSearch *)
      rewrite (with_schema_some ls (mk h w) _ _ h1 m1 D).
      destruct (search_with hk h1 m1 (w_disk w) fld o probe None) as [h2 r] eqn:E. cbn [fst].
      apply K. apply (search_with_frame hk ls _ _ _ _ _ _ _ _ _ IC1 E).
    + (* OAnd *)
      destruct (sr_err (find_srch h old)); cbn [fst]; [apply K0|].
      rewrite (with_schema_some ls (mk h w) _ _ h1 m1 D).
      destruct (search_with hk h1 m1 (w_disk w) fld o probe (Some (sr_fields (find_srch h old)))) as [h2 r] eqn:E. cbn [fst].
      apply K. apply (search_with_frame hk ls _ _ _ _ _ _ _ _ _ IC1 E).
    + (* OOr *)
      destruct (sr_err (find_srch h old)); cbn [fst]; [apply K0|].
      rewrite (with_schema_some ls (mk h w) _ _ h1 m1 D).
      destruct (search_with hk h1 m1 (w_disk w) fld o probe None) as [h2 r] eqn:E. cbn [fst].
      apply K. apply (search_with_frame hk ls _ _ _ _ _ _ _ _ _ IC1 E).
    + (* OLen *) cbn [fst]. split; [exact I|exact Ha].
    + (* OCollect *)
      destruct (sr_err (find_srch h sid)); cbn [fst sr_err]; [apply K0|]. rewrite D.
      match goal with |- context [collect_loop h1 m1 ?dd ?us ?lim ?acc] =>
        destruct (collect_loop h1 m1 dd us lim acc) as [[[h2 l] e] lim'] eqn:E end. cbn [fst].
      apply K. apply (collect_loop_frame ls _ _ _ _ _ _ _ _ _ _ _ S1 E).
    + (* OOne *)
      destruct (sr_err (find_srch h sid)); cbn [fst]; [split; [exact I|exact Ha]|].
      destruct (sr_fields (find_srch h sid)) as [|e0 l0]; cbn [fst]; [split; [exact I|exact Ha]|]. rewrite D.
      match goal with |- context [collect_loop h1 m1 ?dd ?us ?lim ?acc] =>
        destruct (collect_loop h1 m1 dd us lim acc) as [[[h2 l] e] lim'] eqn:E end. cbn [fst].
      apply K. apply (collect_loop_frame ls _ _ _ _ _ _ _ _ _ _ _ S1 E).
    + (* OAssignIndex *)
      rewrite (with_schema_some ls (mk h w) _ _ h1 m1 D).
      destruct fld as [f|]; [destruct (nth_opt f (oi_fx (m_idx m1))) as [[l|]|]|]; cbn [fst]; apply K1; exact S1.
    + (* OExpects *)
      destruct (sr_err (find_srch h sid)); cbn [fst]; [split; [exact I|exact Ha]|].
      destruct (_ || _); cbn [fst]; [split; [exact I|exact Ha]|apply K0].
  - (* no collection: every search call fails, nothing changes but the table of search values *)
    destruct (db_schema_absent ls h w I Ha) as [D _].
    assert (K0 : forall sr, Inv ls (mk (set_srch h sr) w) /\ abs (mk (set_srch h sr) w) = None).
    { intros sr. split; [|exact Ha]. destruct I as [Hn0 I]. split; [exact Hn0|exact I]. }
    destruct o; try discriminate; unfold step_fg; cbv zeta; cbn [mk s_h s_w].
    + rewrite (with_schema_err ls (mk h w) _ _ h ENotFound D). cbn [fst]. apply K0.
    + destruct (sr_err (find_srch h old)); cbn [fst]; [apply K0|].
      rewrite (with_schema_err ls (mk h w) _ _ h ENotFound D). cbn [fst]. apply K0.
    + destruct (sr_err (find_srch h old)); cbn [fst]; [apply K0|].
      rewrite (with_schema_err ls (mk h w) _ _ h ENotFound D). cbn [fst]. apply K0.
    + cbn [fst]. split; [exact I|exact Ha].
    + destruct (sr_err (find_srch h sid)); cbn [fst sr_err]; [apply K0|]. rewrite D. cbn [fst]. apply K0.
    + destruct (sr_err (find_srch h sid)); cbn [fst]; [split; [exact I|exact Ha]|].
      destruct (sr_fields (find_srch h sid)) as [|e0 l0]; cbn [fst]; [split; [exact I|exact Ha]|]. rewrite D. cbn [fst]. apply K0.
    + rewrite (with_schema_err ls (mk h w) _ _ h ENotFound D). cbn [fst]. split; [exact I|exact Ha].
    + destruct (sr_err (find_srch h sid)); cbn [fst]; [split; [exact I|exact Ha]|].
      destruct (_ || _); cbn [fst]; [split; [exact I|exact Ha]|apply K0].
Qed.

Lemma step_read_unfold hk ls s o : read_op o = true ->
  step hk ls s o =
  (let (s1, r) := step_fg hk ls s o in
   if w_dead (s_w s1) then (mk new_handle (reset_w (s_w s1)), RCrash)
   else match settle ls (s_h s1) (reset_w (s_w s1)) with
        | Ok (h2, w3) => (mk h2 w3, r)
        | Err e => (mk (s_h s1) (reset_w (s_w s1)), r)
        | Panic => (mk (s_h s1) (reset_w (s_w s1)), RPanic)
        end).
Proof. destruct o; try discriminate; reflexivity. Qed.

(* ONE SEARCH CALL, any arguments: the invariant is kept, the collection is unchanged, no panic *)
Theorem reads_are_silent hk ls s o : Inv ls s -> read_op o = true ->
  Inv ls (fst (step hk ls s o)) /\ abs (fst (step hk ls s o)) = abs s /\ snd (step hk ls s o) <> RCrash.
Proof.
  intros I Hr. destruct s as [h w]. change {| s_h := h; s_w := w |} with (mk h w) in *.
  destruct (reads_fg hk ls h w o I Hr) as [I1 A1].
  rewrite (step_read_unfold hk ls (mk h w) o Hr).
  destruct (step_fg hk ls (mk h w) o) as [s1 r] eqn:E. cbn [fst] in I1, A1.
  assert (Hd : w_dead (s_w s1) = false) by (destruct I1 as [[_ Hd] _]; exact Hd). rewrite Hd.
  assert (I1' : Inv ls (mk (s_h s1) (reset_w (s_w s1)))) by (apply Inv_reset; destruct s1; exact I1).
  destruct (settle_ok ls _ _ I1') as [h2 [w2 [St [I2 [A2 _]]]]]. rewrite St. cbn [fst snd].
  split; [exact I2|]. split; [rewrite A2, abs_reset; exact A1|].
  (* the output of the foreground call is never RCrash *)
  clear -E Hr. intros ->. unfold step_fg in E. destruct o; try discriminate; cbv zeta in E;
    repeat (match type of E with context [match ?x with _ => _ end] => destruct x end; try discriminate);
    unfold with_schema in E;
    repeat (match type of E with context [match ?x with _ => _ end] => destruct x end; try discriminate).
Qed.
Print Assumptions reads_are_silent.

(* ================================================================ histories with searches *)

Fixpoint wf_hist3 (hk : hooks) (ls : N) (s : state) (ops : list op) : Prop :=
  match ops with
  | [] => True
  | o :: r => (if read_op o then True else wf_op2 hk s o) /\ wf_hist3 hk ls (fst (step hk ls s o)) r
  end.

(* EVERY HISTORY mixing the write / read / maintenance calls of C01 with search calls of any kind and
   any arguments: the invariant holds at the end and the collection is what the map specification
   reaches on the history WITHOUT its search calls *)
Theorem C01_history_with_searches hk ls ops : forall s, Inv ls s -> wf_hist3 hk ls s ops ->
  Inv ls (run hk ls s ops) /\
  abs (run hk ls s ops) = fst (spec_run2 hk (abs s) (filter (fun o => negb (read_op o)) ops)).
Proof.
  induction ops as [|o r IH]; intros s I W.
  - cbn. split; [exact I|reflexivity].
  - destruct W as [W1 W2]. unfold run in *. cbn [fold_left filter].
    destruct (read_op o) eqn:Hr; cbn [negb].
    + destruct (reads_are_silent hk ls s o I Hr) as [I1 [A1 _]].
      destruct (IH _ I1 W2) as [I2 A2]. split; [exact I2|]. rewrite A2, A1. reflexivity.
    + destruct (C01_refines_bulk hk ls s o I W1) as [I1 [A1 _]].
      destruct (IH _ I1 W2) as [I2 A2]. split; [exact I2|]. rewrite A2, A1. cbn [spec_run2].
      destruct (spec_step2 hk (abs s) o) as [a1 x]. cbn [fst].
      destruct (spec_run2 hk a1 (filter (fun o0 => negb (read_op o0)) r)). reflexivity.
Qed.
Print Assumptions C01_history_with_searches.
