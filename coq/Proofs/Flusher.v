(* Proofs/Flusher.v: the asynchronous-write routine is alive whenever it is needed (C10).
   In every state reached by covered calls on a handle that was not closed, asynchronous writes
   enabled: if a write is pending, or the routine is marked started, a flusher goroutine exists.
   Together with the tick lemmas: pending writes reach the disk within [timeout] ticks, with no
   further call. *)
From Coq Require Import List ZArith NArith Bool Lia.
Import ListNotations.
From Sod.Model Require Import Base FieldIndex ObjIndex DB.
From Sod.Proofs Require Import DBStruct1.

Definition fvm (m : mem) := (st_async (m_set m), m_started m).

(* what a foreground call may do to the flusher bookkeeping: never cancels, never removes a
   goroutine, never disables; marks the routine started only together with a new goroutine; makes
   a write pending only when the routine is marked started *)
Record R (h h' : handle) : Prop := {
  r_cancel : h_cancel h' = h_cancel h;
  r_fl : exists x, (h_fl h' = h_fl h ++ x /\ Forall (fun f => f = (0%Z, true)) x) /\
         match h_mem h, h_mem h' with
         | Some m, Some m' =>
             st_async (m_set m') = st_async (m_set m) /\
             (m_started m = true -> m_started m' = true) /\
             (m_started m' = true -> m_started m = true \/ x <> [])
         | None, Some m' => m_started m' = true -> x <> []
         | None, None => True
         | Some _, None => False
         end;
  r_pend : h_pend h' <> [] -> h_pend h <> [] \/ exists m', h_mem h' = Some m' /\ m_started m' = true /\ async_on m' = true
}.

Lemma R_refl h : R h h.
Proof.
  constructor; [reflexivity| |intros H; left; exact H].
  exists []. rewrite app_nil_r. split; [split; [reflexivity|constructor]|]. destruct (h_mem h); [|exact I].
  split; [reflexivity|]. split; [intros H; exact H|intros H; left; exact H].
Qed.

Lemma app_nonnil_l {A} (x y : list A) : x <> [] -> x ++ y <> [].
Proof. destruct x; [congruence|discriminate]. Qed.
Lemma app_nonnil_r {A} (x y : list A) : y <> [] -> x ++ y <> [].
Proof. destruct x; [intros H; exact H|discriminate]. Qed.

Lemma R_trans h1 h2 h3 : R h1 h2 -> R h2 h3 -> R h1 h3.
Proof.
  intros [C1 [x [[F1 Z1] M1]] P1] [C2 [y [[F2 Z2] M2]] P2]. constructor.
  - congruence.
  - exists (x ++ y). split; [split; [rewrite F2, F1, app_assoc; reflexivity|apply Forall_app; split; assumption]|].
    destruct (h_mem h1) as [m1|], (h_mem h2) as [m2|], (h_mem h3) as [m3|]; try tauto.
    + destruct M1 as [A1 [U1 D1]]. destruct M2 as [A2 [U2 D2]]. split; [congruence|]. split; [tauto|].
      intros H. destruct (D2 H) as [H2|H2]; [|right; apply app_nonnil_r; exact H2].
      destruct (D1 H2) as [H1|H1]; [left; exact H1|right; apply app_nonnil_l; exact H1].
    + destruct M2 as [A2 [U2 D2]]. intros H. destruct (D2 H) as [H2|H2]; [apply app_nonnil_l; apply M1; exact H2|apply app_nonnil_r; exact H2].
    + intros H. apply app_nonnil_r. apply M2. exact H.
  - intros H. destruct (P2 H) as [H2|[m3 [E3 S3]]]; [|right; exists m3; split; assumption].
    destruct (P1 H2) as [H1|[m2 [E2 [S2 A2]]]]; [left; exact H1|]. right.
    rewrite E2 in M2. destruct (h_mem h3) as [m3|]; [|destruct M2]. exists m3. split; [reflexivity|].
    destruct M2 as [A3 [U3 _]]. split; [apply U3; exact S2|]. unfold async_on in *. rewrite A3. exact A2.
Qed.

(* a call that leaves the bookkeeping alone and makes nothing pending *)
Lemma R_view h h' : h_fl h' = h_fl h -> h_cancel h' = h_cancel h ->
  option_map fvm (h_mem h') = option_map fvm (h_mem h) ->
  (h_pend h' <> [] -> h_pend h <> []) -> R h h'.
Proof.
  intros F C M P. constructor; [exact C| |intros H; left; apply P; exact H].
  exists []. rewrite app_nil_r. split; [split; [exact F|constructor]|].
  destruct (h_mem h) as [m|], (h_mem h') as [m'|]; cbn in M; try discriminate; [|exact I].
  injection M as A S. split; [exact A|]. rewrite S. split; [intros H; exact H|intros H; left; exact H].
Qed.

Lemma R_start h : R h (start_flusher h).
Proof.
  unfold start_flusher. destruct (h_mem h) as [m|] eqn:Hm; [|apply R_refl].
  destruct (async_on m && negb (m_started m)) eqn:E; [|apply R_refl].
  apply andb_true_iff in E. destruct E as [_ E]. apply negb_true_iff in E.
  constructor; cbn [set_fl set_mem h_cancel h_fl h_mem h_pend]; [reflexivity| |intros H; left; exact H].
  exists [(0%Z, true)]. split; [split; [reflexivity|repeat constructor]|]. rewrite Hm. cbn [m_set m_started].
  split; [reflexivity|]. split; [reflexivity|]. intros _. right. discriminate.
Qed.

Lemma start_started h m : h_mem (start_flusher h) = Some m -> async_on m = true -> m_started m = true.
Proof.
  unfold start_flusher. destruct (h_mem h) as [m0|] eqn:Hm; [|congruence].
  destruct (async_on m0 && negb (m_started m0)) eqn:E.
  - cbn [set_fl set_mem h_mem]. intros H; inversion H; reflexivity.
  - rewrite Hm. intros H; inversion H; subst m0. intros A. rewrite A in E. cbn in E. apply negb_false_iff in E. exact E.
Qed.

Lemma R_set_mem_none h m : h_mem h = None -> m_started m = false -> R h (set_mem h (Some m)).
Proof.
  intros Hm S. constructor; cbn [set_mem h_cancel h_fl h_mem h_pend]; [reflexivity| |intros H; left; exact H].
  exists []. rewrite app_nil_r. split; [split; [reflexivity|constructor]|]. rewrite Hm. congruence.
Qed.

(* db.schema *)
Lemma R_db_schema ls h d h' om e : db_schema ls h d = (h', om, e) ->
  R h h' /\ forall m, om = Some m -> h_mem h' = Some m /\ (async_on m = true -> m_started m = true).
Proof.
  unfold db_schema. destruct (h_mem h) as [m0|] eqn:Hm.
  - intros H; inversion H; subst. split; [apply R_start|]. intros m E. split; [exact E|apply (start_started h m E)].
  - destruct (negb (d_dir d)); [intros H; inversion H; subst; split; [apply R_refl|discriminate]|].
    destruct (d_schema d) as [[sf|]|]; try (intros H; inversion H; subst; split; [apply R_refl|discriminate]).
    assert (G : R h (start_flusher (set_mem h (Some (mem_of sf))))).
    { eapply R_trans; [apply (R_set_mem_none h (mem_of sf) Hm); reflexivity|apply R_start]. }
    destruct (control_mem ls (mem_of sf) d) as [[]|]; intros H; inversion H; subst;
      try (split; [apply R_refl|discriminate]); (split; [exact G|]);
      intros m E; (split; [exact E|apply (start_started _ m E)]).
Qed.

Lemma R_commit ls h w h1 e w1 : commit ls h w = (h1, e, w1) -> R h h1.
Proof.
  unfold commit. destruct (db_schema ls h (w_disk w)) as [[h' om] e'] eqn:D.
  destruct (R_db_schema _ _ _ _ _ _ D) as [G _].
  destruct om as [m|], e' as [x|]; try (intros H; inversion H; subst; exact G).
  destruct (save_schema w m). intros H; inversion H; subst; exact G.
Qed.

Lemma R_get_with h m d u h' r : get_with h m d u = (h', r) -> R h h'.
Proof.
  unfold get_with. destruct (if must_cache m then assoc u (h_cache h) else None); [intros H; inversion H; apply R_refl|].
  destruct (file_lookup (file_of m u) (d_files d)) as [[o| |]|]; intros H; inversion H; subst; try apply R_refl.
  destruct (must_cache m); [|apply R_refl]. apply R_view; try reflexivity. intros X; exact X.
Qed.

(* insertOrUpdate with the schema db.schema just returned *)
Lemma R_insert_core ls h w m u o c h' r w' :
  insert_core ls h w m u o c = (h', r, w') ->
  h_mem h = Some m -> (async_on m = true -> m_started m = true) -> R h h'.
Proof.
  unfold insert_core. intros H Hm Hs.
  destruct (negb (forallb serialisable (o_keys o))); [inversion H; apply R_refl|].
  destruct (oi_insert_or_update (m_fields m) (m_idx m) (o_keys o) u) as [ix| |]; try (inversion H; apply R_refl).
  set (m1 := set_idx m ix) in *.
  set (h2 := if must_cache m1 then set_cache (set_mem h (Some m1)) (put u o (h_cache (set_mem h (Some m1)))) else set_mem h (Some m1)) in *.
  assert (V2 : h_fl h2 = h_fl h /\ h_cancel h2 = h_cancel h /\ h_mem h2 = Some m1 /\ h_pend h2 = h_pend h).
  { unfold h2. destruct (must_cache m1); cbn; auto. }
  destruct V2 as [F2 [C2 [M2 P2]]].
  assert (G2 : R h h2).
  { apply R_view; [exact F2|exact C2| |rewrite P2; intros X; exact X]. rewrite M2, Hm. reflexivity. }
  destruct (async_on m1) eqn:A.
  - inversion H; subst. constructor; cbn [set_pend h_cancel h_fl h_mem h_pend].
    + exact C2.
    + exists []. rewrite app_nil_r. split; [split; [exact F2|constructor]|]. rewrite Hm, M2. cbn. split; [reflexivity|]. split; [intros X; exact X|intros X; left; exact X].
    + intros _. right. exists m1. split; [exact M2|]. split; [apply Hs|]; exact A.
  - destruct (write_object w m1 u o) as [[e|] w1]; [inversion H; subst; exact G2|].
    destruct c; [|inversion H; subst; exact G2].
    destruct (commit ls h2 w1) as [[h3 [e|]] w2] eqn:Cm; inversion H; subst;
      (eapply R_trans; [exact G2|apply (R_commit _ _ _ _ _ _ Cm)]).
Qed.

Lemma R_delete_core h w m u h' r w' : delete_core h w m u = (h', r, w') -> h_mem h = Some m -> R h h'.
Proof.
  unfold delete_core. intros H Hm.
  set (h1 := if must_cache m then set_pend (set_cache h (remove_key u (h_cache h))) (remove_key u (h_pend h)) else h) in *.
  assert (G1 : R h h1 /\ h_mem h1 = Some m).
  { unfold h1. destruct (must_cache m); [|split; [apply R_refl|exact Hm]]. split; [|exact Hm].
    apply R_view; try reflexivity. cbn [set_pend h_pend]. intros X Y. apply X. rewrite Y. reflexivity. }
  destruct G1 as [G1 M1].
  destruct (oi_delete (m_idx m) u) as [ix|]; [|inversion H; subst; exact G1].
  assert (G2 : R h (set_mem h1 (Some (set_idx m ix)))).
  { eapply R_trans; [exact G1|]. apply R_view; try reflexivity; [|intros X; exact X]. cbn [set_mem h_mem]. rewrite M1. reflexivity. }
  destruct (file_lookup (file_of (set_idx m ix) u) (d_files (w_disk w))) as [[o| |]|];
    try (inversion H; subst; exact G2);
    destruct (fs_remove w (file_of (set_idx m ix) u)); inversion H; subst; exact G2.
Qed.

Lemma R_flush_all ls h w h' e w' : flush_all ls h w = (h', e, w') -> R h h'.
Proof.
  unfold flush_all. destruct (h_pend h) as [|p l] eqn:Hp; [intros H; inversion H; apply R_refl|].
  destruct (db_schema ls h (w_disk w)) as [[h1 om] e1] eqn:D.
  destruct (R_db_schema _ _ _ _ _ _ D) as [G _].
  assert (G' : R h (set_pend h1 [])).
  { eapply R_trans; [exact G|]. apply R_view; try reflexivity. cbn. congruence. }
  destruct om as [m|]; [destruct (flush_list w m (p :: l) None); intros H; inversion H; subst; exact G'|].
  destruct e1; intros H; inversion H; subst; exact G'.
Qed.

Lemma R_flush_all_commit ls h w h' e w' : flush_all_commit ls h w = (h', e, w') -> R h h'.
Proof.
  unfold flush_all_commit. destruct (flush_all ls h w) as [[h1 e1] w1] eqn:F.
  destruct (commit ls h1 w1) as [[h2 e2] w2] eqn:C.
  pose proof (R_trans _ _ _ (R_flush_all _ _ _ _ _ _ F) (R_commit _ _ _ _ _ _ C)) as G.
  destruct e2; intros H; inversion H; subst; exact G.
Qed.

Lemma R_collect_loop m d : forall us h lim acc h' l e lim', collect_loop h m d us lim acc = (h', l, e, lim') -> R h h'.
Proof.
  induction us as [|uo r IH]; intros h lim acc h' l e lim' H; cbn [collect_loop] in H; [inversion H; apply R_refl|].
  destruct uo as [u|].
  - destruct (get_with h m d u) as [h1 [ob|x|]] eqn:G; pose proof (R_get_with _ _ _ _ _ _ G) as G1.
    + destruct lim as [[|p]|].
      * inversion H; subst; exact G1.
      * eapply R_trans; [exact G1|eapply IH; exact H].
      * eapply R_trans; [exact G1|eapply IH; exact H].
    + inversion H; subst; exact G1.
    + inversion H; subst; exact G1.
  - inversion H; apply R_refl.
Qed.

(* the schema in hand: asynchronous writes enabled means the routine is marked started *)
Definition SA (h : handle) : Prop := forall m, h_mem h = Some m -> async_on m = true -> m_started m = true.

Lemma SA_R h h' : SA h -> (exists m, h_mem h = Some m) -> R h h' -> SA h'.
Proof.
  intros S [m Em] [_ [x [_ M]] _] m' Em' A'. rewrite Em, Em' in M. destruct M as [A [U _]].
  apply U. apply (S m Em). unfold async_on in *. rewrite <- A. exact A'.
Qed.

Lemma R_mem_some h h' m : R h h' -> h_mem h = Some m -> exists m', h_mem h' = Some m'.
Proof. intros [_ [x [_ M]] _] Em. rewrite Em in M. destruct (h_mem h') as [m'|]; [exists m'; reflexivity|destruct M]. Qed.

Lemma R_set_srch h x : R h (set_srch h x).
Proof. apply R_view; try reflexivity. intros X; exact X. Qed.

Lemma R_set_idx h m ix : h_mem h = Some m -> R h (set_mem h (Some (set_idx m ix))).
Proof. intros Em. apply R_view; try reflexivity; [|intros X; exact X]. cbn [set_mem h_mem]. rewrite Em. reflexivity. Qed.

Lemma R_scan m d fld o probe rx : forall us h acc h' r e, scan h m d fld o probe rx us acc = (h', r, e) -> R h h'.
Proof.
  induction us as [|[u|] us IH]; intros h acc h' r e H; cbn [scan] in H; try (inversion H; apply R_refl).
  destruct (get_with h m d u) as [h1 [ob|x|]] eqn:G; pose proof (R_get_with _ _ _ _ _ _ G) as G1;
    try (inversion H; subst; exact G1).
  destruct (uuid_oid (oi_ids (m_idx m)) u); [|inversion H; subst; exact G1].
  destruct (nth_opt fld (o_keys ob)); [|inversion H; subst; exact G1].
  destruct (negb (kind_eqb (kind_of k) (kind_of probe))); [inversion H; subst; exact G1|].
  eapply R_trans; [exact G1|eapply IH; exact H].
Qed.

Lemma R_search_with hk h m d fld o probe c h' r : search_with hk h m d fld o probe c = (h', r) -> R h h'.
Proof.
  unfold search_with. intros H.
  destruct fld as [f|]; [|inversion H; apply R_refl].
  destruct (nth_opt f (m_fields m)) as [fd|]; [|inversion H; apply R_refl].
  destruct (nth_opt f (oi_fx (m_idx m))) as [[l|]|]; try (inversion H; apply R_refl).
  - destruct (negb (kind_eqb (fd_kind fd) (kind_of (canon_key hk fd probe)))); [inversion H; apply R_refl|].
    destruct (match c with None => Some l | Some c0 => fi_constrain l c0 end); [|inversion H; apply R_refl].
    destruct (fi_search l0 o (canon_key hk fd probe) (rx_of hk (canon_key hk fd probe))); inversion H; apply R_refl.
  - destruct (negb (kind_eqb (fd_kind fd) (kind_of (canon_key hk fd probe)))); [inversion H; apply R_refl|].
    destruct o; try (inversion H; apply R_refl);
      match type of H with
      | context [scan ?a ?b ?c0 ?d0 ?e ?f0 ?g ?us ?ac] =>
          destruct (scan a b c0 d0 e f0 g us ac) as [[h1 r1] e1] eqn:Sc; inversion H; subst; apply (R_scan _ _ _ _ _ _ _ _ _ _ _ _ Sc)
      | _ => idtac
      end.
    destruct (rx_of hk (canon_key hk fd probe)); [|inversion H; apply R_refl].
    match type of H with
    | context [scan ?a ?b ?c0 ?d0 ?e ?f0 ?g ?us ?ac] =>
        destruct (scan a b c0 d0 e f0 g us ac) as [[h1 r1] e1] eqn:Sc; inversion H; subst; apply (R_scan _ _ _ _ _ _ _ _ _ _ _ _ Sc)
    end.
Qed.

Lemma R_insert_loop ls : forall l h w n h' r w' n', insert_loop ls h w l n = (h', r, w', n') -> SA h -> R h h'.
Proof.
  induction l as [|[u o] l IH]; intros h w n h' r w' n' H S; cbn [insert_loop] in H; [inversion H; apply R_refl|].
  destruct (h_mem h) as [m|] eqn:Em; [|inversion H; apply R_refl].
  destruct (insert_core ls h w m u o false) as [[h1 r1] w1] eqn:I.
  pose proof (R_insert_core _ _ _ _ _ _ _ _ _ _ I Em (S m Em)) as G1.
  destruct r1 as [[]|x|]; try (inversion H; subst; exact G1).
  eapply R_trans; [exact G1|]. eapply IH; [exact H|]. apply (SA_R h h1 S); [exists m; exact Em|exact G1].
Qed.

Lemma R_do_many hk ls s ms s1 r n : do_many hk ls s ms = (s1, r, n) -> R (s_h s) (s_h s1).
Proof.
  intros H. destruct ms as [|[u fr o|] ms']; [inversion H; apply R_refl| |].
  2: { destruct (many_other_first _ _ _ _ _ _ _ H) as [_ [[E|E] _]]; rewrite E; [apply R_refl|].
       destruct (db_schema ls (s_h s) (w_disk (s_w s))) as [[h1 om] e] eqn:D.
       destruct (R_db_schema _ _ _ _ _ _ D) as [G _]. exact G. }
  unfold do_many in H.
  destruct (db_schema ls (s_h s) (w_disk (s_w s))) as [[h1 om] e] eqn:D.
  destruct (R_db_schema _ _ _ _ _ _ D) as [G P].
  destruct om as [m|], e as [x|]; try (inversion H; subst; exact G).
  destruct (P m eq_refl) as [M S].
  destruct (validate_batch hk m (new_index (m_fields m)) (MRec u fr o :: ms')) as [l|x|]; try (inversion H; subst; exact G).
  destruct (insert_loop ls h1 (s_w s) l 0%Z) as [[[h2 r2] w2] n2] eqn:L.
  assert (S1 : SA h1) by (intros m0 E0; rewrite M in E0; inversion E0; subst; exact S).
  pose proof (R_insert_loop _ _ _ _ _ _ _ _ _ L S1) as G2.
  destruct (commit ls h2 w2) as [[h3 e3] w3] eqn:C.
  pose proof (R_trans _ _ _ G (R_trans _ _ _ G2 (R_commit _ _ _ _ _ _ C))) as G3.
  destruct e3; inversion H; subst; exact G3.
Qed.

Lemma R_bulk_loop hk ls : forall cs s n s1 r n', bulk_loop hk ls s cs n = (s1, r, n') -> R (s_h s) (s_h s1).
Proof.
  induction cs as [|c cs IH]; intros s n s1 r n' H; cbn [bulk_loop] in H; [inversion H; apply R_refl|].
  destruct (do_many hk ls s c) as [[s2 r2] k] eqn:M. pose proof (R_do_many _ _ _ _ _ _ _ M) as G.
  destruct r2 as [[]|x|]; try (inversion H; subst; exact G).
  eapply R_trans; [exact G|eapply IH; exact H].
Qed.

Lemma R_delete_loop : forall us h w h' r w', delete_loop h w us = (h', r, w') -> R h h'.
Proof.
  induction us as [|uo us IH]; intros h w h' r w' H; cbn [delete_loop] in H; [inversion H; apply R_refl|].
  destruct (h_mem h) as [m|] eqn:Em; [|inversion H; apply R_refl].
  set (h0 := match uo with Some u' => fst (get_with h m (w_disk w) u') | None => h end) in *.
  assert (G0 : R h h0).
  { unfold h0. destruct uo as [u'|]; [|apply R_refl]. destruct (get_with h m (w_disk w) u') as [hh rr] eqn:G. apply (R_get_with _ _ _ _ _ _ G). }
  (* delete_core is given m, which is the loaded schema of h0 *)
  assert (E0 : h_mem h0 = Some m).
  { unfold h0. destruct uo as [u'|]; [|exact Em]. unfold get_with.
    destruct (if must_cache m then assoc u' (h_cache h) else None); cbn [fst]; [exact Em|].
    destruct (file_lookup (file_of m u') (d_files (w_disk w))) as [[ob| |]|]; cbn [fst]; try exact Em.
    destruct (must_cache m); cbn; exact Em. }
  destruct (delete_core h0 w m (match uo with Some u => u | None => 0%N end)) as [[h1 r1] w1] eqn:Dl.
  pose proof (R_trans _ _ _ G0 (R_delete_core _ _ _ _ _ _ _ Dl E0)) as G1.
  destruct r1 as [[]|x|]; try (inversion H; subst; exact G1).
  eapply R_trans; [exact G1|eapply IH; exact H].
Qed.

Lemma R_do_delete_objects ls h w us s1 r : do_delete_objects ls h w us = (s1, r) -> R h (s_h s1).
Proof.
  unfold do_delete_objects. destruct (delete_loop h w us) as [[h1 r1] w1] eqn:L.
  destruct (commit ls h1 w1) as [[h2 e2] w2] eqn:C. intros H; inversion H; subst. cbn [mk s_h].
  apply (R_trans _ _ _ (R_delete_loop _ _ _ _ _ _ L) (R_commit _ _ _ _ _ _ C)).
Qed.

Lemma get_with_mem h m d u h' r : get_with h m d u = (h', r) -> h_mem h' = h_mem h.
Proof.
  unfold get_with. destruct (if must_cache m then assoc u (h_cache h) else None); [intros H; inversion H; reflexivity|].
  destruct (file_lookup (file_of m u) (d_files d)) as [[ob| |]|]; intros H; inversion H; subst; try reflexivity.
  destruct (must_cache m); reflexivity.
Qed.

Lemma R_repair_add w : forall us h h' r, repair_add h w us = (h', r) -> R h h'.
Proof.
  induction us as [|u us IH]; intros h h' r H; cbn [repair_add] in H; [inversion H; apply R_refl|].
  destruct (h_mem h) as [m|] eqn:Em; [|inversion H; apply R_refl].
  destruct (is_indexed (m_idx m) u); [eapply IH; exact H|].
  destruct (get_with h m (w_disk w) u) as [h1 [o|x|]] eqn:G; pose proof (R_get_with _ _ _ _ _ _ G) as G1;
    try (inversion H; subst; exact G1).
  destruct (oi_insert_or_update (m_fields m) (m_idx m) (o_keys o) u) as [ix|x|]; try (inversion H; subst; exact G1).
  eapply R_trans; [exact G1|]. eapply R_trans; [|eapply IH; exact H].
  apply R_set_idx. rewrite (get_with_mem _ _ _ _ _ _ G). exact Em.
Qed.


(* ---------------------------------------------------------------- foreground calls *)
Definition plain_op (o : op) : Prop :=
  match o with
  | OInsert _ _ _ | ODelete _ | OGet _ | OExist _ | OCount | OAll
  | OCommit | OFlushAll | OFlushAllCommit | OControl | OSchema
  | OMany _ | OBulk _ _ | ODeleteAll _ | OSearch _ _ _ _ | OAnd _ _ _ _ _ | OOr _ _ _ _ _ | OLen _
  | OCollect _ _ _ | OOne _ | OSearchDelete _ | OAssignIndex _ | ORepair _ | OFlushOne _ _ _ | OExpects _ _ _ => True
  | _ => False
  end.

Lemma R_with_schema ls s k bad s1 r :
  with_schema ls s k bad = (s1, r) ->
  (forall h1 m s1 r, R (s_h s) h1 -> h_mem h1 = Some m -> (async_on m = true -> m_started m = true) ->
                     k h1 m = (s1, r) -> R (s_h s) (s_h s1)) ->
  (forall h1 e s1 r, bad h1 e = (s1, r) -> R h1 (s_h s1)) ->
  R (s_h s) (s_h s1).
Proof.
  unfold with_schema. intros H K B.
  destruct (db_schema ls (s_h s) (w_disk (s_w s))) as [[h1 om] e] eqn:D.
  destruct (R_db_schema _ _ _ _ _ _ D) as [G P].
  destruct om as [m|], e as [x|].
  - apply (R_trans _ _ _ G (B _ _ _ _ H)).
  - destruct (P m eq_refl) as [M S]. apply (K h1 m s1 r G M S H).
  - apply (R_trans _ _ _ G (B _ _ _ _ H)).
  - apply (R_trans _ _ _ G (B _ _ _ _ H)).
Qed.

Lemma R_step_fg hk ls s o s1 r : plain_op o -> step_fg hk ls s o = (s1, r) -> R (s_h s) (s_h s1).
Proof.
  intros P H. destruct o; try destruct P; cbn [step_fg] in H.
  - (* OInsert *)
    unfold do_insert in H. eapply R_with_schema; [exact H| |intros h1 e s2 r2 X; inversion X; apply R_refl].
    intros h1 m s2 r2 G M S X. cbv beta in X.
    destruct (negb (hk_va hk (o_keys (prepare_obj hk m o)))); [inversion X; subst; exact G|].
    destruct (insert_core ls h1 (s_w s) m (if (u =? 0)%N then fresh else u) (prepare_obj hk m o) true) as [[h2 r3] w2] eqn:I.
    inversion X; subst. cbn [mk s_h]. eapply R_trans; [exact G|apply (R_insert_core _ _ _ _ _ _ _ _ _ _ I M S)].
  - (* OMany *)
    destruct (do_many hk ls s ms) as [[s2 r2] n] eqn:M. inversion H; subst. apply (R_do_many _ _ _ _ _ _ _ M).
  - (* OBulk *)
    destruct (bulk_loop hk ls s (chunks csize ms) 0%Z) as [[s2 r2] n] eqn:M. inversion H; subst. apply (R_bulk_loop _ _ _ _ _ _ _ _ M).
  - (* ODelete *)
    destruct (db_schema ls (s_h s) (w_disk (s_w s))) as [[h1 om] e] eqn:D.
    destruct (R_db_schema _ _ _ _ _ _ D) as [G Pm].
    destruct om as [m|], e as [x|]; try (inversion H; subst; exact G).
    destruct (Pm m eq_refl) as [M S].
    destruct (delete_core h1 (s_w s) m u) as [[h2 r2] w2] eqn:Dl.
    destruct (commit ls h2 w2) as [[h3 e3] w3] eqn:C.
    pose proof (R_trans _ _ _ G (R_trans _ _ _ (R_delete_core _ _ _ _ _ _ _ Dl M) (R_commit _ _ _ _ _ _ C))) as G3.
    destruct e3; inversion H; subst; exact G3.
  - (* ODeleteAll *)
    eapply R_with_schema; [exact H| |intros h1 e s2 r2 X; inversion X; apply R_refl].
    intros h1 m s2 r2 G M S X. cbv beta in X. eapply R_trans; [exact G|apply (R_do_delete_objects _ _ _ _ _ _ X)].
  - (* OGet *)
    eapply R_with_schema; [exact H| |intros h1 e s2 r2 X; inversion X; apply R_refl].
    intros h1 m s2 r2 G M S X. cbv beta in X.
    destruct (get_with h1 m (w_disk (s_w s)) u) as [h2 [ob|x|]] eqn:Gw; inversion X; subst; cbn [mk s_h];
      (eapply R_trans; [exact G|apply (R_get_with _ _ _ _ _ _ Gw)]).
  - (* OExist *)
    eapply R_with_schema; [exact H| |intros h1 e s2 r2 X; inversion X; apply R_refl].
    intros h1 m s2 r2 G M S X. inversion X; subst. exact G.
  - (* OCount *)
    eapply R_with_schema; [exact H| |intros h1 e s2 r2 X; inversion X; apply R_refl].
    intros h1 m s2 r2 G M S X. inversion X; subst. exact G.
  - (* OAll *)
    eapply R_with_schema; [exact H| |intros h1 e s2 r2 X; inversion X; apply R_refl].
    intros h1 m s2 r2 G M S X. cbv beta in X.
    destruct (collect_loop h1 m (w_disk (s_w s)) (map (fun p => Some (snd p)) (oi_ids (m_idx m))) None []) as [[[h2 l] e] lim] eqn:Cl.
    pose proof (R_trans _ _ _ G (R_collect_loop _ _ _ _ _ _ _ _ _ _ Cl)) as G2.
    destruct e; inversion X; subst; exact G2.
  - (* OSearch *)
    eapply R_with_schema; [exact H| |intros h1 e s2 r2 X; inversion X; subst; cbn [mk s_h]; apply R_set_srch].
    intros h1 m s2 r2 G M S X. cbv beta in X.
    destruct (search_with hk h1 m (w_disk (s_w s)) fld o probe None) as [h2 rr] eqn:Sw. inversion X; subst. cbn [mk s_h].
    eapply R_trans; [exact G|]. eapply R_trans; [apply (R_search_with _ _ _ _ _ _ _ _ _ _ Sw)|apply R_set_srch].
  - (* OAnd *)
    destruct (sr_err (find_srch (s_h s) old)); [inversion H; subst; cbn [mk s_h]; apply R_set_srch|].
    eapply R_with_schema; [exact H| |intros h1 e s2 r2 X; inversion X; subst; cbn [mk s_h]; apply R_set_srch].
    intros h1 m s2 r2 G M S X. cbv beta in X.
    destruct (search_with hk h1 m (w_disk (s_w s)) fld o probe (Some (sr_fields (find_srch (s_h s) old)))) as [h2 rr] eqn:Sw.
    inversion X; subst. cbn [mk s_h].
    eapply R_trans; [exact G|]. eapply R_trans; [apply (R_search_with _ _ _ _ _ _ _ _ _ _ Sw)|apply R_set_srch].
  - (* OOr *)
    destruct (sr_err (find_srch (s_h s) old)); [inversion H; subst; cbn [mk s_h]; apply R_set_srch|].
    eapply R_with_schema; [exact H| |intros h1 e s2 r2 X; inversion X; subst; cbn [mk s_h]; apply R_set_srch].
    intros h1 m s2 r2 G M S X. cbv beta in X.
    destruct (search_with hk h1 m (w_disk (s_w s)) fld o probe None) as [h2 rr] eqn:Sw.
    inversion X; subst. cbn [mk s_h].
    eapply R_trans; [exact G|]. eapply R_trans; [apply (R_search_with _ _ _ _ _ _ _ _ _ _ Sw)|apply R_set_srch].
  - (* OLen *) inversion H; apply R_refl.
  - (* OCollect *)
    cbv zeta in H.
    match type of H with context [match sr_err ?rr with _ => _ end] => destruct (sr_err rr) end;
      [inversion H; subst; cbn [mk s_h]; apply R_set_srch|].
    destruct (db_schema ls (s_h s) (w_disk (s_w s))) as [[h1 om] e] eqn:D.
    destruct (R_db_schema _ _ _ _ _ _ D) as [G _].
    destruct om as [m|], e as [x|]; try (inversion H; subst; cbn [mk s_h]; first [exact G|eapply R_trans; [exact G|apply R_set_srch]]).
    match type of H with context [collect_loop ?a ?b ?c ?d ?e ?f] => destruct (collect_loop a b c d e f) as [[[h2 l] e2] lim'] eqn:Cl end.
    inversion H; subst. cbn [mk s_h].
    eapply R_trans; [exact G|]. eapply R_trans; [apply (R_collect_loop _ _ _ _ _ _ _ _ _ _ Cl)|apply R_set_srch].
  - (* OOne *)
    cbv zeta in H. destruct (sr_err (find_srch (s_h s) sid)); [inversion H; apply R_refl|].
    destruct (sr_fields (find_srch (s_h s) sid)) as [|e0 l0] eqn:Ef; [inversion H; apply R_refl|]. rewrite <- Ef in H.
    destruct (db_schema ls (s_h s) (w_disk (s_w s))) as [[h1 om] e] eqn:D.
    destruct (R_db_schema _ _ _ _ _ _ D) as [G _].
    destruct om as [m|], e as [x|]; try (inversion H; subst; cbn [mk s_h]; first [exact G|eapply R_trans; [exact G|apply R_set_srch]]).
    match type of H with context [collect_loop ?a ?b ?c ?d ?e ?f] => destruct (collect_loop a b c d e f) as [[[h2 l] e2] lim'] eqn:Cl end.
    assert (G2 : R (s_h s) (set_srch h2 (put sid {| sr_fields := sr_fields (find_srch (s_h s) sid); sr_err := None; sr_limit := lim'; sr_rev := sr_rev (find_srch (s_h s) sid) |} (h_srch h2)))).
    { eapply R_trans; [exact G|]. eapply R_trans; [apply (R_collect_loop _ _ _ _ _ _ _ _ _ _ Cl)|apply R_set_srch]. }
    destruct e2; [inversion H; subst; exact G2|]. destruct l as [|x1 l1]; inversion H; subst; exact G2.
  - (* OSearchDelete *)
    destruct (sr_err (find_srch (s_h s) sid)); [inversion H; apply R_refl|].
    eapply R_with_schema; [exact H| |intros h1 e s2 r2 X; inversion X; apply R_refl].
    intros h1 m s2 r2 G M S X. cbv beta in X. eapply R_trans; [exact G|apply (R_do_delete_objects _ _ _ _ _ _ X)].
  - (* OAssignIndex *)
    eapply R_with_schema; [exact H| |intros h1 e s2 r2 X; inversion X; apply R_refl].
    intros h1 m s2 r2 G M S X. cbv beta in X. destruct fld as [f|]; [|inversion X; subst; exact G].
    destruct (nth_opt f (oi_fx (m_idx m))) as [[l|]|]; inversion X; subst; exact G.
  - (* OCommit *)
    destruct (commit ls (s_h s) (s_w s)) as [[h1 e] w1] eqn:C. inversion H; subst. apply (R_commit _ _ _ _ _ _ C).
  - (* OFlushAll *)
    destruct (flush_all ls (s_h s) (s_w s)) as [[h1 e] w1] eqn:C. inversion H; subst. apply (R_flush_all _ _ _ _ _ _ C).
  - (* OFlushAllCommit *)
    destruct (flush_all_commit ls (s_h s) (s_w s)) as [[h1 e] w1] eqn:C. inversion H; subst. apply (R_flush_all_commit _ _ _ _ _ _ C).
  - (* OControl *)
    destruct (h_mem (s_h s)); inversion H; subst; apply R_refl.
  - (* ORepair *)
    destruct (db_schema ls (s_h s) (w_disk (s_w s))) as [[h1 om] e] eqn:D.
    destruct (R_db_schema _ _ _ _ _ _ D) as [G _].
    destruct om as [m|]; [|destruct e; inversion H; subst; exact G].
    destruct (negb (d_dir (w_disk (s_w s)))); [inversion H; subst; exact G|].
    destruct (repair_add h1 (s_w s) (order_by order (disk_uuids (w_disk (s_w s))))) as [h2 r2] eqn:Ra.
    pose proof (R_trans _ _ _ G (R_repair_add _ _ _ _ _ Ra)) as G2.
    destruct r2 as [[]|x|]; try (inversion H; subst; exact G2).
    destruct (h_mem h2) as [m2|] eqn:E2; [|inversion H; subst; exact G2].
    destruct (repair_drop (m_idx m2) (indexed_uuids (m_idx m2)) (disk_uuids (w_disk (s_w s)))) as [ix|]; [|inversion H; subst; exact G2].
    destruct (commit ls (set_mem h2 (Some (set_idx m2 ix))) (s_w s)) as [[h4 e4] w4] eqn:C.
    inversion H; subst. cbn [mk s_h].
    eapply R_trans; [exact G2|]. eapply R_trans; [apply (R_set_idx h2 m2 ix E2)|apply (R_commit _ _ _ _ _ _ C)].
  - (* OSchema *)
    destruct (db_schema ls (s_h s) (w_disk (s_w s))) as [[h1 om] e] eqn:D.
    destruct (R_db_schema _ _ _ _ _ _ D) as [G _]. inversion H; subst. exact G.
  - (* OFlushOne *)
    destruct (if withc then commit ls (s_h s) (s_w s) else (s_h s, None, s_w s)) as [[h0 e0] w0] eqn:C.
    assert (G0 : R (s_h s) h0) by (destruct withc; [apply (R_commit _ _ _ _ _ _ C)|inversion C; apply R_refl]).
    destruct (db_schema ls h0 (w_disk w0)) as [[h1 om] e] eqn:D.
    destruct (R_db_schema _ _ _ _ _ _ D) as [G1 _].
    assert (G2 : R (s_h s) (set_pend h1 (remove_key u (h_pend h1)))).
    { eapply R_trans; [exact G0|]. eapply R_trans; [exact G1|]. apply R_view; try reflexivity.
      cbn [set_pend h_pend]. intros X Y. apply X. rewrite Y. reflexivity. }
    destruct om as [m|], e as [x|]; try (inversion H; subst; exact G2).
    destruct (write_object w0 m u ob). inversion H; subst. exact G2.
  - (* OExpects *)
    destruct (sr_err (find_srch (s_h s) sid)); [inversion H; apply R_refl|].
    destruct (_ || _); inversion H; subst; [apply R_refl|cbn [mk s_h]; apply R_set_srch].
Qed.

(* ---------------------------------------------------------------- the invariant *)
(* a write is pending only on a loaded schema with asynchronous writes enabled *)
Definition PA (h : handle) : Prop :=
  h_pend h <> [] -> exists m, h_mem h = Some m /\ async_on m = true.

(* THE ROUTINE IS ALIVE WHEN NEEDED: handle not closed, asynchronous writes enabled, and either the
   routine is marked started or a write is pending: a flusher goroutine exists *)
Definition FJ (h : handle) : Prop :=
  h_cancel h = false -> forall m, h_mem h = Some m -> async_on m = true ->
  (m_started m = true \/ h_pend h <> []) -> h_fl h <> [].

Lemma PA_R h h' : PA h -> R h h' -> PA h'.
Proof.
  intros P [C [x [[F Zx] M]] Pd] H. destruct (Pd H) as [H0|[m' [E [_ A]]]]; [|exists m'; split; assumption].
  destruct (P H0) as [m [Em Am]]. rewrite Em in M. destruct (h_mem h') as [m'|]; [|destruct M].
  exists m'. split; [reflexivity|]. destruct M as [A' _]. unfold async_on in *. rewrite A'. exact Am.
Qed.

Lemma FJ_R h h' : FJ h -> PA h -> R h h' -> FJ h'.
Proof.
  intros J P [C [x [[F Zx] M]] Pd] Hc m' Em' Am' Hor. rewrite C in Hc. rewrite F.
  assert (St : m_started m' = true -> h_fl h ++ x <> []).
  { intros S. rewrite Em' in M. destruct (h_mem h) as [m|] eqn:Em.
    - destruct M as [A [_ D]]. destruct (D S) as [S0|X]; [|apply app_nonnil_r; exact X].
      apply app_nonnil_l. apply (J Hc m Em); [unfold async_on in *; rewrite <- A; exact Am'|left; exact S0].
    - apply app_nonnil_r. apply M. exact S. }
  destruct Hor as [S|Hp]; [apply St; exact S|].
  destruct (Pd Hp) as [H0|[m2 [E2 [S2 _]]]].
  - destruct (P H0) as [m [Em Am]]. apply app_nonnil_l. apply (J Hc m Em Am). right. exact H0.
  - rewrite Em' in E2. inversion E2; subst m2. apply St. exact S2.
Qed.

(* ---------------------------------------------------------------- the goroutines themselves *)
Definition live_async (h : handle) : Prop := h_cancel h = false /\ exists m, h_mem h = Some m /\ async_on m = true.

Lemma live_async_R h h' : live_async h -> R h h' -> live_async h'.
Proof.
  intros [C [m [Em Am]]] [C' [x [[F Zx] M]] _]. split; [congruence|]. rewrite Em in M.
  destruct (h_mem h') as [m'|]; [|destruct M]. exists m'. split; [reflexivity|]. destruct M as [A _].
  unfold async_on in *. rewrite A. exact Am.
Qed.

Lemma flusher_iter_R ls h w sl wake h1 w1 r : flusher_iter ls h w sl wake = Ok (h1, w1, r) ->
  R h h1 /\ (live_async h -> r <> None).
Proof.
  unfold flusher_iter. destruct (h_mem h) as [m|] eqn:Em; [|discriminate].
  destruct (st_async (m_set m)) as [[thr tmo]|] eqn:As.
  - destruct ((Z.of_nat (length (h_pend h)) >=? thr)%Z || ((if wake then (sl + 1)%Z else sl) >=? tmo)%Z).
    + destruct (h_cancel h) eqn:Ec.
      * intros H; inversion H; subst. split; [apply R_refl|]. intros [C _]. congruence.
      * destruct (flush_all_commit ls h w) as [[h2 [e|]] w2] eqn:F; [discriminate|].
        intros H; inversion H; subst. split; [apply (R_flush_all_commit _ _ _ _ _ _ F)|]. intros _. discriminate.
    + intros H; inversion H; subst. split; [apply R_refl|]. intros _. discriminate.
  - intros H; inversion H; subst. split; [apply R_refl|]. intros [_ [m0 [E0 A0]]]. rewrite Em in E0. inversion E0; subst m0.
    unfold async_on in A0. rewrite As in A0. discriminate.
Qed.

Lemma run_flushers_R ls b : forall fl h w acc h1 w1 fl', run_flushers ls h w fl b acc = Ok (h1, w1, fl') ->
  R h h1 /\ (live_async h -> length fl' = (length fl + length acc)%nat).
Proof.
  induction fl as [|[sl fresh] r IH]; intros h w acc h1 w1 fl' H; cbn [run_flushers] in H.
  - inversion H; subst. split; [apply R_refl|]. intros _. rewrite rev_length. reflexivity.
  - destruct (b && negb fresh).
    + destruct (IH _ _ _ _ _ _ H) as [G L]. split; [exact G|]. intros La. rewrite (L La). cbn [length]. lia.
    + destruct (flusher_iter ls h w sl (negb fresh)) as [[[h2 w2] x]|e|] eqn:F; try discriminate.
      destruct (flusher_iter_R _ _ _ _ _ _ _ _ F) as [G2 N2].
      destruct x as [s2|].
      * destruct (IH _ _ _ _ _ _ H) as [G L]. split; [eapply R_trans; eassumption|].
        intros La. rewrite (L (live_async_R _ _ La G2)). cbn [length]. lia.
      * split; [destruct (IH _ _ _ _ _ _ H) as [G _]; eapply R_trans; eassumption|].
        intros La. exfalso. apply (N2 La). reflexivity.
Qed.

Lemma R_set_fl_nil h h1 : R (set_fl h []) h1 -> PA h -> PA h1.
Proof. intros G P. apply (PA_R (set_fl h []) h1); [exact P|exact G]. Qed.

(* after the goroutines ran (a tick, or the goroutines a call started): invariant kept *)
Lemma FJ_run ls b h w h1 w1 fl' : FJ h -> PA h ->
  run_flushers ls (set_fl h []) w (h_fl h) b [] = Ok (h1, w1, fl') ->
  FJ (set_fl h1 (fl' ++ h_fl h1)) /\ PA (set_fl h1 (fl' ++ h_fl h1)).
Proof.
  intros J P H. destruct (run_flushers_R _ _ _ _ _ _ _ _ _ H) as [G L].
  split; [|apply (PA_R (set_fl h []) h1); [exact P|exact G]].
  destruct G as [C [x [[F Zx] M]] Pd]. cbn [set_fl h_cancel h_fl h_mem h_pend app] in *.
  intros Hc m' Em' Am' Hor. cbn [set_fl h_cancel h_fl h_mem h_pend] in *. rewrite F.
  rewrite C in Hc.
  (* the goroutines that were there are all still there *)
  assert (Keep : forall m, h_mem h = Some m -> async_on m = true -> (m_started m = true \/ h_pend h <> []) -> fl' <> []).
  { intros m Em Am Hor0. pose proof (J Hc m Em Am Hor0) as Nf.
    assert (La : live_async (set_fl h [])) by (split; [exact Hc|exists m; split; assumption]).
    rewrite Nat.add_0_r in L. specialize (L La). destruct fl'; [|discriminate]. destruct (h_fl h); [congruence|discriminate]. }
  assert (St : m_started m' = true -> fl' ++ x <> []).
  { intros S. rewrite Em' in M. destruct (h_mem h) as [m|] eqn:Em.
    - destruct M as [A [_ D]]. destruct (D S) as [S0|X]; [|apply app_nonnil_r; exact X].
      apply app_nonnil_l. apply (Keep m eq_refl); [unfold async_on in *; rewrite <- A; exact Am'|left; exact S0].
    - apply app_nonnil_r. apply M. exact S. }
  destruct Hor as [S|Hp]; [apply St; exact S|].
  destruct (Pd Hp) as [H0|[m2 [E2 [S2 _]]]].
  - destruct (P H0) as [m [Em Am]]. apply app_nonnil_l. apply (Keep m Em Am). right. exact H0.
  - rewrite Em' in E2. inversion E2; subst m2. apply St. exact S2.
Qed.

Lemma FJ_settle ls h w h2 w2 : FJ h -> PA h -> settle ls h w = Ok (h2, w2) -> FJ h2 /\ PA h2.
Proof.
  unfold settle. intros J P. destruct (existsb (fun p => snd p) (h_fl h)); [|intros H; inversion H; subst; split; assumption].
  destruct (run_flushers ls (set_fl h []) w (h_fl h) true []) as [[[h1 w1] fl]|e|] eqn:Rn; try discriminate.
  intros H; inversion H; subst. apply (FJ_run _ _ _ _ _ _ _ J P Rn).
Qed.

Lemma FJ_new : FJ new_handle /\ PA new_handle.
Proof. split; [intros _ m E; discriminate|intros H; exfalso; apply H; reflexivity]. Qed.

(* ---------------------------------------------------------------- Create, Close, Reopen *)
Lemma flush_all_pend ls h w h' e w' : flush_all ls h w = (h', e, w') -> h_pend h' = [].
Proof.
  unfold flush_all. destruct (h_pend h) as [|p l] eqn:Hp; [intros H; inversion H; subst; exact Hp|].
  destruct (db_schema ls h (w_disk w)) as [[h1 [m|]] [e1|]]; try destruct (flush_list w m (p :: l) None);
    intros H; inversion H; reflexivity.
Qed.

Lemma db_schema_notfound ls h d h1 om : db_schema ls h d = (h1, om, Some ENotFound) -> h1 = h /\ h_mem h = None.
Proof.
  unfold db_schema. destruct (h_mem h) as [m0|] eqn:Hm; [intros H; inversion H|].
  destruct (negb (d_dir d)); [intros H; inversion H; auto|].
  destruct (d_schema d) as [[sf|]|]; try (intros H; inversion H; auto; fail).
  destruct (control_mem ls (mem_of sf) d) as [[]|]; intros H; inversion H; auto.
Qed.

Definition JP (h : handle) : Prop := FJ h /\ PA h.

Lemma JP_R h h' : JP h -> R h h' -> JP h'.
Proof. intros [J P] G. split; [apply (FJ_R h h' J P G)|apply (PA_R h h' P G)]. Qed.

Lemma JP_create hk ls s st fds s1 r : JP (s_h s) -> step_fg hk ls s (OCreate st fds) = (s1, r) -> JP (s_h s1).
Proof.
  intros I H. cbn [step_fg] in H.
  destruct (db_schema ls (s_h s) (w_disk (s_w s))) as [[h1 om] e] eqn:D.
  destruct (R_db_schema _ _ _ _ _ _ D) as [G Pm]. pose proof (JP_R _ _ I G) as I1.
  destruct om as [m|]; [destruct e as [x|]|].
  - (* loaded with an error *)
    destruct x; try (inversion H; subst; exact I1).
    destruct (db_schema_notfound _ _ _ _ _ D) as [-> Hn]. destruct (Pm m eq_refl) as [M _]. congruence.
  - (* existing collection *)
    destruct (Pm m eq_refl) as [M S].
    destruct (negb (str_eqb (st_ext (m_set m)) (st_ext st))); [inversion H; subst; exact I1|].
    destruct (negb ((length (m_fields m) =? length fds)%nat && forallb (fun p => fdesc_eqb (fst p) (snd p)) (combine (m_fields m) fds)));
      [inversion H; subst; exact I1|].
    set (fl := async_on m && negb (match st_async st with Some _ => true | None => false end)) in *.
    destruct (if fl then flush_all ls h1 (s_w s) else (h1, None, s_w s)) as [[h2 fe] w0] eqn:Fl.
    assert (G2 : R h1 h2 /\ (fl = true -> h_pend h2 = [])).
    { destruct fl; [split; [apply (R_flush_all _ _ _ _ _ _ Fl)|intros _; apply (flush_all_pend _ _ _ _ _ _ Fl)]|].
      inversion Fl; subst. split; [apply R_refl|discriminate]. }
    destruct G2 as [G2 Pe]. pose proof (JP_R _ _ I1 G2) as [J2 P2].
    destruct fe as [x|]; [inversion H; subst; split; assumption|].
    match type of H with context [save_schema w0 ?mm] => set (m1 := mm) in * end.
    destruct (save_schema w0 m1) as [e1 w1]. inversion H; subst s1 r. cbn [mk s_h].
    assert (V : forall hh, hh = h2 \/ hh = set_cache h2 [] ->
                h_fl (set_mem hh (Some m1)) = h_fl h2 /\ h_cancel (set_mem hh (Some m1)) = h_cancel h2 /\
                h_pend (set_mem hh (Some m1)) = h_pend h2 /\ h_mem (set_mem hh (Some m1)) = Some m1).
    { intros hh [->| ->]; cbn; auto. }
    destruct (V (if must_cache m1 then h2 else set_cache h2 [])) as [Vf [Vc [Vp Vm]]]; [destruct (must_cache m1); auto|].
    (* the loaded schema of h2 is m up to its index *)
    assert (M2 : exists m2, h_mem h2 = Some m2 /\ st_async (m_set m2) = st_async (m_set m)).
    { destruct G2 as [_ [x [_ Mx]] _]. rewrite M in Mx. destruct (h_mem h2) as [m2|]; [|destruct Mx].
      exists m2. split; [reflexivity|]. apply Mx. }
    destruct M2 as [m2 [E2 A2]].
    split.
    + intros Hc mm Em Am Hor. rewrite Vm in Em. inversion Em; subst mm. rewrite Vf. rewrite Vc in Hc. rewrite Vp in Hor.
      assert (Sf : m_started m1 = false).
      { unfold m1. cbn [m_started]. unfold async_on, m1 in Am. cbn [m_set st_async] in Am. destruct (st_async st); [reflexivity|discriminate]. }
      destruct Hor as [X|Hp]; [congruence|].
      destruct (P2 Hp) as [m3 [E3 A3]]. apply (J2 Hc m3 E3 A3). right. exact Hp.
    + intros Hp. rewrite Vp in Hp. exists m1. split; [exact Vm|].
      destruct (P2 Hp) as [m3 [E3 A3]]. rewrite E2 in E3. inversion E3; subst m3.
      assert (Am : async_on m = true) by (unfold async_on in *; rewrite <- A2; exact A3).
      unfold async_on, m1. cbn [m_set st_async]. destruct (st_async st) eqn:Es; [reflexivity|].
      exfalso. apply Hp. apply Pe. unfold fl. rewrite Am. reflexivity.
  - (* no schema loaded *)
    destruct e as [x|]; [|inversion H; subst; exact I1].
    destruct x; try (inversion H; subst; exact I1).
    destruct (db_schema_notfound _ _ _ _ _ D) as [-> Hn].
    destruct (fs_mkdir (s_w s)) as [ok w1]. destruct (negb ok); [inversion H; subst; exact I1|].
    match type of H with context [control_mem ls ?mm] => set (m := mm) in * end.
    destruct (match d_schema (w_disk w1) with
              | Some _ => (None, w1)
              | None => let (ok2, w2) := fs_write_schema w1 (sfile_of m) in ((if ok2 then None else Some EStorage), w2)
              end) as [e2 w2] eqn:Ew.
    destruct e2; [inversion H; subst; exact I1|].
    destruct (control_mem ls m (w_disk w2)); inversion H; subst; [exact I1|]. cbn [mk s_h].
    destruct I1 as [J1 P1]. split.
    + intros Hc mm Em Am [X|Hp]; cbn [set_mem h_mem h_pend h_fl h_cancel] in *.
      * inversion Em; subst mm. discriminate X.
      * destruct (P1 Hp) as [m3 [E3 _]]. congruence.
    + intros Hp. cbn [set_mem h_pend] in Hp. destruct (P1 Hp) as [m3 [E3 _]]. congruence.
Qed.

Lemma JP_cancel h : JP h -> JP (set_cancel h).
Proof. intros [J P]. split; [intros Hc; discriminate Hc|exact P]. Qed.

Lemma JP_cancelled h h' : PA h -> h_cancel h = true -> R h h' -> JP h'.
Proof.
  intros P C G. split; [|apply (PA_R h h' P G)]. destruct G as [C' _ _]. intros Hc. congruence.
Qed.

(* operations that only touch the world (fault arming, outside modifications of the directory) *)
Definition world_op (o : op) : Prop :=
  match o with
  | OFailAt _ | OCrashAt _ | XRmFile _ | XAddFile _ _ _ | XCorrupt _ | XRmSchema | XRmEntry _ | XStray _ | XStrayUuidDir _
  | XRmFieldEntry _ _ => True
  | _ => False
  end.

Lemma world_op_handle hk ls s o : world_op o -> s_h (fst (step_fg hk ls s o)) = s_h s.
Proof.
  intros W. destruct o; try destruct W; cbn [step_fg]; try reflexivity.
  - destruct (negb (existsb _ _)); reflexivity.
  - destruct (negb (existsb _ _)); reflexivity.
  - destruct (d_schema (w_disk (s_w s))); reflexivity.
  - destruct (d_schema (w_disk (s_w s))) as [[sf|]|]; try reflexivity.
    destruct (uuid_oid (oi_ids (sf_idx sf)) u); reflexivity.
  - destruct (d_schema (w_disk (s_w s))) as [[sf|]|]; try reflexivity.
    destruct (uuid_oid (oi_ids (sf_idx sf)) u); [destruct (nth fld (oi_fx (sf_idx sf)) None)|]; reflexivity.
Qed.

(* the calls the theorem covers *)
Definition fl_op (o : op) : Prop :=
  plain_op o \/ world_op o \/
  match o with OCreate _ _ | OClose | OReopen | ODrop | OTick => True | _ => False end.

Lemma JP_step_fg hk ls s o : fl_op o -> o <> OTick -> JP (s_h s) -> JP (s_h (fst (step_fg hk ls s o))).
Proof.
  intros [P|[W|S]] Nt I.
  - destruct (step_fg hk ls s o) as [s1 r] eqn:H. apply (JP_R _ _ I (R_step_fg _ _ _ _ _ _ P H)).
  - rewrite (world_op_handle hk ls s o W). exact I.
  - destruct o; try destruct S.
    + destruct (step_fg hk ls s (OCreate st fds)) as [s1 r] eqn:H. apply (JP_create _ _ _ _ _ _ _ I H).
    + (* Close *)
      cbn [step_fg]. pose proof (JP_cancel _ I) as [Jc Pc].
      destruct (flush_all ls (set_cancel (s_h s)) (s_w s)) as [[h1 e1] w1] eqn:F.
      pose proof (R_flush_all _ _ _ _ _ _ F) as G1.
      destruct (h_mem h1) as [m1|]; [|apply (JP_cancelled _ _ Pc eq_refl G1)].
      destruct (commit ls h1 w1) as [[h2 e2] w2] eqn:C.
      pose proof (R_trans _ _ _ G1 (R_commit _ _ _ _ _ _ C)) as G2.
      destruct e2; apply (JP_cancelled _ _ Pc eq_refl G2).
    + (* Reopen *) cbn [step_fg fst mk s_h]. apply FJ_new.
    + (* Drop *) cbn [step_fg]. destruct (fs_remove_all (s_w s)). cbn [fst mk s_h]. apply JP_cancel. exact I.
    + congruence.
Qed.

(* ONE STEP (the call, then the goroutines it started; or a tick) keeps the invariant *)
Theorem JP_step hk ls s o : fl_op o -> JP (s_h s) -> JP (s_h (fst (step hk ls s o))).
Proof.
  intros F I. unfold step. destruct o;
    try (pose proof (JP_step_fg hk ls s _ F ltac:(discriminate) I) as I1;
         destruct (step_fg hk ls s _) as [s1 r]; cbn [fst] in I1;
         match goal with |- context [w_dead ?w] => destruct (w_dead w) end; [cbn [fst mk s_h]; apply FJ_new|];
         match goal with |- context [settle ls ?h ?w] => destruct (settle ls h w) as [[h2 w3]|e|] eqn:St end;
         cbn [fst mk s_h]; [destruct I1 as [J1 P1]; apply (FJ_settle _ _ _ _ _ J1 P1 St)|exact I1|exact I1]).
  (* OTick *)
  destruct I as [J P].
  destruct (run_flushers ls (set_fl (s_h s) []) (s_w s) (h_fl (s_h s)) false []) as [[[h1 w1] fl']|e|] eqn:Rn;
    cbn [fst mk s_h]; [apply (FJ_run _ _ _ _ _ _ _ J P Rn)|split; assumption|split; assumption].
Qed.

(* EVERY HISTORY of covered calls from the initial state *)
Theorem flusher_alive hk ls ops : Forall fl_op ops -> JP (s_h (run hk ls init_state ops)).
Proof.
  unfold run. assert (G : forall s, JP (s_h s) -> Forall fl_op ops -> JP (s_h (fold_left (fun st o => fst (step hk ls st o)) ops s))).
  { induction ops as [|o r IH]; intros s I F; [exact I|]. inversion F; subst. cbn [fold_left]. apply IH; [apply JP_step; assumption|assumption]. }
  intros F. apply G; [apply FJ_new|exact F].
Qed.
Print Assumptions flusher_alive.

(* every operation of the model is covered: any history at all, storage faults, crashes and outside
   modifications of the directory included *)
Lemma fl_op_all o : fl_op o.
Proof. destruct o; first [left; exact I|right; left; exact I|right; right; exact I]. Qed.

Theorem flusher_alive_always hk ls ops :
  let h := s_h (run hk ls init_state ops) in
  h_cancel h = false -> forall m, h_mem h = Some m -> async_on m = true ->
  (m_started m = true \/ h_pend h <> []) -> h_fl h <> [].
Proof.
  cbv zeta. destruct (flusher_alive hk ls ops) as [J _]; [|exact J].
  apply Forall_forall. intros o _. apply fl_op_all.
Qed.
Print Assumptions flusher_alive_always.

(* ================================================================ pending writes reach the disk
   within the timeout, with no further call *)
From Sod.Proofs Require Import Refine1 Refine2 Refine3 Refine4.

(* what one tick does to a goroutine that does not flush *)
Definition bump (f : Z * bool) : Z * bool := ((if snd f then fst f else fst f + 1)%Z, false).
(* the counter a goroutine will compare with the timeout at its next wake-up, minus one *)
Definition eff (f : Z * bool) : Z := (if snd f then fst f - 1 else fst f)%Z.

Lemma eff_bump f : eff (bump f) = (eff f + 1)%Z.
Proof. destruct f as [sl [|]]; unfold eff, bump; cbn; lia. Qed.

Definition asy (h : handle) (thr tmo : Z) : Prop :=
  h_cancel h = false /\ exists m, h_mem h = Some m /\ st_async (m_set m) = Some (thr, tmo).

Lemma asy_R h h' thr tmo : asy h thr tmo -> R h h' -> asy h' thr tmo.
Proof.
  intros [C [m [Em Am]]] [C' [x [[F Zx] M]] _]. split; [congruence|]. rewrite Em in M.
  destruct (h_mem h') as [m'|]; [|destruct M]. exists m'. split; [reflexivity|]. destruct M as [A _]. congruence.
Qed.

Lemma flusher_iter_tick ls h w fds a thr tmo sl wake : LState ls h w fds a -> asy h thr tmo ->
  exists h1 w1 s', flusher_iter ls h w sl wake = Ok (h1, w1, Some s') /\ LState ls h1 w1 fds a /\
    (synced_h h w -> synced_h h1 w1) /\
    ((h1 = h /\ w1 = w /\ s' = (if wake then sl + 1 else sl)%Z /\ ((if wake then sl + 1 else sl) <? tmo)%Z = true) \/
     synced_h h1 w1).
Proof.
  intros L [C [m [Em Am]]]. unfold flusher_iter. rewrite Em, Am.
  destruct ((Z.of_nat (length (h_pend h)) >=? thr)%Z || ((if wake then (sl + 1)%Z else sl) >=? tmo)%Z) eqn:Cd.
  - rewrite C. destruct (flush_all_commit_ok ls h w fds a L) as [h2 [w2 [F [L2 [S2 _]]]]]. rewrite F.
    exists h2, w2, 0%Z. split; [reflexivity|]. split; [exact L2|]. split; [intros _; exact S2|right; exact S2].
  - exists h, w, (if wake then (sl + 1)%Z else sl). split; [reflexivity|]. split; [exact L|]. split; [intros X; exact X|].
    left. apply orb_false_iff in Cd. destruct Cd as [_ Cd]. split; [reflexivity|]. split; [reflexivity|]. split; [reflexivity|].
    rewrite Z.geb_leb in Cd. apply Z.leb_gt in Cd. apply Z.ltb_lt. exact Cd.
Qed.

Lemma run_flushers_tick ls fds a thr tmo : forall fl h w acc, LState ls h w fds a -> asy h thr tmo ->
  exists h1 w1 fl', run_flushers ls h w fl false acc = Ok (h1, w1, fl') /\ LState ls h1 w1 fds a /\
    (synced_h h w -> synced_h h1 w1) /\
    ((h1 = h /\ w1 = w /\ fl' = rev acc ++ map bump fl /\ forall f, In f fl -> (eff f + 1 <? tmo)%Z = true) \/
     synced_h h1 w1).
Proof.
  induction fl as [|[sl fresh] r IH]; intros h w acc L A.
  - exists h, w, (rev acc). split; [reflexivity|]. split; [exact L|]. split; [intros X; exact X|].
    left. repeat split; try reflexivity; [rewrite app_nil_r; reflexivity|intros f []].
  - cbn [run_flushers andb].
    destruct (flusher_iter_tick ls h w fds a thr tmo sl (negb fresh) L A) as [h1 [w1 [s' [F [L1 [Sy1 Cs]]]]]]. rewrite F.
    assert (A1 : asy h1 thr tmo).
    { destruct (flusher_iter_R _ _ _ _ _ _ _ _ F) as [G _]. apply (asy_R _ _ _ _ A G). }
    destruct (IH h1 w1 ((s', false) :: acc) L1 A1) as [h2 [w2 [fl' [Rn [L2 [Sy2 Cs2]]]]]].
    exists h2, w2, fl'. split; [exact Rn|]. split; [exact L2|]. split; [intros X; apply Sy2; apply Sy1; exact X|].
    destruct Cs as [[-> [-> [-> Lt]]]|S1]; [|right; apply Sy2; exact S1].
    destruct Cs2 as [[-> [-> [-> Al]]]|S2]; [|right; exact S2].
    left. repeat split; try reflexivity.
    + cbn [rev map]. rewrite <- app_assoc. cbn [app]. unfold bump at 2. cbn [fst snd]. destruct fresh; reflexivity.
    + intros f [<-|Hf]; [|apply Al; exact Hf]. unfold eff. cbn [fst snd]. destruct fresh; cbn [negb] in Lt; [|exact Lt].
      replace (sl - 1 + 1)%Z with sl by lia. exact Lt.
Qed.

Definition ticks hk ls (k : nat) (s : state) : state := run hk ls s (repeat OTick k).

(* one tick: everything is on disk and committed, or every goroutine advanced *)
Lemma tick_progress hk ls s thr tmo : Inv ls s -> asy (s_h s) thr tmo ->
  let s1 := fst (step hk ls s OTick) in
  Inv ls s1 /\ asy (s_h s1) thr tmo /\ abs s1 = abs s /\ (synced_st s -> synced_st s1) /\
  (synced_st s1 \/
   (h_fl (s_h s1) = map bump (h_fl (s_h s)) /\ forall f, In f (h_fl (s_h s)) -> (eff f + 1 <? tmo)%Z = true)).
Proof.
  intros I A. destruct s as [h w]. cbn [s_h s_w] in *. pose proof A as [C [m [Em Am]]].
  pose proof (Inv_LState ls h w m I Em) as L.
  destruct (run_flushers_tick ls _ _ thr tmo (h_fl h) (set_fl h []) w [] (LState_set_fl _ _ _ _ _ [] L))
    as [h1 [w1 [fl' [Rn [L1 [Sy Cs]]]]]]; [split; [exact C|exists m; split; assumption]|].
  cbn zeta. cbn [step]. cbn [mk s_h s_w]. rewrite Rn. cbn [fst].
  destruct (LState_Inv ls _ _ _ _ (LState_set_fl _ _ _ _ _ (fl' ++ h_fl h1) L1)) as [I2 A2].
  destruct (run_flushers_R _ _ _ _ _ _ _ _ _ Rn) as [G _].
  split; [exact I2|]. split.
  { destruct (asy_R (set_fl h []) h1 thr tmo) as [C1 X1]; [split; [exact C|exists m; split; assumption]|exact G|].
    split; [exact C1|exact X1]. }
  split; [rewrite A2; unfold abs; cbn [mk s_h s_w]; rewrite Em; reflexivity|].
  split; [exact Sy|].
  destruct Cs as [[-> [-> [-> Al]]]|S1]; [right|left; exact S1].
  cbn [mk s_h set_fl h_fl rev app]. rewrite app_nil_r. split; [reflexivity|exact Al].
Qed.

Lemma ticks_S hk ls k s : ticks hk ls (S k) s = ticks hk ls k (fst (step hk ls s OTick)).
Proof. reflexivity. Qed.

(* PENDING WRITES REACH THE DISK WITHOUT FURTHER CALLS ONCE THE TIMEOUT ELAPSES: from any state of
   the invariant with asynchronous writes enabled and a live goroutine whose counter is [eff f],
   after any k > tmo - eff f - 1 ticks nothing is pending and the schema is committed. *)
Theorem flushed_within_timeout hk ls : forall k s thr tmo f,
  Inv ls s -> asy (s_h s) thr tmo -> In f (h_fl (s_h s)) -> (tmo - eff f - 1 < Z.of_nat (S k))%Z ->
  synced_st (ticks hk ls (S k) s) /\ Inv ls (ticks hk ls (S k) s) /\ abs (ticks hk ls (S k) s) = abs s.
Proof.
  assert (Keep : forall k s thr tmo, Inv ls s -> asy (s_h s) thr tmo -> synced_st s ->
                 synced_st (ticks hk ls k s) /\ Inv ls (ticks hk ls k s) /\ abs (ticks hk ls k s) = abs s).
  { induction k as [|k IH]; intros s thr tmo I A S; [split; [exact S|split; [exact I|reflexivity]]|].
    rewrite ticks_S. destruct (tick_progress hk ls s thr tmo I A) as [I1 [A1 [Ab [Sy _]]]].
    destruct (IH _ thr tmo I1 A1 (Sy S)) as [X [Y Z]]. split; [exact X|split; [exact Y|congruence]]. }
  induction k as [|k IH]; intros s thr tmo f I A Hf Hk; rewrite ticks_S;
    destruct (tick_progress hk ls s thr tmo I A) as [I1 [A1 [Ab [Sy Cs]]]];
    (destruct Cs as [S1|[Fl Al]]; [match goal with |- context [ticks hk ls ?kk _] => destruct (Keep kk _ thr tmo I1 A1 S1) as [X [Y Z]] end; split; [exact X|split; [exact Y|congruence]]|]).
  - exfalso. specialize (Al f Hf). apply Z.ltb_lt in Al. lia.
  - assert (Hb : In (bump f) (h_fl (s_h (fst (step hk ls s OTick))))) by (rewrite Fl; apply in_map; exact Hf).
    destruct (IH _ thr tmo (bump f) I1 A1 Hb) as [X [Y Z]]; [rewrite eff_bump; lia|].
    split; [exact X|split; [exact Y|congruence]].
Qed.
Print Assumptions flushed_within_timeout.

(* TOGETHER (C10): in every state reached by covered calls on a handle that was not closed, a pending
   write has a goroutine (flusher_alive), hence reaches the disk after finitely many ticks *)
Corollary pending_is_flushed hk ls s thr tmo : Inv ls s -> JP (s_h s) -> asy (s_h s) thr tmo ->
  h_pend (s_h s) <> [] ->
  exists k, synced_st (ticks hk ls k s) /\ abs (ticks hk ls k s) = abs s.
Proof.
  intros I [J P] A Hp. pose proof A as [C [m [Em Am]]].
  assert (Nf : h_fl (s_h s) <> []).
  { apply (J C m Em); [unfold async_on; rewrite Am; reflexivity|right; exact Hp]. }
  destruct (h_fl (s_h s)) as [|f r] eqn:Ef; [congruence|].
  exists (S (Z.to_nat (tmo - eff f))).
  destruct (flushed_within_timeout hk ls (Z.to_nat (tmo - eff f)) s thr tmo f I A) as [X [_ Z]];
    [rewrite Ef; left; reflexivity|lia|]. split; assumption.
Qed.
Print Assumptions pending_is_flushed.


(* non-vacuity: an asynchronous collection (threshold 10, timeout 5) after one accepted write: the
   hypotheses of the theorems hold (covered history, a write pending, a goroutine parked), and six
   ticks later nothing is pending *)
From Sod.Proofs Require Import DBStruct1.
Example flusher_example :
  let ops := [OCreate st_asy [fd_u]; OInsert 0 2 (ob 6)] in
  let s := run hk0 7%N init_state ops in
  Forall fl_op ops /\ asy (s_h s) 10%Z 5%Z /\ h_pend (s_h s) = [(2%N, ob 6)] /\ h_fl (s_h s) = [(0%Z, false)] /\
  h_pend (s_h (ticks hk0 7%N 5 s)) = [].
Proof.
  cbv zeta. split; [|split; [|split; [|split]]].
  - constructor; [right; right; exact I|constructor; [left; exact I|constructor]].
  - split; [vm_lhs|]. eexists. split; vm_lhs.
  - vm_lhs.
  - vm_lhs.
  - vm_lhs.
Qed.

(* ================================================================ counters are never negative, hence the
   bound in its usual form: within timeout + 1 ticks *)
Definition zero_new (x : list (Z * bool)) : Prop := Forall (fun f => f = (0%Z, true)) x.
Definition fl_ext (h h' : handle) : Prop := exists x, h_fl h' = h_fl h ++ x /\ zero_new x.
Definition NN (h : handle) : Prop := Forall (fun f : Z * bool => (0 <= fst f)%Z) (h_fl h).

Lemma R_fl_ext h h' : R h h' -> fl_ext h h'.
Proof. intros [_ [x [[F Zx] _]] _]. exists x. split; assumption. Qed.

Lemma fl_ext_refl h : fl_ext h h.
Proof. exists []. rewrite app_nil_r. split; [reflexivity|constructor]. Qed.

Lemma NN_ext h h' : NN h -> fl_ext h h' -> NN h'.
Proof.
  intros N [x [F Zx]]. unfold NN. rewrite F. apply Forall_app. split; [exact N|].
  eapply Forall_impl; [|exact Zx]. intros f ->. cbn. lia.
Qed.

Lemma fl_ext_same h h' : h_fl h' = h_fl h -> fl_ext h h'.
Proof. intros E. exists []. rewrite app_nil_r. split; [exact E|constructor]. Qed.

Lemma fl_ext_trans a b c : fl_ext a b -> fl_ext b c -> fl_ext a c.
Proof.
  intros [x [F1 Z1]] [y [F2 Z2]]. exists (x ++ y). split; [rewrite F2, F1, app_assoc; reflexivity|apply Forall_app; split; assumption].
Qed.

Lemma create_fl_ext hk ls s st fds : fl_ext (s_h s) (s_h (fst (step_fg hk ls s (OCreate st fds)))).
Proof.
  cbn [step_fg].
  destruct (db_schema ls (s_h s) (w_disk (s_w s))) as [[h1 om] e] eqn:D.
  destruct (R_db_schema _ _ _ _ _ _ D) as [G _]. pose proof (R_fl_ext _ _ G) as G1.
  destruct om as [m|]; [destruct e as [x|]|].
  - destruct x; cbn [fst mk s_h]; try exact G1.
    destruct (fs_mkdir (s_w s)) as [ok w1]. destruct (negb ok); cbn [fst mk s_h]; [exact G1|].
    match goal with |- context [control_mem ls ?mm] => set (m0 := mm) end.
    destruct (match d_schema (w_disk w1) with
              | Some _ => (None, w1)
              | None => let (ok2, w2) := fs_write_schema w1 (sfile_of m0) in ((if ok2 then None else Some EStorage), w2)
              end) as [e2 w2].
    destruct e2; cbn [fst mk s_h]; [exact G1|].
    destruct (control_mem ls m0 (w_disk w2)); cbn [fst mk s_h]; exact G1.
  - destruct (negb (str_eqb (st_ext (m_set m)) (st_ext st))); cbn [fst mk s_h]; [exact G1|].
    destruct (negb ((length (m_fields m) =? length fds)%nat && forallb (fun p => fdesc_eqb (fst p) (snd p)) (combine (m_fields m) fds)));
      cbn [fst mk s_h]; [exact G1|].
    destruct (if async_on m && negb (match st_async st with Some _ => true | None => false end)
              then flush_all ls h1 (s_w s) else (h1, None, s_w s)) as [[h2 fe] w0] eqn:Fl.
    assert (G2 : fl_ext (s_h s) h2).
    { destruct (async_on m && negb (match st_async st with Some _ => true | None => false end)).
      - eapply fl_ext_trans; [exact G1|apply R_fl_ext; apply (R_flush_all _ _ _ _ _ _ Fl)].
      - inversion Fl; subst. exact G1. }
    destruct fe as [x|]; cbn [fst mk s_h]; [exact G2|].
    match goal with |- context [save_schema w0 ?mm] => set (m1 := mm) end.
    destruct (save_schema w0 m1) as [e1 w1]. cbn [fst mk s_h].
    destruct (must_cache m1); cbn [set_mem set_cache h_fl]; (eapply fl_ext_trans; [exact G2|apply fl_ext_same; reflexivity]).
  - destruct e as [x|]; cbn [fst mk s_h]; [|exact G1].
    destruct x; cbn [fst mk s_h]; try exact G1.
    destruct (fs_mkdir (s_w s)) as [ok w1]. destruct (negb ok); cbn [fst mk s_h]; [exact G1|].
    match goal with |- context [control_mem ls ?mm] => set (m0 := mm) end.
    destruct (match d_schema (w_disk w1) with
              | Some _ => (None, w1)
              | None => let (ok2, w2) := fs_write_schema w1 (sfile_of m0) in ((if ok2 then None else Some EStorage), w2)
              end) as [e2 w2].
    destruct e2; cbn [fst mk s_h]; [exact G1|].
    destruct (control_mem ls m0 (w_disk w2)); cbn [fst mk s_h]; [exact G1|].
    eapply fl_ext_trans; [exact G1|apply fl_ext_same; reflexivity].
Qed.

Lemma step_fg_fl hk ls s o : o <> OTick -> o <> OReopen ->
  fl_ext (s_h s) (s_h (fst (step_fg hk ls s o))).
Proof.
  intros Nt Nr. destruct (fl_op_all o) as [P|[W|S]].
  - destruct (step_fg hk ls s o) as [s1 r] eqn:H. apply R_fl_ext. apply (R_step_fg _ _ _ _ _ _ P H).
  - rewrite (world_op_handle hk ls s o W). apply fl_ext_refl.
  - destruct o; try destruct S; try congruence.
    + apply create_fl_ext.
    + (* Close *)
      cbn [step_fg].
      destruct (flush_all ls (set_cancel (s_h s)) (s_w s)) as [[h1 e1] w1] eqn:F.
      pose proof (R_fl_ext _ _ (R_flush_all _ _ _ _ _ _ F)) as G1. cbn [set_cancel h_fl] in G1.
      assert (G1' : fl_ext (s_h s) h1) by (destruct G1 as [x [E Z]]; exists x; split; assumption).
      destruct (h_mem h1) as [m1|]; [|exact G1'].
      destruct (commit ls h1 w1) as [[h2 e2] w2] eqn:C.
      pose proof (fl_ext_trans _ _ _ G1' (R_fl_ext _ _ (R_commit _ _ _ _ _ _ C))) as G2.
      destruct e2; exact G2.
    + (* Drop *) cbn [step_fg]. destruct (fs_remove_all (s_w s)). cbn [fst mk s_h]. apply fl_ext_same. reflexivity.
Qed.

Lemma flusher_iter_nn ls h w sl wake h1 w1 s' : flusher_iter ls h w sl wake = Ok (h1, w1, Some s') ->
  (0 <= sl)%Z -> (0 <= s')%Z.
Proof.
  unfold flusher_iter. destruct (h_mem h) as [m|]; [|discriminate].
  destruct (st_async (m_set m)) as [[thr tmo]|]; [|discriminate].
  destruct (_ || _).
  - destruct (h_cancel h); [discriminate|]. destruct (flush_all_commit ls h w) as [[h2 [e|]] w2]; [discriminate|].
    intros H; inversion H; subst. lia.
  - intros H; inversion H; subst. destruct wake; lia.
Qed.

Lemma run_flushers_nn ls b : forall fl h w acc h1 w1 fl', run_flushers ls h w fl b acc = Ok (h1, w1, fl') ->
  Forall (fun f : Z * bool => (0 <= fst f)%Z) fl -> Forall (fun f : Z * bool => (0 <= fst f)%Z) acc ->
  Forall (fun f : Z * bool => (0 <= fst f)%Z) fl'.
Proof.
  induction fl as [|[sl fresh] r IH]; intros h w acc h1 w1 fl' H Nf Na; cbn [run_flushers] in H.
  - inversion H; subst. apply Forall_rev. exact Na.
  - inversion Nf as [|? ? N0 Nr]; subst. cbn [fst] in N0. destruct (b && negb fresh).
    + eapply IH; [exact H|exact Nr|constructor; [exact N0|exact Na]].
    + destruct (flusher_iter ls h w sl (negb fresh)) as [[[h2 w2] x]|e|] eqn:F; try discriminate.
      destruct x as [s2|].
      * eapply IH; [exact H|exact Nr|]. constructor; [cbn [fst]; apply (flusher_iter_nn _ _ _ _ _ _ _ _ F N0)|exact Na].
      * eapply IH; [exact H|exact Nr|exact Na].
Qed.

Lemma NN_run ls b h w h1 w1 fl' : NN h ->
  run_flushers ls (set_fl h []) w (h_fl h) b [] = Ok (h1, w1, fl') -> NN (set_fl h1 (fl' ++ h_fl h1)).
Proof.
  intros N H. unfold NN. cbn [set_fl h_fl]. apply Forall_app. split.
  - apply (run_flushers_nn _ _ _ _ _ _ _ _ _ H N). constructor.
  - destruct (run_flushers_R _ _ _ _ _ _ _ _ _ H) as [G _]. destruct (R_fl_ext _ _ G) as [x [F Zx]].
    cbn [set_fl h_fl app] in F. rewrite F. eapply Forall_impl; [|exact Zx]. intros f ->. cbn. lia.
Qed.

Lemma step_fg_NN hk ls s o : o <> OTick -> NN (s_h s) -> NN (s_h (fst (step_fg hk ls s o))).
Proof.
  intros Nt N. destruct o; try (eapply NN_ext; [exact N|apply step_fg_fl; discriminate]).
  - (* Reopen *) cbn [step_fg fst mk s_h]. constructor.
  - congruence.
Qed.

Lemma step_unfold_nontick hk ls s o : o <> OTick ->
  step hk ls s o =
  (let armed := match o with OFailAt _ | OCrashAt _ => true | _ => false end in
   let (s1, r) := step_fg hk ls s o in
   let w1 := s_w s1 in
   let w2 := if armed then w1
             else {| w_disk := w_disk w1; w_fail := None; w_fired := w_fired w1; w_crash := false;
                     w_dead := false; w_log := w_log w1 |} in
   if w_dead w1 then (mk new_handle w2, RCrash) else
   match settle ls (s_h s1) w2 with
   | Ok (h2, w3) => (mk h2 w3, r)
   | Err e => (mk (s_h s1) w2, r)
   | Panic => (mk (s_h s1) w2, RPanic)
   end).
Proof. intros Nt. destruct o; try reflexivity. congruence. Qed.

Theorem NN_step hk ls s o : NN (s_h s) -> NN (s_h (fst (step hk ls s o))).
Proof.
  intros N. destruct (op_eq_tick o) as [->|Nt].
  - unfold step.
    destruct (run_flushers ls (set_fl (s_h s) []) (s_w s) (h_fl (s_h s)) false []) as [[[h1 w1] fl']|e|] eqn:Rn;
      cbn [fst mk s_h]; [apply (NN_run _ _ _ _ _ _ _ N Rn)|exact N|exact N].
  - rewrite (step_unfold_nontick hk ls s o Nt). cbv zeta.
    pose proof (step_fg_NN hk ls s o Nt N) as N1. destruct (step_fg hk ls s o) as [s1 r]. cbn [fst] in N1.
    destruct (w_dead (s_w s1)); [cbn [fst mk s_h]; constructor|].
    match goal with |- context [settle ls ?h ?w] => destruct (settle ls h w) as [[h2 w3]|e|] eqn:St end;
      cbn [fst mk s_h]; [|exact N1|exact N1].
    unfold settle in St. destruct (existsb _ _); [|inversion St; subst; exact N1].
    match type of St with context [run_flushers ?a ?b ?c ?d ?e0 ?f] => destruct (run_flushers a b c d e0 f) as [[[h1 w1] fl]|er|] eqn:Rn end; try discriminate.
    inversion St; subst. apply (NN_run _ _ _ _ _ _ _ N1 Rn).
Qed.

Theorem NN_always hk ls ops : NN (s_h (run hk ls init_state ops)).
Proof.
  unfold run. assert (G : forall s, NN (s_h s) -> NN (s_h (fold_left (fun st o => fst (step hk ls st o)) ops s))).
  { induction ops as [|o r IH]; intros s N; [exact N|]. cbn [fold_left]. apply IH. apply NN_step. exact N. }
  apply G. constructor.
Qed.

(* THE BOUND IN ITS USUAL FORM: in a state reached from the initial state (so that counters are not
   negative) where the invariants hold, asynchronous writes enabled with timeout tmo, a write pending:
   after tmo + 1 ticks (one suffices to start a goroutine that has not run yet) nothing is pending, every
   accepted object is in its file and the schema is committed *)
Theorem pending_flushed_within_timeout hk ls s thr tmo :
  Inv ls s -> JP (s_h s) -> NN (s_h s) -> asy (s_h s) thr tmo -> h_pend (s_h s) <> [] ->
  let k := S (Z.to_nat tmo) in
  synced_st (ticks hk ls k s) /\ Inv ls (ticks hk ls k s) /\ abs (ticks hk ls k s) = abs s.
Proof.
  intros I [J P] N A Hp. pose proof A as [C [m [Em Am]]].
  assert (Nf : h_fl (s_h s) <> []).
  { apply (J C m Em); [unfold async_on; rewrite Am; reflexivity|right; exact Hp]. }
  destruct (h_fl (s_h s)) as [|f r] eqn:Ef; [congruence|].
  assert (Ef0 : (-1 <= eff f)%Z).
  { unfold NN in N. rewrite Ef in N. inversion N as [|? ? N0 _]; subst. unfold eff. destruct f as [sl [|]]; cbn [fst snd] in *; lia. }
  cbv zeta. apply (flushed_within_timeout hk ls (Z.to_nat tmo) s thr tmo f I A); [rewrite Ef; left; reflexivity|lia].
Qed.
Print Assumptions NN_always.
Print Assumptions pending_flushed_within_timeout.

(* a schema that could not be loaded (missing, unparsable, refused by control for another reason than
   index corruption, structure changed) starts no goroutine and leaves the handle as it was *)
Theorem refused_load_starts_nothing ls h d h' e : db_schema ls h d = (h', None, Some e) -> h' = h.
Proof.
  unfold db_schema. destruct (h_mem h) as [m0|] eqn:Hm.
  - intros H. inversion H.
  - destruct (negb (d_dir d)); [intros H; inversion H; reflexivity|].
    destruct (d_schema d) as [[sf|]|]; try (intros H; inversion H; reflexivity).
    destruct (control_mem ls (mem_of sf) d) as [[]|]; intros H; inversion H; try reflexivity;
      match goal with X : h_mem _ = None |- _ => exfalso; revert X; unfold start_flusher; cbn [set_mem h_mem];
        destruct (async_on (mem_of sf) && negb (m_started (mem_of sf))); cbn; discriminate end.
Qed.
Print Assumptions refused_load_starts_nothing.
