(* C02: every field path that FieldDescriptors lists for a struct type is found by the walk a search makes in
   ANY object of that type (nested structs, pointers, NIL pointers), and what it finds can be read by the API.
   Bridges Model/Descr.v (types, descriptors) and Model/Path.v (values, the walk). *)
From Coq Require Import List NArith Bool Lia Arith.
Import ListNotations.
From Sod.Model Require Import Descr Path.
From Sod.Proofs Require Import DescrProofs PathProofs.

Definition fname (f : fld) : str := fst (fst (fst f)).
Definition fexp (f : fld) : bool := snd (fst (fst f)).

(* a value tree of a type: names, exported flags, and the zero value carried by a nil pointer are the type's *)
Inductive has_pty : pval -> gty -> Prop :=
| hp_leaf n x : has_pty (PLeaf n x) (TLeaf n)
| hp_nil n z e : has_pty z e -> has_pty (PNil n z) (TPtr n e)
| hp_ptr n v e : has_pty v e -> has_pty (PPtr n v) (TPtr n e)
| hp_struct n b vfs tfs :
    Forall2 (fun (vf : str * (bool * pval)) (tf : fld) =>
               fst vf = fname tf /\ fst (snd vf) = fexp tf /\ has_pty (snd (snd vf)) (snd tf)) vfs tfs ->
    has_pty (PStruct n vfs) (TStruct n b tfs).

(* no pointer to a pointer anywhere in the type (see DESIGN.md: a non-nil pointer to a nil pointer is
   dereferenced into the invalid Value, the path is then reported unknown) *)
Inductive ppfree : gty -> Prop :=
| pf_leaf n : ppfree (TLeaf n)
| pf_ptr n e : (forall m x, e <> TPtr m x) -> ppfree e -> ppfree (TPtr n e)
| pf_struct n b fs : (forall f, In f fs -> ppfree (snd f)) -> ppfree (TStruct n b fs).

Lemma pfield_typed : forall vfs tfs name ex tag ft,
  Forall2 (fun (vf : str * (bool * pval)) (tf : fld) =>
             fst vf = fname tf /\ fst (snd vf) = fexp tf /\ has_pty (snd (snd vf)) (snd tf)) vfs tfs ->
  NoDup (map fname tfs) ->
  In (name, ex, tag, ft) tfs ->
  exists out, pfield name vfs = Some (ex, out) /\ has_pty out ft.
Proof.
  intros vfs tfs name ex tag ft F. induction F as [|[vn [ve vv]] tf vfs tfs [Hn [He Ht]] F IH]; intros Nd Hi; [destruct Hi|].
  cbn [fst snd] in Hn, He, Ht. cbn [map] in Nd. inversion Nd as [|? ? Hx Nd']; subst.
  cbn [pfield]. destruct Hi as [->|Hi].
  - unfold fname, fexp. cbn [fst snd]. rewrite str_eqb_refl. exists vv. split; [reflexivity|exact Ht].
  - destruct (str_eqb name (fname tf)) eqn:E.
    + apply str_eqb_eq in E. exfalso. apply Hx. apply in_map_iff. exists (name, ex, tag, ft). split; [exact E|exact Hi].
    + apply IH; assumption.
Qed.

(* the struct value a type leads to: the value itself for a struct type, the pointee for a pointer to a struct *)
Definition struct_below (t : gty) (s : pval) : Prop :=
  match t with
  | TStruct _ _ _ => has_pty s t
  | TPtr _ (TStruct _ _ _ as e) => has_pty s e
  | _ => False
  end.

Lemma has_pty_struct s n b fs : has_pty s (TStruct n b fs) -> exists vfs, s = PStruct n vfs.
Proof. intros H; inversion H; eauto. Qed.

Theorem described_path_is_exported_path : forall t, wf_ty t -> ppfree t ->
  forall path d, In d (rec_fds t path) -> forall s, struct_below t s ->
  exists names tgt, names <> [] /\ Forall good_name names /\ fd_path d = joins path names /\ xpath s names tgt.
Proof.
  induction t as [tn|tn e IH|tn tb fs IH] using gty_ind'; intros W PF path d Hd s SB; [destruct SB| |].
  - cbn [struct_below] in SB. destruct e as [ln|pn pe|sn sb sfs]; [destruct SB|destruct SB|]. rewrite rec_fds_ptr in Hd.
    inversion W as [|? ? We|]; subst. inversion PF as [|? ? _ PFe|]; subst. apply (IH We PFe path d Hd s SB).
  - cbn [struct_below] in SB. inversion SB as [| | |? ? vfs ? F]; subst.
    rewrite rec_fds_struct in Hd. apply in_flat_map in Hd. destruct Hd as [[[[name ex] tag] ft] [Hf Hd]].
    rewrite Forall_forall in IH. pose proof (IH _ Hf) as IHf. cbn [snd] in IHf. clear IH.
    inversion W as [| |? ? ? Hnd Hall]; subst. destruct (Hall _ Hf) as [G Wf]. cbn [fst snd] in G, Wf.
    inversion PF as [| |? ? ? PFall]; subst. pose proof (PFall _ Hf) as PFf. cbn [snd] in PFf.
    cbn [field_fds] in Hd. destruct ex; cbn [negb] in Hd; [|destruct Hd].
    destruct (pfield_typed vfs fs name true tag ft F Hnd Hf) as [out [Eo To]].
    destruct ft as [ln|pn pe|sn [|] sfs].
    + destruct Hd as [<-|[]]. inversion To; subst.
      exists [name], (PLeaf ln x). split; [discriminate|]. split; [constructor; [exact G|constructor]|]. split; [reflexivity|].
      eapply xp_last; [exact Eo|reflexivity].
    + rewrite rec_fds_ptr in Hd. inversion PFf as [|? ? Hnp PFe|]; subst. destruct pe as [ln|qn qe|qn qb qfs].
      * destruct Hd as [<-|[]].
        inversion To as [|? z ? Tz|? v ? Tv|]; subst.
        -- inversion Tz; subst. exists [name], (PLeaf ln x). split; [discriminate|]. split; [constructor; [exact G|constructor]|].
           split; [reflexivity|]. eapply xp_last; [exact Eo|reflexivity].
        -- inversion Tv; subst. exists [name], (PLeaf ln x). split; [discriminate|]. split; [constructor; [exact G|constructor]|].
           split; [reflexivity|]. eapply xp_last; [exact Eo|reflexivity].
      * exfalso. apply (Hnp qn qe). reflexivity.
      * inversion Wf; subst.
        assert (exists sv, below out = Some sv /\ has_pty sv (TStruct qn qb qfs)) as [sv [Bs Ts]].
        { inversion To as [|? z ? Tz|? v ? Tv|]; subst.
          - destruct (has_pty_struct _ _ _ _ Tz) as [zf ->]. exists (PStruct qn zf). split; [reflexivity|exact Tz].
          - destruct (has_pty_struct _ _ _ _ Tv) as [zf ->]. exists (PStruct qn zf). split; [reflexivity|exact Tv]. }
        destruct (IHf Wf PFf (join_path path name) d) with (s := sv) as [names [tgt [N1 [N2 [N3 N4]]]]];
          [rewrite rec_fds_ptr; exact Hd|exact Ts|].
        destruct names as [|g rest]; [congruence|].
        exists (name :: g :: rest), tgt. split; [discriminate|]. split; [constructor; assumption|]. split; [exact N3|].
        eapply xp_step; [exact Eo|exact Bs|exact N4].
    + destruct Hd as [<-|[]]. destruct (has_pty_struct _ _ _ _ To) as [zf ->].
      exists [name], (PStruct sn zf). split; [discriminate|]. split; [constructor; [exact G|constructor]|]. split; [reflexivity|].
      eapply xp_last; [exact Eo|reflexivity].
    + destruct (has_pty_struct _ _ _ _ To) as [zf ->].
      destruct (IHf Wf PFf (join_path path name) d Hd (PStruct sn zf) To) as [names [tgt [N1 [N2 [N3 N4]]]]].
      destruct names as [|g rest]; [congruence|].
      exists (name :: g :: rest), tgt. split; [discriminate|]. split; [constructor; assumption|]. split; [exact N3|].
      eapply xp_step; [exact Eo|reflexivity|exact N4].
Qed.
Print Assumptions described_path_is_exported_path.

(* TOGETHER: Search(o, p, ...) finds the field for every described path p of the type of o, whatever o holds *)
Theorem described_field_found_by_search n b fs tp s d :
  wf_ty (TStruct n b fs) -> ppfree (TStruct n b fs) -> has_pty s (TStruct n b fs) ->
  In d (rec_fds (TStruct n b fs) []) ->
  exists bound tgt, forall fuel, bound < fuel ->
    field_by_name fuel (PPtr tp s) (split_on dot (fd_path d)) = Some tgt.
Proof.
  intros W PF HT Hd.
  destruct (described_path_is_exported_path _ W PF [] d Hd s HT) as [names [tgt [N1 [N2 [N3 N4]]]]].
  exists (2 * length names), tgt. intros fuel Hf.
  rewrite N3, (path_text_splits_back names N1 N2). apply exported_path_resolves; assumption.
Qed.
Print Assumptions described_field_found_by_search.

(* non-vacuity: a struct with a scalar and a pointer to a nested struct; the object holds a NIL pointer *)
Definition xA : str := [65]%N.  Definition xN : str := [78]%N.  Definition xX : str := [88]%N.
Definition tS : gty := TStruct [83]%N false [(xX, true, [], TLeaf [115]%N)].
Definition tT : gty := TStruct [84]%N false [(xA, true, [], TLeaf [115]%N); (xN, true, [], TPtr [42]%N tS)].
Definition vT : pval :=
  PStruct [84]%N [(xA, (true, PLeaf [115]%N 1%N)); (xN, (true, PNil [42]%N (PStruct [83]%N [(xX, (true, PLeaf [115]%N 0%N))])))].

Lemma good1 c : c <> dot -> good_name [c].
Proof. intros H. split; [discriminate|]. intros [E|[]]. apply H. congruence. Qed.

Example described_found_example :
  wf_ty tT /\ ppfree tT /\ has_pty vT tT /\
  map fd_path (rec_fds tT []) = [xA; xN ++ dot :: xX] /\
  field_by_name 16 (PPtr [42]%N vT) (split_on dot (xN ++ dot :: xX)) = Some (PLeaf [115]%N 0%N).
Proof.
  assert (WS : wf_ty tS).
  { constructor; [repeat constructor; intros []|]. intros f [<-|[]]. cbn. split; [apply good1; discriminate|constructor]. }
  assert (PS : ppfree tS).
  { constructor. intros f [<-|[]]. constructor. }
  split; [|split; [|split; [|split]]].
  - constructor.
    + cbn. constructor; [intros [E|[]]; discriminate E|]. constructor; [intros []|constructor].
    + intros f [<-|[<-|[]]]; cbn; (split; [apply good1; discriminate|]); [constructor|constructor; exact WS].
  - constructor. intros f [<-|[<-|[]]]; cbn; [constructor|]. constructor; [intros m x E; discriminate E|exact PS].
  - unfold vT, tT. constructor. constructor; [cbn; repeat split; constructor|].
    constructor; [|constructor]. cbn. repeat split. constructor. unfold tS. constructor.
    constructor; [cbn; repeat split; constructor|constructor].
  - vm_compute. reflexivity.
  - vm_compute. reflexivity.
Qed.
