(* Proofs/Refine5.v: C01, part 5: corollaries of the refinement theorem, a finding
   (Control during a pending asynchronous write), and two concrete histories. *)
From Coq Require Import List ZArith NArith Bool Lia Arith Permutation.
Import ListNotations.
From Sod.Model Require Import Base FieldIndex ObjIndex DB Instance.
From Sod.Proofs Require Import FIProofs1 FIProofs2 FIProofs3 FIProofs4 FIProofs5 KeyOrder SearchSpec
     OIProofs OIProofs2 DBBasic Refine1 Refine2 Refine3 Refine4.
Close Scope Z_scope.

(* ================================================================ the map is a map *)

Theorem abs_keys_nodup ls s sp : Inv ls s -> abs s = Some sp -> NoDup (map fst (sp_map sp)).
Proof.
  intros [_ I] Ha. unfold abs in Ha. destruct (h_mem (s_h s)) as [m|].
  - inversion Ha; subst. cbn [sp_map]. destruct I as [IC _]. apply (abs_nodup _ _ _ _ _ IC).
  - destruct I as [_ [_ [_ DK]]]. destruct DK as [[_ [Hs _]]|[sf [Hs IC]]]; rewrite Hs in Ha; [discriminate|].
    inversion Ha; subst. cbn [sp_map]. apply (abs_nodup _ _ _ _ _ IC).
Qed.

(* every binding of the map is readable and nothing else is *)
Theorem C01_get_is_lookup hk ls s sp u : Inv ls s -> abs s = Some sp ->
  snd (step hk ls s (OGet u)) =
    match assoc u (sp_map sp) with Some ob => RObj (Ok (u, ob)) | None => RObj (Err ENotFound) end /\
  abs (fst (step hk ls s (OGet u))) = abs s.
Proof.
  intros I Ha. destruct (C01_refines hk ls s (OGet u) I Logic.I) as [_ [A R]]. rewrite Ha in *.
  cbn [spec_step fst snd] in *. split; assumption.
Qed.

(* ================================================================ absent_lookup_always_fails *)

(* D1 of the pinned tree (second Get of an absent id succeeds with a zero object when the cache is
   on) is excluded for the modelled code in EVERY configuration: any number of consecutive
   lookups of an absent uuid fail with ENotFound and change nothing *)
Theorem absent_lookup_always_fails hk ls u n : forall s, Inv ls s ->
  (forall sp, abs s = Some sp -> assoc u (sp_map sp) = None) ->
  run_out hk ls s (repeat (OGet u) n) = repeat (RObj (Err ENotFound)) n /\
  abs (run hk ls s (repeat (OGet u) n)) = abs s /\
  Inv ls (run hk ls s (repeat (OGet u) n)).
Proof.
  induction n as [|n IH]; intros s I Hab.
  - cbn. splits; try reflexivity. exact I.
  - destruct (C01_refines hk ls s (OGet u) I Logic.I) as [I1 [A1 R1]].
    assert (Hsp : spec_step hk (abs s) (OGet u) = (abs s, RObj (Err ENotFound))).
    { destruct (abs s) as [sp|] eqn:Ha; [|reflexivity]. cbn [spec_step]. rewrite (Hab sp eq_refl). reflexivity. }
    rewrite Hsp in A1, R1. cbn [fst snd] in A1, R1.
    destruct (IH (fst (step hk ls s (OGet u))) I1) as [Ro [Ab In]].
    { intros sp Hsp'. apply Hab. rewrite <- A1. exact Hsp'. }
    unfold run in *. cbn [repeat run_out fold_left]. rewrite R1, Ro, Ab, A1. splits; try reflexivity. exact In.
Qed.
Print Assumptions absent_lookup_always_fails.

(* ================================================================ C01_count_is_size *)

Theorem C01_count_is_size hk ls s sp : Inv ls s -> abs s = Some sp ->
  snd (step hk ls s OCount) = RNum (Ok (Z.of_nat (length (sp_map sp)))) /\
  NoDup (map fst (sp_map sp)) /\                       (* ... the number of distinct uuids *)
  abs (fst (step hk ls s OCount)) = abs s.
Proof.
  intros I Ha. destruct (C01_refines hk ls s OCount I Logic.I) as [_ [A R]]. rewrite Ha in *.
  cbn [spec_step fst snd] in *. splits; try assumption. apply (abs_keys_nodup ls s sp I Ha).
Qed.
Print Assumptions C01_count_is_size.

Theorem C01_all_is_bindings hk ls s sp : Inv ls s -> abs s = Some sp ->
  exists l, snd (step hk ls s OAll) = RObjs (Ok l) /\ Permutation l (sp_map sp) /\ l = sp_map sp.
Proof.
  intros I Ha. destruct (C01_refines hk ls s OAll I Logic.I) as [_ [_ R]]. rewrite Ha in *.
  cbn [spec_step fst snd] in *. exists (sp_map sp). splits; try assumption; reflexivity.
Qed.

Theorem C01_exist_is_mem hk ls s sp u : Inv ls s -> abs s = Some sp ->
  snd (step hk ls s (OExist u)) = RBool (Ok (has_key u (sp_map sp))).
Proof.
  intros I Ha. destruct (C01_refines hk ls s (OExist u) I Logic.I) as [_ [_ R]]. rewrite Ha in *. exact R.
Qed.

(* ================================================================ uuid_fresh_and_stable *)

(* an accepted InsertOrUpdate writes exactly the key u' = (fresh if the object is new, else its
   own uuid): the prepared object is bound there, every other binding is untouched; a new object
   with a fresh uuid is appended and shadows nothing *)
Theorem uuid_fresh_and_stable hk ls s u fresh ob sp :
  Inv ls s -> wf_op hk s (OInsert u fresh ob) -> abs s = Some sp ->
  snd (step hk ls s (OInsert u fresh ob)) = RUnit (Ok tt) ->
  let o' := prep hk (sp_fds sp) ob in
  let u' := if N.eqb u 0 then fresh else u in
  exists sp', abs (fst (step hk ls s (OInsert u fresh ob))) = Some sp' /\
    sp_fds sp' = sp_fds sp /\
    sp_map sp' = put u' o' (sp_map sp) /\
    assoc u' (sp_map sp') = Some o' /\
    (forall v, v <> u' -> assoc v (sp_map sp') = assoc v (sp_map sp)) /\
    (u = 0%N -> assoc fresh (sp_map sp) = None -> sp_map sp' = sp_map sp ++ [(fresh, o')]) /\
    (u <> 0%N -> u' = u).
Proof.
  intros I Hwf Ha Hr o' u'. destruct (C01_refines hk ls s (OInsert u fresh ob) I Hwf) as [_ [A R]].
  rewrite Ha in A, R. rewrite R in Hr. cbn [spec_step] in A, Hr. fold o' u' in A, Hr.
  destruct (negb (hk_va hk (o_keys o'))); [discriminate|].
  destruct (negb (forallb serialisable (o_keys o'))); [discriminate|].
  destruct (uniq_conflict (sp_fds sp) (sp_map sp) u' (o_keys o')); [discriminate|].
  cbn [fst] in A. eexists. split; [exact A|]. cbn [sp_fds sp_map]. splits; try reflexivity.
  - apply assoc_put_same.
  - intros v Hv. apply assoc_put_other. congruence.
  - intros Hu Hf. unfold u'. rewrite Hu. cbn [N.eqb]. apply rf_put_notin. exact Hf.
  - intros Hu. unfold u'. destruct (N.eqb u 0) eqn:E; [apply N.eqb_eq in E; congruence|reflexivity].
Qed.
Print Assumptions uuid_fresh_and_stable.

(* a rejected InsertOrUpdate changes nothing (whatever the reason) *)
Theorem C01_rejected_insert_no_change hk ls s u fresh ob e :
  Inv ls s -> wf_op hk s (OInsert u fresh ob) ->
  snd (step hk ls s (OInsert u fresh ob)) = RUnit (Err e) ->
  abs (fst (step hk ls s (OInsert u fresh ob))) = abs s.
Proof.
  intros I Hwf Hr. destruct (C01_refines hk ls s (OInsert u fresh ob) I Hwf) as [_ [A R]].
  rewrite R in Hr. rewrite A. clear A R. destruct (abs s) as [sp|]; [|reflexivity]. cbn [spec_step] in *.
  destruct (negb (hk_va hk _)); [reflexivity|].
  destruct (negb (forallb serialisable _)); [reflexivity|].
  destruct (uniq_conflict _ _ _ _); [reflexivity|]. discriminate.
Qed.

(* read your write *)
Theorem C01_read_your_write hk ls s u fresh ob sp :
  Inv ls s -> wf_op hk s (OInsert u fresh ob) -> abs s = Some sp ->
  snd (step hk ls s (OInsert u fresh ob)) = RUnit (Ok tt) ->
  let u' := if N.eqb u 0 then fresh else u in
  snd (step hk ls (fst (step hk ls s (OInsert u fresh ob))) (OGet u')) =
    RObj (Ok (u', prep hk (sp_fds sp) ob)).
Proof.
  intros I Hwf Ha Hr u'.
  destruct (uuid_fresh_and_stable hk ls s u fresh ob sp I Hwf Ha Hr) as [sp' [A [_ [_ [G _]]]]].
  destruct (C01_refines hk ls s (OInsert u fresh ob) I Hwf) as [I1 _].
  destruct (C01_get_is_lookup hk ls _ sp' u' I1 A) as [R _]. rewrite R. fold u' in G. rewrite G. reflexivity.
Qed.

(* a deleted uuid is gone, at every later lookup *)
Theorem C01_deleted_is_gone hk ls s u n : Inv ls s ->
  run_out hk ls (fst (step hk ls s (ODelete u))) (repeat (OGet u) n) = repeat (RObj (Err ENotFound)) n.
Proof.
  intros I. destruct (C01_refines hk ls s (ODelete u) I Logic.I) as [I1 [A1 _]].
  apply (absent_lookup_always_fails hk ls u n _ I1). intros sp Hsp. rewrite A1 in Hsp.
  destruct (abs s) as [sp0|]; cbn [spec_step fst] in Hsp; [|discriminate].
  inversion Hsp; subst. cbn [sp_map]. apply assoc_remove_same.
Qed.

(* ================================================================ histories: concatenation *)

Lemma run_app hk ls s a b : run hk ls s (a ++ b) = run hk ls (run hk ls s a) b.
Proof. unfold run. apply fold_left_app. Qed.

Lemma wf_hist_app hk ls : forall a s b,
  wf_hist hk ls s (a ++ b) <-> wf_hist hk ls s a /\ wf_hist hk ls (run hk ls s a) b.
Proof.
  induction a as [|o r IH]; intros s b; cbn [app wf_hist].
  - unfold run. cbn. tauto.
  - rewrite IH. unfold run. cbn [fold_left]. tauto.
Qed.

Lemma run_out_app hk ls : forall a s b,
  run_out hk ls s (a ++ b) = run_out hk ls s a ++ run_out hk ls (run hk ls s a) b.
Proof.
  induction a as [|o r IH]; intros s b; cbn [app run_out]; [reflexivity|].
  rewrite IH. unfold run. cbn [fold_left]. reflexivity.
Qed.

(* Close then Reopen is always a well-formed pair *)
Lemma wf_close_reopen hk ls s : Inv ls s -> wf_hist hk ls s [OClose; OReopen].
Proof. intros I. cbn [wf_hist]. splits; try exact Logic.I. apply (close_then_reopen hk ls s I). Qed.

(* ================================================================ examples *)

Definition hk0 : hooks := mk_hooks [] [].
Definition ex_fds : list fdesc :=
  [ {| fd_kind := KdInt; fd_index := false; fd_unique := true; fd_upper := false; fd_lower := false |};
    {| fd_kind := KdStr; fd_index := true; fd_unique := false; fd_upper := false; fd_lower := false |} ].
Definition ex_ob (a : Z) (c : N) : obj := {| o_keys := [KInt a; KStr [c]]; o_rest := 7%N |}.

Definition st_sync : settings :=
  {| st_cache := false; st_async := None; st_compress := false; st_ext := [46; 106]%N |}.
Definition st_async_cache : settings :=
  {| st_cache := true; st_async := Some (2%Z, 5%Z); st_compress := true; st_ext := [46; 106]%N |}.

(* create, two inserts, a rejected unique insert, a get, a delete, a get of the deleted id twice *)
Definition ex_ops (st : settings) : list op :=
  [ OCreate st ex_fds;
    OInsert 0 100 (ex_ob 1 97);
    OInsert 0 101 (ex_ob 2 98);
    OInsert 0 102 (ex_ob 1 99);
    OGet 100;
    ODelete 100;
    OGet 100;
    OGet 100 ].

Definition ex_outs : list out :=
  [ RUnit (Ok tt); RUnit (Ok tt); RUnit (Ok tt); RUnit (Err EUnique);
    RObj (Ok (100%N, ex_ob 1 97)); RUnit (Ok tt); RObj (Err ENotFound); RObj (Err ENotFound) ].

Ltac wf_ins := let sp := fresh "sp" in let H := fresh "H" in
  intros sp H; vm_compute in H; inversion H; subst; reflexivity.

Example ex_sync :
  wf_hist hk0 7%N init_state (ex_ops st_sync) /\
  run_out hk0 7%N init_state (ex_ops st_sync) = ex_outs /\
  snd (spec_run hk0 None (ex_ops st_sync)) = ex_outs /\
  abs (run hk0 7%N init_state (ex_ops st_sync)) =
    Some {| sp_fds := ex_fds; sp_map := [(101%N, ex_ob 2 98)] |}.
Proof.
  split; [|split; [|split]]; try (vm_compute; reflexivity).
  cbn [ex_ops wf_hist]. splits; try exact Logic.I; try reflexivity; wf_ins.
Qed.

Example ex_async_cache :
  wf_hist hk0 7%N init_state (ex_ops st_async_cache) /\
  run_out hk0 7%N init_state (ex_ops st_async_cache) = ex_outs /\
  snd (spec_run hk0 None (ex_ops st_async_cache)) = ex_outs /\
  abs (run hk0 7%N init_state (ex_ops st_async_cache)) =
    Some {| sp_fds := ex_fds; sp_map := [(101%N, ex_ob 2 98)] |}.
Proof.
  split; [|split; [|split]]; try (vm_compute; reflexivity).
  cbn [ex_ops wf_hist]. splits; try exact Logic.I; try reflexivity; wf_ins.
Qed.

(* the asynchronous history continued: a tick (the threshold is reached: the flusher writes the
   two files and commits), an update of an identified object, count, all, close, reopen, reads *)
Definition ex_ops2 : list op :=
  [ OCreate st_async_cache ex_fds;
    OInsert 0 100 (ex_ob 1 97);
    OInsert 0 101 (ex_ob 2 98);
    OTick;
    OInsert 101 999 (ex_ob 3 99);
    OCount;
    OExist 101;
    OAll ].
Definition ex_tail : list op := [ OGet 101; OGet 100; OControl; OCount ].

Definition ex_outs2 : list out :=
  [ RUnit (Ok tt); RUnit (Ok tt); RUnit (Ok tt); RUnit (Ok tt); RUnit (Ok tt);
    RNum (Ok 2%Z); RBool (Ok true); RObjs (Ok [(100%N, ex_ob 1 97); (101%N, ex_ob 3 99)]) ].
Definition ex_outs_tail : list out :=
  [ RObj (Ok (101%N, ex_ob 3 99)); RObj (Ok (100%N, ex_ob 1 97)); RUnit (Ok tt); RNum (Ok 2%Z) ].

Example ex_async_reopen :
  wf_hist hk0 7%N init_state (ex_ops2 ++ [OClose; OReopen] ++ ex_tail) /\
  run_out hk0 7%N init_state (ex_ops2 ++ [OClose; OReopen] ++ ex_tail) =
    ex_outs2 ++ [RUnit (Ok tt); RUnit (Ok tt)] ++ ex_outs_tail.
Proof.
  assert (W1 : wf_hist hk0 7%N init_state ex_ops2).
  { cbn [ex_ops2 wf_hist]. splits; try exact Logic.I; try reflexivity; wf_ins. }
  destruct (C01_from_init hk0 7%N ex_ops2 W1) as [I1 _].
  pose proof (wf_close_reopen hk0 7%N _ I1) as W2.
  assert (W12 : wf_hist hk0 7%N init_state (ex_ops2 ++ [OClose; OReopen])) by (apply wf_hist_app; split; assumption).
  destruct (C01_from_init hk0 7%N _ W12) as [I2 _].
  split; [|vm_compute; reflexivity].
  rewrite app_assoc. apply wf_hist_app. split; [exact W12|].
  cbn [ex_tail wf_hist]. splits; try exact Logic.I. vm_compute. reflexivity.
Qed.

(* ================================================================ a finding *)

(* FINDING (asynchronous mode, no fault, no crash): while a NEW object waits in the pending store,
   Control reports ErrIndexCorrupted ("object deleted but still indexed"): Schema.control compares
   the index with the directory listing and DB.Control does not flush first.  After a flush (or a
   tick of the flusher) Control succeeds.  This is why [wf_op] asks for an empty pending store at
   OControl; in synchronous mode the condition always holds (synced_wf). *)
Example control_pending_reports_corruption :
  let ops := [OCreate st_async_cache ex_fds; OInsert 0 100 (ex_ob 1 97)] in
  let s := run hk0 7%N init_state ops in
  Inv 7%N s /\
  snd (step hk0 7%N s OControl) = RUnit (Err ECorrupted) /\
  snd (step hk0 7%N s (OGet 100)) = RObj (Ok (100%N, ex_ob 1 97)) /\
  snd (step hk0 7%N (fst (step hk0 7%N s OFlushAll)) OControl) = RUnit (Ok tt).
Proof.
  cbv zeta. split; [|vm_compute; repeat split; reflexivity].
  apply C01_from_init. cbn [wf_hist]. splits; try exact Logic.I; try reflexivity; wf_ins.
Qed.

(* ================================================================ switching the configuration *)

(* a second Create with the collection's extension and descriptors switches the cache and the
   asynchronous writes on or off (pending writes are flushed before asynchronous writes are
   disabled, a cache that is no longer maintained is dropped): the map does not change *)
Theorem C01_reconfigure hk ls s sp st fds' :
  Inv ls s -> abs s = Some sp -> str_eqb (ext_of s) (st_ext st) = true ->
  Inv ls (fst (step hk ls s (OCreate st fds'))) /\
  abs (fst (step hk ls s (OCreate st fds'))) = Some sp /\
  snd (step hk ls s (OCreate st fds')) = RUnit (if fds_compat (sp_fds sp) fds' then Ok tt else Err EFieldDesc).
Proof.
  intros I Ha Hx. assert (Hwf : wf_op hk s (OCreate st fds')) by (cbn [wf_op]; rewrite Ha; exact Hx).
  destruct (C01_refines hk ls s (OCreate st fds') I Hwf) as [I1 [A R]]. rewrite Ha in A, R.
  cbn [spec_step fst snd] in A, R. splits; assumption.
Qed.
Print Assumptions C01_reconfigure.

(* ... and with another extension it is refused, nothing changes *)
Theorem C01_create_wrong_extension hk ls s sp st fds' :
  Inv ls s -> abs s = Some sp -> str_eqb (ext_of s) (st_ext st) = false ->
  Inv ls (fst (step hk ls s (OCreate st fds'))) /\
  abs (fst (step hk ls s (OCreate st fds'))) = Some sp /\
  snd (step hk ls s (OCreate st fds')) = RUnit (Err EExtension).
Proof.
  intros I Ha Hx. destruct s as [h w]. change {| s_h := h; s_w := w |} with (mk h w) in *. destruct sp as [fds a].
  rewrite (step_nontick hk ls (mk h w) (OCreate st fds') Logic.I ltac:(discriminate)).
  destruct (db_schema_ok ls h w fds a I Ha) as [h1 [m1 [D [M1 [L1 _]]]]].
  pose proof (db_schema_ext ls h w fds a h1 m1 I Ha D) as Hext.
  unfold step_fg. cbv beta zeta iota. cbn [mk s_h s_w]. rewrite D.
  assert (Hx' : str_eqb (st_ext (m_set m1)) (st_ext st) = false) by (rewrite Hext; exact Hx).
  rewrite Hx'. cbn [negb mk s_h s_w].
  destruct (LState_Inv _ _ _ _ _ L1) as [I1 A1].
  assert (Hd : w_dead w = false) by (destruct I as [[_ Hd] _]; exact Hd). rewrite Hd.
  destruct (settle_ok ls _ _ (Inv_reset ls h1 w I1)) as [h2 [w2 [St [I2 [A2 _]]]]]. rewrite St. cbn [fst snd].
  splits; try assumption; try reflexivity. rewrite A2. exact A1.
Qed.

Definition st_plain : settings :=
  {| st_cache := false; st_async := None; st_compress := false; st_ext := [46; 106]%N |}.
Definition st_cache_only : settings :=
  {| st_cache := true; st_async := None; st_compress := false; st_ext := [46; 106]%N |}.

(* asynchronous + cache, a pending insert; asynchronous writes and cache switched OFF (the pending
   object is flushed and stays readable: D9 of the pinned tree is absent from the modelled code);
   an update while the cache is off; the cache switched ON again: the update is what is read
   (no stale cache: D16); twice *)
Definition ex_ops3 : list op :=
  [ OCreate st_async_cache ex_fds;
    OInsert 0 100 (ex_ob 1 97);
    OCreate st_plain ex_fds;
    OGet 100;
    OInsert 100 999 (ex_ob 5 98);
    OCreate st_cache_only ex_fds;
    OGet 100;
    OGet 100;
    OControl;
    OCreate st_cache_only [];
    OCount ].
Definition ex_outs3 : list out :=
  [ RUnit (Ok tt); RUnit (Ok tt); RUnit (Ok tt); RObj (Ok (100%N, ex_ob 1 97)); RUnit (Ok tt); RUnit (Ok tt);
    RObj (Ok (100%N, ex_ob 5 98)); RObj (Ok (100%N, ex_ob 5 98)); RUnit (Ok tt); RUnit (Err EFieldDesc);
    RNum (Ok 1%Z) ].

Example ex_reconfigure :
  wf_hist hk0 7%N init_state ex_ops3 /\
  run_out hk0 7%N init_state ex_ops3 = ex_outs3 /\
  snd (spec_run hk0 None ex_ops3) = ex_outs3.
Proof.
  split; [|split]; try (vm_compute; reflexivity).
  cbn [ex_ops3 wf_hist]. splits; vm_compute;
    first [exact Logic.I | reflexivity | (let sp := fresh "sp" in let H := fresh "H" in intros sp H; inversion H; subst; reflexivity)].
Qed.
