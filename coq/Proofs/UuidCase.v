(* Proofs/UuidCase.v: the uuid test of sod.go (uuidRegexp, flag i) does not look at the case of the
   hexadecimal letters: an object file written under an upper-case identifier (application-chosen)
   and the same name in lower case are both taken for object files. *)
From Coq Require Import List NArith Arith Bool Lia.
Import ListNotations.
From Sod.Model Require Import Base Layout.

Lemma shaped_from_map (g : N -> N) :
  (forall c, is_hex (g c) = is_hex c) -> (forall c, N.eqb (g c) 45 = N.eqb c 45) ->
  forall s i, shaped_from i (map g s) = shaped_from i s.
Proof. intros Hh Hd s. induction s as [|c r IH]; intros i; cbn [map shaped_from]; [reflexivity|].
  rewrite IH, Hh, Hd. reflexivity. Qed.

Theorem uuid_shaped_map (g : N -> N) :
  (forall c, is_hex (g c) = is_hex c) -> (forall c, N.eqb (g c) 45 = N.eqb c 45) ->
  forall u, uuid_shaped (map g u) = uuid_shaped u.
Proof. intros Hh Hd u. unfold uuid_shaped. rewrite map_length, (shaped_from_map g Hh Hd). reflexivity. Qed.

(* ASCII case swap of the letters a-f / A-F (what strings.ToUpper / ToLower do to a uuid) *)
Definition up_hex (c : N) : N := if N.leb 97 c && N.leb c 102 then (c - 32)%N else c.
Definition low_hex (c : N) : N := if N.leb 65 c && N.leb c 70 then (c + 32)%N else c.

Ltac cmp := repeat match goal with |- context [N.leb ?a ?b] => destruct (N.leb_spec a b) end;
            repeat match goal with |- context [N.eqb ?a ?b] => destruct (N.eqb_spec a b) end;
            cbn [andb orb]; try reflexivity; try lia.

Lemma up_hex_is_hex c : is_hex (up_hex c) = is_hex c.
Proof. unfold up_hex. destruct (N.leb 97 c && N.leb c 102) eqn:E; [|reflexivity].
  apply andb_true_iff in E as [E1 E2]. apply N.leb_le in E1. apply N.leb_le in E2.
  unfold is_hex, is_digit. cmp. Qed.
Lemma up_hex_dash c : N.eqb (up_hex c) 45 = N.eqb c 45.
Proof. unfold up_hex. destruct (N.leb 97 c && N.leb c 102) eqn:E; [|reflexivity].
  apply andb_true_iff in E as [E1 E2]. apply N.leb_le in E1. apply N.leb_le in E2. cmp. Qed.
Lemma low_hex_is_hex c : is_hex (low_hex c) = is_hex c.
Proof. unfold low_hex. destruct (N.leb 65 c && N.leb c 70) eqn:E; [|reflexivity].
  apply andb_true_iff in E as [E1 E2]. apply N.leb_le in E1. apply N.leb_le in E2.
  unfold is_hex, is_digit. cmp. Qed.
Lemma low_hex_dash c : N.eqb (low_hex c) 45 = N.eqb c 45.
Proof. unfold low_hex. destruct (N.leb 65 c && N.leb c 70) eqn:E; [|reflexivity].
  apply andb_true_iff in E as [E1 E2]. apply N.leb_le in E1. apply N.leb_le in E2. cmp. Qed.

Theorem uuid_shaped_upper u : uuid_shaped (map up_hex u) = uuid_shaped u.
Proof. apply uuid_shaped_map; [exact up_hex_is_hex | exact up_hex_dash]. Qed.
Theorem uuid_shaped_lower u : uuid_shaped (map low_hex u) = uuid_shaped u.
Proof. apply uuid_shaped_map; [exact low_hex_is_hex | exact low_hex_dash]. Qed.

Example uuid_case_example :
  let u := [48;49;50;51;52;53;54;55; 45; 56;57;97;98; 45; 52;99;100;101; 45; 65;70;48;49; 45; 50;51;52;53;54;55;56;57;97;66;99;68]%N in
  uuid_shaped u = true /\ uuid_shaped (map up_hex u) = true /\ uuid_shaped (map low_hex u) = true /\ map up_hex u <> map low_hex u.
Proof. cbv zeta. repeat split; try reflexivity. vm_compute. discriminate. Qed.
