(* Proofs/Reach.v: properties of EVERY reachable state, as corollaries of the handle invariant and
   of the refinement theorem: uniqueness is never violated (C03), stored values are canonical (C16). *)
From Coq Require Import List ZArith NArith Bool Lia Arith.
Import ListNotations.
From Sod.Model Require Import Base FieldIndex ObjIndex DB.
From Sod.Proofs Require Import FIProofs1 FIProofs4 FIProofs5 KeyOrder OIProofs OIProofs2 DBBasic DBStruct1 DBStruct2
     Refine1 Refine2 Refine3 Refine4 Refine5 Batch Extended LayoutInv.
Close Scope Z_scope.

(* ================================================================ C03: never violated *)

(* in ANY state satisfying the handle invariant (hence at every point of every history), whatever
   the configuration and whether writes are pending or not: two different stored objects never
   hold equal values in a field declared unique *)
Theorem unique_never_violated ls s sp u1 o1 u2 o2 i d k1 k2 :
  Inv ls s -> abs s = Some sp ->
  assoc u1 (sp_map sp) = Some o1 -> assoc u2 (sp_map sp) = Some o2 ->
  nth_error (sp_fds sp) i = Some d -> fd_unique d = true ->
  nth_error (o_keys o1) i = Some k1 -> nth_error (o_keys o2) i = Some k2 ->
  key_eqb k1 k2 = true -> u1 = u2.
Proof.
  intros I Ha H1 H2 Hd Hu Hk1 Hk2 He.
  destruct (inv_core_of ls s sp I Ha) as [cache [pend [m [IC [Hmap [_ [_ Hfds]]]]]]].
  rewrite Hmap, (abs_assoc _ _ _ _ _ IC) in H1, H2. rewrite Hfds in Hd.
  pose proof (ic_oi _ _ _ _ _ IC) as OI.
  assert (Hl : exists l : findex, nth_error (oi_fx (m_idx m)) i = Some (Some l)).
  { apply (shape_indexed _ _ i (inv_shape _ _ OI)). exists d. split; [exact Hd|]. unfold fd_indexed. rewrite Hu. apply orb_true_r. }
  destruct Hl as [l Hl].
  destruct (ic_key_entry _ _ _ _ _ IC i u1 k1 o1 l H1 Hl Hk1) as [oid1 [l1 [Hin1 [Hl1 He1]]]].
  destruct (ic_key_entry _ _ _ _ _ IC i u2 k2 o2 l H2 Hl Hk2) as [oid2 [l2 [Hin2 [Hl2 He2]]]].
  assert (l1 = l) by congruence. assert (l2 = l) by congruence. subst l1 l2.
  pose proof (ic_uniq _ _ _ _ _ IC i d l (k1, oid1) (k2, oid2) Hd Hu Hl He1 He2 He) as Hoid. cbn [snd] in Hoid. subst oid2.
  apply (ids_same_oid _ _ oid1 u1 u2 OI Hin1 Hin2).
Qed.
Print Assumptions unique_never_violated.

Corollary unique_along_histories hk ls ops : wf_hist2 hk ls init_state ops ->
  forall sp u1 o1 u2 o2 i d k1 k2, abs (run hk ls init_state ops) = Some sp ->
  assoc u1 (sp_map sp) = Some o1 -> assoc u2 (sp_map sp) = Some o2 ->
  nth_error (sp_fds sp) i = Some d -> fd_unique d = true ->
  nth_error (o_keys o1) i = Some k1 -> nth_error (o_keys o2) i = Some k2 ->
  key_eqb k1 k2 = true -> u1 = u2.
Proof.
  intros W sp u1 o1 u2 o2 i d k1 k2 Ha. destruct (C01_from_init_bulk hk ls ops W) as [I _].
  apply (unique_never_violated ls _ sp u1 o1 u2 o2 i d k1 k2 I Ha).
Qed.

(* ================================================================ C16: stored values are canonical *)

Section Canon.
Variable hk : hooks.
Hypothesis Hup : up_idem hk.
Hypothesis Hlo : lo_idem hk.
Hypothesis Hlu : lo_up_idem hk.

(* every object of the collection is in canonical form for the field table *)
Definition CanonMap (a : option spec) : Prop :=
  forall sp u ob, a = Some sp -> assoc u (sp_map sp) = Some ob ->
    canon_keys hk (sp_fds sp) (o_keys ob) = o_keys ob.

Lemma prep_canonical fds o : canon_keys hk fds (o_keys (prep hk fds o)) = o_keys (prep hk fds o).
Proof. unfold prep. cbn [o_keys]. apply (canon_keys_idem hk Hup Hlo Hlu). Qed.

Lemma spec_validate_canonical fds a0 : forall ms acc l,
  spec_validate hk fds a0 acc ms = Ok l -> forall u ob, In (u, ob) l -> canon_keys hk fds (o_keys ob) = o_keys ob.
Proof.
  induction ms as [|x r IH]; intros acc l H u ob Hin.
  - cbn in H. inv H. destruct Hin.
  - destruct x as [u0 f0 o0|]; [|discriminate]. cbn [spec_validate] in H.
    repeat match type of H with context [if ?c then _ else _] => destruct c; try discriminate end;
      (destruct (spec_validate hk fds a0 _ r) as [l'| |] eqn:E; try discriminate; inv H;
       destruct Hin as [Hin|Hin]; [inv Hin; apply prep_canonical|apply (IH _ _ E u ob Hin)]).
Qed.

Lemma puts_assoc l : forall a u ob, assoc u (puts l a) = Some ob -> In (u, ob) l \/ assoc u a = Some ob.
Proof.
  induction l as [|[v ov] r IH]; intros a u ob H; [right; exact H|].
  change (puts ((v, ov) :: r) a) with (puts r (put v ov a)) in H.
  destruct (IH _ _ _ H) as [X|X]; [left; right; exact X|].
  rewrite rf_assoc_put in X. destruct (N.eqb u v) eqn:E; [|right; exact X].
  apply N.eqb_eq in E. subst v. inv X. left. left. reflexivity.
Qed.

Lemma remove_key_assoc {B} u v (a : list (N * B)) ob : assoc u (remove_key v a) = Some ob -> assoc u a = Some ob.
Proof. rewrite rf_assoc_remove. destruct (N.eqb u v); [discriminate|intros H; exact H]. Qed.

Lemma spec_bulk_canonical fds : forall cs a n,
  (forall u ob, assoc u a = Some ob -> canon_keys hk fds (o_keys ob) = o_keys ob) ->
  forall u ob, assoc u (fst (fst (spec_bulk hk fds a cs n))) = Some ob -> canon_keys hk fds (o_keys ob) = o_keys ob.
Proof.
  induction cs as [|c r IH]; intros a n Ha u ob H; cbn [spec_bulk] in H.
  - apply (Ha u ob H).
  - destruct (spec_validate hk fds a [] c) as [l|e|] eqn:E; cbn [fst] in H; try apply (Ha u ob H).
    apply (IH (puts l a) (n + Z.of_nat (length c))%Z) with (u := u); [|exact H].
    intros v ov Hv. destruct (puts_assoc l a v ov Hv) as [X|X]; [apply (spec_validate_canonical fds a c [] l E v ov X)|apply (Ha v ov X)].
Qed.

(* the specification machine only ever stores canonical objects *)
Lemma spec_step2_canonical a o : CanonMap a -> CanonMap (fst (spec_step2 hk a o)).
Proof.
  intros C sp u ob Hs Hassoc. destruct a as [sp0|].
  - assert (C0 : forall v ov, assoc v (sp_map sp0) = Some ov -> canon_keys hk (sp_fds sp0) (o_keys ov) = o_keys ov)
      by (intros v ov; apply (C sp0 v ov eq_refl)).
    destruct o; cbn [spec_step2 spec_step fst] in Hs;
      try (inv Hs; apply (C0 u ob Hassoc); fail).
    + (* OInsert *)
      repeat match type of Hs with context [if ?c then _ else _] => destruct c end; cbn [fst] in Hs; inv Hs;
        try (apply (C0 u ob Hassoc)); cbn [sp_map sp_fds] in *;
        rewrite rf_assoc_put in Hassoc; (destruct (N.eqb u _); [inv Hassoc; apply prep_canonical|apply (C0 u ob Hassoc)]).
    + (* OMany *)
      destruct (spec_validate hk (sp_fds sp0) (sp_map sp0) [] ms) as [l|e|] eqn:E; cbn [fst] in Hs; inv Hs;
        try (apply (C0 u ob Hassoc)). cbn [sp_map sp_fds] in *.
      destruct (puts_assoc l _ u ob Hassoc) as [X|X]; [apply (spec_validate_canonical _ _ _ _ _ E u ob X)|apply (C0 u ob X)].
    + (* OBulk *)
      inv Hs. cbn [sp_map sp_fds] in *. apply (spec_bulk_canonical (sp_fds sp0) _ _ _ C0 u ob Hassoc).
    + (* ODelete *)
      inv Hs. cbn [sp_map sp_fds] in *. apply (C0 u ob (remove_key_assoc _ _ _ _ Hassoc)).
    + (* ODeleteAll *)
      inv Hs. cbn [sp_map] in Hassoc. discriminate.
  - destruct o; cbn [spec_step2 spec_step fst not_found_out] in Hs; try discriminate.
    inv Hs. cbn [sp_map] in Hassoc. discriminate.
Qed.

Lemma spec_run2_canonical : forall ops a, CanonMap a -> CanonMap (fst (spec_run2 hk a ops)).
Proof.
  induction ops as [|o r IH]; intros a C; [exact C|].
  cbn [spec_run2]. pose proof (spec_step2_canonical a o C) as C1.
  destruct (spec_step2 hk a o) as [a1 x]. cbn [fst] in C1. specialize (IH a1 C1).
  destruct (spec_run2 hk a1 r) as [a2 xs]. exact IH.
Qed.

(* C16: at the end of EVERY history (single writes, batches, chunked batches, deletes, reopen ...),
   under every configuration, every stored object holds, in every field carrying an upper / lower
   constraint (at any position of the flat record, i.e. at any nesting depth), a value in canonical
   case: applying the constraint again changes nothing *)
Theorem stored_values_canonical ls ops : wf_hist2 hk ls init_state ops ->
  forall sp u ob, abs (run hk ls init_state ops) = Some sp -> assoc u (sp_map sp) = Some ob ->
  canon_keys hk (sp_fds sp) (o_keys ob) = o_keys ob.
Proof.
  intros W sp u ob Ha Has. destruct (C01_from_init_bulk hk ls ops W) as [_ [A _]]. rewrite A in Ha.
  apply (spec_run2_canonical ops None ltac:(intros ? ? ? H; discriminate) sp u ob Ha Has).
Qed.

End Canon.
Print Assumptions stored_values_canonical.
