(* Proofs/Snake.v: camelToSnake (utils.go) on every ASCII string, not the sampled alphabet of the
   correspondence sweep: the directory name of a collection has no upper-case letter, keeps every
   character of the type string in order (letters lowered), only ever ADDS underscores, at most one
   per character, and leaves an already lower-case, digit-free name alone. *)
From Coq Require Import List NArith Bool Lia.
Import ListNotations.
From Sod.Model Require Import Base Layout.

Definition to_lower (c : N) : N := if is_upper c then (c + 32)%N else c.
Definition is_us (c : N) : bool := N.eqb c 95.
Definition not_us (c : N) : bool := negb (is_us c).

Lemma upper_not_digit c : is_upper c = true -> is_digit c = false.
Proof. unfold is_upper, is_digit. intros H. apply andb_true_iff in H as [H1 H2].
  apply N.leb_le in H1. apply andb_false_iff. right. apply N.leb_gt. lia. Qed.

Lemma digit_not_upper c : is_digit c = true -> is_upper c = false.
Proof. intros H. destruct (is_upper c) eqn:E; [|reflexivity]. apply upper_not_digit in E. congruence. Qed.

Lemma lowered_not_upper c : is_upper c = true -> is_upper (c + 32) = false.
Proof. unfold is_upper. intros H. apply andb_true_iff in H as [H1 H2]. apply N.leb_le in H1.
  apply andb_false_iff. right. apply N.leb_gt. lia. Qed.

Lemma lowered_not_us c : is_upper c = true -> is_us (c + 32) = false.
Proof. unfold is_upper, is_us. intros H. apply andb_true_iff in H as [H1 H2]. apply N.leb_le in H1.
  apply N.leb_le in H2. apply N.eqb_neq. lia. Qed.

Lemma upper_not_us c : is_upper c = true -> is_us c = false.
Proof. unfold is_upper, is_us. intros H. apply andb_true_iff in H as [H1 H2]. apply N.leb_le in H2.
  apply N.eqb_neq. lia. Qed.

Lemma digit_not_us c : is_digit c = true -> is_us c = false.
Proof. unfold is_digit, is_us. intros H. apply andb_true_iff in H as [H1 H2]. apply N.leb_le in H2.
  apply N.eqb_neq. lia. Qed.

Lemma us_not_upper : is_upper 95 = false. Proof. reflexivity. Qed.

(* the emitted character of the upper/digit branch *)
Lemma emitted_is_lowered cur : is_upper cur || is_digit cur = true ->
  (if is_digit cur then cur else (cur + 32)%N) = to_lower cur.
Proof. unfold to_lower. intros H. destruct (is_digit cur) eqn:D.
  - rewrite (digit_not_upper _ D). reflexivity.
  - rewrite orb_false_r in H. rewrite H. reflexivity. Qed.

(* 1. no upper-case letter in the output *)
Lemma snake_loop_no_upper s : forall o p, forallb (fun c => negb (is_upper c)) (snake_loop s o p) = true.
Proof. induction s as [|cur rest IH]; intros o p; cbn [snake_loop]; [reflexivity|].
  destruct (is_upper cur || is_digit cur) eqn:B.
  - rewrite forallb_app. apply andb_true_iff. split.
    + destruct (o && _); reflexivity.
    + cbn [forallb]. rewrite IH, andb_true_r. rewrite (emitted_is_lowered _ B). unfold to_lower.
      destruct (is_upper cur) eqn:U; [rewrite (lowered_not_upper _ U) | rewrite U]; reflexivity.
  - cbn [forallb]. rewrite IH, andb_true_r. apply orb_false_iff in B as [U _]. rewrite U. reflexivity. Qed.

Theorem snake_no_upper s : forallb (fun c => negb (is_upper c)) (camel_to_snake s) = true.
Proof. apply snake_loop_no_upper. Qed.

(* 2. every character kept in order, letters lowered; only underscores are added *)
Lemma to_lower_not_us c : not_us c = true -> not_us (to_lower c) = true.
Proof. unfold not_us, to_lower. destruct (is_upper c) eqn:U; [|tauto]. intros _. rewrite (lowered_not_us _ U). reflexivity. Qed.

Lemma snake_loop_keeps s : forall o p,
  filter not_us (snake_loop s o p) = map to_lower (filter not_us s).
Proof. induction s as [|cur rest IH]; intros o p; cbn [snake_loop]; [reflexivity|].
  destruct (is_upper cur || is_digit cur) eqn:B.
  - rewrite filter_app.
    assert (S0 : filter not_us (if o && ((match rest with n :: _ => is_lower n | [] => false end) || p) then [95%N] else []) = [])
      by (destruct (o && _); reflexivity).
    rewrite S0. cbn [app filter]. rewrite (emitted_is_lowered _ B).
    assert (NU : not_us cur = true).
    { unfold not_us. apply orb_true_iff in B as [U|D]; [rewrite (upper_not_us _ U)|rewrite (digit_not_us _ D)]; reflexivity. }
    rewrite NU, (to_lower_not_us _ NU). cbn [map]. rewrite IH. reflexivity.
  - cbn [filter]. apply orb_false_iff in B as [U _]. destruct (not_us cur) eqn:NU.
    + cbn [map]. rewrite IH. unfold to_lower. rewrite U. reflexivity.
    + apply IH. Qed.

Theorem snake_keeps_characters s :
  filter not_us (camel_to_snake s) = map to_lower (filter not_us s).
Proof. apply snake_loop_keeps. Qed.

(* 3. length: never shorter, at most one underscore per character, none before the first *)
Lemma snake_loop_length s : forall o p,
  length s <= length (snake_loop s o p) <= 2 * length s - (if o then 0 else match s with [] => 0 | _ => 1 end).
Proof. induction s as [|cur rest IH]; intros o p; cbn [snake_loop]; [destruct o; cbn; lia|].
  destruct (is_upper cur || is_digit cur) eqn:B.
  - rewrite app_length. specialize (IH true false). cbn [length].
    assert (L : length (if o && ((match rest with n :: _ => is_lower n | [] => false end) || p) then [95%N] else []) <= (if o then 1 else 0))
      by (destruct o; cbn [andb]; [destruct (_ || p)|]; cbn [length]; lia).
    destruct o; cbv iota in *; lia.
  - cbn [length]. specialize (IH true true). destruct o; cbv iota in *; lia. Qed.

Theorem snake_length s : length s <= length (camel_to_snake s) <= 2 * length s - (match s with [] => 0 | _ => 1 end).
Proof. apply (snake_loop_length s false false). Qed.

(* 4. a lower-case, digit-free name is its own directory name *)
Lemma snake_loop_fixed s : forall o p,
  forallb (fun c => negb (is_upper c || is_digit c)) s = true -> snake_loop s o p = s.
Proof. induction s as [|cur rest IH]; intros o p H; cbn [snake_loop]; [reflexivity|].
  cbn [forallb] in H. apply andb_true_iff in H as [H1 H2]. apply negb_true_iff in H1. rewrite H1.
  f_equal. apply IH. exact H2. Qed.

Theorem snake_fixes_lower_names s :
  forallb (fun c => negb (is_upper c || is_digit c)) s = true -> camel_to_snake s = s.
Proof. apply snake_loop_fixed. Qed.

(* 5. the first character never gets a separator: the directory name starts with the lowered first
   character of the type string *)
Theorem snake_head c s : hd_error (camel_to_snake (c :: s)) = Some (to_lower c).
Proof. unfold camel_to_snake. cbn [snake_loop andb app]. destruct (is_upper c || is_digit c) eqn:B.
  - cbn [hd_error]. rewrite (emitted_is_lowered _ B). reflexivity.
  - cbn [hd_error]. apply orb_false_iff in B as [U _]. unfold to_lower. rewrite U. reflexivity. Qed.

(* 6. NOT injective: two type strings can share a directory (faithful to the code; the schema guard
   of C17 is what refuses the second type) *)
Example snake_not_injective :
  camel_to_snake [97; 66]%N = camel_to_snake [97; 95; 98]%N /\ [97; 66]%N <> [97; 95; 98]%N.
Proof. split; [vm_compute; reflexivity | discriminate]. Qed.

(* non-vacuity / sanity: "testStruct1" -> "test_struct_1" *)
Example snake_example :
  camel_to_snake [116;101;115;116;83;116;114;117;99;116;49]%N
  = [116;101;115;116;95;115;116;114;117;99;116;95;49]%N.
Proof. vm_compute. reflexivity. Qed.
