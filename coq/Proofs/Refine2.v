(* Proofs/Refine2.v: C01, part 2: the abstraction (what is stored for a uuid, the finite map),
   the invariant of the handle machine in fault-free executions, the specification machine,
   and the read side: schema lookup / lazy load, get, exist, count, all, control. *)
From Coq Require Import List ZArith NArith Bool Lia Arith.
Import ListNotations.
From Sod.Model Require Import Base FieldIndex ObjIndex DB.
From Sod.Proofs Require Import FIProofs1 FIProofs2 FIProofs3 FIProofs4 FIProofs5 KeyOrder SearchSpec
     OIProofs OIProofs2 DBBasic Refine1.
Close Scope Z_scope.

(* ================================================================ definitions *)

(* what is stored for u: the pending write if any (asynchronous mode), else the object file *)
Definition stored (pend : list (N * obj)) (d : disk) (m : mem) (u : N) : option obj :=
  match (if async_on m then assoc u pend else None) with
  | Some o => Some o
  | None => match file_lookup (file_of m u) (d_files d) with Some (COk o) => Some o | _ => None end
  end.

Definition bind (pend : list (N * obj)) (d : disk) (m : mem) (u : N) : list (N * obj) :=
  match stored pend d m u with Some o => [(u, o)] | None => [] end.

(* the finite map, as an association list in the order of the id table *)
Definition abs_of (pend : list (N * obj)) (d : disk) (m : mem) : list (N * obj) :=
  flat_map (bind pend d m) (map snd (oi_ids (m_idx m))).

(* nothing is waiting in memory: no pending write, and schema.json holds the loaded index *)
Definition synced (pend : list (N * obj)) (d : disk) (m : mem) : Prop :=
  pend = [] /\
  exists sf, d_schema d = Some (SOk sf) /\ sf_set sf = m_set m /\ sf_fields sf = m_fields m /\
             sf_shape sf = m_shape m /\ oi_ids (sf_idx sf) = oi_ids (m_idx m) /\
             oi_fx (sf_idx sf) = oi_fx (m_idx m).

Record InvCore (ls : N) (cache pend : list (N * obj)) (d : disk) (m : mem) : Prop := {
  ic_oi     : OIInv (m_fields m) (m_idx m);
  ic_uniq   : UniqueOK (m_fields m) (m_idx m);
  ic_shape  : m_shape m = ls;
  ic_agree  : forall oid u, In (oid, u) (oi_ids (m_idx m)) ->
                exists o, stored pend d m u = Some o /\ keys_ok (m_fields m) (o_keys o) /\
                          holds (m_idx m) u (o_keys o) /\ forallb serialisable (o_keys o) = true;
  ic_dir    : d_dir d = true;
  ic_files  : forall f c, In (f, c) (d_files d) ->
                fn_suffix f = suffix_of (m_set m) /\ is_indexed (m_idx m) (fn_uuid f) = true /\
                exists o, c = COk o;
  ic_sync   : async_on m = false -> pend = [];
  ic_pend   : forall u o, assoc u pend = Some o ->
                is_indexed (m_idx m) u = true /\ assoc u cache = Some o;
  ic_pnodup : NoDup (map fst pend);
  ic_cache  : forall u o, must_cache m = true -> assoc u cache = Some o -> stored pend d m u = Some o;
  ic_nocache : must_cache m = false -> cache = [];
  ic_schema : exists sf, d_schema d = Some (SOk sf) /\ sf_shape sf = ls /\ sf_fields sf = m_fields m /\
                         st_ext (sf_set sf) = st_ext (m_set m) /\
                         st_compress (sf_set sf) = st_compress (m_set m)
}.

(* synchronous mode: every completed call has committed *)
Definition InvLoaded (ls : N) (cache pend : list (N * obj)) (d : disk) (m : mem) : Prop :=
  InvCore ls cache pend d m /\ (async_on m = false -> synced pend d m).

(* the directory as a handle finds it: no collection yet, or a schema from which loading
   yields a state satisfying the invariant *)
Definition DiskOK (ls : N) (d : disk) : Prop :=
  (d_dir d = false /\ d_schema d = None /\ d_files d = []) \/
  (exists sf, d_schema d = Some (SOk sf) /\ InvCore ls [] [] d (mem_of sf)).

Definition Inv (ls : N) (s : state) : Prop :=
  nofault (s_w s) /\
  match h_mem (s_h s) with
  | Some m => InvLoaded ls (h_cache (s_h s)) (h_pend (s_h s)) (w_disk (s_w s)) m
  | None => h_cache (s_h s) = [] /\ h_pend (s_h s) = [] /\ h_fl (s_h s) = [] /\ DiskOK ls (w_disk (s_w s))
  end.

(* ---------------------------------------------------------------- the specification machine *)

Record spec := { sp_fds : list fdesc; sp_map : list (N * obj) }.

(* None: the collection does not exist *)
Definition abs (s : state) : option spec :=
  match h_mem (s_h s) with
  | Some m => Some {| sp_fds := m_fields m;
                      sp_map := abs_of (h_pend (s_h s)) (w_disk (s_w s)) m |}
  | None =>
      match d_schema (w_disk (s_w s)) with
      | Some (SOk sf) => Some {| sp_fds := sf_fields sf; sp_map := abs_of [] (w_disk (s_w s)) (mem_of sf) |}
      | _ => None
      end
  end.

(* Transform, then canonicalisation: [prepare_obj] on the field table alone *)
Definition prep (hk : hooks) (fds : list fdesc) (o : obj) : obj :=
  {| o_keys := canon_keys hk fds (hk_tr hk (o_keys o)); o_rest := o_rest o |}.

(* some unique field holds equal keys in the two records *)
Fixpoint clash (fds : list fdesc) (ks ks2 : list key) : bool :=
  match fds, ks, ks2 with
  | d :: ds, k :: r, k2 :: r2 => (fd_unique d && key_eqb k2 k) || clash ds r r2
  | _, _, _ => false
  end.

(* ANOTHER uuid of the map holds an equal key in a unique field *)
Definition uniq_conflict (fds : list fdesc) (a : list (N * obj)) (u : N) (ks : list key) : bool :=
  existsb (fun p => negb (N.eqb (fst p) u) && clash fds ks (o_keys (snd p))) a.

(* Create on an existing collection: the descriptors must be the recorded ones *)
Definition fds_compat (fds0 fds : list fdesc) : bool :=
  Nat.eqb (length fds0) (length fds) && forallb (fun p => fdesc_eqb (fst p) (snd p)) (combine fds0 fds).

Definition has_key (u : N) (a : list (N * obj)) : bool :=
  match assoc u a with Some _ => true | None => false end.

(* the result every covered call has on a collection that does not exist *)
Definition not_found_out (o : op) : out :=
  match o with
  | OGet _ => RObj (Err ENotFound)
  | OExist _ => RBool (Err ENotFound)
  | OCount => RNum (Err ENotFound)
  | OAll => RObjs (Err ENotFound)
  | OInsert _ _ _ | ODelete _ | OCommit | OFlushAllCommit | OSchema => RUnit (Err ENotFound)
  | _ => RUnit (Ok tt)
  end.

Definition spec_step (hk : hooks) (a : option spec) (o : op) : option spec * out :=
  match a with
  | None =>
      match o with
      | OCreate st fds => (Some {| sp_fds := fds; sp_map := [] |}, RUnit (Ok tt))
      | _ => (None, not_found_out o)
      end
  | Some sp =>
      let fds := sp_fds sp in
      let a0 := sp_map sp in
      match o with
      | OCreate _ fds' =>            (* settings (cache, asynchronous writes) may change: not the map *)
          (a, RUnit (if fds_compat fds fds' then Ok tt else Err EFieldDesc))
      | OInsert u fresh ob =>
          let o' := prep hk fds ob in
          let u' := if N.eqb u 0 then fresh else u in
          if negb (hk_va hk (o_keys o')) then (a, RUnit (Err EInvalid))
          else if negb (forallb serialisable (o_keys o')) then (a, RUnit (Err EJson))
          else if uniq_conflict fds a0 u' (o_keys o') then (a, RUnit (Err EUnique))
          else (Some {| sp_fds := fds; sp_map := put u' o' a0 |}, RUnit (Ok tt))
      | ODelete u => (Some {| sp_fds := fds; sp_map := remove_key u a0 |}, RUnit (Ok tt))
      | OGet u => (a, match assoc u a0 with Some ob => RObj (Ok (u, ob)) | None => RObj (Err ENotFound) end)
      | OExist u => (a, RBool (Ok (has_key u a0)))
      | OCount => (a, RNum (Ok (Z.of_nat (length a0))))
      | OAll => (a, RObjs (Ok a0))
      | _ => (a, RUnit (Ok tt))
      end
  end.

(* ================================================================ stored / abs_of *)

Lemma stored_nopend d m u :
  stored [] d m u = match file_lookup (file_of m u) (d_files d) with Some (COk o) => Some o | _ => None end.
Proof. unfold stored. destruct (async_on m); reflexivity. Qed.

Lemma stored_file pend d m u : (async_on m = true -> assoc u pend = None) ->
  stored pend d m u = match file_lookup (file_of m u) (d_files d) with Some (COk o) => Some o | _ => None end.
Proof.
  intros H. unfold stored. destruct (async_on m); [|reflexivity]. rewrite (H eq_refl). reflexivity.
Qed.

Lemma file_of_eta m f : fn_suffix f = suffix_of (m_set m) -> f = file_of m (fn_uuid f).
Proof. destruct f as [u s]. cbn. intros ->. reflexivity. Qed.

Lemma In_flat_bind pend d m us u o :
  In (u, o) (flat_map (bind pend d m) us) <-> In u us /\ stored pend d m u = Some o.
Proof.
  rewrite in_flat_map. unfold bind. split.
  - intros [v [Hv Hin]]. destruct (stored pend d m v) as [o'|] eqn:E; [|destruct Hin].
    destruct Hin as [Hin|[]]. inversion Hin; subst. split; assumption.
  - intros [Hin Hs]. exists u. split; [exact Hin|]. rewrite Hs. left. reflexivity.
Qed.

Lemma assoc_flat_bind_notin pend d m us u : ~ In u us -> assoc u (flat_map (bind pend d m) us) = None.
Proof.
  intros Hn. apply assoc_None. intros H. apply in_map_iff in H. destruct H as [[v o] [Hv Hin]].
  cbn in Hv. subst v. apply In_flat_bind in Hin. apply Hn. apply Hin.
Qed.

Lemma assoc_flat_bind_in pend d m us u : In u us -> assoc u (flat_map (bind pend d m) us) = stored pend d m u.
Proof.
  induction us as [|v r IH]; intros Hin; [destruct Hin|]. cbn [flat_map]. unfold bind at 1.
  destruct (N.eq_dec u v) as [->|Hne].
  - destruct (stored pend d m v) as [o|] eqn:E; cbn [app assoc].
    + rewrite N.eqb_refl. reflexivity.
    + destruct (in_dec N.eq_dec v r) as [Hr|Hr].
      * rewrite (IH Hr). reflexivity.
      * apply assoc_flat_bind_notin. exact Hr.
  - destruct Hin as [Hin|Hin]; [congruence|].
    destruct (stored pend d m v); cbn [app assoc].
    + destruct (N.eqb u v) eqn:Ex; [apply N.eqb_eq in Ex; congruence|]. apply IH. exact Hin.
    + apply IH. exact Hin.
Qed.

Lemma flat_bind_keys pend d m us :
  (forall u, In u us -> stored pend d m u <> None) -> map fst (flat_map (bind pend d m) us) = us.
Proof.
  induction us as [|v r IH]; intros H; [reflexivity|]. cbn [flat_map]. unfold bind at 1.
  destruct (stored pend d m v) eqn:E; [|exfalso; apply (H v (or_introl eq_refl)); exact E].
  cbn [app map fst]. f_equal. apply IH. intros u Hu. apply H. right. exact Hu.
Qed.

Lemma flat_bind_ext pend d m pend' d' m' us :
  (forall u, In u us -> stored pend' d' m' u = stored pend d m u) ->
  flat_map (bind pend' d' m') us = flat_map (bind pend d m) us.
Proof.
  induction us as [|v r IH]; intros H; [reflexivity|]. cbn [flat_map]. unfold bind at 1 3.
  rewrite (H v (or_introl eq_refl)). f_equal. apply IH. intros u Hu. apply H. right. exact Hu.
Qed.

(* ================================================================ consequences of the invariant *)

Section Core.
Variables (ls : N) (cache pend : list (N * obj)) (d : disk) (m : mem).
Hypothesis I : InvCore ls cache pend d m.

Lemma ic_indexed_stored u : is_indexed (m_idx m) u = true -> exists o, stored pend d m u = Some o.
Proof.
  intros H. apply is_indexed_true in H. apply in_map_iff in H. destruct H as [[oid v] [Hv Hin]].
  cbn in Hv. subst v. destruct (ic_agree _ _ _ _ _ I oid u Hin) as [o [Ho _]]. exists o. exact Ho.
Qed.

Lemma ic_stored_indexed u o : stored pend d m u = Some o -> is_indexed (m_idx m) u = true.
Proof.
  unfold stored. destruct (async_on m).
  - destruct (assoc u pend) as [o'|] eqn:E.
    + intros _. apply (ic_pend _ _ _ _ _ I u o' E).
    + destruct (file_lookup (file_of m u) (d_files d)) as [c|] eqn:F; [|discriminate].
      intros _. apply rf_lookup_In in F. apply (ic_files _ _ _ _ _ I) in F. apply F.
  - destruct (file_lookup (file_of m u) (d_files d)) as [c|] eqn:F; [|discriminate].
    intros _. apply rf_lookup_In in F. apply (ic_files _ _ _ _ _ I) in F. apply F.
Qed.

Lemma ic_lookup_ok u c : file_lookup (file_of m u) (d_files d) = Some c -> exists o, c = COk o.
Proof. intros F. apply rf_lookup_In in F. apply (ic_files _ _ _ _ _ I) in F. apply F. Qed.

Lemma ic_async_pend u o : assoc u pend = Some o -> async_on m = true.
Proof.
  intros H. destruct (async_on m) eqn:E; [reflexivity|].
  rewrite (ic_sync _ _ _ _ _ I E) in H. discriminate.
Qed.

Lemma ic_stored_pend u o : assoc u pend = Some o -> stored pend d m u = Some o.
Proof. intros H. unfold stored. rewrite (ic_async_pend u o H), H. reflexivity. Qed.

(* THE LOOKUP LEMMA: the finite map is [stored] *)
Lemma abs_assoc u : assoc u (abs_of pend d m) = stored pend d m u.
Proof.
  unfold abs_of. destruct (is_indexed (m_idx m) u) eqn:E.
  - apply assoc_flat_bind_in. apply is_indexed_true. exact E.
  - rewrite assoc_flat_bind_notin; [|apply is_indexed_false; exact E].
    destruct (stored pend d m u) as [o|] eqn:S; [|reflexivity].
    apply ic_stored_indexed in S. congruence.
Qed.

Lemma abs_keys : map fst (abs_of pend d m) = map snd (oi_ids (m_idx m)).
Proof.
  unfold abs_of. apply flat_bind_keys. intros u Hu. apply is_indexed_true in Hu.
  destruct (ic_indexed_stored u Hu) as [o Ho]. congruence.
Qed.

Lemma abs_nodup : NoDup (map fst (abs_of pend d m)).
Proof. rewrite abs_keys. apply (inv_uuid_nodup _ _ (ic_oi _ _ _ _ _ I)). Qed.

Lemma abs_length : length (abs_of pend d m) = length (oi_ids (m_idx m)).
Proof. rewrite <- (map_length fst), abs_keys, map_length. reflexivity. Qed.

Lemma abs_In u o : In (u, o) (abs_of pend d m) <-> stored pend d m u = Some o.
Proof.
  unfold abs_of. rewrite In_flat_bind. split; [intros [_ H]; exact H|]. intros H. split; [|exact H].
  apply is_indexed_true. apply (ic_stored_indexed u o H).
Qed.

(* an indexed cell is the key of the stored object *)
Lemma ic_entry_key i u k o : stored pend d m u = Some o -> entry_of (m_idx m) i u k ->
  nth_error (o_keys o) i = Some k.
Proof.
  intros S [oid [l [Hin [Hl Hk]]]].
  destruct (ic_agree _ _ _ _ _ I oid u Hin) as [o' [S' [_ [[oid' [Hin' Hall]] _]]]].
  assert (o' = o) by congruence. subst o'.
  assert (oid' = oid) by (apply (ids_same_uuid _ _ _ _ u (ic_oi _ _ _ _ _ I) Hin' Hin)). subst oid'.
  destruct (Hall i l Hl) as [k' [Hk' Hin2]]. rewrite Hk'. f_equal.
  destruct (inv_fields _ _ (ic_oi _ _ _ _ _ I) i l Hl) as [_ [Hnd _]].
  pose proof (nodup_oid_inj key l (k', oid) (k, oid) Hnd Hin2 Hk eq_refl) as E. congruence.
Qed.

Lemma ic_key_entry i u k o l : stored pend d m u = Some o -> nth_error (oi_fx (m_idx m)) i = Some (Some l) ->
  nth_error (o_keys o) i = Some k -> entry_of (m_idx m) i u k.
Proof.
  intros S Hl Hk. pose proof (ic_stored_indexed u o S) as Hi. apply is_indexed_true in Hi.
  apply in_map_iff in Hi. destruct Hi as [[oid v] [Hv Hin]]. cbn in Hv. subst v.
  destruct (ic_agree _ _ _ _ _ I oid u Hin) as [o' [S' [_ [[oid' [Hin' Hall]] _]]]].
  assert (o' = o) by congruence. subst o'.
  destruct (Hall i l Hl) as [k' [Hk' Hin2]]. assert (k' = k) by congruence. subst k'.
  exists oid', l. repeat split; assumption.
Qed.

End Core.

(* ---------------------------------------------------------------- the unique check of the spec *)

Lemma clash_iff fds : forall ks ks2,
  clash fds ks ks2 = true <->
  exists i d k, nth_error fds i = Some d /\ fd_unique d = true /\ nth_error ks i = Some k /\
                nth_error ks2 i = Some k.
Proof.
  induction fds as [|d0 ds IH]; intros ks ks2; cbn [clash].
  - split; [discriminate|]. intros [i [d [k [H _]]]]. destruct i; discriminate.
  - destruct ks as [|k0 r]; [split; [discriminate|]; intros [i [d [k [_ [_ [H _]]]]]]; destruct i; discriminate|].
    destruct ks2 as [|k2 r2]; [split; [discriminate|]; intros [i [d [k [_ [_ [_ H]]]]]]; destruct i; discriminate|].
    rewrite orb_true_iff, andb_true_iff, IH, key_eqb_eq. split.
    + intros [[Hu ->]|[i [d [k [H1 [H2 [H3 H4]]]]]]].
      * exists 0, d0, k0. repeat split; assumption.
      * exists (S i), d, k. repeat split; assumption.
    + intros [[|i] [d [k [H1 [H2 [H3 H4]]]]]]; cbn in H1, H3, H4.
      * left. inversion H1; subst. split; [exact H2|congruence].
      * right. exists i, d, k. repeat split; assumption.
Qed.

(* the index-level conflict is the map-level conflict *)
Lemma conflict_iff ls cache pend d m u ks : InvCore ls cache pend d m ->
  (conflict (m_fields m) (m_idx m) ks u <-> uniq_conflict (m_fields m) (abs_of pend d m) u ks = true).
Proof.
  intros I. pose proof (ic_oi _ _ _ _ _ I) as IO. unfold uniq_conflict. rewrite existsb_exists. split.
  - intros Hc. destruct (conflict_cell _ _ _ _ IO Hc) as [i [fd [k [u' [Hd [Hu [Hk [Hne Hcell]]]]]]]].
    assert (Hi : is_indexed (m_idx m) u' = true).
    { destruct Hcell as [oid [l [Hin _]]]. apply is_indexed_true. apply (in_ids_snd _ _ _ Hin). }
    destruct (ic_indexed_stored _ _ _ _ _ I u' Hi) as [o S].
    exists (u', o). split; [apply (abs_In _ _ _ _ _ I); exact S|]. cbn [fst snd].
    apply andb_true_iff. split; [apply negb_true_iff; apply N.eqb_neq; exact Hne|].
    apply clash_iff. exists i, fd, k. repeat split; try assumption.
    apply (ic_entry_key _ _ _ _ _ I i u' k o S Hcell).
  - intros [[u' o] [Hin Hb]]. cbn [fst snd] in Hb. apply andb_true_iff in Hb. destruct Hb as [Hne Hcl].
    apply negb_true_iff in Hne. apply N.eqb_neq in Hne.
    apply (abs_In _ _ _ _ _ I) in Hin.
    apply clash_iff in Hcl. destruct Hcl as [i [fd [k [Hd [Hu [Hk Hk2]]]]]].
    assert (Hl : exists l : findex, nth_error (oi_fx (m_idx m)) i = Some (Some l)).
    { apply (shape_indexed _ _ i (inv_shape _ _ IO)). exists fd. split; [exact Hd|].
      unfold fd_indexed. rewrite Hu. apply orb_true_r. }
    destruct Hl as [l Hl].
    apply (cell_conflict _ _ ks u i fd k u' IO Hd Hu Hk Hne).
    apply (ic_key_entry _ _ _ _ _ I i u' k o l Hin Hl Hk2).
Qed.

(* ================================================================ two loaded schemas with the same view *)

Definition view_eq (m m' : mem) : Prop :=
  m_set m' = m_set m /\ m_fields m' = m_fields m /\ m_shape m' = m_shape m /\
  oi_ids (m_idx m') = oi_ids (m_idx m) /\ oi_fx (m_idx m') = oi_fx (m_idx m).

Lemma view_eq_refl m : view_eq m m.
Proof. repeat split. Qed.

Lemma view_async m m' : view_eq m m' -> async_on m' = async_on m.
Proof. intros [H _]. unfold async_on. rewrite H. reflexivity. Qed.

Lemma view_must_cache m m' : view_eq m m' -> must_cache m' = must_cache m.
Proof. intros V. unfold must_cache. rewrite (view_async _ _ V). destruct V as [H _]. rewrite H. reflexivity. Qed.

Lemma view_file_of m m' u : view_eq m m' -> file_of m' u = file_of m u.
Proof. intros [H _]. unfold file_of. rewrite H. reflexivity. Qed.

Lemma view_stored m m' pend d u : view_eq m m' -> stored pend d m' u = stored pend d m u.
Proof.
  intros V. unfold stored. rewrite (view_async _ _ V), (view_file_of _ _ u V). reflexivity.
Qed.

Lemma view_abs m m' pend d : view_eq m m' -> abs_of pend d m' = abs_of pend d m.
Proof.
  intros V. unfold abs_of. destruct V as [H1 [H2 [H3 [H4 H5]]]]. rewrite H4.
  apply flat_bind_ext. intros u _. apply view_stored. repeat split; assumption.
Qed.

Lemma view_indexed m m' u : view_eq m m' -> is_indexed (m_idx m') u = is_indexed (m_idx m) u.
Proof. intros [_ [_ [_ [H _]]]]. unfold is_indexed. rewrite H. reflexivity. Qed.

Lemma view_holds m m' u ks : view_eq m m' -> holds (m_idx m') u ks <-> holds (m_idx m) u ks.
Proof. intros [_ [_ [_ [H1 H2]]]]. unfold holds. rewrite H1, H2. reflexivity. Qed.

Lemma view_synced m m' pend d : view_eq m m' -> synced pend d m -> synced pend d m'.
Proof.
  intros [H1 [H2 [H3 [H4 H5]]]] [Hp [sf [S1 [S2 [S3 [S4 [S5 S6]]]]]]]. split; [exact Hp|].
  exists sf. rewrite H1, H2, H3, H4, H5. repeat split; assumption.
Qed.

Lemma view_core ls cache pend d m m' : view_eq m m' ->
  (forall oid, In oid (map fst (oi_ids (m_idx m))) -> (oid < oi_next (m_idx m'))%N) ->
  InvCore ls cache pend d m -> InvCore ls cache pend d m'.
Proof.
  intros V Hlt I. pose proof V as [H1 [H2 [H3 [H4 H5]]]]. pose proof (ic_oi _ _ _ _ _ I) as IO.
  constructor.
  - rewrite H2. constructor; rewrite ?H4, ?H5.
    + apply (inv_oid_nodup _ _ IO).
    + apply (inv_uuid_nodup _ _ IO).
    + exact Hlt.
    + apply (inv_shape _ _ IO).
    + apply (inv_fields _ _ IO).
  - rewrite H2. unfold UniqueOK. rewrite H5. apply (ic_uniq _ _ _ _ _ I).
  - rewrite H3. apply (ic_shape _ _ _ _ _ I).
  - intros oid u Hin. rewrite H4 in Hin. destruct (ic_agree _ _ _ _ _ I oid u Hin) as [o [A [B [C D]]]].
    exists o. rewrite (view_stored _ _ _ _ _ V), H2. repeat split; try assumption.
    apply (view_holds _ _ u (o_keys o) V). exact C.
  - apply (ic_dir _ _ _ _ _ I).
  - intros f c Hin. rewrite H1, (view_indexed _ _ _ V). apply (ic_files _ _ _ _ _ I f c Hin).
  - rewrite (view_async _ _ V). apply (ic_sync _ _ _ _ _ I).
  - intros u o Hu. rewrite (view_indexed _ _ _ V). apply (ic_pend _ _ _ _ _ I u o Hu).
  - apply (ic_pnodup _ _ _ _ _ I).
  - intros u o. rewrite (view_must_cache _ _ V), (view_stored _ _ _ _ _ V). apply (ic_cache _ _ _ _ _ I).
  - rewrite (view_must_cache _ _ V). apply (ic_nocache _ _ _ _ _ I).
  - rewrite H1, H2. apply (ic_schema _ _ _ _ _ I).
Qed.

(* same index: only [m_started] may differ *)
Lemma view_core_same ls cache pend d m m' : view_eq m m' -> m_idx m' = m_idx m ->
  InvCore ls cache pend d m -> InvCore ls cache pend d m'.
Proof.
  intros V Hix I. apply (view_core ls cache pend d m m' V); [|exact I].
  rewrite Hix. apply (inv_lt_next _ _ (ic_oi _ _ _ _ _ I)).
Qed.

Lemma view_loaded_same ls cache pend d m m' : view_eq m m' -> m_idx m' = m_idx m ->
  InvLoaded ls cache pend d m -> InvLoaded ls cache pend d m'.
Proof.
  intros V Hix [I S]. split; [apply (view_core_same ls cache pend d m m' V Hix I)|].
  rewrite (view_async _ _ V). intros Ha. apply (view_synced _ _ _ _ V). apply S. exact Ha.
Qed.

(* dropping the cache of a handle with nothing pending *)
Lemma core_drop_cache ls cache d m : InvCore ls cache [] d m -> InvCore ls [] [] d m.
Proof.
  intros I. constructor; try (apply I).
  - intros u o H. discriminate.
  - intros u o _ H. discriminate.
  - intros _. reflexivity.
Qed.

(* ================================================================ control *)

Lemma control_ok ls cache d m : InvCore ls cache [] d m -> control_mem ls m d = None.
Proof.
  intros I. unfold control_mem. rewrite (ic_shape _ _ _ _ _ I), N.eqb_refl. cbn [negb].
  rewrite (control_of_inv _ _ (ic_oi _ _ _ _ _ I)). cbn [negb].
  assert (H1 : forallb (fun u => is_indexed (m_idx m) u) (disk_uuids d) = true).
  { apply forallb_forall. intros u Hu. apply rf_disk_uuids_In in Hu. destruct Hu as [f [c [Hin Hu]]].
    subst u. apply (ic_files _ _ _ _ _ I f c Hin). }
  assert (H2 : forallb (fun u => memN u (disk_uuids d)) (indexed_uuids (m_idx m)) = true).
  { apply forallb_forall. intros u Hu. apply rf_memN_In. apply rf_disk_uuids_In.
    apply is_indexed_true in Hu. destruct (ic_indexed_stored _ _ _ _ _ I u Hu) as [o S].
    rewrite stored_nopend in S.
    destruct (file_lookup (file_of m u) (d_files d)) as [c|] eqn:F; [|discriminate].
    exists (file_of m u), c. split; [apply rf_lookup_In; exact F|reflexivity]. }
  rewrite H1, H2. reflexivity.
Qed.

(* ================================================================ the schema lookup *)

(* a state whose schema is loaded, with its abstraction *)
Definition LState (ls : N) (h : handle) (w : world) (fds : list fdesc) (a : list (N * obj)) : Prop :=
  exists m, h_mem h = Some m /\ nofault w /\
            InvLoaded ls (h_cache h) (h_pend h) (w_disk w) m /\
            m_fields m = fds /\ abs_of (h_pend h) (w_disk w) m = a.

Definition synced_h (h : handle) (w : world) : Prop :=
  match h_mem h with Some m => synced (h_pend h) (w_disk w) m | None => True end.

Lemma LState_Inv ls h w fds a : LState ls h w fds a ->
  Inv ls (mk h w) /\ abs (mk h w) = Some {| sp_fds := fds; sp_map := a |}.
Proof.
  intros [m [Hm [Hn [I [Hf Ha]]]]]. unfold Inv, abs. cbn [mk s_h s_w]. rewrite Hm.
  split; [split; assumption|]. rewrite Hf, Ha. reflexivity.
Qed.

Lemma db_schema_on_loaded ls h d m : h_mem h = Some m ->
  exists h1 m1, db_schema ls h d = (h1, Some m1, None) /\ h_mem h1 = Some m1 /\
                view_eq m m1 /\ m_idx m1 = m_idx m /\
                h_cache h1 = h_cache h /\ h_pend h1 = h_pend h /\ h_cancel h1 = h_cancel h.
Proof.
  intros Hm. rewrite (db_schema_loaded ls h d m Hm).
  destruct (rf_start_flusher_mem h m Hm) as [m' [A [B [C [D [E [F [G K]]]]]]]].
  exists (start_flusher h), m'. rewrite A. repeat split; try assumption. rewrite B. reflexivity.
  rewrite B. reflexivity.
Qed.

(* the schema lookup from any state of the invariant whose collection exists *)
Lemma db_schema_ok ls h w fds a :
  Inv ls (mk h w) -> abs (mk h w) = Some {| sp_fds := fds; sp_map := a |} ->
  exists h1 m1, db_schema ls h (w_disk w) = (h1, Some m1, None) /\ h_mem h1 = Some m1 /\
                LState ls h1 w fds a /\ h_cancel h1 = h_cancel h /\
                (synced_h h w -> synced_h h1 w).
Proof.
  unfold Inv, abs. cbn [mk s_h s_w]. intros [Hn I] Ha. destruct (h_mem h) as [m|] eqn:Hm.
  - inversion Ha; subst. clear Ha.
    destruct (db_schema_on_loaded ls h (w_disk w) m Hm) as [h1 [m1 [A [B [V [Hix [C [D K]]]]]]]].
    exists h1, m1. split; [exact A|]. split; [exact B|]. split; [|split; [exact K|]].
    + exists m1. split; [exact B|]. split; [exact Hn|]. rewrite C, D.
      split; [apply (view_loaded_same _ _ _ _ m m1 V Hix I)|].
      split; [apply V|apply (view_abs _ _ _ _ V)].
    + unfold synced_h. rewrite Hm, B, D. apply (view_synced _ _ _ _ V).
  - destruct I as [Hc [Hp [Hfl DK]]]. destruct DK as [[_ [Hs _]]|[sf [Hs IC]]].
    + rewrite Hs in Ha. discriminate.
    + rewrite Hs in Ha. inversion Ha; subst. clear Ha.
      unfold db_schema. rewrite Hm, (ic_dir _ _ _ _ _ IC), Hs. cbn [negb].
      rewrite (control_ok ls [] (w_disk w) (mem_of sf) IC).
      assert (Hm2 : h_mem (set_mem h (Some (mem_of sf))) = Some (mem_of sf)) by reflexivity.
      destruct (rf_start_flusher_mem _ _ Hm2) as [m' [A [B [C [D [E [F [G K]]]]]]]].
      cbn [set_mem h_cache h_pend h_cancel] in F, G, K.
      assert (V : view_eq (mem_of sf) m') by (repeat split; try assumption; rewrite B; reflexivity).
      exists (start_flusher (set_mem h (Some (mem_of sf)))), m'. rewrite A.
      split; [reflexivity|]. split; [reflexivity|]. split; [|split; [exact K|]].
      * exists m'. split; [exact A|]. split; [exact Hn|]. rewrite F, G, Hc, Hp.
        split; [|split; [exact D|apply (view_abs _ _ _ _ V)]].
        apply (view_loaded_same _ _ _ _ (mem_of sf) m' V B). split; [exact IC|].
        intros _. split; [reflexivity|]. exists sf. repeat split. exact Hs.
      * intros _. unfold synced_h. rewrite A, G, Hp. apply (view_synced _ _ _ _ V).
        split; [reflexivity|]. exists sf. repeat split. exact Hs.
Qed.

(* ... and when it does not exist *)
Lemma db_schema_absent ls h w : Inv ls (mk h w) -> abs (mk h w) = None ->
  db_schema ls h (w_disk w) = (h, None, Some ENotFound) /\ h_mem h = None /\
  d_dir (w_disk w) = false /\ d_schema (w_disk w) = None /\ d_files (w_disk w) = [].
Proof.
  unfold Inv, abs. cbn [mk s_h s_w]. intros [Hn I] Ha. destruct (h_mem h) as [m|] eqn:Hm; [discriminate|].
  destruct I as [Hc [Hp [Hfl DK]]]. destruct DK as [[Hd [Hs Hf]]|[sf [Hs IC]]].
  - unfold db_schema. rewrite Hm, Hd. cbn [negb]. repeat split; assumption.
  - rewrite Hs in Ha. discriminate.
Qed.

(* ================================================================ reads *)

Lemma cache_put_ok ls cache pend d m u o : InvCore ls cache pend d m -> must_cache m = true ->
  stored pend d m u = Some o -> InvCore ls (put u o cache) pend d m.
Proof.
  intros I Hmc S. constructor; try (apply I).
  - intros v o' Hv. split; [apply (ic_pend _ _ _ _ _ I v o' Hv)|]. rewrite rf_assoc_put.
    destruct (N.eqb v u) eqn:E; [|apply (ic_pend _ _ _ _ _ I v o' Hv)].
    apply N.eqb_eq in E. subst v. rewrite (ic_stored_pend _ _ _ _ _ I u o' Hv) in S. symmetry. exact S.
  - intros v o' Hmc0. rewrite rf_assoc_put. destruct (N.eqb v u) eqn:E.
    + apply N.eqb_eq in E. subst v. intros H. inversion H; subst. exact S.
    + apply (ic_cache _ _ _ _ _ I v o' Hmc0).
  - intros Hc. congruence.
Qed.

Lemma get_with_ok ls h d m u : InvCore ls (h_cache h) (h_pend h) d m ->
  exists h', get_with h m d u =
               (h', match stored (h_pend h) d m u with Some o => Ok o | None => Err ENotFound end) /\
             h_mem h' = h_mem h /\ h_pend h' = h_pend h /\
             InvCore ls (h_cache h') (h_pend h) d m.
Proof.
  intros I. unfold get_with.
  assert (Hmiss : (if must_cache m then assoc u (h_cache h) else None) = None ->
                  stored (h_pend h) d m u =
                  match file_lookup (file_of m u) (d_files d) with Some (COk o) => Some o | _ => None end).
  { intros Hc. apply stored_file. intros Ha. destruct (assoc u (h_pend h)) as [o|] eqn:E; [|reflexivity].
    destruct (ic_pend _ _ _ _ _ I u o E) as [_ Hcache]. unfold must_cache in Hc. rewrite Ha, orb_true_r in Hc.
    congruence. }
  destruct (if must_cache m then assoc u (h_cache h) else None) as [o|] eqn:Ec.
  - exists h. destruct (must_cache m) eqn:Emc; [|discriminate].
    rewrite (ic_cache _ _ _ _ _ I u o Emc Ec). split; [reflexivity|]. split; [reflexivity|]. split; [reflexivity|exact I].
  - rewrite (Hmiss eq_refl). destruct (file_lookup (file_of m u) (d_files d)) as [c|] eqn:F.
    + destruct (ic_lookup_ok _ _ _ _ _ I u c F) as [o ->].
      assert (S : stored (h_pend h) d m u = Some o) by (rewrite (Hmiss eq_refl); reflexivity).
      destruct (must_cache m) eqn:Emc.
      * exists (set_cache h (put u o (h_cache h))).
        split; [reflexivity|]. split; [reflexivity|]. split; [reflexivity|]. cbn [set_cache h_cache].
        apply cache_put_ok; assumption.
      * exists h. split; [reflexivity|]. split; [reflexivity|]. split; [reflexivity|exact I].
    + exists h. split; [reflexivity|]. split; [reflexivity|]. split; [reflexivity|exact I].
Qed.

Lemma exist_with_ok ls h d m u : InvCore ls (h_cache h) (h_pend h) d m ->
  exist_with h m d u = match stored (h_pend h) d m u with Some _ => true | None => false end.
Proof.
  intros I. unfold exist_with, stored. destruct (async_on m); cbn [andb orb].
  - destruct (assoc u (h_pend h)); [reflexivity|]. cbn [orb].
    destruct (file_lookup (file_of m u) (d_files d)) as [c|] eqn:F; [|reflexivity].
    destruct (ic_lookup_ok _ _ _ _ _ I u c F) as [o ->]. reflexivity.
  - destruct (file_lookup (file_of m u) (d_files d)) as [c|] eqn:F; [|reflexivity].
    destruct (ic_lookup_ok _ _ _ _ _ I u c F) as [o ->]. reflexivity.
Qed.

Lemma collect_all_ok ls d m pend : forall us h acc,
  h_pend h = pend -> InvCore ls (h_cache h) pend d m ->
  (forall u, In u us -> stored pend d m u <> None) ->
  exists h', collect_loop h m d (map (fun u => Some u) us) None acc =
               (h', rev acc ++ flat_map (bind pend d m) us, None, None) /\
             h_mem h' = h_mem h /\ h_pend h' = pend /\ InvCore ls (h_cache h') pend d m.
Proof.
  induction us as [|u r IH]; intros h acc Hp I Hall.
  - exists h. cbn [map collect_loop flat_map]. rewrite app_nil_r.
    split; [reflexivity|]. split; [reflexivity|]. split; assumption.
  - cbn [map collect_loop]. rewrite <- Hp in I.
    destruct (get_with_ok ls h d m u I) as [h1 [G [M1 [P1 I1]]]]. rewrite G.
    rewrite Hp in *. destruct (stored pend d m u) as [o|] eqn:S; [|exfalso; apply (Hall u (or_introl eq_refl)); exact S].
    rewrite <- P1 in I1.
    destruct (IH h1 ((u, o) :: acc) P1 ltac:(rewrite P1 in *; exact I1)
                 (fun v Hv => Hall v (or_intror Hv))) as [h' [C [M' [P' I']]]].
    exists h'. rewrite C. cbn [rev flat_map]. unfold bind at 2. rewrite S, <- app_assoc. cbn [app].
    split; [reflexivity|]. split; [congruence|]. split; assumption.
Qed.
