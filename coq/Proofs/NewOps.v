(* Proofs/NewOps.v: single-object Flush / FlushAndCommit and Search.Expects as operations.
   Flush(o) and FlushAndCommit(o) called with an object holding the LAST ACCEPTED value of a stored
   object keep the invariant and do not change the collection: the value moves from the pending
   store to its file (asynchronous mode) or is rewritten identically (synchronous mode). *)
From Coq Require Import List ZArith NArith Bool Lia.
Import ListNotations.
From Sod.Model Require Import Base FieldIndex ObjIndex DB.
From Sod.Proofs Require Import OIProofs OIProofs2 DBBasic DBStruct1 DBStruct3 Refine1 Refine2 Refine3 Refine4 Refine5.

Lemma remove_key_nil_of_nil {B} k (l : list (N * B)) : l = [] -> remove_key k l = [].
Proof. intros ->. reflexivity. Qed.

(* writing the accepted value of u to its file and forgetting its pending entry *)
Lemma flush_one_core ls cache pend d m u ob :
  InvCore ls cache pend d m -> stored pend d m u = Some ob ->
  let d' := disk_set_file (file_of m u) (COk ob) d in
  InvCore ls cache (remove_key u pend) d' m /\
  (forall v, stored (remove_key u pend) d' m v = stored pend d m v).
Proof.
  intros I S d'.
  assert (Hst : forall v, stored (remove_key u pend) d' m v = stored pend d m v).
  { intros v. destruct (N.eq_dec v u) as [->|Ne].
    - rewrite S. unfold stored, d'. cbn [disk_set_file d_files]. rewrite rf_lookup_put, file_of_eqb, N.eqb_refl, assoc_remove_same.
      destruct (async_on m); reflexivity.
    - unfold stored, d'. cbn [disk_set_file d_files]. rewrite rf_lookup_put, file_of_eqb.
      rewrite (proj2 (N.eqb_neq v u) Ne), (assoc_remove_other u v pend (fun E => Ne (eq_sym E))). reflexivity. }
  split; [|exact Hst]. constructor.
  - apply (ic_oi _ _ _ _ _ I).
  - apply (ic_uniq _ _ _ _ _ I).
  - apply (ic_shape _ _ _ _ _ I).
  - intros oid v Hi. rewrite Hst. apply (ic_agree _ _ _ _ _ I oid v Hi).
  - apply (ic_dir _ _ _ _ _ I).
  - intros f c Hi. unfold d' in Hi. cbn [disk_set_file d_files] in Hi. apply rf_In_put in Hi.
    destruct Hi as [[-> ->]|Hi]; [|apply (ic_files _ _ _ _ _ I f c Hi)].
    split; [reflexivity|]. split; [|exists ob; reflexivity]. cbn [file_of fn_uuid].
    apply (ic_stored_indexed ls cache pend d m I u ob S).
  - intros A. rewrite (ic_sync _ _ _ _ _ I A). reflexivity.
  - intros v o Ha. destruct (N.eq_dec v u) as [->|Ne]; [rewrite assoc_remove_same in Ha; discriminate|].
    rewrite (assoc_remove_other u v pend (fun E => Ne (eq_sym E))) in Ha. apply (ic_pend _ _ _ _ _ I v o Ha).
  - apply rf_remove_nodup. apply (ic_pnodup _ _ _ _ _ I).
  - intros v o Mc Hc. rewrite Hst. apply (ic_cache _ _ _ _ _ I v o Mc Hc).
  - apply (ic_nocache _ _ _ _ _ I).
  - apply (ic_schema _ _ _ _ _ I).
Qed.

(* after the schema lookup of writeObject: the accepted value of u goes to its file, its pending entry goes *)
Lemma flush_one_after_lookup ls h1 w fds a m1 u ob :
  LState ls h1 w fds a -> h_mem h1 = Some m1 -> assoc u a = Some ob ->
  exists w1,
    write_object w m1 u ob = (None, w1) /\
    LState ls (set_pend h1 (remove_key u (h_pend h1))) w1 fds a /\
    (synced_h h1 w -> synced_h (set_pend h1 (remove_key u (h_pend h1))) w1).
Proof.
  intros [m [Hm [Hn [[I Hsy] [Hf Ha]]]]] M1 Hu. rewrite M1 in Hm. inversion Hm; subst m. clear Hm.
  assert (S1 : stored (h_pend h1) (w_disk w) m1 u = Some ob).
  { rewrite <- (abs_assoc ls (h_cache h1) (h_pend h1) (w_disk w) m1 I u), Ha. exact Hu. }
  assert (Ser : forallb serialisable (o_keys ob) = true).
  { pose proof (ic_stored_indexed ls _ _ _ _ I u ob S1) as Hi. apply is_indexed_true in Hi.
    apply in_map_iff in Hi. destruct Hi as [[oid x] [Hx Hi]]. cbn in Hx. subst x.
    destruct (ic_agree _ _ _ _ _ I oid u Hi) as [o1 [E1 [_ [_ S2]]]]. rewrite S1 in E1. inversion E1; subst. exact S2. }
  destruct (rf_write_object w m1 u ob Hn (ic_dir _ _ _ _ _ I) Ser) as [w1 [W1 [N1 D1]]].
  exists w1. split; [exact W1|].
  destruct (flush_one_core ls (h_cache h1) (h_pend h1) (w_disk w) m1 u ob I S1) as [I2 Hst]. rewrite <- D1 in I2, Hst.
  assert (Sy : synced (h_pend h1) (w_disk w) m1 -> synced (remove_key u (h_pend h1)) (w_disk w1) m1).
  { intros [Pe [sf [Sc Rest]]]. split; [rewrite Pe; reflexivity|]. exists sf. rewrite D1. cbn [disk_set_file d_schema].
    split; [exact Sc|exact Rest]. }
  split.
  - exists m1. cbn [set_pend h_mem h_cache h_pend]. split; [exact M1|]. split; [exact N1|].
    split; [split; [exact I2|intros As; apply Sy; apply Hsy; exact As]|split; [exact Hf|]].
    rewrite <- Ha. unfold abs_of. apply flat_bind_ext. intros v _. apply Hst.
  - unfold synced_h. cbn [set_pend h_mem h_pend]. rewrite M1. exact Sy.
Qed.

Lemma step_flush_unfold hk ls s u ob c :
  step hk ls s (OFlushOne u ob c) =
  (let (s1, r) := step_fg hk ls s (OFlushOne u ob c) in
   if w_dead (s_w s1) then (mk new_handle (reset_w (s_w s1)), RCrash)
   else match settle ls (s_h s1) (reset_w (s_w s1)) with
        | Ok (h2, w3) => (mk h2 w3, r)
        | Err e => (mk (s_h s1) (reset_w (s_w s1)), r)
        | Panic => (mk (s_h s1) (reset_w (s_w s1)), RPanic)
        end).
Proof. reflexivity. Qed.

(* the foreground call *)
Lemma flush_one_fg hk ls h w fds a u ob c :
  Inv ls (mk h w) -> abs (mk h w) = Some {| sp_fds := fds; sp_map := a |} -> assoc u a = Some ob ->
  exists h2 w2, step_fg hk ls (mk h w) (OFlushOne u ob c) = (mk h2 w2, RUnit (Ok tt)) /\ LState ls h2 w2 fds a.
Proof.
  intros I Ha Hu. cbn [step_fg mk s_h s_w].
  assert (G : exists h0 w0, (if c then commit ls h w else (h, None, w)) = (h0, None, w0) /\
              Inv ls (mk h0 w0) /\ abs (mk h0 w0) = Some {| sp_fds := fds; sp_map := a |}).
  { destruct c.
    - destruct (commit_inv_ok ls h w fds a I Ha) as [h0 [w0 [C [L0 _]]]]. exists h0, w0. split; [exact C|].
      apply (LState_Inv _ _ _ _ _ L0).
    - exists h, w. split; [reflexivity|]. split; assumption. }
  destruct G as [h0 [w0 [C [I0 A0]]]]. rewrite C.
  destruct (db_schema_ok ls h0 w0 fds a I0 A0) as [h1 [m1 [D [M1 [L1 _]]]]]. rewrite D.
  destruct (flush_one_after_lookup ls h1 w0 fds a m1 u ob L1 M1 Hu) as [w1 [W [L2 _]]]. rewrite W.
  exists (set_pend h1 (remove_key u (h_pend h1))), w1. split; [reflexivity|exact L2].
Qed.

(* Flush(o) / FlushAndCommit(o) WITH THE LAST ACCEPTED VALUE of a stored object: the call succeeds, the
   invariant is kept and the collection is unchanged *)
Theorem flush_one_refines hk ls s u ob c sp :
  Inv ls s -> abs s = Some sp -> assoc u (sp_map sp) = Some ob ->
  Inv ls (fst (step hk ls s (OFlushOne u ob c))) /\
  abs (fst (step hk ls s (OFlushOne u ob c))) = abs s /\
  snd (step hk ls s (OFlushOne u ob c)) = RUnit (Ok tt).
Proof.
  intros I Ha Hu. destruct s as [h w]. change {| s_h := h; s_w := w |} with (mk h w) in *. destruct sp as [fds a]. cbn [sp_map] in Hu.
  destruct (flush_one_fg hk ls h w fds a u ob c I Ha Hu) as [h2 [w2 [F L2]]].
  rewrite step_flush_unfold, F. cbn [mk s_h s_w].
  destruct (LState_Inv _ _ _ _ _ L2) as [I2 A2].
  assert (Hd : w_dead w2 = false) by (destruct I2 as [[_ Hd] _]; exact Hd). rewrite Hd.
  pose proof (Inv_reset ls h2 w2 I2) as I2'.
  destruct (settle_ok ls _ _ I2') as [h3 [w3 [St [I3 [A3 _]]]]]. rewrite St. cbn [fst snd].
  split; [exact I3|]. split; [|reflexivity]. rewrite A3. pose proof (abs_reset (mk h2 w2)) as Ar. cbn [mk s_h s_w] in Ar. rewrite Ar, A2, Ha. reflexivity.
Qed.
Print Assumptions flush_one_refines.

Lemma find_srch_put_same h sid r : find_srch (set_srch h (put sid r (h_srch h))) sid = r.
Proof. unfold find_srch. cbn [set_srch h_srch]. rewrite assoc_put_same. reflexivity. Qed.

(* Expects / ExpectsZeroOrN: the value fails from then on exactly when the count is not the expected one;
   its entries never change *)
Theorem expects_spec hk ls s sid n z :
  sr_err (find_srch (s_h s) sid) = None ->
  let found := Z.of_nat (length (sr_fields (find_srch (s_h s) sid))) in
  let s1 := fst (step_fg hk ls s (OExpects sid n z)) in
  sr_fields (find_srch (s_h s1) sid) = sr_fields (find_srch (s_h s) sid) /\
  (sr_err (find_srch (s_h s1) sid) = None <-> (found = n \/ (z = true /\ found = 0%Z))) /\
  (sr_err (find_srch (s_h s1) sid) <> None -> sr_err (find_srch (s_h s1) sid) = Some EUnexpectedN).
Proof.
  intros He. cbv zeta. cbn [step_fg]. rewrite He.
  destruct ((Z.of_nat (length (sr_fields (find_srch (s_h s) sid))) =? n)%Z ||
            z && (Z.of_nat (length (sr_fields (find_srch (s_h s) sid))) =? 0)%Z) eqn:E; cbn [fst].
  - split; [reflexivity|]. rewrite He. split; [|intros X; congruence]. split; [intros _|reflexivity].
    apply orb_true_iff in E. destruct E as [E|E]; [left; apply Z.eqb_eq; exact E|].
    apply andb_true_iff in E. destruct E as [E1 E2]. right. split; [exact E1|apply Z.eqb_eq; exact E2].
  - cbn [mk s_h]. rewrite !find_srch_put_same. cbn [sr_fields sr_err].
    split; [reflexivity|]. split; [|intros _; reflexivity]. split; [discriminate|].
    intros [X|[X1 X2]]; exfalso; apply orb_false_iff in E; destruct E as [E1 E2].
    + apply Z.eqb_neq in E1. contradiction.
    + subst z. cbn in E2. apply Z.eqb_neq in E2. contradiction.
Qed.
Print Assumptions expects_spec.

(* ================================================================ histories with every covered call *)
From Sod.Proofs Require Import Batch Extended Reads.

Definition is_flush1 (o : op) : bool := match o with OFlushOne _ _ _ => true | _ => false end.

Definition wf_op4 (hk : hooks) (s : state) (o : op) : Prop :=
  match o with
  | OFlushOne u ob _ => exists sp, abs s = Some sp /\ assoc u (sp_map sp) = Some ob   (* the last accepted value *)
  | _ => if read_op o then True else wf_op2 hk s o
  end.

Fixpoint wf_hist4 (hk : hooks) (ls : N) (s : state) (ops : list op) : Prop :=
  match ops with
  | [] => True
  | o :: r => wf_op4 hk s o /\ wf_hist4 hk ls (fst (step hk ls s o)) r
  end.

(* EVERY HISTORY mixing the write / read / maintenance calls of C01 (single, batch, chunked, DeleteAll),
   search calls of any kind and arguments (Expects included) and single-object flushes of accepted
   values: the invariant holds at the end and the collection is what the map specification reaches on
   the history WITHOUT its search and flush calls *)
Theorem C01_history_all hk ls ops : forall s, Inv ls s -> wf_hist4 hk ls s ops ->
  Inv ls (run hk ls s ops) /\
  abs (run hk ls s ops) = fst (spec_run2 hk (abs s) (filter (fun o => negb (read_op o || is_flush1 o)) ops)).
Proof.
  induction ops as [|o r IH]; intros s I W.
  - cbn. split; [exact I|reflexivity].
  - destruct W as [W1 W2]. unfold run in *. cbn [fold_left filter].
    destruct (is_flush1 o) eqn:Hf.
    + destruct o; try discriminate Hf. rewrite orb_true_r. cbn [negb].
      destruct W1 as [sp [Ha Hu]].
      destruct (flush_one_refines hk ls s u ob withc sp I Ha Hu) as [I1 [A1 _]].
      destruct (IH _ I1 W2) as [I2 A2]. split; [exact I2|]. rewrite A2, A1. reflexivity.
    + assert (W1' : if read_op o then True else wf_op2 hk s o) by (destruct o; try exact W1; discriminate Hf).
      rewrite orb_false_r. destruct (read_op o) eqn:Hr; cbn [negb].
      * destruct (reads_are_silent hk ls s o I Hr) as [I1 [A1 _]].
        destruct (IH _ I1 W2) as [I2 A2]. split; [exact I2|]. rewrite A2, A1. reflexivity.
      * destruct (C01_refines_bulk hk ls s o I W1') as [I1 [A1 _]].
        destruct (IH _ I1 W2) as [I2 A2]. split; [exact I2|]. rewrite A2, A1. cbn [spec_run2].
        destruct (spec_step2 hk (abs s) o) as [a1 x]. cbn [fst].
        destruct (spec_run2 hk a1 (filter (fun o0 => negb (read_op o0 || is_flush1 o0)) r)). reflexivity.
Qed.
Print Assumptions C01_history_all.
