(* Proofs/OIProofs.v: the invariant of the object index (Model/ObjIndex.v) and the exact
   specification of satisfy_all / insert_or_update (existence, rejection iff conflict, the
   resulting index field by field, "exactly this object changed"), and preservation of the
   uniqueness of unique fields.  Delete / control / reload / search / batch validation are in
   Proofs/OIProofs2.v.  Built on the field-index theorems of FIProofs4/5 instantiated at [key]. *)
From Coq Require Import List ZArith NArith Bool Lia Permutation Arith.
Import ListNotations.
From Sod.Model Require Import Base FieldIndex ObjIndex.
From Sod.Proofs Require Import FIProofs1 FIProofs2 FIProofs3 FIProofs4 FIProofs5 KeyOrder SearchSpec.
Close Scope Z_scope.

Notation kins := (ins_pure key key_ltb).
Notation kdel := (del_pure key).

(* ------------------------------------------------------------------ definitions *)

(* a record's keys cover the field table (kind agreement is not needed by any theorem here:
   key_ltb is a strict weak order on the whole [key] type) *)
Definition keys_ok (fds : list fdesc) (ks : list key) : Prop := length ks = length fds.

Definition fx_wf (ids : list (N * N)) (l : findex) : Prop :=
  key_sorted l /\ NoDup (key_oids l) /\ (forall oid, In oid (key_oids l) <-> In oid (map fst ids)).

Record OIInv (fds : list fdesc) (ix : oindex) : Prop := {
  inv_oid_nodup  : NoDup (map fst (oi_ids ix));
  inv_uuid_nodup : NoDup (map snd (oi_ids ix));
  inv_lt_next    : forall oid, In oid (map fst (oi_ids ix)) -> (oid < oi_next ix)%N;
  inv_shape      : Forall2 (fun d o => (fd_indexed d = true <-> o <> None)) fds (oi_fx ix);
  inv_fields     : forall i l, nth_error (oi_fx ix) i = Some (Some l) -> fx_wf (oi_ids ix) l
}.

(* the key the index of field i holds for object id oid *)
Definition key_at (ix : oindex) (i : nat) (oid : N) : option key :=
  match nth_error (oi_fx ix) i with
  | Some (Some l) => option_map fst (fi_find_oid l oid)
  | _ => None
  end.

(* the index as an abstract table: uuid |-> keys at the indexed positions *)
Definition holds (ix : oindex) (u : N) (ks : list key) : Prop :=
  exists oid, In (oid, u) (oi_ids ix) /\
    forall i l, nth_error (oi_fx ix) i = Some (Some l) ->
                exists k, nth_error ks i = Some k /\ In (k, oid) l.

(* one cell of that table: object u has key k in (indexed) field i *)
Definition entry_of (ix : oindex) (i : nat) (u : N) (k : key) : Prop :=
  exists oid l, In (oid, u) (oi_ids ix) /\ nth_error (oi_fx ix) i = Some (Some l) /\ In (k, oid) l.

(* a conflicting object: another uuid holding an equal key in a unique field *)
Definition conflict (fds : list fdesc) (ix : oindex) (ks : list key) (u : N) : Prop :=
  exists i d l k e, nth_error fds i = Some d /\ fd_unique d = true /\
                    nth_error (oi_fx ix) i = Some (Some l) /\
                    nth_error ks i = Some k /\ In e l /\ key_eqb (fst e) k = true /\
                    oid_uuid ix (snd e) <> Some u.

(* no two stored objects hold equal values in a unique field *)
Definition UniqueOK (fds : list fdesc) (ix : oindex) : Prop :=
  forall i d l e1 e2, nth_error fds i = Some d -> fd_unique d = true ->
    nth_error (oi_fx ix) i = Some (Some l) -> In e1 l -> In e2 l ->
    key_eqb (fst e1) (fst e2) = true -> snd e1 = snd e2.

(* [fx'] is [fx] with every indexed field transformed according to R (same shape) *)
Definition fx_rel (R : nat -> findex -> findex -> Prop) (fx fx' : list (option findex)) : Prop :=
  forall i, match nth_error fx i with
            | None => nth_error fx' i = None
            | Some None => nth_error fx' i = Some None
            | Some (Some l) => exists l', nth_error fx' i = Some (Some l') /\ R i l l'
            end.

(* ------------------------------------------------------------------ generic list facts *)

Lemma NoDup_map_inj {A B} (f : A -> B) (l : list A) (x y : A) :
  NoDup (map f l) -> In x l -> In y l -> f x = f y -> x = y.
Proof.
  induction l as [|a l IH]; intros Hnd Hx Hy Hxy; [destruct Hx|].
  cbn [map] in Hnd. apply NoDup_cons_iff in Hnd. destruct Hnd as [Ha Hnd].
  destruct Hx as [Hx|Hx]; destruct Hy as [Hy|Hy].
  - congruence.
  - subst a. exfalso. apply Ha. rewrite Hxy. apply in_map. exact Hy.
  - subst a. exfalso. apply Ha. rewrite <- Hxy. apply in_map. exact Hx.
  - apply IH; assumption.
Qed.

Lemma NoDup_map_filter {A B} (f : A -> B) (P : A -> bool) (l : list A) :
  NoDup (map f l) -> NoDup (map f (filter P l)).
Proof.
  induction l as [|a l IH]; intros Hnd; cbn [filter]; [exact Hnd|].
  cbn [map] in Hnd. apply NoDup_cons_iff in Hnd. destruct Hnd as [Ha Hnd].
  destruct (P a); [|apply IH; exact Hnd].
  cbn [map]. apply NoDup_cons_iff. split; [|apply IH; exact Hnd].
  intros Hin. apply Ha. apply in_map_iff in Hin. destruct Hin as [x [Hx Hin]].
  apply filter_In in Hin. rewrite <- Hx. apply in_map. apply Hin.
Qed.

Lemma Forall2_nth_l {A B} (P : A -> B -> Prop) : forall a b i x,
  Forall2 P a b -> nth_error a i = Some x -> exists y, nth_error b i = Some y /\ P x y.
Proof.
  intros a b i x HF. revert i x. induction HF as [|x0 y0 a b Hxy HF IH]; intros i x Hn.
  - destruct i; discriminate.
  - destruct i as [|i]; cbn in *.
    + injection Hn as <-. exists y0. split; [reflexivity|exact Hxy].
    + apply IH. exact Hn.
Qed.

Lemma Forall2_nth_r {A B} (P : A -> B -> Prop) : forall a b i y,
  Forall2 P a b -> nth_error b i = Some y -> exists x, nth_error a i = Some x /\ P x y.
Proof.
  intros a b i y HF. revert i y. induction HF as [|x0 y0 a b Hxy HF IH]; intros i y Hn.
  - destruct i; discriminate.
  - destruct i as [|i]; cbn in *.
    + injection Hn as <-. exists x0. split; [reflexivity|exact Hxy].
    + apply IH. exact Hn.
Qed.

Lemma Forall2_len {A B} (P : A -> B -> Prop) a b : Forall2 P a b -> length a = length b.
Proof. intros HF. induction HF as [|x y a b _ _ IH]; cbn; [reflexivity|]. rewrite IH. reflexivity. Qed.

Lemma Forall2_nth_intro {A B} (P : A -> B -> Prop) : forall a b,
  length a = length b ->
  (forall i x y, nth_error a i = Some x -> nth_error b i = Some y -> P x y) ->
  Forall2 P a b.
Proof.
  induction a as [|x a IH]; intros [|y b] Hlen Hall; try discriminate; constructor.
  - apply (Hall 0 x y); reflexivity.
  - apply IH; [cbn in Hlen; lia|]. intros i x' y' Hx Hy. apply (Hall (S i)); assumption.
Qed.

(* ------------------------------------------------------------------ 2. the id table *)

Lemma uuid_oid_In ids u oid : uuid_oid ids u = Some oid -> In (oid, u) ids.
Proof.
  induction ids as [|[o u'] r IH]; cbn [uuid_oid]; [discriminate|].
  destruct (N.eqb u u') eqn:E.
  - apply N.eqb_eq in E. subst u'. intros H. injection H as ->. left. reflexivity.
  - intros H. right. apply IH. exact H.
Qed.

Lemma uuid_oid_None ids u : uuid_oid ids u = None <-> ~ In u (map snd ids).
Proof.
  induction ids as [|[o u'] r IH]; cbn [uuid_oid map snd].
  - split; [intros _ []|reflexivity].
  - destruct (N.eqb u u') eqn:E.
    + apply N.eqb_eq in E. subst u'. split; [discriminate|]. intros H. exfalso. apply H. left. reflexivity.
    + apply N.eqb_neq in E. rewrite IH. split.
      * intros H [H1|H1]; [apply E; symmetry; exact H1|exact (H H1)].
      * intros H H1. apply H. right. exact H1.
Qed.

Theorem uuid_oid_spec ids u oid : NoDup (map snd ids) ->
  (uuid_oid ids u = Some oid <-> In (oid, u) ids).
Proof.
  intros Hnd. split; [apply uuid_oid_In|]. intros Hin.
  destruct (uuid_oid ids u) as [o|] eqn:E.
  - apply uuid_oid_In in E. f_equal.
    pose proof (NoDup_map_inj snd ids (o, u) (oid, u) Hnd E Hin eq_refl) as H. congruence.
  - exfalso. apply (proj1 (uuid_oid_None ids u) E).
    change u with (snd (oid, u)). apply in_map. exact Hin.
Qed.
Print Assumptions uuid_oid_spec.

Lemma assoc_In {B} (l : list (N * B)) k v : assoc k l = Some v -> In (k, v) l.
Proof.
  induction l as [|[k' v'] r IH]; cbn [assoc]; [discriminate|].
  destruct (N.eqb k k') eqn:E.
  - apply N.eqb_eq in E. subst k'. intros H. injection H as ->. left. reflexivity.
  - intros H. right. apply IH. exact H.
Qed.

Lemma assoc_None {B} (l : list (N * B)) k : assoc k l = None <-> ~ In k (map fst l).
Proof.
  induction l as [|[k' v'] r IH]; cbn [assoc map fst].
  - split; [intros _ []|reflexivity].
  - destruct (N.eqb k k') eqn:E.
    + apply N.eqb_eq in E. subst k'. split; [discriminate|]. intros H. exfalso. apply H. left. reflexivity.
    + apply N.eqb_neq in E. rewrite IH. split.
      * intros H [H1|H1]; [apply E; symmetry; exact H1|exact (H H1)].
      * intros H H1. apply H. right. exact H1.
Qed.

Theorem oid_uuid_spec ix oid u : NoDup (map fst (oi_ids ix)) ->
  (oid_uuid ix oid = Some u <-> In (oid, u) (oi_ids ix)).
Proof.
  intros Hnd. unfold oid_uuid. split; [apply assoc_In|]. intros Hin.
  destruct (assoc oid (oi_ids ix)) as [v|] eqn:E.
  - apply assoc_In in E. f_equal.
    pose proof (NoDup_map_inj fst (oi_ids ix) (oid, v) (oid, u) Hnd E Hin eq_refl) as H. congruence.
  - exfalso. apply (proj1 (assoc_None (oi_ids ix) oid) E).
    change oid with (fst (oid, u)). apply in_map. exact Hin.
Qed.
Print Assumptions oid_uuid_spec.

Lemma is_indexed_true ix u : is_indexed ix u = true <-> In u (map snd (oi_ids ix)).
Proof.
  unfold is_indexed. destruct (uuid_oid (oi_ids ix) u) as [o|] eqn:E.
  - split; [intros _|reflexivity]. apply uuid_oid_In in E.
    change u with (snd (o, u)). apply in_map. exact E.
  - split; [discriminate|]. intros H. exfalso. apply (proj1 (uuid_oid_None _ _) E). exact H.
Qed.

Lemma is_indexed_false ix u : is_indexed ix u = false <-> ~ In u (map snd (oi_ids ix)).
Proof.
  rewrite <- is_indexed_true. destruct (is_indexed ix u); split; congruence.
Qed.

Lemma in_ids_fst (ids : list (N * N)) oid u : In (oid, u) ids -> In oid (map fst ids).
Proof. intros H. change oid with (fst (oid, u)). apply in_map. exact H. Qed.

Lemma in_ids_snd (ids : list (N * N)) oid u : In (oid, u) ids -> In u (map snd ids).
Proof. intros H. change u with (snd (oid, u)). apply in_map. exact H. Qed.

Lemma in_fst_ids (ids : list (N * N)) oid : In oid (map fst ids) -> exists u, In (oid, u) ids.
Proof.
  intros H. apply in_map_iff in H. destruct H as [[o u] [Ho Hin]]. cbn in Ho. subst o.
  exists u. exact Hin.
Qed.

Lemma ids_same_uuid fds ix a b u : OIInv fds ix ->
  In (a, u) (oi_ids ix) -> In (b, u) (oi_ids ix) -> a = b.
Proof.
  intros I Ha Hb.
  pose proof (NoDup_map_inj snd _ (a, u) (b, u) (inv_uuid_nodup _ _ I) Ha Hb eq_refl) as H. congruence.
Qed.

Lemma ids_same_oid fds ix o u v : OIInv fds ix ->
  In (o, u) (oi_ids ix) -> In (o, v) (oi_ids ix) -> u = v.
Proof.
  intros I Ha Hb.
  pose proof (NoDup_map_inj fst _ (o, u) (o, v) (inv_oid_nodup _ _ I) Ha Hb eq_refl) as H. congruence.
Qed.

(* an entry of a field index belongs to an indexed object *)
Lemma entry_owner fds ix i l e : OIInv fds ix -> nth_error (oi_fx ix) i = Some (Some l) -> In e l ->
  exists u, In (snd e, u) (oi_ids ix).
Proof.
  intros I Hl He. destruct (inv_fields _ _ I i l Hl) as [_ [_ Hoids]].
  apply in_fst_ids. apply Hoids. unfold oids. apply in_map. exact He.
Qed.

(* ------------------------------------------------------------------ shape *)

Lemma shape_indexed fds fx i :
  Forall2 (fun d o => (fd_indexed d = true <-> o <> None)) fds fx ->
  ((exists l : findex, nth_error fx i = Some (Some l)) <->
   (exists d, nth_error fds i = Some d /\ fd_indexed d = true)).
Proof.
  intros HF. split.
  - intros [l Hl]. destruct (Forall2_nth_r _ _ _ _ _ HF Hl) as [d [Hd Hp]].
    exists d. split; [exact Hd|]. apply Hp. discriminate.
  - intros [d [Hd Hi]]. destruct (Forall2_nth_l _ _ _ _ _ HF Hd) as [o [Ho Hp]].
    destruct o as [l|]; [exists l; exact Ho|]. exfalso. apply (proj1 Hp Hi). reflexivity.
Qed.

Lemma inv_len fds ix : OIInv fds ix -> length (oi_fx ix) = length fds.
Proof. intros I. symmetry. apply (Forall2_len _ _ _ (inv_shape _ _ I)). Qed.

(* two indexes over the same field table index the same fields *)
Lemma same_shape fds ix1 ix2 i : OIInv fds ix1 -> OIInv fds ix2 ->
  ((exists l : findex, nth_error (oi_fx ix1) i = Some (Some l)) <->
   (exists l : findex, nth_error (oi_fx ix2) i = Some (Some l))).
Proof.
  intros I1 I2. rewrite (shape_indexed fds _ i (inv_shape _ _ I1)).
  rewrite (shape_indexed fds _ i (inv_shape _ _ I2)). reflexivity.
Qed.

(* ------------------------------------------------------------------ fx_rel *)

Lemma fx_rel_fwd R fx fx' i l : fx_rel R fx fx' -> nth_error fx i = Some (Some l) ->
  exists l', nth_error fx' i = Some (Some l') /\ R i l l'.
Proof. intros H Hl. specialize (H i). rewrite Hl in H. exact H. Qed.

Lemma fx_rel_bwd R fx fx' i l' : fx_rel R fx fx' -> nth_error fx' i = Some (Some l') ->
  exists l, nth_error fx i = Some (Some l) /\ R i l l'.
Proof.
  intros H Hl'. specialize (H i). destruct (nth_error fx i) as [[l|]|].
  - destruct H as [l2 [H1 H2]]. exists l. split; [reflexivity|]. congruence.
  - congruence.
  - congruence.
Qed.

Lemma fx_rel_length R fx fx' : fx_rel R fx fx' -> length fx' = length fx.
Proof.
  intros H. destruct (Nat.lt_trichotomy (length fx') (length fx)) as [Hlt|[Heq|Hgt]]; [|exact Heq|].
  - exfalso. specialize (H (length fx')).
    assert (Hn : nth_error fx' (length fx') = None) by (apply nth_error_None; lia).
    destruct (nth_error fx (length fx')) as [[l|]|] eqn:E.
    + destruct H as [l' [H1 _]]. congruence.
    + congruence.
    + apply nth_error_None in E. lia.
  - exfalso. specialize (H (length fx)).
    assert (Hn : nth_error fx (length fx) = None) by (apply nth_error_None; lia).
    rewrite Hn in H. apply nth_error_None in H. lia.
Qed.

Lemma fx_rel_shape R fds fx fx' : fx_rel R fx fx' ->
  Forall2 (fun d o => (fd_indexed d = true <-> o <> None)) fds fx ->
  Forall2 (fun d (o : option findex) => (fd_indexed d = true <-> o <> None)) fds fx'.
Proof.
  intros H HF. apply Forall2_nth_intro.
  - rewrite (fx_rel_length R fx fx' H). apply (Forall2_len _ _ _ HF).
  - intros i d o' Hd Ho'. destruct (Forall2_nth_l _ _ _ _ _ HF Hd) as [o [Ho Hp]].
    specialize (H i). rewrite Ho in H. destruct o as [l|].
    + destruct H as [l' [H1 _]]. rewrite Hp. split; intros _; congruence.
    + rewrite Hp. assert (Ho'n : o' = None) by congruence. subst o'. reflexivity.
Qed.

(* the generic preservation step: new id table, new counter, every field index transformed
   into a well-formed one *)
Lemma inv_step fds ix ids' next' fx' R :
  OIInv fds ix -> fx_rel R (oi_fx ix) fx' ->
  NoDup (map fst ids') -> NoDup (map snd ids') ->
  (forall oid, In oid (map fst ids') -> (oid < next')%N) ->
  (forall i l l', nth_error (oi_fx ix) i = Some (Some l) -> R i l l' -> fx_wf ids' l') ->
  OIInv fds {| oi_next := next'; oi_ids := ids'; oi_fx := fx' |}.
Proof.
  intros I HR Hn1 Hn2 Hlt Hwf. constructor; cbn [oi_next oi_ids oi_fx].
  - exact Hn1.
  - exact Hn2.
  - exact Hlt.
  - apply (fx_rel_shape R fds (oi_fx ix) fx' HR (inv_shape _ _ I)).
  - intros i l' Hl'. destruct (fx_rel_bwd R _ _ i l' HR Hl') as [l [Hl HRl]].
    apply (Hwf i l l' Hl HRl).
Qed.

(* ------------------------------------------------------------------ 1. new_index *)

Lemma new_index_nth fds i l : nth_error (oi_fx (new_index fds)) i = Some (Some l) -> l = [].
Proof.
  unfold new_index. cbn [oi_fx]. intros H.
  destruct (nth_error fds i) as [d|] eqn:E.
  - rewrite (map_nth_error _ _ _ E) in H. destruct (fd_indexed d); congruence.
  - apply nth_error_None in E.
    assert (Hn : nth_error (map (fun f => if fd_indexed f then Some (@nil (key * N)) else None) fds) i = None)
      by (apply nth_error_None; rewrite map_length; exact E).
    congruence.
Qed.

Theorem new_index_inv fds : OIInv fds (new_index fds).
Proof.
  constructor.
  - cbn. constructor.
  - cbn. constructor.
  - cbn. intros oid [].
  - unfold new_index. cbn [oi_fx]. induction fds as [|d r IH]; cbn [map]; constructor; [|exact IH].
    destruct (fd_indexed d); split; congruence.
  - intros i l Hl. apply new_index_nth in Hl. subst l. split; [apply sorted_nil|].
    split; [constructor|]. cbn. intros oid. reflexivity.
Qed.
Print Assumptions new_index_inv.

Theorem new_index_unique fds : UniqueOK fds (new_index fds).
Proof.
  intros i d l e1 e2 _ _ Hl He1 _ _. apply new_index_nth in Hl. subst l. destruct He1.
Qed.
Print Assumptions new_index_unique.

(* ------------------------------------------------------------------ 3. satisfy_all *)

(* a violated unique constraint exhibits a witness entry (constructively) *)
Lemma satisfy_unique_false l oid exist k : key_sorted l -> NoDup (key_oids l) ->
  FieldIndex.satisfy_unique key key_ltb key_eqb l oid exist k = Some false ->
  exists e, In e l /\ key_eqb (fst e) k = true /\ ~ (exist = true /\ snd e = oid).
Proof.
  intros Hs Hnd H. rewrite (key_satisfy_unique_eq l oid exist k Hs) in H.
  assert (HF : forall e, In e (filter (fun e : key * N => key_eqb (fst e) k) l) ->
                         In e l /\ key_eqb (fst e) k = true) by (intros e; apply filter_In).
  pose proof (NoDup_oids_filter key (fun e => key_eqb (fst e) k) l Hnd) as HndF.
  unfold FieldIndex.entry in *.
  destruct (filter (fun e : key * N => key_eqb (fst e) k) l) as [|e1 [|e2 t]].
  - discriminate.
  - destruct (HF e1 (or_introl eq_refl)) as [Hin He]. exists e1. split; [exact Hin|]. split; [exact He|].
    intros [-> Hoid]. injection H as H. cbn in H. apply N.eqb_neq in H. exact (H Hoid).
  - destruct (HF e1 (or_introl eq_refl)) as [Hin1 He1].
    destruct (HF e2 (or_intror (or_introl eq_refl))) as [Hin2 He2].
    unfold oids in HndF. cbn [map] in HndF. apply NoDup_cons_iff in HndF. destruct HndF as [Hn _].
    destruct (N.eq_dec (snd e1) oid) as [Heq|Hne].
    + exists e2. split; [exact Hin2|]. split; [exact He2|]. intros [_ Hoid]. apply Hn. left. congruence.
    + exists e1. split; [exact Hin1|]. split; [exact He1|]. intros [_ Hoid]. exact (Hne Hoid).
Qed.

(* the list-level statement: no panic on well-formed field indexes covered by the keys and
   the field table; false exactly when some unique field holds an equal key under another
   object id (or under any id when the object does not exist yet) *)
Lemma satisfy_all_gen : forall fx fds ks oid exist,
  length fx <= length ks -> length fx <= length fds ->
  (forall i l, nth_error fx i = Some (Some l) -> key_sorted l /\ NoDup (key_oids l)) ->
  exists b, satisfy_all fds ks fx oid exist = Some b /\
    (b = false <->
     exists i d l k e, nth_error fds i = Some d /\ fd_unique d = true /\
       nth_error fx i = Some (Some l) /\ nth_error ks i = Some k /\ In e l /\
       key_eqb (fst e) k = true /\ ~ (exist = true /\ snd e = oid)).
Proof.
  induction fx as [|o r IH]; intros fds ks oid exist Hks Hfds Hwf.
  - exists true. split; [destruct fds; reflexivity|]. split; [discriminate|].
    intros [i [d [l [k [e [_ [_ [H _]]]]]]]]. destruct i; discriminate.
  - destruct ks as [|k ks]; [cbn in Hks; lia|]. destruct fds as [|d ds]; [cbn in Hfds; lia|].
    assert (Hks' : length r <= length ks) by (cbn in Hks; lia).
    assert (Hfds' : length r <= length ds) by (cbn in Hfds; lia).
    assert (Hwf' : forall i l, nth_error r i = Some (Some l) -> key_sorted l /\ NoDup (key_oids l))
      by (intros i l Hl; apply (Hwf (S i) l Hl)).
    destruct (IH ds ks oid exist Hks' Hfds' Hwf') as [b [Hb Hiff]].
    assert (Hshift : (exists i d0 l k0 e, nth_error ds i = Some d0 /\ fd_unique d0 = true /\
               nth_error r i = Some (Some l) /\ nth_error ks i = Some k0 /\ In e l /\
               key_eqb (fst e) k0 = true /\ ~ (exist = true /\ snd e = oid)) ->
             exists i d0 l k0 e, nth_error (d :: ds) i = Some d0 /\ fd_unique d0 = true /\
               nth_error (o :: r) i = Some (Some l) /\ nth_error (k :: ks) i = Some k0 /\ In e l /\
               key_eqb (fst e) k0 = true /\ ~ (exist = true /\ snd e = oid)).
    { intros [i [d0 [l [k0 [e H]]]]]. exists (S i), d0, l, k0, e. exact H. }
    destruct o as [l|]; cbn [satisfy_all].
    + destruct (fd_unique d) eqn:Eu.
      * destruct (Hwf 0 l eq_refl) as [Hs Hnd].
        destruct (key_satisfy_unique_spec l oid exist k Hs Hnd) as [b0 [Hb0 Hiff0]].
        unfold fi_satisfy_unique. rewrite Hb0. destruct b0.
        -- exists b. split; [exact Hb|]. split.
           ++ intros Hf. apply Hshift. apply Hiff. exact Hf.
           ++ intros [i [d0 [l0 [k0 [e [H1 [H2 [H3 [H4 [H5 [H6 H7]]]]]]]]]]].
              destruct i as [|i].
              ** exfalso. cbn in H1, H3, H4. injection H1 as <-. injection H3 as <-. injection H4 as <-.
                 apply H7. apply (proj1 Hiff0 eq_refl e H5 H6).
              ** apply Hiff. exists i, d0, l0, k0, e. cbn in H1, H3, H4. repeat split; assumption.
        -- exists false. split; [reflexivity|]. split; [|reflexivity]. intros _.
           destruct (satisfy_unique_false l oid exist k Hs Hnd Hb0) as [e [He1 [He2 He3]]].
           exists 0, d, l, k, e. cbn. repeat split; assumption.
      * exists b. split; [exact Hb|]. split.
        -- intros Hf. apply Hshift. apply Hiff. exact Hf.
        -- intros [i [d0 [l0 [k0 [e [H1 [H2 [H3 [H4 [H5 [H6 H7]]]]]]]]]]].
           destruct i as [|i].
           ++ cbn in H1. injection H1 as <-. congruence.
           ++ apply Hiff. exists i, d0, l0, k0, e. cbn in H1, H3, H4. repeat split; assumption.
    + exists b. split; [exact Hb|]. split.
      * intros Hf. apply Hshift. apply Hiff. exact Hf.
      * intros [i [d0 [l0 [k0 [e [H1 [H2 [H3 [H4 [H5 [H6 H7]]]]]]]]]]].
        destruct i as [|i]; [cbn in H3; discriminate|].
        apply Hiff. exists i, d0, l0, k0, e. cbn in H1, H3, H4. repeat split; assumption.
Qed.

(* never panics; Some false exactly when another stored object holds an equal key in a
   unique field *)
Theorem satisfy_all_spec fds ix ks u : OIInv fds ix -> keys_ok fds ks ->
  exists b, oi_satisfy_all fds ix ks u = Some b /\ (b = false <-> conflict fds ix ks u).
Proof.
  intros I Hk. unfold oi_satisfy_all. unfold keys_ok in Hk.
  assert (Hl1 : length (oi_fx ix) <= length ks) by (rewrite (inv_len _ _ I); lia).
  assert (Hl2 : length (oi_fx ix) <= length fds) by (rewrite (inv_len _ _ I); lia).
  assert (Hwf : forall i l, nth_error (oi_fx ix) i = Some (Some l) -> key_sorted l /\ NoDup (key_oids l)).
  { intros i l Hl. destruct (inv_fields _ _ I i l Hl) as [H1 [H2 _]]. split; assumption. }
  destruct (uuid_oid (oi_ids ix) u) as [oid|] eqn:E.
  - destruct (satisfy_all_gen (oi_fx ix) fds ks oid true Hl1 Hl2 Hwf) as [b [Hb Hiff]].
    exists b. split; [exact Hb|]. rewrite Hiff. unfold conflict. apply uuid_oid_In in E.
    split; intros [i [d [l [k [e [H1 [H2 [H3 [H4 [H5 [H6 H7]]]]]]]]]]]; exists i, d, l, k, e;
      repeat split; try assumption.
    + intros Hu. apply H7. split; [reflexivity|].
      apply (oid_uuid_spec ix _ _ (inv_oid_nodup _ _ I)) in Hu.
      apply (ids_same_uuid fds ix _ _ u I Hu E).
    + intros [_ Hoid]. apply H7. apply (oid_uuid_spec ix _ _ (inv_oid_nodup _ _ I)).
      rewrite Hoid. exact E.
  - destruct (satisfy_all_gen (oi_fx ix) fds ks 0%N false Hl1 Hl2 Hwf) as [b [Hb Hiff]].
    exists b. split; [exact Hb|]. rewrite Hiff. unfold conflict.
    split; intros [i [d [l [k [e [H1 [H2 [H3 [H4 [H5 [H6 H7]]]]]]]]]]]; exists i, d, l, k, e;
      repeat split; try assumption.
    + intros Hu. apply (oid_uuid_spec ix _ _ (inv_oid_nodup _ _ I)) in Hu.
      apply (proj1 (uuid_oid_None _ _) E). apply (in_ids_snd _ _ _ Hu).
    + intros [Hf _]. discriminate.
Qed.
Print Assumptions satisfy_all_spec.

(* ------------------------------------------------------------------ single fields *)

Lemma kins_In l e x : In x (kins l e) <-> x = e \/ In x l.
Proof.
  pose proof (ins_pure_perm key key_ltb l e) as P. split; intros H.
  - apply (Permutation_in _ P) in H. destruct H as [H|H]; [left; congruence|right; exact H].
  - apply (Permutation_in _ (Permutation_sym P)). destruct H as [H|H]; [left; congruence|right; exact H].
Qed.

Lemma kins_oids_perm l e : Permutation (key_oids (kins l e)) (snd e :: key_oids l).
Proof.
  unfold oids. change (snd e :: map (@snd key N) l) with (map (@snd key N) (e :: l)).
  apply Permutation_map. apply ins_pure_perm.
Qed.

Lemma wf_oid_lt ids next l x : fx_wf ids l -> (forall o, In o (map fst ids) -> (o < next)%N) ->
  In x l -> snd x <> next.
Proof.
  intros [_ [_ Ho]] Hlt Hx Heq.
  assert (H : In (snd x) (key_oids l)) by (unfold oids; apply in_map; exact Hx).
  apply Ho in H. apply Hlt in H. lia.
Qed.

Lemma field_insert ids next u l k : fx_wf ids l -> (forall o, In o (map fst ids) -> (o < next)%N) ->
  fi_insert l (k, next) = Some (kins l (k, next)) /\ fx_wf (ids ++ [(next, u)]) (kins l (k, next)).
Proof.
  intros Hwf Hlt. destruct Hwf as [Hs [Hnd Ho]]. split.
  - apply (insert_pure key key_ltb key_lt_negtrans). exact Hs.
  - split; [apply (ins_pure_sorted key key_ltb key_lt_irrefl key_lt_trans); exact Hs|].
    pose proof (kins_oids_perm l (k, next)) as P. cbn [snd] in P. split.
    + apply (Permutation_NoDup (Permutation_sym P)). constructor; [|exact Hnd].
      intros Hin. apply Ho in Hin. apply Hlt in Hin. lia.
    + intros oid. rewrite map_app, in_app_iff. cbn [map fst In]. split.
      * intros H. apply (Permutation_in _ P) in H.
        destruct H as [H|H]; [right; left; exact H|left; apply Ho; exact H].
      * intros H. apply (Permutation_in _ (Permutation_sym P)).
        destruct H as [H|[H|[]]]; [right; apply Ho; exact H|left; exact H].
Qed.

Lemma field_update ids l k oid : fx_wf ids l -> In oid (map fst ids) ->
  fi_update l (k, oid) = Some (kins (kdel l oid) (k, oid)) /\ fx_wf ids (kins (kdel l oid) (k, oid)).
Proof.
  intros [Hs [Hnd Ho]] Hin.
  assert (Hin' : In (snd (k, oid)) (key_oids l)) by (apply Ho; exact Hin).
  destruct (update_eq key key_ltb key_eqb key_lt_irrefl key_lt_negtrans key_eq_def l (k, oid) Hs Hnd Hin')
    as [_ U]. cbn [snd] in U.
  split; [exact U|].
  split; [exact (key_update_sorted l (k, oid) _ Hs Hnd U)|].
  split; [exact (key_update_NoDup l (k, oid) _ Hs Hnd U)|].
  intros o. rewrite (key_update_oids l (k, oid) _ Hs Hnd U o). apply Ho.
Qed.

Lemma remove_key_In (ids : list (N * N)) oid p : In p (remove_key oid ids) <-> In p ids /\ fst p <> oid.
Proof. unfold remove_key. rewrite filter_In, negb_true_iff, N.eqb_neq. reflexivity. Qed.

Lemma remove_key_fst_In (ids : list (N * N)) oid o :
  In o (map fst (remove_key oid ids)) <-> In o (map fst ids) /\ o <> oid.
Proof.
  rewrite !in_map_iff. split.
  - intros [p [Hp Hin]]. apply remove_key_In in Hin. destruct Hin as [Hin Hne]. subst o.
    split; [exists p; split; [reflexivity|exact Hin]|exact Hne].
  - intros [[p [Hp Hin]] Hne]. exists p. split; [exact Hp|]. apply remove_key_In. split; [exact Hin|congruence].
Qed.

Lemma field_delete ids l oid : fx_wf ids l -> In oid (map fst ids) ->
  fi_delete l oid = Some (kdel l oid) /\ fx_wf (remove_key oid ids) (kdel l oid).
Proof.
  intros [Hs [Hnd Ho]] Hin. split.
  - apply (delete_spec_oid key key_ltb key_eqb key_lt_irrefl key_lt_negtrans key_eq_def l oid Hs Hnd).
    apply Ho. exact Hin.
  - split; [apply (del_pure_sorted key key_ltb); exact Hs|].
    split; [apply del_pure_NoDup; exact Hnd|].
    intros o. rewrite del_pure_oids_In, remove_key_fst_In, Ho. reflexivity.
Qed.

(* ------------------------------------------------------------------ fx_map *)

Lemma fx_rel_mono (R1 R2 : nat -> findex -> findex -> Prop) fx fx' :
  (forall i l l', nth_error fx i = Some (Some l) -> R1 i l l' -> R2 i l l') ->
  fx_rel R1 fx fx' -> fx_rel R2 fx fx'.
Proof.
  intros Himp H i. specialize (H i). destruct (nth_error fx i) as [[l|]|] eqn:E; [|exact H|exact H].
  destruct H as [l' [H1 H2]]. exists l'. split; [exact H1|]. apply (Himp i l l' E H2).
Qed.

(* fx_map with a function that succeeds (with a known result) on every indexed field *)
Lemma fx_map_pure (f : key -> findex -> option findex) (g : key -> findex -> findex) :
  forall fx ks, length fx <= length ks ->
  (forall i l k, nth_error fx i = Some (Some l) -> nth_error ks i = Some k -> f k l = Some (g k l)) ->
  exists fx', fx_map f ks fx = Some fx' /\
    fx_rel (fun i l l' => exists k, nth_error ks i = Some k /\ l' = g k l) fx fx'.
Proof.
  induction fx as [|o r IH]; intros ks Hlen Hf.
  - exists []. split; [destruct ks; reflexivity|]. intros i. destruct i; reflexivity.
  - destruct ks as [|k ks]; [cbn in Hlen; lia|].
    assert (Hlen' : length r <= length ks) by (cbn in Hlen; lia).
    assert (Hf' : forall i l k0, nth_error r i = Some (Some l) -> nth_error ks i = Some k0 ->
                                 f k0 l = Some (g k0 l))
      by (intros i l k0 H1 H2; apply (Hf (S i) l k0 H1 H2)).
    destruct (IH ks Hlen' Hf') as [r' [Hr' Hrel]].
    destruct o as [l|]; cbn [fx_map].
    + rewrite (Hf 0 l k eq_refl eq_refl), Hr'. cbn [option_map].
      exists (Some (g k l) :: r'). split; [reflexivity|]. intros [|i].
      * cbn [nth_error]. exists (g k l). split; [reflexivity|]. exists k. split; reflexivity.
      * exact (Hrel i).
    + rewrite Hr'. cbn [option_map]. exists (None :: r'). split; [reflexivity|]. intros [|i].
      * reflexivity.
      * exact (Hrel i).
Qed.

Lemma fx_delete_pure oid : forall fx,
  (forall i l, nth_error fx i = Some (Some l) -> fi_delete l oid = Some (kdel l oid)) ->
  exists fx', fx_delete oid fx = Some fx' /\ fx_rel (fun _ l l' => l' = kdel l oid) fx fx'.
Proof.
  induction fx as [|o r IH]; intros Hf.
  - exists []. split; [reflexivity|]. intros i. destruct i; reflexivity.
  - assert (Hf' : forall i l, nth_error r i = Some (Some l) -> fi_delete l oid = Some (kdel l oid))
      by (intros i l H1; apply (Hf (S i) l H1)).
    destruct (IH Hf') as [r' [Hr' Hrel]].
    destruct o as [l|]; cbn [fx_delete].
    + rewrite (Hf 0 l eq_refl), Hr'. cbn [option_map].
      exists (Some (kdel l oid) :: r'). split; [reflexivity|]. intros [|i].
      * cbn [nth_error]. exists (kdel l oid). split; reflexivity.
      * exact (Hrel i).
    + rewrite Hr'. cbn [option_map]. exists (None :: r'). split; [reflexivity|]. intros [|i].
      * reflexivity.
      * exact (Hrel i).
Qed.

(* ------------------------------------------------------------------ 4. insert_or_update *)

(* the object id the operation writes: the existing one, or the next fresh one *)
Definition mod_oid (ix : oindex) (u : N) : N :=
  match uuid_oid (oi_ids ix) u with Some oid => oid | None => oi_next ix end.

(* the new content of one field index, as a pure list expression: (k, oid) is inserted after
   every entry with a key >= k into the index without the object's previous entry *)
Definition new_field (ix : oindex) (u : N) (k : key) (l : findex) : findex :=
  match uuid_oid (oi_ids ix) u with
  | Some oid => kins (kdel l oid) (k, oid)
  | None => kins l (k, oi_next ix)
  end.

Definition ids_after (ix : oindex) (u : N) : list (N * N) :=
  if is_indexed ix u then oi_ids ix else oi_ids ix ++ [(oi_next ix, u)].
Definition next_after (ix : oindex) (u : N) : N :=
  if is_indexed ix u then oi_next ix else N.succ (oi_next ix).

Definition Rmod (ix : oindex) (ks : list key) (u : N) : nat -> findex -> findex -> Prop :=
  fun i l l' => exists k, nth_error ks i = Some k /\ l' = new_field ix u k l.

Lemma iou_cases fds ix ks u : OIInv fds ix -> keys_ok fds ks ->
  exists b, oi_satisfy_all fds ix ks u = Some b /\ (b = false <-> conflict fds ix ks u) /\
    (b = false -> oi_insert_or_update fds ix ks u = Err EUnique) /\
    (b = true -> exists fx',
       oi_insert_or_update fds ix ks u =
         Ok {| oi_next := next_after ix u; oi_ids := ids_after ix u; oi_fx := fx' |} /\
       fx_rel (Rmod ix ks u) (oi_fx ix) fx').
Proof.
  intros I Hk. destruct (satisfy_all_spec fds ix ks u I Hk) as [b [Hb Hiff]].
  exists b. split; [exact Hb|]. split; [exact Hiff|].
  unfold oi_insert_or_update. rewrite Hb. split; [intros ->; reflexivity|]. intros ->.
  assert (Hlen : length (oi_fx ix) <= length ks)
    by (rewrite (inv_len _ _ I); unfold keys_ok in Hk; lia).
  unfold next_after, ids_after, is_indexed.
  destruct (uuid_oid (oi_ids ix) u) as [oid|] eqn:E.
  - assert (Hin : In oid (map fst (oi_ids ix))) by (apply uuid_oid_In in E; apply (in_ids_fst _ _ _ E)).
    destruct (fx_map_pure (fun k l => fi_update l (k, oid)) (fun k l => kins (kdel l oid) (k, oid))
                (oi_fx ix) ks Hlen) as [fx' [Hfx' Hrel]].
    { intros i l k Hl _. apply (field_update (oi_ids ix) l k oid (inv_fields _ _ I i l Hl) Hin). }
    rewrite Hfx'. exists fx'. split; [reflexivity|].
    revert Hrel. apply fx_rel_mono. intros i l l' _ [k [H1 H2]]. exists k. split; [exact H1|].
    unfold new_field. rewrite E. exact H2.
  - destruct (fx_map_pure (fun k l => fi_insert l (k, oi_next ix)) (fun k l => kins l (k, oi_next ix))
                (oi_fx ix) ks Hlen) as [fx' [Hfx' Hrel]].
    { intros i l k Hl _.
      apply (field_insert (oi_ids ix) (oi_next ix) u l k (inv_fields _ _ I i l Hl) (inv_lt_next _ _ I)). }
    rewrite Hfx'. exists fx'. split; [reflexivity|].
    revert Hrel. apply fx_rel_mono. intros i l l' _ [k [H1 H2]]. exists k. split; [exact H1|].
    unfold new_field. rewrite E. exact H2.
Qed.

(* what a successful call returns, in terms of ids_after / next_after / Rmod *)
Lemma iou_ok_core fds ix ks u ix' : OIInv fds ix -> keys_ok fds ks ->
  oi_insert_or_update fds ix ks u = Ok ix' ->
  oi_ids ix' = ids_after ix u /\ oi_next ix' = next_after ix u /\
  fx_rel (Rmod ix ks u) (oi_fx ix) (oi_fx ix') /\ ~ conflict fds ix ks u.
Proof.
  intros I Hk H. destruct (iou_cases fds ix ks u I Hk) as [b [_ [Hiff [Hf Ht]]]]. destruct b.
  - destruct (Ht eq_refl) as [fx' [Hok Hrel]]. rewrite Hok in H. injection H as <-.
    cbn [oi_ids oi_next oi_fx]. repeat split; try assumption.
    intros Hc. apply Hiff in Hc. discriminate.
  - rewrite (Hf eq_refl) in H. discriminate.
Qed.

(* --- the id table after the call *)

Lemma mod_oid_in ix u : In (mod_oid ix u, u) (ids_after ix u).
Proof.
  unfold mod_oid, ids_after, is_indexed. destruct (uuid_oid (oi_ids ix) u) as [oid|] eqn:E.
  - apply uuid_oid_In. exact E.
  - apply in_or_app. right. left. reflexivity.
Qed.

Lemma ids_after_other ix u oid' u' : u' <> u ->
  (In (oid', u') (ids_after ix u) <-> In (oid', u') (oi_ids ix)).
Proof.
  intros Hne. unfold ids_after. destruct (is_indexed ix u); [reflexivity|].
  rewrite in_app_iff. cbn [In]. split.
  - intros [H|[H|[]]]; [exact H|congruence].
  - intros H. left. exact H.
Qed.

Lemma ids_after_incl ix u p : In p (oi_ids ix) -> In p (ids_after ix u).
Proof.
  unfold ids_after. destruct (is_indexed ix u); [intros H; exact H|].
  intros H. apply in_or_app. left. exact H.
Qed.

Lemma mod_oid_other fds ix u oid' u' : OIInv fds ix -> In (oid', u') (oi_ids ix) -> u' <> u ->
  oid' <> mod_oid ix u.
Proof.
  intros I Hin Hne Heq. unfold mod_oid in Heq. destruct (uuid_oid (oi_ids ix) u) as [oid|] eqn:E.
  - apply uuid_oid_In in E. subst oid'. apply Hne. apply (ids_same_oid fds ix oid u' u I Hin E).
  - pose proof (inv_lt_next _ _ I oid' (in_ids_fst _ _ _ Hin)) as Hlt. lia.
Qed.

Lemma ids_after_uuids ix u u' : In u' (map snd (ids_after ix u)) <-> u' = u \/ In u' (map snd (oi_ids ix)).
Proof.
  unfold ids_after. destruct (is_indexed ix u) eqn:E.
  - apply is_indexed_true in E. split; [intros H; right; exact H|].
    intros [->|H]; [exact E|exact H].
  - rewrite map_app, in_app_iff. cbn [map snd In]. split.
    + intros [H|[H|[]]]; [right; exact H|left; symmetry; exact H].
    + intros [H|H]; [right; left; symmetry; exact H|left; exact H].
Qed.

Lemma ids_after_inv fds ix u : OIInv fds ix ->
  NoDup (map fst (ids_after ix u)) /\ NoDup (map snd (ids_after ix u)) /\
  (forall oid, In oid (map fst (ids_after ix u)) -> (oid < next_after ix u)%N).
Proof.
  intros I. unfold ids_after, next_after. destruct (is_indexed ix u) eqn:E.
  - split; [apply (inv_oid_nodup _ _ I)|]. split; [apply (inv_uuid_nodup _ _ I)|apply (inv_lt_next _ _ I)].
  - apply is_indexed_false in E. rewrite !map_app. cbn [map fst snd]. split; [|split].
    + apply (Permutation_NoDup (l := oi_next ix :: map fst (oi_ids ix))).
      * apply Permutation_cons_append.
      * constructor; [|apply (inv_oid_nodup _ _ I)]. intros Hin.
        pose proof (inv_lt_next _ _ I _ Hin). lia.
    + apply (Permutation_NoDup (l := u :: map snd (oi_ids ix))).
      * apply Permutation_cons_append.
      * constructor; [exact E|apply (inv_uuid_nodup _ _ I)].
    + intros oid Hin. apply in_app_or in Hin. destruct Hin as [Hin|[Hin|[]]].
      * pose proof (inv_lt_next _ _ I _ Hin). lia.
      * lia.
Qed.

(* --- one field after the call *)

Lemma Rmod_wf fds ix ks u i l l' : OIInv fds ix -> nth_error (oi_fx ix) i = Some (Some l) ->
  Rmod ix ks u i l l' -> fx_wf (ids_after ix u) l'.
Proof.
  intros I Hl [k [_ ->]]. pose proof (inv_fields _ _ I i l Hl) as Hwf.
  unfold new_field, ids_after, is_indexed. destruct (uuid_oid (oi_ids ix) u) as [oid|] eqn:E.
  - apply uuid_oid_In in E. apply (field_update (oi_ids ix) l k oid Hwf (in_ids_fst _ _ _ E)).
  - apply (field_insert (oi_ids ix) (oi_next ix) u l k Hwf (inv_lt_next _ _ I)).
Qed.

Lemma Rmod_In fds ix ks u i l l' : OIInv fds ix -> nth_error (oi_fx ix) i = Some (Some l) ->
  Rmod ix ks u i l l' ->
  exists k, nth_error ks i = Some k /\
    forall x, In x l' <-> x = (k, mod_oid ix u) \/ (In x l /\ snd x <> mod_oid ix u).
Proof.
  intros I Hl [k [Hk ->]]. exists k. split; [exact Hk|]. intros x.
  pose proof (inv_fields _ _ I i l Hl) as Hwf.
  unfold new_field, mod_oid. destruct (uuid_oid (oi_ids ix) u) as [oid|] eqn:E.
  - rewrite kins_In, del_pure_In. reflexivity.
  - rewrite kins_In. split.
    + intros [H|H]; [left; exact H|right]. split; [exact H|].
      apply (wf_oid_lt (oi_ids ix) (oi_next ix) l x Hwf (inv_lt_next _ _ I) H).
    + intros [H|[H _]]; [left; exact H|right; exact H].
Qed.

(* --- the whole index after the call *)

Lemma iou_inv fds ix ks u ix' : OIInv fds ix ->
  oi_ids ix' = ids_after ix u -> oi_next ix' = next_after ix u ->
  fx_rel (Rmod ix ks u) (oi_fx ix) (oi_fx ix') -> OIInv fds ix'.
Proof.
  intros I Hids Hnext Hrel. destruct ix' as [n' ids' fx']. cbn [oi_ids oi_next oi_fx] in *. subst n' ids'.
  destruct (ids_after_inv fds ix u I) as [H1 [H2 H3]].
  apply (inv_step fds ix _ _ fx' (Rmod ix ks u) I Hrel H1 H2 H3).
  intros i l l' Hl HR. apply (Rmod_wf fds ix ks u i l l' I Hl HR).
Qed.

Lemma iou_holds_self fds ix ks u ix' : OIInv fds ix ->
  oi_ids ix' = ids_after ix u ->
  fx_rel (Rmod ix ks u) (oi_fx ix) (oi_fx ix') -> holds ix' u ks.
Proof.
  intros I Hids Hrel. exists (mod_oid ix u). split; [rewrite Hids; apply mod_oid_in|].
  intros i l' Hl'. destruct (fx_rel_bwd _ _ _ i l' Hrel Hl') as [l [Hl HR]].
  destruct (Rmod_In fds ix ks u i l l' I Hl HR) as [k [Hk Hin]].
  exists k. split; [exact Hk|]. apply Hin. left. reflexivity.
Qed.

Lemma iou_holds_other fds ix ks u ix' u' ks' : OIInv fds ix ->
  oi_ids ix' = ids_after ix u ->
  fx_rel (Rmod ix ks u) (oi_fx ix) (oi_fx ix') -> u' <> u ->
  (holds ix' u' ks' <-> holds ix u' ks').
Proof.
  intros I Hids Hrel Hne. unfold holds. rewrite Hids. split.
  - intros [oid' [Hin Hall]]. apply (ids_after_other ix u oid' u' Hne) in Hin.
    exists oid'. split; [exact Hin|]. intros i l Hl.
    destruct (fx_rel_fwd _ _ _ i l Hrel Hl) as [l' [Hl' HR]].
    destruct (Hall i l' Hl') as [k' [Hk' Hin']]. exists k'. split; [exact Hk'|].
    destruct (Rmod_In fds ix ks u i l l' I Hl HR) as [k [_ HIn]].
    apply HIn in Hin'. destruct Hin' as [Heq|[Hin' _]]; [|exact Hin'].
    exfalso. apply (mod_oid_other fds ix u oid' u' I Hin Hne). congruence.
  - intros [oid' [Hin Hall]]. exists oid'. split; [apply (ids_after_other ix u oid' u' Hne); exact Hin|].
    intros i l' Hl'. destruct (fx_rel_bwd _ _ _ i l' Hrel Hl') as [l [Hl HR]].
    destruct (Hall i l Hl) as [k' [Hk' Hin']]. exists k'. split; [exact Hk'|].
    destruct (Rmod_In fds ix ks u i l l' I Hl HR) as [k [_ HIn]].
    apply HIn. right. split; [exact Hin'|]. cbn [snd].
    apply (mod_oid_other fds ix u oid' u' I Hin Hne).
Qed.

(* cell by cell: the written object has exactly the record's keys at the indexed fields,
   every other cell is unchanged *)
Lemma iou_entry_of fds ix ks u ix' : OIInv fds ix ->
  oi_ids ix' = ids_after ix u -> oi_next ix' = next_after ix u ->
  fx_rel (Rmod ix ks u) (oi_fx ix) (oi_fx ix') ->
  forall i u' k',
    entry_of ix' i u' k' <->
    (u' = u /\ nth_error ks i = Some k' /\ exists l : findex, nth_error (oi_fx ix) i = Some (Some l)) \/
    (u' <> u /\ entry_of ix i u' k').
Proof.
  intros I Hids Hnext Hrel i u' k'.
  pose proof (iou_inv fds ix ks u ix' I Hids Hnext Hrel) as I'.
  assert (Hm : In (mod_oid ix u, u) (oi_ids ix')) by (rewrite Hids; apply mod_oid_in).
  split.
  - intros [oid' [l' [Hin [Hl' Hk']]]].
    destruct (fx_rel_bwd _ _ _ i l' Hrel Hl') as [l [Hl HR]].
    destruct (Rmod_In fds ix ks u i l l' I Hl HR) as [k [Hk HIn]].
    destruct (N.eq_dec u' u) as [->|Hne].
    + left. split; [reflexivity|]. split; [|exists l; exact Hl].
      assert (Hoid' : oid' = mod_oid ix u) by (apply (ids_same_uuid fds ix' _ _ u I' Hin Hm)). subst oid'.
      apply HIn in Hk'. destruct Hk' as [Heq|[_ Hc]]; [congruence|]. exfalso. apply Hc. reflexivity.
    + right. split; [exact Hne|]. rewrite Hids in Hin. apply (ids_after_other ix u oid' u' Hne) in Hin.
      exists oid', l. split; [exact Hin|]. split; [exact Hl|].
      apply HIn in Hk'. destruct Hk' as [Heq|[Hk' _]]; [|exact Hk'].
      exfalso. apply (mod_oid_other fds ix u oid' u' I Hin Hne). congruence.
  - intros [[-> [Hk [l Hl]]]|[Hne [oid' [l [Hin [Hl Hk']]]]]].
    + destruct (fx_rel_fwd _ _ _ i l Hrel Hl) as [l' [Hl' HR]].
      destruct (Rmod_In fds ix ks u i l l' I Hl HR) as [k [Hk2 HIn]].
      exists (mod_oid ix u), l'. split; [exact Hm|]. split; [exact Hl'|].
      apply HIn. left. congruence.
    + destruct (fx_rel_fwd _ _ _ i l Hrel Hl) as [l' [Hl' HR]].
      destruct (Rmod_In fds ix ks u i l l' I Hl HR) as [k [_ HIn]].
      exists oid', l'. split; [rewrite Hids; apply (ids_after_other ix u oid' u' Hne); exact Hin|].
      split; [exact Hl'|]. apply HIn. right. split; [exact Hk'|]. cbn [snd].
      apply (mod_oid_other fds ix u oid' u' I Hin Hne).
Qed.
Print Assumptions iou_entry_of.

(* THE SPECIFICATION of objIndex.insertOrUpdate *)
Theorem insert_or_update_spec fds ix ks u : OIInv fds ix -> keys_ok fds ks ->
  (* never panics *)
  oi_insert_or_update fds ix ks u <> Panic /\
  (* rejected iff another stored object holds an equal value in a unique field *)
  (forall e, oi_insert_or_update fds ix ks u = Err e -> e = EUnique /\ conflict fds ix ks u) /\
  (conflict fds ix ks u -> oi_insert_or_update fds ix ks u = Err EUnique) /\
  (~ conflict fds ix ks u -> exists ix', oi_insert_or_update fds ix ks u = Ok ix') /\
  (* on success: invariant, the object holds its keys, exactly this object changed, the id
     table and the counter, and every field index as a pure list expression *)
  (forall ix', oi_insert_or_update fds ix ks u = Ok ix' ->
     OIInv fds ix' /\ holds ix' u ks /\
     (forall u' ks', u' <> u -> (holds ix' u' ks' <-> holds ix u' ks')) /\
     oi_ids ix' = (if is_indexed ix u then oi_ids ix else oi_ids ix ++ [(oi_next ix, u)]) /\
     oi_next ix' = (if is_indexed ix u then oi_next ix else N.succ (oi_next ix)) /\
     length (oi_fx ix') = length (oi_fx ix) /\
     (forall i, nth_error (oi_fx ix) i = Some None -> nth_error (oi_fx ix') i = Some None) /\
     (forall i l, nth_error (oi_fx ix) i = Some (Some l) ->
        exists k, nth_error ks i = Some k /\
          nth_error (oi_fx ix') i =
            Some (Some (match uuid_oid (oi_ids ix) u with
                        | Some oid => ins_pure key key_ltb (del_pure key l oid) (k, oid)
                        | None => ins_pure key key_ltb l (k, oi_next ix)
                        end)))).
Proof.
  intros I Hk. destruct (iou_cases fds ix ks u I Hk) as [b [_ [Hiff [Hf Ht]]]].
  split; [|split; [|split; [|split]]].
  - destruct b.
    + destruct (Ht eq_refl) as [fx' [Hok _]]. rewrite Hok. discriminate.
    + rewrite (Hf eq_refl). discriminate.
  - intros e He. destruct b.
    + destruct (Ht eq_refl) as [fx' [Hok _]]. rewrite Hok in He. discriminate.
    + rewrite (Hf eq_refl) in He. injection He as <-. split; [reflexivity|]. apply Hiff. reflexivity.
  - intros Hc. apply Hf. apply Hiff. exact Hc.
  - intros Hnc. destruct b.
    + destruct (Ht eq_refl) as [fx' [Hok _]]. eexists. exact Hok.
    + exfalso. apply Hnc. apply Hiff. reflexivity.
  - intros ix' Hok. destruct (iou_ok_core fds ix ks u ix' I Hk Hok) as [Hids [Hnext [Hrel _]]].
    split; [apply (iou_inv fds ix ks u ix' I Hids Hnext Hrel)|].
    split; [apply (iou_holds_self fds ix ks u ix' I Hids Hrel)|].
    split; [intros u' ks' Hne; apply (iou_holds_other fds ix ks u ix' u' ks' I Hids Hrel Hne)|].
    split; [exact Hids|]. split; [exact Hnext|].
    split; [apply (fx_rel_length _ _ _ Hrel)|]. split.
    + intros i Hn. specialize (Hrel i). rewrite Hn in Hrel. exact Hrel.
    + intros i l Hl. destruct (fx_rel_fwd _ _ _ i l Hrel Hl) as [l' [Hl' [k [Hk' ->]]]].
      exists k. split; [exact Hk'|exact Hl'].
Qed.
Print Assumptions insert_or_update_spec.

(* ------------------------------------------------------------------ 5. uniqueness *)

(* a successful insert_or_update never creates two objects with equal values in a unique
   field (the scratch index of a batch and the live index both rely on this) *)
Theorem unique_preserved fds ix ks u ix' : OIInv fds ix -> UniqueOK fds ix -> keys_ok fds ks ->
  oi_insert_or_update fds ix ks u = Ok ix' -> UniqueOK fds ix'.
Proof.
  intros I U Hk Hok. destruct (iou_ok_core fds ix ks u ix' I Hk Hok) as [Hids [Hnext [Hrel Hnc]]].
  intros i d l' e1 e2 Hd Hu Hl' H1 H2 Heq.
  destruct (fx_rel_bwd _ _ _ i l' Hrel Hl') as [l [Hl HR]].
  destruct (Rmod_In fds ix ks u i l l' I Hl HR) as [k [Hk' HIn]].
  apply HIn in H1. apply HIn in H2.
  assert (Hconf : forall e, In e l -> snd e <> mod_oid ix u -> key_eqb (fst e) k = true -> False).
  { intros e He Hne Hke. apply Hnc. exists i, d, l, k, e. repeat split; try assumption.
    intros Hou. apply (oid_uuid_spec ix _ _ (inv_oid_nodup _ _ I)) in Hou.
    apply Hne. unfold mod_oid.
    rewrite (proj2 (uuid_oid_spec _ u (snd e) (inv_uuid_nodup _ _ I)) Hou). reflexivity. }
  destruct H1 as [->|[H1 N1]]; destruct H2 as [->|[H2 N2]].
  - reflexivity.
  - exfalso. cbn [fst] in Heq. apply (Hconf e2 H2 N2).
    apply key_eqb_eq in Heq. apply key_eqb_eq. congruence.
  - exfalso. apply (Hconf e1 H1 N1). exact Heq.
  - apply (U i d l e1 e2 Hd Hu Hl H1 H2 Heq).
Qed.
Print Assumptions unique_preserved.
