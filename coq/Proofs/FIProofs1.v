From Coq Require Import List Arith Lia Bool PeanoNat ZArith.
Import ListNotations.
From Sod.Model Require Import FieldIndex.
Open Scope Z_scope.

Section Proofs.
Variable K : Type.
Variable ltb eqb : K -> K -> bool.
Hypothesis lt_irrefl : forall a, ltb a a = false.
Hypothesis lt_trans : forall a b c, ltb a b = true -> ltb b c = true -> ltb a c = true.
Hypothesis lt_negtrans : forall a b c, ltb a b = false -> ltb b c = false -> ltb a c = false.
Hypothesis eq_def : forall a b, eqb a b = negb (ltb a b) && negb (ltb b a).

Notation entry := (entry K).
Notation at_ := (at_ K).
Notation len := (len K).
Notation slice := (slice K).

Definition sorted_desc (l : list entry) : Prop :=
  forall p q a b, (p < q)%nat -> nth_error l p = Some a -> nth_error l q = Some b ->
                  ltb (fst a) (fst b) = false.

Definition split_at (l : list entry) (k : K) (r : Z) : Prop :=
  0 <= r <= len l /\
  (forall p e, Z.of_nat p < r -> nth_error l p = Some e -> ltb (fst e) k = false) /\
  (forall p e, r <= Z.of_nat p -> nth_error l p = Some e -> ltb (fst e) k = true).

Lemma lt_asym a b : ltb a b = true -> ltb b a = false.
Proof.
  intros H. destruct (ltb b a) eqn:E; [|reflexivity].
  pose proof (lt_trans _ _ _ H E) as X. rewrite lt_irrefl in X. discriminate.
Qed.

Lemma gtb_ltb a b : gtb K ltb eqb a b = ltb b a.
Proof.
  unfold gtb. rewrite eq_def. destruct (ltb a b) eqn:E1; cbn.
  - symmetry. apply lt_asym. exact E1.
  - destruct (ltb b a); reflexivity.
Qed.

Lemma at_Some l z e : at_ l z = Some e -> 0 <= z < len l /\ nth_error l (Z.to_nat z) = Some e.
Proof.
  unfold FieldIndex.at_. destruct (z <? 0) eqn:E; [discriminate|]. intros H.
  apply Z.ltb_ge in E. split; [|exact H].
  assert (Z.to_nat z < length l)%nat by (apply nth_error_Some; congruence).
  unfold FieldIndex.len. lia.
Qed.

Lemma at_in l z : 0 <= z < len l -> exists e, at_ l z = Some e /\ nth_error l (Z.to_nat z) = Some e.
Proof.
  intros Hz. unfold FieldIndex.at_. destruct (z <? 0) eqn:E; [apply Z.ltb_lt in E; lia|].
  destruct (nth_error l (Z.to_nat z)) as [e|] eqn:N.
  - exists e. split; reflexivity.
  - apply nth_error_None in N. unfold FieldIndex.len in Hz. lia.
Qed.

Lemma ins_rec_spec : forall fuel l k i j,
  sorted_desc l -> 2 <= len l -> 0 <= i -> i < j -> j <= len l -> j - i < Z.of_nat fuel ->
  (forall p e, Z.of_nat p < i -> nth_error l p = Some e -> ltb (fst e) k = false) ->
  (forall p e, j <= Z.of_nat p -> nth_error l p = Some e -> ltb (fst e) k = true) ->
  exists r, ins_rec K ltb fuel l k i j = Some r /\ split_at l k r.
Proof.
  induction fuel as [|f IH]; intros l k i j Hs Hl Hi Hij Hj Hf Hlo Hhi; [lia|].
  cbn [ins_rec].
  destruct (len l =? 0) eqn:E0; [apply Z.eqb_eq in E0; lia|].
  destruct (len l =? 1) eqn:E1; [apply Z.eqb_eq in E1; lia|].
  destruct (j - i =? 1) eqn:E2.
  - apply Z.eqb_eq in E2.
    destruct (at_in l i) as [e [He Hn]]; [lia|]. rewrite He.
    destruct (ltb (fst e) k) eqn:Hlt.
    + exists i. split; [reflexivity|]. split; [lia|]. split; [exact Hlo|].
      intros p e' Hp He'. destruct (Z.eq_dec (Z.of_nat p) i) as [Heq|Hne].
      * assert (p = Z.to_nat i) by lia. subst p. congruence.
      * apply Hhi with p; [lia|exact He'].
    + exists j. split; [reflexivity|]. split; [lia|]. split; [|exact Hhi].
      intros p e' Hp He'. destruct (Z.eq_dec (Z.of_nat p) i) as [Heq|Hne].
      * assert (p = Z.to_nat i) by lia. subst p. congruence.
      * apply Hlo with p; [lia|exact He'].
  - apply Z.eqb_neq in E2.
    set (pivot := (j + 1 - i) / 2 + i).
    assert (Hp1 : i < pivot).
    { unfold pivot. assert (1 <= (j + 1 - i) / 2) by (apply Z.div_le_lower_bound; lia). lia. }
    assert (Hp2 : pivot < j).
    { unfold pivot. assert ((j + 1 - i) / 2 < j - i) by (apply Z.div_lt_upper_bound; lia). lia. }
    destruct (at_in l pivot) as [e [He Hn]]; [lia|]. rewrite He.
    destruct (ltb (fst e) k) eqn:Hlt.
    + apply IH; try assumption; try lia.
      intros p e' Hp He'.
      destruct (Z.eq_dec (Z.of_nat p) pivot) as [Heq|Hne].
      * assert (p = Z.to_nat pivot) by lia. subst p. congruence.
      * destruct (Z_lt_ge_dec (Z.of_nat p) j) as [Hpj|Hpj]; [|apply Hhi with p; [lia|assumption]].
        assert (Hd : ltb (fst e) (fst e') = false).
        { apply Hs with (Z.to_nat pivot) p; [lia|assumption|assumption]. }
        destruct (ltb (fst e') k) eqn:X; [reflexivity|].
        rewrite (lt_negtrans _ _ _ Hd X) in Hlt. discriminate.
    + apply IH; try assumption; try lia.
      intros p e' Hp He'.
      destruct (Z_lt_ge_dec (Z.of_nat p) i) as [Hpi|Hpi]; [apply Hlo with p; assumption|].
      assert (Hd : ltb (fst e') (fst e) = false).
      { apply Hs with p (Z.to_nat pivot); [lia|assumption|assumption]. }
      exact (lt_negtrans _ _ _ Hd Hlt).
Qed.

Theorem insertion_index_spec l k :
  sorted_desc l -> exists r, insertion_index K ltb l k = Some r /\ split_at l k r.
Proof.
  intros Hs. unfold insertion_index.
  destruct l as [|a [|b t]].
  - exists 0. split; [reflexivity|]. split; [cbn; lia|]. split; intros [|p] e Hp He; discriminate.
  - cbn [ins_rec length]. cbn.
    destruct (ltb (fst a) k) eqn:E.
    + exists 0. split; [reflexivity|]. split; [cbn; lia|]. split.
      * intros p e Hp He. lia.
      * intros [|p] e Hp He; cbn in He; [congruence|destruct p; discriminate].
    + exists 1. split; [reflexivity|]. split; [cbn; lia|]. split.
      * intros [|p] e Hp He; cbn in He; [congruence|lia].
      * intros [|p] e Hp He; [lia|destruct p; discriminate].
  - apply ins_rec_spec; try assumption; unfold FieldIndex.len; cbn [length]; try lia.
    intros p e Hp He. assert (nth_error (a :: b :: t) p <> None) by congruence.
    apply nth_error_Some in H. cbn [length] in H. lia.
Qed.

End Proofs.
