(* Proofs/Faults.v: C06, storage faults: the four fault points of a synchronous InsertOrUpdate, by
   computation on the model (the same histories are replayed on the implementation by the fault
   engine).  The second half of the property ("if the failure is a storage error the database may
   be left in a state that Control reports as corrupted and Repair restores, but it never diverges
   silently") is TRUE at one point and REFUTED at three: the known findings KF-C06-1..3. *)
From Coq Require Import List ZArith NArith Bool.
Import ListNotations.
From Sod.Model Require Import Base FieldIndex ObjIndex DB Instance.
From Sod.Proofs Require Import DBStruct1 Refine4 Refine5 Crash.

(* new object #101, fault at the k-th file-system mutation of the call; then: the call's result,
   Control on the live handle, Get of the object, Count *)
Definition fault_new (k : nat) : list out :=
  run_out hk0 7%N (run hk0 7%N init_state cr_base)
    [OFailAt k; OInsert 0 101 (cr_ob 5); OControl; OGet 101; OCount].

(* k = 0: the truncation of the object file fails: the call returns the storage error, the object is
   INDEXED (count 2) but has no file: Control reports corruption: detected, as the property allows *)
Example fault_at_object_truncate :
  fault_new 0 = [RUnit (Ok tt); RUnit (Err EStorage); RUnit (Err ECorrupted); RObj (Err ENotFound); RNum (Ok 2%Z)].
Proof. vm_compute. reflexivity. Qed.

(* k = 1 (KF-C06-3): the write after the truncation fails: an EMPTY object file is left, indexed:
   Control reports nothing, the object is unreadable: silent divergence *)
Example fault_at_object_write_KF_C06_3 :
  fault_new 1 = [RUnit (Ok tt); RUnit (Err EStorage); RUnit (Ok tt); RObj (Err EJson); RNum (Ok 2%Z)].
Proof. vm_compute. reflexivity. Qed.

(* k = 2, 3 (KF-C06-1): the schema commit fails: the call returns the error but the write IS applied
   (file and live index); Control on the live handle reports nothing *)
Example fault_at_schema_commit_KF_C06_1 :
  fault_new 2 = [RUnit (Ok tt); RUnit (Err EStorage); RUnit (Ok tt); RObj (Ok (101%N, cr_ob 5)); RNum (Ok 2%Z)] /\
  fault_new 3 = [RUnit (Ok tt); RUnit (Err EStorage); RUnit (Ok tt); RObj (Ok (101%N, cr_ob 5)); RNum (Ok 2%Z)].
Proof. split; vm_compute; reflexivity. Qed.

(* an UPDATE of #100 from 1 to 2 whose object file cannot be rewritten (KF-C06-2): the index (and
   the searches) already say 2, the file still says 1 *)
Example fault_on_update_KF_C06_2 :
  run_out hk0 7%N (run hk0 7%N init_state cr_base)
    [OFailAt 0; OInsert 100 0 (cr_ob 2); OControl; OGet 100;
     OSearch 1 (Some 0%nat) OpEq (KInt 2); OSearch 2 (Some 0%nat) OpEq (KInt 1)] =
  [RUnit (Ok tt); RUnit (Err EStorage); RUnit (Ok tt); RObj (Ok (100%N, cr_ob 1)); RSearch None 1%Z; RSearch None 0%Z].
Proof. vm_compute. reflexivity. Qed.

(* a fault is disarmed when the call ends: later calls are not affected *)
Example fault_is_one_shot :
  run_out hk0 7%N (run hk0 7%N init_state cr_base) [OFailAt 9; OInsert 0 101 (cr_ob 5); OInsert 0 102 (cr_ob 6); OCount] =
  [RUnit (Ok tt); RUnit (Ok tt); RUnit (Ok tt); RNum (Ok 3%Z)].
Proof. vm_compute. reflexivity. Qed.
