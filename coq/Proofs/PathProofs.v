(* Field path resolution (Model/Path.v): what resolves, what is unknown, and that fuel only bounds depth. *)
From Coq Require Import List NArith Bool Lia Arith.
Import ListNotations.
From Sod.Model Require Import Descr Path.

Definition vfbn_body (rec : bool -> pval -> list str -> option (pval * bool)) (ro : bool) (v : pval) (fields : list str) :=
      let v1 := match v with PPtr _ e => Some e | PNil _ _ => None | _ => Some v end in
      match v1 with
      | None => None
      | Some v1 =>
          match fields with
          | [] => Some (v1, ro)
          | f :: rest =>
              match v1 with
              | PStruct _ fs =>
                  match pfield f fs with
                  | None => None
                  | Some (exported, out) =>
                      let ro' := ro || negb exported in
                      match out with
                      | PNil t z => rec false (PPtr t z) rest
                      | PPtr _ e => rec ro' e rest
                      | PStruct _ _ => match rest with [] => Some (out, ro') | _ => rec ro' out rest end
                      | PLeaf _ _ => match rest with [] => Some (out, ro') | _ => None end
                      end
                  end
              | _ => None
              end
          end
      end.

Lemma vfbn_S k ro v fields : vfbn (S k) ro v fields = vfbn_body (vfbn k) ro v fields.
Proof. reflexivity. Qed.
Opaque vfbn.

(* more fuel never changes an answer *)
Lemma vfbn_fuel_mono k : forall ro v fields r, vfbn k ro v fields = Some r -> vfbn (S k) ro v fields = Some r.
Proof.
  induction k as [|k IH]; intros ro v fields r H; [discriminate H|].
  rewrite vfbn_S in H. rewrite vfbn_S. unfold vfbn_body in *. cbv zeta in *.
  destruct (match v with PPtr _ e => Some e | PNil _ _ => None | _ => Some v end) as [v1|]; [|discriminate H].
  destruct fields as [|f rest]; [exact H|].
  destruct v1 as [t i|t z|t e|t fs]; try discriminate H.
  destruct (pfield f fs) as [[ex out]|]; [|discriminate H].
  destruct out as [t1 i1|t1 z1|t1 e1|t1 fs1].
  - exact H.
  - apply IH. exact H.
  - apply IH. exact H.
  - destruct rest; [exact H|]. apply IH. exact H.
Qed.

Lemma vfbn_fuel_le k k' ro v fields r : k <= k' -> vfbn k ro v fields = Some r -> vfbn k' ro v fields = Some r.
Proof. induction 1 as [|m _ IH]; intros H; [exact H|]. apply vfbn_fuel_mono. apply IH. exact H. Qed.

Lemma vfbn_ptr_struct k ro t ts fs fields :
  vfbn (S k) ro (PPtr t (PStruct ts fs)) fields = vfbn (S k) ro (PStruct ts fs) fields.
Proof. rewrite !vfbn_S. reflexivity. Qed.

(* UNKNOWN FIELDS: a first element that names no field of the struct *)
Theorem unknown_first_field fuel t ts fs f rest :
  pfield f fs = None -> field_by_name fuel (PPtr t (PStruct ts fs)) (f :: rest) = None.
Proof.
  intros H. unfold field_by_name. destruct fuel as [|k]; [reflexivity|]. rewrite vfbn_S. unfold vfbn_body. cbv zeta.
  rewrite H. reflexivity.
Qed.

(* a path that goes on below a value which is neither a struct nor a pointer *)
Theorem beyond_a_leaf_unknown fuel t ts fs f g rest ex tl i :
  pfield f fs = Some (ex, PLeaf tl i) -> field_by_name fuel (PPtr t (PStruct ts fs)) (f :: g :: rest) = None.
Proof.
  intros H. unfold field_by_name. destruct fuel as [|k]; [reflexivity|]. rewrite vfbn_S. unfold vfbn_body. cbv zeta.
  rewrite H. reflexivity.
Qed.

(* an UNEXPORTED field that holds a value (anything but a nil pointer) is unknown to the API *)
Definition not_nil (v : pval) : bool := match v with PNil _ _ => false | _ => true end.

Lemma vfbn_end_keeps_mark k v r m : vfbn k true v [] = Some (r, m) -> m = true.
Proof.
  destruct k; [discriminate|]. rewrite vfbn_S. unfold vfbn_body. cbv zeta.
  destruct (match v with PPtr _ e => Some e | PNil _ _ => None | _ => Some v end); [|discriminate].
  intros H; inversion H. reflexivity.
Qed.

Theorem unexported_field_unknown fuel t ts fs f out :
  pfield f fs = Some (false, out) -> not_nil out = true ->
  field_by_name fuel (PPtr t (PStruct ts fs)) [f] = None.
Proof.
  intros H N. unfold field_by_name. destruct fuel as [|k]; [reflexivity|]. rewrite vfbn_S. unfold vfbn_body. cbv zeta.
  rewrite H. cbn [negb orb].
  destruct out as [t1 i1|t1 z1|t1 e1|t1 fs1]; try reflexivity; [discriminate N|].
  destruct (vfbn k true e1 []) as [[r m]|] eqn:E; [|reflexivity].
  rewrite (vfbn_end_keeps_mark _ _ _ _ E). reflexivity.
Qed.

(* EVERY PATH OF EXPORTED FIELDS RESOLVES, nested, through pointers and through NIL pointers (to the zero
   value of what they would point to).  [xpath s names tgt]: from struct s, names lead to tgt. *)
Definition below (out : pval) : option pval :=
  match out with
  | PLeaf _ _ => Some out
  | PStruct _ _ => Some out
  | PPtr _ e => match e with PPtr _ _ | PNil _ _ => None | _ => Some e end
  | PNil _ z => match z with PPtr _ _ | PNil _ _ => None | _ => Some z end
  end.

Inductive xpath : pval -> list str -> pval -> Prop :=
| xp_last t fs f out tgt : pfield f fs = Some (true, out) -> below out = Some tgt -> xpath (PStruct t fs) [f] tgt
| xp_step t fs f out s g rest tgt :
    pfield f fs = Some (true, out) -> below out = Some s -> xpath s (g :: rest) tgt ->
    xpath (PStruct t fs) (f :: g :: rest) tgt.

Lemma xpath_struct s names tgt : xpath s names tgt -> exists t fs, s = PStruct t fs.
Proof. destruct 1; eauto. Qed.

Lemma vfbn_end k ro v : match v with PPtr _ _ | PNil _ _ => False | _ => True end -> vfbn (S k) ro v [] = Some (v, ro).
Proof. intros H. rewrite vfbn_S. unfold vfbn_body. cbv zeta. destruct v; try reflexivity; destruct H. Qed.

Lemma vfbn_end_ptr k ro t v : vfbn (S k) ro (PPtr t v) [] = Some (v, ro).
Proof. rewrite vfbn_S. reflexivity. Qed.

Lemma exported_path_resolves_gen s names tgt : xpath s names tgt ->
  forall k, 2 * length names < k -> vfbn k false s names = Some (tgt, false).
Proof.
  induction 1 as [t fs f out tgt Hf Hb|t fs f out s g rest tgt Hf Hb Hx IH]; intros k Hk.
  - destruct k as [|k]; [cbn in Hk; lia|]. rewrite vfbn_S. unfold vfbn_body. cbv zeta. rewrite Hf. cbn [negb orb].
    destruct out as [t1 i1|t1 z1|t1 e1|t1 fs1]; cbn [below] in Hb.
    + inversion Hb. reflexivity.
    + destruct k as [|k]; [cbn in Hk; lia|]. rewrite vfbn_end_ptr. destruct z1; inversion Hb; reflexivity.
    + destruct k as [|k]; [cbn in Hk; lia|]. destruct e1; inversion Hb; subst; apply vfbn_end; exact I.
    + inversion Hb. reflexivity.
  - destruct k as [|k]; [cbn in Hk; lia|]. rewrite vfbn_S. unfold vfbn_body. cbv zeta. rewrite Hf. cbn [negb orb].
    destruct (xpath_struct _ _ _ Hx) as [ts [fss ->]].
    cbn [length] in Hk.
    destruct out as [t1 i1|t1 z1|t1 e1|t1 fs1]; cbn [below] in Hb.
    + inversion Hb.
    + destruct z1; inversion Hb; subst.
      destruct k as [|k]; [lia|]. rewrite vfbn_ptr_struct. apply IH. cbn [length]. lia.
    + destruct e1; inversion Hb; subst. apply IH. cbn [length]. lia.
    + inversion Hb; subst. apply IH. cbn [length]. lia.
Qed.

Theorem exported_path_resolves t s names tgt : xpath s names tgt ->
  forall fuel, 2 * length names < fuel -> field_by_name fuel (PPtr t s) names = Some tgt.
Proof.
  intros H fuel Hf. unfold field_by_name. destruct fuel as [|k]; [lia|].
  destruct (xpath_struct _ _ _ H) as [ts [fs ->]].
  rewrite vfbn_ptr_struct. rewrite (exported_path_resolves_gen _ _ _ H (S k) Hf). reflexivity.
Qed.
Print Assumptions exported_path_resolves.
Print Assumptions unexported_field_unknown.
Transparent vfbn.

(* an example with every case: nested by value, behind a pointer, behind a NIL pointer, unexported *)
Definition ex_fields : list (str * (bool * pval)) :=
    [ ([65]%N, (true, PLeaf [3]%N 1%N));                                            (* A *)
      ([78]%N, (true, PNil [4]%N (PStruct [5]%N [([88]%N, (true, PLeaf [3]%N 0%N))])));   (* N *T = nil, T{X} *)
      ([80]%N, (true, PPtr [4]%N (PStruct [5]%N [([88]%N, (true, PLeaf [3]%N 2%N))])));   (* P *T, T{X} *)
      ([111]%N, (false, PPtr [4]%N (PStruct [5]%N [([88]%N, (true, PLeaf [3]%N 3%N))]))); (* o *T unexported *)
      ([86]%N, (true, PStruct [5]%N [([88]%N, (true, PLeaf [3]%N 4%N))])) ].              (* V T *)
Definition ex_obj : pval := PPtr [1]%N (PStruct [2]%N ex_fields).
Example ex_paths :
  field_by_name 16 ex_obj [[65]%N] = Some (PLeaf [3]%N 1%N) /\
  field_by_name 16 ex_obj [[78]%N; [88]%N] = Some (PLeaf [3]%N 0%N) /\          (* through the nil pointer: zero *)
  field_by_name 16 ex_obj [[80]%N; [88]%N] = Some (PLeaf [3]%N 2%N) /\
  field_by_name 16 ex_obj [[86]%N; [88]%N] = Some (PLeaf [3]%N 4%N) /\
  field_by_name 16 ex_obj [[111]%N] = None /\                                   (* unexported *)
  field_by_name 16 ex_obj [[111]%N; [88]%N] = None /\                           (* below an unexported pointer *)
  field_by_name 16 ex_obj [[65]%N; [88]%N] = None /\                            (* beyond a leaf *)
  field_by_name 16 ex_obj [[90]%N] = None /\                                    (* unknown *)
  xpath (PStruct [2]%N ex_fields) [[78]%N; [88]%N] (PLeaf [3]%N 0%N).
Proof.
  repeat split; try (vm_compute; reflexivity).
  eapply xp_step; [vm_compute; reflexivity|vm_compute; reflexivity|].
  eapply xp_last; vm_compute; reflexivity.
Qed.
