(* Proofs/Names.v: object file names at byte level (utils.go uuidExt / uuidsFromDir, schema.go
   filenameFromUUID, sod.go uuidRegexp).  Definitions are in Model/Layout.v. *)
From Coq Require Import List NArith Arith Bool Lia.
Import ListNotations.
From Sod.Model Require Import Base Layout.

Lemma firstn_app_exact {A} (a b : list A) n : length a = n -> firstn n (a ++ b) = a.
Proof. intros <-. rewrite firstn_app, Nat.sub_diag, firstn_all. cbn. apply app_nil_r. Qed.
Lemma skipn_app_exact {A} (a b : list A) n : length a = n -> skipn n (a ++ b) = b.
Proof. intros <-. rewrite skipn_app, Nat.sub_diag, skipn_all. reflexivity. Qed.

Lemma uuid_shaped_length u : uuid_shaped u = true -> length u = 36.
Proof. unfold uuid_shaped. intros H. apply andb_true_iff in H. destruct H as [H _]. apply Nat.eqb_eq in H. exact H. Qed.

(* THE NAME OF AN OBJECT FILE SPLITS BACK into its uuid and what follows, whatever the extension
   (empty, with or without a leading dot, containing dots, ending in .gz) and the compression flag *)
Theorem file_name_splits_back u ext c : uuid_shaped u = true ->
  uuid_ext (object_file_name u ext c) = (u, ext ++ (if c then gz_ext else [])).
Proof.
  intros H. pose proof (uuid_shaped_length u H) as L. unfold uuid_ext, object_file_name.
  rewrite app_length, L. replace (36 <=? 36 + _) with true by (symmetry; apply Nat.leb_le; lia).
  rewrite (firstn_app_exact u _ 36 L), (skipn_app_exact u _ 36 L). reflexivity.
Qed.

(* ... hence every object file is listed by uuidsFromDir under its own uuid *)
Theorem object_file_is_listed u ext c : uuid_shaped u = true -> listed_uuid (object_file_name u ext c) = Some u.
Proof. intros H. unfold listed_uuid. rewrite (file_name_splits_back u ext c H). cbn [fst]. rewrite H. reflexivity. Qed.

(* one file name per object: the name determines the uuid and the suffix *)
Theorem file_name_injective u1 e1 c1 u2 e2 c2 : uuid_shaped u1 = true -> uuid_shaped u2 = true ->
  object_file_name u1 e1 c1 = object_file_name u2 e2 c2 ->
  u1 = u2 /\ e1 ++ (if c1 then gz_ext else []) = e2 ++ (if c2 then gz_ext else []).
Proof.
  intros H1 H2 E. pose proof (file_name_splits_back u1 e1 c1 H1) as S1. rewrite E, (file_name_splits_back u2 e2 c2 H2) in S1.
  inversion S1. split; reflexivity.
Qed.

(* schema.json and any name shorter than a uuid are never taken for an object *)
Theorem short_names_not_listed name : length name < 36 -> listed_uuid name = None.
Proof.
  intros H. unfold listed_uuid, uuid_ext. replace (36 <=? length name) with false by (symmetry; apply Nat.leb_gt; lia).
  cbn [fst]. unfold uuid_shaped. replace (length name =? 36) with false by (symmetry; apply Nat.eqb_neq; lia). reflexivity.
Qed.

Definition schema_json : list N := [115; 99; 104; 101; 109; 97; 46; 106; 115; 111; 110]%N.
Example schema_json_not_listed : listed_uuid schema_json = None.
Proof. reflexivity. Qed.

(* a uuid in either case, four extensions *)
Definition ex_uuid : list N :=
  [48;49;50;51;52;53;54;55; 45; 56;57;97;98; 45; 52;99;100;101; 45; 65;70;48;49; 45; 50;51;52;53;54;55;56;57;97;66;99;68]%N.
Example names_example :
  uuid_shaped ex_uuid = true /\
  listed_uuid (object_file_name ex_uuid [100; 97; 116]%N false) = Some ex_uuid /\          (* "dat": no leading dot *)
  listed_uuid (object_file_name ex_uuid [46; 106; 46; 103; 122]%N false) = Some ex_uuid /\  (* ".j.gz", not compressed *)
  listed_uuid (object_file_name ex_uuid [] true) = Some ex_uuid /\
  listed_uuid (ex_uuid ++ [126]%N) = Some ex_uuid.                                          (* a stray "<uuid>~" counts *)
Proof. repeat split; reflexivity. Qed.
