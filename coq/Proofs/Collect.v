(* Proofs/Collect.v: C13 / C20 at the level of the handle: what Collect and One return for a search
   value whose entries still resolve to stored objects: the objects bound to the resolved uuids, in
   the order of the entries (reversed on demand), exactly the first min(limit, number) of them,
   each with its last accepted value. *)
From Coq Require Import List ZArith NArith Bool Lia Arith.
Import ListNotations.
From Sod.Model Require Import Base FieldIndex ObjIndex DB.
From Sod.Proofs Require Import FIProofs1 FIProofs4 FIProofs5 KeyOrder SearchSpec OIProofs OIProofs2 DBBasic DBStruct1 DBStruct3 Refine1 Refine2 Refine3 Refine4 SearchDB.
Close Scope Z_scope.

(* the first [lim] elements (all of them when no limit was ever set) *)
Definition take {A} (lim : option N) (l : list A) : list A :=
  match lim with None => l | Some n => firstn (N.to_nat n) l end.

Definition left_of (lim : option N) (k : nat) : option N :=
  match lim with None => None | Some n => Some (n - N.of_nat k)%N end.

Lemma take_cons_pos {A} n (x : A) xs : n <> 0%N -> take (Some n) (x :: xs) = x :: take (Some (N.pred n)) xs.
Proof.
  intros Hn. unfold take. destruct (N.to_nat n) eqn:E; [lia|]. cbn [firstn]. f_equal. f_equal. lia.
Qed.

(* the loop of Search.collect over uuids that are all stored *)
Lemma collect_loop_ok ls d m pend : forall us h lim acc,
  h_pend h = pend -> InvCore ls (h_cache h) pend d m ->
  (forall u, In u us -> stored pend d m u <> None) ->
  exists h', collect_loop h m d (map (fun u => Some u) us) lim acc =
               (h', rev acc ++ take lim (flat_map (bind pend d m) us), None,
                left_of lim (length (take lim (flat_map (bind pend d m) us)))) /\
             h_mem h' = h_mem h /\ h_pend h' = pend /\ h_srch h' = h_srch h /\ InvCore ls (h_cache h') pend d m.
Proof.
  induction us as [|u r IH]; intros h lim acc Hp I Hall.
  - exists h. cbn [map collect_loop flat_map]. destruct lim as [n|]; cbn [take left_of firstn length];
      rewrite ?firstn_nil, ?app_nil_r; cbn [length]; rewrite ?N.sub_0_r;
      (split; [reflexivity|split; [reflexivity|split; [exact Hp|split; [reflexivity|exact I]]]]).
  - cbn [map collect_loop]. rewrite <- Hp in I.
    destruct (get_with_ok ls h d m u I) as [h1 [G [M1 [P1 I1]]]]. rewrite G. rewrite Hp in *.
    assert (S1 : h_srch h1 = h_srch h) by (apply (get_with_srch _ _ _ _ _ _ G)).
    destruct (stored pend d m u) as [o|] eqn:S; [|exfalso; apply (Hall u (or_introl eq_refl)); exact S].
    cbn [flat_map]. unfold bind at 1 3. rewrite S. cbn [app].
    destruct lim as [n|].
    + destruct (N.eq_dec n 0) as [->|Hn].
      * exists h1. cbn [take left_of N.to_nat firstn length]. rewrite app_nil_r.
        split; [reflexivity|]. split; [exact M1|]. split; [exact P1|]. split; [exact S1|exact I1].
      * destruct n as [|p]; [congruence|].
        destruct (IH h1 (Some (N.pred (N.pos p))) ((u, o) :: acc) P1 I1 (fun v Hv => Hall v (or_intror Hv)))
          as [h' [C [M' [P' [S' I']]]]].
        exists h'. rewrite C. rewrite (take_cons_pos (N.pos p) (u, o) _ Hn). cbn [rev length left_of]. rewrite <- app_assoc. cbn [app].
        split; [|split; [congruence|split; [exact P'|split; [congruence|exact I']]]].
        f_equal. f_equal. lia.
    + destruct (IH h1 None ((u, o) :: acc) P1 I1 (fun v Hv => Hall v (or_intror Hv))) as [h' [C [M' [P' [S' I']]]]].
      exists h'. rewrite C. cbn [take rev left_of]. rewrite <- app_assoc. cbn [app].
      split; [reflexivity|split; [congruence|split; [exact P'|split; [congruence|exact I']]]].
Qed.

(* the bindings of a list of stored uuids *)
Lemma bindings_are_lookups ls cache pend d m us : InvCore ls cache pend d m ->
  (forall u, In u us -> stored pend d m u <> None) ->
  flat_map (bind pend d m) us =
  flat_map (fun u => match assoc u (abs_of pend d m) with Some o => [(u, o)] | None => [] end) us.
Proof.
  intros I Hall. induction us as [|u r IH]; [reflexivity|]. cbn [flat_map]. rewrite IH by (intros v Hv; apply Hall; right; exact Hv).
  unfold bind. rewrite (abs_assoc _ _ _ _ _ I). reflexivity.
Qed.

(* COLLECT: on a loaded handle, for a search value without error whose entries all resolve to
   objects of the collection (true of a search just evaluated: search_denotes; and as long as none
   of its objects was deleted), Collect with a limit and a direction returns, without error,
   exactly the first min(limit, number of entries) objects in the order of the entries (reversed
   when asked), each with the value the collection binds it to NOW; the unconsumed part of the
   limit is kept; the collection is unchanged *)
Theorem collect_returns_prefix hk ls h w fds a m sid lim rv :
  LState ls h w fds a -> h_mem h = Some m ->
  let r0 := find_srch h sid in
  let lim' := match lim with Some _ => lim | None => sr_limit r0 end in
  let us := resolved m (sr_fields r0) in
  let us' := if sr_rev r0 || rv then rev us else us in
  sr_err r0 = None ->
  (forall e, In e (sr_fields r0) -> exists u, oid_uuid (m_idx m) (snd e) = Some u /\ assoc u a <> None) ->
  exists s',
    step_fg hk ls (mk h w) (OCollect sid lim rv) =
      (s', RObjs (Ok (take lim' (flat_map (fun u => match assoc u a with Some o => [(u, o)] | None => [] end) us')))) /\
    Inv ls s' /\ abs s' = Some {| sp_fds := fds; sp_map := a |} /\
    sr_fields (find_srch (s_h s') sid) = sr_fields r0.
Proof.
  cbv zeta. intros L Hm Herr Hres.
  destruct (LState_mem _ _ _ _ _ _ L Hm) as [Hn [[IC IS] [Hf Ha]]].
  destruct (LState_Inv _ _ _ _ _ L) as [I A].
  destruct (db_schema_on_loaded ls h (w_disk w) m Hm) as [h1 [m1 [D [M1 [V [Hix [C1 [P1 K1]]]]]]]].
  unfold step_fg. cbv zeta. cbn [mk s_h s_w sr_err sr_fields sr_limit sr_rev]. rewrite Herr, D.
  set (r0 := find_srch h sid) in *.
  assert (IC1 : InvCore ls (h_cache h1) (h_pend h1) (w_disk w) m1).
  { rewrite C1, P1. apply (view_core_same _ _ _ _ m m1 V Hix IC). }
  assert (Hmap : map (fun e => oid_uuid (m_idx m1) (snd e)) (sr_fields r0) = map (fun u => Some u) (resolved m (sr_fields r0))).
  { rewrite Hix. unfold resolved. clear -Hres. induction (sr_fields r0) as [|e l IH]; [reflexivity|].
    cbn [map flat_map]. destruct (Hres e (or_introl eq_refl)) as [u [Eu _]]. rewrite Eu. cbn [app map]. f_equal.
    apply IH. intros e' He'. apply Hres. right. exact He'. }
  rewrite Hmap.
  set (us := resolved m (sr_fields r0)) in *.
  assert (Hrev : (if sr_rev r0 || rv then rev (map (fun u => Some u) us) else map (fun u => Some u) us) =
                 map (fun u => Some u) (if sr_rev r0 || rv then rev us else us)).
  { destruct (sr_rev r0 || rv); [rewrite map_rev|]; reflexivity. }
  rewrite Hrev. set (us' := if sr_rev r0 || rv then rev us else us) in *.
  assert (Hst : forall u, In u us' -> stored (h_pend h1) (w_disk w) m1 u <> None).
  { intros u Hu. assert (Hu' : In u us) by (unfold us' in Hu; destruct (sr_rev r0 || rv); [apply in_rev in Hu|]; exact Hu).
    unfold us, resolved in Hu'. apply in_flat_map in Hu'. destruct Hu' as [e [He Hue]].
    destruct (Hres e He) as [u' [Eu' Hne]]. rewrite Eu' in Hue. destruct Hue as [->|[]].
    rewrite P1, (view_stored m m1 _ _ _ V). rewrite <- Ha, (abs_assoc _ _ _ _ _ IC) in Hne. exact Hne. }
  destruct (collect_loop_ok ls (w_disk w) m1 (h_pend h1) us' h1
              (match lim with Some _ => lim | None => sr_limit r0 end) [] eq_refl IC1 Hst) as [h2 [C [M2 [P2 [S2 I2]]]]].
  rewrite C. cbn [rev app].
  rewrite (bindings_are_lookups ls _ _ _ _ us' IC1 Hst).
  assert (Habs1 : abs_of (h_pend h1) (w_disk w) m1 = a) by (rewrite P1, (view_abs _ _ _ _ V); exact Ha).
  rewrite Habs1.
  eexists. split; [reflexivity|]. cbn [mk s_h s_w].
  assert (L2 : forall r', LState ls (set_srch h2 (put sid r' (h_srch h2))) w fds a).
  { intros r'. exists m1. cbn [set_srch h_mem h_cache h_pend]. rewrite M2, P2. split; [exact M1|]. split; [exact Hn|].
    split; [split; [exact I2|]|split; [rewrite (proj1 (proj2 V)); exact Hf|exact Habs1]].
    intros Hasync. rewrite P1. apply (view_synced m m1 _ _ V). apply IS. rewrite <- (view_async m m1 V). exact Hasync. }
  split; [apply (proj1 (LState_Inv _ _ _ _ _ (L2 _)))|]. split; [apply (proj2 (LState_Inv _ _ _ _ _ (L2 _)))|].
  unfold find_srch. cbn [set_srch h_srch]. rewrite rf_assoc_put, N.eqb_refl. reflexivity.
Qed.
Print Assumptions collect_returns_prefix.

(* ORDER: a search (no previous result) on a field that has an index returns its entries in
   non-increasing order of that field, and each entry's key is the field value of the object it
   resolves to (search_denotes): together with collect_returns_prefix, Collect returns the matches in
   non-increasing order of the field, Reverse in non-decreasing order, Limit(n) the first
   min(n, matches) of that order, One the first one *)
Theorem indexed_search_sorted hk ls h d m f fd o probe rxm l h' r :
  let probe' := canon_key hk fd probe in
  InvCore ls (h_cache h) (h_pend h) d m ->
  nth_error (m_fields m) f = Some fd -> nth_error (oi_fx (m_idx m)) f = Some (Some l) ->
  fd_kind fd = kind_of probe' -> o <> OpBad ->
  (o = OpRx -> rx_of hk probe' = Some rxm /\ exists s, probe' = KStr s) ->
  search_with hk h m d (Some f) o probe None = (h', r) ->
  key_sorted (sr_fields r) /\ sr_fields r = filter (fun e => eval_op o rxm (fst e) probe') l.
Proof.
  cbv zeta. intros I Hfd Hl Hkind Hop Hrx H. pose proof (ic_oi _ _ _ _ _ I) as OI.
  unfold search_with in H. rewrite !nth_opt_error, Hfd, Hl in H.
  assert (Hke : kind_eqb (fd_kind fd) (kind_of (canon_key hk fd probe)) = true) by (apply kind_eqb_true; exact Hkind).
  rewrite Hke in H. cbn [negb] in H.
  rewrite (search_exact (m_fields m) (m_idx m) f l o (canon_key hk fd probe) (rx_of hk (canon_key hk fd probe)) rxm OI Hl Hop Hrx) in H.
  inv H. cbn [sr_fields]. split; [|reflexivity].
  apply key_filter_sorted. apply (inv_fields _ _ OI f l Hl).
Qed.
Print Assumptions indexed_search_sorted.
