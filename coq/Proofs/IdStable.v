(* Proofs/IdStable.v: C20, "an object deleted in the meantime is reported as an error or omitted,
   never replaced by a different object": within one handle an object id is never handed out twice,
   so an id held by an outstanding search value resolves, at any later time, to the uuid it denoted
   at evaluation time or to nothing. *)
From Coq Require Import List ZArith NArith Bool Lia Arith.
Import ListNotations.
From Sod.Model Require Import Base FieldIndex ObjIndex.
From Sod.Proofs Require Import FIProofs1 FIProofs4 FIProofs5 KeyOrder OIProofs OIProofs2.
Ltac inv H := inversion H; subst; clear H.
Close Scope Z_scope.

(* the index operations a handle performs between evaluating and collecting a search *)
Inductive iop := IUpsert (ks : list key) (u : N) | IDelete (u : N).

Definition iop_ok (fds : list fdesc) (o : iop) : Prop :=
  match o with IUpsert ks _ => keys_ok fds ks | IDelete _ => True end.

(* rejected writes leave the index as it is *)
Definition iapply (fds : list fdesc) (ix : oindex) (o : iop) : oindex :=
  match o with
  | IUpsert ks u => match oi_insert_or_update fds ix ks u with Ok ix' => ix' | _ => ix end
  | IDelete u => match oi_delete ix u with Some ix' => ix' | None => ix end
  end.

Lemma iapply_step fds ix o : OIInv fds ix -> iop_ok fds o ->
  OIInv fds (iapply fds ix o) /\ (oi_next ix <= oi_next (iapply fds ix o))%N /\
  (forall oid u, In (oid, u) (oi_ids (iapply fds ix o)) -> In (oid, u) (oi_ids ix) \/ (oi_next ix <= oid)%N).
Proof.
  intros I Hok. destruct o as [ks u|u]; cbn [iapply iop_ok] in *.
  - destruct (oi_insert_or_update fds ix ks u) as [ix'| |] eqn:E.
    + destruct (insert_or_update_spec fds ix ks u I Hok) as [_ [_ [_ [_ Hs]]]].
      destruct (Hs ix' E) as [I' [_ [_ [Hids [Hnext _]]]]]. split; [exact I'|]. rewrite Hids, Hnext.
      destruct (is_indexed ix u).
      * split; [lia|]. intros oid v H. left. exact H.
      * split; [lia|]. intros oid v H. apply in_app_iff in H. destruct H as [H|[H|[]]]; [left; exact H|].
        inv H. right. lia.
    + split; [exact I|]. split; [lia|]. intros oid v H. left. exact H.
    + split; [exact I|]. split; [lia|]. intros oid v H. left. exact H.
  - destruct (oi_delete_spec fds ix u I) as [ix' [E [I' [_ [_ [_ [Hids [_ [Hnext _]]]]]]]]]. rewrite E.
    split; [exact I'|]. split; [lia|]. intros oid v H. left. rewrite Hids in H. apply filter_In in H. apply H.
Qed.

(* NEVER ANOTHER OBJECT: after ANY sequence of accepted or rejected inserts, updates and deletes on
   the handle, an object id that denoted uuid [u] resolves to [u] or to nothing *)
Theorem id_never_denotes_another fds : forall ops ix oid u,
  OIInv fds ix -> Forall (iop_ok fds) ops -> oid_uuid ix oid = Some u ->
  let ix' := fold_left (iapply fds) ops ix in
  oid_uuid ix' oid = Some u \/ oid_uuid ix' oid = None.
Proof.
  intros ops. cbv zeta.
  assert (G : forall ops ix oid u, OIInv fds ix -> Forall (iop_ok fds) ops -> (oid < oi_next ix)%N ->
              (oid_uuid ix oid = Some u \/ oid_uuid ix oid = None) ->
              oid_uuid (fold_left (iapply fds) ops ix) oid = Some u \/ oid_uuid (fold_left (iapply fds) ops ix) oid = None).
  { clear ops. induction ops as [|o r IH]; intros ix oid u I Hok Hlt H; [exact H|].
    inversion Hok as [|? ? Ho Hr]; subst. cbn [fold_left].
    destruct (iapply_step fds ix o I Ho) as [I' [Hn Hids]].
    apply (IH _ oid u I' Hr); [lia|].
    destruct (oid_uuid (iapply fds ix o) oid) as [v|] eqn:E; [|right; reflexivity].
    apply (oid_uuid_spec _ oid v (inv_oid_nodup _ _ I')) in E. destruct (Hids oid v E) as [X|X]; [|lia].
    apply (oid_uuid_spec _ oid v (inv_oid_nodup _ _ I)) in X. destruct H as [H|H]; [left; congruence|congruence]. }
  intros ix oid u I Hok H. apply (G ops ix oid u I Hok); [|left; exact H].
  apply (oid_uuid_spec _ oid u (inv_oid_nodup _ _ I)) in H. apply (inv_lt_next _ _ I). apply (in_ids_fst _ _ _ H).
Qed.
Print Assumptions id_never_denotes_another.

(* the hypothesis matters across a RELOAD: the counter is rebuilt from the table, so the id of a
   deleted object with the largest id is handed out again (oiex_reload_reuse); within one handle it
   never is: this is why the property speaks of "the same handle" *)
