(* Proofs/DBStruct1.v: rejected writes leave no trace (C06, C07, C15): batches, bulk chunking,
   single insertion (Validate sees the prepared object; an accepted object is stored prepared). *)
From Coq Require Import List ZArith NArith Bool Lia.
Import ListNotations.
From Sod.Model Require Import Base FieldIndex ObjIndex DB Instance.
From Sod.Proofs Require Import DBBasic.

(* ---------------------------------------------------------------- generic helpers *)

Lemma str_eqb_refl s : str_eqb s s = true.
Proof. induction s as [|x s IH]; cbn; [reflexivity|]. rewrite N.eqb_refl. exact IH. Qed.

Lemma str_eqb_eq a : forall b, str_eqb a b = true <-> a = b.
Proof.
  induction a as [|x a IH]; intros [|y b]; cbn; split; intros H; try reflexivity; try discriminate.
  - apply andb_true_iff in H. destruct H as [H1 H2]. apply N.eqb_eq in H1. apply IH in H2. congruence.
  - inv H. rewrite N.eqb_refl. apply str_eqb_refl.
Qed.

Lemma fname_eqb_refl f : fname_eqb f f = true.
Proof. unfold fname_eqb. rewrite N.eqb_refl, str_eqb_refl. reflexivity. Qed.

Lemma fname_eqb_eq f g : fname_eqb f g = true <-> f = g.
Proof.
  unfold fname_eqb. split.
  - intros H. apply andb_true_iff in H. destruct H as [H1 H2].
    apply N.eqb_eq in H1. apply str_eqb_eq in H2. destruct f, g; cbn in *; congruence.
  - intros ->. rewrite N.eqb_refl, str_eqb_refl. reflexivity.
Qed.

Lemma fname_eqb_sym f g : fname_eqb f g = fname_eqb g f.
Proof.
  destruct (fname_eqb f g) eqn:E.
  - apply fname_eqb_eq in E. subst. symmetry. apply fname_eqb_refl.
  - destruct (fname_eqb g f) eqn:E2; [|reflexivity].
    apply fname_eqb_eq in E2. subst. rewrite fname_eqb_refl in E. discriminate.
Qed.

Lemma file_lookup_put_same f c l : file_lookup f (file_put f c l) = Some c.
Proof.
  induction l as [|[g c'] l IH]; cbn.
  - rewrite fname_eqb_refl. reflexivity.
  - destruct (fname_eqb f g) eqn:E; cbn.
    + rewrite fname_eqb_refl. reflexivity.
    + rewrite E. exact IH.
Qed.

Lemma file_lookup_put_other f g c l : f <> g -> file_lookup g (file_put f c l) = file_lookup g l.
Proof.
  intros Hne. induction l as [|[g2 c2] l IH]; cbn.
  - destruct (fname_eqb g f) eqn:E; [apply fname_eqb_eq in E; congruence|reflexivity].
  - destruct (fname_eqb f g2) eqn:E; cbn.
    + apply fname_eqb_eq in E. subst g2.
      destruct (fname_eqb g f) eqn:E2; [apply fname_eqb_eq in E2; congruence|reflexivity].
    + destruct (fname_eqb g g2); [reflexivity|exact IH].
Qed.

(* ---------------------------------------------------------------- the mutation primitives *)

(* a mutation which reports success has applied its effect; one which reports failure has not
   touched the directory *)
Lemma fs_mut_true w o eff w' : fs_mut w o eff = (true, w') -> w_disk w' = eff (w_disk w) /\ w_dead w' = false.
Proof. unfold fs_mut. repeat break_match; intros H; inv H; cbn; auto. Qed.

Lemma fs_mut_false w o eff w' : fs_mut w o eff = (false, w') -> w_disk w' = w_disk w.
Proof. unfold fs_mut. repeat break_match; intros H; inv H; cbn; auto. Qed.

Lemma fs_mut_nofault w o eff : w_fail w = None -> w_dead w = false ->
  exists w', fs_mut w o eff = (true, w') /\ w_disk w' = eff (w_disk w) /\ w_fail w' = None /\ w_dead w' = false.
Proof. intros Hf Hd. unfold fs_mut. rewrite Hd, Hf. eexists. repeat split. Qed.

Lemma fs_mkdir_files w ok w' : fs_mkdir w = (ok, w') ->
  d_files (w_disk w') = d_files (w_disk w) /\ d_schema (w_disk w') = d_schema (w_disk w).
Proof.
  unfold fs_mkdir. destruct (d_dir (w_disk w)); [intros H; inv H; auto|].
  destruct ok; intros H.
  - apply fs_mut_true in H. destruct H as [-> _]. cbn. auto.
  - apply fs_mut_false in H. rewrite H. auto.
Qed.

Lemma fs_mkdir_true w w' : fs_mkdir w = (true, w') -> d_dir (w_disk w') = true.
Proof.
  unfold fs_mkdir. destruct (d_dir (w_disk w)) eqn:E; [intros H; inv H; exact E|].
  intros H. apply fs_mut_true in H. destruct H as [-> _]. reflexivity.
Qed.

Lemma fs_write_schema_files w sf ok w' : fs_write_schema w sf = (ok, w') ->
  d_files (w_disk w') = d_files (w_disk w) /\ d_dir (w_disk w') = d_dir (w_disk w).
Proof.
  unfold fs_write_schema. destruct (fs_mut w (FTrunc PSchema) _) as [ok1 w1] eqn:E1.
  destruct ok1.
  - apply fs_mut_true in E1. destruct E1 as [E1 _]. destruct ok; intros H.
    + apply fs_mut_true in H. destruct H as [-> _]. rewrite E1. cbn. auto.
    + apply fs_mut_false in H. rewrite H, E1. cbn. auto.
  - apply fs_mut_false in E1. intros H. inv H. rewrite E1. auto.
Qed.

Lemma fs_write_schema_true w sf w' : fs_write_schema w sf = (true, w') ->
  d_schema (w_disk w') = Some (SOk sf).
Proof.
  unfold fs_write_schema. destruct (fs_mut w (FTrunc PSchema) _) as [ok1 w1] eqn:E1.
  destruct ok1; [|intros H; inv H].
  intros H. apply fs_mut_true in H. destruct H as [-> _]. reflexivity.
Qed.

Lemma save_schema_files w m e w' : save_schema w m = (e, w') -> d_files (w_disk w') = d_files (w_disk w).
Proof.
  unfold save_schema. destruct (fs_mkdir w) as [ok w1] eqn:E1.
  apply fs_mkdir_files in E1. destruct E1 as [E1 _].
  destruct ok; cbn [negb]; [|intros H; inv H; exact E1].
  destruct (fs_write_schema w1 (sfile_of m)) as [ok2 w2] eqn:E2.
  apply fs_write_schema_files in E2. destruct E2 as [E2 _].
  destruct ok2; intros H; inv H; congruence.
Qed.

Lemma fs_write_obj_true w f o w' : fs_write_obj w f o = (true, w') ->
  d_files (w_disk w') = file_put f (COk o) (file_put f CBad (d_files (w_disk w))) /\
  d_dir (w_disk w') = d_dir (w_disk w) /\ d_schema (w_disk w') = d_schema (w_disk w) /\ w_dead w' = false.
Proof.
  unfold fs_write_obj. destruct (fs_mut w (FTrunc (PObj f)) _) as [ok1 w1] eqn:E1.
  destruct ok1; [|intros H; inv H].
  apply fs_mut_true in E1. destruct E1 as [E1 _].
  intros H. apply fs_mut_true in H. destruct H as [-> Hd]. rewrite E1. cbn. auto.
Qed.

Lemma write_object_ok w m u o w' : write_object w m u o = (None, w') ->
  forallb serialisable (o_keys o) = true /\
  d_files (w_disk w') = file_put (file_of m u) (COk o) (file_put (file_of m u) CBad (d_files (w_disk w))) /\
  d_dir (w_disk w') = true /\ d_schema (w_disk w') = d_schema (w_disk w).
Proof.
  unfold write_object. destruct (fs_mkdir w) as [ok w1] eqn:E1.
  destruct ok; cbn [negb]; [|intros H; inv H].
  destruct (forallb serialisable (o_keys o)); cbn [negb]; [|intros H; inv H].
  destruct (fs_write_obj w1 (file_of m u) o) as [ok2 w2] eqn:E2.
  destruct ok2; intros H; inv H.
  apply fs_write_obj_true in E2. destruct E2 as [F [D [S _]]].
  pose proof (fs_mkdir_true _ _ E1) as Hd. apply fs_mkdir_files in E1. destruct E1 as [E1 E1'].
  repeat split; congruence.
Qed.

Lemma write_object_stored w m u o w' : write_object w m u o = (None, w') ->
  file_lookup (file_of m u) (d_files (w_disk w')) = Some (COk o).
Proof.
  intros H. apply write_object_ok in H. destruct H as [_ [-> _]]. apply file_lookup_put_same.
Qed.

(* ---------------------------------------------------------------- schema lookup, commit *)

Lemma db_schema_some_mem ls h d h1 m eo : db_schema ls h d = (h1, Some m, eo) -> h_mem h1 = Some m.
Proof.
  unfold db_schema. intros H. repeat break_match; inv H; try reflexivity; try discriminate; congruence.
Qed.

Lemma db_schema_none_mem ls h d h1 eo : db_schema ls h d = (h1, None, eo) -> h1 = h.
Proof.
  unfold db_schema. intros H. repeat break_match; inv H; try reflexivity; try discriminate.
  all: unfold start_flusher in *; cbn in *; repeat break_match; cbn in *; try discriminate; congruence.
Qed.

Lemma commit_mem ls h w h' e w' : commit ls h w = (h', e, w') -> h_mem h <> None -> h_mem h' <> None.
Proof.
  unfold commit. intros H Hm. destruct (h_mem h) as [m|] eqn:Em; [|congruence].
  rewrite (db_schema_loaded ls h (w_disk w) m Em) in H.
  destruct (start_flusher_mem h m Em) as [m' [Hm' _]]. rewrite Hm' in H.
  destruct (save_schema w m') as [eo w1]. inv H. congruence.
Qed.

Lemma commit_stores ls h w h' e w' : commit ls h w = (h', e, w') -> same_stores h h'.
Proof.
  unfold commit. destruct (db_schema ls h (w_disk w)) as [[h1 mo] eo] eqn:Hs.
  apply db_schema_stores in Hs.
  destruct mo as [m|]; destruct eo as [e0|]; try (intros H; inv H; exact Hs).
  destruct (save_schema w m). intros H; inv H; exact Hs.
Qed.

Lemma commit_files ls h w h' e w' : commit ls h w = (h', e, w') ->
  d_files (w_disk w') = d_files (w_disk w).
Proof.
  unfold commit. destruct (db_schema ls h (w_disk w)) as [[h1 mo] eo].
  destruct mo as [m|]; destruct eo as [e0|]; try (intros H; inv H; reflexivity).
  destruct (save_schema w m) as [e1 w1] eqn:Es. intros H; inv H. eapply save_schema_files; eassumption.
Qed.

(* ---------------------------------------------------------------- insert_core *)

Lemma oi_insert_or_update_err fds ix ks u e : oi_insert_or_update fds ix ks u = Err e -> e = EUnique.
Proof. unfold oi_insert_or_update. repeat break_match; intros H; inv H; reflexivity. Qed.

Lemma insert_core_err ls h w m u o c h' e w' :
  h_mem h = Some m ->
  insert_core ls h w m u o c = (h', Err e, w') ->
  (e = EJson /\ forallb serialisable (o_keys o) = false) \/ e = EUnique \/ e = EStorage.
Proof.
  intros Hm. unfold insert_core.
  destruct (forallb serialisable (o_keys o)) eqn:Hser; cbn [negb]; [|intros H; inv H; auto].
  destruct (oi_insert_or_update (m_fields m) (m_idx m) (o_keys o) u) as [ix|e1|] eqn:Hi;
    [|intros H; inv H; apply oi_insert_or_update_err in Hi; auto|intros H; inv H].
  destruct (async_on (set_idx m ix)); [intros H; inv H|].
  destruct (write_object w (set_idx m ix) u o) as [[e2|] w1] eqn:Hw.
  - intros H. inv H. apply write_object_err in Hw; auto.
  - destruct c; [|intros H; inv H].
    destruct (commit ls _ w1) as [[h3 [e3|]] w3] eqn:Hc; intros H; inv H.
    apply commit_err in Hc; [auto|destruct (must_cache (set_idx m ix)); cbn; congruence].
Qed.

Lemma insert_core_mem ls h w m u o c h' r w' :
  h_mem h = Some m -> insert_core ls h w m u o c = (h', r, w') -> h_mem h' <> None.
Proof.
  intros Hm. unfold insert_core.
  destruct (negb (forallb serialisable (o_keys o))); [intros H; inv H; congruence|].
  destruct (oi_insert_or_update (m_fields m) (m_idx m) (o_keys o) u) as [ix|e1|];
    [|intros H; inv H; congruence|intros H; inv H; congruence].
  set (h2 := if must_cache (set_idx m ix) then _ else _).
  assert (Hh2 : h_mem h2 <> None) by (subst h2; destruct (must_cache (set_idx m ix)); cbn; congruence).
  destruct (async_on (set_idx m ix)); [intros H; inv H; cbn; exact Hh2|].
  destruct (write_object w (set_idx m ix) u o) as [[e2|] w1]; [intros H; inv H; exact Hh2|].
  destruct c; [|intros H; inv H; exact Hh2].
  destruct (commit ls h2 w1) as [[h3 e3] w3] eqn:Hc.
  apply commit_mem in Hc; [|exact Hh2]. destruct e3; intros H; inv H; exact Hc.
Qed.

(* ---------------------------------------------------------------- insert_loop *)

Definition all_serialisable (l : list (N * obj)) : Prop :=
  Forall (fun p => forallb serialisable (o_keys (snd p)) = true) l.

Lemma insert_loop_mem ls l : forall h w n h' r w' n',
  h_mem h <> None -> insert_loop ls h w l n = (h', r, w', n') -> h_mem h' <> None.
Proof.
  induction l as [|[u o] l IH]; intros h w n h' r w' n' Hm; cbn [insert_loop].
  - intros H; inv H; exact Hm.
  - destruct (h_mem h) as [m|] eqn:Em; [|congruence].
    destruct (insert_core ls h w m u o false) as [[h1 r1] w1] eqn:Hi.
    pose proof (insert_core_mem _ _ _ _ _ _ _ _ _ _ Em Hi) as Hm1.
    destruct r1 as [[]|e1|]; [|intros H; inv H; exact Hm1|intros H; inv H; exact Hm1].
    intros H. eapply IH; eassumption.
Qed.

(* the only logical error the insertion loop can return on a validated batch is EUnique *)
Lemma insert_loop_logical ls l : forall h w n h' e w' n',
  all_serialisable l ->
  insert_loop ls h w l n = (h', Err e, w', n') -> logical e -> e = EUnique.
Proof.
  induction l as [|[u o] l IH]; intros h w n h' e w' n' Hser; cbn [insert_loop].
  - intros H; inv H.
  - inv Hser. cbn [snd] in *.
    destruct (h_mem h) as [m|] eqn:Em.
    + destruct (insert_core ls h w m u o false) as [[h1 r1] w1] eqn:Hi.
      destruct r1 as [[]|e1|]; [|intros H HL; inv H|intros H; inv H].
      * intros H HL. eapply IH; eassumption.
      * destruct (insert_core_err _ _ _ _ _ _ _ _ _ _ Em Hi) as [[_ X]|[X|X]]; [congruence|exact X|].
        subst. destruct HL as [X|[X|[X|X]]]; discriminate.
    + intros H HL. inv H. destruct HL as [X|[X|[X|X]]]; discriminate.
Qed.

(* ---------------------------------------------------------------- validate_batch *)

Lemma validate_batch_serialisable hk m ms : forall tmp l,
  validate_batch hk m tmp ms = Ok l -> all_serialisable l.
Proof.
  induction ms as [|[u fresh o|] ms IH]; intros tmp l; cbn [validate_batch].
  - intros H; inv H. constructor.
  - destruct (negb (hk_va hk (o_keys (prepare_obj hk m o)))); [intros H; inv H|].
    destruct (forallb serialisable (o_keys (prepare_obj hk m o))) eqn:Hser; cbn [negb]; [|intros H; inv H].
    destruct (oi_insert_or_update _ tmp _ _) as [tmp'|e1|]; [|intros H; inv H|intros H; inv H].
    destruct (oi_satisfy_all _ _ _ _) as [[|]|]; [|intros H; inv H|intros H; inv H].
    destruct (validate_batch hk m tmp' ms) as [l'|e2|] eqn:Hv; intros H; inv H.
    constructor; [exact Hser|]. eapply IH; eassumption.
  - intros H; inv H.
Qed.

(* what a validated batch is: every member prepared, validated, serialisable *)
Lemma validate_batch_members hk m ms : forall tmp l,
  validate_batch hk m tmp ms = Ok l ->
  Forall2 (fun mb p => exists u fresh o, mb = MRec u fresh o /\
                         p = ((if N.eqb u 0 then fresh else u), prepare_obj hk m o) /\
                         hk_va hk (o_keys (prepare_obj hk m o)) = true) ms l.
Proof.
  induction ms as [|[u fresh o|] ms IH]; intros tmp l; cbn [validate_batch].
  - intros H; inv H. constructor.
  - destruct (hk_va hk (o_keys (prepare_obj hk m o))) eqn:Hva; cbn [negb]; [|intros H; inv H].
    destruct (negb (forallb serialisable (o_keys (prepare_obj hk m o)))); [intros H; inv H|].
    destruct (oi_insert_or_update _ tmp _ _) as [tmp'|e1|]; [|intros H; inv H|intros H; inv H].
    destruct (oi_satisfy_all _ _ _ _) as [[|]|]; [|intros H; inv H|intros H; inv H].
    destruct (validate_batch hk m tmp' ms) as [l'|e2|] eqn:Hv; intros H; inv H.
    constructor; [|eapply IH; eassumption].
    exists u, fresh, o. auto.
  - intros H; inv H.
Qed.

(* ---------------------------------------------------------------- 1a: rejected batches *)

Definition is_rec (x : member) : bool := match x with MRec _ _ _ => true | MOther => false end.

(* (o) a batch led by an object of another collection: the world is not touched; of the handle, at most the
   lazy load of this collection's schema (initialising a member that has no uuid yet asks whether its new
   uuid exists) *)
Theorem many_other_first hk ls s r s' res n :
  do_many hk ls s (MOther :: r) = (s', res, n) ->
  s_w s' = s_w s /\
  (s_h s' = s_h s \/ s_h s' = fst (fst (db_schema ls (s_h s) (w_disk (s_w s))))) /\
  (existsb is_rec r = false -> s' = s /\ res = Ok tt /\ n = Z.of_nat (length (MOther :: r))) /\
  (existsb is_rec r = true -> n = 0%Z /\ exists e, res = Err e).
Proof.
  unfold do_many. fold is_rec.
  destruct (find is_rec r) as [x|] eqn:F.
  - assert (E : existsb is_rec r = true).
    { apply find_some in F. apply existsb_exists. exists x. exact F. }
    destruct x as [u fr o|].
    + destruct (N.eqb u 0).
      * destruct (db_schema ls (s_h s) (w_disk (s_w s))) as [[h1 mo] eo] eqn:Hs.
        destruct eo as [e0|]; intros H; inv H; cbn [s_w s_h mk fst];
          (split; [reflexivity|split; [right; reflexivity|split; [congruence|intros _; split; [reflexivity|eexists; reflexivity]]]]).
      * intros H; inv H. split; [reflexivity|]. split; [left; reflexivity|]. split; [congruence|].
        intros _; split; [reflexivity|eexists; reflexivity].
    + apply find_some in F. destruct F as [_ F]. discriminate F.
  - assert (E : existsb is_rec r = false).
    { destruct (existsb is_rec r) eqn:X; [|reflexivity]. apply existsb_exists in X. destruct X as [x [Hin Hx]].
      pose proof (find_none _ _ F x Hin). congruence. }
    intros H; inv H. split; [reflexivity|]. split; [left; reflexivity|]. split; [auto|]. congruence.
Qed.
Print Assumptions many_other_first.

(* (i) a batch rejected by the validation loop: only the lazy schema load is visible *)
Theorem many_validation_rejected hk ls s u fresh o r h1 m e :
  db_schema ls (s_h s) (w_disk (s_w s)) = (h1, Some m, None) ->
  validate_batch hk m (new_index (m_fields m)) (MRec u fresh o :: r) = Err e ->
  do_many hk ls s (MRec u fresh o :: r) = (mk h1 (s_w s), Err e, 0%Z).
Proof.
  intros Hs Hv. unfold do_many. rewrite Hs, Hv. reflexivity.
Qed.
Print Assumptions many_validation_rejected.

(* where a logical error of InsertOrUpdateMany can come from: either before any effect, or it is
   EUnique raised by the insertion loop on a batch the validation loop had accepted *)
Theorem many_rejected_cases hk ls s ms s' e n :
  do_many hk ls s ms = (s', Err e, n) -> logical e ->
  (exists r, ms = MOther :: r /\ n = 0%Z /\ s_w s' = s_w s /\
      (s_h s' = s_h s \/ s_h s' = fst (fst (db_schema ls (s_h s) (w_disk (s_w s)))))) \/
  (exists u fresh o r, ms = MRec u fresh o :: r /\ n = 0%Z /\ s_w s' = s_w s /\
      s_h s' = fst (fst (db_schema ls (s_h s) (w_disk (s_w s))))) \/
  (exists h1 m l h2 w2 h3 w3,
      db_schema ls (s_h s) (w_disk (s_w s)) = (h1, Some m, None) /\
      validate_batch hk m (new_index (m_fields m)) ms = Ok l /\
      insert_loop ls h1 (s_w s) l 0%Z = (h2, Err EUnique, w2, n) /\
      commit ls h2 w2 = (h3, None, w3) /\ s' = mk h3 w3 /\ e = EUnique).
Proof.
  destruct ms as [|[u fresh o|] r].
  - cbn. intros H; inv H.
  - intros H HL. right.
    unfold do_many in H.
    destruct (db_schema ls (s_h s) (w_disk (s_w s))) as [[h1 mo] eo] eqn:Hs.
    destruct mo as [m|]; destruct eo as [e0|];
      try solve [inv H; left; exists u, fresh, o, r; cbn; auto].
    destruct (validate_batch hk m (new_index (m_fields m)) (MRec u fresh o :: r)) as [l|e1|] eqn:Hv;
      [|inv H; left; exists u, fresh, o, r; cbn; auto|inv H].
    destruct (insert_loop ls h1 (s_w s) l 0%Z) as [[[h2 r2] w2] n2] eqn:Hl.
    pose proof (db_schema_some_mem _ _ _ _ _ _ Hs) as Hm1.
    assert (Hm2 : h_mem h2 <> None) by (eapply insert_loop_mem; [|exact Hl]; congruence).
    destruct (commit ls h2 w2) as [[h3 [e3|]] w3] eqn:Hc; inv H.
    + apply commit_err in Hc; [|exact Hm2]. subst. destruct HL as [X|[X|[X|X]]]; discriminate.
    + right. pose proof (validate_batch_serialisable _ _ _ _ _ Hv) as Hser.
      pose proof (insert_loop_logical _ _ _ _ _ _ _ _ _ Hser Hl HL) as ->.
      exists h1, m, l, h2, w2, h3, w3. repeat (split; [assumption || reflexivity|]). reflexivity.
  - intros H HL. left. exists r. destruct (many_other_first _ _ _ _ _ _ _ H) as [W [Hh [N0 N1]]].
    destruct (existsb is_rec r) eqn:X.
    + destruct (N1 eq_refl) as [-> _]. auto.
    + destruct (N0 eq_refl) as [_ [Q _]]. discriminate Q.
Qed.
Print Assumptions many_rejected_cases.

(* (ii) the requested statement, under the hypothesis that the insertion loop does not raise
   EUnique on a batch accepted by the validation loop (an index-level fact) *)
Definition loop_never_unique (hk : hooks) (ls : N) (s : state) (ms : list member) : Prop :=
  forall h1 m l h2 w2 n2,
    db_schema ls (s_h s) (w_disk (s_w s)) = (h1, Some m, None) ->
    validate_batch hk m (new_index (m_fields m)) ms = Ok l ->
    insert_loop ls h1 (s_w s) l 0%Z <> (h2, Err EUnique, w2, n2).

Theorem many_rejected_no_trace hk ls s ms s' e n :
  do_many hk ls s ms = (s', Err e, n) -> logical e ->
  loop_never_unique hk ls s ms ->
  n = 0%Z /\ s_w s' = s_w s /\
  ((exists r, ms = MOther :: r) /\
     (s_h s' = s_h s \/ s_h s' = fst (fst (db_schema ls (s_h s) (w_disk (s_w s))))) \/
   (exists u fresh o r, ms = MRec u fresh o :: r) /\
     s_h s' = fst (fst (db_schema ls (s_h s) (w_disk (s_w s))))).
Proof.
  intros H HL Hnu.
  destruct (many_rejected_cases _ _ _ _ _ _ _ H HL) as [[r [-> [-> [Hw Hh]]]]|[[u [fresh [o [r [-> [-> [Hw Hh]]]]]]]|X]].
  - split; [reflexivity|]. split; [exact Hw|]. left. split; [eexists; reflexivity|exact Hh].
  - split; [reflexivity|]. split; [exact Hw|]. right. split; [repeat eexists|exact Hh].
  - destruct X as [h1 [m [l [h2 [w2 [h3 [w3 [Hs [Hv [Hl _]]]]]]]]]].
    exfalso. eapply Hnu; eassumption.
Qed.
Print Assumptions many_rejected_no_trace.

(* ---------------------------------------------------------------- 1b: InsertOrUpdateBulk *)

Lemma bulk_loop_cons hk ls s c r n :
  bulk_loop hk ls s (c :: r) n =
  match do_many hk ls s c with
  | (s1, Ok _, k) => bulk_loop hk ls s1 r (n + k)%Z
  | (s1, e, k) => (s1, e, (n + k)%Z)
  end.
Proof. reflexivity. Qed.

(* [bulk_trace s cs s' r k]: the chunks of [cs] are submitted in order from state [s]; the run
   stops after the first chunk whose do_many does not return Ok (the later chunks are never
   submitted); [r] is the result of the last chunk submitted, [k] the sum of the counts returned
   by the chunks submitted *)
Inductive bulk_trace (hk : hooks) (ls : N) : state -> list (list member) -> state -> res unit -> Z -> Prop :=
| bt_nil s : bulk_trace hk ls s [] s (Ok tt) 0%Z
| bt_ok s c r s1 k s' rs n :
    do_many hk ls s c = (s1, Ok tt, k) -> bulk_trace hk ls s1 r s' rs n ->
    bulk_trace hk ls s (c :: r) s' rs (k + n)%Z
| bt_stop s c r s1 e k :
    do_many hk ls s c = (s1, e, k) -> e <> Ok tt -> bulk_trace hk ls s (c :: r) s1 e k.

Theorem bulk_rejected_prefix hk ls cs : forall s n s' r n',
  bulk_loop hk ls s cs n = (s', r, n') <->
  exists k, bulk_trace hk ls s cs s' r k /\ n' = (n + k)%Z.
Proof.
  induction cs as [|c cs IH]; intros s n s' r n'.
  - cbn. split.
    + intros H; inv H. exists 0%Z. split; [constructor|lia].
    + intros [k [Ht ->]]. inv Ht. f_equal. lia.
  - rewrite bulk_loop_cons. destruct (do_many hk ls s c) as [[s1 r1] k1] eqn:Hd. split.
    + destruct r1 as [[]|e1|].
      * intros H. apply IH in H. destruct H as [k [Ht ->]].
        exists (k1 + k)%Z. split; [econstructor; eassumption|lia].
      * intros H; inv H. exists k1. split; [|reflexivity]. eapply bt_stop; [eassumption|discriminate].
      * intros H; inv H. exists k1. split; [|reflexivity]. eapply bt_stop; [eassumption|discriminate].
    + intros [k [Ht ->]]. inv Ht.
      * match goal with H : do_many _ _ _ _ = _ |- _ => rewrite Hd in H; inv H end.
        apply IH. eexists. split; [eassumption|lia].
      * match goal with H : do_many _ _ _ _ = _ |- _ => rewrite Hd in H; inv H end.
        destruct r as [[]|e1|]; [congruence|reflexivity|reflexivity].
Qed.
Print Assumptions bulk_rejected_prefix.

(* the same in explicit prefix form *)
Fixpoint chunks_all_ok (hk : hooks) (ls : N) (s : state) (cs : list (list member)) : option (state * Z) :=
  match cs with
  | [] => Some (s, 0%Z)
  | c :: r =>
      match do_many hk ls s c with
      | (s1, Ok _, k) => match chunks_all_ok hk ls s1 r with
                         | Some (s2, k2) => Some (s2, (k + k2)%Z)
                         | None => None
                         end
      | _ => None
      end
  end.

Theorem bulk_loop_ok hk ls cs : forall s n s' n',
  bulk_loop hk ls s cs n = (s', Ok tt, n') <-> exists k, chunks_all_ok hk ls s cs = Some (s', k) /\ n' = (n + k)%Z.
Proof.
  induction cs as [|c cs IH]; intros s n s' n'.
  - cbn. split.
    + intros H; inv H. exists 0%Z. split; [reflexivity|lia].
    + intros [k [H ->]]. inv H. f_equal. lia.
  - rewrite bulk_loop_cons. cbn [chunks_all_ok]. destruct (do_many hk ls s c) as [[s1 r1] k1] eqn:Hd.
    destruct r1 as [[]|e1|].
    + rewrite IH. split.
      * intros [k [H ->]]. rewrite H. exists (k1 + k)%Z. split; [reflexivity|lia].
      * intros [k [H ->]]. destruct (chunks_all_ok hk ls s1 cs) as [[s2 k2]|]; inv H.
        exists k2. split; [reflexivity|lia].
    + split; [intros H; inv H|intros [k [H _]]; inv H].
    + split; [intros H; inv H|intros [k [H _]]; inv H].
Qed.

Theorem bulk_loop_stops_at_first_failure hk ls cs : forall s n s' r n',
  bulk_loop hk ls s cs n = (s', r, n') -> r <> Ok tt ->
  exists pre c post s1 k1 k,
    cs = pre ++ c :: post /\ chunks_all_ok hk ls s pre = Some (s1, k1) /\
    do_many hk ls s1 c = (s', r, k) /\ n' = (n + k1 + k)%Z.
Proof.
  induction cs as [|c cs IH]; intros s n s' r n'.
  - cbn. intros H Hr; inv H. congruence.
  - rewrite bulk_loop_cons. destruct (do_many hk ls s c) as [[s1 r1] k1] eqn:Hd.
    destruct r1 as [[]|e1|].
    + intros H Hr. destruct (IH _ _ _ _ _ H Hr) as [pre [c' [post [s2 [k2 [k [-> [Hp [Hm ->]]]]]]]]].
      exists (c :: pre), c', post, s2, (k1 + k2)%Z, k. cbn [chunks_all_ok app]. rewrite Hd, Hp.
      repeat split; [exact Hm|lia].
    + intros H Hr; inv H. exists [], c, cs, s, 0%Z, k1. cbn. repeat split; [exact Hd|lia].
    + intros H Hr; inv H. exists [], c, cs, s, 0%Z, k1. cbn. repeat split; [exact Hd|lia].
Qed.
Print Assumptions bulk_loop_stops_at_first_failure.

(* ---------------------------------------------------------------- 1c: chunking *)

Lemma chunks_aux_concat c ms : forall cur, concat (chunks_aux c ms cur) = rev cur ++ ms.
Proof.
  induction ms as [|x ms IH]; intros cur; cbn [chunks_aux].
  - cbn. rewrite app_nil_r. reflexivity.
  - destruct (Z.eqb _ c).
    + cbn [concat]. rewrite IH. cbn. rewrite <- app_assoc. reflexivity.
    + rewrite IH. cbn. rewrite <- app_assoc. reflexivity.
Qed.

Theorem chunks_concat c ms : concat (chunks c ms) = ms.
Proof. unfold chunks. rewrite chunks_aux_concat. reflexivity. Qed.
Print Assumptions chunks_concat.

Lemma chunks_aux_lengths c ms : forall cur, (0 < c)%Z -> (Z.of_nat (length cur) < c)%Z ->
  exists init last, chunks_aux c ms cur = init ++ [last] /\
    Forall (fun ch => Z.of_nat (length ch) = c) init /\ (Z.of_nat (length last) < c)%Z.
Proof.
  induction ms as [|x ms IH]; intros cur Hc Hcur; cbn [chunks_aux].
  - exists [], (rev cur). rewrite rev_length. repeat split; [constructor|exact Hcur].
  - destruct (Z.eqb (Z.of_nat (length (x :: cur))) c) eqn:E.
    + apply Z.eqb_eq in E.
      destruct (IH [] Hc ltac:(cbn; lia)) as [init [last [H1 [H2 H3]]]].
      exists (rev (x :: cur) :: init), last. rewrite H1. repeat split; [|exact H3].
      constructor; [rewrite rev_length; exact E|exact H2].
    + apply Z.eqb_neq in E. apply IH; [exact Hc|]. cbn [length] in *. lia.
Qed.

(* 0 < c: every chunk but the last has exactly c members, the last (always present, possibly
   empty) fewer than c *)
Theorem chunks_lengths c ms : (0 < c)%Z ->
  exists init last, chunks c ms = init ++ [last] /\
    Forall (fun ch => Z.of_nat (length ch) = c) init /\ (Z.of_nat (length last) < c)%Z.
Proof. intros Hc. apply chunks_aux_lengths; [exact Hc|cbn; lia]. Qed.
Print Assumptions chunks_lengths.

Lemma chunks_aux_nonpos c ms : forall cur, (c <= 0)%Z -> chunks_aux c ms cur = [rev cur ++ ms].
Proof.
  induction ms as [|x ms IH]; intros cur Hc; cbn [chunks_aux].
  - rewrite app_nil_r. reflexivity.
  - destruct (Z.eqb (Z.of_nat (length (x :: cur))) c) eqn:E.
    + apply Z.eqb_eq in E. cbn [length] in E. lia.
    + rewrite IH by exact Hc. cbn. rewrite <- app_assoc. reflexivity.
Qed.

(* c <= 0: the whole input is one chunk *)
Theorem chunks_nonpos c ms : (c <= 0)%Z -> chunks c ms = [ms].
Proof. intros Hc. unfold chunks. rewrite chunks_aux_nonpos by exact Hc. reflexivity. Qed.
Print Assumptions chunks_nonpos.

(* ---------------------------------------------------------------- 1d / 1e: single insertion *)

Theorem insert_invalid hk ls s u fresh o h1 m :
  db_schema ls (s_h s) (w_disk (s_w s)) = (h1, Some m, None) ->
  hk_va hk (o_keys (prepare_obj hk m o)) = false ->
  step_fg hk ls s (OInsert u fresh o) = (mk h1 (s_w s), RUnit (Err EInvalid)).
Proof.
  intros Hs Hva. cbn [step_fg]. unfold do_insert, with_schema. rewrite Hs, Hva. reflexivity.
Qed.
Print Assumptions insert_invalid.

(* No "no fault armed" hypothesis is needed: the call returned Ok, hence every mutation it issued
   reported success, hence was applied. *)
Theorem insert_accepted_stores_prepared hk ls s u fresh o s' h1 m :
  db_schema ls (s_h s) (w_disk (s_w s)) = (h1, Some m, None) ->
  step_fg hk ls s (OInsert u fresh o) = (s', RUnit (Ok tt)) ->
  let u' := if N.eqb u 0 then fresh else u in
  let o' := prepare_obj hk m o in
  hk_va hk (o_keys o') = true /\
  forallb serialisable (o_keys o') = true /\
  (async_on m = true -> assoc u' (h_pend (s_h s')) = Some o' /\ s_w s' = s_w s) /\
  (async_on m = false -> file_lookup (file_of m u') (d_files (w_disk (s_w s'))) = Some (COk o')) /\
  (must_cache m = true -> assoc u' (h_cache (s_h s')) = Some o').
Proof.
  intros Hs H u' o'. cbn [step_fg] in H. unfold do_insert, with_schema in H. rewrite Hs in H.
  fold o' in H. fold u' in H.
  destruct (hk_va hk (o_keys o')) eqn:Hva; cbn [negb] in H; [|inv H].
  split; [reflexivity|].
  destruct (insert_core ls h1 (s_w s) m u' o' true) as [[h2 r] w2] eqn:Hi. inv H.
  unfold insert_core in Hi.
  destruct (forallb serialisable (o_keys o')) eqn:Hser; cbn [negb] in Hi; [|inv Hi].
  split; [reflexivity|].
  destruct (oi_insert_or_update (m_fields m) (m_idx m) (o_keys o') u') as [ix|e1|]; [|inv Hi|inv Hi].
  change (async_on (set_idx m ix)) with (async_on m) in Hi.
  change (must_cache (set_idx m ix)) with (must_cache m) in Hi.
  destruct (async_on m) eqn:Ha.
  - inv Hi. cbn [s_h s_w mk]. unfold must_cache. rewrite Ha, orb_true_r. cbn.
    rewrite !assoc_put_same. repeat split; auto; intros X; discriminate.
  - split; [intros X; discriminate|].
    destruct (write_object (s_w s) (set_idx m ix) u' o') as [[e2|] w1] eqn:Hw; [inv Hi|].
    match type of Hi with context [commit ls ?hh w1] => destruct (commit ls hh w1) as [[h3 [e3|]] w3] eqn:Hc end;
      inv Hi.
    cbn [s_h s_w mk]. split.
    + intros _. rewrite (commit_files _ _ _ _ _ _ Hc).
      apply write_object_stored in Hw. exact Hw.
    + intros Hmc. apply commit_stores in Hc. destruct Hc as [Hc _]. rewrite Hc, Hmc. cbn.
      apply assoc_put_same.
Qed.
Print Assumptions insert_accepted_stores_prepared.

(* ---------------------------------------------------------------- examples: the hypotheses are satisfiable *)

Definition hk0 : hooks := mk_hooks [] [].
Definition fd_u : fdesc := {| fd_kind := KdInt; fd_index := true; fd_unique := true; fd_upper := false; fd_lower := false |}.
Definition st_asy : settings := {| st_cache := false; st_async := Some (10%Z, 5%Z); st_compress := false; st_ext := [46; 106]%N |}.
Definition ob (a : Z) : obj := {| o_keys := [KInt a]; o_rest := 0%N |}.
(* 18 keys, VM = 3: Validate refuses *)
Definition ob_bad : obj := {| o_keys := repeat (KInt 0) 17 ++ [KInt 3]; o_rest := 0%N |}.
(* a synchronous collection holding one object with unique key 5 *)
Definition sx1 : state := run hk0 7%N init_state [OCreate default_settings [fd_u]; OInsert 0 1 (ob 5)].
(* the same after a reopen: the schema is loaded lazily by the next call *)
Definition sx2 : state := run hk0 7%N sx1 [OReopen].
(* an asynchronous collection *)
Definition sx3 : state := run hk0 7%N init_state [OCreate st_asy [fd_u]].

(* compute the left-hand side with the VM, then unify with the (possibly existential) right-hand side *)
Ltac vm_lhs :=
  match goal with
  | |- ?l = _ => let v := eval vm_compute in l in
                 (transitivity v; [vm_cast_no_check (@eq_refl _ v)|reflexivity])
  end.

Example many_validation_rejected_ex :
  exists h1 m, db_schema 7%N (s_h sx2) (w_disk (s_w sx2)) = (h1, Some m, None) /\
    validate_batch hk0 m (new_index (m_fields m)) [MRec 0 2 (ob 6); MRec 0 3 (ob 5)] = Err EUnique.
Proof. eexists. eexists. split; [vm_lhs|]. vm_lhs. Qed.

Example many_rejected_no_trace_ex :
  exists s', do_many hk0 7%N sx2 [MRec 0 2 (ob 6); MRec 0 3 (ob 5)] = (s', Err EUnique, 0%Z) /\
    logical EUnique /\ loop_never_unique hk0 7%N sx2 [MRec 0 2 (ob 6); MRec 0 3 (ob 5)] /\
    s' <> sx2.    (* the lazy load is visible: the conclusion cannot be strengthened to s' = s *)
Proof.
  eexists. split; [vm_lhs|]. split; [right; left; reflexivity|]. split.
  - intros h1 m l h2 w2 n2 Hs Hv. vm_compute in Hs. inv Hs. vm_compute in Hv. discriminate.
  - intros X. apply (f_equal (fun s => match h_mem (s_h s) with Some _ => true | None => false end)) in X.
    vm_compute in X. discriminate.
Qed.

Example many_other_first_ex :
  do_many hk0 7%N sx2 [MOther; MRec 1 2 (ob 6)] = (sx2, Err EWrongType, 0%Z) /\
  (* a member without uuid: the schema of this collection is loaded on the way, nothing else *)
  exists s', do_many hk0 7%N sx2 [MOther; MRec 0 2 (ob 6)] = (s', Err EWrongType, 0%Z) /\
             s_w s' = s_w sx2 /\ h_mem (s_h sx2) = None /\ h_mem (s_h s') <> None.
Proof.
  split; [vm_compute; reflexivity|]. eexists. split; [vm_lhs|]. split; [reflexivity|]. split; [reflexivity|]. discriminate.
Qed.

Example bulk_rejected_prefix_ex :
  exists s', bulk_loop hk0 7%N sx1 (chunks 1 [MRec 0 2 (ob 6); MRec 0 3 (ob 5); MRec 0 4 (ob 7)]) 0%Z
             = (s', Err EUnique, 1%Z) /\
    chunks 1 [MRec 0 2 (ob 6); MRec 0 3 (ob 5); MRec 0 4 (ob 7)]
    = [[MRec 0 2 (ob 6)]; [MRec 0 3 (ob 5)]; [MRec 0 4 (ob 7)]; []].
Proof. eexists. split; [vm_lhs|vm_compute; reflexivity]. Qed.

Example insert_invalid_ex :
  exists h1 m, db_schema 7%N (s_h sx2) (w_disk (s_w sx2)) = (h1, Some m, None) /\
    hk_va hk0 (o_keys (prepare_obj hk0 m ob_bad)) = false.
Proof. eexists. eexists. split; [vm_lhs|]. vm_lhs. Qed.

Example insert_accepted_sync_ex :
  exists h1 m s', db_schema 7%N (s_h sx2) (w_disk (s_w sx2)) = (h1, Some m, None) /\
    step_fg hk0 7%N sx2 (OInsert 0 2 (ob 6)) = (s', RUnit (Ok tt)) /\ async_on m = false.
Proof. do 3 eexists. split; [vm_lhs|]. split; [vm_lhs|]. vm_lhs. Qed.

Example insert_accepted_async_ex :
  exists h1 m s', db_schema 7%N (s_h sx3) (w_disk (s_w sx3)) = (h1, Some m, None) /\
    step_fg hk0 7%N sx3 (OInsert 0 2 (ob 6)) = (s', RUnit (Ok tt)) /\ async_on m = true /\ must_cache m = true.
Proof. do 3 eexists. split; [vm_lhs|]. split; [vm_lhs|]. split; vm_lhs. Qed.
