(* Proofs/Crash.v: C05, process-crash model "completed system calls persist in order".
   A crash is armed by OCrashAt k: the k-th next mutating file-system operation does not happen,
   the process is dead from there on (no further effect), and the next handle starts from whatever
   the directory holds.  Proved here:
     - a dead process writes nothing (every primitive), the handle is lost;
     - every call ACKNOWLEDGED in synchronous mode is reflected after the handle is abandoned at
       any point between two calls (induction over histories, from the refinement theorem);
     - reopening ANY directory either reports a load error / index corruption, or yields an index
       that is internally consistent and whose uuid set is exactly the set of object files;
     - the two windows where this is not enough, exhibited by computation on the model (they are
       the known findings KF-C05-a and KF-C05-b of the implementation). *)
From Coq Require Import List ZArith NArith Bool Lia Arith.
Import ListNotations.
From Sod.Model Require Import Base FieldIndex ObjIndex DB Instance.
From Sod.Proofs Require Import OIProofs OIProofs2 DBBasic DBStruct1 DBStruct2 LoadWF Robust Refine1 Refine2 Refine3 Refine4 Refine5.
Close Scope Z_scope.

(* ================================================================ a dead process writes nothing *)

Lemma fs_mut_dead w o eff : w_dead w = true -> fs_mut w o eff = (false, w).
Proof. intros H. unfold fs_mut. rewrite H. reflexivity. Qed.

Theorem dead_writes_nothing w : w_dead w = true ->
  (forall f o, fs_write_obj w f o = (false, w)) /\
  (forall sf, fs_write_schema w sf = (false, w)) /\
  (forall f, fs_remove w f = (false, w)) /\
  fs_remove_all w = (false, w) /\
  (d_dir (w_disk w) = false -> fs_mkdir w = (false, w)).
Proof.
  intros H. repeat split; intros; unfold fs_write_obj, fs_write_schema, fs_remove, fs_remove_all, fs_mkdir;
    rewrite ?fs_mut_dead by exact H; try reflexivity.
  match goal with Hd : d_dir _ = false |- _ => rewrite Hd end. reflexivity.
Qed.
Print Assumptions dead_writes_nothing.

(* the crash itself: the armed operation has no effect, everything logged before it persists *)
Theorem crash_point w o eff : w_dead w = false -> w_fail w = Some 0 -> w_crash w = true ->
  fst (fs_mut w o eff) = false /\ w_disk (snd (fs_mut w o eff)) = w_disk w /\
  w_log (snd (fs_mut w o eff)) = w_log w /\ w_dead (snd (fs_mut w o eff)) = true.
Proof. intros Hd Hf Hc. unfold fs_mut. rewrite Hd, Hf. cbn. rewrite Hc. repeat split; reflexivity. Qed.

(* before the crash point operations take effect and are logged, in order *)
Theorem before_crash_point w o eff k : w_dead w = false -> w_fail w = Some (S k) ->
  fst (fs_mut w o eff) = true /\ w_disk (snd (fs_mut w o eff)) = eff (w_disk w) /\
  w_log (snd (fs_mut w o eff)) = o :: w_log w /\ w_fail (snd (fs_mut w o eff)) = Some k /\
  w_dead (snd (fs_mut w o eff)) = false.
Proof. intros Hd Hf. unfold fs_mut. rewrite Hd, Hf. cbn. repeat split; reflexivity. Qed.

(* a call during which the process died returns nothing and leaves a fresh handle *)
Theorem crashed_call_loses_handle hk ls s o : o <> OTick ->
  w_dead (s_w (fst (step_fg hk ls s o))) = true ->
  snd (step hk ls s o) = RCrash /\ s_h (fst (step hk ls s o)) = new_handle /\
  w_disk (s_w (fst (step hk ls s o))) = w_disk (s_w (fst (step_fg hk ls s o))).
Proof.
  intros Hnt Hd. unfold step. destruct o; try congruence;
    destruct (step_fg hk ls s _) as [s1 r] eqn:E; cbn [fst snd] in *; rewrite Hd;
    cbn [fst snd mk s_h s_w]; (split; [reflexivity|split; [reflexivity|]]); reflexivity.
Qed.
Print Assumptions crashed_call_loses_handle.

(* ================================================================ acknowledged calls are reflected *)

Lemma spec_run_app hk : forall a x b,
  fst (spec_run hk x (a ++ b)) = fst (spec_run hk (fst (spec_run hk x a)) b).
Proof.
  induction a as [|o r IH]; intros x b; [reflexivity|].
  cbn [app spec_run]. destruct (spec_step hk x o) as [x1 y] eqn:E.
  specialize (IH x1 b).
  destruct (spec_run hk x1 (r ++ b)) as [x2 ys] eqn:E2. destruct (spec_run hk x1 r) as [x3 zs] eqn:E3.
  cbn [fst] in *. exact IH.
Qed.

(* synchronous mode, any history, the handle abandoned (process killed) after the last completed
   call: the next handle finds exactly the collection the specification reached, i.e. every
   acknowledged insert, update and delete, and nothing else *)
Theorem acknowledged_calls_reflected hk ls ops s :
  Inv ls s -> wf_hist hk ls s (ops ++ [OReopen]) ->
  Inv ls (run hk ls s (ops ++ [OReopen])) /\
  h_mem (s_h (run hk ls s (ops ++ [OReopen]))) = None /\
  abs (run hk ls s (ops ++ [OReopen])) = fst (spec_run hk (abs s) ops).
Proof.
  intros I W. destruct (C01_history hk ls (ops ++ [OReopen]) s I W) as [I1 [A1 _]].
  split; [exact I1|]. split.
  - rewrite run_app. unfold run at 1. cbn [fold_left]. 
    rewrite (step_nontick hk ls _ OReopen Logic.I ltac:(discriminate)).
    cbn [step_fg fst snd mk s_h s_w]. 
    match goal with |- context [w_dead ?w] => destruct (w_dead w) end; cbn; reflexivity.
  - rewrite A1. rewrite spec_run_app. cbn [spec_run].
    destruct (fst (spec_run hk (abs s) ops)) as [sp|]; reflexivity.
Qed.
Print Assumptions acknowledged_calls_reflected.

(* ... and in synchronous mode the abandonment is always well formed: every completed call has
   committed (this is where the property needs synchronous mode) *)
Theorem sync_abandon_wf hk ls s : Inv ls s -> sync_mode s -> wf_op hk s OReopen.
Proof. intros I Hs. apply (synced_wf hk ls s I). apply (sync_mode_synced ls s I Hs). Qed.

(* ================================================================ what a reopen sees on ANY directory *)

(* whatever a crash (or anything else) left in the directory: the first access either fails with
   a load error, or reports corruption, or yields a schema whose index is internally consistent
   and indexes exactly the uuids that have a file *)
Theorem reopen_detects_or_agrees ls d h' mo eo :
  db_schema ls new_handle d = (h', mo, eo) ->
  (exists e, eo = Some e /\ load_err e) \/
  (eo = None /\ exists m, mo = Some m /\ oi_control (m_idx m) = true /\
     (forall u, In u (disk_uuids d) <-> In u (indexed_uuids (m_idx m)))).
Proof.
  intros H. destruct eo as [e|].
  - left. exists e. split; [reflexivity|].
    apply (proj1 (load_classified ls new_handle d h' mo (Some e) eq_refl H) e eq_refl).
  - right. split; [reflexivity|]. revert H. unfold db_schema. cbn [new_handle h_mem].
    destruct (d_dir d); cbn [negb]; [|intros H; inv H].
    destruct (d_schema d) as [[sf|]|]; try (intros H; inv H; fail).
    destruct (control_mem ls (mem_of sf) d) as [e|] eqn:Ec; [destruct e; intros H; inv H|].
    intros H. inv H. apply control_mem_iff in Ec. destruct Ec as [_ [Hc Hs]].
    destruct (start_flusher_idx (set_mem new_handle (Some (mem_of sf))) (mem_of sf) eq_refl) as [m' [E1 [E2 _]]].
    exists m'. split; [exact E1|]. rewrite E2. split; assumption.
Qed.
Print Assumptions reopen_detects_or_agrees.

(* ================================================================ the windows (known findings) *)

Definition cr_fds : list fdesc :=
  [ {| fd_kind := KdInt; fd_index := true; fd_unique := false; fd_upper := false; fd_lower := false |} ].
Definition cr_ob (a : Z) : obj := {| o_keys := [KInt a]; o_rest := 0%N |}.
Definition cr_set : settings := {| st_cache := false; st_async := None; st_compress := false; st_ext := [46; 106]%N |}.
Definition cr_base : list op := [ OCreate cr_set cr_fds; OInsert 0 100 (cr_ob 1) ].

(* KF-C05-a, stale index entry: the update of #100 from 1 to 2 is interrupted after the object file
   was rewritten and before schema.json was (crash at the 3rd file-system mutation of the call:
   truncate object, write object, TRUNCATE SCHEMA).  The next handle loads without complaint,
   Control succeeds, yet searching the OLD value finds the object and the file says 2 *)
Example stale_entry_after_crash :
  let s := run hk0 7%N init_state (cr_base ++ [OCrashAt 2; OInsert 100 0 (cr_ob 2)]) in
  snd (step hk0 7%N (run hk0 7%N init_state (cr_base ++ [OCrashAt 2])) (OInsert 100 0 (cr_ob 2))) = RCrash /\
  run_out hk0 7%N s [OSchema; OControl; OSearch 1 (Some 0%nat) OpEq (KInt 1); OCollect 1 None false;
                      OSearch 2 (Some 0%nat) OpEq (KInt 2)] =
  [ RUnit (Ok tt); RUnit (Ok tt); RSearch None 1%Z; RObjs (Ok [(100%N, cr_ob 2)]); RSearch None 0%Z ].
Proof. cbv zeta. split; vm_compute; reflexivity. Qed.

(* KF-C05-b, torn schema: one mutation later (schema truncated, not yet written) every call fails
   with a JSON error: the collection cannot be loaded, Repair cannot help *)
Example torn_schema_after_crash :
  let s := run hk0 7%N init_state (cr_base ++ [OCrashAt 3; OInsert 100 0 (cr_ob 2)]) in
  run_out hk0 7%N s [OSchema; OCount; ORepair []] = [ RUnit (Err EJson); RNum (Err EJson); RUnit (Err EJson) ].
Proof. cbv zeta. vm_compute. reflexivity. Qed.

(* the other crash points of the same call are harmless or detected: before the object is touched
   nothing changed; with the object file truncated (unreadable) the uuid sets still agree, the load
   passes and the object is unreadable (KF-C05-c); a crash while a NEW object is written is detected *)
Example other_crash_points :
  run_out hk0 7%N (run hk0 7%N init_state (cr_base ++ [OCrashAt 0; OInsert 100 0 (cr_ob 2)])) [OSchema; OGet 100]
    = [ RUnit (Ok tt); RObj (Ok (100%N, cr_ob 1)) ] /\
  run_out hk0 7%N (run hk0 7%N init_state (cr_base ++ [OCrashAt 1; OInsert 100 0 (cr_ob 2)])) [OSchema; OGet 100]
    = [ RUnit (Ok tt); RObj (Err EJson) ] /\
  run_out hk0 7%N (run hk0 7%N init_state (cr_base ++ [OCrashAt 1; OInsert 0 101 (cr_ob 5)])) [OSchema]
    = [ RUnit (Err ECorrupted) ] /\
  run_out hk0 7%N (run hk0 7%N init_state (cr_base ++ [OCrashAt 2; OInsert 0 101 (cr_ob 5)])) [OSchema; ORepair []; OControl; OGet 101]
    = [ RUnit (Err ECorrupted); RUnit (Ok tt); RUnit (Ok tt); RObj (Ok (101%N, cr_ob 5)) ].
Proof. repeat split; vm_compute; reflexivity. Qed.
