(* Proofs/Refine4.v: C01, part 4: every covered call refines the specification machine
   (C01_refines), histories (C01_history, C01_from_init), corollaries. *)
From Coq Require Import List ZArith NArith Bool Lia Arith.
Import ListNotations.
From Sod.Model Require Import Base FieldIndex ObjIndex DB.
From Sod.Proofs Require Import FIProofs1 FIProofs2 FIProofs3 FIProofs4 FIProofs5 KeyOrder SearchSpec
     OIProofs OIProofs2 DBBasic Refine1 Refine2 Refine3.
Close Scope Z_scope.

(* ================================================================ covered calls, well-formedness *)

Definition covered_op (o : op) : Prop :=
  match o with
  | OCreate _ _ | OInsert _ _ _ | ODelete _ | OGet _ | OExist _ | OCount | OAll
  | OCommit | OFlushAll | OFlushAllCommit | OTick | OControl | OSchema | OClose | OReopen => True
  | _ => False
  end.

(* nothing waits in memory (always true of a handle that has not loaded the schema) *)
Definition synced_st (s : state) : Prop := synced_h (s_h s) (s_w s).

(* the file extension of the collection (schema.json, or the loaded schema) *)
Definition ext_of (s : state) : list N :=
  match h_mem (s_h s) with
  | Some m => st_ext (m_set m)
  | None => match d_schema (w_disk (s_w s)) with Some (SOk sf) => st_ext (sf_set sf) | _ => [] end
  end.

Definition wf_op (hk : hooks) (s : state) (o : op) : Prop :=
  match o with
  | OCreate st _ =>                                   (* a second Create keeps the extension *)
      match abs s with None => True | Some _ => str_eqb (ext_of s) (st_ext st) = true end
  | OInsert _ _ ob =>                                 (* the flat record has one key per field *)
      forall sp, abs s = Some sp -> keys_ok (sp_fds sp) (hk_tr hk (o_keys ob))
  | OControl => h_pend (s_h s) = []                   (* see control_pending_reports_corruption *)
  | OReopen => synced_st s                            (* after Close, or any time in synchronous mode *)
  | ODelete _ | OGet _ | OExist _ | OCount | OAll
  | OCommit | OFlushAll | OFlushAllCommit | OTick | OSchema | OClose => True
  | _ => False
  end.

Lemma wf_covered hk s o : wf_op hk s o -> covered_op o.
Proof. destruct o; cbn; auto. Qed.

Definition Post (hk : hooks) (ls : N) (s : state) (o : op) (s1 : state) (r : out) : Prop :=
  Inv ls s1 /\ abs s1 = fst (spec_step hk (abs s) o) /\ r = snd (spec_step hk (abs s) o).

(* ================================================================ small facts *)

Lemma canon_keys_length hk : forall fds ks, length (canon_keys hk fds ks) = length ks.
Proof.
  induction fds as [|d ds IH]; intros ks; [reflexivity|]. destruct ks as [|k r]; [reflexivity|].
  cbn [canon_keys length]. rewrite IH. reflexivity.
Qed.

Lemma with_schema_some ls s k bad h1 m :
  db_schema ls (s_h s) (w_disk (s_w s)) = (h1, Some m, None) -> with_schema ls s k bad = k h1 m.
Proof. intros H. unfold with_schema. rewrite H. reflexivity. Qed.

Lemma with_schema_err ls s k bad h1 e :
  db_schema ls (s_h s) (w_disk (s_w s)) = (h1, None, Some e) -> with_schema ls s k bad = bad h1 e.
Proof. intros H. unfold with_schema. rewrite H. reflexivity. Qed.

Lemma LState_mem ls h w fds a m : LState ls h w fds a -> h_mem h = Some m ->
  nofault w /\ InvLoaded ls (h_cache h) (h_pend h) (w_disk w) m /\ m_fields m = fds /\
  abs_of (h_pend h) (w_disk w) m = a.
Proof. intros [m' [Hm' R]] Hm. assert (m' = m) by congruence. subst m'. exact R. Qed.

(* a handle that differs in the cache only *)
Lemma LState_cache ls h w fds a m h' : LState ls h w fds a -> h_mem h = Some m ->
  h_mem h' = h_mem h -> h_pend h' = h_pend h -> InvCore ls (h_cache h') (h_pend h) (w_disk w) m ->
  LState ls h' w fds a.
Proof.
  intros L Hm M P I'. destruct (LState_mem _ _ _ _ _ _ L Hm) as [Hn [[_ S] [Hf Ha]]].
  exists m. rewrite M, P. splits; try assumption. split; assumption.
Qed.

Lemma save_ok ls h w fds a m : LState ls h w fds a -> h_mem h = Some m ->
  exists w1, save_schema w m = (None, w1) /\ LState ls h w1 fds a /\ (h_pend h = [] -> synced_h h w1).
Proof.
  intros L Hm. destruct (LState_mem _ _ _ _ _ _ L Hm) as [Hn [[I _] [Hf Ha]]].
  destruct (rf_save_schema w m Hn (ic_dir _ _ _ _ _ I)) as [w1 [S1 [N1 D1]]].
  exists w1. split; [exact S1|]. split.
  - exists m. rewrite D1. splits; try assumption. apply core_commit. exact I.
  - intros Hp. unfold synced_h. rewrite Hm, D1. split; [exact Hp|]. exists (sfile_of m). cbn. repeat split.
Qed.

(* commit from any state of the invariant whose collection exists *)
Lemma commit_inv_ok ls h w fds a :
  Inv ls (mk h w) -> abs (mk h w) = Some {| sp_fds := fds; sp_map := a |} ->
  exists h1 w1, commit ls h w = (h1, None, w1) /\ LState ls h1 w1 fds a /\
                (h_pend h = [] -> synced_h h1 w1) /\ h_mem h1 <> None.
Proof.
  intros I Ha. destruct (db_schema_ok ls h w fds a I Ha) as [h1 [m1 [D [M [L [K _]]]]]].
  unfold commit. rewrite D. destruct (save_ok ls h1 w fds a m1 L M) as [w1 [S [L1 Sy]]]. rewrite S.
  exists h1, w1. split; [reflexivity|]. split; [exact L1|]. split; [|congruence].
  intros Hp. apply Sy. destruct (db_schema_stores _ _ _ _ _ _ D) as [_ [P _]]. congruence.
Qed.

Lemma commit_absent ls h w : Inv ls (mk h w) -> abs (mk h w) = None ->
  commit ls h w = (h, Some ENotFound, w).
Proof.
  intros I Ha. destruct (db_schema_absent ls h w I Ha) as [D _]. unfold commit. rewrite D. reflexivity.
Qed.

(* flush from any state of the invariant *)
Lemma flush_inv_ok ls h w : Inv ls (mk h w) ->
  exists h1 w1, flush_all ls h w = (h1, None, w1) /\ Inv ls (mk h1 w1) /\ abs (mk h1 w1) = abs (mk h w) /\
                h_pend h1 = [] /\ (h_mem h = None -> h1 = h /\ w1 = w) /\ (h_mem h <> None -> h_mem h1 <> None).
Proof.
  intros I. destruct (h_mem h) as [m|] eqn:Hm.
  - pose proof (Inv_LState ls h w m I Hm) as L.
    destruct (flush_all_ok ls h w _ _ L) as [h1 [w1 [F [L1 [P1 _]]]]].
    exists h1, w1. split; [exact F|]. destruct (LState_Inv _ _ _ _ _ L1) as [I1 A1].
    split; [exact I1|]. split; [|split; [exact P1|]].
    + rewrite A1. unfold abs. cbn [mk s_h s_w]. rewrite Hm. reflexivity.
    + split; [discriminate|]. intros _. destruct L1 as [m1 [Hm1 _]]. congruence.
  - pose proof I as [_ I']. cbn [mk s_h s_w] in I'. rewrite Hm in I'. destruct I' as [_ [Hp _]].
    exists h, w. unfold flush_all. rewrite Hp. split; [reflexivity|]. split; [exact I|]. split; [reflexivity|].
    split; [reflexivity|]. split; [intros _; split; reflexivity|congruence].
Qed.

Lemma Inv_set_cancel ls h w : Inv ls (mk h w) -> Inv ls (mk (set_cancel h) w).
Proof. intros I. exact I. Qed.

Definition reset_w (w : world) : world :=
  {| w_disk := w_disk w; w_fail := None; w_fired := w_fired w; w_crash := false; w_dead := false; w_log := w_log w |}.

Lemma Inv_reset ls h w : Inv ls (mk h w) -> Inv ls (mk h (reset_w w)).
Proof. intros [_ I]. split; [split; reflexivity|exact I]. Qed.

(* ================================================================ the foreground call *)

(* writes: the calls after which a handle in asynchronous mode may hold unflushed data *)
Definition is_write (o : op) : Prop :=
  match o with OInsert _ _ _ | ODelete _ | OCreate _ _ => True | _ => False end.

Ltac fin_write :=
  splits; try reflexivity; try assumption; try (intros; discriminate);
  try (let H := fresh in let K := fresh in intros H K; exfalso; apply K; exact Logic.I).

Section FG.
Variables (hk : hooks) (ls : N).

(* --- on a collection that does not exist *)
Lemma fg_absent h w o : Inv ls (mk h w) -> abs (mk h w) = None -> wf_op hk (mk h w) o ->
  (forall st fds, o <> OCreate st fds) -> o <> OTick ->
  exists s1, step_fg hk ls (mk h w) o = (s1, not_found_out o) /\ Inv ls s1 /\ abs s1 = None /\ synced_st s1.
Proof.
  intros I Ha Hwf Hnc Hnt. destruct (db_schema_absent ls h w I Ha) as [D [Hm [Hd [Hs Hf]]]].
  pose proof I as [Hn I']. cbn [mk s_h s_w] in I'. rewrite Hm in I'. destruct I' as [Hc [Hp [Hfl DK]]].
  assert (Sy : synced_st (mk h w)) by (unfold synced_st, synced_h; cbn [mk s_h s_w]; rewrite Hm; exact Logic.I).
  destruct o; try contradiction. all: unfold step_fg; cbv beta zeta iota; cbn [mk s_h s_w not_found_out].
  - exfalso. apply (Hnc st fds). reflexivity.
  - unfold do_insert. rewrite (with_schema_err ls (mk h w) _ _ h ENotFound D). eexists. splits; try reflexivity; assumption.
  - rewrite D. eexists. splits; try reflexivity; assumption.
  - rewrite (with_schema_err ls (mk h w) _ _ h ENotFound D). eexists. splits; try reflexivity; assumption.
  - rewrite (with_schema_err ls (mk h w) _ _ h ENotFound D). eexists. splits; try reflexivity; assumption.
  - rewrite (with_schema_err ls (mk h w) _ _ h ENotFound D). eexists. splits; try reflexivity; assumption.
  - rewrite (with_schema_err ls (mk h w) _ _ h ENotFound D). eexists. splits; try reflexivity; assumption.
  - rewrite (commit_absent ls h w I Ha). eexists. splits; try reflexivity; assumption.
  - unfold flush_all. rewrite Hp. eexists. splits; try reflexivity; assumption.
  - unfold flush_all_commit, flush_all. rewrite Hp, (commit_absent ls h w I Ha).
    eexists. splits; try reflexivity; assumption.
  - rewrite Hm. eexists. splits; try reflexivity; assumption.
  - unfold flush_all. cbn [set_cancel h_pend h_mem]. rewrite Hp. cbn [set_cancel h_pend h_mem]. rewrite Hm.
    eexists. split; [reflexivity|]. split; [exact I|]. split; [exact Ha|].
    unfold synced_st, synced_h. cbn [mk s_h s_w set_cancel h_mem]. rewrite Hm. exact Logic.I.
  - eexists. split; [reflexivity|]. split; [|split; [|exact Logic.I]].
    + split; [exact Hn|]. cbn [mk s_h s_w new_handle h_mem h_cache h_pend h_fl]. splits; try reflexivity. exact DK.
    + unfold abs in *. cbn [mk s_h s_w new_handle h_mem] in *. rewrite Hm in Ha. exact Ha.
  - rewrite D. eexists. splits; try reflexivity; assumption.
Qed.

Lemma fg_create h w st fds : Inv ls (mk h w) -> abs (mk h w) = None ->
  exists s1, step_fg hk ls (mk h w) (OCreate st fds) = (s1, RUnit (Ok tt)) /\ Inv ls s1 /\
             abs s1 = Some {| sp_fds := fds; sp_map := [] |}.
Proof.
  intros I Ha. destruct (db_schema_absent ls h w I Ha) as [D [Hm [Hd [Hs Hf]]]].
  pose proof I as [Hn I']. cbn [mk s_h s_w] in I'. rewrite Hm in I'. destruct I' as [Hc [Hp [Hfl DK]]].
  unfold step_fg. cbv beta zeta iota. cbn [mk s_h s_w]. rewrite D.
  destruct (rf_fs_mkdir w Hn) as [w1 [M1 [N1 [D1 [S1 F1]]]]]. rewrite M1. cbn [negb].
  rewrite S1, Hs.
  set (m := {| m_set := st; m_fields := fds; m_shape := ls; m_idx := new_index fds; m_started := false |}).
  destruct (rf_fs_write_schema w1 (sfile_of m) N1) as [w2 [W2 [N2 D2]]]. rewrite W2.
  assert (IC : InvCore ls [] [] (w_disk w2) m).
  { rewrite D2. constructor; cbn [m m_fields m_idx m_shape m_set disk_set_schema d_dir d_files d_schema].
    - apply new_index_inv.
    - apply new_index_unique.
    - reflexivity.
    - intros oid u [].
    - exact D1.
    - rewrite F1, Hf. intros f c [].
    - reflexivity.
    - intros u o H. discriminate.
    - constructor.
    - intros u o _ H. discriminate.
    - reflexivity.
    - exists (sfile_of m). cbn. repeat split. }
  rewrite (control_ok ls [] (w_disk w2) m IC).
  eexists. split; [reflexivity|]. split.
  - split; [exact N2|]. cbn [mk s_h s_w set_mem h_mem h_cache h_pend]. rewrite Hc, Hp. split; [exact IC|].
    intros _. split; [reflexivity|]. exists (sfile_of m). rewrite D2. cbn. repeat split.
  - unfold abs. cbn [mk s_h s_w set_mem h_mem h_pend]. reflexivity.
Qed.

(* --- Create on an existing collection: cache / asynchronous writes switched on or off *)
Lemma db_schema_ext h w fds a h1 m1 :
  Inv ls (mk h w) -> abs (mk h w) = Some {| sp_fds := fds; sp_map := a |} ->
  db_schema ls h (w_disk w) = (h1, Some m1, None) -> st_ext (m_set m1) = ext_of (mk h w).
Proof.
  unfold Inv, abs, ext_of. cbn [mk s_h s_w]. intros [Hn I] Ha. destruct (h_mem h) as [m|] eqn:Hm.
  - destruct (db_schema_on_loaded ls h (w_disk w) m Hm) as [h2 [m2 [A [B [V _]]]]]. rewrite A.
    intros H. inversion H; subst. destruct V as [V1 _]. rewrite V1. reflexivity.
  - destruct I as [Hc [Hp [Hfl DK]]]. destruct DK as [[_ [Hs _]]|[sf [Hs IC]]]; rewrite Hs in *; [discriminate|].
    unfold db_schema. rewrite Hm, (ic_dir _ _ _ _ _ IC), Hs. cbn [negb].
    rewrite (control_ok ls [] (w_disk w) (mem_of sf) IC).
    assert (Hm2 : h_mem (set_mem h (Some (mem_of sf))) = Some (mem_of sf)) by reflexivity.
    destruct (rf_start_flusher_mem _ _ Hm2) as [m' [A [B [C _]]]]. rewrite A.
    intros H. inversion H; subst. rewrite C. reflexivity.
Qed.

Lemma fg_recreate h w fds a st fds' :
  Inv ls (mk h w) -> abs (mk h w) = Some {| sp_fds := fds; sp_map := a |} ->
  str_eqb (ext_of (mk h w)) (st_ext st) = true ->
  exists s1, step_fg hk ls (mk h w) (OCreate st fds') =
               (s1, RUnit (if fds_compat fds fds' then Ok tt else Err EFieldDesc)) /\
             Inv ls s1 /\ abs s1 = Some {| sp_fds := fds; sp_map := a |}.
Proof.
  intros I Ha Hx.
  destruct (db_schema_ok ls h w fds a I Ha) as [h1 [m1 [D [M1 [L1 _]]]]].
  pose proof (db_schema_ext h w fds a h1 m1 I Ha D) as Hext.
  destruct (LState_mem _ _ _ _ _ _ L1 M1) as [Hn [[IC1 IS1] [Hf1 Ha1]]].
  unfold step_fg. cbv beta zeta iota. cbn [mk s_h s_w]. rewrite D.
  assert (Hx' : str_eqb (st_ext (m_set m1)) (st_ext st) = true) by (rewrite Hext; exact Hx).
  rewrite Hx'. cbn [negb].
  assert (Hcomp : (length (m_fields m1) =? length fds') &&
                  forallb (fun p : fdesc * fdesc => fdesc_eqb (fst p) (snd p)) (combine (m_fields m1) fds')
                  = fds_compat fds fds') by (rewrite Hf1; reflexivity).
  rewrite Hcomp.
  destruct (fds_compat fds fds'); cbn [negb].
  2: { destruct (LState_Inv _ _ _ _ _ L1) as [I1 A1]. eexists. split; [reflexivity|]. split; assumption. }
  fold (resettings m1 st). set (mnew := resettings m1 st).
  assert (X : exists h2 w0 m2,
            (if async_on m1 && negb match st_async st with Some _ => true | None => false end
             then flush_all ls h1 w else (h1, None, w)) = (h2, None, w0) /\
            LState ls h2 w0 fds a /\ h_mem h2 = Some m2 /\ view_eq m1 m2 /\ m_idx m2 = m_idx m1 /\
            (async_on m1 = true -> async_on mnew = false -> h_pend h2 = [])).
  { destruct (async_on m1 && negb match st_async st with Some _ => true | None => false end) eqn:Efl.
    - destruct (flush_all_ok ls h1 w fds a L1) as [h2 [w0 [F [L2 [P2 _]]]]].
      destruct (flush_all_mem ls h1 w m1 h2 None w0 M1 F) as [m2 [M2 [V2 X2]]].
      exists h2, w0, m2. splits; try assumption. intros _ _. exact P2.
    - exists h1, w, m1. splits; try assumption; try reflexivity; [apply view_eq_refl|].
      intros E1 E2. rewrite E1 in Efl. unfold mnew, async_on, resettings in E2. cbn [m_set st_async] in E2.
      destruct (st_async st); [discriminate|]. discriminate. }
  destruct X as [h2 [w0 [m2 [X [L2 [M2 [V2 [X2 P2]]]]]]]]. rewrite X.
  destruct (LState_mem _ _ _ _ _ _ L2 M2) as [Hn2 [[IC2 _] [Hf2 Ha2]]].
  pose proof V2 as [V21 [V22 [V23 _]]].
  destruct (core_resettings ls _ _ _ m2 mnew IC2) as [IC3 Habs].
  { rewrite V22. reflexivity. } { rewrite V23. reflexivity. } { rewrite X2. reflexivity. }
  { rewrite V21. reflexivity. } { rewrite V21. reflexivity. }
  { rewrite (view_async _ _ V2). exact P2. }
  destruct (rf_save_schema w0 mnew Hn2 (ic_dir _ _ _ _ _ IC2)) as [w1 [S1 [N1 D1]]]. rewrite S1.
  set (h3 := if must_cache mnew then h2 else set_cache h2 []).
  assert (Hh3 : h_cache h3 = (if must_cache mnew then h_cache h2 else []) /\ h_pend h3 = h_pend h2).
  { unfold h3. destruct (must_cache mnew); split; reflexivity. }
  destruct Hh3 as [Hc3 Hp3].
  eexists. split; [reflexivity|]. split.
  - split; [exact N1|]. cbn [mk s_h s_w set_mem h_mem h_cache h_pend]. rewrite Hc3, Hp3, D1.
    apply core_commit. exact IC3.
  - unfold abs. cbn [mk s_h s_w set_mem h_mem h_pend]. rewrite Hp3, D1.
    change (abs_of (h_pend h2) (disk_set_schema (Some (SOk (sfile_of mnew))) (w_disk w0)) mnew)
      with (abs_of (h_pend h2) (w_disk w0) mnew).
    rewrite Habs, Ha2. cbn [mnew resettings m_fields]. rewrite Hf1. reflexivity.
Qed.

(* --- on an existing collection *)
Lemma fg_exists h w fds a o :
  Inv ls (mk h w) -> abs (mk h w) = Some {| sp_fds := fds; sp_map := a |} -> wf_op hk (mk h w) o ->
  o <> OTick ->
  exists s1 r, step_fg hk ls (mk h w) o = (s1, r) /\ Post hk ls (mk h w) o s1 r /\
               (o = OClose -> synced_st s1) /\
               (synced_st (mk h w) -> ~ is_write o -> synced_st s1).
Proof.
  intros I Ha Hwf Hnt. unfold Post. rewrite Ha.
  destruct (db_schema_ok ls h w fds a I Ha) as [h1 [m1 [D [M1 [L1 [K1 Sy1]]]]]].
  destruct (LState_mem _ _ _ _ _ _ L1 M1) as [Hn [[IC1 IS1] [Hf1 Ha1]]].
  destruct (LState_Inv _ _ _ _ _ L1) as [I1 A1].
  assert (Sy1' : synced_st (mk h w) -> synced_st (mk h1 w)) by (exact Sy1).
  destruct o; try contradiction; unfold step_fg; cbv beta zeta iota; cbn [mk s_h s_w];
    unfold spec_step; cbn [fst snd sp_fds sp_map].
  - (* OCreate on an existing collection *)
    cbn [wf_op] in Hwf. rewrite Ha in Hwf.
    destruct (fg_recreate h w fds a st fds0 I Ha Hwf) as [s1 [E [I2 A2]]].
    unfold step_fg in E. cbv beta zeta iota in E. cbn [mk s_h s_w] in E. rewrite E.
    eexists. eexists. split; [reflexivity|]. fin_write.
  - (* OInsert *)
    unfold do_insert. rewrite (with_schema_some ls (mk h w) _ _ h1 m1 D).
    change (prepare_obj hk m1 o) with (prep hk (m_fields m1) o). rewrite Hf1. cbn [mk s_h s_w].
    destruct (negb (hk_va hk (o_keys (prep hk fds o)))) eqn:Eva.
    { eexists. eexists. split; [reflexivity|]. fin_write. }
    assert (Hk : keys_ok fds (o_keys (prep hk fds o))).
    { unfold keys_ok, prep. cbn [o_keys]. rewrite canon_keys_length. apply (Hwf _ Ha). }
    destruct (insert_core_ok ls h1 w m1 (if N.eqb u 0 then fresh else u) (prep hk fds o) fds a M1 Hn
                (conj IC1 IS1) Hf1 Ha1 Hk) as [h' [r [w' [E R]]]].
    rewrite E. exists (mk h' w'), (RUnit r). split; [reflexivity|].
    destruct (negb (forallb serialisable (o_keys (prep hk fds o)))).
    { destruct R as [-> [-> ->]]. fin_write. }
    destruct (uniq_conflict fds a (if N.eqb u 0 then fresh else u) (o_keys (prep hk fds o))).
    { destruct R as [-> [-> ->]]. fin_write. }
    destruct R as [-> [L' _]]. destruct (LState_Inv _ _ _ _ _ L') as [I' A'].
    fin_write.
  - (* ODelete *)
    rewrite D. destruct (delete_core_ok ls h1 w m1 u M1 Hn IC1) as [h2 [w2 [m2 [E [M2 [N2 [I2 [F2 [A2 K2]]]]]]]]].
    rewrite E. destruct (commit_ok ls h2 w2 m2 M2 N2 I2) as [h3 [w3 [C [L3 _]]]]. rewrite C.
    rewrite F2, A2, Hf1, Ha1 in L3. destruct (LState_Inv _ _ _ _ _ L3) as [I3 A3].
    eexists. eexists. split; [reflexivity|]. fin_write.
  - (* OGet *)
    rewrite (with_schema_some ls (mk h w) _ _ h1 m1 D).
    destruct (get_with_ok ls h1 (w_disk w) m1 u IC1) as [h' [G [M' [P' I']]]]. rewrite G.
    pose proof (LState_cache ls h1 w fds a m1 h' L1 M1 M' P' I') as L'.
    destruct (LState_Inv _ _ _ _ _ L') as [I2 A2].
    assert (S2 : synced_st (mk h w) -> synced_st (mk h' w)).
    { intros H. apply Sy1' in H. unfold synced_st, synced_h in *. cbn [mk s_h s_w] in *. rewrite M', P'. exact H. }
    assert (Has : assoc u a = stored (h_pend h1) (w_disk w) m1 u) by (rewrite <- Ha1; apply (abs_assoc _ _ _ _ _ IC1 u)).
    rewrite Has.
    destruct (stored (h_pend h1) (w_disk w) m1 u) as [ob|];
      (eexists; eexists; split; [reflexivity|]; splits; try reflexivity; try assumption; try discriminate;
       intros; auto).
  - (* OExist *)
    rewrite (with_schema_some ls (mk h w) _ _ h1 m1 D).
    rewrite (exist_with_ok ls h1 (w_disk w) m1 u IC1). unfold has_key.
    assert (Has : assoc u a = stored (h_pend h1) (w_disk w) m1 u) by (rewrite <- Ha1; apply (abs_assoc _ _ _ _ _ IC1 u)).
    rewrite Has.
    eexists; eexists; split; [reflexivity|]; splits; try reflexivity; try assumption; try discriminate; intros; auto.
  - (* OCount *)
    rewrite (with_schema_some ls (mk h w) _ _ h1 m1 D).
    assert (Hlen : length a = length (oi_ids (m_idx m1))) by (rewrite <- Ha1; apply (abs_length _ _ _ _ _ IC1)).
    rewrite Hlen.
    eexists; eexists; split; [reflexivity|]; splits; try reflexivity; try assumption; try discriminate; intros; auto.
  - (* OAll *)
    rewrite (with_schema_some ls (mk h w) _ _ h1 m1 D).
    rewrite <- (map_map snd (fun u => Some u)).
    destruct (collect_all_ok ls (w_disk w) m1 (h_pend h1) (map snd (oi_ids (m_idx m1))) h1 [] eq_refl IC1)
      as [h' [C [M' [P' I']]]].
    { intros u Hu. apply is_indexed_true in Hu. destruct (ic_indexed_stored _ _ _ _ _ IC1 u Hu) as [ob S]. congruence. }
    rewrite C. cbn [rev app].
    pose proof (LState_cache ls h1 w fds a m1 h' L1 M1 M' P' I') as L'.
    destruct (LState_Inv _ _ _ _ _ L') as [I2 A2].
    assert (S2 : synced_st (mk h w) -> synced_st (mk h' w)).
    { intros H. apply Sy1' in H. unfold synced_st, synced_h in *. cbn [mk s_h s_w] in *. rewrite M', P'. exact H. }
    change (flat_map (bind (h_pend h1) (w_disk w) m1) (map snd (oi_ids (m_idx m1))))
      with (abs_of (h_pend h1) (w_disk w) m1). rewrite Ha1.
    eexists; eexists; split; [reflexivity|]; splits; try reflexivity; try assumption; try discriminate; intros; auto.
  - (* OCommit *)
    destruct (commit_inv_ok ls h w fds a I Ha) as [h2 [w2 [C [L2 [S2 _]]]]]. rewrite C.
    destruct (LState_Inv _ _ _ _ _ L2) as [I2 A2].
    eexists; eexists; split; [reflexivity|]; splits; try reflexivity; try assumption; try discriminate.
    intros H _. apply S2. unfold synced_st, synced_h in H. cbn [mk s_h s_w] in H.
    destruct (h_mem h) as [m|] eqn:Hm; [apply H|]. destruct I as [_ I']. cbn [mk s_h s_w] in I'. rewrite Hm in I'. apply I'.
  - (* OFlushAll *)
    destruct (flush_inv_ok ls h w I) as [h2 [w2 [F [I2 [A2 [P2 [U2 _]]]]]]]. rewrite F. rewrite Ha in A2.
    eexists; eexists; split; [reflexivity|]; splits; try reflexivity; try assumption; try discriminate.
    intros H _. destruct (h_mem h) as [m|] eqn:Hm.
    + pose proof (Inv_LState ls h w m I Hm) as L.
      destruct (flush_all_ok ls h w _ _ L) as [h3 [w3 [F3 [_ [_ [_ S3]]]]]].
      rewrite F in F3. inversion F3; subst. apply S3. exact H.
    + destruct (U2 eq_refl) as [-> ->]. exact H.
  - (* OFlushAllCommit *)
    unfold flush_all_commit.
    destruct (flush_inv_ok ls h w I) as [h2 [w2 [F [I2 [A2 [P2 _]]]]]]. rewrite F. rewrite Ha in A2.
    destruct (commit_inv_ok ls h2 w2 fds a I2 A2) as [h3 [w3 [C [L3 [S3 _]]]]]. rewrite C.
    destruct (LState_Inv _ _ _ _ _ L3) as [I3 A3].
    eexists; eexists; split; [reflexivity|]; splits; try reflexivity; try assumption; try discriminate.
    intros _ _. apply S3. exact P2.
  - (* OControl *)
    cbn in Hwf. destruct (h_mem h) as [m|] eqn:Hm.
    + pose proof I as [_ I']. cbn [mk s_h s_w] in I'. rewrite Hm in I'. destruct I' as [IC _].
      rewrite Hwf in IC. rewrite (control_ok ls _ _ _ IC). cbn [lift_e].
      eexists; eexists; split; [reflexivity|]; splits; try reflexivity; try assumption; try discriminate; intros; auto.
    + eexists; eexists; split; [reflexivity|]; splits; try reflexivity; try assumption; try discriminate; intros; auto.
  - (* OClose *)
    pose proof (Inv_set_cancel ls h w I) as I0.
    destruct (flush_inv_ok ls (set_cancel h) w I0) as [h2 [w2 [F [I2 [A2 [P2 [U2 Hl]]]]]]]. rewrite F.
    assert (A2' : abs (mk h2 w2) = Some {| sp_fds := fds; sp_map := a |}) by (rewrite A2; exact Ha).
    destruct (h_mem h2) as [m2|] eqn:Hm2.
    + destruct (commit_inv_ok ls h2 w2 fds a I2 A2') as [h3 [w3 [C [L3 [S3 _]]]]]. rewrite C.
      destruct (LState_Inv _ _ _ _ _ L3) as [I3 A3].
      eexists; eexists; split; [reflexivity|]; splits; try reflexivity; try assumption; try discriminate.
      * intros _. apply S3. exact P2.
      * intros _ _. apply S3. exact P2.
    + assert (Sy : synced_st (mk h2 w2)) by (unfold synced_st, synced_h; cbn [mk s_h s_w]; rewrite Hm2; exact Logic.I).
      eexists; eexists; split; [reflexivity|]; splits; try reflexivity; try assumption; try discriminate; intros; auto.
  - (* OReopen *)
    cbn in Hwf. unfold synced_st, synced_h in Hwf. cbn [mk s_h s_w] in Hwf.
    assert (R : Inv ls (mk new_handle w) /\ abs (mk new_handle w) = Some {| sp_fds := fds; sp_map := a |}).
    { destruct (h_mem h) as [m|] eqn:Hm.
      - pose proof I as [Hn0 I']. cbn [mk s_h s_w] in I'. rewrite Hm in I'. destruct I' as [IC _].
        destruct Hwf as [Hp [sf [S1 [S2 [S3 [S4 [S5 S6]]]]]]]. rewrite Hp in IC.
        assert (V : view_eq m (mem_of sf)) by (unfold mem_of; repeat split; assumption).
        assert (IC' : InvCore ls [] [] (w_disk w) (mem_of sf)).
        { apply (core_drop_cache ls (h_cache h)). apply (view_core ls _ _ _ m (mem_of sf) V); [|exact IC].
          intros oid Ho. cbn [mem_of m_idx oi_reload oi_next]. apply max_oid_lt. rewrite S5. exact Ho. }
        split.
        + split; [exact Hn0|]. cbn [mk s_h s_w new_handle h_mem h_cache h_pend h_fl]. splits; try reflexivity.
          right. exists sf. split; assumption.
        + unfold abs in *. cbn [mk s_h s_w new_handle h_mem] in *. rewrite Hm in Ha. rewrite S1.
          inversion Ha; subst. rewrite S3, Hp, (view_abs _ _ _ _ V). reflexivity.
      - pose proof I as [Hn0 I']. cbn [mk s_h s_w] in I'. rewrite Hm in I'. destruct I' as [_ [_ [_ DK]]].
        split.
        + split; [exact Hn0|]. cbn [mk s_h s_w new_handle h_mem h_cache h_pend h_fl]. splits; try reflexivity. exact DK.
        + unfold abs in *. cbn [mk s_h s_w new_handle h_mem] in *. rewrite Hm in Ha. exact Ha. }
    destruct R as [R1 R2].
    eexists; eexists; split; [reflexivity|]; splits; try reflexivity; try assumption; try discriminate;
      intros; exact Logic.I.
  - (* OSchema *)
    rewrite D. cbn [lift_e].
    eexists; eexists; split; [reflexivity|]; splits; try reflexivity; try assumption; try discriminate; intros; auto.
Qed.

End FG.

(* ================================================================ one step *)

Lemma op_eq_tick (o : op) : {o = OTick} + {o <> OTick}.
Proof. destruct o; try (right; discriminate). left. reflexivity. Qed.

Lemma spec_tick hk a : spec_step hk a OTick = (a, RUnit (Ok tt)).
Proof. destruct a; reflexivity. Qed.

Lemma step_nontick hk ls s o : covered_op o -> o <> OTick ->
  step hk ls s o =
  (let (s1, r) := step_fg hk ls s o in
   if w_dead (s_w s1) then (mk new_handle (reset_w (s_w s1)), RCrash)
   else match settle ls (s_h s1) (reset_w (s_w s1)) with
        | Ok (h2, w3) => (mk h2 w3, r)
        | Err e => (mk (s_h s1) (reset_w (s_w s1)), r)
        | Panic => (mk (s_h s1) (reset_w (s_w s1)), RPanic)
        end).
Proof. intros Hc Hnt. destruct o; try contradiction; reflexivity. Qed.

Lemma fg_all hk ls h w o : Inv ls (mk h w) -> wf_op hk (mk h w) o -> o <> OTick ->
  exists s1 r, step_fg hk ls (mk h w) o = (s1, r) /\ Post hk ls (mk h w) o s1 r /\
               (o = OClose -> synced_st s1) /\ (synced_st (mk h w) -> ~ is_write o -> synced_st s1).
Proof.
  intros I Hwf Hnt. destruct (abs (mk h w)) as [[fds a]|] eqn:Ha.
  - destruct (fg_exists hk ls h w fds a o I Ha Hwf Hnt) as [s1 [r [E [P [C S]]]]].
    exists s1, r. split; [exact E|]. split; [exact P|]. split; [exact C|].
    intros Hs Hnw. apply S; assumption.
  - assert (Hc : (exists st fds, o = OCreate st fds) \/ (forall st fds, o <> OCreate st fds)).
    { destruct o; try (right; intros; discriminate). left. eexists. eexists. reflexivity. }
    destruct Hc as [[st [fds ->]]|Hc].
    + destruct (fg_create hk ls h w st fds I Ha) as [s1 [E [I1 A1]]].
      exists s1, (RUnit (Ok tt)). split; [exact E|]. unfold Post. rewrite Ha. cbn [spec_step fst snd].
      splits; try assumption; try reflexivity; try discriminate. intros _ Hnw. exfalso. apply Hnw. exact Logic.I.
    + destruct (fg_absent hk ls h w o I Ha Hwf Hc Hnt) as [s1 [E [I1 [A1 S1]]]].
      exists s1, (not_found_out o). split; [exact E|]. unfold Post. rewrite Ha.
      assert (Hsp : spec_step hk None o = (None, not_found_out o)).
      { destruct o; try reflexivity. exfalso. apply (Hc st fds). reflexivity. }
      rewrite Hsp. cbn [fst snd]. splits; try assumption; try reflexivity; intros; assumption.
Qed.

Lemma abs_reset s1 : abs (mk (s_h s1) (reset_w (s_w s1))) = abs s1.
Proof. destruct s1. reflexivity. Qed.

Lemma step_full hk ls s o : Inv ls s -> wf_op hk s o ->
  Inv ls (fst (step hk ls s o)) /\
  abs (fst (step hk ls s o)) = fst (spec_step hk (abs s) o) /\
  snd (step hk ls s o) = snd (spec_step hk (abs s) o) /\
  (o = OClose -> synced_st (fst (step hk ls s o))) /\
  (synced_st s -> ~ is_write o -> synced_st (fst (step hk ls s o))).
Proof.
  intros I Hwf. destruct s as [h w]. change {| s_h := h; s_w := w |} with (mk h w) in *.
  destruct (op_eq_tick o) as [->|Hnt].
  - unfold step. cbn [mk s_h s_w]. destruct (tick_ok ls h w I) as [h1 [w1 [fl' [R [I1 [A1 S1]]]]]].
    rewrite R, spec_tick. cbn [fst snd]. splits; try assumption; try reflexivity; try discriminate.
    intros H _. apply S1. exact H.
  - rewrite (step_nontick hk ls (mk h w) o (wf_covered _ _ _ Hwf) Hnt).
    destruct (fg_all hk ls h w o I Hwf Hnt) as [s1 [r [E [[I1 [A1 R1]] [C1 S1]]]]]. rewrite E.
    assert (Hd : w_dead (s_w s1) = false) by (destruct I1 as [[_ Hd] _]; exact Hd). rewrite Hd.
    assert (I1' : Inv ls (mk (s_h s1) (reset_w (s_w s1)))) by (apply Inv_reset; destruct s1; exact I1).
    destruct (settle_ok ls _ _ I1') as [h2 [w2 [St [I2 [A2 S2]]]]]. rewrite St. cbn [fst snd].
    assert (Hsy : synced_st s1 -> synced_st (mk h2 w2)) by (intros H; apply S2; destruct s1; exact H).
    split; [exact I2|]. split; [rewrite A2, abs_reset; exact A1|]. split; [exact R1|]. split.
    + intros Ho. apply Hsy. apply C1. exact Ho.
    + intros H Hnw. apply Hsy. apply S1; assumption.
Qed.

(* THE MAIN THEOREM: one call, every configuration *)
Theorem C01_refines hk ls s o : Inv ls s -> wf_op hk s o ->
  Inv ls (fst (step hk ls s o)) /\
  abs (fst (step hk ls s o)) = fst (spec_step hk (abs s) o) /\
  snd (step hk ls s o) = snd (spec_step hk (abs s) o).
Proof.
  intros I Hwf. destruct (step_full hk ls s o I Hwf) as [A [B [C _]]]. splits; assumption.
Qed.
Print Assumptions C01_refines.

(* in particular the flusher goroutine never panics and no call crashes *)
Corollary C01_no_panic hk ls s o : Inv ls s -> wf_op hk s o ->
  snd (step hk ls s o) <> RPanic /\ snd (step hk ls s o) <> RCrash.
Proof.
  intros I Hwf. destruct (C01_refines hk ls s o I Hwf) as [_ [_ R]]. rewrite R.
  unfold spec_step. destruct (abs s) as [sp|]; destruct o; try contradiction; cbn [snd not_found_out];
    repeat match goal with |- context [if ?c then _ else _] => destruct c end;
    repeat match goal with |- context [match ?c with _ => _ end] => destruct c end;
    cbn [snd]; split; discriminate.
Qed.

(* ================================================================ when Reopen and Control are well-formed *)

Theorem close_then_reopen hk ls s : Inv ls s -> wf_op hk (fst (step hk ls s OClose)) OReopen.
Proof. intros I. destruct (step_full hk ls s OClose I Logic.I) as [_ [_ [_ [C _]]]]. apply C. reflexivity. Qed.

Theorem flushcommit_then_reopen hk ls s : Inv ls s -> wf_op hk (fst (step hk ls s OFlushAllCommit)) OReopen.
Proof.
  intros I. destruct s as [h w]. change {| s_h := h; s_w := w |} with (mk h w) in *.
  rewrite (step_nontick hk ls (mk h w) OFlushAllCommit Logic.I ltac:(discriminate)).
  unfold step_fg. cbv beta zeta iota. cbn [mk s_h s_w].
  destruct (abs (mk h w)) as [[fds a]|] eqn:Ha.
  - unfold flush_all_commit. destruct (flush_inv_ok ls h w I) as [h2 [w2 [F [I2 [A2 [P2 _]]]]]]. rewrite F. rewrite Ha in A2.
    destruct (commit_inv_ok ls h2 w2 fds a I2 A2) as [h3 [w3 [C [L3 [S3 _]]]]]. rewrite C.
    destruct (LState_Inv _ _ _ _ _ L3) as [I3 A3]. cbn [mk s_h s_w].
    assert (Hd : w_dead w3 = false) by (destruct I3 as [[_ Hd] _]; exact Hd). rewrite Hd.
    destruct (settle_ok ls _ _ (Inv_reset ls h3 w3 I3)) as [h4 [w4 [St [_ [_ S4]]]]]. rewrite St. cbn [fst].
    apply S4. apply S3. exact P2.
  - destruct (db_schema_absent ls h w I Ha) as [_ [Hm _]].
    destruct (flush_inv_ok ls h w I) as [h2 [w2 [F [I2 [A2 [P2 [U2 _]]]]]]]. destruct (U2 Hm) as [-> ->].
    unfold flush_all_commit. rewrite F, (commit_absent ls h w I Ha). cbn [mk s_h s_w].
    assert (Hd : w_dead w = false) by (destruct I as [[_ Hd] _]; exact Hd). rewrite Hd.
    destruct (settle_ok ls _ _ (Inv_reset ls h w I)) as [h4 [w4 [St [_ [_ S4]]]]]. rewrite St. cbn [fst].
    apply S4. unfold synced_h. cbn [reset_w]. rewrite Hm. exact Logic.I.
Qed.

(* reads, flushes, ticks, commits keep a synced handle synced *)
Theorem synced_preserved hk ls s o : Inv ls s -> wf_op hk s o -> synced_st s -> ~ is_write o ->
  synced_st (fst (step hk ls s o)).
Proof. intros I Hwf Hs Hnw. destruct (step_full hk ls s o I Hwf) as [_ [_ [_ [_ S]]]]. apply S; assumption. Qed.

Definition sync_mode (s : state) : Prop := forall m, h_mem (s_h s) = Some m -> async_on m = false.

(* synchronous mode: every completed call has committed; Reopen and Control are always well-formed *)
Theorem sync_mode_synced ls s : Inv ls s -> sync_mode s -> synced_st s.
Proof.
  intros [_ I] Hs. unfold synced_st, synced_h. destruct (h_mem (s_h s)) as [m|] eqn:Hm; [|exact Logic.I].
  destruct I as [_ S]. apply S. apply Hs. exact Hm.
Qed.

Theorem synced_wf hk ls s : Inv ls s -> synced_st s -> wf_op hk s OReopen /\ wf_op hk s OControl.
Proof.
  intros [_ I] Hs. split; [exact Hs|]. cbn. unfold synced_st, synced_h in Hs.
  destruct (h_mem (s_h s)) as [m|] eqn:Hm; [apply Hs|apply I].
Qed.

(* ================================================================ histories *)

Fixpoint wf_hist (hk : hooks) (ls : N) (s : state) (ops : list op) : Prop :=
  match ops with
  | [] => True
  | o :: r => wf_op hk s o /\ wf_hist hk ls (fst (step hk ls s o)) r
  end.

Fixpoint run_out (hk : hooks) (ls : N) (s : state) (ops : list op) : list out :=
  match ops with
  | [] => []
  | o :: r => snd (step hk ls s o) :: run_out hk ls (fst (step hk ls s o)) r
  end.

Fixpoint spec_run (hk : hooks) (a : option spec) (ops : list op) : option spec * list out :=
  match ops with
  | [] => (a, [])
  | o :: r => let (a1, x) := spec_step hk a o in
              let (a2, xs) := spec_run hk a1 r in (a2, x :: xs)
  end.

Theorem C01_history hk ls ops : forall s, Inv ls s -> wf_hist hk ls s ops ->
  Inv ls (run hk ls s ops) /\
  abs (run hk ls s ops) = fst (spec_run hk (abs s) ops) /\
  run_out hk ls s ops = snd (spec_run hk (abs s) ops).
Proof.
  induction ops as [|o r IH]; intros s I Hwf.
  - cbn. splits; try reflexivity. exact I.
  - destruct Hwf as [Hwf1 Hwf2]. destruct (C01_refines hk ls s o I Hwf1) as [I1 [A1 R1]].
    destruct (IH _ I1 Hwf2) as [I2 [A2 R2]].
    unfold run in *. cbn [fold_left run_out spec_run].
    destruct (spec_step hk (abs s) o) as [a1 x] eqn:E1. cbn [fst snd] in A1, R1. rewrite A1 in A2, R2.
    destruct (spec_run hk a1 r) as [a2 xs] eqn:E2. cbn [fst snd] in *.
    split; [exact I2|]. split; [exact A2|]. rewrite R1, R2. reflexivity.
Qed.
Print Assumptions C01_history.

Lemma Inv_init ls : Inv ls init_state.
Proof.
  split; [split; reflexivity|]. cbn. splits; try reflexivity. left. splits; reflexivity.
Qed.

Lemma abs_init : abs init_state = None.
Proof. reflexivity. Qed.

Theorem C01_from_init hk ls ops : wf_hist hk ls init_state ops ->
  Inv ls (run hk ls init_state ops) /\
  abs (run hk ls init_state ops) = fst (spec_run hk None ops) /\
  run_out hk ls init_state ops = snd (spec_run hk None ops).
Proof. intros H. apply (C01_history hk ls ops init_state (Inv_init ls) H). Qed.
Print Assumptions C01_from_init.
