(* Proofs/CrashPoints.v: C05, the crash points of a synchronous InsertOrUpdate, ALL of them: the
   call performs exactly four file-system mutations (truncate object file, write object file,
   truncate schema.json, write schema.json); a crash before the k-th of them leaves exactly the
   directory described below, for k = 0..3, and from k = 4 on the call completes.  Then what the next
   handle sees at each point, for a NEW object: nothing happened / detected / detected / torn
   schema (the known finding KF-C05-b). *)
From Coq Require Import List ZArith NArith Bool Lia Arith.
Import ListNotations.
From Sod.Model Require Import Base FieldIndex ObjIndex DB.
From Sod.Proofs Require Import OIProofs OIProofs2 DBBasic DBStruct1 DBStruct2 DBStruct4 Robust Refine1 Refine2 Refine3 Refine4 Crash.
Close Scope Z_scope.

Definition arm (k : nat) (w : world) : world :=
  {| w_disk := w_disk w; w_fail := Some k; w_fired := false; w_crash := true; w_dead := false; w_log := w_log w |}.

(* the directory after a crash before the k-th mutation of the insertion of object [o] in file [f],
   followed by the commit of schema [sf] *)
Definition crash_disk (k : nat) (d : disk) (f : fname) (o : obj) : disk :=
  match k with
  | 0 => d
  | 1 => disk_set_file f CBad d
  | 2 => disk_set_file f (COk o) d
  | _ => disk_set_schema (Some SBad) (disk_set_file f (COk o) d)
  end.

Lemma set_file_twice f c1 c2 d : disk_set_file f c2 (disk_set_file f c1 d) = disk_set_file f c2 d.
Proof. unfold disk_set_file. cbn. rewrite rf_put_put. reflexivity. Qed.

Section Insert.
Variables (hk : hooks) (ls : N) (h : handle) (w : world) (m : mem) (u fresh : N) (ob : obj) (ix : oindex).
Let o' := prepare_obj hk m ob.
Let u' := if N.eqb u 0 then fresh else u.
Hypothesis Hm : h_mem h = Some m.
Hypothesis Hsync : async_on m = false.
Hypothesis Hdir : d_dir (w_disk w) = true.
Hypothesis Hva : hk_va hk (o_keys o') = true.
Hypothesis Hser : forallb serialisable (o_keys o') = true.
Hypothesis Hix : oi_insert_or_update (m_fields m) (m_idx m) (o_keys o') u' = Ok ix.

Lemma schema_loaded_sync d0 : db_schema ls h d0 = (h, Some m, None).
Proof. rewrite (db_schema_loaded ls h d0 m Hm), (start_flusher_noasync h m Hm Hsync), Hm. reflexivity. Qed.

(* THE FOUR CRASH POINTS: for k < 4 the call dies, the handle is lost and the directory is
   crash_disk k; the crash hits no other place *)
Theorem insert_crash_points k : k < 4 ->
  let s := mk h (arm k w) in
  snd (step hk ls s (OInsert u fresh ob)) = RCrash /\
  s_h (fst (step hk ls s (OInsert u fresh ob))) = new_handle /\
  w_disk (s_w (fst (step hk ls s (OInsert u fresh ob)))) = crash_disk k (w_disk w) (file_of m u') o'.
Proof.
  intros Hk. cbv zeta.
  assert (E : step hk ls (mk h (arm k w)) (OInsert u fresh ob) =
              (let (s1, r) := step_fg hk ls (mk h (arm k w)) (OInsert u fresh ob) in
               if w_dead (s_w s1) then (mk new_handle (reset_w (s_w s1)), RCrash)
               else match settle ls (s_h s1) (reset_w (s_w s1)) with
                    | Ok (h2, w3) => (mk h2 w3, r)
                    | Err e => (mk (s_h s1) (reset_w (s_w s1)), r)
                    | Panic => (mk (s_h s1) (reset_w (s_w s1)), RPanic)
                    end)) by reflexivity.
  rewrite E. clear E.
  unfold step_fg, do_insert, with_schema. cbn [mk s_h s_w arm w_disk].
  rewrite (schema_loaded_sync (w_disk w)). fold o'. rewrite Hva. cbn [negb]. fold u'.
  unfold insert_core. rewrite Hser. cbn [negb]. rewrite Hix.
  assert (Hs1 : async_on (set_idx m ix) = false) by exact Hsync. rewrite Hs1.
  unfold write_object. rewrite (rf_fs_mkdir_exists (arm k w) Hdir). cbn [negb]. rewrite Hser. cbn [negb].
  change (file_of (set_idx m ix) u') with (file_of m u').
  destruct k as [|[|[|[|k]]]]; [| | | |lia].
  - (* before the truncation of the object file *)
    unfold fs_write_obj, fs_mut. cbn. repeat split; reflexivity.
  - unfold fs_write_obj, fs_mut. cbn. repeat split; reflexivity.
  - (* object written, schema not touched: the crash hits the truncation of schema.json *)
    unfold fs_write_obj, fs_mut. cbn [arm w_dead w_fail w_disk w_log w_crash w_fired fst snd].
    cbn beta iota. unfold commit.
    match goal with |- context [db_schema ls ?hh ?dd] =>
      assert (D2 : db_schema ls hh dd = (hh, Some (set_idx m ix), None)) end.
    { match goal with |- db_schema ls ?hh ?dd = _ =>
        assert (Hm2 : h_mem hh = Some (set_idx m ix)) by (destruct (must_cache (set_idx m ix)); reflexivity);
        rewrite (db_schema_loaded ls hh dd (set_idx m ix) Hm2), (start_flusher_noasync hh (set_idx m ix) Hm2 Hs1), Hm2 end.
      reflexivity. }
    rewrite D2. unfold save_schema, fs_mkdir. cbn [w_disk disk_set_file d_dir]. rewrite Hdir.
    unfold fs_write_schema, fs_mut. cbn [w_dead w_fail w_disk w_log w_crash w_fired fst snd negb].
    cbn beta iota. cbn [fst snd mk s_h s_w reset_w w_disk w_dead crash_disk].
    rewrite ?set_file_twice. repeat split; reflexivity.
  - unfold fs_write_obj, fs_mut. cbn [arm w_dead w_fail w_disk w_log w_crash w_fired fst snd].
    cbn beta iota. unfold commit.
    match goal with |- context [db_schema ls ?hh ?dd] =>
      assert (D2 : db_schema ls hh dd = (hh, Some (set_idx m ix), None)) end.
    { match goal with |- db_schema ls ?hh ?dd = _ =>
        assert (Hm2 : h_mem hh = Some (set_idx m ix)) by (destruct (must_cache (set_idx m ix)); reflexivity);
        rewrite (db_schema_loaded ls hh dd (set_idx m ix) Hm2), (start_flusher_noasync hh (set_idx m ix) Hm2 Hs1), Hm2 end.
      reflexivity. }
    rewrite D2. unfold save_schema, fs_mkdir. cbn [w_disk disk_set_file d_dir]. rewrite Hdir.
    unfold fs_write_schema, fs_mut. cbn [w_dead w_fail w_disk w_log w_crash w_fired fst snd negb].
    cbn beta iota. cbn [fst snd mk s_h s_w reset_w w_disk w_dead crash_disk].
    rewrite ?set_file_twice. repeat split; reflexivity.
Qed.

End Insert.
Print Assumptions insert_crash_points.

(* ================================================================ what the next handle sees (new object) *)

Lemma oi_control_ext a b : oi_ids a = oi_ids b -> oi_fx a = oi_fx b -> oi_control a = oi_control b.
Proof. intros H1 H2. unfold oi_control. rewrite H1, H2. reflexivity. Qed.

Lemma disk_uuids_set_file f c d : In (fn_uuid f) (disk_uuids (disk_set_file f c d)).
Proof.
  apply rf_disk_uuids_In. exists f, c. split; [|reflexivity]. cbn [disk_set_file d_files].
  apply rf_lookup_In. apply file_lookup_put_same.
Qed.

(* A NEW object (not indexed) whose insertion is interrupted: synchronous mode, any state satisfying
   the handle invariant.
   - crash before the object file is touched (k = 0): the directory is unchanged;
   - crash with the object file truncated or written and schema.json not yet touched (k = 1, 2):
     the next handle REPORTS INDEX CORRUPTION at its first access;
   - crash between the truncation and the write of schema.json (k = 3): every access of the next
     handle fails with a JSON error (the known finding KF-C05-b: in-place truncate-and-write). *)
Theorem new_insert_crash_seen hk ls h w m u fresh ob ix k :
  let o' := prepare_obj hk m ob in
  let u' := if N.eqb u 0 then fresh else u in
  Inv ls (mk h w) -> h_mem h = Some m -> async_on m = false ->
  hk_va hk (o_keys o') = true -> forallb serialisable (o_keys o') = true ->
  oi_insert_or_update (m_fields m) (m_idx m) (o_keys o') u' = Ok ix ->
  is_indexed (m_idx m) u' = false ->
  k < 4 ->
  let d' := w_disk (s_w (fst (step hk ls (mk h (arm k w)) (OInsert u fresh ob)))) in
  match k with
  | 0 => d' = w_disk w
  | 1 | 2 => exists h1 mo, db_schema ls new_handle d' = (h1, mo, Some ECorrupted)
  | _ => db_schema ls new_handle d' = (new_handle, None, Some EJson)
  end.
Proof.
  cbv zeta. intros I Hm Hsync Hva Hser Hix Hni Hk.
  pose proof I as [Hn I']. cbn [mk s_h s_w] in I'. rewrite Hm in I'. destruct I' as [IC IS].
  pose proof (ic_dir _ _ _ _ _ IC) as Hdir.
  destruct (insert_crash_points hk ls h w m u fresh ob ix Hm Hsync Hdir Hva Hser Hix k Hk) as [_ [_ Hd]].
  rewrite Hd. clear Hd.
  destruct (IS Hsync) as [Hp [sf [S1 [S2 [S3 [S4 [S5 S6]]]]]]].
  set (f := file_of m (if N.eqb u 0 then fresh else u)) in *.
  set (o' := prepare_obj hk m ob) in *.
  assert (Hdet : forall c, exists h1 mo, db_schema ls new_handle (disk_set_file f c (w_disk w)) = (h1, mo, Some ECorrupted)).
  { intros c. unfold db_schema. cbn [new_handle h_mem disk_set_file d_dir d_schema]. rewrite Hdir, S1. cbn [negb].
    assert (Hc : control_mem ls (mem_of sf) (disk_set_file f c (w_disk w)) = Some ECorrupted).
    { apply control_mem_corrupted_iff. split; [|split].
      - cbn [mem_of m_shape]. rewrite S4. apply (ic_shape _ _ _ _ _ IC).
      - cbn [mem_of m_idx]. rewrite (oi_control_ext (oi_reload (sf_idx sf)) (m_idx m)); [|exact S5|exact S6].
        apply (control_of_inv (m_fields m)). apply (ic_oi _ _ _ _ _ IC).
      - intros Hall. pose proof (proj1 (Hall (fn_uuid f)) (disk_uuids_set_file f c (w_disk w))) as Hin.
        unfold indexed_uuids in Hin. cbn [mem_of m_idx oi_reload oi_ids] in Hin. rewrite S5 in Hin.
        apply is_indexed_true in Hin. unfold f in Hin. cbn [file_of fn_uuid] in Hin. congruence. }
    rewrite Hc. eexists. eexists. reflexivity. }
  destruct k as [|[|[|[|k]]]]; [| | | |lia]; cbn [crash_disk].
  - reflexivity.
  - apply Hdet.
  - apply Hdet.
  - unfold db_schema. cbn [new_handle h_mem disk_set_schema disk_set_file d_dir d_schema]. rewrite Hdir. reflexivity.
Qed.
Print Assumptions new_insert_crash_seen.

(* ================================================================ Delete *)

Definition crash_disk_del (k : nat) (d : disk) (f : fname) : disk :=
  match k with
  | 0 => d
  | 1 => disk_del_file f d
  | _ => disk_set_schema (Some SBad) (disk_del_file f d)
  end.

(* the three crash points of a synchronous Delete of a stored object: remove the file, truncate
   schema.json, write schema.json *)
Theorem delete_crash_points hk ls h w m u ix o k :
  h_mem h = Some m -> async_on m = false -> d_dir (w_disk w) = true ->
  oi_delete (m_idx m) u = Some ix ->
  file_lookup (file_of m u) (d_files (w_disk w)) = Some (COk o) ->
  k < 3 ->
  let s := mk h (arm k w) in
  snd (step hk ls s (ODelete u)) = RCrash /\
  s_h (fst (step hk ls s (ODelete u))) = new_handle /\
  w_disk (s_w (fst (step hk ls s (ODelete u)))) = crash_disk_del k (w_disk w) (file_of m u).
Proof.
  intros Hm Hsync Hdir Hdel Hfile Hk. cbv zeta.
  assert (E : step hk ls (mk h (arm k w)) (ODelete u) =
              (let (s1, r) := step_fg hk ls (mk h (arm k w)) (ODelete u) in
               if w_dead (s_w s1) then (mk new_handle (reset_w (s_w s1)), RCrash)
               else match settle ls (s_h s1) (reset_w (s_w s1)) with
                    | Ok (h2, w3) => (mk h2 w3, r)
                    | Err e => (mk (s_h s1) (reset_w (s_w s1)), r)
                    | Panic => (mk (s_h s1) (reset_w (s_w s1)), RPanic)
                    end)) by reflexivity.
  rewrite E. clear E.
  unfold step_fg. cbv zeta. cbn [mk s_h s_w arm w_disk].
  rewrite (schema_loaded_sync ls h m Hm Hsync (w_disk w)).
  unfold delete_core. rewrite Hdel.
  change (file_of (set_idx m ix) u) with (file_of m u). cbn [arm w_disk]. rewrite Hfile.
  assert (Hs1 : async_on (set_idx m ix) = false) by exact Hsync.
  set (hh := set_mem (if must_cache m then set_pend (set_cache h (remove_key u (h_cache h))) (remove_key u (h_pend h)) else h)
                     (Some (set_idx m ix))).
  assert (D2 : forall dd, db_schema ls hh dd = (hh, Some (set_idx m ix), None)).
  { intros dd. assert (Hm2 : h_mem hh = Some (set_idx m ix)) by reflexivity.
    rewrite (db_schema_loaded ls hh dd (set_idx m ix) Hm2), (start_flusher_noasync hh (set_idx m ix) Hm2 Hs1), Hm2. reflexivity. }
  destruct k as [|[|[|k]]]; [| | |lia];
    unfold fs_remove, fs_mut; cbn [arm w_dead w_fail w_disk w_log w_crash w_fired fst snd]; cbn beta iota;
    unfold commit; rewrite D2; unfold save_schema, fs_mkdir; cbn [w_disk disk_del_file d_dir]; rewrite Hdir;
    unfold fs_write_schema, fs_mut; cbn; repeat split; reflexivity.
Qed.
Print Assumptions delete_crash_points.
