(* Proofs/LayoutInv.v: C18 / C10 as invariants of every reachable state: the collection directory
   holds one file per stored object, named <uuid><extension>[.gz], whose content is the stored
   object, and NOTHING else that looks like an object: in particular an object deleted while its
   write was pending never has a file afterwards. *)
From Coq Require Import List ZArith NArith Bool Lia Arith.
Import ListNotations.
From Sod.Model Require Import Base FieldIndex ObjIndex DB.
From Sod.Proofs Require Import OIProofs OIProofs2 DBBasic DBStruct1 Refine1 Refine2 Refine3 Refine4 Refine5 Extended.
Close Scope Z_scope.

(* the file suffix of the collection: extension, plus ".gz" when compressing *)
Definition suffix_st (s : state) : list N :=
  match h_mem (s_h s) with
  | Some m => suffix_of (m_set m)
  | None => match d_schema (w_disk (s_w s)) with Some (SOk sf) => suffix_of (sf_set sf) | _ => [] end
  end.

Lemma inv_core_of ls s sp : Inv ls s -> abs s = Some sp ->
  exists cache pend m, InvCore ls cache pend (w_disk (s_w s)) m /\
    sp_map sp = abs_of pend (w_disk (s_w s)) m /\ suffix_st s = suffix_of (m_set m) /\
    pend = h_pend (s_h s) /\ sp_fds sp = m_fields m.
Proof.
  intros [_ I] Ha. unfold abs in Ha. unfold suffix_st. destruct (h_mem (s_h s)) as [m|] eqn:Hm.
  - destruct I as [IC _]. inv Ha. exists (h_cache (s_h s)), (h_pend (s_h s)), m. cbn [sp_map sp_fds]. split; [exact IC|]. split; [reflexivity|]. split; [reflexivity|]. split; reflexivity.
  - destruct I as [_ [Hp [_ DK]]]. destruct DK as [[_ [Hs _]]|[sf [Hs IC]]]; rewrite Hs in Ha; [discriminate|].
    inv Ha. rewrite Hs. exists [], [], (mem_of sf). cbn [sp_map sp_fds mem_of m_set m_fields]. split; [exact IC|]. split; [reflexivity|]. split; [reflexivity|]. split; [symmetry; exact Hp|reflexivity].
Qed.

(* EVERY object file belongs to a stored object and is named after it: no file of a deleted
   object, of a rejected write, or with another suffix, in ANY reachable state (also while writes
   are pending, also between a delete and the next flush) *)
Theorem files_belong_to_stored_objects ls s sp f c : Inv ls s -> abs s = Some sp ->
  In (f, c) (d_files (w_disk (s_w s))) ->
  fn_suffix f = suffix_st s /\ (exists o, c = COk o) /\ exists ob, assoc (fn_uuid f) (sp_map sp) = Some ob.
Proof.
  intros I Ha Hin. destruct (inv_core_of ls s sp I Ha) as [cache [pend [m [IC [Hmap [Hsuf _]]]]]].
  destruct (ic_files _ _ _ _ _ IC f c Hin) as [A [B C]]. rewrite Hsuf. split; [exact A|]. split; [exact C|].
  destruct (ic_indexed_stored _ _ _ _ _ IC (fn_uuid f) B) as [ob S]. exists ob.
  rewrite Hmap, (abs_assoc _ _ _ _ _ IC). exact S.
Qed.
Print Assumptions files_belong_to_stored_objects.

(* ... and once nothing is pending (synchronous mode at any time; after FlushAll, a due tick or
   Close otherwise): every stored object has its file, holding exactly the stored value *)
Theorem stored_objects_have_their_file ls s sp u ob : Inv ls s -> abs s = Some sp ->
  h_pend (s_h s) = [] -> assoc u (sp_map sp) = Some ob ->
  file_lookup {| fn_uuid := u; fn_suffix := suffix_st s |} (d_files (w_disk (s_w s))) = Some (COk ob).
Proof.
  intros I Ha Hp Has. destruct (inv_core_of ls s sp I Ha) as [cache [pend [m [IC [Hmap [Hsuf [Hpe _]]]]]]].
  rewrite Hmap, (abs_assoc _ _ _ _ _ IC) in Has. rewrite Hpe, Hp in Has. rewrite stored_nopend in Has.
  rewrite Hsuf. change {| fn_uuid := u; fn_suffix := suffix_of (m_set m) |} with (file_of m u).
  destruct (file_lookup (file_of m u) (d_files (w_disk (s_w s)))) as [[o| |]|]; try discriminate. congruence.
Qed.
Print Assumptions stored_objects_have_their_file.

(* along every history (single writes, batches, DeleteAll, flushes, ticks, Close, Reopen, settings
   switches): the two facts hold at every point *)
Corollary layout_along_histories hk ls ops : wf_hist2 hk ls init_state ops ->
  let s := run hk ls init_state ops in
  forall sp, abs s = Some sp ->
    (forall f c, In (f, c) (d_files (w_disk (s_w s))) ->
       fn_suffix f = suffix_st s /\ (exists o, c = COk o) /\ exists ob, assoc (fn_uuid f) (sp_map sp) = Some ob) /\
    (h_pend (s_h s) = [] -> forall u ob, assoc u (sp_map sp) = Some ob ->
       file_lookup {| fn_uuid := u; fn_suffix := suffix_st s |} (d_files (w_disk (s_w s))) = Some (COk ob)).
Proof.
  intros W s sp Ha. destruct (C01_from_init_bulk hk ls ops W) as [I _]. fold s in I. split.
  - intros f c Hin. apply (files_belong_to_stored_objects ls s sp f c I Ha Hin).
  - intros Hp u ob Has. apply (stored_objects_have_their_file ls s sp u ob I Ha Hp Has).
Qed.
Print Assumptions layout_along_histories.

(* C10: an object deleted while its write is pending never appears on disk afterwards: after the
   delete it is not in the collection, so by the invariant it has no file, now or at any later
   point of any history that does not store it again *)
Corollary deleted_object_has_no_file ls s sp u sfx c : Inv ls s -> abs s = Some sp ->
  assoc u (sp_map sp) = None -> ~ In ({| fn_uuid := u; fn_suffix := sfx |}, c) (d_files (w_disk (s_w s))).
Proof.
  intros I Ha Hn Hin. destruct (files_belong_to_stored_objects ls s sp _ c I Ha Hin) as [_ [_ [ob Hob]]].
  cbn [fn_uuid] in Hob. congruence.
Qed.
