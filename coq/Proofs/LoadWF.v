(* Proofs/LoadWF.v: C19, "whatever schema.json contains, what the load accepts is well formed, so
   no later call panics".  The index found in a schema file is ARBITRARY here: any id table, any
   field indexes, of any shape (a field index may be missing for an indexed field or present for a
   field that is not tagged: the code iterates over the field indexes it finds, not over the tags).
   Only two facts come from the decoder: the id table was decoded from a JSON object into a Go
   map, hence has distinct keys, and the model aligns the field indexes with the field table
   (a field index naming no field of the struct is refused by Schema.control). *)
From Coq Require Import List ZArith NArith Bool Lia Permutation Arith.
Import ListNotations.
From Sod.Model Require Import Base FieldIndex ObjIndex.
From Sod.Proofs Require Import FIProofs1 FIProofs2 FIProofs3 FIProofs4 FIProofs5 KeyOrder SearchSpec OIProofs OIProofs2.
Close Scope Z_scope.

Definition is_some {A} (o : option A) : bool := match o with Some _ => true | None => false end.

(* the field table as the index sees it: a field is "indexed" iff a field index exists for it;
   unique / case flags are kept where a field index exists *)
Fixpoint adjust (fds : list fdesc) (fx : list (option findex)) : list fdesc :=
  match fds, fx with
  | d :: ds, o :: r =>
      {| fd_kind := fd_kind d; fd_index := is_some o; fd_unique := fd_unique d && is_some o;
         fd_upper := fd_upper d; fd_lower := fd_lower d |} :: adjust ds r
  | _, _ => []
  end.

Lemma adjust_length fds : forall fx, length fx = length fds -> length (adjust fds fx) = length fds.
Proof.
  induction fds as [|d ds IH]; intros [|o r] H; cbn in *; try reflexivity; try discriminate.
  f_equal. apply IH. lia.
Qed.

Lemma adjust_shape fds : forall fx, length fx = length fds ->
  Forall2 (fun d (o : option findex) => (fd_indexed d = true <-> o <> None)) (adjust fds fx) fx.
Proof.
  induction fds as [|d ds IH]; intros [|o r] H; cbn in *; try discriminate; constructor.
  - unfold fd_indexed. cbn. destruct o; cbn; rewrite ?andb_true_r, ?andb_false_r, ?orb_false_r; split; congruence.
  - apply IH. lia.
Qed.

(* the constraint check never looks at the flags of a field that has no field index *)
Lemma satisfy_all_adjust : forall fx fds ks oid ex, length fx = length fds ->
  satisfy_all (adjust fds fx) ks fx oid ex = satisfy_all fds ks fx oid ex.
Proof.
  induction fx as [|o r IH]; intros [|d ds] ks oid ex H; cbn in H; try discriminate; [reflexivity|].
  cbn [adjust]. destruct o as [l|]; destruct ks as [|k ks']; cbn [satisfy_all fd_unique is_some]; try reflexivity.
  - rewrite andb_true_r. destruct (fd_unique d).
    + destruct (fi_satisfy_unique l oid ex k) as [[|]|]; try reflexivity. apply IH. lia.
    + apply IH. lia.
  - apply IH. lia.
Qed.

Lemma iou_adjust fds ix ks u : length (oi_fx ix) = length fds ->
  oi_insert_or_update (adjust fds (oi_fx ix)) ix ks u = oi_insert_or_update fds ix ks u.
Proof.
  intros H. unfold oi_insert_or_update, oi_satisfy_all.
  destruct (uuid_oid (oi_ids ix) u); rewrite (satisfy_all_adjust _ _ _ _ _ H); reflexivity.
Qed.

(* the same shape: the same adjusted table *)
Lemma adjust_same_shape fds : forall fx fx', length fx = length fx' ->
  (forall i, nth_error fx i = Some None <-> nth_error fx' i = Some None) ->
  adjust fds fx = adjust fds fx'.
Proof.
  induction fds as [|d ds IH]; intros [|o r] [|o' r'] Hl Hs; cbn in *; try reflexivity; try discriminate.
  f_equal.
  - pose proof (Hs 0) as H0. cbn in H0. destruct o, o'; try reflexivity.
    + pose proof (proj2 H0 eq_refl) as X. discriminate.
    + assert (X : Some (@None findex) = Some None) by reflexivity. apply H0 in X. discriminate.
  - apply IH; [lia|]. intros i. apply (Hs (S i)).
Qed.

(* ================================================================ what the load accepts *)

(* an index as the decoder hands it over *)
Definition decoded (fds : list fdesc) (ix : oindex) : Prop :=
  length (oi_fx ix) = length fds /\ NoDup (map fst (oi_ids ix)).

(* ACCEPTED => WELL FORMED: an arbitrary decoded index that passes objIndex.control satisfies,
   once reloaded, the full index invariant for the field table adjusted to its shape *)
Theorem loaded_index_wf fds ix : decoded fds ix -> oi_control ix = true ->
  OIInv (adjust fds (oi_fx ix)) (oi_reload ix).
Proof.
  intros [Hl Hk] Hc. destruct (control_true_wf ix Hc Hk) as [Hu Hf].
  apply reload_inv_gen; try assumption. apply adjust_shape. exact Hl.
Qed.
Print Assumptions loaded_index_wf.

(* ... hence NO operation on it can panic: an insert or update of any record covering the field
   table either succeeds or is refused for uniqueness; a delete of any uuid succeeds; a search with
   any operator and probe on any of its field indexes returns a result or an error *)
Theorem no_panic_after_load fds ix : decoded fds ix -> oi_control ix = true ->
  (forall ks u, keys_ok fds ks -> oi_insert_or_update fds (oi_reload ix) ks u <> Panic) /\
  (forall u, oi_delete (oi_reload ix) u <> None) /\
  (forall i l o probe rxc, nth_error (oi_fx (oi_reload ix)) i = Some (Some l) -> fi_search l o probe rxc <> Panic) /\
  (forall ks u, keys_ok fds ks -> oi_satisfy_all fds (oi_reload ix) ks u <> None).
Proof.
  intros D Hc. pose proof (loaded_index_wf fds ix D Hc) as I. destruct D as [Hl Hk].
  assert (Hl' : length (oi_fx (oi_reload ix)) = length fds) by exact Hl.
  assert (Hko : forall ks, keys_ok fds ks -> keys_ok (adjust fds (oi_fx ix)) ks).
  { intros ks H. unfold keys_ok in *. rewrite (adjust_length fds _ Hl). exact H. }
  assert (A1 : forall ks u, keys_ok fds ks -> oi_insert_or_update fds (oi_reload ix) ks u <> Panic).
  { intros ks u Hks. rewrite <- (iou_adjust fds (oi_reload ix) ks u Hl').
    apply (insert_or_update_spec _ _ ks u I (Hko ks Hks)). }
  split; [exact A1|split; [|split]].
  - intros u. destruct (oi_delete_spec _ _ u I) as [ix' [H _]]. congruence.
  - intros i l o probe rxc Hn. apply fi_search_no_panic. apply (inv_fields _ _ I i l Hn).
  - intros ks u Hks H. apply (A1 ks u Hks). unfold oi_insert_or_update. rewrite H. reflexivity.
Qed.
Print Assumptions no_panic_after_load.

(* ... and this is stable: the index after any accepted insert/update or any delete is again
   well formed for the same adjusted table, so the guarantee holds for EVERY later operation *)
Theorem wf_preserved fds ix : length (oi_fx ix) = length fds -> OIInv (adjust fds (oi_fx ix)) ix ->
  (forall ks u ix', keys_ok fds ks -> oi_insert_or_update fds ix ks u = Ok ix' ->
     length (oi_fx ix') = length fds /\ OIInv (adjust fds (oi_fx ix')) ix') /\
  (forall u ix', oi_delete ix u = Some ix' ->
     length (oi_fx ix') = length fds /\ OIInv (adjust fds (oi_fx ix')) ix').
Proof.
  intros Hl I. split.
  - intros ks u ix' Hks H. rewrite <- (iou_adjust fds ix ks u Hl) in H.
    assert (Hko : keys_ok (adjust fds (oi_fx ix)) ks) by (unfold keys_ok in *; rewrite (adjust_length fds _ Hl); exact Hks).
    destruct (insert_or_update_spec _ _ ks u I Hko) as [_ [_ [_ [_ Hok]]]].
    destruct (Hok ix' H) as [I' [_ [_ [_ [_ [Hlen [Hnone Hsome]]]]]]].
    split; [lia|].
    assert (E : adjust fds (oi_fx ix') = adjust fds (oi_fx ix)).
    { apply adjust_same_shape; [exact Hlen|]. intros i. split.
      - intros Hn. destruct (nth_error (oi_fx ix) i) as [[l|]|] eqn:E0; [|reflexivity|].
        + destruct (Hsome i l E0) as [k [_ Hk]]. congruence.
        + apply nth_error_None in E0. assert (nth_error (oi_fx ix') i <> None) by congruence.
          apply nth_error_Some in H0. lia.
      - apply Hnone. }
    rewrite E. exact I'.
  - intros u ix' H. destruct (oi_delete_spec _ _ u I) as [ix2 [H2 [I' [_ [_ [_ [_ [_ [_ [Hlen [Hnone Hsome]]]]]]]]]]].
    assert (ix2 = ix') by congruence. subst ix2. split; [lia|].
    assert (E : adjust fds (oi_fx ix') = adjust fds (oi_fx ix)).
    { apply adjust_same_shape; [exact Hlen|]. intros i. split.
      - intros Hn. destruct (nth_error (oi_fx ix) i) as [[l|]|] eqn:E0; [|reflexivity|].
        + pose proof (Hsome i l E0) as Hk. congruence.
        + apply nth_error_None in E0. assert (nth_error (oi_fx ix') i <> None) by congruence.
          apply nth_error_Some in H0. lia.
      - apply Hnone. }
    rewrite E. exact I'.
Qed.
Print Assumptions wf_preserved.

(* the four ways a schema file can be wrong about its index, each refused by control (they are the
   shapes the fuzzer of the correspondence writes into real schema.json files) *)
Definition lw_fds : list fdesc :=
  [ {| fd_kind := KdInt; fd_index := true; fd_unique := false; fd_upper := false; fd_lower := false |} ].
Definition lw_good : oindex :=
  {| oi_next := 0; oi_ids := [(0%N, 100%N); (1%N, 101%N)]; oi_fx := [Some [(KInt 5, 1%N); (KInt 3, 0%N)]] |}.
Definition lw_ghost : oindex :=      (* an entry of an unknown object id *)
  {| oi_next := 0; oi_ids := [(0%N, 100%N); (1%N, 101%N)]; oi_fx := [Some [(KInt 5, 7%N); (KInt 3, 0%N)]] |}.
Definition lw_twice : oindex :=      (* two entries for one object, none for the other *)
  {| oi_next := 0; oi_ids := [(0%N, 100%N); (1%N, 101%N)]; oi_fx := [Some [(KInt 5, 0%N); (KInt 3, 0%N)]] |}.
Definition lw_same_uuid : oindex :=  (* two object ids for one uuid *)
  {| oi_next := 0; oi_ids := [(0%N, 100%N); (1%N, 100%N)]; oi_fx := [Some [(KInt 5, 1%N); (KInt 3, 0%N)]] |}.
Definition lw_unordered : oindex :=
  {| oi_next := 0; oi_ids := [(0%N, 100%N); (1%N, 101%N)]; oi_fx := [Some [(KInt 3, 0%N); (KInt 5, 1%N)]] |}.

Example load_examples :
  decoded lw_fds lw_good /\ oi_control lw_good = true /\
  oi_control lw_ghost = false /\ oi_control lw_twice = false /\
  oi_control lw_same_uuid = false /\ oi_control lw_unordered = false /\
  (* what the refused ones would have done *)
  oi_delete lw_ghost 101%N = None /\ oi_delete lw_twice 101%N = None.
Proof.
  repeat split; try (vm_compute; reflexivity).
  cbn. repeat constructor; cbn; intuition discriminate.
Qed.
