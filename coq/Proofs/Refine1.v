(* Proofs/Refine1.v: C01 (CRUD refinement of a finite map), part 1: the file table, the world
   primitives in a fault-free world, association lists.  No fact here depends on an invariant. *)
From Coq Require Import List ZArith NArith Bool Lia Arith.
Import ListNotations.
From Sod.Model Require Import Base FieldIndex ObjIndex DB.
From Sod.Proofs Require Import KeyOrder DBBasic.

(* split syntactic conjunctions only (never unfolds a definition or a record) *)
Ltac splits := repeat match goal with |- _ /\ _ => split end.

(* ---------------------------------------------------------------- file names *)

Lemma rf_str_eqb_refl s : str_eqb s s = true.
Proof. apply str_eqb_eq. reflexivity. Qed.

Lemma rf_fname_eqb_iff f g : fname_eqb f g = true <-> f = g.
Proof.
  destruct f as [u s], g as [v t]. unfold fname_eqb. cbn [fn_uuid fn_suffix].
  rewrite andb_true_iff, N.eqb_eq, str_eqb_eq. split.
  - intros [-> ->]. reflexivity.
  - intros H. inversion H. split; reflexivity.
Qed.

Lemma rf_fname_eqb_spec f g : reflect (f = g) (fname_eqb f g).
Proof.
  destruct (fname_eqb f g) eqn:E; constructor.
  - apply rf_fname_eqb_iff. exact E.
  - intros H. apply rf_fname_eqb_iff in H. congruence.
Qed.

Lemma rf_fname_eqb_refl f : fname_eqb f f = true.
Proof. apply rf_fname_eqb_iff. reflexivity. Qed.

(* ---------------------------------------------------------------- the file table *)

Lemma rf_lookup_put f c g l :
  file_lookup g (file_put f c l) = if fname_eqb g f then Some c else file_lookup g l.
Proof.
  induction l as [|[a c'] l IH]; cbn [file_put file_lookup].
  - reflexivity.
  - destruct (rf_fname_eqb_spec f a) as [->|Hfa]; cbn [file_lookup].
    + destruct (fname_eqb g a); reflexivity.
    + destruct (rf_fname_eqb_spec g a) as [->|Hga].
      * destruct (rf_fname_eqb_spec a f) as [Haf|_]; [congruence|reflexivity].
      * exact IH.
Qed.

Lemma rf_lookup_remove f g l :
  file_lookup g (file_remove f l) = if fname_eqb g f then None else file_lookup g l.
Proof.
  unfold file_remove. induction l as [|[a c'] l IH]; cbn [filter file_lookup fst].
  - destruct (fname_eqb g f); reflexivity.
  - destruct (rf_fname_eqb_spec f a) as [->|Hfa]; cbn [negb file_lookup].
    + rewrite IH. destruct (fname_eqb g a); reflexivity.
    + destruct (rf_fname_eqb_spec g a) as [->|Hga].
      * destruct (rf_fname_eqb_spec a f) as [Haf|_]; [congruence|reflexivity].
      * exact IH.
Qed.

Lemma rf_put_put f c1 c2 l : file_put f c2 (file_put f c1 l) = file_put f c2 l.
Proof.
  induction l as [|[a c'] l IH]; cbn [file_put].
  - rewrite rf_fname_eqb_refl. reflexivity.
  - destruct (fname_eqb f a) eqn:E; cbn [file_put].
    + rewrite rf_fname_eqb_refl. reflexivity.
    + rewrite E, IH. reflexivity.
Qed.

Lemma rf_In_put f c0 g c l : In (g, c) (file_put f c0 l) -> (g = f /\ c = c0) \/ In (g, c) l.
Proof.
  induction l as [|[a c'] l IH]; cbn [file_put].
  - intros [H|[]]. inversion H. left. split; reflexivity.
  - destruct (fname_eqb f a).
    + intros [H|H]; [inversion H; left; split; reflexivity|right; right; exact H].
    + intros [H|H]; [right; left; exact H|].
      destruct (IH H) as [H1|H1]; [left; exact H1|right; right; exact H1].
Qed.

Lemma rf_In_remove f g c l : In (g, c) (file_remove f l) -> In (g, c) l /\ g <> f.
Proof.
  unfold file_remove. intros H. apply filter_In in H. destruct H as [H1 H2]. split; [exact H1|].
  cbn [fst] in H2. intros ->. rewrite rf_fname_eqb_refl in H2. discriminate.
Qed.

Lemma rf_lookup_In f c l : file_lookup f l = Some c -> In (f, c) l.
Proof.
  induction l as [|[a c'] l IH]; cbn [file_lookup]; [discriminate|].
  destruct (rf_fname_eqb_spec f a) as [->|Hfa].
  - intros H. inversion H. left. reflexivity.
  - intros H. right. apply IH. exact H.
Qed.

(* ---------------------------------------------------------------- small sets of uuids *)

Lemma rf_memN_In u l : memN u l = true <-> In u l.
Proof.
  unfold memN. rewrite existsb_exists. split.
  - intros [x [Hx He]]. apply N.eqb_eq in He. subst x. exact Hx.
  - intros H. exists u. split; [exact H|apply N.eqb_refl].
Qed.

Lemma rf_dedupN_In u l : In u (dedupN l) <-> In u l.
Proof.
  induction l as [|x r IH]; cbn [dedupN]; [reflexivity|].
  destruct (memN x r) eqn:E.
  - rewrite IH. apply rf_memN_In in E. split; [intros H; right; exact H|].
    intros [->|H]; [exact E|exact H].
  - cbn [In]. rewrite IH. reflexivity.
Qed.

Lemma rf_disk_uuids_In d u : In u (disk_uuids d) <-> exists f c, In (f, c) (d_files d) /\ fn_uuid f = u.
Proof.
  unfold disk_uuids. rewrite rf_dedupN_In, in_map_iff. split.
  - intros [[f c] [Hu Hin]]. exists f, c. split; [exact Hin|exact Hu].
  - intros [f [c [Hin Hu]]]. exists (f, c). split; [exact Hu|exact Hin].
Qed.

(* ---------------------------------------------------------------- association lists *)

Lemma rf_put_notin {B} k (v : B) l : assoc k l = None -> put k v l = l ++ [(k, v)].
Proof.
  induction l as [|[k' v'] l IH]; cbn [assoc put app]; [reflexivity|].
  destruct (N.eqb k k'); [discriminate|]. intros H. rewrite (IH H). reflexivity.
Qed.

Lemma rf_put_fst_in {B} k (v : B) l x : In x (map fst (put k v l)) <-> x = k \/ In x (map fst l).
Proof.
  induction l as [|[k' v'] l IH]; cbn [put map fst In].
  - split; [intros [H|[]]; left; symmetry; exact H|intros [H|[]]; left; symmetry; exact H].
  - destruct (N.eqb k k') eqn:E; cbn [map fst In].
    + apply N.eqb_eq in E. subst k'. split.
      * intros [H|H]; [left; symmetry; exact H|right; right; exact H].
      * intros [H|[H|H]]; [left; symmetry; exact H|left; exact H|right; exact H].
    + rewrite IH. tauto.
Qed.

Lemma rf_put_nodup {B} k (v : B) l : NoDup (map fst l) -> NoDup (map fst (put k v l)).
Proof.
  induction l as [|[k' v'] l IH]; cbn [put map fst]; intros Hnd.
  - constructor; [intros []|constructor].
  - apply NoDup_cons_iff in Hnd. destruct Hnd as [Hn Hnd].
    destruct (N.eqb k k') eqn:E; cbn [map fst].
    + apply N.eqb_eq in E. subst k'. constructor; assumption.
    + constructor; [|apply IH; exact Hnd]. rewrite rf_put_fst_in. intros [H|H].
      * subst k'. rewrite N.eqb_refl in E. discriminate.
      * exact (Hn H).
Qed.

Lemma rf_remove_nodup {B} k (l : list (N * B)) : NoDup (map fst l) -> NoDup (map fst (remove_key k l)).
Proof.
  unfold remove_key. induction l as [|[k' v'] l IH]; cbn [filter map fst]; intros Hnd; [constructor|].
  apply NoDup_cons_iff in Hnd. destruct Hnd as [Hn Hnd].
  destruct (negb (N.eqb k' k)); cbn [map fst]; [|apply IH; exact Hnd].
  constructor; [|apply IH; exact Hnd]. intros H. apply Hn.
  apply in_map_iff in H. destruct H as [p [Hp Hin]]. apply filter_In in Hin.
  apply in_map_iff. exists p. split; [exact Hp|apply Hin].
Qed.

Lemma rf_assoc_put {B} k k' (v : B) l : assoc k' (put k v l) = if N.eqb k' k then Some v else assoc k' l.
Proof.
  destruct (N.eqb k' k) eqn:E.
  - apply N.eqb_eq in E. subst k'. apply assoc_put_same.
  - apply N.eqb_neq in E. apply assoc_put_other. congruence.
Qed.

Lemma rf_assoc_remove {B} k k' (l : list (N * B)) :
  assoc k' (remove_key k l) = if N.eqb k' k then None else assoc k' l.
Proof.
  destruct (N.eqb k' k) eqn:E.
  - apply N.eqb_eq in E. subst k'. apply assoc_remove_same.
  - apply N.eqb_neq in E. apply assoc_remove_other. congruence.
Qed.

(* ---------------------------------------------------------------- the world without faults *)

Definition nofault (w : world) : Prop := w_fail w = None /\ w_dead w = false.

Lemma rf_fs_mut w o eff : nofault w ->
  exists w', fs_mut w o eff = (true, w') /\ w_disk w' = eff (w_disk w) /\ nofault w'.
Proof.
  intros [Hf Hd]. unfold fs_mut. rewrite Hd, Hf. eexists. split; [reflexivity|].
  split; [reflexivity|]. split; reflexivity.
Qed.

Lemma rf_fs_mkdir_exists w : d_dir (w_disk w) = true -> fs_mkdir w = (true, w).
Proof. intros H. unfold fs_mkdir. rewrite H. reflexivity. Qed.

Lemma rf_fs_mkdir w : nofault w ->
  exists w', fs_mkdir w = (true, w') /\ nofault w' /\ d_dir (w_disk w') = true /\
             d_schema (w_disk w') = d_schema (w_disk w) /\ d_files (w_disk w') = d_files (w_disk w).
Proof.
  intros Hn. unfold fs_mkdir. destruct (d_dir (w_disk w)) eqn:E.
  - exists w. repeat split; try assumption; apply Hn.
  - destruct (rf_fs_mut w FMkdir
                (fun d => {| d_dir := true; d_schema := d_schema d; d_files := d_files d; d_other := d_other d |}) Hn)
      as [w' [H1 [H2 H3]]].
    exists w'. split; [exact H1|]. split; [exact H3|]. rewrite H2. cbn. repeat split.
Qed.

Lemma rf_fs_write_obj w f o : nofault w ->
  exists w', fs_write_obj w f o = (true, w') /\ nofault w' /\
             w_disk w' = disk_set_file f (COk o) (w_disk w).
Proof.
  intros Hn. unfold fs_write_obj.
  destruct (rf_fs_mut w (FTrunc (PObj f)) (disk_set_file f CBad) Hn) as [w1 [H1 [D1 N1]]]. rewrite H1.
  destruct (rf_fs_mut w1 (FWriteObj f o) (disk_set_file f (COk o)) N1) as [w2 [H2 [D2 N2]]].
  exists w2. split; [exact H2|]. split; [exact N2|]. rewrite D2, D1.
  unfold disk_set_file. cbn. rewrite rf_put_put. reflexivity.
Qed.

Lemma rf_fs_write_schema w sf : nofault w ->
  exists w', fs_write_schema w sf = (true, w') /\ nofault w' /\
             w_disk w' = disk_set_schema (Some (SOk sf)) (w_disk w).
Proof.
  intros Hn. unfold fs_write_schema.
  destruct (rf_fs_mut w (FTrunc PSchema) (disk_set_schema (Some SBad)) Hn) as [w1 [H1 [D1 N1]]]. rewrite H1.
  destruct (rf_fs_mut w1 (FWriteSchema sf) (disk_set_schema (Some (SOk sf))) N1) as [w2 [H2 [D2 N2]]].
  exists w2. split; [exact H2|]. split; [exact N2|]. rewrite D2, D1. reflexivity.
Qed.

Lemma rf_fs_remove w f : nofault w ->
  exists w', fs_remove w f = (true, w') /\ nofault w' /\ w_disk w' = disk_del_file f (w_disk w).
Proof.
  intros Hn. unfold fs_remove. destruct (rf_fs_mut w (FRemove f) (disk_del_file f) Hn) as [w' [H1 [H2 H3]]].
  exists w'. repeat split; try assumption; apply H3.
Qed.

Lemma rf_write_object w m u o : nofault w -> d_dir (w_disk w) = true ->
  forallb serialisable (o_keys o) = true ->
  exists w', write_object w m u o = (None, w') /\ nofault w' /\
             w_disk w' = disk_set_file (file_of m u) (COk o) (w_disk w).
Proof.
  intros Hn Hd Hs. unfold write_object. rewrite (rf_fs_mkdir_exists w Hd). cbn [negb]. rewrite Hs. cbn [negb].
  destruct (rf_fs_write_obj w (file_of m u) o Hn) as [w' [H1 [H2 H3]]]. rewrite H1.
  exists w'. repeat split; try assumption; apply H2.
Qed.

Lemma rf_save_schema w m : nofault w -> d_dir (w_disk w) = true ->
  exists w', save_schema w m = (None, w') /\ nofault w' /\
             w_disk w' = disk_set_schema (Some (SOk (sfile_of m))) (w_disk w).
Proof.
  intros Hn Hd. unfold save_schema. rewrite (rf_fs_mkdir_exists w Hd). cbn [negb].
  destruct (rf_fs_write_schema w (sfile_of m) Hn) as [w' [H1 [H2 H3]]]. rewrite H1.
  exists w'. repeat split; try assumption; apply H2.
Qed.

(* the schema lookup on a loaded handle *)
Lemma rf_start_flusher_mem h m : h_mem h = Some m ->
  exists m', h_mem (start_flusher h) = Some m' /\ m_idx m' = m_idx m /\ m_set m' = m_set m /\
             m_fields m' = m_fields m /\ m_shape m' = m_shape m /\
             h_cache (start_flusher h) = h_cache h /\ h_pend (start_flusher h) = h_pend h /\
             h_cancel (start_flusher h) = h_cancel h.
Proof.
  intros Hm. unfold start_flusher. rewrite Hm.
  destruct (async_on m && negb (m_started m)); cbn.
  - eexists; repeat split; reflexivity.
  - exists m. repeat split; try reflexivity. exact Hm.
Qed.
