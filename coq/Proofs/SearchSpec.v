(* Proofs/SearchSpec.v: the operator dispatch of objIndex.search on a sorted field index returns
   EXACTLY the filter of the index by the operator's denotation, as a LIST: soundness,
   completeness, absence of duplicates and order in one statement. *)
From Coq Require Import List ZArith NArith Bool Lia.
Import ListNotations.
From Sod.Model Require Import Base FieldIndex ObjIndex.
From Sod.Proofs Require Import FIProofs1 FIProofs2 FIProofs3 KeyOrder.

Definition sorted (l : findex) : Prop := sorted_desc key key_ltb l.

Lemma filter_ext_in' {A} (f g : A -> bool) l : (forall x, f x = g x) -> filter f l = filter g l.
Proof. intros H. induction l as [|x l IH]; cbn; [reflexivity|]. rewrite H, IH. reflexivity. Qed.

Theorem fi_search_spec (l : findex) (o : sop) (probe : key) (rxc : option (key -> bool)) (m : key -> bool) :
  sorted l ->
  o <> OpBad ->
  (o = OpRx -> rxc = Some m /\ exists s, probe = KStr s) ->
  fi_search l o probe rxc = Ok (filter (fun e => eval_op o m (fst e) probe) l).
Proof.
  intros Hs Hb Hrx. unfold sorted in Hs. destruct o; cbn [fi_search eval_op]; try congruence.
  - rewrite (search_eq_spec key key_ltb key_eqb key_lt_negtrans key_eq_def l probe Hs). reflexivity.
  - rewrite (search_ne_spec key key_ltb key_eqb key_lt_negtrans key_eq_def l probe Hs). reflexivity.
  - rewrite (search_lt_spec key key_ltb key_lt_negtrans l probe Hs). reflexivity.
  - rewrite (search_le_spec key key_ltb key_eqb key_lt_irrefl key_lt_trans key_lt_negtrans key_eq_def l probe Hs). reflexivity.
  - rewrite (search_gt_spec key key_ltb key_eqb key_lt_irrefl key_lt_trans key_lt_negtrans key_eq_def l probe Hs). reflexivity.
  - rewrite (search_ge_spec key key_ltb key_eqb key_lt_irrefl key_lt_trans key_lt_negtrans key_eq_def l probe Hs). reflexivity.
  - destruct (Hrx eq_refl) as [-> [s ->]]. reflexivity.
Qed.

(* no panic, whatever the operator: the three-valued result is never Panic on a sorted index *)
Theorem fi_search_no_panic (l : findex) (o : sop) (probe : key) (rxc : option (key -> bool)) :
  sorted l -> fi_search l o probe rxc <> Panic.
Proof.
  intros Hs. destruct o.
  1-6: rewrite (fi_search_spec l _ probe rxc (fun _ => false) Hs); congruence.
  - cbn. destruct probe; try congruence. destruct rxc; congruence.
  - cbn. congruence.
Qed.
