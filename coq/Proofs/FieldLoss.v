(* C11: an index that lost the entry of ONE object in ONE field index (the object stays in the id table and in
   every other field index) is refused by the internal control, hence by the first load and by Control *)
From Coq Require Import List ZArith NArith Bool Lia Arith.
Import ListNotations.
From Sod.Model Require Import Base FieldIndex ObjIndex DB.
From Sod.Proofs Require Import FIProofs4 FIProofs5 OIProofs OIProofs2.

Lemma filter_len_le {A} (f : A -> bool) (l : list A) : length (filter f l) <= length l.
Proof. induction l as [|a r IH]; cbn [filter length]; [lia|]. destruct (f a); cbn [length]; lia. Qed.

Lemma filter_length_lt {A} (f : A -> bool) (l : list A) x : In x l -> f x = false -> length (filter f l) < length l.
Proof.
  induction l as [|a r IH]; intros Hin Hf; [destruct Hin|]. cbn [filter]. destruct Hin as [->|Hin].
  - rewrite Hf. cbn [length]. pose proof (filter_len_le f r). lia.
  - specialize (IH Hin Hf). destruct (f a); cbn [length]; lia.
Qed.

Lemma forallb_mid_false {A} (f : A -> bool) a x b : f x = false -> forallb f (a ++ x :: b) = false.
Proof. intros H. rewrite forallb_app. cbn [forallb]. rewrite H. cbn. apply andb_false_r. Qed.

Definition drop_field_entry (ix : oindex) (fld : nat) (l : findex) (oid : N) : oindex :=
  {| oi_next := oi_next ix; oi_ids := oi_ids ix;
     oi_fx := firstn fld (oi_fx ix) ++ Some (filter (fun e => negb (N.eqb (snd e) oid)) l) :: skipn (S fld) (oi_fx ix) |}.

Theorem field_entry_loss_detected ix fld l oid :
  oi_control ix = true -> NoDup (map fst (oi_ids ix)) ->
  nth fld (oi_fx ix) None = Some l ->
  In oid (map fst (oi_ids ix)) ->
  oi_control (drop_field_entry ix fld l oid) = false.
Proof.
  intros Hc Hn Hl Hin.
  assert (Hlt : fld < length (oi_fx ix)).
  { destruct (Nat.lt_ge_cases fld (length (oi_fx ix))) as [G|G]; [exact G|]. rewrite (nth_overflow _ _ G) in Hl. discriminate. }
  assert (He : nth_error (oi_fx ix) fld = Some (Some l)).
  { rewrite (nth_error_nth' _ None Hlt). rewrite Hl. reflexivity. }
  destruct (control_true_wf ix Hc Hn) as [_ W]. destruct (W fld l He) as [_ [_ M]].
  destruct (control_true_partial ix Hc fld l He) as [_ Len].
  apply M in Hin. unfold oids in Hin. apply in_map_iff in Hin. destruct Hin as [e [Es Ein]].
  unfold oi_control, drop_field_entry. cbn [oi_ids oi_fx]. apply andb_false_iff. right.
  apply forallb_mid_false. cbn beta iota.
  rewrite <- Len.
  match goal with |- _ && (?a =? ?b) && _ && _ = false =>
    assert (L : a < b) by (apply (filter_length_lt _ l e Ein); rewrite Es, N.eqb_refl; reflexivity);
    destruct (Nat.eqb_spec a b) as [E|E]; [exfalso; rewrite E in L; exact (Nat.lt_irrefl _ L)|]
  end.
  rewrite andb_false_r. reflexivity.
Qed.
Print Assumptions field_entry_loss_detected.

(* at the level of the database: the outside modification succeeds on a directory whose schema passes the control;
   the next load of that directory (a handle that has not loaded the schema) refuses it as inconsistent *)
Theorem field_entry_loss_refused_at_load hk ls s u fld sf :
  d_schema (w_disk (s_w s)) = Some (SOk sf) ->
  oi_control (sf_idx sf) = true -> NoDup (map fst (oi_ids (sf_idx sf))) ->
  sf_shape sf = ls ->
  snd (step_fg hk ls s (XRmFieldEntry u fld)) = RUnit (Ok tt) ->
  let s' := fst (step_fg hk ls s (XRmFieldEntry u fld)) in
  forall h, h_mem h = None -> d_dir (w_disk (s_w s')) = true ->
  snd (db_schema ls h (w_disk (s_w s'))) = Some EInconsistent.
Proof.
  intros Hs Hc Hn Hsh Hok. cbn [step_fg] in *. rewrite Hs in *.
  destruct (uuid_oid (oi_ids (sf_idx sf)) u) as [oid|] eqn:Hu; [|discriminate Hok].
  destruct (nth fld (oi_fx (sf_idx sf)) None) as [l|] eqn:Hl; [|discriminate Hok].
  cbn [fst]. intros h Hm Hd. unfold db_schema. rewrite Hm.
  cbn [mk s_w set_disk w_disk disk_set_schema d_dir d_schema] in *. rewrite Hd. cbn [negb].
  unfold control_mem, mem_of. cbn [m_shape sf_shape m_idx sf_idx]. rewrite Hsh, N.eqb_refl. cbn [negb].
  assert (In oid (map fst (oi_ids (sf_idx sf)))) as Hin.
  { unfold uuid_oid in Hu. clear -Hu. induction (oi_ids (sf_idx sf)) as [|[a b] r IH]; cbn in *; [discriminate|].
    destruct (N.eqb u b); [injection Hu as Hu; left; exact Hu|right; apply IH; exact Hu]. }
  pose proof (field_entry_loss_detected (sf_idx sf) fld l oid Hc Hn Hl Hin) as F.
  unfold drop_field_entry in F. unfold oi_control in *. unfold oi_reload. cbn [oi_ids oi_fx] in *. rewrite F. reflexivity.
Qed.
Print Assumptions field_entry_loss_refused_at_load.
