(* Proofs/Extended.v: the refinement theorem of C01 extended to the bulk paths: InsertOrUpdateMany,
   InsertOrUpdateBulk and DeleteAll are specification steps too, so that EVERY history mixing single
   writes, batches, chunked batches, DeleteAll, reads, flushes, ticks, Close and Reopen refines the
   finite map, under every configuration. *)
From Coq Require Import List ZArith NArith Bool Lia Arith.
Import ListNotations.
From Sod.Model Require Import Base FieldIndex ObjIndex DB.
From Sod.Proofs Require Import DBBasic DBStruct1 Refine1 Refine2 Refine3 Refine4 Refine5 Batch Delete.
Close Scope Z_scope.

Definition bulk_op (o : op) : bool :=
  match o with OMany _ | OBulk _ _ | ODeleteAll _ => true | _ => false end.

Definition wf_op2 (hk : hooks) (s : state) (o : op) : Prop :=
  match o with
  | OMany ms =>
      (forall sp, abs s = Some sp -> Forall (member_ok hk (sp_fds sp)) ms) /\ led_by_rec ms /\
      (abs s = None -> ms <> [])
  | OBulk _ ms =>
      abs s <> None /\ (forall sp, abs s = Some sp -> Forall (member_ok hk (sp_fds sp)) ms) /\ Forall is_record ms
  | ODeleteAll _ => abs s <> None
  | _ => wf_op hk s o
  end.

Definition spec_step2 (hk : hooks) (a : option spec) (o : op) : option spec * out :=
  match o with
  | OMany ms =>
      match a with
      | Some sp =>
          match spec_validate hk (sp_fds sp) (sp_map sp) [] ms with
          | Ok l => (Some {| sp_fds := sp_fds sp; sp_map := puts l (sp_map sp) |}, RMany (Ok tt) (Z.of_nat (length ms)))
          | Err e => (a, RMany (Err e) 0%Z)
          | Panic => (a, RPanic)
          end
      | None => (None, RMany (Err ENotFound) 0%Z)
      end
  | OBulk c ms =>
      match a with
      | Some sp =>
          let r := spec_bulk hk (sp_fds sp) (sp_map sp) (chunks c ms) 0%Z in
          (Some {| sp_fds := sp_fds sp; sp_map := fst (fst r) |}, RMany (snd (fst r)) (snd r))
      | None => (None, RUnit (Ok tt))
      end
  | ODeleteAll _ =>
      match a with
      | Some sp => (Some {| sp_fds := sp_fds sp; sp_map := [] |}, RUnit (Ok tt))
      | None => (None, RUnit (Ok tt))
      end
  | _ => spec_step hk a o
  end.

Lemma step_bulk_unfold hk ls s o : bulk_op o = true ->
  step hk ls s o =
  (let (s1, r) := step_fg hk ls s o in
   if w_dead (s_w s1) then (mk new_handle (reset_w (s_w s1)), RCrash)
   else match settle ls (s_h s1) (reset_w (s_w s1)) with
        | Ok (h2, w3) => (mk h2 w3, r)
        | Err e => (mk (s_h s1) (reset_w (s_w s1)), r)
        | Panic => (mk (s_h s1) (reset_w (s_w s1)), RPanic)
        end).
Proof. destruct o; try discriminate; reflexivity. Qed.

(* what remains after the foreground call: goroutines it started run once *)
Lemma finish hk ls s o s1 r a1 : bulk_op o = true ->
  step_fg hk ls s o = (s1, r) -> Inv ls s1 -> abs s1 = a1 ->
  Inv ls (fst (step hk ls s o)) /\ abs (fst (step hk ls s o)) = a1 /\ snd (step hk ls s o) = r.
Proof.
  intros Hb E I1 A1. rewrite (step_bulk_unfold hk ls s o Hb), E.
  assert (Hd : w_dead (s_w s1) = false) by (destruct I1 as [[_ Hd] _]; exact Hd). rewrite Hd.
  assert (I1' : Inv ls (mk (s_h s1) (reset_w (s_w s1)))) by (apply Inv_reset; destruct s1; exact I1).
  destruct (settle_ok ls _ _ I1') as [h2 [w2 [St [I2 [A2 _]]]]]. rewrite St. cbn [fst snd].
  split; [exact I2|]. split; [rewrite A2, abs_reset; exact A1|reflexivity].
Qed.

(* THE EXTENDED REFINEMENT, one call *)
Theorem C01_refines_bulk hk ls s o : Inv ls s -> wf_op2 hk s o ->
  Inv ls (fst (step hk ls s o)) /\
  abs (fst (step hk ls s o)) = fst (spec_step2 hk (abs s) o) /\
  snd (step hk ls s o) = snd (spec_step2 hk (abs s) o).
Proof.
  intros I Hwf. destruct (bulk_op o) eqn:Hb.
  2:{ assert (E : spec_step2 hk (abs s) o = spec_step hk (abs s) o) by (destruct o; try discriminate; reflexivity).
      assert (W : wf_op hk s o) by (destruct o; try discriminate; exact Hwf).
      rewrite E. apply (C01_refines hk ls s o I W). }
  destruct s as [h w]. change {| s_h := h; s_w := w |} with (mk h w) in *.
  destruct o; try discriminate.
  - (* OMany *)
    destruct Hwf as [Hok [Hled Hne]]. cbn [spec_step2].
    destruct (abs (mk h w)) as [[fds a]|] eqn:Ha.
    + destruct (many_call_refines hk ls h w fds a ms I Ha (Hok _ eq_refl) Hled) as [s1 [I1 M]].
      cbn [sp_fds sp_map].
      destruct (spec_validate hk fds a [] ms) as [l|e|]; [| |destruct M]; destruct M as [E A1];
        destruct (finish hk ls (mk h w) (OMany ms) s1 _ _ eq_refl E I1 A1) as [X [Y Z]]; cbn [fst snd];
        (split; [exact X|split; [exact Y|exact Z]]).
    + destruct (many_absent hk ls h w ms I Ha Hled (Hne eq_refl)) as [s1 [E [I1 A1]]].
      assert (E' : step_fg hk ls (mk h w) (OMany ms) = (s1, RMany (Err ENotFound) 0%Z)) by (unfold step_fg; rewrite E; reflexivity).
      destruct (finish hk ls (mk h w) (OMany ms) s1 _ _ eq_refl E' I1 A1) as [X [Y Z]]. cbn [fst snd].
      split; [exact X|split; [exact Y|exact Z]].
  - (* OBulk *)
    destruct Hwf as [Hex [Hok Hrec]]. cbn [spec_step2].
    destruct (abs (mk h w)) as [[fds a]|] eqn:Ha; [|congruence].
    destruct (bulk_call_refines hk ls h w fds a csize ms I Ha (Hok _ eq_refl) Hrec) as [s1 [E [I1 A1]]].
    destruct (finish hk ls (mk h w) (OBulk csize ms) s1 _ _ eq_refl E I1 A1) as [X [Y Z]]. cbn [fst snd sp_fds sp_map].
    split; [exact X|split; [exact Y|exact Z]].
  - (* ODeleteAll *)
    cbn [wf_op2] in Hwf. cbn [spec_step2].
    destruct (abs (mk h w)) as [[fds a]|] eqn:Ha; [|congruence].
    destruct (delete_all_refines hk ls h w fds a order I Ha) as [s1 [E [I1 A1]]].
    destruct (finish hk ls (mk h w) (ODeleteAll order) s1 _ _ eq_refl E I1 A1) as [X [Y Z]]. cbn [fst snd sp_fds sp_map].
    split; [exact X|split; [exact Y|exact Z]].
Qed.
Print Assumptions C01_refines_bulk.

(* ================================================================ histories *)

Fixpoint wf_hist2 (hk : hooks) (ls : N) (s : state) (ops : list op) : Prop :=
  match ops with
  | [] => True
  | o :: r => wf_op2 hk s o /\ wf_hist2 hk ls (fst (step hk ls s o)) r
  end.

Fixpoint spec_run2 (hk : hooks) (a : option spec) (ops : list op) : option spec * list out :=
  match ops with
  | [] => (a, [])
  | o :: r => let (a1, x) := spec_step2 hk a o in
              let (a2, xs) := spec_run2 hk a1 r in (a2, x :: xs)
  end.

(* EVERY HISTORY mixing single writes, batches, chunked batches, DeleteAll, every read path,
   flushes, flusher ticks, Control, Close, Reopen, Create (settings switches): the outputs of all
   calls are those of the map specification and the final abstraction is the specification's state *)
Theorem C01_history_bulk hk ls ops : forall s, Inv ls s -> wf_hist2 hk ls s ops ->
  Inv ls (run hk ls s ops) /\
  abs (run hk ls s ops) = fst (spec_run2 hk (abs s) ops) /\
  run_out hk ls s ops = snd (spec_run2 hk (abs s) ops).
Proof.
  induction ops as [|o r IH]; intros s I Hwf.
  - cbn. split; [exact I|]. split; reflexivity.
  - destruct Hwf as [Hwf1 Hwf2]. destruct (C01_refines_bulk hk ls s o I Hwf1) as [I1 [A1 R1]].
    destruct (IH _ I1 Hwf2) as [I2 [A2 R2]].
    unfold run in *. cbn [fold_left run_out spec_run2].
    destruct (spec_step2 hk (abs s) o) as [a1 x] eqn:E1. cbn [fst snd] in A1, R1. rewrite A1 in A2, R2.
    destruct (spec_run2 hk a1 r) as [a2 xs] eqn:E2. cbn [fst snd] in *.
    split; [exact I2|]. split; [exact A2|]. rewrite R1, R2. reflexivity.
Qed.
Print Assumptions C01_history_bulk.

Theorem C01_from_init_bulk hk ls ops : wf_hist2 hk ls init_state ops ->
  Inv ls (run hk ls init_state ops) /\
  abs (run hk ls init_state ops) = fst (spec_run2 hk None ops) /\
  run_out hk ls init_state ops = snd (spec_run2 hk None ops).
Proof. intros H. apply (C01_history_bulk hk ls ops init_state (Inv_init ls) H). Qed.

(* non-vacuity: a history with a batch that is accepted, one that is rejected for a conflict INSIDE
   the batch, a chunked batch whose second chunk fails, and DeleteAll; synchronous and asynchronous *)
Definition bx_ops (st : settings) : list op :=
  [ OCreate st ex_fds;
    OMany [MRec 0 100 (ex_ob 1 97); MRec 0 101 (ex_ob 2 98)];
    OMany [MRec 0 102 (ex_ob 3 99); MRec 0 103 (ex_ob 3 100)];
    OCount;
    OBulk 2 [MRec 0 104 (ex_ob 4 97); MRec 0 105 (ex_ob 5 97); MRec 0 106 (ex_ob 1 97); MRec 0 107 (ex_ob 7 97)];
    OCount;
    OGet 104;
    ODeleteAll [];
    OCount ].
Definition bx_outs : list out :=
  [ RUnit (Ok tt); RMany (Ok tt) 2%Z; RMany (Err EUnique) 0%Z; RNum (Ok 2%Z);
    RMany (Err EUnique) 2%Z; RNum (Ok 4%Z); RObj (Ok (104%N, ex_ob 4 97)); RUnit (Ok tt); RNum (Ok 0%Z) ].

Example bulk_history_sync :
  wf_hist2 hk0 7%N init_state (bx_ops st_sync) /\
  run_out hk0 7%N init_state (bx_ops st_sync) = bx_outs /\
  snd (spec_run2 hk0 None (bx_ops st_sync)) = bx_outs.
Proof.
  split; [|split; vm_compute; reflexivity].
  cbn [bx_ops wf_hist2]. repeat split; vm_compute;
    first [exact Logic.I | reflexivity | discriminate
          | (intros sp H; inversion H; subst; repeat constructor)
          | (intros H; discriminate) | repeat constructor ].
Qed.

Example bulk_history_async :
  wf_hist2 hk0 7%N init_state (bx_ops st_async_cache) /\
  run_out hk0 7%N init_state (bx_ops st_async_cache) = bx_outs.
Proof.
  split; [|vm_compute; reflexivity].
  cbn [bx_ops wf_hist2]. repeat split; vm_compute;
    first [exact Logic.I | reflexivity | discriminate
          | (intros sp H; inversion H; subst; repeat constructor)
          | (intros H; discriminate) | repeat constructor ].
Qed.
