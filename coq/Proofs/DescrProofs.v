(* Proofs/DescrProofs.v: field_desc.go. Tags are read as SETS of options; descriptor paths are
   pairwise distinct; the descriptors are exactly the exported leaves of the type tree;
   CompatibleWith accepts exactly equal tables, in any iteration order. *)
From Coq Require Import List NArith Bool Lia Permutation.
Import ListNotations.
From Sod.Model Require Import Descr.

Lemma str_eqb_eq a b : str_eqb a b = true <-> a = b.
Proof.
  revert b; induction a as [|x a IH]; intros [|y b]; cbn; split; intros H; try reflexivity; try discriminate.
  - apply andb_true_iff in H. destruct H as [H1 H2]. apply N.eqb_eq in H1. apply IH in H2. subst; reflexivity.
  - inversion H; subst. rewrite N.eqb_refl. cbn. apply IH. reflexivity.
Qed.
Lemma str_eqb_refl a : str_eqb a a = true. Proof. apply str_eqb_eq; reflexivity. Qed.
Lemma str_eqb_neq a b : str_eqb a b = false <-> a <> b.
Proof. split; intros H. - intros E. apply str_eqb_eq in E. congruence. - destruct (str_eqb a b) eqn:E; [apply str_eqb_eq in E; contradiction|reflexivity]. Qed.
Lemma str_eqb_sym a b : str_eqb a b = str_eqb b a.
Proof. destruct (str_eqb a b) eqn:E. - apply str_eqb_eq in E. subst. symmetry. apply str_eqb_refl. - symmetry. apply str_eqb_neq. apply str_eqb_neq in E. congruence. Qed.

(* ------------------------------------------------------------------ A. tags are sets of options *)
Local Arguments str_eqb : simpl never.
Definition has (o : str) (l : list str) : bool := existsb (str_eqb o) l.

Definition cons_spec (l : list str) : cons :=
  {| c_index := has s_index l || has s_unique l; c_unique := has s_unique l;
     c_upper := has s_upper l; c_lower := has s_lower l |}.

Definition cons_or (a b : cons) : cons :=
  {| c_index := c_index a || c_index b; c_unique := c_unique a || c_unique b;
     c_upper := c_upper a || c_upper b; c_lower := c_lower a || c_lower b |}.

Lemma apply_opt_or c o : apply_opt c o = cons_or c (cons_spec [o]).
Proof.
  unfold apply_opt, cons_spec, cons_or, has. cbn [existsb].
  rewrite (str_eqb_sym s_index o), (str_eqb_sym s_unique o), (str_eqb_sym s_upper o), (str_eqb_sym s_lower o).
  destruct c as [i u up lo]. cbn.
  destruct (str_eqb o s_index) eqn:E1.
  { apply str_eqb_eq in E1. subst o. vm_compute. destruct i, u, up, lo; reflexivity. }
  destruct (str_eqb o s_unique) eqn:E2.
  { apply str_eqb_eq in E2. subst o. vm_compute. destruct i, u, up, lo; reflexivity. }
  destruct (str_eqb o s_lower) eqn:E3.
  { apply str_eqb_eq in E3. subst o. vm_compute. destruct i, u, up, lo; reflexivity. }
  destruct (str_eqb o s_upper) eqn:E4.
  { apply str_eqb_eq in E4. subst o. vm_compute. destruct i, u, up, lo; reflexivity. }
  cbn. destruct i, u, up, lo; reflexivity.
Qed.

Lemma fold_apply_opt l : forall c, fold_left apply_opt l c = cons_or c (cons_spec l).
Proof.
  induction l as [|o l IH]; intros c.
  - destruct c as [i u up lo]. unfold cons_or, cons_spec, has. cbn. rewrite !orb_false_r. reflexivity.
  - cbn [fold_left]. rewrite IH, apply_opt_or. destruct c as [i u up lo]. unfold cons_or, cons_spec, has. cbn.
    f_equal; rewrite ?orb_false_r;
    repeat match goal with |- context [str_eqb ?a ?b] => destruct (str_eqb a b) end;
    repeat match goal with |- context [existsb ?f ?l] => destruct (existsb f l) end;
    destruct i, u, up, lo; reflexivity.
Qed.

(* THE TAG IS READ AS A SET: an option is on exactly when it is listed, anywhere, any number of times;
   unique implies index *)
Theorem cons_of_opts_spec l : cons_of_opts l = cons_spec l.
Proof. unfold cons_of_opts. rewrite fold_apply_opt. unfold cons_or, c0, cons_spec. cbn. reflexivity. Qed.

Lemma has_In o l : has o l = true <-> In o l.
Proof.
  unfold has. rewrite existsb_exists. split.
  - intros [x [Hx E]]. apply str_eqb_eq in E. subst. exact Hx.
  - intros H. exists o. split; [exact H|apply str_eqb_refl].
Qed.

Lemma has_ext l l' : (forall o, In o l <-> In o l') -> forall o, has o l = has o l'.
Proof.
  intros H o. destruct (has o l) eqn:E1, (has o l') eqn:E2; try reflexivity.
  - apply has_In in E1. apply H in E1. apply has_In in E1. congruence.
  - apply has_In in E2. apply H in E2. apply has_In in E2. congruence.
Qed.

Theorem tag_options_are_a_set l l' : (forall o, In o l <-> In o l') -> cons_of_opts l = cons_of_opts l'.
Proof. intros H. rewrite !cons_of_opts_spec. unfold cons_spec. rewrite !(has_ext l l' H). reflexivity. Qed.

Corollary tag_option_order_irrelevant l l' : Permutation l l' -> cons_of_opts l = cons_of_opts l'.
Proof.
  intros H. apply tag_options_are_a_set. intros o. split; intros Hi.
  - eapply Permutation_in; eauto. - eapply Permutation_in; [apply Permutation_sym|]; eauto.
Qed.

Corollary unique_implies_index l : c_unique (cons_of_opts l) = true -> c_index (cons_of_opts l) = true.
Proof. rewrite cons_of_opts_spec. cbn. intros ->. apply orb_true_r. Qed.

(* an earlier option is never undone by a later one *)
Corollary tag_options_monotone l o :
  cons_of_opts (l ++ [o]) = cons_or (cons_of_opts l) (cons_of_opts [o]).
Proof.
  rewrite !cons_of_opts_spec. unfold cons_spec, cons_or, has. rewrite !existsb_app. cbn. rewrite !orb_false_r.
  f_equal. repeat match goal with |- context [existsb ?f ?l] => destruct (existsb f l) end;
    repeat match goal with |- context [str_eqb ?a ?b] => destruct (str_eqb a b) end; reflexivity.
Qed.

(* ------------------------------------------------------------------ B. the shape of rec_fds *)
Definition field_fds (path : str) (f : fld) : list fd :=
  let '(name, exported, tag, ft) := f in
  if negb exported then [] else
  match ft with
  | TPtr _ _ => rec_fds ft (join_path path name)
  | TStruct tn false _ => rec_fds ft (join_path path name)
  | TStruct tn true _ => [fd_from_type (join_path path name) tag tn]
  | TLeaf tn => [fd_from_type (join_path path name) tag tn]
  end.

Lemma rec_fds_struct n b fs path : rec_fds (TStruct n b fs) path = flat_map (field_fds path) fs.
Proof.
  induction fs as [|[[[name ex] tag] ft] r IH]; [reflexivity|].
  cbn [flat_map field_fds]. rewrite <- IH. cbn. destruct ex; cbn; [|reflexivity].
  destruct ft as [tn|tn e|tn [|] fs']; reflexivity.
Qed.

Lemma rec_fds_ptr tn e path :
  rec_fds (TPtr tn e) path = match e with TStruct _ _ _ => rec_fds e path | _ => [fd_from_type path [] tn] end.
Proof. destruct e; reflexivity. Qed.

(* induction over type trees *)
Section GtyInd.
  Variable P : gty -> Prop.
  Hypothesis HL : forall n, P (TLeaf n).
  Hypothesis HP : forall n e, P e -> P (TPtr n e).
  Hypothesis HS : forall n b fs, Forall (fun f : fld => P (snd f)) fs -> P (TStruct n b fs).
  Fixpoint gty_ind' (t : gty) : P t :=
    match t with
    | TLeaf n => HL n
    | TPtr n e => HP n e (gty_ind' e)
    | TStruct n b fs =>
        HS n b fs ((fix go (l : list fld) : Forall (fun f : fld => P (snd f)) l :=
                      match l with
                      | [] => Forall_nil _
                      | f :: r => Forall_cons f (gty_ind' (snd f)) (go r)
                      end) fs)
    end.
End GtyInd.

(* a tagged scalar field of a struct is described with the constraints of ITS tag, under the joined path *)
Theorem tagged_field_described n b fs path name tag tn :
  In (name, true, tag, TLeaf tn) fs ->
  In {| fd_path := join_path path name; fd_type := tn; fd_cons := cons_of_tag tag |} (rec_fds (TStruct n b fs) path).
Proof.
  intros H. rewrite rec_fds_struct. apply in_flat_map. exists (name, true, tag, TLeaf tn). split; [exact H|].
  cbn. left. reflexivity.
Qed.

(* ... and so is a time.Time field *)
Theorem time_field_described n b fs path name tag tn fs' :
  In (name, true, tag, TStruct tn true fs') fs ->
  In {| fd_path := join_path path name; fd_type := tn; fd_cons := cons_of_tag tag |} (rec_fds (TStruct n b fs) path).
Proof.
  intros H. rewrite rec_fds_struct. apply in_flat_map. eexists. split; [exact H|]. cbn. left. reflexivity.
Qed.

(* descriptors of a nested struct (by value or behind ONE pointer) are descriptors of the outer struct,
   under the extended path: any depth by iteration *)
Theorem nested_struct_described n b fs path name tag tn' fs' d :
  In (name, true, tag, TStruct tn' false fs') fs ->
  In d (rec_fds (TStruct tn' false fs') (join_path path name)) -> In d (rec_fds (TStruct n b fs) path).
Proof.
  intros H Hd. rewrite rec_fds_struct. apply in_flat_map. eexists. split; [exact H|]. cbn [field_fds negb]. exact Hd.
Qed.

Theorem pointed_struct_described n b fs path name tag pn tn' b' fs' d :
  In (name, true, tag, TPtr pn (TStruct tn' b' fs')) fs ->
  In d (rec_fds (TStruct tn' b' fs') (join_path path name)) -> In d (rec_fds (TStruct n b fs) path).
Proof.
  intros H Hd. rewrite rec_fds_struct. apply in_flat_map. eexists. split; [exact H|]. cbn [field_fds negb].
  rewrite rec_fds_ptr. exact Hd.
Qed.

(* unexported fields are never described *)
Theorem unexported_not_described n b name tag ft path :
  rec_fds (TStruct n b [(name, false, tag, ft)]) path = [].
Proof. reflexivity. Qed.

(* ------------------------------------------------------------------ C. paths are pairwise distinct *)
Definition good_name (s : str) : Prop := s <> [] /\ ~ In dot s.

Inductive wf_ty : gty -> Prop :=
| wf_leaf n : wf_ty (TLeaf n)
| wf_ptr n e : wf_ty e -> wf_ty (TPtr n e)
| wf_struct n b fs :
    NoDup (map (fun f : fld => fst (fst (fst f))) fs) ->
    (forall f, In f fs -> good_name (fst (fst (fst f))) /\ wf_ty (snd f)) ->
    wf_ty (TStruct n b fs).

(* q extends b: q is b, or b followed by a dot and more *)
Definition ext (b q : str) : Prop := exists s, q = b ++ s /\ (s = [] \/ exists r, s = dot :: r).

Lemma ext_refl b : ext b b. Proof. exists []. rewrite app_nil_r. split; [reflexivity|left; reflexivity]. Qed.

Lemma join_path_app path name : exists pf, join_path path name = pf ++ name /\ (forall n', join_path path n' = pf ++ n') /\
  (path <> [] -> pf = path ++ [dot]).
Proof.
  destruct path as [|c r].
  - exists []. split; [reflexivity|]. split; [reflexivity|]. congruence.
  - exists ((c :: r) ++ [dot]). split; [|split]; intros; cbn [join_path]; rewrite <- ?app_assoc; reflexivity.
Qed.

Lemma join_path_nonempty path name : name <> [] -> join_path path name <> [].
Proof. destruct path; cbn; [tauto|discriminate]. Qed.

Lemma ext_join b name q : b <> [] -> ext (join_path b name) q -> ext b q.
Proof.
  intros Hb [s [E _]]. destruct b as [|c r]; [congruence|]. cbn [join_path] in E.
  exists (dot :: name ++ s). split; [rewrite E, <- app_assoc; reflexivity|]. right. eexists; reflexivity.
Qed.

Lemma rec_fds_ext : forall t b d, b <> [] -> In d (rec_fds t b) -> ext b (fd_path d).
Proof.
  induction t as [tn|tn e IH|tn tb fs IH] using gty_ind'; intros b d Hb Hd.
  - cbn in Hd. destruct Hd as [<-|[]]. apply ext_refl.
  - rewrite rec_fds_ptr in Hd. destruct e; try (destruct Hd as [<-|[]]; apply ext_refl). apply IH; assumption.
  - rewrite rec_fds_struct in Hd. apply in_flat_map in Hd. destruct Hd as [[[[name ex] tag] ft] [Hf Hd]].
    rewrite Forall_forall in IH. pose proof (IH _ Hf) as IH'. cbn [snd] in IH'. clear IH. rename IH' into IH.
    cbn [field_fds] in Hd. destruct ex; cbn [negb] in Hd; [|destruct Hd].
    assert (J : join_path b name <> []) by (destruct b; [congruence|discriminate]).
    destruct ft as [ln|pn pe|sn [|] sfs].
    + destruct Hd as [<-|[]]. cbn [fd_path fd_from_type]. apply (ext_join b name); [exact Hb|apply ext_refl].
    + apply (ext_join b name); [exact Hb|]. apply IH; assumption.
    + destruct Hd as [<-|[]]. cbn [fd_path fd_from_type]. apply (ext_join b name); [exact Hb|apply ext_refl].
    + apply (ext_join b name); [exact Hb|]. apply IH; assumption.
Qed.

(* every descriptor coming from the field [name] of a struct at [path] extends join_path path name *)
Lemma field_fds_ext path name ex tag ft d : name <> [] ->
  In d (field_fds path (name, ex, tag, ft)) -> ext (join_path path name) (fd_path d).
Proof.
  intros Hn Hd. cbn [field_fds] in Hd. destruct ex; cbn [negb] in Hd; [|destruct Hd].
  pose proof (join_path_nonempty path name Hn) as J.
  destruct ft as [ln|pn pe|sn [|] sfs].
  - destruct Hd as [<-|[]]. apply ext_refl.
  - apply (rec_fds_ext _ _ _ J Hd).
  - destruct Hd as [<-|[]]. apply ext_refl.
  - apply (rec_fds_ext _ _ _ J Hd).
Qed.

Lemma dotfree_prefix_unique : forall n1 n2 s1 s2,
  ~ In dot n1 -> ~ In dot n2 ->
  (s1 = [] \/ exists r, s1 = dot :: r) -> (s2 = [] \/ exists r, s2 = dot :: r) ->
  n1 ++ s1 = n2 ++ s2 -> n1 = n2.
Proof.
  induction n1 as [|c n1 IH]; intros [|c2 n2] s1 s2 H1 H2 S1 S2 E.
  - reflexivity.
  - cbn in E. destruct S1 as [->|[r ->]]; [discriminate|]. inversion E; subst. exfalso. apply H2. left; reflexivity.
  - cbn in E. destruct S2 as [->|[r ->]]; [discriminate|]. inversion E; subst. exfalso. apply H1. left; reflexivity.
  - cbn in E. inversion E; subst. f_equal. apply (IH n2 s1 s2); auto.
    + intros Hi. apply H1. right; exact Hi. + intros Hi. apply H2. right; exact Hi.
Qed.

Lemma NoDup_app {A} (l1 l2 : list A) : NoDup l1 -> NoDup l2 -> (forall x, In x l1 -> In x l2 -> False) -> NoDup (l1 ++ l2).
Proof.
  induction l1 as [|a l1 IH]; intros H1 H2 Hd; [exact H2|]. cbn. inversion H1; subst. constructor.
  - intros Hi. apply in_app_or in Hi. destruct Hi as [Hi|Hi]; [contradiction|]. apply (Hd a); [left; reflexivity|exact Hi].
  - apply IH; auto. intros x I1 I2. apply (Hd x); [right; exact I1|exact I2].
Qed.

Theorem paths_distinct : forall t path, wf_ty t -> NoDup (map fd_path (rec_fds t path)).
Proof.
  induction t as [tn|tn e IH|tn tb fs IH] using gty_ind'; intros path W.
  - cbn. constructor; [intros []|constructor].
  - rewrite rec_fds_ptr. inversion W; subst. destruct e; try (cbn; constructor; [intros []|constructor]). apply IH; assumption.
  - rewrite rec_fds_struct. inversion W as [| |? ? ? Hnd Hall]; subst. clear W.
    rewrite Forall_forall in IH.
    induction fs as [|f r IHr]; [constructor|].
    cbn [flat_map]. rewrite map_app. cbn [map] in Hnd. inversion Hnd as [|? ? Hnot Hnd']; subst.
    apply NoDup_app.
    + (* one field *)
      destruct f as [[[name ex] tag] ft]. cbn [field_fds]. destruct ex; cbn [negb]; [|constructor].
      destruct (Hall _ (or_introl eq_refl)) as [_ Wf]. cbn [snd] in Wf.
      pose proof (IH _ (or_introl eq_refl)) as IH'. cbn [snd] in IH'.
      destruct ft as [ln|pn pe|sn [|] sfs]; try (cbn; constructor; [intros []|constructor]); apply IH'; exact Wf.
    + apply IHr; [intros f' Hf'; apply IH; right; exact Hf'|exact Hnd'|intros f' Hf'; apply Hall; right; exact Hf'].
    + (* different fields never give the same path *)
      intros q I1 I2. apply in_map_iff in I1. destruct I1 as [d1 [E1 I1]]. apply in_map_iff in I2. destruct I2 as [d2 [E2 I2]].
      apply in_flat_map in I2. destruct I2 as [f2 [Hf2 I2]].
      destruct f as [[[n1 ex1] tag1] ft1]. destruct f2 as [[[n2 ex2] tag2] ft2].
      destruct (Hall _ (or_introl eq_refl)) as [[G1 D1] _]. destruct (Hall _ (or_intror Hf2)) as [[G2 D2] _].
      cbn [fst] in G1, D1, G2, D2.
      apply field_fds_ext in I1; [|exact G1]. apply field_fds_ext in I2; [|exact G2].
      destruct (join_path_app path n1) as [pf [J1 [J _]]]. rewrite J1 in I1. rewrite (J n2) in I2.
      destruct I1 as [s1 [Q1 S1]]. destruct I2 as [s2 [Q2 S2]].
      rewrite E1 in Q1. rewrite E2 in Q2. rewrite Q1 in Q2. rewrite <- !app_assoc in Q2. apply app_inv_head in Q2.
      apply dotfree_prefix_unique in Q2; try assumption. subst n2.
      apply Hnot. cbn [fst]. apply in_map_iff. exists (n1, ex2, tag2, ft2). split; [reflexivity|exact Hf2].
Qed.
Print Assumptions paths_distinct.

(* ------------------------------------------------------------------ D. the descriptor table *)
Definition keyed (m : fdmap) : Prop := forall p d, In (p, d) m -> fd_path d = p.

Lemma fm_get_put p v q m : fm_get q (fm_put p v m) = if str_eqb q p then Some v else fm_get q m.
Proof.
  induction m as [|[k w] r IH]; cbn.
  - reflexivity.
  - destruct (str_eqb p k) eqn:E; cbn.
    + apply str_eqb_eq in E. subst k. destruct (str_eqb q p); reflexivity.
    + rewrite IH. destruct (str_eqb q k) eqn:E2; [|reflexivity].
      apply str_eqb_eq in E2. subst k. rewrite str_eqb_sym, E. reflexivity.
Qed.

Lemma fm_put_keys p v m : NoDup (map fst m) -> NoDup (map fst (fm_put p v m)) /\
  (forall k, In k (map fst (fm_put p v m)) <-> k = p \/ In k (map fst m)).
Proof.
  induction m as [|[k w] r IH]; intros Hn.
  - cbn. split; [constructor; [intros []|constructor]|]. intros k; split; [intros [<-|[]]; left; reflexivity|intros [->|[]]; left; reflexivity].
  - cbn [fm_put]. inversion Hn as [|? ? Hk Hr]; subst. destruct (str_eqb p k) eqn:E.
    + apply str_eqb_eq in E. subst k. cbn. split; [exact Hn|]. intros k; split; [intros [<-|H]; [left; reflexivity|right; right; exact H]|intros [->|[<-|H]]; [left; reflexivity|left; reflexivity|right; exact H]].
    + destruct (IH Hr) as [N K]. cbn. split.
      * constructor; [|exact N]. intros Hi. apply K in Hi. destruct Hi as [->|Hi]; [rewrite str_eqb_refl in E; discriminate|contradiction].
      * intros x; split.
        -- intros [<-|H]; [right; left; reflexivity|]. apply K in H. destruct H as [->|H]; [left; reflexivity|right; right; exact H].
        -- intros [->|[<-|H]]; [right; apply K; left; reflexivity|left; reflexivity|right; apply K; right; exact H].
Qed.

Lemma fm_get_In p d m : fm_get p m = Some d -> In d (map snd m).
Proof.
  induction m as [|[k w] r IH]; cbn; [discriminate|]. destruct (str_eqb p k); [intros E; inversion E; left; reflexivity|intros H; right; apply IH; exact H].
Qed.

Lemma fm_get_In_pair p d m : fm_get p m = Some d -> In (p, d) m.
Proof.
  induction m as [|[k w] r IH]; cbn; [discriminate|]. destruct (str_eqb p k) eqn:E.
  - apply str_eqb_eq in E. subst k. intros H; inversion H; left; reflexivity.
  - intros H; right; apply IH; exact H.
Qed.

Lemma In_fm_get p d m : NoDup (map fst m) -> In (p, d) m -> fm_get p m = Some d.
Proof.
  induction m as [|[k w] r IH]; intros Hn Hi; [destruct Hi|]. cbn. inversion Hn as [|? ? Hk Hr]; subst.
  destruct Hi as [Hi|Hi].
  - inversion Hi; subst. rewrite str_eqb_refl. reflexivity.
  - destruct (str_eqb p k) eqn:E; [|apply IH; assumption]. apply str_eqb_eq in E. subst k.
    exfalso. apply Hk. apply in_map_iff. exists (p, d). split; [reflexivity|exact Hi].
Qed.

Definition pour (l : list fd) (m : fdmap) : fdmap := fold_left (fun m d => fm_put (fd_path d) d m) l m.

Lemma pour_get : forall l m q,
  fm_get q (pour l m) =
  match find (fun d => str_eqb q (fd_path d)) (rev l) with Some d => Some d | None => fm_get q m end.
Proof.
  induction l as [|d l IH]; intros m q; [reflexivity|].
  cbn [pour fold_left]. fold (pour l (fm_put (fd_path d) d m)). rewrite IH. cbn [rev].
  rewrite fm_get_put.
  assert (F : forall (l1 : list fd) x, find (fun d0 => str_eqb q (fd_path d0)) (l1 ++ [x]) =
            match find (fun d0 => str_eqb q (fd_path d0)) l1 with Some y => Some y | None => if str_eqb q (fd_path x) then Some x else None end).
  { induction l1 as [|y l1 IH1]; intros x; cbn; [destruct (str_eqb q (fd_path x)); reflexivity|].
    destruct (str_eqb q (fd_path y)); [reflexivity|apply IH1]. }
  rewrite F. destruct (find _ (rev l)); [reflexivity|]. destruct (str_eqb q (fd_path d)); reflexivity.
Qed.

Lemma pour_keys : forall l m, NoDup (map fst m) -> keyed m -> NoDup (map fst (pour l m)) /\ keyed (pour l m).
Proof.
  induction l as [|d l IH]; intros m Hn Hk; [split; assumption|].
  cbn [pour fold_left]. apply IH.
  - apply fm_put_keys; exact Hn.
  - intros p x Hi. apply In_fm_get in Hi; [|apply fm_put_keys; exact Hn]. rewrite fm_get_put in Hi.
    destruct (str_eqb p (fd_path d)) eqn:E.
    + apply str_eqb_eq in E. inversion Hi; subst. reflexivity.
    + apply fm_get_In_pair in Hi. apply Hk; exact Hi.
Qed.

(* NOTHING IS LOST when the slice of descriptors is poured into the map: every descriptor derived from
   a well-formed type is in the table under its own path, and the table holds nothing else *)
Theorem table_is_the_descriptors t : wf_ty t ->
  (forall d, In d (rec_fds t []) -> fm_get (fd_path d) (field_descriptors t) = Some d) /\
  (forall p d, fm_get p (field_descriptors t) = Some d -> In d (rec_fds t []) /\ fd_path d = p) /\
  NoDup (map fst (field_descriptors t)) /\ keyed (field_descriptors t).
Proof.
  intros W. pose proof (paths_distinct t [] W) as Hn. unfold field_descriptors. fold (pour (rec_fds t []) []).
  set (l := rec_fds t []) in *.
  assert (Fd : forall q d, find (fun d0 => str_eqb q (fd_path d0)) (rev l) = Some d -> In d l /\ fd_path d = q).
  { intros q d H. apply find_some in H. destruct H as [H1 H2]. apply in_rev in H1. apply str_eqb_eq in H2. split; [exact H1|congruence]. }
  split; [|split].
  - intros d Hd. rewrite pour_get. destruct (find _ (rev l)) as [d'|] eqn:E.
    + destruct (Fd _ _ E) as [I' P']. f_equal.
      (* two descriptors of l with the same path are the same *)
      clear -Hn Hd I' P'. induction l as [|x l IH]; [destruct Hd|]. cbn in Hn. inversion Hn as [|? ? Hx Hl]; subst.
      destruct Hd as [->|Hd], I' as [->|I'].
      * reflexivity.
      * exfalso. apply Hx. rewrite <- P'. apply in_map. exact I'.
      * exfalso. apply Hx. rewrite P'. apply in_map. exact Hd.
      * apply IH; assumption.
    + exfalso. pose proof (find_none _ _ E d (proj1 (in_rev _ _) Hd)) as F. cbn beta in F. rewrite str_eqb_refl in F. discriminate.
  - intros p d H. rewrite pour_get in H. destruct (find _ (rev l)) as [d'|] eqn:E; [|discriminate].
    inversion H; subst. apply (Fd _ _ E).
  - apply pour_keys; [constructor|intros p d []].
Qed.

(* ------------------------------------------------------------------ E. CompatibleWith *)
Lemma compat_half_none eqb m t :
  compat_half eqb m t = None <-> (forall p d, In (p, d) m -> exists o, fm_get p t = Some o /\ eqb d o = true).
Proof.
  induction m as [|[p d] r IH]; cbn [compat_half].
  - split; [intros _ p d []|reflexivity].
  - destruct (fm_get p t) as [o|] eqn:G.
    + destruct (eqb d o) eqn:E.
      * rewrite IH. split.
        -- intros H q x [Hi|Hi]; [inversion Hi; subst; exists o; split; assumption|apply H; exact Hi].
        -- intros H q x Hi. apply H. right; exact Hi.
      * split; [discriminate|]. intros H. destruct (H p d (or_introl eq_refl)) as [o' [G' E']]. congruence.
    + split; [discriminate|]. intros H. destruct (H p d (or_introl eq_refl)) as [o' [G' _]]. congruence.
Qed.

Lemma fd_deep_eqb_eq a b : fd_deep_eqb a b = true <-> a = b.
Proof.
  unfold fd_deep_eqb, cons_eqb. destruct a as [p1 t1 [i1 u1 a1 l1]], b as [p2 t2 [i2 u2 a2 l2]]. cbn.
  rewrite !andb_true_iff, !str_eqb_eq, !eqb_true_iff. split.
  - intros [[-> ->] [[[-> ->] ->] ->]]. reflexivity.
  - intros H. inversion H; subst. tauto.
Qed.

(* CompatibleWith ACCEPTS EXACTLY EQUAL TABLES (Go maps: no duplicate key, each entry under its own path) *)
Theorem compatible_iff_equal m t :
  NoDup (map fst m) -> NoDup (map fst t) ->
  (compatible_with m t = None <-> forall p, fm_get p m = fm_get p t).
Proof.
  intros Nm Nt. unfold compatible_with, compat_gen. split.
  - intros H. destruct (compat_half fd_deep_eqb m t) eqn:E1; [discriminate|].
    rewrite compat_half_none in E1, H. intros p.
    destruct (fm_get p m) as [d|] eqn:G1.
    + apply fm_get_In_pair in G1. destruct (E1 _ _ G1) as [o [G E]]. apply fd_deep_eqb_eq in E. subst. symmetry; exact G.
    + destruct (fm_get p t) as [o|] eqn:G2; [|reflexivity].
      apply fm_get_In_pair in G2. destruct (H _ _ G2) as [d [G E]]. congruence.
  - intros H. assert (E1 : compat_half fd_deep_eqb m t = None).
    { apply compat_half_none. intros p d Hi. exists d. split; [rewrite <- H; apply In_fm_get; assumption|apply fd_deep_eqb_eq; reflexivity]. }
    rewrite E1. apply compat_half_none. intros p d Hi. exists d. split; [rewrite H; apply In_fm_get; assumption|apply fd_deep_eqb_eq; reflexivity].
Qed.

(* the verdict does not depend on the iteration order of either Go map *)
Corollary compat_order_irrelevant m m' t t' :
  NoDup (map fst m) -> NoDup (map fst t) -> Permutation m m' -> Permutation t t' ->
  (compatible_with m t = None <-> compatible_with m' t' = None).
Proof.
  intros Nm Nt Pm Pt.
  assert (Nm' : NoDup (map fst m')) by (eapply Permutation_NoDup; [apply Permutation_map; exact Pm|exact Nm]).
  assert (Nt' : NoDup (map fst t')) by (eapply Permutation_NoDup; [apply Permutation_map; exact Pt|exact Nt]).
  assert (G : forall a a' : fdmap, NoDup (map fst a) -> NoDup (map fst a') -> Permutation a a' -> forall p, fm_get p a = fm_get p a').
  { intros a a' Na Na' P p. destruct (fm_get p a) as [d|] eqn:E.
    - symmetry. apply In_fm_get; [exact Na'|]. eapply Permutation_in; [exact P|]. apply fm_get_In_pair; exact E.
    - destruct (fm_get p a') as [d|] eqn:E'; [|reflexivity]. apply fm_get_In_pair in E'.
      apply Permutation_sym in P. apply (Permutation_in _ P) in E'. apply In_fm_get in E'; [congruence|exact Na]. }
  rewrite (compatible_iff_equal m t Nm Nt), (compatible_iff_equal m' t' Nm' Nt').
  split; intros H p.
  - rewrite <- (G m m' Nm Nm' Pm), <- (G t t' Nt Nt' Pt). apply H.
  - rewrite (G m m' Nm Nm' Pm), (G t t' Nt Nt' Pt). apply H.
Qed.

(* a difference is always reported, with one of the two documented errors: a path missing on one side
   is "unknown field" or (when another path differs too) "descriptor changed" *)
Theorem incompatible_classified m t e : compatible_with m t = Some e -> e = EUnknownField \/ e = EFieldDescModif.
Proof. destruct e; auto. Qed.

(* FieldsCompatibleWith (paths and types only): accepts exactly the tables with the same paths and types *)
Definition pt (d : fd) : str * str := (fd_path d, fd_type d).

Lemma fd_field_eqb_eq a b : fd_field_eqb a b = true <-> pt a = pt b.
Proof.
  unfold fd_field_eqb, pt. rewrite andb_true_iff, !str_eqb_eq. split; [intros [-> ->]; reflexivity|intros H; inversion H; auto].
Qed.

Theorem fields_compatible_iff m t :
  NoDup (map fst m) -> NoDup (map fst t) ->
  (fields_compatible_with m t = None <-> forall p, option_map pt (fm_get p m) = option_map pt (fm_get p t)).
Proof.
  intros Nm Nt. unfold fields_compatible_with, compat_gen. split.
  - intros H. destruct (compat_half fd_field_eqb m t) eqn:E1; [discriminate|].
    rewrite compat_half_none in E1, H. intros p.
    destruct (fm_get p m) as [d|] eqn:G1.
    + apply fm_get_In_pair in G1. destruct (E1 _ _ G1) as [o [G E]]. apply fd_field_eqb_eq in E. rewrite G. cbn. f_equal. exact E.
    + destruct (fm_get p t) as [o|] eqn:G2; [|reflexivity].
      apply fm_get_In_pair in G2. destruct (H _ _ G2) as [d [G E]]. congruence.
  - intros H. assert (E1 : compat_half fd_field_eqb m t = None).
    { apply compat_half_none. intros p d Hi. apply In_fm_get in Hi; [|exact Nm]. specialize (H p). rewrite Hi in H.
      destruct (fm_get p t) as [o|]; [|discriminate]. exists o. split; [reflexivity|]. apply fd_field_eqb_eq. cbn in H. inversion H as [H']. unfold pt. congruence. }
    rewrite E1. apply compat_half_none. intros p d Hi. apply In_fm_get in Hi; [|exact Nt]. specialize (H p). rewrite Hi in H.
    destruct (fm_get p m) as [o|]; [|discriminate]. exists o. split; [reflexivity|]. apply fd_field_eqb_eq. cbn in H. inversion H as [H']. unfold pt. congruence.
Qed.

(* constraints alone never make a STRUCTURE change: a table differing only in constraints passes the
   structure check and fails the full check *)
Corollary constraint_change_is_not_structure_change m t :
  NoDup (map fst m) -> NoDup (map fst t) ->
  compatible_with m t = None -> fields_compatible_with m t = None.
Proof.
  intros Nm Nt H. apply fields_compatible_iff; [assumption|assumption|]. intros p.
  rewrite (proj1 (compatible_iff_equal m t Nm Nt) H p). reflexivity.
Qed.

(* schema compatibility: same extension and equal tables *)
Theorem schema_compatible_iff e1 e2 f1 f2 : NoDup (map fst f1) -> NoDup (map fst f2) ->
  (schema_compatible e1 e2 f1 f2 = None <-> e1 = e2 /\ forall p, fm_get p f1 = fm_get p f2).
Proof.
  intros N1 N2. unfold schema_compatible. destruct (str_eqb e1 e2) eqn:E; cbn [negb].
  - apply str_eqb_eq in E. destruct (compatible_with f1 f2) eqn:C.
    + split; [discriminate|]. intros [_ H]. apply (compatible_iff_equal f1 f2 N1 N2) in H. congruence.
    + split; [|reflexivity]. intros _. split; [exact E|]. apply (compatible_iff_equal f1 f2 N1 N2). exact C.
  - split; [discriminate|]. intros [H _]. apply str_eqb_neq in E. contradiction.
Qed.
Print Assumptions table_is_the_descriptors.
Print Assumptions compat_order_irrelevant.
Print Assumptions schema_compatible_iff.
Print Assumptions fields_compatible_iff.

(* ------------------------------------------------------------------ F. the path of a descriptor leads
   back to the field it was derived from (Constraints.recursiveTransform) *)
Definition vname (v : gval) : str :=
  match v with VLeaf n _ => n | VNil n => n | VPtr n _ => n | VStruct n _ => n end.

Inductive has_ty : gval -> gty -> Prop :=
| ht_leaf n x : has_ty (VLeaf n x) (TLeaf n)
| ht_nil n e : has_ty (VNil n) (TPtr n e)
| ht_ptr n v e : has_ty v e -> has_ty (VPtr n v) (TPtr n e)
| ht_struct n b vfs tfs :
    Forall2 (fun (vf : str * gval) (tf : fld) => fst vf = fst (fst (fst tf)) /\ has_ty (snd vf) (snd tf)) vfs tfs ->
    has_ty (VStruct n vfs) (TStruct n b tfs).

Fixpoint joins (path : str) (names : list str) : str :=
  match names with [] => path | n :: r => joins (join_path path n) r end.

Definition struct_like (t : gty) : Prop :=
  match t with TStruct _ _ _ => True | TPtr _ (TStruct _ _ _) => True | _ => False end.

Lemma vfield_typed : forall vfs tfs name ex tag ft,
  Forall2 (fun (vf : str * gval) (tf : fld) => fst vf = fst (fst (fst tf)) /\ has_ty (snd vf) (snd tf)) vfs tfs ->
  NoDup (map (fun f : fld => fst (fst (fst f))) tfs) ->
  In (name, ex, tag, ft) tfs ->
  exists vx, vfield name vfs = Some vx /\ has_ty vx ft.
Proof.
  intros vfs tfs name ex tag ft F. induction F as [|[vn vv] tf vfs tfs [Hn Ht] F IH]; intros Nd Hi; [destruct Hi|].
  cbn [fst snd] in Hn, Ht. cbn [map] in Nd. inversion Nd as [|? ? Hx Nd']; subst.
  cbn [vfield]. destruct Hi as [->|Hi].
  - cbn [fst]. rewrite str_eqb_refl. exists vv. split; [reflexivity|exact Ht].
  - destruct (str_eqb name (fst (fst (fst tf)))) eqn:E.
    + apply str_eqb_eq in E. exfalso. apply Hx. apply in_map_iff. exists (name, ex, tag, ft). split; [cbn; congruence|exact Hi].
    + apply IH; assumption.
Qed.

Definition tyname (t : gty) : str := match t with TLeaf n => n | TPtr n _ => n | TStruct n _ _ => n end.

Lemma has_ty_name v t : has_ty v t -> vname v = tyname t.
Proof. intros H; inversion H; reflexivity. Qed.

(* where a list of field names leads in a TYPE (pointers are followed silently) *)
Inductive resolves : gty -> list str -> str -> Prop :=
| rs_ptr n e names ty : resolves e names ty -> resolves (TPtr n e) names ty
| rs_last n b fs name ex tag ft : In (name, ex, tag, ft) fs -> resolves (TStruct n b fs) [name] (tyname ft)
| rs_step n b fs name ex tag ft rest ty :
    In (name, ex, tag, ft) fs -> rest <> [] -> resolves ft rest ty -> resolves (TStruct n b fs) (name :: rest) ty.

(* 1. every descriptor's path is the dotted list of field names that resolves, in the type, to a field
      of the descriptor's type *)
Theorem descriptor_path_resolves : forall t, wf_ty t -> struct_like t ->
  forall path d, In d (rec_fds t path) ->
  exists names, names <> [] /\ Forall good_name names /\ fd_path d = joins path names /\ resolves t names (fd_type d).
Proof.
  induction t as [tn|tn e IH|tn tb fs IH] using gty_ind'; intros W SL path d Hd; [destruct SL| |].
  - cbn in SL. destruct e as [|?|sn sb sfs]; try destruct SL. rewrite rec_fds_ptr in Hd. inversion W; subst.
    destruct (IH H0 I path d Hd) as [names [N1 [N2 [N3 N4]]]].
    exists names. repeat split; try assumption. constructor. exact N4.
  - rewrite rec_fds_struct in Hd. apply in_flat_map in Hd. destruct Hd as [[[[name ex] tag] ft] [Hf Hd]].
    rewrite Forall_forall in IH. pose proof (IH _ Hf) as IHf. cbn [snd] in IHf. clear IH.
    inversion W as [| |? ? ? Hnd Hall]; subst. destruct (Hall _ Hf) as [G Wf]. cbn [fst snd] in G, Wf.
    cbn [field_fds] in Hd. destruct ex; cbn [negb] in Hd; [|destruct Hd].
    destruct ft as [ln|pn pe|sn [|] sfs].
    + destruct Hd as [<-|[]]. exists [name]. split; [discriminate|]. split; [constructor; [exact G|constructor]|]. split; [reflexivity|].
      apply (rs_last tn tb fs name true tag (TLeaf ln) Hf).
    + rewrite rec_fds_ptr in Hd. destruct pe as [|?|qn qb qfs].
      * destruct Hd as [<-|[]]. exists [name]. split; [discriminate|]. split; [constructor; [exact G|constructor]|]. split; [reflexivity|].
        apply (rs_last tn tb fs name true tag _ Hf).
      * destruct Hd as [<-|[]]. exists [name]. split; [discriminate|]. split; [constructor; [exact G|constructor]|]. split; [reflexivity|].
        apply (rs_last tn tb fs name true tag _ Hf).
      * destruct (IHf Wf I (join_path path name) d) as [names [N1 [N2 [N3 N4]]]]; [rewrite rec_fds_ptr; exact Hd|].
        exists (name :: names). split; [discriminate|]. split; [constructor; assumption|]. split; [exact N3|].
        eapply rs_step; eassumption.
    + destruct Hd as [<-|[]]. exists [name]. split; [discriminate|]. split; [constructor; [exact G|constructor]|]. split; [reflexivity|].
      apply (rs_last tn tb fs name true tag _ Hf).
    + destruct (IHf Wf I (join_path path name) d Hd) as [names [N1 [N2 [N3 N4]]]].
      exists (name :: names). split; [discriminate|]. split; [constructor; assumption|]. split; [exact N3|].
      eapply rs_step; eassumption.
Qed.

(* 2. on any VALUE of the type, the walk of recursiveTransform along those names ends on a field of that
      type, or stops silently (nil pointer on the way): it never lands on another field *)
Theorem walk_follows_type : forall t names ty, resolves t names ty -> wf_ty t ->
  forall v fuel x, has_ty v t -> reach fuel names v = Some x -> vname x = ty.
Proof.
  induction 1 as [n e names ty R IH|n b fs name ex tag ft Hf|n b fs name ex tag ft rest ty Hf Hr R IH]; intros W v fuel x HT Rx.
  - inversion W; subst. inversion HT; subst; destruct fuel as [|k]; cbn [reach] in Rx; try discriminate.
    apply (IH H0 v0 k x H2 Rx).
  - inversion W as [| |? ? ? Hnd Hall]; subst. inversion HT as [| | |? ? vfs ? F]; subst.
    destruct fuel as [|k]; cbn [reach] in Rx; [discriminate|].
    destruct (vfield_typed vfs fs name ex tag ft F Hnd Hf) as [vx [E Hx]]. rewrite E in Rx. inversion Rx; subst.
    apply has_ty_name. exact Hx.
  - inversion W as [| |? ? ? Hnd Hall]; subst. inversion HT as [| | |? ? vfs ? F]; subst.
    destruct fuel as [|k]; cbn [reach] in Rx; [discriminate|].
    destruct (vfield_typed vfs fs name ex tag ft F Hnd Hf) as [vx [E Hx]]. rewrite E in Rx.
    destruct rest as [|r1 rr]; [congruence|]. destruct (Hall _ Hf) as [_ Wf]. cbn [snd] in Wf.
    apply (IH Wf vx k x Hx Rx).
Qed.

(* 3. with no nil pointer on the way the walk does arrive *)
Fixpoint total (v : gval) : Prop :=
  match v with
  | VLeaf _ _ => True
  | VNil _ => False
  | VPtr _ e => total e
  | VStruct _ fs => (fix all (l : list (str * gval)) : Prop := match l with [] => True | (_, x) :: r => total x /\ all r end) fs
  end.

Lemma total_vfield name fs n vx : total (VStruct n fs) -> vfield name fs = Some vx -> total vx.
Proof.
  cbn [total]. induction fs as [|[k w] r IH]; cbn [vfield]; [discriminate|]. intros [T1 T2].
  destruct (str_eqb name k); [intros E; inversion E; subst; exact T1|apply IH; exact T2].
Qed.

Theorem walk_arrives : forall t names ty, resolves t names ty -> wf_ty t ->
  forall v, has_ty v t -> total v -> exists fuel x, reach fuel names v = Some x.
Proof.
  induction 1 as [n e names ty R IH|n b fs name ex tag ft Hf|n b fs name ex tag ft rest ty Hf Hr R IH]; intros W v HT TV.
  - inversion W; subst. inversion HT; subst; [destruct TV|]. cbn [total] in TV.
    destruct (IH H0 v0 H2 TV) as [k [x Rx]]. exists (S k), x. exact Rx.
  - inversion W as [| |? ? ? Hnd Hall]; subst. inversion HT as [| | |? ? vfs ? F]; subst.
    destruct (vfield_typed vfs fs name ex tag ft F Hnd Hf) as [vx [E Hx]]. exists 1%nat, vx. cbn [reach]. rewrite E. reflexivity.
  - inversion W as [| |? ? ? Hnd Hall]; subst. inversion HT as [| | |? ? vfs ? F]; subst.
    destruct (vfield_typed vfs fs name ex tag ft F Hnd Hf) as [vx [E Hx]]. destruct (Hall _ Hf) as [_ Wf]. cbn [snd] in Wf.
    destruct (IH Wf vx Hx (total_vfield _ _ _ _ TV E)) as [k [x Rx]]. exists (S k), x. cbn [reach]. rewrite E.
    destruct rest; [congruence|exact Rx].
Qed.

(* 4. the dotted path text splits back into those names (strings.Split(path, ".")) *)
Lemma split_dotfree n : ~ In dot n -> split_on dot n = [n].
Proof.
  induction n as [|c n IH]; intros H; [reflexivity|]. cbn [split_on].
  destruct (N.eqb c dot) eqn:E; [apply N.eqb_eq in E; exfalso; apply H; left; exact E|].
  rewrite IH; [reflexivity|]. intros Hi; apply H; right; exact Hi.
Qed.

Lemma split_app_dot n s : ~ In dot n -> split_on dot (n ++ dot :: s) = n :: split_on dot s.
Proof.
  induction n as [|c n IH]; intros H.
  - cbn [app split_on]. rewrite N.eqb_refl. reflexivity.
  - cbn [app split_on]. destruct (N.eqb c dot) eqn:E; [apply N.eqb_eq in E; exfalso; apply H; left; exact E|].
    rewrite IH; [reflexivity|]. intros Hi; apply H; right; exact Hi.
Qed.

Lemma joins_nonempty : forall names p, p <> [] -> joins p names = p ++ flat_map (fun n => dot :: n) names.
Proof.
  induction names as [|n r IH]; intros p Hp; cbn [joins flat_map]; [rewrite app_nil_r; reflexivity|].
  rewrite IH; [|destruct p; [congruence|discriminate]].
  destruct p as [|c p']; [congruence|]. cbn [join_path]. rewrite <- app_assoc. reflexivity.
Qed.

Lemma split_flat : forall names n, ~ In dot n -> Forall good_name names ->
  split_on dot (n ++ flat_map (fun x => dot :: x) names) = n :: names.
Proof.
  induction names as [|m r IH]; intros n Hn F.
  - cbn. rewrite app_nil_r. apply split_dotfree; exact Hn.
  - cbn [flat_map]. inversion F as [|? ? [_ Gm] Fr]; subst. rewrite <- app_comm_cons.
    rewrite split_app_dot; [|exact Hn]. f_equal. apply IH; assumption.
Qed.

Theorem path_text_splits_back names : names <> [] -> Forall good_name names ->
  split_on dot (joins [] names) = names.
Proof.
  destruct names as [|n r]; [congruence|]. intros _ F. inversion F as [|? ? [Gn Dn] Fr]; subst.
  cbn [joins join_path]. rewrite joins_nonempty; [|exact Gn]. apply split_flat; assumption.
Qed.

(* TOGETHER: the constraint of a descriptor is applied to a field of the descriptor's type reached through
   exactly the names of its path, or to nothing *)
Corollary transform_reaches_its_field t v d fuel x : wf_ty t -> struct_like t -> has_ty v t ->
  In d (rec_fds t []) -> reach fuel (split_on dot (fd_path d)) v = Some x -> vname x = fd_type d.
Proof.
  intros W SL HT Hd R. destruct (descriptor_path_resolves t W SL [] d Hd) as [names [N1 [N2 [N3 N4]]]].
  rewrite N3, (path_text_splits_back names N1 N2) in R. apply (walk_follows_type t names _ N4 W v fuel x HT R).
Qed.
Print Assumptions transform_reaches_its_field.
Print Assumptions walk_arrives.

(* ------------------------------------------------------------------ non-vacuity *)
Definition b (s : list N) := s.
Definition nA : str := [65]%N.   (* "A" *)
Definition nB : str := [66]%N.
Definition nIn : str := [73; 110]%N.  (* "In" *)
Definition nPt : str := [80; 116]%N.  (* "Pt" *)
Definition nu : str := [117]%N.       (* "u": unexported *)
Definition t_string : str := [115; 116; 114; 105; 110; 103]%N.
Definition tag_uu : str := s_upper ++ comma :: s_unique.        (* "upper,unique" *)
Definition tag_uu' : str := s_unique ++ comma :: s_upper.       (* "unique,upper" *)
Definition ex_deep : gty := TStruct [68]%N false [(nA, true, tag_uu, TLeaf t_string); (nu, false, [], TLeaf t_string)].
Definition ex_ty : gty :=
  TPtr [42; 80]%N (TStruct [80]%N false
    [(nA, true, tag_uu, TLeaf t_string); (nB, true, tag_uu', TLeaf t_string);
     (nIn, true, s_lower, ex_deep); (nPt, true, [], TPtr [42; 68]%N ex_deep)]).

Example ex_descriptors :
  map (fun d => (fd_path d, fd_cons d)) (rec_fds ex_ty []) =
  [(nA, {| c_index := true; c_unique := true; c_upper := true; c_lower := false |});
   (nB, {| c_index := true; c_unique := true; c_upper := true; c_lower := false |});
   (nIn ++ dot :: nA, {| c_index := true; c_unique := true; c_upper := true; c_lower := false |});
   (nPt ++ dot :: nA, {| c_index := true; c_unique := true; c_upper := true; c_lower := false |})].
Proof. vm_compute. reflexivity. Qed.

Example ex_wf : wf_ty ex_ty /\ struct_like ex_ty.
Proof.
  assert (G : forall n : str, n = nA \/ n = nB \/ n = nIn \/ n = nPt \/ n = nu -> good_name n).
  { intros n H. split.
    - destruct H as [-> | [-> | [-> | [-> | ->]]]]; discriminate.
    - intros Hi. destruct H as [-> | [-> | [-> | [-> | ->]]]]; vm_compute in Hi; repeat (destruct Hi as [Hi|Hi]; [discriminate Hi|]); exact Hi. }
  assert (Wd : wf_ty ex_deep).
  { constructor.
    - cbn. constructor; [intros [H|[]]; discriminate H|constructor; [intros []|constructor]].
    - intros f [<-|[<-|[]]]; cbn [fst snd]; (split; [apply G; tauto|constructor]). }
  split; [|exact I]. constructor. constructor.
  - cbn. repeat constructor; cbn; intros H; repeat (destruct H as [H|H]; [discriminate H|]); exact H.
  - intros f [<-|[<-|[<-|[<-|[]]]]]; cbn [fst snd]; (split; [apply G; tauto|]); first [exact Wd | apply wf_ptr; exact Wd | apply wf_leaf].
Qed.

(* a value with a nil pointer: the walk to Pt.A stops, the walk to In.A arrives on a string *)
Definition ex_val : gval :=
  VPtr [42; 80]%N (VStruct [80]%N
    [(nA, VLeaf t_string 1); (nB, VLeaf t_string 2);
     (nIn, VStruct [68]%N [(nA, VLeaf t_string 3); (nu, VLeaf t_string 4)]); (nPt, VNil [42; 68]%N)]).
Example ex_walks :
  reach 5 (split_on dot (nIn ++ dot :: nA)) ex_val = Some (VLeaf t_string 3) /\
  reach 5 (split_on dot (nPt ++ dot :: nA)) ex_val = None.
Proof. vm_compute. split; reflexivity. Qed.
