(* Proofs/SearchDB.v: C02 / C12 / C16 at the level of the handle: under the handle invariant a
   search on ANY field of the struct, indexed or not, with any operator, denotes all and only the
   stored objects whose field satisfies the comparison: the full-scan path and the indexed path
   are both characterised by the same predicate over the abstract collection, so an index
   changes order and speed only. *)
From Coq Require Import List ZArith NArith Bool Lia Arith Permutation.
Import ListNotations.
From Sod.Model Require Import Base FieldIndex ObjIndex DB.
From Sod.Proofs Require Import FIProofs1 FIProofs2 FIProofs3 FIProofs4 FIProofs5 KeyOrder SearchSpec
     OIProofs OIProofs2 DBBasic Refine1 Refine2.
Close Scope Z_scope.

Lemma nth_opt_error {A} : forall n (l : list A), nth_opt n l = nth_error l n.
Proof. induction n as [|n IH]; intros [|x r]; cbn; try reflexivity. apply IH. Qed.

(* what a search denotes: the objects of the collection whose key for field f satisfies the
   comparison with the (canonicalised) probe *)
Definition matches (f : nat) (o : sop) (rx : key -> bool) (probe : key) (ob : obj) : bool :=
  match nth_error (o_keys ob) f with
  | Some k => eval_op o rx k probe
  | None => false
  end.

(* every stored object has, for field f, a key of the probe's kind (static typing of the Go struct) *)
Definition well_kinded (pend : list (N * obj)) (d : disk) (m : mem) (f : nat) (probe : key) : Prop :=
  forall u ob, stored pend d m u = Some ob ->
    exists k, nth_error (o_keys ob) f = Some k /\ kind_of k = kind_of probe.

Lemma kind_eqb_true a b : kind_eqb a b = true <-> a = b.
Proof. destruct a, b; cbn; split; congruence. Qed.

(* ---------------------------------------------------------------- the full scan *)

(* one step of the scan, as a pure function of the abstract collection *)
Definition hit (pend : list (N * obj)) (d : disk) (m : mem) (f : nat) (o : sop) (rx : key -> bool) (probe : key)
           (u : N) : list entry :=
  match stored pend d m u, uuid_oid (oi_ids (m_idx m)) u with
  | Some ob, Some oid =>
      match nth_error (o_keys ob) f with
      | Some k => if eval_op o rx k probe then [(k, oid)] else []
      | None => []
      end
  | _, _ => []
  end.

Lemma scan_ok ls d m pend f o probe rx : well_kinded pend d m f probe -> forall us h acc,
  h_pend h = pend -> InvCore ls (h_cache h) pend d m ->
  (forall u, In u us -> is_indexed (m_idx m) u = true) ->
  exists h', scan h m d f o probe rx (map (fun u => Some u) us) acc =
               (h', rev acc ++ flat_map (hit pend d m f o rx probe) us, None) /\
             h_mem h' = h_mem h /\ h_pend h' = pend /\ h_srch h' = h_srch h /\
             InvCore ls (h_cache h') pend d m.
Proof.
  intros WK. induction us as [|u r IH]; intros h acc Hp I Hall.
  - exists h. cbn [map scan flat_map]. rewrite app_nil_r. split; [reflexivity|]. split; [reflexivity|]. split; [exact Hp|]. split; [reflexivity|exact I].
  - cbn [map scan]. rewrite <- Hp in I.
    destruct (get_with_ok ls h d m u I) as [h1 [G [M1 [P1 I1]]]]. rewrite G. rewrite Hp in *.
    assert (Hi : is_indexed (m_idx m) u = true) by (apply Hall; left; reflexivity).
    destruct (ic_indexed_stored ls _ pend d m I u Hi) as [ob S]. rewrite S.
    unfold is_indexed in Hi. destruct (uuid_oid (oi_ids (m_idx m)) u) as [oid|] eqn:Eo; [|discriminate].
    destruct (WK u ob S) as [k [Hk Hkind]]. rewrite nth_opt_error, Hk.
    assert (Hke : kind_eqb (kind_of k) (kind_of probe) = true) by (apply kind_eqb_true; exact Hkind).
    rewrite Hke. cbn [negb].
    assert (Hsr : h_srch h1 = h_srch h).
    { pose proof G as G'. unfold get_with in G'. repeat break_match; inv G'; reflexivity. }
    destruct (IH h1 (if eval_op o rx k probe then (k, oid) :: acc else acc) P1
                 I1 (fun v Hv => Hall v (or_intror Hv)))
      as [h' [C [M' [P' [S' I']]]]].
    exists h'. rewrite C. cbn [flat_map]. unfold hit at 2. rewrite S, Eo, Hk.
    split; [|split; [congruence|split; [exact P'|split; [congruence|exact I']]]].
    destruct (eval_op o rx k probe); cbn [rev app]; rewrite <- ?app_assoc; reflexivity.
Qed.

Lemma hit_In pend d m f o rx probe us k oid :
  In (k, oid) (flat_map (hit pend d m f o rx probe) us) <->
  exists u ob, In u us /\ stored pend d m u = Some ob /\ uuid_oid (oi_ids (m_idx m)) u = Some oid /\
               nth_error (o_keys ob) f = Some k /\ eval_op o rx k probe = true.
Proof.
  rewrite in_flat_map. split.
  - intros [u [Hu Hin]]. unfold hit in Hin.
    destruct (stored pend d m u) as [ob|] eqn:S; [|destruct Hin].
    destruct (uuid_oid (oi_ids (m_idx m)) u) as [oid'|] eqn:Eo; [|destruct Hin].
    destruct (nth_error (o_keys ob) f) as [k'|] eqn:Ek; [|destruct Hin].
    destruct (eval_op o rx k' probe) eqn:Ev; [|destruct Hin].
    destruct Hin as [Hin|[]]. inv Hin. exists u, ob. repeat split; assumption.
  - intros [u [ob [Hu [S [Eo [Ek Ev]]]]]]. exists u. split; [exact Hu|]. unfold hit. rewrite S, Eo, Ek, Ev. left. reflexivity.
Qed.

Lemma hit_nodup fds pend d m f o rx probe : OIInv fds (m_idx m) -> forall us, NoDup us ->
  NoDup (map snd (flat_map (hit pend d m f o rx probe) us)).
Proof.
  intros OI. induction us as [|u r IH]; intros Hnd; [constructor|].
  inversion Hnd as [|? ? Hnotin Hr]; subst. cbn [flat_map]. rewrite map_app.
  assert (Hone : forall k oid, In (k, oid) (hit pend d m f o rx probe u) -> uuid_oid (oi_ids (m_idx m)) u = Some oid).
  { intros k oid Hin. unfold hit in Hin.
    destruct (stored pend d m u) as [ob|]; [|destruct Hin].
    destruct (uuid_oid (oi_ids (m_idx m)) u) as [oid'|]; [|destruct Hin].
    destruct (nth_error (o_keys ob) f) as [k'|]; [|destruct Hin].
    destruct (eval_op o rx k' probe); [|destruct Hin].
    destruct Hin as [Hin|[]]. inv Hin. reflexivity. }
  assert (Hdisj : forall oid, In oid (map snd (hit pend d m f o rx probe u)) ->
                  ~ In oid (map snd (flat_map (hit pend d m f o rx probe) r))).
  { intros oid H1 H2. apply in_map_iff in H1. destruct H1 as [[k1 o1] [E1 H1]]. cbn in E1. subst o1.
    apply in_map_iff in H2. destruct H2 as [[k2 o2] [E2 H2]]. cbn in E2. subst o2.
    apply Hone in H1. apply hit_In in H2. destruct H2 as [u' [ob [Hu' [_ [Eo' _]]]]].
    apply uuid_oid_In in H1. apply uuid_oid_In in Eo'.
    assert (u' = u) by (apply (ids_same_oid fds (m_idx m) oid u' u OI Eo' H1)). subst u'. contradiction. }
  assert (Hsmall : NoDup (map snd (hit pend d m f o rx probe u))).
  { unfold hit. destruct (stored pend d m u) as [ob|]; [|constructor].
    destruct (uuid_oid (oi_ids (m_idx m)) u) as [oid'|]; [|constructor].
    destruct (nth_error (o_keys ob) f) as [k'|]; [|constructor].
    destruct (eval_op o rx k' probe); cbn; repeat constructor. intros []. }
  clear Hone. induction (map snd (hit pend d m f o rx probe u)) as [|x xs IHx]; cbn [app]; [apply IH; exact Hr|].
  inversion Hsmall; subst. constructor.
  - rewrite in_app_iff. intros [H|H]; [contradiction|]. apply (Hdisj x (or_introl eq_refl)). exact H.
  - apply IHx; [|assumption]. intros oid Ho. apply Hdisj. right. exact Ho.
Qed.

(* ---------------------------------------------------------------- the theorem *)

(* For a field f of the struct, a well-typed probe, a real operator and (for ~=) a pattern that
   compiles: the search succeeds and an entry (k, oid) is returned IFF oid is the id of a stored
   object whose value for f is k and k satisfies the comparison; no object is returned twice;
   the handle keeps its invariant and only the cache may have grown.  The statement is THE SAME
   whether field f has an index or not. *)
Theorem search_denotes hk ls h d m f fd o probe rxm h' r :
  let pend := h_pend h in
  let probe' := canon_key hk fd probe in
  InvCore ls (h_cache h) pend d m ->
  nth_error (m_fields m) f = Some fd ->
  well_kinded pend d m f probe' ->
  fd_kind fd = kind_of probe' ->
  o <> OpBad ->
  (o = OpRx -> rx_of hk probe' = Some rxm /\ exists s, probe' = KStr s) ->
  search_with hk h m d (Some f) o probe None = (h', r) ->
  sr_err r = None /\
  (forall k oid, In (k, oid) (sr_fields r) <->
     exists u ob, In (oid, u) (oi_ids (m_idx m)) /\ stored pend d m u = Some ob /\
                  nth_error (o_keys ob) f = Some k /\ eval_op o rxm k probe' = true) /\
  NoDup (map snd (sr_fields r)) /\
  h_mem h' = h_mem h /\ h_pend h' = pend /\ InvCore ls (h_cache h') pend d m.
Proof.
  cbv zeta. intros I Hfd WK Hkind Hop Hrx H.
  pose proof (ic_oi _ _ _ _ _ I) as OI.
  unfold search_with in H. rewrite !nth_opt_error, Hfd in H.
  assert (Hke : kind_eqb (fd_kind fd) (kind_of (canon_key hk fd probe)) = true) by (apply kind_eqb_true; exact Hkind).
  destruct (nth_error (oi_fx (m_idx m)) f) as [[l|]|] eqn:Ef.
  - (* indexed path *)
    rewrite Hke in H. cbn [negb] in H.
    destruct (search_objects (m_fields m) (m_idx m) f l o (canon_key hk fd probe) (rx_of hk (canon_key hk fd probe)) rxm OI Ef Hop Hrx)
      as [res [Hs [Hin [Hnd _]]]].
    rewrite Hs in H. inv H. cbn [sr_err sr_fields]. split; [reflexivity|]. split; [|split; [exact Hnd|split; [reflexivity|split; [reflexivity|exact I]]]].
    intros k oid. rewrite Hin. split.
    + intros [[u Hu] [Hk Hev]]. apply (oid_uuid_spec (m_idx m) oid u (inv_oid_nodup _ _ OI)) in Hu.
      destruct (ic_agree _ _ _ _ _ I oid u Hu) as [ob [S _]]. exists u, ob. split; [exact Hu|]. split; [exact S|]. split; [|exact Hev].
      apply (ic_entry_key ls _ _ d m I f u k ob S). exists oid, l. split; [exact Hu|]. split; [exact Ef|].
      apply (key_at_spec (m_fields m) (m_idx m) f l oid k OI Ef). exact Hk.
    + intros [u [ob [Hu [S [Hk Hev]]]]]. split; [exists u; apply (oid_uuid_spec (m_idx m) oid u (inv_oid_nodup _ _ OI)); exact Hu|].
      split; [|exact Hev]. apply (key_at_spec (m_fields m) (m_idx m) f l oid k OI Ef).
      destruct (ic_key_entry ls _ _ d m I f u k ob l S Ef Hk) as [oid' [l' [Hu' [Hl' Hin']]]].
      assert (l' = l) by congruence. subst l'.
      assert (oid' = oid) by (apply (ids_same_uuid _ _ _ _ u OI Hu' Hu)). subst oid'. exact Hin'.
  - (* full scan *)
    rewrite Hke in H. cbn [negb] in H.
    pose (rx := match o with OpRx => rxm | _ => (fun _ : key => false) end).
    assert (Hrxsel : (match o with OpRx => rx_of hk (canon_key hk fd probe) | _ => Some (fun _ : key => false) end) = Some rx).
    { unfold rx. destruct o; try reflexivity. destruct (Hrx eq_refl) as [E _]. exact E. }
    assert (Hev : forall k, eval_op o rx k (canon_key hk fd probe) = eval_op o rxm k (canon_key hk fd probe))
      by (intros k; unfold rx; destruct o; reflexivity).
    destruct (scan_ok ls d m (h_pend h) f o (canon_key hk fd probe) rx WK (map snd (oi_ids (m_idx m))) h [] eq_refl I) as [h1 [C [M1 [P1 [S1 I1]]]]].
    { intros u Hu. apply is_indexed_true. exact Hu. }
    rewrite map_map in C. cbn [rev app] in C.
    assert (H2 : (h1, {| sr_fields := flat_map (hit (h_pend h) d m f o rx (canon_key hk fd probe)) (map snd (oi_ids (m_idx m)));
                         sr_err := None; sr_limit := None; sr_rev := false |}) = (h', r)).
    { clearbody rx. destruct o; try congruence; cbv beta iota in H, Hrxsel;
        try (injection Hrxsel as <-; rewrite C in H; exact H).
      rewrite Hrxsel in H. rewrite C in H. exact H. }
    inv H2. cbn [sr_err sr_fields]. split; [reflexivity|]. split; [|split; [|split; [exact M1|split; [exact P1|exact I1]]]].
    + intros k oid. rewrite hit_In. split.
      * intros [u [ob [Hu [S [Eo [Hk Hv]]]]]]. exists u, ob. split; [apply uuid_oid_In; exact Eo|]. split; [exact S|]. split; [exact Hk|].
        rewrite <- Hev. exact Hv.
      * intros [u [ob [Hu [S [Hk Hv]]]]]. exists u, ob. split; [apply in_map_iff; exists (oid, u); split; [reflexivity|exact Hu]|].
        split; [exact S|]. split; [apply (uuid_oid_spec _ _ _ (inv_uuid_nodup _ _ OI)); exact Hu|]. split; [exact Hk|]. rewrite Hev. exact Hv.
    + apply (hit_nodup (m_fields m)); [exact OI|apply (inv_uuid_nodup _ _ OI)].
  - (* f is a field of the struct: the index table has the same length *)
    exfalso. apply nth_error_None in Ef. rewrite (inv_len _ _ OI) in Ef.
    assert (nth_error (m_fields m) f <> None) by congruence. apply nth_error_Some in H0. lia.
Qed.

(* ---------------------------------------------------------------- in terms of the collection *)

(* the uuids a result resolves to (what Collect / Delete iterate over) *)
Definition resolved (m : mem) (r : list entry) : list N :=
  flat_map (fun e => match oid_uuid (m_idx m) (snd e) with Some u => [u] | None => [] end) r.

Section Denote.
Variables (hk : hooks) (ls : N) (h : handle) (d : disk) (m : mem) (f : nat) (fd : fdesc) (o : sop) (probe : key)
          (rxm : key -> bool) (h' : handle) (r : sres).
Let pend := h_pend h.
Let probe' := canon_key hk fd probe.
Hypothesis I : InvCore ls (h_cache h) pend d m.
Hypothesis Hfd : nth_error (m_fields m) f = Some fd.
Hypothesis WK : well_kinded pend d m f probe'.
Hypothesis Hkind : fd_kind fd = kind_of probe'.
Hypothesis Hop : o <> OpBad.
Hypothesis Hrx : o = OpRx -> rx_of hk probe' = Some rxm /\ exists s, probe' = KStr s.
Hypothesis H : search_with hk h m d (Some f) o probe None = (h', r).

Let D := search_denotes hk ls h d m f fd o probe rxm h' r I Hfd WK Hkind Hop Hrx H.

(* ALL AND ONLY: a uuid is denoted iff the collection binds it to an object that matches *)
Theorem search_all_and_only u :
  In u (resolved m (sr_fields r)) <->
  exists ob, In (u, ob) (abs_of pend d m) /\ matches f o rxm probe' ob = true.
Proof.
  destruct D as [_ [Hin _]]. pose proof (ic_oi _ _ _ _ _ I) as OI. unfold resolved. rewrite in_flat_map. split.
  - intros [[k oid] [He Hu]]. cbn [snd] in Hu. destruct (oid_uuid (m_idx m) oid) as [u'|] eqn:Eu; [|destruct Hu].
    destruct Hu as [->|[]]. apply Hin in He. destruct He as [u2 [ob [Hids [S [Hk Hev]]]]].
    apply (oid_uuid_spec (m_idx m) oid u (inv_oid_nodup _ _ OI)) in Eu.
    assert (u2 = u) by (apply (ids_same_oid _ _ oid u2 u OI Hids Eu)). subst u2.
    exists ob. split; [apply (abs_In ls _ _ _ _ I); exact S|]. unfold matches. rewrite Hk. exact Hev.
  - intros [ob [Ha Hm]]. apply (abs_In ls _ _ _ _ I) in Ha. unfold matches in Hm.
    destruct (nth_error (o_keys ob) f) as [k|] eqn:Ek; [|discriminate].
    pose proof (ic_stored_indexed ls _ _ _ _ I u ob Ha) as Hi. apply is_indexed_true in Hi.
    apply in_map_iff in Hi. destruct Hi as [[oid u'] [E Hids]]. cbn in E. subst u'.
    exists (k, oid). split.
    + apply Hin. exists u, ob. repeat split; assumption.
    + cbn [snd]. rewrite (proj2 (oid_uuid_spec (m_idx m) oid u (inv_oid_nodup _ _ OI)) Hids). left. reflexivity.
Qed.

(* every entry resolves, to pairwise distinct uuids: Len is the number of matching objects *)
Theorem search_len :
  length (sr_fields r) = length (filter (fun p => matches f o rxm probe' (snd p)) (abs_of pend d m)) /\
  NoDup (resolved m (sr_fields r)).
Proof.
  destruct D as [_ [Hin [Hnd _]]]. pose proof (ic_oi _ _ _ _ _ I) as OI.
  assert (Hres : forall e, In e (sr_fields r) -> exists u, oid_uuid (m_idx m) (snd e) = Some u).
  { intros [k oid] He. apply Hin in He. destruct He as [u [_ [Hids _]]]. exists u.
    apply (oid_uuid_spec (m_idx m) oid u (inv_oid_nodup _ _ OI)). exact Hids. }
  assert (Hlen : forall l, (forall e, In e l -> exists u, oid_uuid (m_idx m) (snd e) = Some u) ->
                 length (resolved m l) = length l).
  { induction l as [|e l IH]; intros Hl; [reflexivity|]. unfold resolved in *. cbn [flat_map].
    destruct (Hl e (or_introl eq_refl)) as [u Eu]. rewrite Eu. cbn [app length]. f_equal. apply IH.
    intros e' He'. apply Hl. right. exact He'. }
  assert (Hnd2 : forall l, NoDup (map snd l) -> (forall e, In e l -> exists u, oid_uuid (m_idx m) (snd e) = Some u) ->
                 NoDup (resolved m l)).
  { induction l as [|e l IH]; intros Hn Hl; [constructor|]. unfold resolved in *. cbn [flat_map].
    cbn [map] in Hn. inversion Hn as [|? ? Hnotin Hn']; subst.
    destruct (Hl e (or_introl eq_refl)) as [u Eu]. rewrite Eu. cbn [app]. constructor.
    - rewrite in_flat_map. intros [e' [He' Hu']]. destruct (oid_uuid (m_idx m) (snd e')) as [u'|] eqn:Eu'; [|destruct Hu'].
      destruct Hu' as [->|[]].
      apply (oid_uuid_spec (m_idx m) _ u (inv_oid_nodup _ _ OI)) in Eu.
      apply (oid_uuid_spec (m_idx m) _ u (inv_oid_nodup _ _ OI)) in Eu'.
      assert (snd e' = snd e) by (apply (ids_same_uuid _ _ _ _ u OI Eu' Eu)).
      apply Hnotin. rewrite <- H0. apply in_map. exact He'.
    - apply IH; [exact Hn'|]. intros e' He'. apply Hl. right. exact He'. }
  pose proof (Hnd2 _ Hnd Hres) as NA. split; [|exact NA].
  rewrite <- (Hlen _ Hres).
  rewrite <- (map_length fst (filter _ _)).
  apply Permutation_length. apply NoDup_Permutation.
  - exact NA.
  - apply NoDup_map_filter. apply (abs_nodup ls _ _ _ _ I).
  - intros u. rewrite search_all_and_only. rewrite in_map_iff. split.
    + intros [ob [Ha Hm]]. exists (u, ob). split; [reflexivity|]. apply filter_In. split; assumption.
    + intros [[u' ob] [E Hf]]. cbn in E. subst u'. apply filter_In in Hf. exists ob. exact Hf.
Qed.

End Denote.

(* INDEX INDEPENDENCE (C12): two handles, in any two configurations (cache, asynchronous writes,
   compression, extension, ANY index subsets), holding the same abstract collection: the same
   search denotes the same set of uuids and has the same length, whether the field is indexed in
   both, in one, or in none *)
Theorem index_independent hk ls h1 d1 m1 h2 d2 m2 f fd1 fd2 o probe rxm h1' r1 h2' r2 :
  InvCore ls (h_cache h1) (h_pend h1) d1 m1 -> InvCore ls (h_cache h2) (h_pend h2) d2 m2 ->
  abs_of (h_pend h1) d1 m1 = abs_of (h_pend h2) d2 m2 ->
  nth_error (m_fields m1) f = Some fd1 -> nth_error (m_fields m2) f = Some fd2 ->
  canon_key hk fd1 probe = canon_key hk fd2 probe ->            (* same case constraint on the field *)
  let probe' := canon_key hk fd1 probe in
  well_kinded (h_pend h1) d1 m1 f probe' -> well_kinded (h_pend h2) d2 m2 f probe' ->
  fd_kind fd1 = kind_of probe' -> fd_kind fd2 = kind_of probe' ->
  o <> OpBad -> (o = OpRx -> rx_of hk probe' = Some rxm /\ exists s, probe' = KStr s) ->
  search_with hk h1 m1 d1 (Some f) o probe None = (h1', r1) ->
  search_with hk h2 m2 d2 (Some f) o probe None = (h2', r2) ->
  sr_err r1 = None /\ sr_err r2 = None /\
  (forall u, In u (resolved m1 (sr_fields r1)) <-> In u (resolved m2 (sr_fields r2))) /\
  length (sr_fields r1) = length (sr_fields r2).
Proof.
  cbv zeta. intros I1 I2 Ha F1 F2 Hc W1 W2 K1 K2 Hop Hrx S1 S2.
  rewrite Hc in W2, K2, Hrx. 
  assert (Hrx1 : o = OpRx -> rx_of hk (canon_key hk fd1 probe) = Some rxm /\ exists s, canon_key hk fd1 probe = KStr s)
    by (rewrite Hc; exact Hrx).
  split; [apply (search_denotes hk ls h1 d1 m1 f fd1 o probe rxm h1' r1 I1 F1 W1 K1 Hop Hrx1 S1)|].
  split; [apply (search_denotes hk ls h2 d2 m2 f fd2 o probe rxm h2' r2 I2 F2 W2 K2 Hop Hrx S2)|].
  split.
  - intros u. rewrite (search_all_and_only hk ls h1 d1 m1 f fd1 o probe rxm h1' r1 I1 F1 W1 K1 Hop Hrx1 S1 u).
    rewrite (search_all_and_only hk ls h2 d2 m2 f fd2 o probe rxm h2' r2 I2 F2 W2 K2 Hop Hrx S2 u).
    rewrite Ha, Hc. reflexivity.
  - rewrite (proj1 (search_len hk ls h1 d1 m1 f fd1 o probe rxm h1' r1 I1 F1 W1 K1 Hop Hrx1 S1)).
    rewrite (proj1 (search_len hk ls h2 d2 m2 f fd2 o probe rxm h2' r2 I2 F2 W2 K2 Hop Hrx S2)).
    rewrite Ha, Hc. reflexivity.
Qed.
Print Assumptions search_denotes.
Print Assumptions search_all_and_only.
Print Assumptions search_len.
Print Assumptions index_independent.
