(* Proofs/DBBasic.v: first-order facts about the handle machine, proved by computation on [step]:
   rejected writes leave no trace (C06/C07/C15), canonicalisation (C16), control (C11). *)
From Coq Require Import List ZArith NArith Bool Lia.
Import ListNotations.
From Sod.Model Require Import Base FieldIndex ObjIndex DB.

(* ---------------------------------------------------------------- association lists *)
Lemma assoc_put_same {B} k (v : B) l : assoc k (put k v l) = Some v.
Proof.
  induction l as [|[k' v'] l IH]; cbn.
  - rewrite N.eqb_refl. reflexivity.
  - destruct (N.eqb k k') eqn:E; cbn; rewrite ?N.eqb_refl; [reflexivity|]. rewrite E. exact IH.
Qed.

Lemma assoc_put_other {B} k k' (v : B) l : k <> k' -> assoc k' (put k v l) = assoc k' l.
Proof.
  intros Hne. induction l as [|[k2 v2] l IH]; cbn.
  - destruct (N.eqb k' k) eqn:E; [apply N.eqb_eq in E; congruence|reflexivity].
  - destruct (N.eqb k k2) eqn:E; cbn.
    + apply N.eqb_eq in E. subst k2.
      destruct (N.eqb k' k) eqn:E2; [apply N.eqb_eq in E2; congruence|reflexivity].
    + destruct (N.eqb k' k2); [reflexivity|exact IH].
Qed.

Lemma assoc_remove_same {B} k (l : list (N * B)) : assoc k (remove_key k l) = None.
Proof.
  induction l as [|[k' v'] l IH]; cbn; [reflexivity|].
  destruct (N.eqb k' k) eqn:E; cbn; [exact IH|].
  rewrite N.eqb_sym, E. exact IH.
Qed.

Lemma assoc_remove_other {B} k k' (l : list (N * B)) : k <> k' -> assoc k' (remove_key k l) = assoc k' l.
Proof.
  intros Hne. induction l as [|[k2 v2] l IH]; cbn; [reflexivity|].
  destruct (N.eqb k2 k) eqn:E; cbn.
  - apply N.eqb_eq in E. subst k2.
    destruct (N.eqb k' k) eqn:E2; [apply N.eqb_eq in E2; congruence|exact IH].
  - destruct (N.eqb k' k2); [reflexivity|exact IH].
Qed.

(* ---------------------------------------------------------------- the schema lookup has no FS effect
   and leaves cache, pending writes and searches alone *)
Definition same_stores (h h' : handle) : Prop :=
  h_cache h' = h_cache h /\ h_pend h' = h_pend h /\ h_srch h' = h_srch h /\ h_cancel h' = h_cancel h.

Lemma start_flusher_stores h : same_stores h (start_flusher h).
Proof.
  unfold start_flusher, same_stores. destruct (h_mem h) as [m|]; [|repeat split; reflexivity].
  destruct (async_on m && negb (m_started m)); cbn; repeat split; reflexivity.
Qed.

Lemma db_schema_stores ls h d h' mo eo : db_schema ls h d = (h', mo, eo) -> same_stores h h'.
Proof.
  unfold db_schema. destruct (h_mem h) as [m|] eqn:Hm.
  - intros H. inversion H; subst. apply start_flusher_stores.
  - destruct (negb (d_dir d)); [intros H; inversion H; subst; repeat split; reflexivity|].
    destruct (d_schema d) as [[sf|]|]; try (intros H; inversion H; subst; repeat split; reflexivity).
    destruct (control_mem ls (mem_of sf) d) as [e|] eqn:Ec.
    + destruct e; intros H; inversion H; subst; try (repeat split; reflexivity).
      destruct (start_flusher_stores (set_mem h (Some (mem_of sf)))) as [A [B [C D]]].
      repeat split; cbn in *; congruence.
    + intros H; inversion H; subst.
      destruct (start_flusher_stores (set_mem h (Some (mem_of sf)))) as [A [B [C D]]].
      repeat split; cbn in *; congruence.
Qed.

Lemma start_flusher_mem h m : h_mem h = Some m ->
  exists m', h_mem (start_flusher h) = Some m' /\ m_idx m' = m_idx m /\ m_set m' = m_set m /\
             m_fields m' = m_fields m /\ m_shape m' = m_shape m.
Proof.
  intros Hm. unfold start_flusher. rewrite Hm.
  destruct (async_on m && negb (m_started m)); cbn.
  - eexists; repeat split; reflexivity.
  - exists m. repeat split; try reflexivity. exact Hm.
Qed.

Lemma db_schema_loaded ls h d m : h_mem h = Some m ->
  db_schema ls h d = (start_flusher h, h_mem (start_flusher h), None).
Proof. intros Hm. unfold db_schema. rewrite Hm. reflexivity. Qed.

Ltac break_match :=
  match goal with
  | |- context [match ?x with _ => _ end] => destruct x eqn:?
  | H : context [match ?x with _ => _ end] |- _ => destruct x eqn:?
  end.

Ltac inv H := inversion H; subst; clear H.

(* ---------------------------------------------------------------- C06 / C15: a rejected single write *)

Definition logical (e : err) : Prop := e = EInvalid \/ e = EUnique \/ e = EJson \/ e = EWrongType.

Lemma save_schema_err w m e w' : save_schema w m = (Some e, w') -> e = EStorage.
Proof. unfold save_schema. repeat break_match; intros H; inv H; reflexivity. Qed.

Lemma commit_err ls h w h' e w' : commit ls h w = (h', Some e, w') ->
  h_mem h <> None -> e = EStorage.
Proof.
  unfold commit. intros H Hm. destruct (h_mem h) as [m|] eqn:Em; [|congruence].
  rewrite (db_schema_loaded ls h (w_disk w) m Em) in H.
  destruct (start_flusher_mem h m Em) as [m' [Hm' _]]. rewrite Hm' in H.
  destruct (save_schema w m') as [eo w1] eqn:Es. inv H. eapply save_schema_err; eassumption.
Qed.

Lemma write_object_err w m u o e w' :
  forallb serialisable (o_keys o) = true -> write_object w m u o = (Some e, w') -> e = EStorage.
Proof.
  unfold write_object. intros Hs. rewrite Hs. cbn [negb].
  repeat break_match; intros H; inv H; reflexivity.
Qed.

(* insert_core returns a logical error only before any effect *)
Lemma insert_core_logical ls h w m u o c h' e w' :
  h_mem h = Some m ->
  insert_core ls h w m u o c = (h', Err e, w') -> logical e -> h' = h /\ w' = w.
Proof.
  intros Hm. unfold insert_core.
  destruct (negb (forallb serialisable (o_keys o))) eqn:Hser; [intros H _; inv H; auto|].
  apply negb_false_iff in Hser.
  destruct (oi_insert_or_update (m_fields m) (m_idx m) (o_keys o) u) as [ix|e1|]; [|intros H _; inv H; auto|intros H; inv H].
  destruct (async_on (set_idx m ix)); [intros H; inv H|].
  destruct (write_object w (set_idx m ix) u o) as [[e2|] w1] eqn:Hw.
  - intros H Hl. inv H. apply write_object_err in Hw; [|exact Hser]. subst.
    destruct Hl as [X|[X|[X|X]]]; discriminate.
  - destruct c.
    + destruct (commit ls _ w1) as [[h3 [e3|]] w3] eqn:Hc; intros H Hl; inv H.
      apply commit_err in Hc; [|destruct (must_cache (set_idx m ix)); cbn; congruence]. subst.
      destruct Hl as [X|[X|[X|X]]]; discriminate.
    + intros H; inv H.
Qed.

(* what the call may legitimately change: nothing but the lazily loaded schema (and the flusher
   it starts): the world (directory, log) is untouched, cache / pending / searches are untouched *)
Theorem insert_rejected_no_trace hk ls s u fresh o s' e :
  step_fg hk ls s (OInsert u fresh o) = (s', RUnit (Err e)) ->
  logical e ->
  s_w s' = s_w s /\
  s_h s' = fst (fst (db_schema ls (s_h s) (w_disk (s_w s)))).
Proof.
  cbn [step_fg]. unfold do_insert, with_schema.
  destruct (db_schema ls (s_h s) (w_disk (s_w s))) as [[h1 mo] eo] eqn:Hs. cbn [fst].
  assert (Hh1 : forall m, mo = Some m -> eo = None -> h_mem h1 = Some m).
  { intros m -> ->. unfold db_schema in Hs. repeat break_match; inv Hs; try reflexivity; try discriminate.
    all: try (match goal with H : Some _ = Some _ |- _ => inv H end); reflexivity. }
  destruct mo as [m|]; destruct eo as [e0|]; try solve [intros H HL; inv H; cbn; auto].
  destruct (negb (hk_va hk (o_keys (prepare_obj hk m o)))); [intros H HL; inv H; cbn; auto|].
  destruct (insert_core ls h1 (s_w s) m _ _ true) as [[h2 r] w2] eqn:Hi.
  intros H HL. inv H.
  destruct (insert_core_logical _ _ _ _ _ _ _ _ _ _ (Hh1 m eq_refl eq_refl) Hi HL) as [-> ->].
  cbn. auto.
Qed.
