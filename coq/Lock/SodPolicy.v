(* ========================================================================= *)
(*  Sod.Lock.SodPolicy : the hand-written lockset policy for 0xrawsec/sod      *)
(*  (DESIGN.md Appendix F).  TRUSTED: this table says which lock protects      *)
(*  which location class; it was written by reading the source.               *)
(*                                                                            *)
(*  Location classes are "Type.field" for the fields of the shared struct     *)
(*  types DB, Schema, Async, objIndex, fieldIndex, objectStore, objectMap;    *)
(*  the maps of the two stores carry the store instance ("@cache",            *)
(*  "@asyncw").  A class that is not listed allows NO shared access.          *)
(* ========================================================================= *)
From Coq Require Import List Bool String.
From Sod.Lock Require Import LockModel.
Import ListNotations.
Open Scope string_scope.

(** Guarded by the handle lock: readers need it in any mode, writers in
    write mode. *)
Definition by_handle : rule :=
  {| rd := [[(LHandle, R)]]; wr := [[(LHandle, W)]] |}.

(** Written only before the object is published (constructor, [Open],
    [Schema.initialize] on a fresh schema): readable with no lock, never
    writable once shared. *)
Definition immutable : rule := {| rd := [[]]; wr := [] |}.

(** Guarded by its own lock. *)
Definition by_lock (c : lclass) : rule :=
  {| rd := [[(c, R)]]; wr := [[(c, W)]] |}.

(** The per-type table of the pending (async) store: read under the store
    lock or under the handle write lock ([flushAll] reads it with the handle
    write lock only); every writer holds the store lock in write mode AND the
    handle write lock. *)
Definition pending_table : rule :=
  {| rd := [[(LStore IAsync, R)]; [(LHandle, W)]];
     wr := [[(LStore IAsync, W); (LHandle, W)]] |}.

(** The table of loaded schemas and the "flusher started" flag are written
    lazily by calls that only hold the handle READ lock: DB.schema() takes
    the innermost lock [DB.sl] in write mode around the lookup, the loading
    ([loadSchema]) and [startAsyncWritesRoutine].  Calls holding the handle
    WRITE lock ([Create], [Control], [Close], [deleteSchema]) access the table
    without [DB.sl]: they exclude every other call anyway. *)
Definition lazily_loaded : rule :=
  {| rd := [[(LHandle, R); (LSchemas, R)]; [(LHandle, W)]];
     wr := [[(LHandle, R); (LSchemas, W)]; [(LHandle, W)]] |}.

Definition sod_policy : policy := [
  (* the handle *)
  ("DB.schemas", lazily_loaded);
  ("DB.ctx", immutable); ("DB.cancel", immutable); ("DB.root", immutable);
  ("DB.cache", immutable); ("DB.asyncw", immutable);
  (* schemas *)
  ("Schema.db", immutable); ("Schema.object", immutable);
  ("Schema.transformers", by_handle); ("Schema.Fields", by_handle);
  ("Schema.Extension", by_handle); ("Schema.Compress", by_handle);
  ("Schema.Cache", by_handle); ("Schema.AsyncWrites", by_handle);
  ("Schema.ObjectIndex", by_handle);
  ("Async.routineStarted", lazily_loaded); ("Async.Enable", by_handle);
  ("Async.Threshold", by_handle); ("Async.Timeout", by_handle);
  (* the live index *)
  ("objIndex.i", by_handle); ("objIndex.uuids", by_handle);
  ("objIndex.Fields", by_handle); ("objIndex.ObjectIds", by_handle);
  ("fieldIndex.Index", by_handle); ("fieldIndex.objectIds", by_handle);
  ("fieldIndex.Name", immutable); ("fieldIndex.Cast", immutable);
  ("fieldIndex.Constraints", immutable); ("fieldIndex.nameSplit", immutable);
  (* the cache store and its per-type maps *)
  ("objectStore.m@cache", by_lock (LStore ICache));
  ("objectMap.m@cache", by_lock (LMap ICache));
  (* the pending (async) store and its per-type maps *)
  ("objectStore.m@asyncw", pending_table);
  ("objectMap.m@asyncw", by_lock (LMap IAsync));
  (* the collection directories: calls of os / ioutil that create, truncate, write or remove are
     writes, calls that open, stat or list are reads (extractor rule fsRule) *)
  ("FS.dir", by_handle)
].

(** Boolean equality of policies, used to check that the copy of this table
    used by the extractor for its human-readable report (emitted in the
    generated file as [policy_mirror]) is the same table. *)
Definition lm_eqb (a b : lclass * mode) : bool := if lm_eq_dec a b then true else false.
Fixpoint list_eqb {A} (eqb : A -> A -> bool) (a b : list A) : bool :=
  match a, b with
  | [], [] => true
  | x :: a', y :: b' => eqb x y && list_eqb eqb a' b'
  | _, _ => false
  end.
Definition rule_eqb (a b : rule) : bool :=
  list_eqb (list_eqb lm_eqb) (rd a) (rd b) && list_eqb (list_eqb lm_eqb) (wr a) (wr b).
Definition policy_eqb (a b : policy) : bool :=
  list_eqb (fun x y => String.eqb (fst x) (fst y) && rule_eqb (snd x) (snd y)) a b.
