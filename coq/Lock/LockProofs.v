(* ========================================================================= *)
(*  Sod.Lock.LockProofs : soundness of the decision procedures of LockModel   *)
(*                                                                            *)
(*    deadlock_free  : lock_order_ok p = true -> no reachable stuck state     *)
(*    no_partial_deadlock : ... every unfinished thread can step or waits     *)
(*                     (transitively) for a thread that can step              *)
(*    lockset_drf    : lockset_ok pol p = true -> no reachable race           *)
(*    stuck_example  : a re-entrant read path reaches a stuck state           *)
(*                                                                            *)
(*  No axioms; stdlib only.                                                   *)
(* ========================================================================= *)
From Coq Require Import List Arith Bool String PeanoNat Lia Relations.
From Sod.Lock Require Import LockModel.
Import ListNotations.

(* ------------------------------------------------------------------------- *)
(** * 0. List utilities                                                       *)
(* ------------------------------------------------------------------------- *)

Lemma nth_error_set_nth_eq : forall A (l : list A) n x,
  n < List.length l -> nth_error (set_nth n x l) n = Some x.
Proof.
  intros A l; induction l as [|y l IH]; intros n x Hn; simpl in *; [lia|].
  destruct n as [|n]; simpl; [reflexivity|]. apply IH. lia.
Qed.

Lemma nth_error_set_nth_neq : forall A (l : list A) n m x,
  n <> m -> nth_error (set_nth n x l) m = nth_error l m.
Proof.
  intros A l; induction l as [|y l IH]; intros n m x Hnm; simpl.
  - reflexivity.
  - destruct n as [|n]; destruct m as [|m]; simpl; try reflexivity; try congruence.
    apply IH. congruence.
Qed.

Lemma length_set_nth : forall A (l : list A) n x, List.length (set_nth n x l) = List.length l.
Proof.
  intros A l; induction l as [|y l IH]; intros n x; simpl; [reflexivity|].
  destruct n; simpl; [reflexivity|]. now rewrite IH.
Qed.

Lemma nth_error_lt : forall A (l : list A) n x, nth_error l n = Some x -> n < List.length l.
Proof. intros A l n x H. apply nth_error_Some. congruence. Qed.

Lemma count_occ_remove_one : forall A (eqd : forall x y : A, {x = y} + {x <> y}) (l : list A) x y,
  count_occ eqd (remove_one eqd x l) y =
  if eqd x y then pred (count_occ eqd l y) else count_occ eqd l y.
Proof.
  intros A eqd l x y. induction l as [|z l IH]; simpl.
  - destruct (eqd x y); reflexivity.
  - destruct (eqd x z) as [Exz|Nxz].
    + subst z. destruct (eqd x y) as [Exy|Nxy]; [reflexivity|reflexivity].
    + simpl. destruct (eqd z y) as [Ezy|Nzy].
      * subst z. destruct (eqd x y) as [Exy|Nxy]; [congruence|]. now rewrite IH.
      * exact IH.
Qed.

Lemma in_remove_one : forall A (eqd : forall x y : A, {x = y} + {x <> y}) (l : list A) x y,
  In y (remove_one eqd x l) -> In y l.
Proof.
  intros A eqd l x y. induction l as [|z l IH]; simpl; [tauto|].
  destruct (eqd x z); simpl; intuition.
Qed.

Lemma in_held_true : forall x h, in_held x h = true <-> In x h.
Proof.
  intros x h. unfold in_held. rewrite existsb_exists. split.
  - intros [y [Hy E]]. destruct (lm_eq_dec x y); [subst; exact Hy|discriminate].
  - intros H. exists x. split; [exact H|]. destruct (lm_eq_dec x x); [reflexivity|congruence].
Qed.

(* ------------------------------------------------------------------------- *)
(** * 1. Thread-local safety (step-indexed) and soundness of the analysis     *)
(* ------------------------------------------------------------------------- *)

(** The held multiset as updated by the thread's own lock events. *)
Definition hupd (h : held) (l : label) : held :=
  match l with
  | LAcq c m => (c, m) :: h
  | LRel c m => remove_one lm_eq_dec (c, m) h
  | _ => h
  end.

Definition exit_can_pop (k : cont) : Prop :=
  match k with KS _ :: _ => True | KBlockEnd :: _ => True | _ => False end.

Section Safe.
  Variable p : program.
  Variable guard : held -> sk -> bool.

  (** What must hold of a thread whose held multiset is [h] and whose
      continuation is [k], looking only at the head of [k]. *)
  Definition good (h : held) (k : cont) : Prop :=
    match k with
    | [] => h = []
    | KS s :: k' =>
        match s with
        | SAcq _ _ => guard h s = true
        | SRel c m => guard h s = true /\ In (c, m) h
        | SGo _ | SHook | SWait | SAcc _ _ _ => guard h s = true
        | SCall f => body p f <> None
        | SExit _ => exit_can_pop k'
        | _ => True
        end
    | _ => True
    end.

  (** [safe_n n h k]: every thread-local execution of at most [n] steps from
      [(h, k)] only visits good states, and so do the threads it spawns. *)
  Fixpoint safe_n (n : nat) (h : held) (k : cont) : Prop :=
    match n with
    | 0 => True
    | S n' =>
        good h k /\
        forall l k', lstep p k l k' ->
          safe_n n' (hupd h l) k' /\
          (forall f, l = LSpawn f -> safe_n n' [] [KS (SCall f)])
    end.

  Definition safe (h : held) (k : cont) : Prop := forall n, safe_n n h k.

  Lemma safe_mono : forall n m h k, m <= n -> safe_n n h k -> safe_n m h k.
  Proof.
    induction n as [|n IH]; intros m h k Hle Hs.
    - assert (m = 0) by lia. subst. exact I.
    - destruct m as [|m]; [exact I|].
      simpl in *. destruct Hs as [Hg Hst]. split; [exact Hg|].
      intros l k' Hl. destruct (Hst l k' Hl) as [H1 H2]. split.
      + apply IH; [lia|exact H1].
      + intros f E. apply IH; [lia|]. apply H2; exact E.
  Qed.

  Lemma safe_good : forall h k, safe h k -> good h k.
  Proof. intros h k H. exact (proj1 (H 1)). Qed.

  Lemma safe_step : forall h k l k', safe h k -> lstep p k l k' -> safe (hupd h l) k'.
  Proof. intros h k l k' H Hl n. exact (proj1 (proj2 (H (S n)) l k' Hl)). Qed.

  Lemma safe_spawn : forall h k f k', safe h k -> lstep p k (LSpawn f) k' -> safe [] [KS (SCall f)].
  Proof. intros h k f k' H Hl n. exact (proj2 (proj2 (H (S n)) _ k' Hl) f eq_refl). Qed.

  (** ** Administrative continuations *)

  Ltac inv H := inversion H; subst; clear H.

  Lemma safe_nil : forall n, safe_n n [] [].
  Proof.
    destruct n as [|n]; simpl; [exact I|]. split; [reflexivity|].
    intros l k' Hl. inv Hl.
  Qed.

  Lemma safe_blockend : forall n h k, safe_n n h k -> safe_n n h (KBlockEnd :: k).
  Proof.
    destruct n as [|n]; intros h k Hs; simpl; [exact I|]. split; [exact I|].
    intros l k' Hl. inv Hl. simpl. split; [|discriminate].
    apply safe_mono with (n := S n); [lia|exact Hs].
  Qed.

  Lemma safe_ret : forall n h k, safe_n n h k -> safe_n n h (KRet :: k).
  Proof.
    destruct n as [|n]; intros h k Hs; simpl; [exact I|]. split; [exact I|].
    intros l k' Hl. inv Hl. simpl. split; [|discriminate].
    apply safe_mono with (n := S n); [lia|exact Hs].
  Qed.

  Lemma safe_exit_skip : forall n h m s k,
    safe_n n h (KS (SExit m) :: k) -> safe_n n h (KS (SExit m) :: KS s :: k).
  Proof.
    destruct n as [|n]; intros h m s k Hs; simpl; [exact I|]. split; [exact I|].
    intros l k' Hl. inv Hl. simpl. split; [|discriminate].
    apply safe_mono with (n := S n); [lia|exact Hs].
  Qed.

  Lemma safe_exit_0 : forall n h k, safe_n n h k -> safe_n n h (KS (SExit 0) :: KBlockEnd :: k).
  Proof.
    destruct n as [|n]; intros h k Hs; simpl; [exact I|]. split; [exact I|].
    intros l k' Hl. inv Hl. simpl. split; [|discriminate].
    apply safe_mono with (n := S n); [lia|exact Hs].
  Qed.

  Lemma safe_exit_S : forall n h m k,
    safe_n n h (KS (SExit m) :: k) -> safe_n n h (KS (SExit (S m)) :: KBlockEnd :: k).
  Proof.
    destruct n as [|n]; intros h m k Hs; simpl; [exact I|]. split; [exact I|].
    intros l k' Hl. inv Hl. simpl. split; [|discriminate].
    apply safe_mono with (n := S n); [lia|exact Hs].
  Qed.

  (** ** Facts about the analysis' bookkeeping *)

  Lemma merge_norm_l : forall a b n h, merge_norm a b = Some n -> a = Some h -> n = Some h.
  Proof.
    intros a b n h Hm Ha. subst a. destruct b as [y|]; simpl in Hm.
    - destruct (held_eq_dec h y); [congruence|discriminate].
    - congruence.
  Qed.

  Lemma merge_norm_r : forall a b n h, merge_norm a b = Some n -> b = Some h -> n = Some h.
  Proof.
    intros a b n h Hm Hb. subst b. destruct a as [x|]; simpl in Hm.
    - destruct (held_eq_dec x h); [congruence|discriminate].
    - congruence.
  Qed.

  Lemma exit_eqb_eq : forall a b, exit_eqb a b = true -> a = b.
  Proof.
    intros [a1 a2] [b1 b2]. unfold exit_eqb. simpl. intros H.
    apply andb_true_iff in H. destruct H as [H1 H2].
    apply Nat.eqb_eq in H1. destruct (held_eq_dec a2 b2); [subst; reflexivity|discriminate].
  Qed.

  Lemma in_add_exits_l : forall a b x, In x a -> In x (add_exits a b).
  Proof.
    induction a as [|y a IH]; intros b x Hin; simpl in *; [tauto|].
    destruct (existsb (exit_eqb y) b) eqn:E.
    - destruct Hin as [->|Hin]; [|apply IH; exact Hin].
      apply existsb_exists in E. destruct E as [z [Hz Ez]].
      apply exit_eqb_eq in Ez. subst z.
      clear IH. induction a as [|w a IHa]; simpl; [exact Hz|].
      destruct (existsb (exit_eqb w) b); [exact IHa|right; exact IHa].
    - destruct Hin as [->|Hin]; [left; reflexivity|right; apply IH; exact Hin].
  Qed.

  Lemma in_add_exits_r : forall a b x, In x b -> In x (add_exits a b).
  Proof.
    induction a as [|y a IH]; intros b x Hin; simpl; [exact Hin|].
    destruct (existsb (exit_eqb y) b); [apply IH; exact Hin|right; apply IH; exact Hin].
  Qed.

  Lemma block_exits_spec : forall es norm n out,
    block_exits es norm = Some (n, out) ->
    (forall h, norm = Some h -> n = Some h) /\
    (forall h, In (0, h) es -> n = Some h) /\
    (forall m h, In (S m, h) es -> In (m, h) out).
  Proof.
    induction es as [|[m0 h0] es IH]; intros norm n out Hb; simpl in Hb.
    - inversion Hb; subst. repeat split; intros; try assumption; simpl in *; tauto.
    - destruct m0 as [|m0].
      + destruct (merge_norm norm (Some h0)) as [n'|] eqn:Em; [|discriminate].
        destruct (IH _ _ _ Hb) as [I1 [I2 I3]]. repeat split.
        * intros h Hn. apply I1. eapply merge_norm_l; eauto.
        * intros h [E|Hin]; [|apply I2; exact Hin].
          inversion E; subst. apply I1. eapply merge_norm_r; eauto.
        * intros m h [E|Hin]; [discriminate|apply I3; exact Hin].
      + destruct (block_exits es norm) as [[n' out']|] eqn:Eb; [|discriminate].
        inversion Hb; subst. destruct (IH _ _ _ eq_refl) as [I1 [I2 I3]]. repeat split.
        * exact I1.
        * intros h [E|Hin]; [discriminate|apply I2; exact Hin].
        * intros m h [E|Hin]; [inversion E; subst; left; reflexivity|right; apply I3; exact Hin].
  Qed.

  (** ** Soundness of [check_stmt] and [check_call] *)

  (** Spawn targets are safe at all smaller indexes. *)
  Definition spawn_safe (n : nat) : Prop :=
    forall m f, m < n -> is_spawn p f = true -> safe_n m [] [KS (SCall f)].

  Lemma spawn_safe_mono : forall n m, m <= n -> spawn_safe n -> spawn_safe m.
  Proof. intros n m Hle H m' f Hm Hf. apply H; [lia|exact Hf]. Qed.

  Section StmtSound.
    Variable call : fid -> held -> option (option held).
    Hypothesis call_sound : forall f h ro, call f h = Some ro ->
      exists b, body p f = Some b /\
        forall n, spawn_safe n -> forall k,
          (forall h', ro = Some h' -> safe_n n h' k) ->
          safe_n n h (KS b :: KRet :: k).

    Lemma check_stmt_sound : forall s h r,
      check_stmt p guard call h s = Some r ->
      forall n, spawn_safe n -> forall k,
        (forall h', rnorm r = Some h' -> safe_n n h' k) ->
        (forall m h', In (m, h') (rexits r) -> safe_n n h' (KS (SExit m) :: k)) ->
        safe_n n h (KS s :: k).
    Proof.
      induction s as [c m|c m|f|f| | |l w r0| |s1 IH1 s2 IH2|s1 IH1 s2 IH2|b IHb|b IHb|e];
        intros h r Hc.
      - (* SAcq *)
        simpl in Hc. destruct (guard h (SAcq c m)) eqn:Eg; [|discriminate].
        inversion Hc; subst; clear Hc. intros n Hsp k Hn _.
        destruct n as [|n]; simpl; [exact I|]. split; [exact Eg|].
        intros l k' Hl. inv Hl. simpl. split; [|discriminate].
        apply safe_mono with (n := S n); [lia|]. apply Hn. reflexivity.
      - (* SRel *)
        simpl in Hc. destruct (guard h (SRel c m) && in_held (c, m) h) eqn:Eg; [|discriminate].
        apply andb_true_iff in Eg. destruct Eg as [Eg Ein]. apply in_held_true in Ein.
        inversion Hc; subst; clear Hc. intros n Hsp k Hn _.
        destruct n as [|n]; simpl; [exact I|]. split; [split; assumption|].
        intros l k' Hl. inv Hl. simpl. split; [|discriminate].
        apply safe_mono with (n := S n); [lia|]. apply Hn. reflexivity.
      - (* SCall *)
        simpl in Hc. destruct (call f h) as [ro|] eqn:Ec; [|discriminate].
        inversion Hc; subst; clear Hc. intros n Hsp k Hn _.
        destruct (call_sound _ _ _ Ec) as [b [Hb Hs]].
        destruct n as [|n]; simpl; [exact I|]. split; [congruence|].
        intros l k' Hl. inv Hl. simpl. split; [|discriminate].
        match goal with H : body p f = Some ?b0 |- _ => rewrite Hb in H; inversion H; subst end.
        apply Hs; [apply spawn_safe_mono with (n := S n); [lia|exact Hsp]|].
        intros h' E. apply safe_mono with (n := S n); [lia|]. apply Hn. exact E.
      - (* SGo *)
        simpl in Hc. destruct (guard h (SGo f) && is_spawn p f) eqn:Eg; [|discriminate].
        apply andb_true_iff in Eg. destruct Eg as [Eg Esp].
        inversion Hc; subst; clear Hc. intros n Hsp k Hn _.
        destruct n as [|n]; simpl; [exact I|]. split; [exact Eg|].
        intros l k' Hl. inv Hl. simpl. split.
        + apply safe_mono with (n := S n); [lia|]. apply Hn. reflexivity.
        + intros f0 E. inversion E; subst. apply Hsp; [lia|exact Esp].
      - (* SHook *)
        simpl in Hc. destruct (guard h SHook) eqn:Eg; [|discriminate].
        inversion Hc; subst; clear Hc. intros n Hsp k Hn _.
        destruct n as [|n]; simpl; [exact I|]. split; [exact Eg|].
        intros l k' Hl. inv Hl. simpl. split; [|discriminate].
        apply safe_mono with (n := S n); [lia|]. apply Hn. reflexivity.
      - (* SWait *)
        simpl in Hc. destruct (guard h SWait) eqn:Eg; [|discriminate].
        inversion Hc; subst; clear Hc. intros n Hsp k Hn _.
        destruct n as [|n]; simpl; [exact I|]. split; [exact Eg|].
        intros l k' Hl. inv Hl. simpl. split; [|discriminate].
        apply safe_mono with (n := S n); [lia|]. apply Hn. reflexivity.
      - (* SAcc *)
        simpl in Hc. destruct (guard h (SAcc l w r0)) eqn:Eg; [|discriminate].
        inversion Hc; subst; clear Hc. intros n Hsp k Hn _.
        destruct n as [|n]; simpl; [exact I|]. split; [exact Eg|].
        intros l' k' Hl. inv Hl. simpl. split; [|discriminate].
        apply safe_mono with (n := S n); [lia|]. apply Hn. reflexivity.
      - (* SSkip *)
        simpl in Hc. inversion Hc; subst; clear Hc. intros n Hsp k Hn _.
        destruct n as [|n]; simpl; [exact I|]. split; [exact I|].
        intros l k' Hl. inv Hl. simpl. split; [|discriminate].
        apply safe_mono with (n := S n); [lia|]. apply Hn. reflexivity.
      - (* SSeq *)
        simpl in Hc. destruct (check_stmt p guard call h s1) as [r1|] eqn:E1; [|discriminate].
        intros n Hsp k Hn He.
        destruct n as [|n]; simpl; [exact I|]. split; [exact I|].
        intros l k' Hl. inv Hl. simpl. split; [|discriminate].
        assert (Hsp' : spawn_safe n) by (apply spawn_safe_mono with (n := S n); [lia|exact Hsp]).
        destruct (rnorm r1) as [h1|] eqn:En1.
        + destruct (check_stmt p guard call h1 s2) as [r2|] eqn:E2; [|discriminate].
          inversion Hc; subst; clear Hc. simpl in Hn, He.
          apply (IH1 _ _ E1 n Hsp').
          * intros h' E. rewrite En1 in E. inversion E; subst h'.
            apply (IH2 _ _ E2 n Hsp').
            -- intros h'' E'. apply safe_mono with (n := S n); [lia|]. apply Hn. exact E'.
            -- intros m h'' Hin. apply safe_mono with (n := S n); [lia|].
               apply He. apply in_add_exits_r. exact Hin.
          * intros m h' Hin. apply safe_exit_skip.
            apply safe_mono with (n := S n); [lia|].
            apply He. apply in_add_exits_l. exact Hin.
        + inversion Hc; subst; clear Hc.
          apply (IH1 _ _ E1 n Hsp').
          * intros h' E. rewrite En1 in E. discriminate.
          * intros m h' Hin. apply safe_exit_skip.
            apply safe_mono with (n := S n); [lia|]. apply He. exact Hin.
      - (* SAlt *)
        simpl in Hc. destruct (check_stmt p guard call h s1) as [r1|] eqn:E1; [|discriminate].
        destruct (check_stmt p guard call h s2) as [r2|] eqn:E2; [|discriminate].
        destruct (merge_norm (rnorm r1) (rnorm r2)) as [nn|] eqn:Em; [|discriminate].
        inversion Hc; subst; clear Hc. intros n Hsp k Hn He. simpl in Hn, He.
        destruct n as [|n]; simpl; [exact I|]. split; [exact I|].
        assert (Hsp' : spawn_safe n) by (apply spawn_safe_mono with (n := S n); [lia|exact Hsp]).
        intros l k' Hl. inv Hl; simpl; (split; [|discriminate]).
        + apply (IH1 _ _ E1 n Hsp').
          * intros h' E. apply safe_mono with (n := S n); [lia|]. apply Hn.
            eapply merge_norm_l; eauto.
          * intros m h' Hin. apply safe_mono with (n := S n); [lia|].
            apply He. apply in_add_exits_l. exact Hin.
        + apply (IH2 _ _ E2 n Hsp').
          * intros h' E. apply safe_mono with (n := S n); [lia|]. apply Hn.
            eapply merge_norm_r; eauto.
          * intros m h' Hin. apply safe_mono with (n := S n); [lia|].
            apply He. apply in_add_exits_r. exact Hin.
      - (* SLoop *)
        simpl in Hc. destruct (check_stmt p guard call h b) as [rb|] eqn:Eb; [|discriminate].
        assert (Hr : rexits r = rexits rb /\ (forall h', rnorm rb = Some h' -> h' = h)).
        { destruct (rnorm rb) as [h'|] eqn:En.
          - destruct (held_eq_dec h' h); [|discriminate]. inversion Hc; subst. simpl.
            split; [reflexivity|]. intros h'' E. congruence.
          - inversion Hc; subst. simpl. split; [reflexivity|]. intros h'' E. discriminate. }
        destruct Hr as [Hre Hrn]. clear Hc.
        induction n as [|n IHn]; intros Hsp k Hn He; simpl; [exact I|]. split; [exact I|].
        intros l k' Hl. inv Hl. simpl. split; [|discriminate].
        assert (Hsp' : spawn_safe n) by (apply spawn_safe_mono with (n := S n); [lia|exact Hsp]).
        assert (He' : forall m h', In (m, h') (rexits r) -> safe_n n h' (KS (SExit m) :: k)).
        { intros m h' Hin. apply safe_mono with (n := S n); [lia|]. apply He. exact Hin. }
        apply (IHb _ _ Eb n Hsp').
        + intros h' E. rewrite (Hrn _ E). apply IHn; [exact Hsp'| |exact He'].
          intros h'' E'. apply safe_mono with (n := S n); [lia|]. apply Hn. exact E'.
        + intros m h' Hin. apply safe_exit_skip. apply He'. rewrite Hre. exact Hin.
      - (* SBlock *)
        simpl in Hc. destruct (check_stmt p guard call h b) as [rb|] eqn:Eb; [|discriminate].
        destruct (block_exits (rexits rb) (rnorm rb)) as [[nn out]|] eqn:Ebe; [|discriminate].
        inversion Hc; subst; clear Hc. intros n Hsp k Hn He. simpl in Hn, He.
        destruct (block_exits_spec _ _ _ _ Ebe) as [B1 [B2 B3]].
        destruct n as [|n]; simpl; [exact I|]. split; [exact I|].
        intros l k' Hl. inv Hl. simpl. split; [|discriminate].
        assert (Hsp' : spawn_safe n) by (apply spawn_safe_mono with (n := S n); [lia|exact Hsp]).
        apply (IHb _ _ Eb n Hsp').
        + intros h' E. apply safe_blockend.
          apply safe_mono with (n := S n); [lia|]. apply Hn. apply B1. exact E.
        + intros m h' Hin. destruct m as [|m].
          * apply safe_exit_0. apply safe_mono with (n := S n); [lia|].
            apply Hn. apply B2. exact Hin.
          * apply safe_exit_S. apply safe_mono with (n := S n); [lia|].
            apply He. apply B3. exact Hin.
      - (* SExit *)
        simpl in Hc. inversion Hc; subst; clear Hc. intros n Hsp k _ He.
        apply He. simpl. left. reflexivity.
    Qed.
  End StmtSound.

  Lemma check_call_sound : forall fuel f h ro,
    check_call p guard fuel f h = Some ro ->
    exists b, body p f = Some b /\
      forall n, spawn_safe n -> forall k,
        (forall h', ro = Some h' -> safe_n n h' k) ->
        safe_n n h (KS b :: KRet :: k).
  Proof.
    induction fuel as [|fuel IH]; intros f h ro Hc; simpl in Hc; [discriminate|].
    destruct (body p f) as [b|] eqn:Eb; [|discriminate].
    destruct (check_stmt p guard
               (fun f' h' => if f' <? f then check_call p guard fuel f' h' else None) h b)
      as [r|] eqn:Es; [|discriminate].
    destruct (rexits r) as [|x xs] eqn:Er; simpl in Hc; [|discriminate].
    inversion Hc; subst; clear Hc.
    exists b. split; [reflexivity|]. intros n Hsp k Hn.
    eapply check_stmt_sound; [|exact Es|exact Hsp| |].
    - intros f' h' ro' Hcall. destruct (f' <? f); [|discriminate]. apply IH. exact Hcall.
    - intros h' E. apply safe_ret. apply Hn. exact E.
    - intros m h' Hin. rewrite Er in Hin. destruct Hin.
  Qed.

  Lemma check_root_safe_n : forall n f,
    spawn_safe n -> check_root p guard f = true -> safe_n n [] [KS (SCall f)].
  Proof.
    intros n f Hsp Hr. unfold check_root in Hr.
    destruct (check_call p guard (S (List.length p)) f []) as [ro|] eqn:Ec; [|discriminate].
    destruct (check_call_sound _ _ _ _ Ec) as [b [Hb Hs]].
    destruct n as [|n]; simpl; [exact I|]. split; [congruence|].
    intros l k' Hl. inv Hl. simpl. split; [|discriminate].
    match goal with H : body p f = Some ?b0 |- _ => rewrite Hb in H; inversion H; subst end.
    apply Hs; [apply spawn_safe_mono with (n := S n); [lia|exact Hsp]|].
    intros h' E. subst ro. destruct h'; [apply safe_nil|discriminate].
  Qed.

  Hypothesis program_ok : check_program p guard = true.

  Lemma root_checked : forall f,
    is_entry p f || is_spawn p f = true -> check_root p guard f = true.
  Proof.
    intros f Hf. unfold check_program in program_ok.
    rewrite forallb_forall in program_ok.
    assert (Hlt : f < List.length p).
    { unfold is_entry, is_spawn in Hf. destruct (nth_error p f) eqn:E.
      - eapply nth_error_lt; eauto.
      - discriminate. }
    specialize (program_ok f). rewrite Hf in program_ok. apply program_ok.
    apply in_seq. lia.
  Qed.

  Lemma roots_safe : forall f, is_entry p f || is_spawn p f = true -> safe [] [KS (SCall f)].
  Proof.
    assert (H : forall n, spawn_safe n /\
                forall f, is_entry p f || is_spawn p f = true -> safe_n n [] [KS (SCall f)]).
    { induction n as [|n [IHsp IHr]].
      - split; [intros m f Hm; lia|intros; exact I].
      - assert (Hsp : spawn_safe (S n)).
        { intros m f Hm Hf. apply safe_mono with (n := n); [lia|].
          apply IHr. rewrite Hf. apply orb_true_r. }
        split; [exact Hsp|]. intros f Hf. apply check_root_safe_n; [exact Hsp|].
        apply root_checked. exact Hf. }
    intros f Hf n. apply H. exact Hf.
  Qed.
End Safe.
